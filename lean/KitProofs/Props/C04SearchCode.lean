/-
C04 (part `Next`, the search itself) — the model is the code: `dayStart`, `dayMatches` and
`(*SpecSchedule).Next` of cron/spec.go as TRANSLATED from /repo on this run
(`KitModel/Generated/CodeC04Search.lean`, written by `harness/cmd/go2lean`: the five `for` loops
`SpecSchedule_Next_loop1..5`, the region of the label `WRAP` re-entered by every `goto WRAP`, the
entry `SpecSchedule_Next`) compute exactly what the hand-written model `Kit.CronSpec.next`
(`KitModel/CronSpec.lean`) computes — so the property theorems of `Props/C04Next.lean` and
`Props/C04Dst.lean` about `next` (sound, minimal, zero-correct, terminating) are theorems about the
translated source text (`next_code_post_fixed` below states them on the code for the fixed-offset
zones), and a change to the Go function changes the definition these theorems are about.

Route: `dayStart`/`dayMatches` (`dayStart_code_eq_model`, `dayMatches_code_eq_model`); each
translated loop equals the model's loop at EQUAL fuel, outcome by outcome (`loop1..5_code_eq_model`
with `encLoop`: `.next` ↦ `.brk`, `.wrap` ↦ `.jmp`, `.fuel` ↦ `.nofuel`); a model loop that ended
does not change with more fuel (`loop_mono`); the label region against `nextFrom` by induction on
the model's outer fuel (`wrap_code_eq_model`; the translated loops run on the region's remaining
fuel, the model's on `innerFuel = 200`, hence fuel `≥ outerFuel + innerFuel`); the entry
(`roundUp_code`, `cNext_eq_cWrap`, `next_code_eq_enc`, `next_code_eq_model`).

Trusted here: the translator, `KitModel/Go/Sem.lean` (Go's int64 wrap-around, `uint64` as
`BitVec 64`), and the reading of `time.Time` in the translation: an instant is its NANOSECONDS since
the Unix epoch (unbounded Int), `t.Add(d)` is `t + d`, `t.Nanosecond()` is `t % 10^9`, `After` is
`>`, one zone throughout; the wall-clock readings and calendar constructors are PARAMETERS of the
translated functions, instantiated below by the calendar model of `KitModel/CronSpec.lean` for a
zone `z` (`tYear … tTruncate`). All instants the search visits are whole seconds.
-/
import KitModel.CronSpec
import KitModel.Generated.CodeC04Search
import KitProofs.Lemmas.CronSpecFixed
import KitProofs.Lemmas.CronBridge
import KitProofs.Props.C04NextCode
import KitProofs.Props.C04Next

namespace Kit.CronSpec.SearchCode
open Kit.CronSpec Kit.GoSem Kit.CronSpec.Code Kit.Generated.CodeC04Search

/-! ### the instantiation of the `time.Time` parameters by the calendar model -/

def tYear (z : Zone) (n : Int) : Int := year z (n / 1000000000)
def tMonth (z : Zone) (n : Int) : Int := month z (n / 1000000000)
def tDay (z : Zone) (n : Int) : Int := day z (n / 1000000000)
def tHour (z : Zone) (n : Int) : Int := hour z (n / 1000000000)
def tMinute (z : Zone) (n : Int) : Int := minute z (n / 1000000000)
def tSecond (z : Zone) (n : Int) : Int := second z (n / 1000000000)
def tWeekday (z : Zone) (n : Int) : Int := wday z (n / 1000000000)
def tDate (z : Zone) (y mo d h mi s _ns : Int) : Int := 1000000000 * goDate z y mo d h mi s
def tAddDate (z : Zone) (n y m d : Int) : Int := 1000000000 * addDate z (n / 1000000000) y m d
def tTruncate (n d : Int) : Int := 1000000000 * truncate (n / 1000000000) (d / 1000000000)

theorem ns_div (t : Int) : 1000000000 * t / 1000000000 = t :=
  Int.mul_ediv_cancel_left t (by decide)

@[simp] theorem tYear_ns (z : Zone) (t : Int) : tYear z (1000000000 * t) = year z t := by
  unfold tYear; rw [ns_div]
@[simp] theorem tMonth_ns (z : Zone) (t : Int) : tMonth z (1000000000 * t) = month z t := by
  unfold tMonth; rw [ns_div]
@[simp] theorem tDay_ns (z : Zone) (t : Int) : tDay z (1000000000 * t) = day z t := by
  unfold tDay; rw [ns_div]
@[simp] theorem tHour_ns (z : Zone) (t : Int) : tHour z (1000000000 * t) = hour z t := by
  unfold tHour; rw [ns_div]
@[simp] theorem tMinute_ns (z : Zone) (t : Int) : tMinute z (1000000000 * t) = minute z t := by
  unfold tMinute; rw [ns_div]
@[simp] theorem tSecond_ns (z : Zone) (t : Int) : tSecond z (1000000000 * t) = second z t := by
  unfold tSecond; rw [ns_div]
@[simp] theorem tWeekday_ns (z : Zone) (t : Int) : tWeekday z (1000000000 * t) = wday z t := by
  unfold tWeekday; rw [ns_div]
@[simp] theorem tAddDate_ns (z : Zone) (t y m d : Int) :
    tAddDate z (1000000000 * t) y m d = 1000000000 * addDate z t y m d := by
  unfold tAddDate; rw [ns_div]
@[simp] theorem tTruncate_minute (t : Int) :
    tTruncate (1000000000 * t) 60000000000 = 1000000000 * truncate t 60 := by
  unfold tTruncate; rw [ns_div]; rfl
@[simp] theorem tTruncate_second (t : Int) :
    tTruncate (1000000000 * t) 1000000000 = 1000000000 * truncate t 1 := by
  unfold tTruncate; rw [ns_div]; rfl

theorem hour_range (z : Zone) (u : Int) : 0 ≤ hour z u ∧ hour z u < 24 := by
  simp only [hour]; omega
theorem minute_range (z : Zone) (u : Int) : 0 ≤ minute z u ∧ minute z u < 60 := by
  simp only [minute]; omega
theorem second_range (z : Zone) (u : Int) : 0 ≤ second z u ∧ second z u < 60 := by
  simp only [second]; omega

/-! ### `dayStart` -/

/-- The translated `dayStart` under the instantiation, as an abbreviation. -/
abbrev cDayStart (z : Zone) (n : Int) : Res Int :=
  Kit.Generated.CodeC04Search.dayStart (tYear z) (tMonth z) (tDay z) (tHour z) (tMinute z)
    (tSecond z) (tWeekday z) (tDate z) (tAddDate z) tTruncate n

/-- **The translated `dayStart` is the model's `dayStart`** on every whole-second instant of every
zone (the two `time.Duration` products do not wrap: `t.Hour()` is in `0..23`). -/
theorem dayStart_code_eq_model (z : Zone) (t : Int) :
    cDayStart z (1000000000 * t) = .ok (1000000000 * Kit.CronSpec.dayStart z t) := by
  have hh := hour_range z t
  unfold cDayStart Kit.Generated.CodeC04Search.dayStart Kit.CronSpec.dayStart
  simp only [tHour_ns, tDay_ns]
  by_cases h12 : hour z t > 12
  · simp only [h12, decide_true, ↓reduceIte]
    rw [wrapI64_of_in (x := 24 - hour z t) (by unfold InI64; omega),
      wrapI64_of_in (by unfold InI64; omega)]
    congr 1; omega
  · simp only [h12, decide_false, Bool.false_eq_true, ↓reduceIte]
    by_cases h0 : hour z t > 0
    · simp only [h0, decide_true, ↓reduceIte]
      rw [wrapI64_of_in (x := -hour z t) (by unfold InI64; omega),
        wrapI64_of_in (by unfold InI64; omega)]
      have e : 1000000000 * t + -hour z t * 3600000000000 = 1000000000 * (t - hour z t * 3600) := by
        omega
      rw [e, tDay_ns]
      by_cases hd : day z (t - hour z t * 3600) = day z t
      · simp [hd]
      · simp [hd]
    · simp only [h0, decide_false, Bool.false_eq_true, ↓reduceIte]
      have e : 1000000000 * t + -3600000000000 = 1000000000 * (t - 3600) := by omega
      rw [e, tDay_ns, tHour_ns]
      by_cases hc : hour z (t - 3600) = 0 ∧ day z (t - 3600) = day z t
      · simp [hc]
      · simp only [hc, ↓reduceIte]
        have : ((hour z (t - 3600) == 0) && (day z (t - 3600) == day z t)) = false := by
          simpa using hc
        simp [this]

/-! ### `dayMatches` -/

abbrev cDayMatches (z : Zone) (s : Sched) (n : Int) : Res Bool :=
  Kit.Generated.CodeC04Search.dayMatches (tYear z) (tMonth z) (tDay z) (tHour z) (tMinute z)
    (tSecond z) (tWeekday z) (tDate z) (tAddDate z) tTruncate
    (BitVec.ofNat 64 s.dom) (BitVec.ofNat 64 s.dow) n

/-- **The translated `dayMatches` is the model's `dayMatches`** on every whole-second instant of
every zone; the only hypotheses are that the two bit sets are `uint64`s. -/
theorem dayMatches_code_eq_model (s : Sched) (z : Zone) (t : Int)
    (hd : s.dom < 2 ^ 64) (hw : s.dow < 2 ^ 64) :
    cDayMatches z s (1000000000 * t) = .ok (Kit.CronSpec.dayMatches s z t) := by
  have h1 := day_range z t
  have h2 := Kit.CronBridge.wday_range z t
  unfold cDayMatches Kit.Generated.CodeC04Search.dayMatches Kit.CronSpec.dayMatches
  simp only [tDay_ns, tWeekday_ns,
    bit_code_eq_has s.dom hd (day z t) (by omega) (by omega),
    bit_code_eq_has s.dow hw (wday z t) (by omega) (by omega), star_code_eq]
  split <;> rfl

/-! ### the loop conditions -/

/-- `1<<uint(d) & set == 0` is the negation of the model's `has`. -/
theorem bit_code_eqz (set : Nat) (hs : set < 2 ^ 64) (d : Int) (h0 : 0 ≤ d)
    (h1 : d < 18446744073709551616) :
    ((((1#64) <<< (u64OfInt d).toNat) &&& BitVec.ofNat 64 set) == (0#64)) = !has set d := by
  rw [← bit_code_eq_has set hs d h0 h1]
  generalize (((1#64) <<< (u64OfInt d).toNat) &&& BitVec.ofNat 64 set) = x
  by_cases hx : x = 0#64
  · subst hx; decide
  · have := (u64_pos_iff x).2 hx
    simp [hx, this]

/-- How a model loop outcome reads in the translated loop's result type (the carried tuple is
`(t, added)`; instants are nanoseconds). -/
def encLoop : LoopOut → Res (LoopOutJ Int (Int × Bool))
  | .next t a => .ok (.brk (1000000000 * t, a))
  | .wrap t a => .ok (.jmp (1000000000 * t, a))
  | .fuel => .nofuel

section loops
variable (z : Zone) (b : Bool) (s : Sched) (yl : Int)

abbrev cLoop5 (fuel : Nat) (n : Int) (added : Bool) :=
  SpecSchedule_Next_loop5 fuel (tYear z) (tMonth z) (tDay z) (tHour z) (tMinute z) (tSecond z)
    (tWeekday z) (tDate z) (tAddDate z) tTruncate b (BitVec.ofNat 64 s.second)
    (BitVec.ofNat 64 s.minute) (BitVec.ofNat 64 s.hour) (BitVec.ofNat 64 s.dom)
    (BitVec.ofNat 64 s.month) (BitVec.ofNat 64 s.dow) () n () () added yl

/-- **The translated second loop is the model's `secondLoop`**, at equal fuel, from every whole-second
instant, for both values of `added`: same outcome (`encLoop`), same carried `(t, added)`. -/
theorem loop5_code_eq_model (hs : s.second < 2 ^ 64) (f : Nat) : ∀ (t : Int) (a : Bool),
    cLoop5 z b s yl f (1000000000 * t) a = encLoop (secondLoop s z f t a) := by
  induction f with
  | zero => intro t a; rfl
  | succ f ih =>
    intro t a
    have hr := second_range z t
    unfold cLoop5 at ih ⊢
    rw [SpecSchedule_Next_loop5]
    simp only [tSecond_ns, bit_code_eqz s.second hs (second z t) (by omega) (by omega)]
    unfold secondLoop loop
    cases hh : has s.second (second z t)
    · simp only [Bool.not_false, ↓reduceIte, Bool.false_eq_true]
      cases a
      · simp only [Bool.not_false, ↓reduceIte, Bool.false_eq_true, tTruncate_second]
        have e : 1000000000 * truncate t 1 + 1000000000 = 1000000000 * (truncate t 1 + 1) := by
          omega
        rw [e, tSecond_ns]
        by_cases hw : second z (truncate t 1 + 1) = 0
        · simp [hw, encLoop]
        · simp only [hw, beq_iff_eq, ↓reduceIte, decide_false, Bool.false_eq_true]
          exact ih _ _
      · simp only [Bool.not_true, ↓reduceIte, Bool.false_eq_true]
        have e : 1000000000 * t + 1000000000 = 1000000000 * (t + 1) := by omega
        rw [e, tSecond_ns]
        by_cases hw : second z (t + 1) = 0
        · simp [hw, encLoop]
        · simp only [hw, beq_iff_eq, ↓reduceIte, decide_false, Bool.false_eq_true]
          exact ih _ _
    · simp [encLoop]

abbrev cLoop4 (fuel : Nat) (n : Int) (added : Bool) :=
  SpecSchedule_Next_loop4 fuel (tYear z) (tMonth z) (tDay z) (tHour z) (tMinute z) (tSecond z)
    (tWeekday z) (tDate z) (tAddDate z) tTruncate b (BitVec.ofNat 64 s.second)
    (BitVec.ofNat 64 s.minute) (BitVec.ofNat 64 s.hour) (BitVec.ofNat 64 s.dom)
    (BitVec.ofNat 64 s.month) (BitVec.ofNat 64 s.dow) () n () () added yl

/-- **The translated minute loop is the model's `minuteLoop`**, at equal fuel, from every whole-second
instant, for both values of `added`: same outcome (`encLoop`), same carried `(t, added)`. -/
theorem loop4_code_eq_model (hs : s.minute < 2 ^ 64) (f : Nat) : ∀ (t : Int) (a : Bool),
    cLoop4 z b s yl f (1000000000 * t) a = encLoop (minuteLoop s z f t a) := by
  induction f with
  | zero => intro t a; rfl
  | succ f ih =>
    intro t a
    have hr := minute_range z t
    unfold cLoop4 at ih ⊢
    rw [SpecSchedule_Next_loop4]
    simp only [tMinute_ns, bit_code_eqz s.minute hs (minute z t) (by omega) (by omega)]
    unfold minuteLoop loop
    cases hh : has s.minute (minute z t)
    · simp only [Bool.not_false, ↓reduceIte, Bool.false_eq_true]
      cases a
      · simp only [Bool.not_false, ↓reduceIte, Bool.false_eq_true, tTruncate_minute]
        have e : 1000000000 * truncate t 60 + 60000000000 = 1000000000 * (truncate t 60 + 60) := by
          omega
        rw [e, tMinute_ns]
        by_cases hw : minute z (truncate t 60 + 60) = 0
        · simp [hw, encLoop]
        · simp only [hw, beq_iff_eq, ↓reduceIte, decide_false, Bool.false_eq_true]
          exact ih _ _
      · simp only [Bool.not_true, ↓reduceIte, Bool.false_eq_true]
        have e : 1000000000 * t + 60000000000 = 1000000000 * (t + 60) := by omega
        rw [e, tMinute_ns]
        by_cases hw : minute z (t + 60) = 0
        · simp [hw, encLoop]
        · simp only [hw, beq_iff_eq, ↓reduceIte, decide_false, Bool.false_eq_true]
          exact ih _ _
    · simp [encLoop]

abbrev cLoop3 (fuel : Nat) (n : Int) (added : Bool) :=
  SpecSchedule_Next_loop3 fuel (tYear z) (tMonth z) (tDay z) (tHour z) (tMinute z) (tSecond z)
    (tWeekday z) (tDate z) (tAddDate z) tTruncate b (BitVec.ofNat 64 s.second)
    (BitVec.ofNat 64 s.minute) (BitVec.ofNat 64 s.hour) (BitVec.ofNat 64 s.dom)
    (BitVec.ofNat 64 s.month) (BitVec.ofNat 64 s.dow) () n () () added yl

/-- **The translated hour loop is the model's `hourLoop`**, at equal fuel, from every whole-second
instant, for both values of `added`: same outcome (`encLoop`), same carried `(t, added)`. -/
theorem loop3_code_eq_model (hs : s.hour < 2 ^ 64) (f : Nat) : ∀ (t : Int) (a : Bool),
    cLoop3 z b s yl f (1000000000 * t) a = encLoop (hourLoop s z f t a) := by
  induction f with
  | zero => intro t a; rfl
  | succ f ih =>
    intro t a
    have hr := hour_range z t
    unfold cLoop3 at ih ⊢
    rw [SpecSchedule_Next_loop3]
    simp only [tHour_ns, bit_code_eqz s.hour hs (hour z t) (by omega) (by omega)]
    unfold hourLoop loop
    cases hh : has s.hour (hour z t)
    · simp only [Bool.not_false, ↓reduceIte, Bool.false_eq_true]
      cases a
      · simp only [Bool.not_false, ↓reduceIte, Bool.false_eq_true, tDate, tYear_ns, tMonth_ns,
          tDay_ns]
        generalize goDate z (year z t) (month z t) (day z t) (hour z t) 0 0 = t1
        have e : 1000000000 * t1 + 3600000000000 = 1000000000 * (t1 + 3600) := by omega
        rw [e, tHour_ns, tDay_ns]
        by_cases hw : hour z (t1 + 3600) = 0 ∨ day z (t1 + 3600) ≠ day z t1
        · have : ((hour z (t1 + 3600) == 0) || (day z (t1 + 3600) != day z t1)) = true := by
            simpa using hw
          simp [hw, this, encLoop]
        · have : ((hour z (t1 + 3600) == 0) || (day z (t1 + 3600) != day z t1)) = false := by
            simpa using hw
          simp only [this, hw, ↓reduceIte, decide_false, Bool.false_eq_true]
          exact ih _ _
      · simp only [Bool.not_true, ↓reduceIte, Bool.false_eq_true, tDay_ns]
        have e : 1000000000 * t + 3600000000000 = 1000000000 * (t + 3600) := by omega
        rw [e, tHour_ns, tDay_ns]
        by_cases hw : hour z (t + 3600) = 0 ∨ day z (t + 3600) ≠ day z t
        · have : ((hour z (t + 3600) == 0) || (day z (t + 3600) != day z t)) = true := by
            simpa using hw
          simp [hw, this, encLoop]
        · have : ((hour z (t + 3600) == 0) || (day z (t + 3600) != day z t)) = false := by
            simpa using hw
          simp only [this, hw, ↓reduceIte, decide_false, Bool.false_eq_true]
          exact ih _ _
    · simp [encLoop]

abbrev cLoop2 (fuel : Nat) (n : Int) (added : Bool) :=
  SpecSchedule_Next_loop2 fuel (tYear z) (tMonth z) (tDay z) (tHour z) (tMinute z) (tSecond z)
    (tWeekday z) (tDate z) (tAddDate z) tTruncate b (BitVec.ofNat 64 s.second)
    (BitVec.ofNat 64 s.minute) (BitVec.ofNat 64 s.hour) (BitVec.ofNat 64 s.dom)
    (BitVec.ofNat 64 s.month) (BitVec.ofNat 64 s.dow) () n () () added yl

/-- **The translated day loop is the model's `dayLoop`**, at equal fuel, from every whole-second
instant, for both values of `added`: same outcome (`encLoop`), same carried `(t, added)`. -/
theorem loop2_code_eq_model (hd : s.dom < 2 ^ 64) (hw : s.dow < 2 ^ 64) (f : Nat) :
    ∀ (t : Int) (a : Bool),
    cLoop2 z b s yl f (1000000000 * t) a = encLoop (dayLoop s z f t a) := by
  induction f with
  | zero => intro t a; rfl
  | succ f ih =>
    intro t a
    have hdm := dayMatches_code_eq_model s z t hd hw
    unfold cLoop2 at ih ⊢
    unfold cDayMatches at hdm
    rw [SpecSchedule_Next_loop2]
    simp only [hdm]
    unfold dayLoop loop
    cases hh : Kit.CronSpec.dayMatches s z t
    · simp only [Bool.not_false, ↓reduceIte, Bool.false_eq_true]
      have key : ∀ t1 : Int,
          (match cDayStart z (tAddDate z (1000000000 * t1) 0 0 1) with
            | .panic msg => (.panic msg : Res (LoopOutJ Int (Int × Bool)))
            | .nofuel => .nofuel
            | .ok next =>
              if (!(decide (next > 1000000000 * t1))) then
                match cDayStart z (tAddDate z (1000000000 * t1) 0 0 2) with
                | .panic msg => .panic msg
                | .nofuel => .nofuel
                | .ok next =>
                  if (tDay z next == 1) then .ok (.jmp (next, true))
                  else cLoop2 z b s yl f next true
              else
                if (tDay z next == 1) then .ok (.jmp (next, true))
                else cLoop2 z b s yl f next true) =
          encLoop (if day z (dayInc z t1) = 1 then .wrap (dayInc z t1) true
            else dayLoop s z f (dayInc z t1) true) := by
        intro t1
        simp only [tAddDate_ns, dayStart_code_eq_model]
        unfold dayInc
        by_cases h0 : t1 < Kit.CronSpec.dayStart z (addDate z t1 0 0 1)
        · have h : 1000000000 * t1 < 1000000000 * Kit.CronSpec.dayStart z (addDate z t1 0 0 1) := by
            omega
          simp only [h, h0, decide_true, Bool.not_true, Bool.false_eq_true, ↓reduceIte,
            tDay_ns]
          by_cases hw1 : day z (Kit.CronSpec.dayStart z (addDate z t1 0 0 1)) = 1
          · simp [hw1, encLoop]
          · simp only [hw1, beq_iff_eq, ↓reduceIte]
            exact ih _ _
        · have h : ¬ 1000000000 * t1 < 1000000000 * Kit.CronSpec.dayStart z (addDate z t1 0 0 1) := by
            omega
          simp only [h, h0, decide_false, Bool.not_false, ↓reduceIte, tDay_ns]
          by_cases hw1 : day z (Kit.CronSpec.dayStart z (addDate z t1 0 0 2)) = 1
          · simp [hw1, encLoop]
          · simp only [hw1, beq_iff_eq, ↓reduceIte]
            exact ih _ _
      unfold cLoop2 cDayStart at key
      cases a
      · simp only [Bool.not_false, ↓reduceIte, Bool.false_eq_true, tDate, tYear_ns, tMonth_ns,
          tDay_ns, decide_eq_true_eq]
        exact key _
      · simp only [Bool.not_true, ↓reduceIte, Bool.false_eq_true, decide_eq_true_eq]
        exact key _
    · simp [encLoop]

abbrev cLoop1 (fuel : Nat) (n : Int) (added : Bool) :=
  SpecSchedule_Next_loop1 fuel (tYear z) (tMonth z) (tDay z) (tHour z) (tMinute z) (tSecond z)
    (tWeekday z) (tDate z) (tAddDate z) tTruncate b (BitVec.ofNat 64 s.second)
    (BitVec.ofNat 64 s.minute) (BitVec.ofNat 64 s.hour) (BitVec.ofNat 64 s.dom)
    (BitVec.ofNat 64 s.month) (BitVec.ofNat 64 s.dow) () n () () added yl

/-- **The translated month loop is the model's `monthLoop`**, at equal fuel, from every whole-second
instant, for both values of `added`: same outcome (`encLoop`), same carried `(t, added)`. -/
theorem loop1_code_eq_model (hs : s.month < 2 ^ 64) (f : Nat) : ∀ (t : Int) (a : Bool),
    cLoop1 z b s yl f (1000000000 * t) a = encLoop (monthLoop s z f t a) := by
  induction f with
  | zero => intro t a; rfl
  | succ f ih =>
    intro t a
    have hr := month_range z t
    unfold cLoop1 at ih ⊢
    rw [SpecSchedule_Next_loop1]
    simp only [tMonth_ns, bit_code_eqz s.month hs (month z t) (by omega) (by omega)]
    unfold monthLoop loop
    cases hh : has s.month (month z t)
    · simp only [Bool.not_false, ↓reduceIte, Bool.false_eq_true]
      have key : ∀ t1 : Int,
          (match cDayStart z (tAddDate z (1000000000 * t1) 0 1 0) with
            | .panic msg => (.panic msg : Res (LoopOutJ Int (Int × Bool)))
            | .nofuel => .nofuel
            | .ok t2 =>
              if (tMonth z t2 == 1) then .ok (.jmp (t2, true))
              else cLoop1 z b s yl f t2 true) =
          encLoop (if month z (Kit.CronSpec.dayStart z (addDate z t1 0 1 0)) = 1
            then .wrap (Kit.CronSpec.dayStart z (addDate z t1 0 1 0)) true
            else monthLoop s z f (Kit.CronSpec.dayStart z (addDate z t1 0 1 0)) true) := by
        intro t1
        simp only [tAddDate_ns, dayStart_code_eq_model, tMonth_ns]
        by_cases hw1 : month z (Kit.CronSpec.dayStart z (addDate z t1 0 1 0)) = 1
        · simp [hw1, encLoop]
        · simp only [hw1, beq_iff_eq, ↓reduceIte]
          exact ih _ _
      unfold cLoop1 cDayStart at key
      cases a
      · have hds := dayStart_code_eq_model z (goDate z (year z t) (month z t) 1 0 0 0)
        unfold cDayStart at hds
        simp only [Bool.not_false, ↓reduceIte, Bool.false_eq_true, tDate, tYear_ns, hds,
          decide_eq_true_eq]
        exact key _
      · simp only [Bool.not_true, ↓reduceIte, Bool.false_eq_true, decide_eq_true_eq]
        exact key _
    · simp [encLoop]

end loops

/-! ### more fuel does not change a model loop that ended -/

theorem loop_mono (ok : Int → Bool) (reset inc : Int → Int) (wrapped : Int → Int → Bool) :
    ∀ (f : Nat) (t : Int) (a : Bool), loop ok reset inc wrapped f t a ≠ .fuel →
      ∀ F, f ≤ F → loop ok reset inc wrapped F t a = loop ok reset inc wrapped f t a := by
  intro f
  induction f with
  | zero => intro t a h; exact absurd rfl h
  | succ f ih =>
    intro t a h F hF
    obtain ⟨F', rfl⟩ : ∃ F', F = F' + 1 := ⟨F - 1, by omega⟩
    simp only [loop] at h ⊢
    by_cases hok : ok t = true
    · simp only [hok, ↓reduceIte]
    · simp only [hok, Bool.false_eq_true, ↓reduceIte] at h ⊢
      generalize (if a = true then t else reset t) = t1 at h ⊢
      by_cases hwr : wrapped t1 (inc t1) = true
      · simp only [hwr, ↓reduceIte]
      · simp only [hwr, Bool.false_eq_true, ↓reduceIte] at h ⊢
        exact ih _ _ h F' (by omega)

/-! ### one pass and the region of the label `WRAP` -/

/-- How a model result reads as the translated function's result. -/
def encResult : Result → Res Int
  | .at r => .ok (1000000000 * r)
  | .zero => .ok (-62135596800000000000)
  | .fuel => .nofuel

/-- What the translated code does with a loop's outcome: propagate, re-enter `WRAP`, or go on. -/
def cBind (r : Res (LoopOutJ Int (Int × Bool))) (jmp brk : Int → Bool → Res Int) : Res Int :=
  match r with
  | .panic m => .panic m
  | .nofuel => .nofuel
  | .ok (.ret v) => .ok v
  | .ok (.jmp (t, a)) => jmp t a
  | .ok (.brk (t, a)) => brk t a

/-- What the model does with a pass's outcome (the `match` of `nextFrom`). -/
def fin (s : Sched) (z : Zone) (yl : Int) (f : Nat) : PassOut → Result
  | .fuel => .fuel
  | .wrap t a => nextFrom s z yl f t a
  | .done r => .at r

theorem nextFrom_succ (s : Sched) (z : Zone) (yl : Int) (f : Nat) (t : Int) (a : Bool) :
    nextFrom s z yl (f + 1) t a =
      if year z t > yl then .zero else fin s z yl f (pass s z t a) := by
  simp only [nextFrom]
  split
  · rfl
  · unfold fin; split <;> simp_all

theorem bind_sim (r : Res (LoopOutJ Int (Int × Bool))) (o : LoopOut) (k : Int → Bool → PassOut)
    (jmp brk : Int → Bool → Res Int) (fn : PassOut → Result) (hfuel : fn .fuel = .fuel)
    (hr : o ≠ .fuel → r = encLoop o)
    (hj : ∀ t a, fn (.wrap t a) ≠ .fuel → jmp (1000000000 * t) a = encResult (fn (.wrap t a)))
    (hb : ∀ t a, fn (k t a) ≠ .fuel → brk (1000000000 * t) a = encResult (fn (k t a)))
    (h : fn (o.andThen k) ≠ .fuel) : cBind r jmp brk = encResult (fn (o.andThen k)) := by
  cases o with
  | fuel => exact absurd hfuel h
  | wrap t a =>
    rw [hr (by intro h; cases h)]
    exact hj t a h
  | next t a =>
    rw [hr (by intro h; cases h)]
    exact hb t a h

section wrap
variable (z : Zone) (b : Bool) (s : Sched) (yl : Int)

abbrev cWrap (fuel : Nat) (n : Int) (added : Bool) : Res Int :=
  SpecSchedule_Next_WRAP fuel (tYear z) (tMonth z) (tDay z) (tHour z) (tMinute z) (tSecond z)
    (tWeekday z) (tDate z) (tAddDate z) tTruncate b (BitVec.ofNat 64 s.second)
    (BitVec.ofNat 64 s.minute) (BitVec.ofNat 64 s.hour) (BitVec.ofNat 64 s.dom)
    (BitVec.ofNat 64 s.month) (BitVec.ofNat 64 s.dow) () n () () added yl

/-- The region of the label `WRAP` with one unit of fuel consumed, in terms of `cBind`. -/
theorem cWrap_succ (F : Nat) (n : Int) (a : Bool) :
    cWrap z b s yl (F + 1) n a =
      if decide (tYear z n > yl) then .ok (-62135596800000000000)
      else
        cBind (cLoop1 z b s yl F n a) (cWrap z b s yl F) fun n a =>
        cBind (cLoop2 z b s yl F n a) (cWrap z b s yl F) fun n a =>
        cBind (cLoop3 z b s yl F n a) (cWrap z b s yl F) fun n a =>
        cBind (cLoop4 z b s yl F n a) (cWrap z b s yl F) fun n a =>
        cBind (cLoop5 z b s yl F n a) (cWrap z b s yl F) fun n _ => .ok n := by
  unfold cWrap
  rw [SpecSchedule_Next_WRAP]
  rfl

/-- **The region of the label `WRAP` is the model's `nextFrom`**: whenever the model with outer fuel
`f` ends (`.at`/`.zero`), the translated region with any fuel `≥ f + innerFuel` gives the same
answer — every `goto WRAP` (from any of the five loops, `LoopOutJ.jmp`) is one recursive call of
`nextFrom`, with the same `(t, added)`. -/
theorem wrap_code_eq_model (h1 : s.second < 2 ^ 64) (h2 : s.minute < 2 ^ 64) (h3 : s.hour < 2 ^ 64)
    (h4 : s.dom < 2 ^ 64) (h5 : s.month < 2 ^ 64) (h6 : s.dow < 2 ^ 64) (f : Nat) :
    ∀ (t : Int) (a : Bool) (F : Nat), f + innerFuel ≤ F → nextFrom s z yl f t a ≠ .fuel →
      cWrap z b s yl F (1000000000 * t) a = encResult (nextFrom s z yl f t a) := by
  induction f with
  | zero => intro t a F _ h; exact absurd rfl h
  | succ f ih =>
    intro t a F hF h
    obtain ⟨F', rfl⟩ : ∃ F', F = F' + 1 := ⟨F - 1, by omega⟩
    have hF' : f + innerFuel ≤ F' := by omega
    have hI : innerFuel ≤ F' := by omega
    rw [cWrap_succ, tYear_ns]
    rw [nextFrom_succ] at h ⊢
    by_cases hy : year z t > yl
    · simp only [hy, decide_true, ↓reduceIte]; rfl
    · simp only [hy, decide_false, Bool.false_eq_true, ↓reduceIte] at h ⊢
      have hj : ∀ t a, fin s z yl f (.wrap t a) ≠ .fuel →
          cWrap z b s yl F' (1000000000 * t) a = encResult (fin s z yl f (.wrap t a)) :=
        fun t a hne => ih t a F' hF' hne
      unfold pass at h ⊢
      refine bind_sim _ _ _ _ _ _ rfl ?_ hj ?_ h
      · intro hne
        rw [loop1_code_eq_model z b s yl h5 F' t a]
        unfold monthLoop at hne ⊢
        rw [loop_mono _ _ _ _ _ _ _ hne F' hI]
      intro t a h
      refine bind_sim _ _ _ _ _ _ rfl ?_ hj ?_ h
      · intro hne
        rw [loop2_code_eq_model z b s yl h4 h6 F' t a]
        unfold dayLoop at hne ⊢
        rw [loop_mono _ _ _ _ _ _ _ hne F' hI]
      intro t a h
      refine bind_sim _ _ _ _ _ _ rfl ?_ hj ?_ h
      · intro hne
        rw [loop3_code_eq_model z b s yl h3 F' t a]
        unfold hourLoop at hne ⊢
        rw [loop_mono _ _ _ _ _ _ _ hne F' hI]
      intro t a h
      refine bind_sim _ _ _ _ _ _ rfl ?_ hj ?_ h
      · intro hne
        rw [loop4_code_eq_model z b s yl h2 F' t a]
        unfold minuteLoop at hne ⊢
        rw [loop_mono _ _ _ _ _ _ _ hne F' hI]
      intro t a h
      refine bind_sim _ _ _ _ _ _ rfl ?_ hj ?_ h
      · intro hne
        rw [loop5_code_eq_model z b s yl h1 F' t a]
        unfold secondLoop at hne ⊢
        rw [loop_mono _ _ _ _ _ _ _ hne F' hI]
      intro t a _
      rfl

end wrap

/-! ### the entry `(*SpecSchedule).Next` -/

abbrev cNext (z : Zone) (b : Bool) (s : Sched) (fuel : Nat) (tn : Int) : Res Int :=
  SpecSchedule_Next fuel (tYear z) (tMonth z) (tDay z) (tHour z) (tMinute z) (tSecond z)
    (tWeekday z) (tDate z) (tAddDate z) tTruncate b (BitVec.ofNat 64 s.second)
    (BitVec.ofNat 64 s.minute) (BitVec.ofNat 64 s.hour) (BitVec.ofNat 64 s.dom)
    (BitVec.ofNat 64 s.month) (BitVec.ofNat 64 s.dow) () tn

/-- `t.Add(1*time.Second - time.Duration(t.Nanosecond())*time.Nanosecond)` lands on the whole
second `roundUp tn`, for every instant (no wrap: the duration is in `1..10^9`). -/
theorem roundUp_code (tn : Int) :
    tn + wrapI64 (1000000000 - wrapI64 (tn % 1000000000 * 1)) = 1000000000 * roundUp tn := by
  have h1 : 0 ≤ tn % 1000000000 := Int.emod_nonneg _ (by decide)
  have h2 : tn % 1000000000 < 1000000000 := Int.emod_lt_of_pos _ (by decide)
  rw [Int.mul_one, wrapI64_of_in (x := tn % 1000000000) (by unfold InI64; omega),
    wrapI64_of_in (by unfold InI64; omega)]
  unfold roundUp
  omega

/-- The entry is the label region entered at the rounded-up instant with `added = false` and
`yearLimit = int(t.Year() + 5)` (wrapped to 64 bits), whatever `s.Location == time.Local` says. -/
theorem cNext_eq_cWrap (z : Zone) (b : Bool) (s : Sched) (fuel : Nat) (tn : Int) :
    cNext z b s fuel tn =
      cWrap z b s (wrapI64 (year z (roundUp tn) + 5)) fuel (1000000000 * roundUp tn) false := by
  unfold cNext cWrap SpecSchedule_Next
  cases b <;> simp only [roundUp_code, tYear_ns] <;> rfl

/-- **The translated `(*SpecSchedule).Next` is `Kit.CronSpec.next`** (as `encResult` reads the
model's answer: `.at r` ↦ the nanosecond instant `10^9 * r`, `.zero` ↦ the zero `time.Time`).
Hypotheses: the six sets are `uint64`s; `t.Year() + 5` at the rounded-up instant is an `int`
(the code computes `yearLimit` in 64 bits, the model in ℤ — see `yearLimit_wraps`); the model's own
loop bounds were not exhausted (`next_terminates`, `next_dst_*` show they are not for the zone
classes the C04 theorems cover); the fuel is at least `outerFuel + innerFuel`. Both values of
`s.Location == time.Local` (`b`). -/
theorem next_code_eq_enc (s : Sched) (z : Zone) (tn : Int) (b : Bool)
    (h1 : s.second < 2 ^ 64) (h2 : s.minute < 2 ^ 64) (h3 : s.hour < 2 ^ 64)
    (h4 : s.dom < 2 ^ 64) (h5 : s.month < 2 ^ 64) (h6 : s.dow < 2 ^ 64)
    (hy : InI64 (year z (roundUp tn) + 5)) (hne : next s z tn ≠ .fuel)
    (fuel : Nat) (hf : outerFuel + innerFuel ≤ fuel) :
    cNext z b s fuel tn = encResult (next s z tn) := by
  rw [cNext_eq_cWrap, wrapI64_of_in hy]
  exact wrap_code_eq_model z b s _ h1 h2 h3 h4 h5 h6 outerFuel _ _ fuel hf hne

/-- The statement in the two-clause form, on the translated function spelled out. -/
theorem next_code_eq_model (s : Sched) (z : Zone) (tn : Int) (b : Bool)
    (h1 : s.second < 2 ^ 64) (h2 : s.minute < 2 ^ 64) (h3 : s.hour < 2 ^ 64)
    (h4 : s.dom < 2 ^ 64) (h5 : s.month < 2 ^ 64) (h6 : s.dow < 2 ^ 64)
    (hy : InI64 (year z (roundUp tn) + 5)) (fuel : Nat) (hf : outerFuel + 200 ≤ fuel) :
    (∀ r, next s z tn = .at r →
      SpecSchedule_Next fuel (tYear z) (tMonth z) (tDay z) (tHour z) (tMinute z) (tSecond z)
        (tWeekday z) (tDate z) (tAddDate z) tTruncate b (BitVec.ofNat 64 s.second)
        (BitVec.ofNat 64 s.minute) (BitVec.ofNat 64 s.hour) (BitVec.ofNat 64 s.dom)
        (BitVec.ofNat 64 s.month) (BitVec.ofNat 64 s.dow) () tn = .ok (1000000000 * r)) ∧
    (next s z tn = .zero →
      SpecSchedule_Next fuel (tYear z) (tMonth z) (tDay z) (tHour z) (tMinute z) (tSecond z)
        (tWeekday z) (tDate z) (tAddDate z) tTruncate b (BitVec.ofNat 64 s.second)
        (BitVec.ofNat 64 s.minute) (BitVec.ofNat 64 s.hour) (BitVec.ofNat 64 s.dom)
        (BitVec.ofNat 64 s.month) (BitVec.ofNat 64 s.dow) () tn = .ok (-62135596800000000000)) := by
  constructor
  · intro r hr
    have := next_code_eq_enc s z tn b h1 h2 h3 h4 h5 h6 hy (by rw [hr]; intro h; cases h) fuel hf
    rw [hr] at this; exact this
  · intro hr
    have := next_code_eq_enc s z tn b h1 h2 h3 h4 h5 h6 hy (by rw [hr]; intro h; cases h) fuel hf
    rw [hr] at this; exact this

/-! ### no panic, for every reading of the `time.Time` methods

The translation emitted no guard at all: the shift counts are `uint(...)` conversions (a negative
`int` becomes a count ≥ 2^63, which shifts the 1 out — no panic in Go either), there is no
division, index or slice expression. So the only `.panic` branches are the propagation arms behind
the calls of `dayStart` / `dayMatches`, and these two never panic. -/

section nopanic
variable (T_Year T_Month T_Day T_Hour T_Minute T_Second T_Weekday : Int → Int)
  (T_Date : Int → Int → Int → Int → Int → Int → Int → Int) (T_AddDate : Int → Int → Int → Int → Int)
  (T_Truncate : Int → Int → Int) (s_LocIsLocal : Bool)
  (s_Second s_Minute s_Hour s_Dom s_Month s_Dow : BitVec 64) (s_Location origLocation loc : Unit)
  (yearLimit : Int)

theorem dayStart_never_panics (t : Int) (msg : String) :
    Kit.Generated.CodeC04Search.dayStart T_Year T_Month T_Day T_Hour T_Minute T_Second T_Weekday T_Date T_AddDate T_Truncate t ≠ .panic msg := by
  unfold Kit.Generated.CodeC04Search.dayStart
  simp only
  repeat' split
  all_goals (intro h; cases h)

theorem dayMatches_never_panics (t : Int) (msg : String) :
    Kit.Generated.CodeC04Search.dayMatches T_Year T_Month T_Day T_Hour T_Minute T_Second T_Weekday T_Date T_AddDate T_Truncate s_Dom s_Dow t ≠ .panic msg := by
  unfold Kit.Generated.CodeC04Search.dayMatches
  simp only
  split <;> (intro h; cases h)

theorem loop1_never_panics (fuel : Nat) : ∀ (t : Int) (added : Bool) (msg : String),
    SpecSchedule_Next_loop1 fuel T_Year T_Month T_Day T_Hour T_Minute T_Second T_Weekday T_Date T_AddDate T_Truncate s_LocIsLocal s_Second s_Minute s_Hour s_Dom s_Month s_Dow s_Location t origLocation loc added yearLimit ≠ .panic msg := by
  induction fuel with
  | zero => intro t added msg h; cases h
  | succ fuel ih =>
    intro t added msg
    rw [SpecSchedule_Next_loop1]
    simp only
    repeat' split
    all_goals first
      | (intro h; cases h; done)
      | exact ih _ _ msg
      | exact absurd ‹_ = Res.panic _› (dayStart_never_panics T_Year T_Month T_Day T_Hour T_Minute T_Second T_Weekday T_Date T_AddDate T_Truncate _ _)
      | exact absurd ‹_ = Res.panic _› (dayMatches_never_panics T_Year T_Month T_Day T_Hour T_Minute T_Second T_Weekday T_Date T_AddDate T_Truncate _ _ _ _)

theorem loop2_never_panics (fuel : Nat) : ∀ (t : Int) (added : Bool) (msg : String),
    SpecSchedule_Next_loop2 fuel T_Year T_Month T_Day T_Hour T_Minute T_Second T_Weekday T_Date T_AddDate T_Truncate s_LocIsLocal s_Second s_Minute s_Hour s_Dom s_Month s_Dow s_Location t origLocation loc added yearLimit ≠ .panic msg := by
  induction fuel with
  | zero => intro t added msg h; cases h
  | succ fuel ih =>
    intro t added msg
    rw [SpecSchedule_Next_loop2]
    simp only
    repeat' split
    all_goals first
      | (intro h; cases h; done)
      | exact ih _ _ msg
      | exact absurd ‹_ = Res.panic _› (dayStart_never_panics T_Year T_Month T_Day T_Hour T_Minute T_Second T_Weekday T_Date T_AddDate T_Truncate _ _)
      | exact absurd ‹_ = Res.panic _› (dayMatches_never_panics T_Year T_Month T_Day T_Hour T_Minute T_Second T_Weekday T_Date T_AddDate T_Truncate _ _ _ _)

theorem loop3_never_panics (fuel : Nat) : ∀ (t : Int) (added : Bool) (msg : String),
    SpecSchedule_Next_loop3 fuel T_Year T_Month T_Day T_Hour T_Minute T_Second T_Weekday T_Date T_AddDate T_Truncate s_LocIsLocal s_Second s_Minute s_Hour s_Dom s_Month s_Dow s_Location t origLocation loc added yearLimit ≠ .panic msg := by
  induction fuel with
  | zero => intro t added msg h; cases h
  | succ fuel ih =>
    intro t added msg
    rw [SpecSchedule_Next_loop3]
    simp only
    repeat' split
    all_goals first
      | (intro h; cases h; done)
      | exact ih _ _ msg
      | exact absurd ‹_ = Res.panic _› (dayStart_never_panics T_Year T_Month T_Day T_Hour T_Minute T_Second T_Weekday T_Date T_AddDate T_Truncate _ _)
      | exact absurd ‹_ = Res.panic _› (dayMatches_never_panics T_Year T_Month T_Day T_Hour T_Minute T_Second T_Weekday T_Date T_AddDate T_Truncate _ _ _ _)

theorem loop4_never_panics (fuel : Nat) : ∀ (t : Int) (added : Bool) (msg : String),
    SpecSchedule_Next_loop4 fuel T_Year T_Month T_Day T_Hour T_Minute T_Second T_Weekday T_Date T_AddDate T_Truncate s_LocIsLocal s_Second s_Minute s_Hour s_Dom s_Month s_Dow s_Location t origLocation loc added yearLimit ≠ .panic msg := by
  induction fuel with
  | zero => intro t added msg h; cases h
  | succ fuel ih =>
    intro t added msg
    rw [SpecSchedule_Next_loop4]
    simp only
    repeat' split
    all_goals first
      | (intro h; cases h; done)
      | exact ih _ _ msg
      | exact absurd ‹_ = Res.panic _› (dayStart_never_panics T_Year T_Month T_Day T_Hour T_Minute T_Second T_Weekday T_Date T_AddDate T_Truncate _ _)
      | exact absurd ‹_ = Res.panic _› (dayMatches_never_panics T_Year T_Month T_Day T_Hour T_Minute T_Second T_Weekday T_Date T_AddDate T_Truncate _ _ _ _)

theorem loop5_never_panics (fuel : Nat) : ∀ (t : Int) (added : Bool) (msg : String),
    SpecSchedule_Next_loop5 fuel T_Year T_Month T_Day T_Hour T_Minute T_Second T_Weekday T_Date T_AddDate T_Truncate s_LocIsLocal s_Second s_Minute s_Hour s_Dom s_Month s_Dow s_Location t origLocation loc added yearLimit ≠ .panic msg := by
  induction fuel with
  | zero => intro t added msg h; cases h
  | succ fuel ih =>
    intro t added msg
    rw [SpecSchedule_Next_loop5]
    simp only
    repeat' split
    all_goals first
      | (intro h; cases h; done)
      | exact ih _ _ msg
      | exact absurd ‹_ = Res.panic _› (dayStart_never_panics T_Year T_Month T_Day T_Hour T_Minute T_Second T_Weekday T_Date T_AddDate T_Truncate _ _)
      | exact absurd ‹_ = Res.panic _› (dayMatches_never_panics T_Year T_Month T_Day T_Hour T_Minute T_Second T_Weekday T_Date T_AddDate T_Truncate _ _ _ _)

theorem wrap_never_panics (fuel : Nat) : ∀ (t : Int) (added : Bool) (msg : String),
    SpecSchedule_Next_WRAP fuel T_Year T_Month T_Day T_Hour T_Minute T_Second T_Weekday T_Date T_AddDate T_Truncate s_LocIsLocal s_Second s_Minute s_Hour s_Dom s_Month s_Dow s_Location t origLocation loc added yearLimit ≠ .panic msg := by
  induction fuel with
  | zero => intro t added msg h; cases h
  | succ fuel ih =>
    intro t added msg
    rw [SpecSchedule_Next_WRAP]
    simp only
    repeat' split
    all_goals first
      | (intro h; cases h; done)
      | exact ih _ _ msg
      | exact absurd ‹_ = Res.panic _› (loop1_never_panics T_Year T_Month T_Day T_Hour T_Minute T_Second T_Weekday T_Date T_AddDate T_Truncate s_LocIsLocal s_Second s_Minute s_Hour s_Dom s_Month s_Dow s_Location origLocation loc yearLimit _ _ _ _)
      | exact absurd ‹_ = Res.panic _› (loop2_never_panics T_Year T_Month T_Day T_Hour T_Minute T_Second T_Weekday T_Date T_AddDate T_Truncate s_LocIsLocal s_Second s_Minute s_Hour s_Dom s_Month s_Dow s_Location origLocation loc yearLimit _ _ _ _)
      | exact absurd ‹_ = Res.panic _› (loop3_never_panics T_Year T_Month T_Day T_Hour T_Minute T_Second T_Weekday T_Date T_AddDate T_Truncate s_LocIsLocal s_Second s_Minute s_Hour s_Dom s_Month s_Dow s_Location origLocation loc yearLimit _ _ _ _)
      | exact absurd ‹_ = Res.panic _› (loop4_never_panics T_Year T_Month T_Day T_Hour T_Minute T_Second T_Weekday T_Date T_AddDate T_Truncate s_LocIsLocal s_Second s_Minute s_Hour s_Dom s_Month s_Dow s_Location origLocation loc yearLimit _ _ _ _)
      | exact absurd ‹_ = Res.panic _› (loop5_never_panics T_Year T_Month T_Day T_Hour T_Minute T_Second T_Weekday T_Date T_AddDate T_Truncate s_LocIsLocal s_Second s_Minute s_Hour s_Dom s_Month s_Dow s_Location origLocation loc yearLimit _ _ _ _)

/-- **`Next` on any schedule never panics** — on the translated text, for EVERY interpretation of
the `time.Time` methods (`T_*` arbitrary functions, also with negative or absurd readings), every
six bit sets, every instant, every fuel. Unconditional: no guard was emitted. -/
theorem next_code_never_panics (fuel : Nat) (t : Int) (msg : String) :
    SpecSchedule_Next fuel T_Year T_Month T_Day T_Hour T_Minute T_Second T_Weekday T_Date T_AddDate T_Truncate s_LocIsLocal s_Second s_Minute s_Hour s_Dom s_Month s_Dow s_Location t ≠ .panic msg := by
  unfold SpecSchedule_Next
  simp only
  repeat' split
  all_goals apply wrap_never_panics

end nopanic

/-! ### the hypothesis on the year, and what happens outside it -/

/-- `t.Year() + 5` is an `int` for every day number up to `2^62` either way (about 10^16 years). -/
theorem civil_year_bound (n : Int) (h1 : -4611686018427387904 ≤ n) (h2 : n ≤ 4611686018427387904) :
    InI64 ((Kit.CronCal.civilFromDays n).1 + 5) := by
  unfold InI64 Kit.CronCal.civilFromDays
  simp only
  split <;> omega

/-- The year hypothesis of `next_code_eq_model` holds whenever the wall clock at the rounded-up
instant is within `2^62` seconds of the epoch (±146 billion years; every `time.Time` is: its
seconds since year 1 are an `int64` and `Year()` an `int` below 3·10^11). -/
theorem year_inI64 (z : Zone) (u : Int) (h1 : -4611686018427387904 ≤ localSec z u)
    (h2 : localSec z u ≤ 4611686018427387904) : InI64 (year z u + 5) := by
  unfold year dayNum
  exact civil_year_bound _ (by omega) (by omega)

/-- "Every second" with all six sets full. -/
def allSched : Sched :=
  ⟨18446744073709551615, 18446744073709551615, 18446744073709551615, 18446744073709551615,
   18446744073709551615, 18446744073709551615⟩

/-- Outside the year range the translated code and the unbounded model differ: at 1 June of the
year `MaxInt64 - 2` (UTC) `yearLimit := t.Year() + 5` wraps to `MinInt64 + 2`, the first test
`t.Year() > yearLimit` succeeds and the code answers the zero time, where the model (year limit
in ℤ) answers the next second. Not reachable in Go: `time.Time` cannot hold such an instant. -/
theorem yearLimit_wraps :
    year (fixedZone 0) (roundUp 291061508645168328894998400000000000) = 9223372036854775805 ∧
    cNext (fixedZone 0) false allSched (outerFuel + 200) 291061508645168328894998400000000000 =
      .ok (-62135596800000000000) ∧
    next allSched (fixedZone 0) 291061508645168328894998400000000000 =
      .at 291061508645168328894998401 := by
  decide +kernel

/-! ### the property theorems, on the translated code -/

/-- Soundness, minimality and the zero answer of `Props/C04Next.lean`, read on the translated
`Next`: on every zone with a constant offset that is a multiple of 60 s, for every schedule, every
start instant `tn` (nanoseconds) and every fuel `≥ outerFuel + 200`, the translated function
returns — never `.nofuel`, never `.panic` — either the nanosecond instant of the earliest matching
whole second after `tn`, or the zero time when nothing matches up to the end of the fifth year. -/
theorem next_code_post_fixed (s : Sched) (off : Int) (h60 : off % 60 = 0) (tn : Int) (b : Bool)
    (h1 : s.second < 2 ^ 64) (h2 : s.minute < 2 ^ 64) (h3 : s.hour < 2 ^ 64)
    (h4 : s.dom < 2 ^ 64) (h5 : s.month < 2 ^ 64) (h6 : s.dow < 2 ^ 64)
    (hy : InI64 (year (fixedZone off) (roundUp tn) + 5)) (fuel : Nat)
    (hf : outerFuel + 200 ≤ fuel) :
    (∃ r, cNext (fixedZone off) b s fuel tn = .ok (1000000000 * r) ∧ tn < 1000000000 * r ∧
        MatchesN s (fixedZone off) (1000000000 * r) ∧
        ∀ n, tn < n → n < 1000000000 * r → ¬ MatchesN s (fixedZone off) n) ∨
    (cNext (fixedZone off) b s fuel tn = .ok (-62135596800000000000) ∧
        ∀ n, tn < n →
          year (fixedZone off) (n / 1000000000) ≤ year (fixedZone off) (roundUp tn) + 5 →
          ¬ MatchesN s (fixedZone off) n) := by
  have hc := next_code_eq_model s (fixedZone off) tn b h1 h2 h3 h4 h5 h6 hy fuel hf
  cases hn : next s (fixedZone off) tn with
  | fuel => exact absurd hn (next_terminates s off h60 tn)
  | zero => exact Or.inr ⟨hc.2 hn, next_zero_fixed s off h60 tn hn⟩
  | «at» r =>
    have hs := next_sound_fixed s off h60 tn r hn
    have hm := next_minimal_fixed s off h60 tn r hn
    rw [Int.mul_comm] at hs hm
    exact Or.inl ⟨r, hc.1 r hn, hs.1, hs.2, hm⟩

/-! ### non-vacuity: the translated `Next` itself, evaluated under the instantiation -/

-- "0 30 4 1,15 * 5" at +05:30 from 2017-07-14T02:40:00.123456789Z (`exSched` of Props/C04Next.lean)
example : next exSched (fixedZone 19800) 1500000000123456789 = .at 1500073200 := by decide +kernel
example :
    cNext (fixedZone 19800) true exSched (outerFuel + 200) 1500000000123456789 =
      .ok 1500073200000000000 := by decide +kernel
example :
    cNext (fixedZone 19800) false exSched (outerFuel + 200) 1500000000123456789 =
      .ok (1000000000 * 1500073200) := by decide +kernel
-- UTC (`[(0, 0)]`), the same schedule: Friday 2017-07-14 04:30:00Z
example : fixedZone 0 = [(0, 0)] := rfl
example :
    cNext [(0, 0)] false exSched (outerFuel + 200) 1500000000123456789 =
      encResult (next exSched [(0, 0)] 1500000000123456789) := by decide +kernel
example :
    cNext [(0, 0)] false exSched (outerFuel + 200) 1500000000123456789 = .ok 1500006600000000000 := by
  decide +kernel
-- 31 February never comes: the zero time, through `t.Year() > yearLimit` after 5 years of `goto WRAP`
example :
    cNext (fixedZone 0) false ⟨1, 1, 1, 2147483648, 4, 0⟩ (outerFuel + 200) 1500000000000000000 =
      .ok (-62135596800000000000) := by decide +kernel
-- a zone with transitions (Antarctica/Troll 2017: +0 → +2 on 26 March 01:00Z): "0 30 1 * * *" from
-- 2017-03-26T00:00:00Z, local 01:30 does not exist that day; code and model agree
example :
    cNext [(0, 0), (1490490000, 7200), (1509238800, 0), (1521939600, 7200)] false
        ⟨1, 1073741824, 2, 9223372041149743102, 8190, 9223372036854775935⟩ (outerFuel + 200)
        1490486400000000000 =
      encResult (next ⟨1, 1073741824, 2, 9223372041149743102, 8190, 9223372036854775935⟩
        [(0, 0), (1490490000, 7200), (1509238800, 0), (1521939600, 7200)] 1490486400000000000) := by
  decide +kernel
-- … on local 01:30 of the 27th (2017-03-26T23:30:00Z)
example :
    cNext [(0, 0), (1490490000, 7200), (1509238800, 0), (1521939600, 7200)] true
        ⟨1, 1073741824, 2, 9223372041149743102, 8190, 9223372036854775935⟩ (outerFuel + 200)
        1490486400000000000 = .ok 1490571000000000000 := by
  decide +kernel
-- the hypotheses of `next_code_eq_model` hold for these inputs
example : InI64 (year (fixedZone 19800) (roundUp 1500000000123456789) + 5) := by decide +kernel
-- too little fuel is reported as such, not as an answer
example : cNext (fixedZone 0) false exSched 3 1500000000123456789 = .nofuel := by decide +kernel
-- the pieces (2017-07-15 is a Saturday and a 15th: either-day rule)
-- 23:00 is "aimed at midnight": one hour on
example : cDayStart (fixedZone 0) 1500073200000000000 = .ok 1500076800000000000 := by decide +kernel
example : cDayMatches (fixedZone 0) exSched 1500093000000000000 = .ok true := by decide +kernel

end Kit.CronSpec.SearchCode
