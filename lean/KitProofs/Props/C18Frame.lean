import KitModel.Dir
import KitProofs.Lemmas.Dir
/-!
# C18 — several targets in one base directory: a `Write` stays inside its own names

From the point of view of one `Dir` (target `B/tgt`), everything else that lives in the base
directory — the target symlink, the `.new` link and the version directories of ANOTHER `Dir` whose
target is in the same base, and entries nobody of the package created — has a name that is none
of `tgt`, `tgtNew`, `ver n`: in the model, a `Name.str s`. `siblings_untouched` says that no
history of `Write`s (complete or killed after any number of file-system operations, with any
pre-existing state, valid or invalid file names) changes what is at or below `B/<s>`: so each
target of a shared base keeps, for ever, the invariants proved for a target that is alone.

What the model cannot say is that the NAMES are really disjoint: `<nanos>-id` versus
`<nanos>-sidecar-id` is a fact about `fmt.Sprintf("%d-%s")` and about any matching the code does
on names (a suffix match breaks it). That part is tied to the code by T1 (the operation list of
`Write` regenerated from the source: an added directory scan is an unknown shape) and judged on
the implementation by the multi-target monitors of the harness (`harness/cmd/c18/multi.go`).
-/
namespace Kit.Dir

/-- Operations that cannot change what is at path `q` (complete for all seven operations). -/
def Away (q : Path) : Op → Prop
  | .mkdirAll p => ¬ q <+: p
  | .writeFile p _ => q ≠ p
  | .removeIfExists p => q ≠ p
  | .symlink _ p => q ≠ p
  | .rename o n => ¬ o <+: q ∧ ¬ n <+: q
  | .removeAll p => ¬ p <+: q
  | .badName _ => True

theorem get_moveTree (fs : FS) (o n q : Path) (ho : ¬ o <+: q) (hn : ¬ n <+: q) :
    get (moveTree fs o n) q = get fs q := by
  unfold moveTree
  induction fs with
  | nil => rfl
  | cons e rest ih =>
    obtain ⟨k, nd⟩ := e
    rw [List.map_cons]
    by_cases hk : o <+: k
    · have h1 : ¬ (n ++ k.drop o.length = q) := fun h => hn (h ▸ List.prefix_append _ _)
      have h2 : ¬ k = q := fun h => ho (h ▸ hk)
      simp only [hk, if_true, get, h1, h2, if_false]
      exact ih
    · simp only [hk, if_false, get]
      rw [ih]

theorem look_moveTree (fs : FS) (o n q : Path) (ho : ¬ o <+: q) (hn : ¬ n <+: q) :
    look (moveTree fs o n) q = look fs q := by
  unfold look
  by_cases hq : q = []
  · simp [hq]
  · simp [hq, get_moveTree fs o n q ho hn]

theorem ne_of_not_prefix {p q : Path} (h : ¬ p <+: q) : q ≠ p := fun e => h (e ▸ List.prefix_refl _)

theorem apply_frame (q : Path) (op : Op) (fs fs' : FS) (ha : Away q op)
    (h : op.apply fs = .ok fs') : look fs' q = look fs q := by
  cases op with
  | mkdirAll p =>
    simp only [Op.apply, mkdirAll] at h
    exact mkdirChain_frame _ _ _ q (fun hm => ha ((mem_prefixes p q).1 hm).2) h
  | writeFile p b =>
    simp only [Op.apply] at h
    exact writeFile_frame _ _ p q b ha h
  | badName nm => simp [Op.apply] at h
  | removeAll p =>
    simp only [Op.apply, removeAll] at h
    by_cases hp : p = []
    · simp [hp] at h
    · simp only [hp, if_false] at h
      cases hpe : parentErr fs p with
      | none =>
        simp only [hpe] at h
        injection h with h; subst h
        rw [look_removeTree _ _ _ hp]; simp [show ¬ p <+: q from ha]
      | some e =>
        cases e <;> simp [hpe] at h
        subst h; rfl
  | symlink t p =>
    simp only [Op.apply, symlink] at h
    by_cases hp : p = []
    · simp [hp] at h
    · simp only [hp, if_false] at h
      cases hpe : parentErr fs p with
      | some e => simp [hpe] at h
      | none =>
        simp only [hpe] at h
        cases hl : look fs p with
        | some nd => simp [hl] at h
        | none =>
          simp only [hl] at h
          injection h with h; subst h
          rw [look_set _ _ _ _ hp]; simp [show q ≠ p from ha]
  | removeIfExists p =>
    simp only [Op.apply] at h
    have hqp : q ≠ p := ha
    cases hr : remove fs p with
    | error e =>
      rw [hr] at h
      cases e <;> simp at h
      subst h; rfl
    | ok fs1 =>
      rw [hr] at h
      simp at h; subst h
      unfold remove at hr
      by_cases hp : p = []
      · simp [hp] at hr
      · simp only [hp, if_false] at hr
        cases hpe : parentErr fs p with
        | some e => simp [hpe] at hr
        | none =>
          simp only [hpe] at hr
          cases hl : look fs p with
          | none => simp [hl] at hr
          | some nd =>
            cases nd with
            | dir =>
              simp only [hl] at hr
              by_cases hc : hasChild fs p = true
              · simp [hc] at hr
              · simp only [hc] at hr
                injection hr with hr; subst hr
                rw [look_set _ _ _ _ hp]; simp [hqp]
            | file b =>
              simp only [hl] at hr
              injection hr with hr; subst hr
              rw [look_set _ _ _ _ hp]; simp [hqp]
            | link t =>
              simp only [hl] at hr
              injection hr with hr; subst hr
              rw [look_set _ _ _ _ hp]; simp [hqp]
  | rename o n =>
    obtain ⟨hao, han⟩ : ¬ o <+: q ∧ ¬ n <+: q := ha
    have hqo : q ≠ o := ne_of_not_prefix hao
    have hqn : q ≠ n := ne_of_not_prefix han
    simp only [Op.apply, rename] at h
    by_cases hon : o = [] ∨ n = []
    · simp [hon] at h
    · have ho : o ≠ [] := fun e => hon (Or.inl e)
      have hn : n ≠ [] := fun e => hon (Or.inr e)
      simp only [hon, if_false] at h
      cases hpo : parentErr fs o with
      | some e => simp [hpo] at h
      | none =>
        simp only [hpo] at h
        cases hpn : parentErr fs n with
        | some e => simp [hpn] at h
        | none =>
          simp only [hpn] at h
          cases hlo : look fs o with
          | none => simp [hlo] at h
          | some on =>
            simp only [hlo] at h
            by_cases hd : look fs n = some .dir
            · simp [hd] at h
            · simp only [hd, if_false] at h
              by_cases heq : o = n
              · simp only [heq, if_true] at h
                injection h with h; subst h; rfl
              · simp only [heq, if_false] at h
                have hset : ∀ nd : Node, look (set (set fs n (some nd)) o none) q = look fs q := by
                  intro nd
                  rw [look_set _ _ _ _ ho, look_set _ _ _ _ hn]; simp [hqo, hqn]
                cases on with
                | file b =>
                  simp only [] at h
                  injection h with h; subst h; exact hset _
                | link t =>
                  simp only [] at h
                  injection h with h; subst h; exact hset _
                | dir =>
                  cases hln : look fs n with
                  | some x => simp [hln] at h
                  | none =>
                    simp only [hln] at h
                    by_cases hpre : o <+: n
                    · simp [hpre] at h
                    · simp only [hpre, if_false] at h
                      injection h with h; subst h
                      exact look_moveTree fs o n q hao han

theorem runOps_away (q : Path) (ops : List Op) : ∀ (fs : FS), (∀ op ∈ ops, Away q op) →
    look (runOps fs ops).1 q = look fs q := by
  induction ops with
  | nil => intro fs _; rfl
  | cons op ops ih =>
    intro fs h
    simp only [runOps]
    cases hap : op.apply fs with
    | error e => rfl
    | ok fs1 =>
      simp only []
      rw [ih fs1 (fun o ho => h o (by simp [ho]))]
      exact apply_frame q op fs fs1 (h op (by simp)) hap

/-- Every operation of a `Write` on target `B/tgt` stays away from every path at or below
`B/<s>`, `s` any name that is not one of this target's own (`tgt`, `tgtNew`, `ver n`). -/
theorem writeOps_away (B : Path) (prev : Option Nat) (c : Nat) (files : Files) (s : String)
    (r : Path) : ∀ op ∈ writeOps B prev c files, Away (B ++ .str s :: r) op := by
  intro op hop
  simp only [writeOps, writeOpsOf, fixedSteps, List.flatMap_cons, List.flatMap_nil,
    List.mem_append, stepOps, List.mem_singleton, List.mem_map, List.append_nil] at hop
  have hB : ¬ (B ++ .str s :: r <+: B) := not_ext_prefix B _ r
  have hne : ∀ (x : Name) (t : Path), x ≠ .str s → ¬ (B ++ x :: t <+: B ++ .str s :: r) := by
    intro x t hx h
    have h' : B ++ [x] <+: B ++ .str s :: r :=
      (show B ++ [x] <+: B ++ x :: t by simp [List.prefix_append_right_inj, List.cons_prefix_cons]).trans h
    exact hx ((prefix_ver_iff B x (.str s) r).1 h')
  have hver : ∀ n, ¬ (B ++ .str s :: r <+: verDir B n) := by
    intro n h
    rcases prefix_verDir B n _ h with h | h
    · exact hB h
    · simp [verDir] at h
  rcases hop with rfl | rfl | ⟨kb, _, rfl⟩ | rfl | rfl | rfl | hop
  · exact hB
  · exact hver c
  · by_cases hv : validName kb.1 = true
    · simp only [hv, if_true]
      show B ++ .str s :: r ≠ verDir B c ++ [kb.1]
      intro e
      have : B ++ [Name.ver c] <+: B ++ .str s :: r := by
        rw [e]; simp [verDir]
      have := (prefix_ver_iff B (.ver c) (.str s) r).1 this
      simp at this
    · simp only [hv]
      trivial
  · show B ++ .str s :: r ≠ targetNew B
    simp [targetNew]
  · show B ++ .str s :: r ≠ targetNew B
    simp [targetNew]
  · exact ⟨by simp [targetNew], by simp [target]⟩
  · cases prev with
    | none => simp at hop
    | some n =>
      simp only [List.mem_singleton] at hop
      subst hop
      show ¬ verDir B n <+: B ++ .str s :: r
      simp [verDir]

theorem take_away {q : Path} {ops : List Op} (h : ∀ op ∈ ops, Away q op) (k : Nat) :
    ∀ op ∈ ops.take k, Away q op := fun op ho => h op (List.mem_of_mem_take ho)

theorem step_sibling (B : Path) (st : St) (ev : Ev) (s : String) (r : Path) :
    look (step B st ev).fs (B ++ .str s :: r) = look st.fs (B ++ .str s :: r) := by
  cases ev with
  | write files =>
    exact runOps_away _ _ _ (writeOps_away B st.prev st.clock files s r)
  | crash files k =>
    exact runOps_away _ _ _ (take_away (writeOps_away B st.prev st.clock files s r) k)

/-- **Several targets in one base.** Whatever state the base directory is in (`st` arbitrary: no
`Clean`/`Prior` needed), whatever the history of `Write`s on target `B/tgt` — complete, failing,
or killed after any number of file-system operations, valid or invalid file names — every path at
or below `B/<s>` (the symlink, `.new` and version directories of another target in the same base;
files, directories and symlinks nobody of the package created) holds exactly what it held
before. -/
theorem siblings_untouched (B : Path) (st : St) (evs : List Ev) (s : String) (r : Path) :
    look (run B st evs).fs (B ++ .str s :: r) = look st.fs (B ++ .str s :: r) := by
  induction evs generalizing st with
  | nil => rfl
  | cons ev evs ih =>
    rw [run_cons, ih, step_sibling]

/-- Consequence for a reader of a sibling target: what `resolve`/`dirListing` compute from is the
same function of the paths below `B/<s>` — stated for the link itself and everything it can point
to inside the base: a version directory `B/<v>` of the sibling and the files in it. -/
theorem sibling_target_kept (B : Path) (st : St) (evs : List Ev) (tname vname : String)
    (nm : Name) :
    look (run B st evs).fs (B ++ [.str tname]) = look st.fs (B ++ [.str tname]) ∧
    look (run B st evs).fs (B ++ [.str vname]) = look st.fs (B ++ [.str vname]) ∧
    look (run B st evs).fs (B ++ [.str vname, nm]) = look st.fs (B ++ [.str vname, nm]) :=
  ⟨siblings_untouched B st evs tname [], siblings_untouched B st evs vname [],
    siblings_untouched B st evs vname [nm]⟩

end Kit.Dir
