import KitModel.TTLCache
import KitProofs.Lemmas.TTLCache
/-!
# C15 — ttlcache: Get never returns an expired, deleted or superseded value

Property theorems only (helpers: `KitProofs/Lemmas/TTLCache.lean`). Model: `KitModel/TTLCache.lean`.

Sequential part (`Cache`, `step`, `run`): every history of Set / Get / Delete / Cleanup / Reset /
Advance. Concurrent part (`CState`, `cstep`, `Reach`): any number of callers and cleaners, Cleanup
and Reset split into clock read, per-key visits, seal, per-key deletes, return.
-/
namespace Kit.TTLCache

/-! ## sequential -/

/-- **get_spec.** For every history (any configuration `maxTTL`, any start time), `Get k` returns
`v` iff the last successful `Set k v ttl` that is not followed by `Delete k` or `Reset` (found by
the independent backwards scan `lastLive`, which knows nothing about maps or expiry stamps) has
seen strictly less than `min(ttl, MaxTTL?)` seconds elapse on the clock. Hypothesis: the explicit
overflow bound `ttl·time.Second < 2^63` for the Sets of the history. -/
theorem get_spec (maxTTL t0 : Int) (hist : List Op) (k : Key) (v : Val)
    (hno : ∀ k' v' ttl, Op.set k' v' ttl ∈ hist → 0 < ttl → NoOverflow maxTTL ttl) :
    getOf (run (Cache.init maxTTL t0) hist) k = some v ↔
      ∃ ttl el, lastLive k hist.reverse 0 = some (v, ttl, el) ∧
        (el : Int) < effTTL maxTTL ttl * second := by
  have hA := agree_run maxTTL t0 hist k
  have hmax : (run (Cache.init maxTTL t0) hist).maxTTL = maxTTL := run_maxTTL _ _
  -- the Set found by the scan is in the history, so its duration is exact
  have hdur : ∀ v' ttl el, lastLive k hist.reverse 0 = some (v', ttl, el) →
      durNs maxTTL ttl = effTTL maxTTL ttl * second := by
    intro v' ttl el h
    have hmem : ∀ (l : List Op) (acc : Nat), lastLive k l acc = some (v', ttl, el) →
        Op.set k v' ttl ∈ l ∧ 0 < ttl := by
      intro l
      induction l with
      | nil => intro acc h; simp [lastLive] at h
      | cons o l ih =>
        intro acc h
        cases o with
        | set k' v'' ttl' =>
          simp only [lastLive] at h
          split at h
          · rename_i hc
            simp only [Option.some.injEq, Prod.mk.injEq] at h
            obtain ⟨rfl, rfl, _⟩ := h
            exact ⟨by simp [hc.1], hc.2⟩
          · have := ih acc h
            exact ⟨List.mem_cons_of_mem _ this.1, this.2⟩
        | get k' => simp only [lastLive] at h; have := ih acc h; exact ⟨List.mem_cons_of_mem _ this.1, this.2⟩
        | delete k' =>
          simp only [lastLive] at h
          split at h
          · cases h
          · have := ih acc h; exact ⟨List.mem_cons_of_mem _ this.1, this.2⟩
        | cleanup => simp only [lastLive] at h; have := ih acc h; exact ⟨List.mem_cons_of_mem _ this.1, this.2⟩
        | reset => simp [lastLive] at h
        | advance d => simp only [lastLive] at h; have := ih _ h; exact ⟨List.mem_cons_of_mem _ this.1, this.2⟩
    obtain ⟨hin, hpos⟩ := hmem _ _ h
    exact durNs_exact maxTTL ttl hpos (hno k v' ttl (by simpa using hin) hpos)
  unfold getOf
  constructor
  · intro h
    cases hg : mget (run (Cache.init maxTTL t0) hist).m k with
    | none => simp [hg] at h
    | some e =>
      simp only [hg] at h
      split at h
      · rename_i hlt
        cases hl : lastLive k hist.reverse 0 with
        | none => have := hA.absent hl; rw [hg] at this; cases this
        | some r =>
          obtain ⟨v', ttl, el⟩ := r
          have hp := hA.present v' ttl el e hl hg
          rw [hmax, hdur v' ttl el hl] at hp
          simp only [Option.some.injEq] at h
          refine ⟨ttl, el, ?_, ?_⟩
          · rw [← h, hp.1]
          · omega
      · cases h
  · rintro ⟨ttl, el, hl, hlt⟩
    cases hg : mget (run (Cache.init maxTTL t0) hist).m k with
    | none =>
      have := hA.cleaned v ttl el hl hg
      rw [hmax, hdur v ttl el hl] at this
      omega
    | some e =>
      have hp := hA.present v ttl el e hl hg
      rw [hmax, hdur v ttl el hl] at hp
      have : (run (Cache.init maxTTL t0) hist).now < e.exp := by omega
      simp [this, hp.1]

/-- `get_spec` in the form "the model's Get is the reference function". -/
theorem get_eq_refGet (maxTTL t0 : Int) (hist : List Op) (k : Key)
    (hno : ∀ k' v' ttl, Op.set k' v' ttl ∈ hist → 0 < ttl → NoOverflow maxTTL ttl) :
    getOf (run (Cache.init maxTTL t0) hist) k = refGet maxTTL hist k := by
  cases hr : refGet maxTTL hist k with
  | some v =>
    apply (get_spec maxTTL t0 hist k v hno).2
    unfold refGet at hr
    cases hl : lastLive k hist.reverse 0 with
    | none => simp [hl] at hr
    | some r =>
      obtain ⟨v', ttl, el⟩ := r
      simp only [hl] at hr
      split at hr
      · rename_i hlt
        cases hr
        exact ⟨ttl, el, rfl, hlt⟩
      · cases hr
  | none =>
    cases hg : getOf (run (Cache.init maxTTL t0) hist) k with
    | none => rfl
    | some v =>
      obtain ⟨ttl, el, hl, hlt⟩ := (get_spec maxTTL t0 hist k v hno).1 hg
      simp [refGet, hl, hlt] at hr

/-- Non-vacuity of `get_spec`: a history with a capped Set, an overwrite, a Delete of another key,
a Cleanup and advances, in which the Get hits; one more nanosecond and it misses. -/
example :
    let hist := [Op.set "a" 1 5, .advance 1000000000, .set "a" 2 30, .delete "b", .cleanup,
                 .advance 14999999999]
    getOf (run (Cache.init 15 0) hist) "a" = some 2 ∧
    getOf (run (Cache.init 15 0) (hist ++ [.advance 1])) "a" = none ∧
    lastLive "a" hist.reverse 0 = some (2, 30, 14999999999) := by decide

/-- The cap is `min`: when `MaxTTL` is configured the effective TTL is `min(ttl, MaxTTL)`,
otherwise it is `ttl`. -/
theorem effTTL_is_min_when_configured (maxTTL ttl : Int) :
    (0 < maxTTL → effTTL maxTTL ttl = min ttl maxTTL) ∧ (maxTTL ≤ 0 → effTTL maxTTL ttl = ttl) :=
  ⟨effTTL_capped maxTTL ttl, effTTL_uncapped maxTTL ttl⟩

/-- Documented contract: a non-positive TTL panics and changes nothing (excluded misuse). -/
theorem set_nonpositive_ttl_panics (c : Cache) (k : Key) (v : Val) (ttl : Int) (h : ttl ≤ 0) :
    step c (.set k v ttl) = (c, .panic) := by simp [step, h]

/-- **cleanup_only_expired.** Sequentially, `Cleanup` changes no `Get` result, removes only entries
whose expiry lies strictly before the clock, and leaves every other stored entry as it was. -/
theorem cleanup_only_expired (c : Cache) (k : Key) :
    getOf (doCleanup c) k = getOf c k ∧
    (∀ e, mget c.m k = some e → mget (doCleanup c).m k = none → e.exp < c.now) ∧
    (∀ e, mget (doCleanup c).m k = some e → mget c.m k = some e) := by
  have hm : mget (doCleanup c).m k
      = if k ∈ mkeysWhere c.m (expiredAt c.now) then none else mget c.m k := by
    simp [doCleanup, mget_delKeys]
  refine ⟨?_, ?_, ?_⟩
  · unfold getOf
    rw [hm]
    by_cases hmem : k ∈ mkeysWhere c.m (expiredAt c.now)
    · rw [if_pos hmem]
      obtain ⟨e, hg, hexp⟩ := (mem_mkeysWhere _ _ _).1 hmem
      simp only [expiredAt, decide_eq_true_eq] at hexp
      have : ¬ (c.now < e.exp) := by omega
      simp [hg, this]
    · rw [if_neg hmem]
      rfl
  · intro e hg hn
    rw [hm] at hn
    split at hn
    · rename_i hmem
      obtain ⟨e', hg', hexp⟩ := (mem_mkeysWhere _ _ _).1 hmem
      rw [hg] at hg'; cases hg'
      simpa [expiredAt] using hexp
    · rw [hg] at hn; cases hn
  · intro e hg
    rw [hm] at hg
    split at hg
    · cases hg
    · exact hg

example : getOf (doCleanup (run (Cache.init 0 0) [.set "a" 1 1, .set "b" 2 9, .advance 2000000000])) "b"
    = some 2 ∧ mget (doCleanup (run (Cache.init 0 0) [.set "a" 1 1, .set "b" 2 9, .advance 2000000000])).m "a"
    = none := by decide

/-- `Cleanup` is unobservable through any later history: all outputs are the same with and
without it (so the periodic cleaner never changes what sequential callers see). -/
def cleanup_unobservable_statement : Prop :=
  ∀ (c : Cache) (ops : List Op), outputs (doCleanup c) ops = outputs c ops

/-- **Boundary.** An entry whose expiry equals the clock is missed by `Get` and kept by `Cleanup`;
one nanosecond earlier `Get` hits; one nanosecond later `Cleanup` removes it. -/
theorem boundary_exp_eq_now (c : Cache) (k : Key) (e : Entry) (hg : mget c.m k = some e) :
    (e.exp = c.now → getOf c k = none ∧ mget (doCleanup c).m k = some e) ∧
    (e.exp = c.now + 1 → getOf c k = some e.val) ∧
    (e.exp = c.now - 1 → getOf c k = none ∧ mget (doCleanup c).m k = none) := by
  have hm : mget (doCleanup c).m k
      = if k ∈ mkeysWhere c.m (expiredAt c.now) then none else mget c.m k := by
    simp [doCleanup, mget_delKeys]
  refine ⟨?_, ?_, ?_⟩
  · intro h
    refine ⟨by simp [getOf, hg, h], ?_⟩
    rw [hm, if_neg, hg]
    intro hmem
    obtain ⟨e', hg', hexp⟩ := (mem_mkeysWhere _ _ _).1 hmem
    rw [hg] at hg'; cases hg'
    simp only [expiredAt, decide_eq_true_eq] at hexp
    omega
  · intro h
    have : c.now < e.exp := by omega
    simp [getOf, hg, this]
  · intro h
    have hn : ¬ c.now < e.exp := by omega
    refine ⟨by simp [getOf, hg, hn], ?_⟩
    rw [hm, if_pos]
    exact (mem_mkeysWhere _ _ _).2 ⟨e, hg, by simp [expiredAt]; omega⟩

/-- The boundary through the API: `Set` with ttl `t`, advance exactly `t` seconds: miss, entry
still stored after `Cleanup`; 1 ns less: hit. -/
example :
    let c := run (Cache.init 0 0) [.set "a" 7 3, .advance 3000000000]
    getOf c "a" = none ∧ mget (doCleanup c).m "a" = some ⟨7, 3000000000⟩ ∧
    getOf (run (Cache.init 0 0) [.set "a" 7 3, .advance 2999999999]) "a" = some 7 := by decide

/-- **Overflow bound is needed** (witness): with `MaxTTL` unset, `ttl = 9223372037` s makes
`time.Duration(ttl) * time.Second` wrap to a negative duration, the entry is born expired and the
reference (which uses the mathematical product) is contradicted. `NoOverflow` fails exactly there. -/
theorem overflow_bound_needed_witness :
    getOf (run (Cache.init 0 0) [.set "a" 1 9223372037]) "a" = none ∧
    refGet 0 [.set "a" 1 9223372037] "a" = some 1 ∧
    ¬ NoOverflow 0 9223372037 ∧ NoOverflow 0 9223372036 := by decide

/-- With `MaxTTL` configured within the bound no requested ttl can overflow. -/
theorem no_overflow_of_maxTTL (maxTTL ttl : Int) (h0 : 0 < maxTTL) (hm : maxTTL ≤ 9223372036) :
    NoOverflow maxTTL ttl := by
  unfold NoOverflow effTTL second
  split <;> omega

end Kit.TTLCache
