import KitModel.TTLCache
import KitProofs.Lemmas.TTLCache
import KitProofs.Lemmas.TTLCacheConc
import KitProofs.Lemmas.TTLCacheAccept
/-!
# C15 — ttlcache: Get never returns an expired, deleted or superseded value

Property theorems only (helpers: `KitProofs/Lemmas/TTLCache.lean`). Model: `KitModel/TTLCache.lean`.

Sequential part (`Cache`, `step`, `run`): every history of Set / Get / Delete / Cleanup / Reset /
Advance. Concurrent part (`CState`, `cstep`, `Reach`): any number of callers and cleaners, Cleanup
and Reset split into clock read, per-key visits, seal, per-key deletes, return.
-/
namespace Kit.TTLCache

/-! ## sequential -/

/-- **get_spec.** For every history (any configuration `maxTTL`, any start time), `Get k` returns
`v` iff the last successful `Set k v ttl` that is not followed by `Delete k` or `Reset` (found by
the independent backwards scan `lastLive`, which knows nothing about maps or expiry stamps) has
seen strictly less than `min(ttl, MaxTTL?)` seconds elapse on the clock. Hypothesis: the explicit
overflow bound `ttl·time.Second < 2^63` for the Sets of the history. -/
theorem get_spec (maxTTL t0 : Int) (hist : List Op) (k : Key) (v : Val)
    (hno : ∀ k' v' ttl, Op.set k' v' ttl ∈ hist → 0 < ttl → NoOverflow maxTTL ttl) :
    getOf (run (Cache.init maxTTL t0) hist) k = some v ↔
      ∃ ttl el, lastLive k hist.reverse 0 = some (v, ttl, el) ∧
        (el : Int) < effTTL maxTTL ttl * second := by
  have hA := agree_run maxTTL t0 hist k
  have hmax : (run (Cache.init maxTTL t0) hist).maxTTL = maxTTL := run_maxTTL _ _
  -- the Set found by the scan is in the history, so its duration is exact
  have hdur : ∀ v' ttl el, lastLive k hist.reverse 0 = some (v', ttl, el) →
      durNs maxTTL ttl = effTTL maxTTL ttl * second := by
    intro v' ttl el h
    have hmem : ∀ (l : List Op) (acc : Nat), lastLive k l acc = some (v', ttl, el) →
        Op.set k v' ttl ∈ l ∧ 0 < ttl := by
      intro l
      induction l with
      | nil => intro acc h; simp [lastLive] at h
      | cons o l ih =>
        intro acc h
        cases o with
        | set k' v'' ttl' =>
          simp only [lastLive] at h
          split at h
          · rename_i hc
            simp only [Option.some.injEq, Prod.mk.injEq] at h
            obtain ⟨rfl, rfl, _⟩ := h
            exact ⟨by simp [hc.1], hc.2⟩
          · have := ih acc h
            exact ⟨List.mem_cons_of_mem _ this.1, this.2⟩
        | get k' => simp only [lastLive] at h; have := ih acc h; exact ⟨List.mem_cons_of_mem _ this.1, this.2⟩
        | delete k' =>
          simp only [lastLive] at h
          split at h
          · cases h
          · have := ih acc h; exact ⟨List.mem_cons_of_mem _ this.1, this.2⟩
        | cleanup => simp only [lastLive] at h; have := ih acc h; exact ⟨List.mem_cons_of_mem _ this.1, this.2⟩
        | reset => simp [lastLive] at h
        | advance d => simp only [lastLive] at h; have := ih _ h; exact ⟨List.mem_cons_of_mem _ this.1, this.2⟩
    obtain ⟨hin, hpos⟩ := hmem _ _ h
    exact durNs_exact maxTTL ttl hpos (hno k v' ttl (by simpa using hin) hpos)
  unfold getOf
  constructor
  · intro h
    cases hg : mget (run (Cache.init maxTTL t0) hist).m k with
    | none => simp [hg] at h
    | some e =>
      simp only [hg] at h
      split at h
      · rename_i hlt
        cases hl : lastLive k hist.reverse 0 with
        | none => have := hA.absent hl; rw [hg] at this; cases this
        | some r =>
          obtain ⟨v', ttl, el⟩ := r
          have hp := hA.present v' ttl el e hl hg
          rw [hmax, hdur v' ttl el hl] at hp
          simp only [Option.some.injEq] at h
          refine ⟨ttl, el, ?_, ?_⟩
          · rw [← h, hp.1]
          · omega
      · cases h
  · rintro ⟨ttl, el, hl, hlt⟩
    cases hg : mget (run (Cache.init maxTTL t0) hist).m k with
    | none =>
      have := hA.cleaned v ttl el hl hg
      rw [hmax, hdur v ttl el hl] at this
      omega
    | some e =>
      have hp := hA.present v ttl el e hl hg
      rw [hmax, hdur v ttl el hl] at hp
      have : (run (Cache.init maxTTL t0) hist).now < e.exp := by omega
      simp [this, hp.1]

/-- `get_spec` in the form "the model's Get is the reference function". -/
theorem get_eq_refGet (maxTTL t0 : Int) (hist : List Op) (k : Key)
    (hno : ∀ k' v' ttl, Op.set k' v' ttl ∈ hist → 0 < ttl → NoOverflow maxTTL ttl) :
    getOf (run (Cache.init maxTTL t0) hist) k = refGet maxTTL hist k := by
  cases hr : refGet maxTTL hist k with
  | some v =>
    apply (get_spec maxTTL t0 hist k v hno).2
    unfold refGet at hr
    cases hl : lastLive k hist.reverse 0 with
    | none => simp [hl] at hr
    | some r =>
      obtain ⟨v', ttl, el⟩ := r
      simp only [hl] at hr
      split at hr
      · rename_i hlt
        cases hr
        exact ⟨ttl, el, rfl, hlt⟩
      · cases hr
  | none =>
    cases hg : getOf (run (Cache.init maxTTL t0) hist) k with
    | none => rfl
    | some v =>
      obtain ⟨ttl, el, hl, hlt⟩ := (get_spec maxTTL t0 hist k v hno).1 hg
      simp [refGet, hl, hlt] at hr

/-- Non-vacuity of `get_spec`: a history with a capped Set, an overwrite, a Delete of another key,
a Cleanup and advances, in which the Get hits; one more nanosecond and it misses. -/
example :
    let hist := [Op.set "a" 1 5, .advance 1000000000, .set "a" 2 30, .delete "b", .cleanup,
                 .advance 14999999999]
    getOf (run (Cache.init 15 0) hist) "a" = some 2 ∧
    getOf (run (Cache.init 15 0) (hist ++ [.advance 1])) "a" = none ∧
    lastLive "a" hist.reverse 0 = some (2, 30, 14999999999) := by decide

/-- The cap is `min`: when `MaxTTL` is configured the effective TTL is `min(ttl, MaxTTL)`,
otherwise it is `ttl`. -/
theorem effTTL_is_min_when_configured (maxTTL ttl : Int) :
    (0 < maxTTL → effTTL maxTTL ttl = min ttl maxTTL) ∧ (maxTTL ≤ 0 → effTTL maxTTL ttl = ttl) :=
  ⟨effTTL_capped maxTTL ttl, effTTL_uncapped maxTTL ttl⟩

/-- Documented contract: a non-positive TTL panics and changes nothing (excluded misuse). -/
theorem set_nonpositive_ttl_panics (c : Cache) (k : Key) (v : Val) (ttl : Int) (h : ttl ≤ 0) :
    step c (.set k v ttl) = (c, .panic) := by simp [step, h]

/-- **cleanup_only_expired.** Sequentially, `Cleanup` changes no `Get` result, removes only entries
whose expiry lies strictly before the clock, and leaves every other stored entry as it was. -/
theorem cleanup_only_expired (c : Cache) (k : Key) :
    getOf (doCleanup c) k = getOf c k ∧
    (∀ e, mget c.m k = some e → mget (doCleanup c).m k = none → e.exp < c.now) ∧
    (∀ e, mget (doCleanup c).m k = some e → mget c.m k = some e) := by
  have hm : mget (doCleanup c).m k
      = if k ∈ mkeysWhere c.m (expiredAt c.now) then none else mget c.m k := by
    simp [doCleanup, mget_delKeys]
  refine ⟨?_, ?_, ?_⟩
  · unfold getOf
    rw [hm]
    by_cases hmem : k ∈ mkeysWhere c.m (expiredAt c.now)
    · rw [if_pos hmem]
      obtain ⟨e, hg, hexp⟩ := (mem_mkeysWhere _ _ _).1 hmem
      simp only [expiredAt, decide_eq_true_eq] at hexp
      have : ¬ (c.now < e.exp) := by omega
      simp [hg, this]
    · rw [if_neg hmem]
      rfl
  · intro e hg hn
    rw [hm] at hn
    split at hn
    · rename_i hmem
      obtain ⟨e', hg', hexp⟩ := (mem_mkeysWhere _ _ _).1 hmem
      rw [hg] at hg'; cases hg'
      simpa [expiredAt] using hexp
    · rw [hg] at hn; cases hn
  · intro e hg
    rw [hm] at hg
    split at hg
    · cases hg
    · exact hg

example : getOf (doCleanup (run (Cache.init 0 0) [.set "a" 1 1, .set "b" 2 9, .advance 2000000000])) "b"
    = some 2 ∧ mget (doCleanup (run (Cache.init 0 0) [.set "a" 1 1, .set "b" 2 9, .advance 2000000000])).m "a"
    = none := by decide

/-- `Cleanup` is unobservable through any later history: all outputs are the same with and
without it (so the periodic cleaner never changes what sequential callers see). -/
def cleanup_unobservable_statement : Prop :=
  ∀ (c : Cache) (ops : List Op), outputs (doCleanup c) ops = outputs c ops

/-- **cleanup_unobservable.** Proved by a simulation: a cache and its cleaned-up copy have the same
clock, configuration and servable entries (`ObsEq`), every operation preserves that relation and
answers identically (`obsEq_step`; `Advance` needs the clock to move forward only). -/
theorem cleanup_unobservable : cleanup_unobservable_statement := by
  intro c ops
  exact obsEq_outputs (c1 := doCleanup c) (c2 := c) ⟨rfl, rfl, fun k => live_cleanup c k⟩ ops

/-- Consequently a `Cleanup` inserted anywhere into a history changes no answer, before or after. -/
theorem cleanup_insertion_unobservable (c : Cache) (pre post : List Op) :
    outputs c (pre ++ [.cleanup] ++ post) =
      outputs c pre ++ [Out.done] ++ outputs (run c pre) post := by
  induction pre generalizing c with
  | nil =>
    simp only [List.nil_append, outputs, run, List.foldl_nil, List.singleton_append, step]
    exact congrArg _ (cleanup_unobservable c post)
  | cons o pre ih =>
    simp only [List.cons_append, outputs, run, List.foldl_cons]
    have := ih (step c o).1
    simp only [run] at this
    rw [this]

example : outputs (doCleanup (run (Cache.init 0 0) [.set "a" 1 1, .advance 2000000000]))
      [.get "a", .set "a" 2 1, .get "a", .advance 1000000000, .get "a"]
    = [.miss, .done, .hit 2, .done, .miss] := by decide

/-- **Boundary.** An entry whose expiry equals the clock is missed by `Get` and kept by `Cleanup`;
one nanosecond earlier `Get` hits; one nanosecond later `Cleanup` removes it. -/
theorem boundary_exp_eq_now (c : Cache) (k : Key) (e : Entry) (hg : mget c.m k = some e) :
    (e.exp = c.now → getOf c k = none ∧ mget (doCleanup c).m k = some e) ∧
    (e.exp = c.now + 1 → getOf c k = some e.val) ∧
    (e.exp = c.now - 1 → getOf c k = none ∧ mget (doCleanup c).m k = none) := by
  have hm : mget (doCleanup c).m k
      = if k ∈ mkeysWhere c.m (expiredAt c.now) then none else mget c.m k := by
    simp [doCleanup, mget_delKeys]
  refine ⟨?_, ?_, ?_⟩
  · intro h
    refine ⟨by simp [getOf, hg, h], ?_⟩
    rw [hm, if_neg, hg]
    intro hmem
    obtain ⟨e', hg', hexp⟩ := (mem_mkeysWhere _ _ _).1 hmem
    rw [hg] at hg'; cases hg'
    simp only [expiredAt, decide_eq_true_eq] at hexp
    omega
  · intro h
    have : c.now < e.exp := by omega
    simp [getOf, hg, this]
  · intro h
    have hn : ¬ c.now < e.exp := by omega
    refine ⟨by simp [getOf, hg, hn], ?_⟩
    rw [hm, if_pos]
    exact (mem_mkeysWhere _ _ _).2 ⟨e, hg, by simp [expiredAt]; omega⟩

/-- The boundary through the API: `Set` with ttl `t`, advance exactly `t` seconds: miss, entry
still stored after `Cleanup`; 1 ns less: hit. -/
example :
    let c := run (Cache.init 0 0) [.set "a" 7 3, .advance 3000000000]
    getOf c "a" = none ∧ mget (doCleanup c).m "a" = some ⟨7, 3000000000⟩ ∧
    getOf (run (Cache.init 0 0) [.set "a" 7 3, .advance 2999999999]) "a" = some 7 := by decide

/-- **Overflow bound is needed** (witness): with `MaxTTL` unset, `ttl = 9223372037` s makes
`time.Duration(ttl) * time.Second` wrap to a negative duration, the entry is born expired and the
reference (which uses the mathematical product) is contradicted. `NoOverflow` fails exactly there. -/
theorem overflow_bound_needed_witness :
    getOf (run (Cache.init 0 0) [.set "a" 1 9223372037]) "a" = none ∧
    refGet 0 [.set "a" 1 9223372037] "a" = some 1 ∧
    ¬ NoOverflow 0 9223372037 ∧ NoOverflow 0 9223372036 := by decide

/-- With `MaxTTL` configured within the bound no requested ttl can overflow. -/
theorem no_overflow_of_maxTTL (maxTTL ttl : Int) (h0 : 0 < maxTTL) (hm : maxTTL ≤ 9223372036) :
    NoOverflow maxTTL ttl := by
  unfold NoOverflow effTTL
  split <;> src_omega

/-! ## concurrent (every interleaving, any number of callers and cleaners)

Nothing but single map operations and the clock is atomic: `Get` = `gRead` (map) then `gNow`
(clock, compare); `Set` = `sNow` (clock) then `sStore`; `Cleanup`/`Reset` = clock read, per-key
visits, seal, per-key deletes, return. `s.ref` is the reference map the callers' operations define:
a store puts, `Delete` removes, and a `Reset` that deletes the very entry its visit saw removes it
(`cstep`, ghost updates only). `s.raced` records `(k, stamp)` of entries deleted by a cleaner whose
visit of `k` had seen an *older* entry (different stamp): the documented cleanup/refresh race.
`getOfC s k` is the *stored view*: what map lookup + clock comparison yield in state `s`. -/

/-- **hit_is_fresh (stored view).** In every reachable state, what the stored map would serve for
`k` is the value of the reference entry of that key — the most recently stored value, not deleted,
not reset — and that entry is unexpired on the cache's clock. -/
theorem hit_is_fresh {maxTTL t0 period : Int} {s : CState} (hr : Reach maxTTL t0 period s)
    (k : Key) (v : Val) (hget : getOfC s k = some v) :
    ∃ e st, mget s.ref k = some (e, st) ∧ e.val = v ∧ s.now < e.exp := by
  have hI := (cinv_reach hr).1
  unfold getOfC serve at hget
  cases hg : mget s.m k with
  | none => simp [hg] at hget
  | some x =>
    obtain ⟨e, st⟩ := x
    simp only [hg] at hget
    split at hget
    · rename_i hlt
      simp only [Option.some.injEq] at hget
      exact ⟨e, st, hI.sub k _ hg, hget, hlt⟩
    · cases hget

/-- **get_hit_is_fresh_trace** — the theorem about what a real (non-atomic) `Get` returns. For every
run `ls` of the LTS from the initial state after which a `Get` of `k` (caller `id`) completes with a
hit `v`: the callers' history of the run splits into what had happened when this `Get` read the map
(`hpre`, most recent first) and what happened since (`hnew`); `v` is what the backwards scan over
`hpre` yields — the last `Set k` not followed by `Delete k` at the moment of the map read — and even
at the moment the `Get` returns, strictly less than `min(ttl, MaxTTL?)` seconds have elapsed since
that `Set` was stored. So a `Get` never returns an expired, deleted or superseded value: it returns
the value current at its linearization point (the map read), still unexpired when it returns. -/
theorem get_hit_is_fresh_trace (maxTTL t0 period : Int) (ls : List Label) (s s' : CState)
    (id : Nat) (k : Key) (v : Val)
    (hrun : crun (CState.init maxTTL t0 period) ls = some s)
    (hget : cstep s (.gNow id k (some v)) = some s')
    (hno : ∀ id' k' v' ttl, Label.sStore id' k' v' ttl ∈ ls → NoOverflow maxTTL ttl) :
    ∃ hnew hpre ttl el, (ls.filterMap projOp).reverse = hnew ++ hpre ∧
      lastLive k hpre 0 = some (v, ttl, el) ∧
      ((el : Int) + advSum hnew) < effTTL maxTTL ttl * second := by
  have hA := refAgree_run ls _ s [] (Reach.init) (refAgree_init maxTTL t0 period) hrun
  simp only [List.append_nil] at hA
  simp only [cstep] at hget
  cases hf : findGetter s.getters id with
  | none => simp [hf] at hget
  | some g =>
    simp only [hf] at hget
    split at hget
    · rename_i hcond
      obtain ⟨hgm, _⟩ := findGetter_some hf
      obtain ⟨hk, hserve⟩ := hcond
      unfold serve at hserve
      cases hrd : g.read with
      | none => simp [hrd] at hserve
      | some x =>
        obtain ⟨e, st⟩ := x
        simp only [hrd] at hserve
        split at hserve
        · rename_i hlt
          have hlt' : s.now < e.exp := hlt
          simp only [Option.some.injEq] at hserve
          obtain ⟨hnew, hpre, hsplit, ttl, el, hl, hexp⟩ := hA.get g hgm (e, st) hrd
          rw [hk] at hl
          obtain ⟨hin, hpos⟩ := lastLive_mem k e.val ttl el _ _ hl
          have hlab : ∃ id', Label.sStore id' k e.val ttl ∈ ls := by
            have h1 : Op.set k e.val ttl ∈ (ls.filterMap projOp).reverse := by
              rw [hsplit]; exact List.mem_append_right _ hin
            have h2 : Op.set k e.val ttl ∈ ls.filterMap projOp := by simpa using h1
            obtain ⟨l, hl1, hl2⟩ := List.mem_filterMap.1 h2
            cases l <;> simp [projOp] at hl2
            obtain ⟨rfl, rfl, rfl⟩ := hl2
            exact ⟨_, hl1⟩
          obtain ⟨id', hlab⟩ := hlab
          have hd := durNs_exact maxTTL ttl hpos (hno id' k e.val ttl hlab)
          refine ⟨hnew, hpre, ttl, el, hsplit, ?_, ?_⟩
          · rw [← hserve]; exact hl
          · simp only [] at hexp
            rw [hd] at hexp
            omega
        · cases hserve
    · cases hget

/-- **miss_only_by_documented_race (stored view).** If the reference holds a live entry for `k`
(stamp `st`) and the stored map would not serve it, then `(k, st)` is in `raced`: a cleaner deleted
it although its visit of `k` had seen a different (older) entry. -/
theorem miss_only_by_documented_race {maxTTL t0 period : Int} {s : CState}
    (hr : Reach maxTTL t0 period s) (k : Key) (e : Entry) (st : Nat)
    (href : mget s.ref k = some (e, st)) (hlive : s.now < e.exp) (hmiss : getOfC s k = none) :
    (k, st) ∈ s.raced := by
  have hI := (cinv_reach hr).1
  unfold getOfC serve at hmiss
  cases hg : mget s.m k with
  | none =>
    rcases hI.explained k e st href hg with h1 | h1
    · omega
    · exact h1
  | some x =>
    have := hI.sub k x hg
    rw [href] at this
    cases this
    simp only [hg] at hmiss
    split at hmiss
    · cases hmiss
    · contradiction

/-- **get_miss_only_by_two_races** — the theorem about a real (non-atomic) `Get` that misses. If a
`Get k` completes with a miss in a state whose reference entry for `k` (stamp `st`) is live, then
* either `(k, st) ∈ raced` — the documented cleanup/refresh race (a cleaner deleted the entry
  although its visit had seen an older one),
* or this `Get` had read the map before that entry was stored (`g.stamp0 ≤ st`): the **get/refresh
  race** — between the `Get`'s map read and its clock read the key was refreshed and the clock
  passed the old entry's expiry (or the key was absent/expired at the read and set meanwhile).
No third way exists. The second race involves no cleaner; see `get_refresh_race_witness`. -/
theorem get_miss_only_by_two_races {maxTTL t0 period : Int} {s s' : CState}
    (hr : Reach maxTTL t0 period s) (id : Nat) (k : Key) (e : Entry) (st : Nat)
    (hget : cstep s (.gNow id k none) = some s')
    (href : mget s.ref k = some (e, st)) (hlive : s.now < e.exp) :
    (k, st) ∈ s.raced ∨ ∃ g ∈ s.getters, g.id = id ∧ g.k = k ∧ g.stamp0 ≤ st := by
  have hB := (cinv_reach hr).2
  simp only [cstep] at hget
  cases hf : findGetter s.getters id with
  | none => simp [hf] at hget
  | some g =>
    simp only [hf] at hget
    split at hget
    · rename_i hcond
      obtain ⟨hgm, hgid⟩ := findGetter_some hf
      obtain ⟨hk, hserve⟩ := hcond
      by_cases hold : st < g.stamp0
      · left
        rcases hB.getterOld g hgm e st (hk ▸ href) hold with h1 | h1 | h1
        · rw [h1] at hserve
          have : Src.getHitCmp.rel e.exp s.now := hlive
          simp [serve, this] at hserve
        · omega
        · rw [hk] at h1; exact h1
      · right
        exact ⟨g, hgm, hgid, hk, by omega⟩
    · cases hget

/-- **get_refresh_race_witness.** A run without any cleaner in which `a` is live in the reference at
every moment, yet a `Get a` misses: the `Get` reads the entry stored with ttl 1 s, `a` is refreshed
(ttl 50 s), the clock passes the old expiry, the `Get` compares the OLD expiry with the NEW clock.
`raced` is empty; the reference entry is live; `gNow … none` is enabled and `gNow … (some 2)` is not. -/
theorem get_refresh_race_witness :
    let run := crun (CState.init 0 0 1000000000000)
      [.sNow 1 "a" 1 1, .sStore 1 "a" 1 1, .gRead 7 "a", .sNow 2 "a" 2 50, .sStore 2 "a" 2 50,
       .advance 2000000000]
    run.map (fun s => ((cstep s (.gNow 7 "a" none)).isSome, (cstep s (.gNow 7 "a" (some 2))).isSome))
      = some (true, false) ∧
    run.map (fun s => s.raced) = some [] ∧
    run.map (fun s => (mget s.ref "a").map (fun x => (x.1.val, x.1.exp - s.now))) = some (some (2, 48000000000)) ∧
    run.map (fun s => getOfC s "a") = some (some 2) := by decide

/-- Contrapositive of the stored-view theorem, the form the harness monitors: a live reference entry
that was not hit by the documented race is what the stored map serves. -/
theorem live_entry_hit_unless_raced {maxTTL t0 period : Int} {s : CState}
    (hr : Reach maxTTL t0 period s) (k : Key) (e : Entry) (st : Nat)
    (href : mget s.ref k = some (e, st)) (hlive : s.now < e.exp) (hnr : (k, st) ∉ s.raced) :
    getOfC s k = some e.val := by
  cases hg : getOfC s k with
  | none => exact absurd (miss_only_by_documented_race hr k e st href hlive hg) hnr
  | some v =>
    obtain ⟨e', st', h1, h2, _⟩ := hit_is_fresh hr k v hg
    rw [href] at h1
    cases h1
    rw [h2]

/-- How an entry gets into `raced`: only by a cleaner's delete step `cDelOne id k st0` where the
cleaner is in its delete phase, had collected `(k, st0)` at its visit, and the stored entry now
carries a different stamp `st ≠ st0` — i.e. a store of `k` happened between that visit and this
delete (stamps are assigned by stores only). No other step of any caller or cleaner adds to `raced`. -/
theorem raced_only_by_delete_after_refresh {s s' : CState} {l : Label} (hs : cstep s l = some s')
    (p : Key × Nat) (hp : p ∈ s'.raced) :
    p ∈ s.raced ∨ ∃ id st0, l = .cDelOne id p.1 st0 ∧ st0 ≠ p.2 ∧
      ∃ c ∈ s.cls, c.id = id ∧ c.phase = .deleting ∧ (p.1, st0) ∈ c.keys ∧
        ∃ e, mget s.m p.1 = some (e, p.2) := by
  cases l
  case cDelOne id k st =>
    simp only [cstep] at hs
    split at hs
    · rename_i c0 hfind
      obtain ⟨hc0, hid0⟩ := findCl_some hfind
      split at hs
      · rename_i hcond
        split at hs
        · cases hs; exact Or.inl hp
        · rename_i e0 st' hg
          split at hs
          · cases hs; exact Or.inl hp
          · rename_i hne
            cases hs
            rcases List.mem_cons.1 hp with rfl | hp
            · exact Or.inr ⟨id, st, rfl, fun h => hne h.symm, c0, hc0, hid0, hcond.1, hcond.2, e0, hg⟩
            · exact Or.inl hp
      · cases hs
    · cases hs
  all_goals
    simp only [cstep] at hs
    repeat' split at hs
    all_goals first
      | (cases hs; exact Or.inl hp)
      | cases hs

/-- **untouched_live_key_always_hit.** End to end, for every continuation: if in a reachable state
the reference entry `(e, st)` of `k` is intact (not raced, no Reset in flight, every cleaner that has
collected `k` saw this very entry), then after ANY run `ls` in which nobody stores or deletes `k`
and no Reset begins — any number of Cleanups (manual and periodic) starting, visiting, deleting,
any operations on other keys, any clock advances — as long as the entry is unexpired the stored map
serves it. "Cleanup never makes a live entry of a key nobody touched disappear." -/
theorem untouched_live_key_always_hit {maxTTL t0 period : Int} {s s' : CState}
    (hr : Reach maxTTL t0 period s) (k : Key) (e : Entry) (st : Nat)
    (href : mget s.ref k = some (e, st)) (hnr : (k, st) ∉ s.raced)
    (hnoreset : ∀ c ∈ s.cls, c.isReset = false)
    (hseen : ∀ c ∈ s.cls, ∀ p ∈ c.keys, p.1 = k → p.2 = st)
    (ls : List Label) (hrun : crun s ls = some s')
    (hnt : ∀ l ∈ ls, ¬ Touches k l) (hlive : s'.now < e.exp) :
    getOfC s' k = some e.val := by
  have hI := intact_run ls s s' hr ⟨href, hnr, hnoreset, hseen⟩ hrun hnt
  exact live_entry_hit_unless_raced (reach_of_crun ls s s' hr hrun) k e st hI.ref hlive hI.notRaced

/-- In particular from a quiescent state (no cleaner in flight). -/
theorem untouched_live_key_always_hit_quiescent {maxTTL t0 period : Int} {s s' : CState}
    (hr : Reach maxTTL t0 period s) (k : Key) (e : Entry) (st : Nat)
    (href : mget s.ref k = some (e, st)) (hnr : (k, st) ∉ s.raced) (hq : s.cls = [])
    (ls : List Label) (hrun : crun s ls = some s')
    (hnt : ∀ l ∈ ls, ¬ Touches k l) (hlive : s'.now < e.exp) :
    getOfC s' k = some e.val :=
  untouched_live_key_always_hit hr k e st href hnr (by simp [hq]) (by simp [hq]) ls hrun hnt hlive

/-- **reset_removes_older_entries** — what IS true for a concurrent (non-atomic) `Reset`: when it
returns (`cEnd`), every entry still stored was stored after this Reset's ForEach began
(stamp ≥ its `stamp0`). Equivalently: every key present when the Reset started and not re-stored
meanwhile is gone when it returns. (Entries stored during the Reset may survive: the code is not
atomic; an atomic-Reset theorem is deliberately not claimed.) -/
theorem reset_removes_older_entries {maxTTL t0 period : Int} {s s' : CState}
    (hr : Reach maxTTL t0 period s) (id : Nat) (c : Cleaner)
    (hf : findCl s.cls id = some c) (hreset : c.isReset = true)
    (hend : cstep s (.cEnd id) = some s') :
    ∀ k x, mget s'.m k = some x → c.stamp0 ≤ x.2 := by
  have hB' := (cinv_reach (Reach.step _ hr hend)).2
  intro k x hx
  have hfl := hB'.floor k x hx
  simp only [cstep, hf] at hend
  split at hend
  · cases hend
    simp only [hreset, if_true] at hfl
    omega
  · cases hend

/-- **hit_not_reset_since.** In every reachable state, whatever the stored map serves was stored
after the ForEach of every `Reset` that has returned began (`resetFloor` = the largest such start).
So no `Get` that reads the map after a `Reset` returned can hit a value that was present when that
`Reset` started, unless it was stored again. -/
theorem hit_not_reset_since {maxTTL t0 period : Int} {s : CState} (hr : Reach maxTTL t0 period s)
    (k : Key) (v : Val) (hget : getOfC s k = some v) :
    ∃ e st, mget s.m k = some (e, st) ∧ e.val = v ∧ s.resetFloor ≤ st := by
  have hB := (cinv_reach hr).2
  unfold getOfC serve at hget
  cases hg : mget s.m k with
  | none => simp [hg] at hget
  | some x =>
    obtain ⟨e, st⟩ := x
    simp only [hg] at hget
    split at hget
    · simp only [Option.some.injEq] at hget
      exact ⟨e, st, rfl, hget, hB.floor k _ hg⟩
    · cases hget

/-- Non-vacuity of the Reset theorems, and the audit's run repaired: a Reset can no longer "visit
nothing" (`cSeal` is disabled while a key stored at its start is unvisited); after a full Reset the
key misses; a key stored during the Reset survives (non-atomicity, as in the code). -/
example :
    (crun (CState.init 0 0 1000000000000)
      [.sNow 1 "a" 1 50, .sStore 1 "a" 1 50, .cBegin 1 true, .cNow 1]).map
      (fun s => (cstep s (.cSeal 1)).isSome) = some false ∧
    (crun (CState.init 0 0 1000000000000)
      [.sNow 1 "a" 1 50, .sStore 1 "a" 1 50, .cBegin 1 true, .cNow 1, .cVisit 1 "a", .cSeal 1,
       .sNow 2 "b" 2 50, .sStore 2 "b" 2 50, .cDelOne 1 "a" 0, .cEnd 1]).map
      (fun s => (getOfC s "a", getOfC s "b", s.resetFloor)) = some (none, some 2, 1) := by decide

/-- **stop_waits_cleaner.** EVERY `Stop` call — the one that wins the `stopped` CAS and every other,
concurrent or later one (`caller` is arbitrary; any number of them may be in flight) — can return
only when the periodic goroutine has exited: it is not inside a Cleanup (no cleaner with id 0 in
flight) and its deferred `ticker.Stop()` has run. -/
theorem stop_waits_cleaner {maxTTL t0 period : Int} {s s' : CState} (hr : Reach maxTTL t0 period s)
    (caller : Nat) (hs : cstep s (.stopReturn caller) = some s') :
    s.bg = .exited ∧ s.tickerStopped = true ∧ ∀ c ∈ s.cls, c.id ≠ 0 := by
  have hI := (cinv_reach hr).1
  simp only [cstep] at hs
  split at hs
  · rename_i hcond
    obtain ⟨hb, ht⟩ := hI.closed hcond.2
    refine ⟨hb, ht, fun c hc h0 => ?_⟩
    have := hI.bgCl c hc h0
    rw [hb] at this; cases this
  · cases hs

/-- Once the periodic goroutine has exited it stays exited: no step of anybody restarts it. -/
theorem exited_is_final {maxTTL t0 period : Int} {s s' : CState} {l : Label}
    (hr : Reach maxTTL t0 period s) (hs : cstep s l = some s') (hb : s.bg = .exited) :
    s'.bg = .exited := by
  have hI := (cinv_reach hr).1
  cases l
  case cEnd id =>
    simp only [cstep] at hs
    split at hs
    · rename_i c0 hfind
      obtain ⟨hc0, hid0⟩ := findCl_some hfind
      split at hs
      · cases hs
        by_cases hz : id = 0
        · have := hI.bgCl c0 hc0 (by rw [hid0, hz])
          rw [hb] at this; cases this
        · simp [hz, hb]
      · cases hs
    · cases hs
  case bgTake =>
    simp only [cstep] at hs
    split at hs
    · rename_i hcond; rw [hb] at hcond; exact absurd hcond.1 (by decide)
    · cases hs
  case bgStart =>
    simp only [cstep] at hs
    split at hs
    · rename_i hcond; rw [hb] at hcond; cases hcond
    · cases hs
  all_goals
    simp only [cstep] at hs
    repeat' split at hs
    all_goals first
      | (cases hs; exact hb)
      | (cases hs; rfl)
      | cases hs

/-- **After any `Stop` has returned the periodic cleaner deletes nothing any more**: in every state
reachable afterwards its delete step is disabled (and so are its visits and its restart). -/
theorem no_periodic_delete_after_stop_returned {maxTTL t0 period : Int} {s s1 : CState}
    (hr : Reach maxTTL t0 period s) (caller : Nat) (hs : cstep s (.stopReturn caller) = some s1)
    (ls : List Label) (s2 : CState) (hrun : crun s1 ls = some s2) :
    s2.bg = .exited ∧ (∀ k st, cstep s2 (.cDelOne 0 k st) = none) ∧ cstep s2 .bgTake = none ∧
      cstep s2 .bgStart = none := by
  have hb1 : s1.bg = .exited := exited_is_final hr hs (stop_waits_cleaner hr caller hs).1
  have hr1 : Reach maxTTL t0 period s1 := Reach.step _ hr hs
  have key : ∀ (ls : List Label) (a b : CState), Reach maxTTL t0 period a → a.bg = .exited →
      crun a ls = some b → Reach maxTTL t0 period b ∧ b.bg = .exited := by
    intro ls
    induction ls with
    | nil => intro a b ha hb h; simp only [crun, Option.some.injEq] at h; subst h; exact ⟨ha, hb⟩
    | cons l ls ih =>
      intro a b ha hb h
      simp only [crun] at h
      cases hst : cstep a l with
      | none => simp [hst] at h
      | some a' =>
        simp only [hst] at h
        exact ih a' b (Reach.step _ ha hst) (exited_is_final ha hst hb) h
  obtain ⟨hr2, hb2⟩ := key ls s1 s2 hr1 hb1 hrun
  have hI := (cinv_reach hr2).1
  refine ⟨hb2, ?_, ?_⟩
  · intro k st
    simp only [cstep]
    cases hf : findCl s2.cls 0 with
    | none => rfl
    | some c =>
      obtain ⟨hc, hid⟩ := findCl_some hf
      have := hI.bgCl c hc hid
      rw [hb2] at this; cases this
  · refine ⟨?_, ?_⟩
    · simp only [cstep]
      rw [if_neg]
      intro h; rw [hb2] at h; exact absurd h.1 (by decide)
    · simp only [cstep]
      rw [if_neg]
      intro h; rw [hb2] at h; cases h

/-- **stop_waits_for_unstarted_cleaner.** `NewCache` creates `runningCh` before the `go` statement and
only the goroutine itself closes it, so a `Stop` issued before the periodic goroutine has ever been
scheduled (`spawned`) cannot return: it returns only after the goroutine has started AND exited.
(A completion signal the goroutine registers on itself — e.g. `wg.Add(1)` inside the goroutine —
would break exactly this.) -/
theorem stop_waits_for_unstarted_cleaner {maxTTL t0 period : Int} {s : CState}
    (hr : Reach maxTTL t0 period s) (hsp : s.bg = .spawned) (caller : Nat) :
    cstep s (.stopReturn caller) = none := by
  cases h : cstep s (.stopReturn caller) with
  | none => rfl
  | some s' =>
    have := (stop_waits_cleaner hr caller h).1
    rw [hsp] at this; cases this

/-- `NewCache(); Stop()` back to back, as a run: `Stop` cannot return while the goroutine is unstarted
or idle; after it returned no ticker exists for the clock to fire and nothing can restart the cleaner. -/
example :
    (crun (CState.init 0 0 1000000000) [.stopCall 1]).map (fun s => (cstep s (.stopReturn 1)).isSome) = some false ∧
    (crun (CState.init 0 0 1000000000) [.stopCall 1, .bgStart]).map (fun s => (cstep s (.stopReturn 1)).isSome) = some false ∧
    (crun (CState.init 0 0 1000000000) [.stopCall 1, .bgStart, .bgExit, .stopReturn 1, .advance 5000000000]).map
      (fun s => (s.tickPending, (cstep s .bgTake).isSome, (cstep s .bgStart).isSome)) = some (false, false, false) := by
  decide

/-- Non-vacuity (and the documented cleanup/refresh race as a run of the LTS): `Set a` (ttl 1 s),
2 s pass, a cleaner snapshots `a` as expired, `a` is refreshed (ttl 50 s), a `Get` hits the new
value, the cleaner deletes: now the reference entry is live, a `Get` misses, and `raced` names
exactly it. The untouched key `b` is still served. -/
example :
    (crun (CState.init 0 0 1000000000000)
      [.sNow 1 "a" 1 1, .sStore 1 "a" 1 1, .sNow 1 "b" 2 50, .sStore 1 "b" 2 50, .advance 2000000000,
       .cBegin 1 false, .cNow 1, .cVisit 1 "a", .cVisit 1 "b", .cSeal 1,
       .sNow 1 "a" 3 50, .sStore 1 "a" 3 50, .gRead 1 "a", .gNow 1 "a" (some 3),
       .cDelOne 1 "a" 0, .cEnd 1, .gRead 1 "a", .gNow 1 "a" none, .gRead 1 "b", .gNow 1 "b" (some 2)]).map
      (fun s => (getOfC s "a", s.raced, (mget s.ref "a").map (fun x => (x.1.val, x.2)), getOfC s "b"))
    = some (none, [("a", 2)], some (3, 2), some 2) := by decide

/-- Non-vacuity of `stop_waits_cleaner`: two concurrent `Stop` calls while the periodic cleaner is
inside Cleanup: NEITHER can return (`stopReturn 1`, `stopReturn 2` disabled) until the cleaner has
finished and exited; then both return. -/
example :
    (crun (CState.init 0 0 1000000000) [.bgStart, .advance 1000000000, .bgTake, .cNow 0, .cSeal 0, .stopCall 1, .stopCall 2]).map
      (fun s => ((cstep s (.stopReturn 1)).isSome, (cstep s (.stopReturn 2)).isSome)) = some (false, false) ∧
    (crun (CState.init 0 0 1000000000)
      [.bgStart, .advance 1000000000, .bgTake, .cNow 0, .cSeal 0, .stopCall 1, .stopCall 2, .cEnd 0, .bgExit,
       .stopReturn 2, .stopReturn 1, .stopCall 3, .stopReturn 3]).isSome = true := by decide

/-- Trace-level reading of the stored view: for every run `ls` of the LTS from the initial state,
what the stored map serves at the end equals what the backwards scan `lastLive` over the callers'
store/Delete/Advance labels of that very run yields, and strictly less than `min(ttl, MaxTTL?)`
seconds have elapsed since that store. -/
def hit_is_fresh_trace_statement : Prop :=
  ∀ (maxTTL t0 period : Int) (ls : List Label) (s : CState) (k : Key) (v : Val),
    crun (CState.init maxTTL t0 period) ls = some s → getOfC s k = some v →
    (∀ id' k' v' ttl, Label.sStore id' k' v' ttl ∈ ls → NoOverflow maxTTL ttl) →
    ∃ ttl el, lastLive k ((ls.filterMap projOp).reverse) 0 = some (v, ttl, el) ∧
      (el : Int) < effTTL maxTTL ttl * second

/-- **hit_is_fresh_trace.** -/
theorem hit_is_fresh_trace : hit_is_fresh_trace_statement := by
  intro maxTTL t0 period ls s k v hrun hget hno
  have hr : Reach maxTTL t0 period s := reach_of_crun ls _ s Reach.init hrun
  obtain ⟨e, st, href, hval, hlt⟩ := hit_is_fresh hr k v hget
  have hA := refAgree_run ls _ s [] Reach.init (refAgree_init maxTTL t0 period) hrun
  simp only [List.append_nil] at hA
  obtain ⟨ttl, el, hl, hexp⟩ := hA.ref k (e, st) href
  obtain ⟨hin, hpos⟩ := lastLive_mem k e.val ttl el _ _ hl
  have hlab : ∃ id', Label.sStore id' k e.val ttl ∈ ls := by
    have h1 : Op.set k e.val ttl ∈ ls.filterMap projOp := by simpa using hin
    obtain ⟨l, hl1, hl2⟩ := List.mem_filterMap.1 h1
    cases l <;> simp [projOp] at hl2
    obtain ⟨rfl, rfl, rfl⟩ := hl2
    exact ⟨_, hl1⟩
  obtain ⟨id', hlab⟩ := hlab
  have hd := durNs_exact maxTTL ttl hpos (hno id' k e.val ttl hlab)
  refine ⟨ttl, el, ?_, ?_⟩
  · rw [← hval]; exact hl
  · simp only [] at hexp
    rw [hd] at hexp
    omega

/-! ## soundness of the scheduled-interleaving acceptor (`respond` / `drive`, run by `kitdrv C15`)

A real scheduled trace is *accepted* when every answer `drive` computes for the script equals what
the harness observed on the real cache. The answers are produced by running labels of the LTS;
these theorems say so, hence every theorem about runs applies to every accepted real trace. -/

/-- **accepted_trace_is_run.** The labels executed for a script form a run of the LTS from the
initial state to the acceptor's final state (which is therefore reachable); if no answer is
`error` (real traces never contain one), the callers' history of that run is exactly the script's
store/Delete/Advance requests. -/
theorem accepted_trace_is_run (maxTTL t0 period : Int) (rs : List Req) :
    let d := drive (CState.init maxTTL t0 period) rs
    crun (CState.init maxTTL t0 period) d.2.2 = some d.1 ∧
    Reach maxTTL t0 period d.1 ∧
    (Resp.error ∉ d.2.1 → d.2.2.filterMap projOp = rs.filterMap reqOp) := by
  refine ⟨drive_sound _ rs, ?_, drive_projOp _ rs⟩
  exact reach_of_crun _ _ _ Reach.init (drive_sound _ rs)

/-- Position-wise form: the `i`-th answer of a script is `respond` in the state after the first
`i` requests. -/
theorem accepted_answer_at (s : CState) (r1 : List Req) (r : Req) (r2 : List Req) :
    (drive s (r1 ++ r :: r2)).2.1[r1.length]? = some (respond (drive s r1).1 r).resp :=
  drive_resp_at s r1 r r2

/-- **accepted_hit_is_fresh.** In an accepted scheduled trace, an (unsplit) `Get k` answered `hit v`
after the requests `rs` (cleaners, split Sets and Gets parked and released anywhere in between)
returns what the backwards scan over the script's own store/Delete/Advance requests yields, younger
than `min(ttl, MaxTTL?)`. -/
theorem accepted_hit_is_fresh (maxTTL t0 period : Int) (rs : List Req) (k : Key) (v : Val)
    (hok : Resp.error ∉ (drive (CState.init maxTTL t0 period) rs).2.1)
    (hhit : (respond (drive (CState.init maxTTL t0 period) rs).1 (.get k)).resp = .hit v)
    (hno : ∀ r ∈ rs, ∀ o, reqOp r = some o → ∀ k' v' ttl, o = Op.set k' v' ttl → NoOverflow maxTTL ttl) :
    ∃ ttl el, lastLive k ((rs.filterMap reqOp).reverse) 0 = some (v, ttl, el) ∧
      (el : Int) < effTTL maxTTL ttl * second := by
  have hget := respond_get_hit _ k v hhit
  have hrun := drive_sound (CState.init maxTTL t0 period) rs
  have hproj := drive_projOp (CState.init maxTTL t0 period) rs hok
  have := hit_is_fresh_trace maxTTL t0 period _ _ k v hrun hget (by
    intro id' k' v' ttl hl
    have h1 : Op.set k' v' ttl ∈ (drive (CState.init maxTTL t0 period) rs).2.2.filterMap projOp :=
      List.mem_filterMap.2 ⟨_, hl, rfl⟩
    rw [hproj] at h1
    obtain ⟨r, hr1, hr2⟩ := List.mem_filterMap.1 h1
    exact hno r hr1 _ hr2 k' v' ttl rfl)
  rw [hproj] at this
  exact this

/-- **accepted_split_get_hit_is_fresh.** The same for a `Get` that was parked between its map read
and its clock read (`gbegin … gend`): a `hit v` answer to `gend` means `v` was the last live `Set`
when the `Get` read the map, and fewer than `min(ttl, MaxTTL?)` seconds elapsed until it returned. -/
theorem accepted_split_get_hit_is_fresh (maxTTL t0 period : Int) (rs : List Req) (id : Nat) (k : Key) (v : Val)
    (hok : Resp.error ∉ (drive (CState.init maxTTL t0 period) rs).2.1)
    (hhit : (respond (drive (CState.init maxTTL t0 period) rs).1 (.gend id k)).resp = .hit v)
    (hno : ∀ r ∈ rs, ∀ o, reqOp r = some o → ∀ k' v' ttl, o = Op.set k' v' ttl → NoOverflow maxTTL ttl) :
    ∃ hnew hpre ttl el, (rs.filterMap reqOp).reverse = hnew ++ hpre ∧
      lastLive k hpre 0 = some (v, ttl, el) ∧ ((el : Int) + advSum hnew) < effTTL maxTTL ttl * second := by
  have hrun := drive_sound (CState.init maxTTL t0 period) rs
  have hproj := drive_projOp (CState.init maxTTL t0 period) rs hok
  obtain ⟨r, hresp, hstep⟩ := respond_gend _ id k (by rw [hhit]; simp)
  rw [hhit] at hresp
  cases r with
  | none => simp [respOfGet] at hresp
  | some v' =>
    simp only [respOfGet, Resp.hit.injEq] at hresp
    subst hresp
    have := get_hit_is_fresh_trace maxTTL t0 period _ _ _ id k v hrun hstep (by
      intro id' k' v' ttl hl
      have h1 : Op.set k' v' ttl ∈ (drive (CState.init maxTTL t0 period) rs).2.2.filterMap projOp :=
        List.mem_filterMap.2 ⟨_, hl, rfl⟩
      rw [hproj] at h1
      obtain ⟨r, hr1, hr2⟩ := List.mem_filterMap.1 h1
      exact hno r hr1 _ hr2 k' v' ttl rfl)
    rw [hproj] at this
    exact this

/-- **accepted_stop_return_means_exited.** Whenever the acceptor answers a concurrent `Stop` caller
with `returned` (from any reachable state), the periodic goroutine has exited in the resulting
state — so a real trace in which some Stop returns while the cleaner is parked is never accepted. -/
theorem accepted_stop_return_means_exited {maxTTL t0 period : Int} {s : CState}
    (hr : Reach maxTTL t0 period s) (id : Nat)
    (h : (respond s (.stopcall id)).resp = .returned) :
    (respond s (.stopcall id)).state.bg = .exited := by
  simp only [respond] at h ⊢
  rcases firstRun_spec s [([Label.stopCall id, .bgStart, .bgExit, .stopReturn id], Resp.returned),
      ([Label.stopCall id, .bgExit, .stopReturn id], Resp.returned),
      ([Label.stopCall id, .stopReturn id], Resp.returned), ([Label.stopCall id], Resp.blocked)] with h1 | ⟨a, ha, _, h2, h3⟩
  · rw [h1.2] at h; cases h
  · simp only [List.mem_cons, List.not_mem_nil, or_false] at ha
    rcases ha with rfl | rfl | rfl | rfl
    · obtain ⟨s2, hs2, hst⟩ := crun_snoc (pre := [Label.stopCall id, .bgStart, .bgExit]) (l := .stopReturn id) h3
      have hr2 := reach_of_crun _ _ _ hr hs2
      exact exited_is_final hr2 hst (stop_waits_cleaner hr2 id hst).1
    · obtain ⟨s2, hs2, hst⟩ := crun_snoc (pre := [Label.stopCall id, .bgExit]) (l := .stopReturn id) h3
      have hr2 := reach_of_crun _ _ _ hr hs2
      exact exited_is_final hr2 hst (stop_waits_cleaner hr2 id hst).1
    · obtain ⟨s2, hs2, hst⟩ := crun_snoc (pre := [Label.stopCall id]) (l := .stopReturn id) h3
      have hr2 := reach_of_crun _ _ _ hr hs2
      exact exited_is_final hr2 hst (stop_waits_cleaner hr2 id hst).1
    · rw [h2] at h; cases h

/-- Non-vacuity: a script with a parked periodic cleaner, a refresh, two blocked Stop callers, and
the get/refresh race through a parked `Get`. -/
example :
    (drive (CState.init 0 0 1000000000)
      [.bgstart, .set "a" 1 1, .adv 2000000000, .bgsnap, .stopcall 1, .stopcall 2, .set "a" 2 9, .get "a",
       .bgfinish, .stopwait 2, .stopwait 1, .get "a",
       .set "b" 1 1, .gbegin 5 "b", .set "b" 2 50, .adv 1000000000, .gend 5 "b", .get "b"]).2.1
    = [.ok, .ok, .ticked .sent, .snap ["a"], .blocked, .blocked, .ok, .hit 2, .ok, .ok, .ok, .miss,
       .ok, .ok, .ok, .ticked .none, .miss, .hit 2] := by
  decide

/-! ## T1: the source's shape, regenerated from ttlcache.go on every run (`KitModel/Generated/C15.lean`)

The model is written over the generated comparison operators and constants (`getOf`, `expiredAt`,
`badTTL`, `effTTL`, `second`, `effPeriod` mention `Src.*` only), so every theorem above is re-checked
against what the source says now. This theorem pins down the readings the statements rely on and
the structural facts the LTS encodes by construction. -/

/-- **source_shape_as_modelled.**
* `Get` hits iff `now < exp` (strict); `Cleanup` collects iff `exp < now` (strict): hence the
  boundary `exp == now` is missed by Get and kept by Cleanup;
* `Set` panics iff `ttl ≤ 0`, caps iff `0 < MaxTTL < ttl`, multiplies by 10⁹ ns (`time.Second`);
* `Cleanup` = read clock, ForEach collecting by the criterion, hook, bulk `Del`; `Reset` = ForEach
  collecting every key, hook, bulk `Del` (the cleaner phases `cNow`, `cVisit`*, `cSeal`, `cDelOne`*);
* `Stop` = `if CAS { close(stopCh) }` then an UNCONDITIONAL `<-runningCh`: every caller waits
  (the guard of `stopReturn` for every caller id);
* `runningCh` is made BEFORE the `go` statement (synchronously inside `NewCache`) and closed only by the
  goroutine's own deferred `close`: `Stop` waits even for a goroutine that has not run yet (pc `spawned`,
  `stop_waits_for_unstarted_cleaner`);
* the periodic goroutine defers `close(runningCh)` first and `ticker.Stop()` second (so the ticker
  is stopped before `runningCh` closes: `bgExit` sets both) and selects on stopCh/return and tick/Cleanup;
* `NewCache` replaces an interval `≤ 0` by 150 s; the two hook sites are where `cSeal` sits. -/
theorem source_shape_as_modelled :
    (∀ exp now : Int, Src.getHitCmp.rel exp now ↔ now < exp) ∧
    (∀ exp now : Int, Src.cleanupCmp.rel exp now ↔ exp < now) ∧
    (∀ ttl : Int, badTTL ttl ↔ ttl ≤ 0) ∧
    (∀ m t : Int, effTTL m t = if 0 < m ∧ m < t then m else t) ∧
    second = 1000000000 ∧
    (∀ p : Int, effPeriod p = if p ≤ 0 then 150000000000 else p) ∧
    Src.cleanupSteps = ["readClock", "forEachCollectIf", "hook", "bulkDel"] ∧
    Src.resetSteps = ["forEachCollectAll", "hook", "bulkDel"] ∧
    Src.stopSteps = ["ifCAS:closeStopCh", "waitRunningCh"] ∧
    Src.stopEveryCallerWaits = true ∧
    Src.bgSetup = ["makeRunningCh", "go"] ∧
    Src.bgDefers = ["closeRunningCh", "tickerStop"] ∧
    Src.bgSelect = ["stopCh:return", "tick:Cleanup"] ∧
    Src.hookSites = [("Cleanup", "ttlcache.cleanup.afterSnapshot"), ("Reset", "ttlcache.reset.afterSnapshot")] := by
  refine ⟨fun _ _ => Iff.rfl, fun _ _ => Iff.rfl, fun _ => Iff.rfl, fun _ _ => rfl, rfl, fun _ => rfl,
    by decide, by decide, by decide, rfl, by decide, by decide, by decide, by decide⟩

end Kit.TTLCache
