import KitProofs.Lemmas.Batcher
import KitProofs.Lemmas.BatcherProgress
import KitProofs.Lemmas.BatcherWedge
import KitProofs.Lemmas.BatcherAccept
import KitProofs.Props.C06
/-!
# C10 — batcher: last value per key once per quiet interval; departures never wedge it

All theorems are about `Kit.Batcher.lts cfg`, the transition system of `KitModel/Batcher.lean`:
the C06 processor LTS (repaired loop) composed with the subscribers, the lock-holding `execute`
fan-out and `Close`.  They quantify over EVERY reachable state, i.e. every interleaving of any
number of `Batch` callers, clock advances, `Subscribe` calls, context cancellations, readers,
`Close`, the queue's loop goroutine and the forwarder goroutines; every buffer capacity and
interval.  Theorems with the hypothesis `cfg.fixed = true` are about the code after the `fix:`
commit (per-subscriber exit channel); `wedge_witness` is about the fan-out as it was found.

Which C06 theorems are relied on: `reach_proj` shows that the processor component of a reachable
batcher state is reachable in `Processor.lts fixedCfg`, so `C06.exactly_once`, `C06.not_early`,
`C06.in_order`, `C06.close_quiescent` and `Processor.progress` (`C06.none_stranded`) are used
as they stand, on `s.p`.
-/
namespace Kit.Batcher.C10
open Kit.Queue Kit.Processor Kit.Batcher

/-- **Composition**: the processor inside a reachable batcher state is a reachable state of the C06
transition system, so every C06 theorem holds of `s.p`. -/
theorem processor_component_reachable {cfg : Cfg} {s : State} (hr : Reach (Batcher.lts cfg) s) :
    Reach (Processor.lts fixedCfg) s.p := reach_proj hr

/-- In a well-formed history a live item is the latest `Enqueue` of its key. -/
theorem live_is_latest {l : List (Event Nat Nat)} (hok : LogOK l) {x : It} (hx : x ∈ live l) :
    ∀ y, Event.enq y ∈ l → y.key = x.key → y.id ≤ x.id := by
  induction l with
  | nil => simp [live] at hx
  | cons e l ih =>
    have ih := ih hok.2
    have hev : EvOK e l := hok.1
    cases e <;> simp only [live] at hx <;> simp only [EvOK] at hev
    case enq r =>
      intro y hy hk
      rcases mem_insert.mp hx with rfl | ⟨hxl, hne⟩
      · rcases List.mem_cons.mp hy with h | h
        · cases h; exact Nat.le_refl _
        · exact Nat.le_of_lt (hev y h)
      · rcases List.mem_cons.mp hy with h | h
        · cases h; exact absurd hk.symm hne
        · exact ih hxl y h hk
    case deq k =>
      intro y hy hk
      exact ih (mem_remove.mp hx).1 y (by simpa using hy) hk
    case pop r =>
      intro y hy hk
      exact ih (mem_pop.mp hx).1 y (by simpa using hy) hk
    case exec r n =>
      intro y hy hk
      exact ih hx y (by simpa using hy) hk
    case closeRet =>
      intro y hy hk
      exact ih hx y (by simpa using hy) hk

/-- **debounce** (what a delivery means).  If subscriber `u` has been handed item `x` (key, value,
scheduled time, identity of the `Batch` call) then
* `x` was passed to `Batch` when the clock showed `x.time - interval`;
* its fan-out happened exactly once, when the clock was at least `call time + interval - 0.5 ms`
  (or — the saturation case C06 now models, `C06.not_early` — when the clock had run for 2^63 ns,
  about 292 years, since the model's clock origin);
* when the processor popped it, it was the LAST `Batch` for its key: every `Batch` of the same key
  made before the pop is `x` itself or an older call (earlier values inside the interval are
  suppressed — they were replaced and, by `C06.dequeued_or_replaced_never_runs`, never run). -/
theorem debounce {cfg : Cfg} {s : State} (hr : Reach (Batcher.lts cfg) s) {u : Sub} (hu : u ∈ s.subs)
    {x : It} (hx : x ∈ u.delivered) :
    (x.id, x.time - cfg.interval) ∈ s.calls ∧
    (∃ post pre n, s.p.log = post ++ Event.exec x n :: pre ∧ (x.time - halfMs ≤ n ∨ maxDur ≤ n) ∧
        (∀ m, Event.exec x m ∉ pre) ∧ (∀ m, Event.exec x m ∉ post)) ∧
    (∃ post pre, s.p.log = post ++ Event.pop x :: pre ∧
        ∀ y, Event.enq y ∈ pre → y.key = x.key → y.id ≤ x.id) := by
  have hO := invOut hr
  have hp := reach_proj hr
  have hxo : x ∈ s.out := hO.2.2.2.1 u hu x (by simp [Sub.seq, hx])
  obtain ⟨n, hn⟩ := hO.1 x hxo
  obtain ⟨post, pre, hl⟩ := List.append_of_mem hn
  have h1 := C06.exactly_once hp hl
  have h2 := C06.not_early hp hl
  obtain ⟨post2, pre2, hl2⟩ := List.append_of_mem h1.1
  have hl' : s.p.log = (post ++ Event.exec x n :: post2) ++ Event.pop x :: pre2 := by simp [hl, hl2]
  have h3 := C06.in_order hp hl'
  have hok : LogOK pre2 := by
    have := logOK hp
    rw [hl'] at this
    have h4 : LogOK (Event.pop x :: pre2) := logOK_suffix this
    exact h4.2
  have henq : Event.enq x ∈ s.p.log := by
    have := enq_of_live h3.1
    rw [hl']; simp [this]
  refine ⟨hO.2.2.2.2.2 x henq, ⟨post, pre, n, hl, h2, h1.2.1, h1.2.2⟩, ⟨_, pre2, hl', live_is_latest hok h3.1⟩⟩

/-- **debounce** (once): nothing is fanned out twice, and each subscriber that has not left is
given every fanned-out item exactly once, in fan-out order (`same_sequence`). -/
theorem fanned_out_once {cfg : Cfg} {s : State} (hr : Reach (Batcher.lts cfg) s) : s.out.Nodup :=
  (invOut hr).2.2.1

/-- **same_sequence** (log-suffix invariant): for every subscriber that has not `missed` an item,
what it has received, what its forwarder holds, what is buffered for it and what the running
fan-out still owes it are together exactly the items fanned out since it subscribed, in that
order.  So all subscribers see the same sequence `s.out` (from the point where they joined), each
item exactly once. -/
theorem same_sequence {cfg : Cfg} {s : State} (hr : Reach (Batcher.lts cfg) s) {i : Nat} {u : Sub}
    (hi : s.subs[i]? = some u) (hm : u.missed = false) :
    u.delivered ++ u.hand ++ u.buf ++ pend s i = s.out.drop u.joinedAt ∧ u.joinedAt ≤ s.out.length := by
  have := invSuf hr i u hi
  exact ⟨this.2 hm, this.1⟩

/-- Consequence: what a subscriber that stays subscribed has received is a prefix of the common
sequence from its joining point. -/
theorem delivered_is_prefix {cfg : Cfg} {s : State} (hr : Reach (Batcher.lts cfg) s) {i : Nat} {u : Sub}
    (hi : s.subs[i]? = some u) (hm : u.missed = false) :
    ∃ rest, s.out.drop u.joinedAt = u.delivered ++ rest := by
  refine ⟨u.hand ++ u.buf ++ pend s i, ?_⟩
  rw [← (same_sequence hr hi hm).1]; simp

/-- **same_sequence** for EVERY subscriber, also one that has left or missed items: what it has
received is a subsequence of the common sequence from its joining point — the same order as
everybody else's — and contains no item twice (at most once for leavers). -/
theorem delivered_is_subsequence {cfg : Cfg} {s : State} (hr : Reach (Batcher.lts cfg) s) {i : Nat} {u : Sub}
    (hi : s.subs[i]? = some u) :
    u.delivered.Sublist (s.out.drop u.joinedAt) ∧ u.delivered.Nodup := by
  have h := (invSubl hr i u hi).2
  have h1 : u.delivered.Sublist (u.seq ++ pend s i) := by
    simp only [Sub.seq, List.append_assoc]
    exact List.sublist_append_left _ _
  have h2 := h1.trans h
  exact ⟨h2, h2.nodup (((invOut hr).2.2.1).sublist (List.drop_sublist _ _))⟩

/-- A subscriber misses an item only after its context has ended or the batcher was closed:
"once per subscriber that stays subscribed". -/
theorem missed_only_after_departure {cfg : Cfg} {s : State} (hr : Reach (Batcher.lts cfg) s) {u : Sub}
    (hu : u ∈ s.subs) (hm : u.missed = true) : u.ctxDone = true ∨ s.closed = true :=
  (invSub hr u hu).2.1 hm

/-- **close_closes_all**, for EVERY `Close` call (any number of overlapping or sequential callers):
the return of a `Close` call — the step `closeReturn` of whichever caller — happens only in a state
in which `closeCh` is closed and the forwarder of every subscriber ever accepted is `done`: it has
closed the subscriber's channel and removed it from `eventChs`. -/
theorem close_closes_all {cfg : Cfg} {s s' : State} (hr : Reach (Batcher.lts cfg) s)
    (hst : Batcher.step cfg s .closeReturn = some s') :
    s.closed = true ∧ (∀ u ∈ s.subs, u.pc = .done) ∧ s'.subs = s.subs ∧ 0 < s'.cr := by
  have hC := invCtl hr
  simp only [Batcher.step, Batcher.closeReturn] at hst
  split at hst <;> try contradiction
  rename_i hg
  simp only [Option.some.injEq] at hst
  subst hst
  refine ⟨hC.2.2.2.2.1 (Or.inl hg.1), ?_, rfl, by simp⟩
  intro u hu
  have := hg.2
  simp only [allDone, List.all_eq_true, beq_iff_eq] at this
  exact this u hu

/-- State form: once some `Close` call has returned, every forwarder is `done` — and stays so. -/
theorem close_closes_all_state {cfg : Cfg} {s : State} (hr : Reach (Batcher.lts cfg) s) (hc : 0 < s.cr) :
    s.closed = true ∧ ∀ u ∈ s.subs, u.pc = .done :=
  ⟨(invCtl hr).2.2.2.2.1 (Or.inr hc), (invCtl hr).2.2.2.2.2.1 hc⟩

/-- **nothing_after_close**, for every `Close` call: once ANY `Close` call has returned, whatever
happens next (any step of anyone, including further `Close` calls) no subscriber is handed anything,
nothing is fanned out, no subscriber is added; in particular no `send` and no delivery step is
enabled. -/
theorem nothing_after_close {cfg : Cfg} {s s' : State} {a : Label} (hr : Reach (Batcher.lts cfg) s)
    (hc : 0 < s.cr) (hst : Batcher.step cfg s a = some s') :
    0 < s'.cr ∧ s'.subs.map (·.delivered) = s.subs.map (·.delivered) ∧ s'.out = s.out ∧
    a ≠ .send ∧ ∀ i, a ≠ .fwdDeliver i := by
  have hC := invCtl hr
  have hdone := hC.2.2.2.2.2.1 hc
  have hclosed : s.closed = true := hC.2.2.2.2.1 (Or.inr hc)
  have hepc : s.epc = .idle := (lockFree_of_qclosed hr (hC.2.2.2.1 (Or.inl hclosed))).1
  have hset : ∀ (i : Nat) (u u' : Sub), s.subs[i]? = some u → u'.delivered = u.delivered →
      (s.subs.set i u').map (·.delivered) = s.subs.map (·.delivered) := by
    intro i u u' hi hd
    rw [List.map_set, hd]
    have hlt := lt_of_getElem? hi
    have : u = s.subs[i] := by
      obtain ⟨_, h⟩ := List.getElem?_eq_some_iff.mp hi; exact h.symm
    rw [this]
    apply List.ext_getElem?
    intro j
    rw [List.getElem?_set]
    split
    · subst_vars; simp [hlt]
    · rfl
  cases a
  case proc l =>
    obtain ⟨_, hs, _, _, hb, ho, _⟩ := procStep_p (by simpa [Batcher.step] using hst)
    simp [hs, hb, ho, hc]
  case closeCall =>
    rcases closeCall_cases (by simpa [Batcher.step] using hst) with ⟨p', hp, _, rfl⟩ | ⟨_, rfl⟩ <;> simp [hc]
  case fwdDeliver i =>
    bstep hst
    rename_i u hu _ x hpc
    have := hdone u (List.mem_of_getElem? hu)
    simp [hpc] at this
  case send =>
    simp [Batcher.step, send, hepc] at hst
  case closeReturn =>
    bstep hst
    simp
  all_goals
    (bstep hst <;>
     (first
      | (simp_all; done)
      | (refine ⟨by simp_all, ?_, by simp_all, by simp, by simp⟩
         first
         | rfl
         | (exact hset _ _ _ ‹_› (by rfl)))))

/-! ## departures never wedge the batcher (repaired fan-out)

`stalled` is the set of subscribers whose readers never read again; `Departed stalled s` says that
each of them has ended its context (whatever its buffer holds: full, empty, its forwarder anywhere).
A progress path (`Steps … (Allowed stalled)`) uses only internal steps — the queue's loop, `execute`,
the forwarders, the remaining steps of `Subscribe`/`Close` — and deliveries to readers that are NOT
stalled; no clock advance, no other environment action.  With `stalled := fun _ => True` every
reader is stalled and every subscriber has left. -/

/-- **departure_never_wedges (execute)**: from every reachable state in which the callback
`execute` is running — waiting for the lock or blocked anywhere in its fan-out — it returns. -/
theorem departure_never_wedges_execute {cfg : Cfg} (hfix : cfg.fixed = true) (hcap : 0 < cfg.cap)
    {stalled : Nat → Prop} {s : State} (hr : Reach (Batcher.lts cfg) s) {r : It} (hpc : s.p.pc = .running r)
    (hd : Departed stalled s) :
    ∃ s', Steps (Batcher.lts cfg) (Allowed stalled) s s' ∧ s'.epc = .idle ∧ s'.p = { s.p with pc := .top } := by
  obtain ⟨s', h1, h2, h3, _⟩ := execute_completes hfix hcap hr hpc hd
  exact ⟨s', h1, h3, h2⟩

/-- **departure_never_wedges (execute)**, the form closest to the statement: ALL readers may be
stalled (`stalled := fun _ => True`); every subscriber either has ended its context — whatever its
buffer holds, full included — or still has room for one value (`PassableFrom`).  Then the callback
returns by internal steps alone. -/
theorem departure_never_wedges_execute_all_stalled {cfg : Cfg} (hfix : cfg.fixed = true) (hcap : 0 < cfg.cap)
    {s : State} (hr : Reach (Batcher.lts cfg) s) {r : It} (hpc : s.p.pc = .running r)
    (hd : ∀ (j : Nat) (u : Sub), s.subs[j]? = some u → u.ctxDone = true ∨ u.buf.length < cfg.cap) :
    ∃ s', Steps (Batcher.lts cfg) (Allowed (fun _ => True)) s s' ∧ s'.epc = .idle ∧ s'.p = { s.p with pc := .top } := by
  obtain ⟨s', h1, h2, h3, _⟩ := execute_completes_room (stalled := fun _ => True) hfix hcap hr hpc
    (fun j u _ hu _ => hd j u hu)
  exact ⟨s', h1, h3, h2⟩

/-- `Batch` itself never blocks: in every state the call is enabled (for one of the two values of
the model's tie-breaking flag). -/
theorem batch_enabled {cfg : Cfg} (s : State) (k v : Nat) :
    (Batcher.step cfg s (.proc (.enqueue k (s.p.now + cfg.interval) v true))).isSome = true ∨
    (Batcher.step cfg s (.proc (.enqueue k (s.p.now + cfg.interval) v false))).isSome = true := by
  have hg : enqGuard s.p.q k (s.p.now + cfg.interval) true ∨ enqGuard s.p.q k (s.p.now + cfg.interval) false := by
    by_cases h : ∀ x ∈ remove s.p.q k, s.p.now + cfg.interval ≤ x.time
    · exact Or.inl (by simp only [enqGuard, ↓reduceIte]; exact Or.inr h)
    · obtain ⟨x, hx⟩ := Classical.not_forall.mp h
      obtain ⟨hx1, hx2⟩ := Classical.not_imp.mp hx
      exact Or.inr (by simp only [enqGuard, Bool.false_eq_true, ↓reduceIte]; exact ⟨x, hx1, by omega⟩)
  rcases hg with hg | hg
  · left; simp [Batcher.step, procStep, Processor.step, hg]
  · right; simp [Batcher.step, procStep, Processor.step, hg]

/-- **departure_never_wedges (Batch)**: a value passed to `Batch` that is still the live one for
its key when the clock has reached its due time — and the loop's pending wake-up, `Timely`: since
C06 dropped assumption A1 the loop's timer may be late by the clock time that passed between its
`Now()` and `NewTimer()`, `C06.late_bound` — gets its fan-out started (`C06.none_stranded` lifted
through every fan-out on the way), and that fan-out completes (`departure_never_wedges_execute`).
So a delivery happens not before `call + interval − 0.5 ms` (`debounce`) and at the loop's first
wake-up at or after `call + interval`. -/
theorem departure_never_wedges_batch {cfg : Cfg} (hfix : cfg.fixed = true) (hcap : 0 < cfg.cap)
    {stalled : Nat → Prop} {s : State} (hr : Reach (Batcher.lts cfg) s) (hopen : s.p.stopped = false)
    {x : It} (hx : x ∈ s.p.q) (hdue : x.time ≤ s.p.now) (ht : Timely s.p) (hd : Departed stalled s) :
    ∃ s', Steps (Batcher.lts cfg) (Allowed stalled) s s' ∧ Event.exec x s.p.now ∈ s'.p.log := by
  obtain ⟨p', hp, he⟩ := Processor.progress ⟨reach_proj hr, hopen, hx, hdue, ht⟩
  have hp' : Steps (Processor.lts pcfg) (fun l => l.isInternal = true) s.p p' := by
    refine Steps.mono ?_ hp
    intro a ha
    have : a.isLoop = true := ha
    cases a <;> simp_all [Processor.Label.isInternal, Processor.Label.isLoop]
  obtain ⟨s', h1, h2, _⟩ := lift hfix hcap hp' hr rfl hd
  exact ⟨s', h1, by rw [h2]; exact he⟩

/-- **departure_never_wedges (Batch), every schedule** (C06 `none_stranded_all_schedules` carried to
the batcher through `run_proj`): take ANY run of the batcher from a reachable open state in which `x`
is live and due and the loop's pending timer is due — any interleaving of the loop, `execute`, the
forwarders, readers, cancellations, Subscribe calls; only no `Batch`, no clock advance, no `Close`
call in it.  As soon as the queue's loop has taken `40·|queue| + 32` steps in that run, `x`'s
fan-out has started: the loop cannot go round for ever without delivering it, whatever its selects
and the heap's tie-break choose.  (That the loop is never stuck behind the fan-out is
`departure_never_wedges_execute`.) -/
theorem departure_never_wedges_batch_all_schedules {cfg : Cfg} {s s' : State} (hr : Reach (Batcher.lts cfg) s)
    (hopen : s.p.stopped = false) {x : It} (hx : x ∈ s.p.q) (hdue : x.time ≤ s.p.now) (ht : Timely s.p)
    {ls : List Label} (hrun : runFrom cfg s ls = some s') (hnc : ∀ a ∈ ls, a ≠ .closeCall)
    (hloop : ∀ l ∈ projProc ls, l.isLoop = true) (hlen : 40 * s.p.q.length + 32 ≤ (projProc ls).length) :
    Event.exec x s.p.now ∈ s'.p.log :=
  ((C06.none_stranded_all_schedules (reach_proj hr) hopen hx hdue ht) (projProc ls) s'.p (run_proj hrun hnc) hloop).2.1 hlen

/-- **departure_never_wedges (Close)**: from every reachable state in which `Close` has been
called (`stopped` is set by the first call; any number of further calls may be in any phase), EVERY
pending `Close` call returns: none is left inside `queue.Close()` (`cq`, and the processor's own
`Close` pc), waiting for the lock (`cl`) or in `wg.Wait()` (`cw`). -/
theorem departure_never_wedges_close {cfg : Cfg} (hfix : cfg.fixed = true) (hcap : 0 < cfg.cap)
    {stalled : Nat → Prop} {s : State} (hr : Reach (Batcher.lts cfg) s) (hb : s.p.stopped = true)
    (hd : Departed stalled s) :
    ∃ s', Steps (Batcher.lts cfg) (Allowed stalled) s s' ∧ s'.cq = 0 ∧ s'.cl = 0 ∧ s'.cw = 0 ∧
      s'.p.cpc = .returned ∧ 0 < s'.cr ∧ s.cr ≤ s'.cr :=
  close_completes hfix hcap hr hb hd

/-- **A subscriber whose context has ended gets its channel closed** — also one whose context had
ALREADY ended when `Subscribe` was called (`subCallDone`/`subAcquireDone`: the code registers it like
any other subscriber; its forwarder's exit path is what closes the channel): from every reachable
state there is a path of internal steps (and deliveries to readers that still read) after which its
forwarder is `done`, i.e. has closed the channel and removed the subscriber.  Together with
`close_closes_all` (which quantifies over every registered subscriber, pre-cancelled ones included):
the channel handed to `Subscribe` is closed once its context has ended or `Close` returned.  The
only exception is the documented one: a `Subscribe` that finds the batcher already closed is dropped
silently, no subscriber exists and its channel is never touched. -/
theorem departed_subscriber_channel_closes {cfg : Cfg} (hfix : cfg.fixed = true) (hcap : 0 < cfg.cap)
    {stalled : Nat → Prop} {s : State} (hr : Reach (Batcher.lts cfg) s) (hd : Departed stalled s)
    {i : Nat} {u : Sub} (hi : s.subs[i]? = some u) (hc : u.ctxDone = true ∨ s.closed = true) :
    ∃ s' u', Steps (Batcher.lts cfg) (Allowed stalled) s s' ∧ s'.subs[i]? = some u' ∧ u'.pc = .done :=
  departed_channel_closes hfix hcap hr hd hi hc

/-- A `Subscribe` with an already-ended context on an open batcher does create a subscriber (with
`ctxDone` set from the start), whenever the lock is free. -/
theorem precancelled_subscribe_registers {cfg : Cfg} {s : State} (hw : 0 < s.waitSD) (hl : lockFree s = true)
    (hc : s.closed = false) :
    Batcher.step cfg s .subAcquireDone =
      some { s with waitSD := s.waitSD - 1, retS := s.retS + 1,
                    subs := s.subs ++ [{ Sub.new s.out.length with ctxDone := true }] } := by
  simp [Batcher.step, subAcquireDone, hw, hl, hc]

/-! ## the current source (regenerated facts, T1) -/

/-- The shapes the model is written against, as `factgen_c10` finds them in the working tree: the
select of the fan-out, the forwarder's exit function (exit channel closed BEFORE the lock), the
forwarder's two selects, `Batch`, `Close`, the lock discipline, the two hook sites. -/
theorem source_shape :
    Kit.Generated.C10.executeCases = ["send", "exitCh", "closeCh"] ∧
    Kit.Generated.C10.executeShape = ["lock", "deferUnlock", "closedReturn", "fanout"] ∧
    Kit.Generated.C10.forwarderExit = ["closeExitCh", "hook", "lock", "closeUserCh", "remove", "unlock", "wgDone"] ∧
    Kit.Generated.C10.forwarderOuter = ["ctxDone", "closeCh", "take"] ∧
    Kit.Generated.C10.forwarderInner = ["deliver", "ctxDone", "closeCh"] ∧
    Kit.Generated.C10.batchEnqueuesNowPlusInterval = true ∧
    Kit.Generated.C10.closeOrder = ["deferWgWait", "queueClose", "lock", "casCloseCh", "unlock"] ∧
    Kit.Generated.C10.subscribeUnderLock = true ∧
    Kit.Generated.C10.hookSites = ["batcher.forwarder.exit", "batcher.execute.beforeSend"] := by decide

/-- The source has the repaired fan-out and a buffer of positive capacity: the hypotheses of the
`departure_never_wedges_*` theorems hold of `codeCfg`. -/
theorem code_is_repaired (interval : Int) : (codeCfg interval).fixed = true ∧ 0 < (codeCfg interval).cap := by
  exact ⟨by simp only [codeCfg]; decide, by simp only [codeCfg]; decide⟩

/-- `departure_never_wedges_close` for the configuration of the current source. -/
theorem code_close_never_wedges (interval : Int) {stalled : Nat → Prop} {s : State}
    (hr : Reach (Batcher.lts (codeCfg interval)) s) (hb : s.p.stopped = true) (hd : Departed stalled s) :
    ∃ s', Steps (Batcher.lts (codeCfg interval)) (Allowed stalled) s s' ∧ s'.cq = 0 ∧ s'.cl = 0 ∧ s'.cw = 0 ∧
      s'.p.cpc = .returned ∧ 0 < s'.cr ∧ s.cr ≤ s'.cr :=
  departure_never_wedges_close (code_is_repaired interval).1 (code_is_repaired interval).2 hr hb hd

/-- `departure_never_wedges_execute` for the configuration of the current source. -/
theorem code_execute_never_wedges (interval : Int) {stalled : Nat → Prop} {s : State}
    (hr : Reach (Batcher.lts (codeCfg interval)) s) {r : It} (hpc : s.p.pc = .running r) (hd : Departed stalled s) :
    ∃ s', Steps (Batcher.lts (codeCfg interval)) (Allowed stalled) s s' ∧ s'.epc = .idle ∧
      s'.p = { s.p with pc := .top } :=
  departure_never_wedges_execute (code_is_repaired interval).1 (code_is_repaired interval).2 hr hpc hd

/-! ## the fan-out before the fix: the wedge -/

/-- **wedge_witness**: in the model of the code as it was found (`fixed = false`: `execute` selects
only on the subscriber's buffer and `closeCh`), for EVERY buffer capacity `c` (50 in the code) there
is a reachable state in which
* `execute` holds `b.lock`, blocked on the full buffer of the only subscriber;
* that subscriber's context has ended and its forwarder waits for `b.lock`;
* a `Subscribe` call waits for `b.lock`; `Close` has been called and waits in `queue.Close()`;
  a later `Batch` value is due;
and no internal step is enabled at any clock value: `execute`, the pending `Batch` delivery,
`Subscribe` and `Close` never finish — `departure_never_wedges_*` are false for that fan-out.
The state is reached by: Subscribe; `c` × {Batch; the clock reaches the due time; delivery into the
buffer}; one more Batch/delivery (`execute` blocks); cancel; the forwarder leaves its loop;
Subscribe; Batch; clock; Close. -/
theorem wedge_witness (c : Nat) :
    ∃ s : State, Reach (Batcher.lts (cfgOrig c)) s ∧ Wedged c s ∧ Departed (fun _ => True) s ∧
      ∀ (t : Int) (l : Label), l.isInternal = true →
        Batcher.step (cfgOrig c) { s with p := { s.p with now := t } } l = none := by
  obtain ⟨s0, hr0, hf⟩ := filled c c (Nat.le_refl _)
  obtain ⟨s, hrun, hw⟩ := wedge_from_full hf
  refine ⟨s, reach_run hr0 hrun, hw, ?_, fun t l hl => wedged_stuck hw t l hl⟩
  obtain ⟨u, hsubs, _, _, huc, _⟩ := hw.subs
  intro i v hi _
  rw [hsubs] at hi
  cases i with
  | zero => simp at hi; subst hi; exact huc
  | succ i => simp at hi

/-! ## the trace acceptor (`KitModel/BatcherAccept.lean`, run by `kitdrv C10`) is sound

`accepts cfg tr` is the state-set simulation the harness feeds every observed execution to: `onObs`
applies the labels an observation stands for (`Stands`) or, for a pure check, keeps the states the
check allows; `closeSet` closes under silent labels, merging states with the same normal form
`strip`, with fuel (`overflow` ⇒ not accepted).  `Exec tr ls`: the labels `ls` are an execution
described by `tr` — every label is silent or stands for the next observation. -/

/-- **reduction_sound**: merging states by `strip` (ghost fields; buffer contents of a forwarder
that has left its loop; everything about a `done` subscriber) is a simulation — a step from any
state with the same normal form is matched by the SAME label from the state itself, into states
with the same normal form.  (`strip_comm`: `strip` commutes with every label.) -/
theorem reduction_sound {cfg : Cfg} {s t t' : State} {l : Label} (hst : strip s = strip t)
    (h : Batcher.step cfg t l = some t') : ∃ s', Batcher.step cfg s l = some s' ∧ strip s' = strip t' :=
  strip_sim hst h

/-- **accepts_sound**: every state the acceptor keeps after a trace is the normal form of the end
state of an execution of the LTS from `init` described by that trace. -/
theorem accepts_sound (cfg : Cfg) (tr : List Obs) (x : State) (h : x ∈ (runA cfg tr).cur) :
    ∃ ls s, Exec tr ls ∧ runFrom cfg Batcher.init ls = some s ∧ strip s = strip x :=
  runA_kept cfg tr x h

/-- **accepted_trace_has_run**: if the driver accepts a trace of a real execution, a run of
`Batcher.step` from the initial state exists that the trace describes (each label silent or the
label the next observation stands for); it ends in a reachable state, so every theorem of this file
— and, through `processor_component_reachable`, every C06 theorem — applies to it. -/
theorem accepted_trace_has_run (cfg : Cfg) (tr : List Obs) (h : accepts cfg tr = true) :
    ∃ ls s, Exec tr ls ∧ runFrom cfg Batcher.init ls = some s ∧ Reach (Batcher.lts cfg) s := by
  unfold accepts at h
  simp only [Bool.and_eq_true, Bool.not_eq_eq_eq_not, Bool.not_true, List.isEmpty_eq_false_iff] at h
  obtain ⟨x, hx⟩ := List.exists_mem_of_ne_nil _ h.2
  obtain ⟨ls, s, he, hr, _⟩ := accepts_sound cfg tr x hx
  exact ⟨ls, s, he, hr, reach_run Reach.init hr⟩

-- non-vacuity (evaluated by the compiler; `decide` cannot run `Std.HashSet` in the kernel):
#guard accepts ⟨true, 50, 10000000⟩
  [.scall, .sret, .batch 7 100, .adv 4000000, .batch 7 101, .adv 14000000, .xsend 0 101, .recv 0 101, .ccall, .ccall,
   .fexit 0, .chclosed 0, .cret, .cret, .quiet [0]] = true
-- the superseded value, or a value before its due time, is rejected
#guard accepts ⟨true, 50, 10000000⟩ [.scall, .sret, .batch 7 100, .adv 4000000, .recv 0 100] = false
#guard accepts ⟨true, 50, 10000000⟩
  [.scall, .sret, .batch 7 100, .adv 4000000, .batch 7 101, .adv 14000000, .xsend 0 100] = false

/-! ## non-vacuity -/

theorem reach_of_run {cfg : Cfg} {s s' : State} (hr : Reach (Batcher.lts cfg) s) :
    ∀ {ls : List Label}, runFrom cfg s ls = some s' → Reach (Batcher.lts cfg) s' := by
  intro ls
  induction ls generalizing s with
  | nil => intro h; simp [runFrom] at h; exact h ▸ hr
  | cons a as ih =>
    intro h
    simp only [runFrom] at h
    cases hst : Batcher.step cfg s a with
    | none => simp [hst] at h
    | some s1 =>
      simp only [hst, Option.bind_some] at h
      exact ih (Reach.step a hr hst) h

def demoCfg : Batcher.Cfg := ⟨true, 50, 10⟩
def demoItem : It := ⟨7, 14, 101, 1⟩
def demoLog : List (Event Nat Nat) :=
  [.exec demoItem 14, .pop demoItem, .enq demoItem, .enq ⟨7, 10, 100, 0⟩]

/-- Subscribe; Batch(7,100) at clock 0; Batch(7,101) at clock 4 replaces it. -/
def demo1 : State :=
  { p := { q := [demoItem], token := .loop, reset := true, stopped := false, stopClosed := false, pc := .top,
           cpc := .idle, now := 4, nextId := 2, log := [.enq demoItem, .enq ⟨7, 10, 100, 0⟩] },
    subs := [Sub.new 0], epc := .idle, closed := false, cq := 0, cl := 0, cw := 0, cr := 0, waitS := 0, waitSD := 0, retS := 0,
    out := [], calls := [(1, 4), (0, 0)] }

theorem demo_run1 : runFrom demoCfg Batcher.init [.subCall, .subAcquire, .subReturn,
    .proc (.enqueue 7 10 100 true), .proc (.advance 4), .proc (.enqueue 7 14 101 true)] = some demo1 := by
  simp [runFrom, demoCfg, demo1, demoItem, Batcher.step, procStep, Processor.step, Batcher.init, Processor.init, process,
    enqGuard, lookup, remove, Queue.insert, IsMin, subCall, subAcquire, subReturn, lockFree, Sub.new]

/-- The clock reaches 14; the loop pops the item and calls `execute`. -/
def demo2 : State :=
  { demo1 with p := { demo1.p with q := [], reset := false, pc := .running demoItem, now := 14, log := demoLog, readAt := 14 },
               epc := .waiting demoItem }

theorem demo_run2 : runFrom demoCfg demo1 [.proc (.peek (some demoItem)), .proc .pollReset, .proc (.advance 14),
    .proc (.peek (some demoItem)), .proc .pollNone, .proc .decide, .proc (.execCheck (some demoItem)),
    .proc .cbStart] = some demo2 := by
  simp [runFrom, demoCfg, demo1, demo2, demoItem, demoLog, Batcher.step, procStep, Processor.step, IsHead, IsMin, pop, halfMs,
    Kit.Generated.C06.runNowMarginNs, satDur, maxDur, minDur]

/-- The fan-out; the forwarder takes the value and the reader receives it; the loop exits. -/
def demo3 : State :=
  { demo2 with p := { demo2.p with token := .free, pc := .absent },
               subs := [{ Sub.new 0 with delivered := [demoItem] }], epc := .idle, out := [demoItem] }

theorem demo_run3 : runFrom demoCfg demo2 [.execLock, .send, .proc .cbReturn, .fwdTake 0, .fwdDeliver 0,
    .proc (.peek none)] = some demo3 := by
  simp [runFrom, demoCfg, demo1, demo2, demo3, demoItem, demoLog, Batcher.step, procStep, Processor.step, IsHead,
    execLock, send, fwdTake, fwdDeliver, setSub, Sub.new, Sub.inList]

/-- Two overlapping `Close` calls: the second one is made while the first is inside `queue.Close()`;
both return. -/
def demo4 : State :=
  { demo3 with p := { demo3.p with token := .close, stopped := true, stopClosed := true, cpc := .returned,
                                    log := .closeRet :: .closeRet :: demoLog },
               subs := [{ Sub.new 0 with delivered := [demoItem], pc := .done, exitClosed := true }],
               closed := true, cr := 2 }

theorem demo_run4 : runFrom demoCfg demo3 [.closeCall, .proc .closeStopCh, .closeCall, .proc .closeTake, .proc .closeAgain,
    .proc .closeReturn, .closeLock, .closeLock, .fwdExitClose 0, .fwdCloseExit 0, .fwdRemove 0, .closeReturn,
    .closeReturn] = some demo4 := by
  simp [runFrom, demoCfg, demo1, demo2, demo3, demo4, demoItem, demoLog, Batcher.step, procStep, Processor.step,
    closeCall, closeLock, Batcher.closeReturn, fwdExitClose, fwdCloseExit, fwdRemove, setSub, Sub.new, lockFree, allDone]

theorem demo_reach : Reach (Batcher.lts demoCfg) demo3 ∧ Reach (Batcher.lts demoCfg) demo4 := by
  have h3 := reach_of_run (reach_of_run (reach_of_run Reach.init demo_run1) demo_run2) demo_run3
  exact ⟨h3, reach_of_run h3 demo_run4⟩

/-- `debounce`, `same_sequence`, `delivered_is_prefix` have instances: a reachable state in which a
subscriber that never missed anything has received the second of two `Batch` values for one key. -/
example : Reach (Batcher.lts demoCfg) demo3 ∧
    ∃ u, demo3.subs[0]? = some u ∧ u ∈ demo3.subs ∧ u.missed = false ∧ demoItem ∈ u.delivered :=
  ⟨demo_reach.1, _, rfl, by simp [demo3], rfl, by simp [demo3, Sub.new]⟩

/-- `close_closes_all`, `nothing_after_close` have instances: two overlapping `Close` calls have
returned in `demo4`, and a step is still enabled there (a late `Subscribe` call). -/
example : Reach (Batcher.lts demoCfg) demo4 ∧ 0 < demo4.cr ∧ demo4.subs ≠ [] ∧
    (Batcher.step demoCfg demo4 .subCall).isSome :=
  ⟨demo_reach.2, by simp [demo4], by simp [demo4], by simp [Batcher.step, subCall]⟩

/-- The callback is running (`demo2`) and the only subscriber has ended its context. -/
def demo2c : State := { demo2 with subs := [{ Sub.new 0 with ctxDone := true }] }

theorem demo2c_step : Batcher.step demoCfg demo2 (.cancel 0) = some demo2c := by
  simp [Batcher.step, cancel, setSub, demo2, demo1, demo2c, Sub.new]

def demo2cc : State := { demo2c with p := { demo2c.p with stopped := true, cpc := .casDone } }

theorem demo2cc_step : Batcher.step demoCfg demo2c .closeCall = some demo2cc := by
  simp [Batcher.step, closeCall, Processor.step, demo2, demo1, demo2c, demo2cc]

/-- The `departure_never_wedges_*` theorems have instances: every reader stalled, the subscriber's
context ended, the callback running, (in `demo2cc`) `Close` called; in `demo1` a live item. -/
example : Reach (Batcher.lts demoCfg) demo2c ∧ demo2c.p.pc = .running demoItem ∧ Departed (fun _ => True) demo2c ∧
    Reach (Batcher.lts demoCfg) demo2cc ∧ demo2cc.p.stopped = true ∧ Departed (fun _ => True) demo2cc ∧
    demoCfg.fixed = true ∧ 0 < demoCfg.cap := by
  have h2 := reach_of_run (reach_of_run Reach.init demo_run1) demo_run2
  have h2c : Reach (Batcher.lts demoCfg) demo2c := reach_of_run (ls := [.cancel 0]) h2 (by simp [runFrom, demo2c_step])
  have hd : Departed (fun _ => True) demo2c := by
    intro i u hi _
    cases i with
    | zero => simp [demo2c, demo2, demo1] at hi; subst hi; rfl
    | succ i => simp [demo2c, demo2, demo1] at hi
  refine ⟨h2c, rfl, hd, reach_of_run (ls := [.closeCall]) h2c (by simp [runFrom, demo2cc_step]), rfl, ?_, rfl, by decide⟩
  exact hd

end Kit.Batcher.C10
