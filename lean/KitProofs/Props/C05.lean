import KitProofs.Lemmas.CronSched
/-!
Property C05 — cron: each job starts once per activation, never early; Stop/Remove are clean.
Theorems about the model `Kit.CronSched` (lean/KitModel/CronSched.lean); every statement
quantifies over all schedules `S` and all histories (lists of labels, i.e. all interleavings of
API calls, clock advances, loop steps, job begins/returns).
-/
namespace Kit.CronSched.C05
open Kit.CronSched

/-- `restart_recomputes`: when a (re)started scheduler goroutine boots, every entry's `Next` is
recomputed from the clock value read at that moment, `Prev` is kept, and the computation is
recorded. -/
theorem restart_recomputes (S : Scheds) (s s' : State) (h : step S s .boot = some s') :
    s'.now = s.clock ∧
    s'.entries = s.entries.map (fun e => { e with next := S e.sid s.clock }) ∧
    (∀ e' ∈ s'.entries, e'.next = S e'.sid s.clock) ∧
    s'.entries.map (·.prev) = s.entries.map (·.prev) := by
  obtain ⟨_, rfl⟩ := step_boot_inv h
  refine ⟨rfl, rfl, ?_, ?_⟩
  · intro e' he'
    simp only [List.mem_map] at he'
    obtain ⟨e, _, rfl⟩ := he'
    rfl
  · simp [Function.comp_def]

end Kit.CronSched.C05
