import KitProofs.Lemmas.CronSched
import KitModel.CronSchedShape
import KitProofs.Lemmas.CronSchedAccept
/-!
Property C05 — cron: each job starts once per activation, never early; Stop/Remove are clean.

Theorems about the model `Kit.CronSched` (lean/KitModel/CronSched.lean).  Every statement
quantifies over all schedule functions `S` (`S sid t = Schedule.Next(t)` of schedule `sid`) and,
through `Reach` / `runFrom`, over all histories: every interleaving of Schedule/Remove/Entries/
Start/Stop calls, clock advances (to, between and across activation instants), steps of the
scheduler goroutine, job begins and job returns.  Helper lemmas and the invariants are in
`KitProofs/Lemmas/CronSched.lean`.

Vocabulary: the ghost `log` records every computation of a `Next`
(`sched id sid t a`: `a = S sid t`, at add time or at (re)start) and every job launch
(`run id sid a w c`: activation `a` started at a wake whose loop variable `now` was `w`, clock `c`).
`basis` of a record is the argument the entry's following `Next` is computed from (`t` resp. `w`).
-/
namespace Kit.CronSched.C05
open Kit.CronSched


/-! ### T1: the source shape the model is stated over -/

section T1
open Kit.Generated.C05

/-- `source_shape_as_modelled`: the facts regenerated from cron/cron.go's working tree are the
ones the model is written against — the canonical text of every modelled function equals the
listing in `KitModel/CronSchedShape.lean`; the four request channels are unbuffered (every API
call on a running Cron is a rendezvous with the loop's `select`); `now` is read at start-up, in
the add and remove branches and nowhere else (not in snapshot/stop, not hoisted to the top of
the loop); sort before arming; no timer iff empty or head zero, else duration
`entries[0].Next.Sub(now)`; the five select cases; snapshot `continue`s, stop drains and
returns, every other branch stops and drains the timer and re-arms; the wake-up loop breaks at
`e.Next.After(now) || e.Next.IsZero()` and does startJob, `Prev = Next`,
`Next = Schedule.Next(now)` in that order; Stop sends on `stop` iff running, then clears
`running`, and its context is cancelled after `jobWaiter.Wait()`; startJob does `Add(1)` before
`go` and defers `Done`; the job waiter is the counter that releases every waiter when the count
reaches zero; the two hook sites. -/
theorem source_shape_as_modelled :
    (src_run = Shape.run ∧ src_startJob = Shape.startJob ∧ src_Stop = Shape.Stop ∧
     src_Schedule = Shape.Schedule ∧ src_Remove = Shape.Remove ∧ src_Entries = Shape.Entries ∧
     src_Start = Shape.Start ∧ src_Run = Shape.Run ∧ src_now = Shape.nowFn ∧
     src_removeEntry = Shape.removeEntry ∧ src_entrySnapshot = Shape.entrySnapshot ∧
     src_Less = Shape.Less ∧ src_waiterAdd = Shape.waiterAdd ∧ src_waiterDone = Shape.waiterDone ∧
     src_waiterWait = Shape.waiterWait) ∧
    (capAdd = 0 ∧ capStop = 0 ∧ capSnapshot = 0 ∧ capRemove = 0) ∧
    (bootNowFromClock = true ∧ bootNextFromNow = true ∧ armRefreshesNow = false ∧
     addRefreshesNow = true ∧ removeRefreshesNow = true ∧ snapshotRefreshesNow = false ∧
     stopRefreshesNow = false) ∧
    (armSortsFirst = true ∧ noTimerWhenEmptyOrHeadZero = true ∧ timerDurationHeadNextSubNow = true) ∧
    (selectCases = [.timer, .add, .snapshot, .stop, .remove] ∧ timerCaseBindsNow = true ∧
     timerCaseClearsTimer = true ∧ snapshotContinues = true ∧ stopDrainsTimer = true ∧
     stopReturns = true ∧ postSelectStopsAndDrainsTimer = true) ∧
    (wakeBreakAfterNowOrZero = true ∧ wakeOrderStartPrevNext = true ∧ wakeNextArg = .now) ∧
    (stopLocks = true ∧ stopSendsIfRunning = true ∧ stopClearsRunningAfterSend = true ∧
     stopCtxCancelledAfterWait = true ∧ startJobAddBeforeGo = true ∧ startJobDoneDeferred = true ∧
     jobWaiterKind = .counter ∧ doneReleasesWaitersAtZero = true ∧ waitReturnsAtZero = true) ∧
    (scheduleSendsWhenRunning = true ∧ removeSendsWhenRunning = true ∧
     entriesAsksWhenRunning = true ∧ startSpawnsRun = true ∧ lessZeroLast = true) ∧
    hookSites.length = 2 := by
  refine ⟨⟨rfl, rfl, rfl, rfl, rfl, rfl, rfl, rfl, rfl, rfl, rfl, rfl, rfl, rfl, rfl⟩, ?_, ?_, ?_, ?_, ?_, ?_, ?_, ?_⟩ <;>
    decide

/-- The model's add branch, stated over the regenerated facts, reads the clock *at the add*: the
new entry's `Next` is `S sid (clock at that step)`, the loop variable becomes that clock value,
and exactly this is recorded (`a₀ = nxt(t_add)` with `t_add` the clock, not an older `now`). -/
theorem add_computed_from_clock_at_add (S : Scheds) (s s' : State) (id sid : Nat)
    (hpc : s.pc = .refresh (some (id, sid))) (h : step S s .refresh = some s') :
    s'.now = s.clock ∧ s'.log = Rec.sched id sid s.clock (S sid s.clock) :: s.log ∧
    s'.entries = s.entries ++ [{ id := id, sid := sid, next := S sid s.clock, prev := 0 }] := by
  rcases step_refresh_inv h with ⟨hpc', _⟩ | ⟨id', sid', hpc', rfl⟩
  · rw [hpc] at hpc'; cases hpc'
  · rw [hpc] at hpc'; cases hpc'
    exact ⟨rfl, rfl, rfl⟩

/-- The remove branch refreshes `now` from the clock; arming does not touch `now`. -/
theorem remove_refreshes_now_arm_keeps_it (S : Scheds) (s s' : State) :
    (s.pc = .refresh none → step S s .refresh = some s' → s'.now = s.clock) ∧
    (step S s .arm = some s' → s'.now = s.now) := by
  constructor
  · intro hpc h
    rcases step_refresh_inv h with ⟨_, rfl⟩ | ⟨_, _, hpc', _⟩
    · rfl
    · rw [hpc] at hpc'; cases hpc'
  · intro h
    obtain ⟨_, rfl⟩ := step_arm_inv h
    rfl

end T1


/-! ### soundness of the trace acceptor run by `kitdrv C05` -/

/-- `accepts_sound`: every state the acceptor keeps after a trace is the end state (log erased)
of an execution of the state machine from the initial state whose observable projection is that
trace (`Exec`: internal labels unobserved, every API/job event is the label it stands for with
its side conditions, every hook/harness assertion holds where it occurs). -/
theorem accepts_sound (S : Scheds) (t0 : Nat) (tr : List Obs) (s : State)
    (h : s ∈ acceptRun S [init t0] tr) : ∃ ls, Exec S (init t0) tr ls s := by
  obtain ⟨s0, hs0, ls, he⟩ := acceptRun_sound tr _ s h
  simp only [List.mem_singleton] at hs0
  subst hs0
  exact ⟨ls, he⟩

/-- `accepted_trace_has_run`: if the driver accepts a trace, a real run of `step` (with the ghost
log) from the initial state exists, it ends in a reachable state, and its observable projection
is the trace. -/
theorem accepted_trace_has_run (S : Scheds) (t0 : Nat) (tr : List Obs)
    (h : accepts S t0 tr = true) :
    ∃ (ls : List Label) (s' : State), runFrom S (init t0) ls = some s' ∧ Reach S s' ∧
      Exec S (init t0) tr ls (strip s') := by
  unfold accepts at h
  cases hres : acceptRun S [init t0] tr with
  | nil => simp [hres] at h
  | cons s rest =>
    obtain ⟨ls, he⟩ := accepts_sound S t0 tr s (by rw [hres]; exact List.mem_cons_self)
    have hN := exec_runFromN he
    have hinit : strip (init t0) = init t0 := rfl
    rw [← hinit] at hN
    obtain ⟨s', hrun, hstrip⟩ := runFromN_lift S ls (init t0) s hN
    exact ⟨ls, s', hrun, reach_runFrom (Reach.init t0) ls hrun, hstrip ▸ he⟩

example : accepts (fun _ t => t + 3) 10
    [.add 0 1, .start, .armed true, .quiet, .advance 13, .woke 13, .jobBegin 1 13, .armed true,
     .entries [(1, 16, 13)], .stop, .jobDone 1 13, .ctx 0 true, .finish] = true := by decide

example : accepts (fun _ t => t + 3) 10
    [.add 0 1, .start, .armed true, .advance 12, .jobBegin 1 12] = false := by decide

/-! ### starts_chain -/

/-- `starts_chain`: after every history the log satisfies `ChainOK`: each launch record
`run id sid a w c` is preceded by a record `p` of the same entry (the first one is a `sched`
record: `a₀ = nxt(t_add or t_start)`), `a = S sid p.basis` (`a_{k+1} = nxt(w_k)`),
`a ≠ 0`, `a ≤ w ≤ c` (never early); each `sched id sid t a` has `a = S sid t` and `t` is at
least the basis of the previous record. -/
theorem starts_chain (S : Scheds) (t0 : Nat) (h : List Label) (s : State)
    (hrun : runFrom S (init t0) h = some s) : ChainOK S s.log :=
  (reach_invB (reach_iff_history.2 ⟨t0, h, hrun⟩)).chain

/-- Unfolding of `ChainOK` for a launch record found anywhere in the log. -/
theorem starts_chain_run (S : Scheds) (s : State) (hr : Reach S s) (id sid a w c : Nat)
    (hm : Rec.run id sid a w c ∈ s.log) :
    a ≠ 0 ∧ a ≤ w ∧ w ≤ c ∧ w ≤ s.clock ∧
      ∃ older p, older.length < s.log.length ∧ lastRec id older = some p ∧ p.sid = sid ∧
        a = S sid p.basis := by
  have hB := reach_invB hr
  obtain ⟨h1, h2, h3, rest⟩ := chain_run_facts hB.chain hm
  exact ⟨h1, h2, h3, by simpa [Rec.basis] using hB.basis_le _ hm, rest⟩

/-- Each activation of an entry is started exactly once: the launched activations of one entry,
newest first, are strictly decreasing (so strictly increasing in time, in particular distinct),
also across Stop/Start. -/
theorem starts_exactly_once (S : Scheds) (hS : WB S) (s : State) (hr : Reach S s) (id : Nat) :
    (acts id s.log).Pairwise (· > ·) ∧ (acts id s.log).Nodup := by
  have hp := acts_decreasing hS id (reach_invB hr).chain
  exact ⟨hp, hp.imp (fun h => Nat.ne_of_gt h)⟩

/-- Never early, as observed by the job itself: an outstanding job of activation `a` was launched
at a wake `w ≥ a`, the clock has reached `w`, and the clock value the job read when it began is
`≥ w ≥ a`. -/
theorem never_early (S : Scheds) (s : State) (hr : Reach S s) (j : Job) (hj : j ∈ s.jobs) :
    j.act ≠ 0 ∧ j.act ≤ j.wake ∧ j.wake ≤ s.clock ∧ ∀ c, j.st = .begun c → j.act ≤ c := by
  obtain ⟨a, b, c, d⟩ := reach_invJ hr j hj
  exact ⟨a, b, c, fun c' hc' => Nat.le_trans b (d c' hc')⟩

example : ∃ s, Reach (fun _ t => t + 3) s ∧ s.log.length = 3 ∧ (acts 1 s.log) = [16, 13] :=
  ⟨_, reach_runFrom (Reach.init 10) [.add 0, .start, .boot, .arm, .advance 13, .wake, .arm,
      .advance 20, .wake] rfl, by decide, by decide⟩

/-! ### prompt_when_parked, timer_is_min -/

/-- `timer_is_min`: whenever the loop is blocked in its `select`, the entries are ordered by
`byTime`; without a timer every `Next` is zero; with a timer, `deadline = armedAt + (m - now)`
where `m` is the least non-zero `Next` (`armedAt` = clock at arming, `now` = the loop variable),
the timer is unfired exactly while the clock is before the deadline, and a fired timer carries a
value `≥ deadline`. -/
theorem timer_is_min (S : Scheds) (s : State) (hr : Reach S s) (tm : Timer)
    (hpc : s.pc = .parked (some tm)) :
    SortedBT s.entries ∧ tm.armedAt ≤ s.clock ∧ s.now ≤ tm.armedAt ∧ ∃ e ∈ s.entries, e.next ≠ 0 ∧
        (∀ x ∈ s.entries, x.next = 0 ∨ e.next ≤ x.next) ∧
        tm.deadline + s.now = tm.armedAt + e.next ∧
        (tm.fired = none → s.clock < tm.deadline) ∧ (∀ v, tm.fired = some v → tm.deadline ≤ v) :=
  reach_timerOK hr (some tm) hpc

/-- Companion of `timer_is_min`: the loop sleeps without a timer only if no entry has a `Next`. -/
theorem no_timer_only_if_nothing_scheduled (S : Scheds) (s : State) (hr : Reach S s)
    (hpc : s.pc = .parked none) : ∀ e ∈ s.entries, e.next = 0 :=
  (reach_timerOK hr none hpc).2

/-- `deadline_bounds`: the armed deadline is never before the least non-zero `Next` `m` and, for
every entry `e` with a `Next`, at most `e.Next + (armedAt − now)`: the timer can be late only by
the staleness of the loop variable `now` at arming (zero when `now` was fresh). -/
theorem deadline_bounds (S : Scheds) (s : State) (hr : Reach S s) (tm : Timer)
    (hpc : s.pc = .parked (some tm)) :
    (∃ m ∈ s.entries, m.next ≠ 0 ∧ m.next ≤ tm.deadline ∧ ∀ x ∈ s.entries, x.next = 0 ∨ m.next ≤ x.next) ∧
    ∀ e ∈ s.entries, e.next ≠ 0 → tm.deadline ≤ e.next + (tm.armedAt - s.now) := by
  obtain ⟨_, _, hn, m, hm, hmnz, hmin, hd, _, _⟩ := reach_timerOK hr (some tm) hpc
  refine ⟨⟨m, hm, hmnz, by omega, hmin⟩, ?_⟩
  intro e he hnz
  rcases hmin e he with h0 | hle
  · exact absurd h0 hnz
  · omega

/-- `wake_starts_every_due_exactly_once`: in ANY reachable state in which the loop is parked and
its timer has fired with value `v` (fresh or stale `now`, polite history or not), the wake-up is
enabled and it starts every entry with `0 ≠ Next ≤ v` exactly once — one launch record
(`run id sid Next v clock`), one launched job, `Prev := Next`, `Next := S sid v` — and touches no
entry that is not due at `v` (no record, no job, entry unchanged). -/
theorem wake_starts_every_due_exactly_once (S : Scheds) (s : State) (hr : Reach S s) (tm : Timer)
    (v : Nat) (hpc : s.pc = .parked (some tm)) (hf : tm.fired = some v) :
    ∃ s2 new launched, step S s .wake = some s2 ∧ s2.log = new ++ s.log ∧
      s2.jobs = s.jobs ++ launched ∧ s2.now = v ∧
      (∀ e ∈ s.entries, e.next ≠ 0 → e.next ≤ v →
        new.filter (fun r => r.id == e.id) = [Rec.run e.id e.sid e.next v s.clock] ∧
        launched.filter (fun j => j.eid == e.id) = [launchJob v e] ∧
        ({ e with prev := e.next, next := S e.sid v } : Entry) ∈ s2.entries) ∧
      (∀ e ∈ s.entries, ¬(e.next ≠ 0 ∧ e.next ≤ v) →
        new.filter (fun r => r.id == e.id) = [] ∧ launched.filter (fun j => j.eid == e.id) = [] ∧
        e ∈ s2.entries) := by
  obtain ⟨hsorted, _⟩ := reach_timerOK hr (some tm) hpc
  have hA := reach_invA hr
  have hnd : ((wakeLoop S v s.entries).2.map (·.id)).Nodup :=
    hA.nodup.sublist ((wakeLoop_ran_sublist S v s.entries).map _)
  refine ⟨{ s with now := v, entries := (wakeLoop S v s.entries).1, pc := .arm,
                   jobs := s.jobs ++ (wakeLoop S v s.entries).2.map (launchJob v),
                   log := (wakeLoop S v s.entries).2.map (runRec v s.clock) ++ s.log },
    _, _, by simp only [step, hpc, hf], rfl, rfl, rfl, ?_, ?_⟩
  · intro e he hnz hle
    have hran := wakeLoop_all_due (S := S) (v := v) hsorted e he hnz hle
    exact ⟨filter_map_id_of_nodup (runRec v s.clock) (fun _ => rfl) hnd hran,
      filter_launch_of_nodup v hnd hran, wakeLoop_updates hran⟩
  · intro e he hnot
    have hnone : ∀ x ∈ (wakeLoop S v s.entries).2, x.id ≠ e.id := by
      intro x hx heq
      obtain ⟨hxm, hxnz, hxle⟩ := wakeLoop_ran x hx
      -- same id in a list without duplicate ids: same entry
      have : x = e := by
        have h1 := find_id_of_nodup hA.nodup hxm
        have h2 := find_id_of_nodup hA.nodup he
        rw [heq] at h1
        rw [h1] at h2
        exact Option.some.inj h2
      subst this
      exact hnot ⟨hxnz, hxle⟩
    refine ⟨filter_map_id_none (runRec v s.clock) (fun _ => rfl) hnone, ?_, wakeLoop_keeps he hnot⟩
    rw [List.filter_eq_nil_iff]
    intro j hj
    obtain ⟨x, hx, rfl⟩ := List.mem_map.1 hj
    simpa [launchJob] using hnone x hx

/-- `prompt_when_parked` (general: no freshness assumed): the loop is parked on an unfired timer
in ANY reachable state; as soon as the clock is advanced to a `t` at or past the armed deadline
(`deadline = armedAt + (m − now)`, bounded by `deadline_bounds`), that very advance fires the
timer, and the wake-up it enables starts every entry `e` with `0 ≠ e.Next ≤ t` for activation
`e.Next` with `now = t` at clock `t` and sets `Prev = e.Next`, `Next = S sid t`. -/
theorem prompt_when_parked (S : Scheds) (s : State) (hr : Reach S s) (tm : Timer)
    (hpc : s.pc = .parked (some tm)) (hunf : tm.fired = none)
    (e : Entry) (he : e ∈ s.entries) (hnz : e.next ≠ 0) (t : Nat) (hclk : s.clock ≤ t)
    (hdl : tm.deadline ≤ t) (hdue : e.next ≤ t) :
    ∃ s1 s2, step S s (.advance t) = some s1 ∧ step S s1 .wake = some s2 ∧
      runRec t t e ∈ s2.log ∧ launchJob t e ∈ s2.jobs ∧
      ({ e with prev := e.next, next := S e.sid t } : Entry) ∈ s2.entries := by
  obtain ⟨hsorted, _⟩ := reach_timerOK hr (some tm) hpc
  have htick : tm.tick t = { tm with fired := some t } := by
    unfold Timer.tick; simp [hunf, hdl]
  have hran := wakeLoop_all_due (S := S) (v := t) hsorted e he hnz hdue
  refine ⟨{ s with clock := t, pc := .parked (some (tm.tick t)) },
    { s with clock := t, now := t, entries := (wakeLoop S t s.entries).1, pc := .arm,
             jobs := s.jobs ++ (wakeLoop S t s.entries).2.map (launchJob t),
             log := (wakeLoop S t s.entries).2.map (runRec t t) ++ s.log }, ?_, ?_, ?_, ?_, ?_⟩
  · simp only [step, hpc]
    rw [if_neg (by omega)]
  · simp only [step, htick]
  · exact List.mem_append_left _ (List.mem_map_of_mem hran)
  · exact List.mem_append_right _ (List.mem_map_of_mem hran)
  · exact wakeLoop_updates hran

/-- `one_start_per_wake_when_jumping` — the statement's "once for every activation instant that
the clock reaches after the entry was added (once per wake-up if the clock jumps over several)":
the loop is parked on an unfired timer (ANY reachable state, `now` fresh or stale); the clock is
advanced from `c` to `c'` at or past the armed deadline, crossing `k ≥ 1` activation instants of
entry `e` (`e.Next ≤ c'`; the crossed instants are `e.Next, S(e.Next), …`; with a fresh `now` the
deadline is at most `e.Next`, see `one_start_per_wake_when_jumping_fresh`).  Then that advance
fires the timer and at the wake-up it enables
*exactly one* start of `e` is recorded — for the first crossed instant `e.Next`, with `now = c'`
at clock `c'` — the entry's `Next` becomes `S sid c'` (zero or `> c'`, i.e. past every crossed
instant) with `Prev = e.Next`, and in every continuation every later start of `e` is for an
instant `> c'`: the other `k − 1` crossed instants are never started. -/
theorem one_start_per_wake_when_jumping (S : Scheds) (hS : WB S) (s : State) (hr : Reach S s)
    (tm : Timer) (hpc : s.pc = .parked (some tm)) (hunf : tm.fired = none)
    (e : Entry) (he : e ∈ s.entries) (hnz : e.next ≠ 0)
    (c' : Nat) (hclk : s.clock ≤ c') (hdl : tm.deadline ≤ c') (hdue : e.next ≤ c') :
    ∃ s1 s2 new, step S s (.advance c') = some s1 ∧ step S s1 .wake = some s2 ∧
      s2.log = new ++ s.log ∧
      new.filter (fun r => r.id == e.id) = [Rec.run e.id e.sid e.next c' c'] ∧
      (s2.jobs = s.jobs ++ (s2.jobs.drop s.jobs.length) ∧
        (s2.jobs.drop s.jobs.length).filter (fun j => j.eid == e.id) = [launchJob c' e]) ∧
      ({ e with prev := e.next, next := S e.sid c' } : Entry) ∈ s2.entries ∧
      (S e.sid c' = 0 ∨ c' < S e.sid c') ∧
      ∀ (h : List Label) (s3 : State), runFrom S s2 h = some s3 →
        ∃ newer, s3.log = newer ++ s2.log ∧
          ∀ r ∈ newer, r.id = e.id → r.isRun = true → c' < r.act := by
  obtain ⟨hsorted, _⟩ := reach_timerOK hr (some tm) hpc
  have hA := reach_invA hr
  have htick : tm.tick c' = { tm with fired := some c' } := by
    unfold Timer.tick; simp [hunf, hdl]
  have hran := wakeLoop_all_due (S := S) (v := c') hsorted e he hnz hdue
  have hnd : ((wakeLoop S c' s.entries).2.map (·.id)).Nodup :=
    hA.nodup.sublist ((wakeLoop_ran_sublist S c' s.entries).map _)
  have hstep1 : step S s (.advance c') = some { s with clock := c', pc := .parked (some (tm.tick c')) } := by
    simp only [step, hpc]
    rw [if_neg (by omega)]
  have hstep2 : step S { s with clock := c', pc := .parked (some (tm.tick c')) } .wake =
      some { s with clock := c', now := c', entries := (wakeLoop S c' s.entries).1, pc := .arm,
                    jobs := s.jobs ++ (wakeLoop S c' s.entries).2.map (launchJob c'),
                    log := (wakeLoop S c' s.entries).2.map (runRec c' c') ++ s.log } := by
    simp only [step, htick]
  refine ⟨_, _, _, hstep1, hstep2, rfl, ?_, ?_, wakeLoop_updates hran, hS e.sid c', ?_⟩
  · exact filter_map_id_of_nodup (runRec c' c') (fun _ => rfl) hnd hran
  · have hdrop : (s.jobs ++ (wakeLoop S c' s.entries).2.map (launchJob c')).drop s.jobs.length
        = (wakeLoop S c' s.entries).2.map (launchJob c') := by simp
    refine ⟨by rw [hdrop], ?_⟩
    show ((s.jobs ++ (wakeLoop S c' s.entries).2.map (launchJob c')).drop s.jobs.length).filter _ = _
    rw [hdrop]
    exact filter_launch_of_nodup c' hnd hran
  · intro h s3 hrun
    have hr2 : Reach S _ := Reach.step _ (Reach.step _ hr hstep1) hstep2
    have hr3 := reach_runFrom hr2 h hrun
    obtain ⟨newer, hlog⟩ := runFrom_log_grows h hrun
    refine ⟨newer, hlog, ?_⟩
    have hlast : lastRec e.id ((wakeLoop S c' s.entries).2.map (runRec c' c') ++ s.log)
        = some (runRec c' c' e) := by
      rw [lastRec_map_append (runRec c' c') (fun _ => rfl), find_id_of_nodup hnd hran]
    have hc3 := (reach_invB hr3).chain
    rw [hlog] at hc3
    intro r hrm hrid hrun'
    have := (chain_after hS hlast hc3 r hrm hrid).2 hrun'
    simpa using this

/-- With a fresh `now` the deadline is at most `e.Next`: the old formulations follow. -/
theorem prompt_when_parked_fresh (S : Scheds) (s : State) (hr : Reach S s) (tm : Timer)
    (hpc : s.pc = .parked (some tm)) (hunf : tm.fired = none) (hfresh : s.now = tm.armedAt)
    (e : Entry) (he : e ∈ s.entries) (hnz : e.next ≠ 0) (t : Nat) (hclk : s.clock ≤ t)
    (hdue : e.next ≤ t) :
    ∃ s1 s2, step S s (.advance t) = some s1 ∧ step S s1 .wake = some s2 ∧
      runRec t t e ∈ s2.log ∧ launchJob t e ∈ s2.jobs ∧
      ({ e with prev := e.next, next := S e.sid t } : Entry) ∈ s2.entries := by
  have hb := (deadline_bounds S s hr tm hpc).2 e he hnz
  exact prompt_when_parked S s hr tm hpc hunf e he hnz t hclk (by omega) hdue

theorem one_start_per_wake_when_jumping_fresh (S : Scheds) (hS : WB S) (s : State) (hr : Reach S s)
    (tm : Timer) (hpc : s.pc = .parked (some tm)) (hunf : tm.fired = none)
    (hfresh : s.now = tm.armedAt) (e : Entry) (he : e ∈ s.entries) (hnz : e.next ≠ 0)
    (c' : Nat) (hclk : s.clock ≤ c') (hdue : e.next ≤ c') :
    ∃ s1 s2 new, step S s (.advance c') = some s1 ∧ step S s1 .wake = some s2 ∧
      s2.log = new ++ s.log ∧
      new.filter (fun r => r.id == e.id) = [Rec.run e.id e.sid e.next c' c'] := by
  have hb := (deadline_bounds S s hr tm hpc).2 e he hnz
  obtain ⟨s1, s2, new, h1, h2, h3, h4, _⟩ :=
    one_start_per_wake_when_jumping S hS s hr tm hpc hunf e he hnz c' hclk (by omega) hdue
  exact ⟨s1, s2, new, h1, h2, h3, h4⟩

/-- `every_reached_activation_started` — the invariant form of "never skipped", for every history:
in a reachable state of a running Cron, if the clock has reached the next activation of a live
entry (`0 ≠ e.Next ≤ clock`, and `e.Next` is the chain element `S sid (basis of its last record)`
by `entries_reports_used`) and that activation has not been started yet, then the scheduler is
not idle: one of its internal steps (`boot`, `refresh`, `arm`, `wake`) is enabled — the start is
on its way — OR the loop is parked on an unfired timer that was armed with a STALE `now`
(`now < armedAt`): then the deadline lies at most `armedAt − now` after `e.Next`, and the start
happens at the first advance that reaches it (`prompt_when_parked`). There is no third case: a
reached activation is never silently dropped. -/
theorem every_reached_activation_started (S : Scheds) (s : State) (hr : Reach S s)
    (hrun : s.running = true) (e : Entry) (he : e ∈ s.entries) (hnz : e.next ≠ 0)
    (hreached : e.next ≤ s.clock) :
    (∃ l ∈ [Label.boot, .refresh, .arm, .wake], (step S s l).isSome = true) ∨
    (∃ tm, s.pc = .parked (some tm) ∧ tm.fired = none ∧ s.clock < tm.deadline ∧
      s.now < tm.armedAt ∧ tm.deadline ≤ e.next + (tm.armedAt - s.now)) := by
  have hA := reach_invA hr
  have hne : s.pc ≠ .off := hA.run_pc.1 hrun
  cases hpc : s.pc with
  | off => exact absurd hpc hne
  | boot => left; exact ⟨.boot, by simp, by simp [step, hpc]⟩
  | refresh p =>
    left
    refine ⟨.refresh, by simp, ?_⟩
    cases p with
    | none => simp [step, hpc]
    | some q => obtain ⟨a, b⟩ := q; simp [step, hpc]
  | arm => left; exact ⟨.arm, by simp, by simp [step, hpc]⟩
  | parked tmo =>
    cases tmo with
    | none => exact absurd ((reach_timerOK hr none hpc).2 e he) hnz
    | some tm =>
      cases hf : tm.fired with
      | some v => left; exact ⟨.wake, by simp, by simp [step, hpc, hf]⟩
      | none =>
        right
        obtain ⟨_, _, hn, m, hm, hmnz, hmin, hd, hunf, _⟩ := reach_timerOK hr (some tm) hpc
        have hlt := hunf hf
        have hb := (deadline_bounds S s hr tm hpc).2 e he hnz
        exact ⟨tm, rfl, hf, hlt, by omega, hb⟩

/-- In a history where the clock moves only while the scheduler is idle (`polite`) the residual
case does not exist: a reached, not yet started activation always has an enabled internal step,
i.e. a parked-and-quiescent loop has started every activation the clock has reached. -/
theorem never_skipped_when_polite (S : Scheds) (t0 : Nat) (h : List Label) (s : State)
    (hp : polite S (init t0) h = true) (hrunFrom : runFrom S (init t0) h = some s)
    (hrun : s.running = true) (e : Entry) (he : e ∈ s.entries) (hnz : e.next ≠ 0)
    (hreached : e.next ≤ s.clock) :
    ∃ l ∈ [Label.boot, .refresh, .arm, .wake], (step S s l).isSome = true := by
  have hr : Reach S s := reach_iff_history.2 ⟨t0, h, hrunFrom⟩
  rcases every_reached_activation_started S s hr hrun e he hnz hreached with hi | ⟨tm, hpc, _, _, hstale, _⟩
  · exact hi
  · have hS0 : Sync (init t0) := by simp [Sync, init]
    have hSy := sync_runFrom h hS0 hp hrunFrom
    simp only [Sync, hpc] at hSy
    omega

/-- a period-3 schedule; the advance 10 → 20 crosses the instants 12, 15, 18: one start (for 12),
next activation 21, and a second advance that reaches no instant starts nothing -/
example : ∃ s : State, Reach (fun _ t => (t / 3 + 1) * 3) s ∧ acts 1 s.log = [12] ∧
    s.entries.map (fun e => (e.next, e.prev)) = [(21, 12)] ∧ s.jobs.length = 1 :=
  ⟨_, reach_runFrom (Reach.init 10) [.add 0, .start, .boot, .arm, .advance 20, .wake, .arm,
      .advance 20, .jobBegin 0] rfl, by decide, by decide, by decide⟩

example : ∃ s : State, Reach (fun _ t => t + 3) s ∧ ∃ tm, s.pc = .parked (some tm) ∧
    tm.fired = none ∧ s.now = tm.armedAt ∧ s.entries ≠ [] :=
  ⟨_, reach_runFrom (Reach.init 10) [.add 0, .start, .boot, .arm] rfl, _, rfl, rfl, rfl, by decide⟩

/-- `fresh_when_clock_moves_only_while_parked`: in every history in which the clock is advanced
only while the loop is not between obtaining a time and arming with it and no fired timer value is
waiting (`polite`: time passes while the scheduler is idle — the situation the property's
"starts … once for every activation instant that the clock reaches" describes, and what the
harness does outside its forced races), the loop variable `now` is always in step with the clock:
about to arm ⇒ `now = clock`; parked ⇒ the timer was armed with `now` = clock-at-arming (the
freshness hypothesis of `prompt_when_parked` / `one_start_per_wake_when_jumping`, so the armed
deadline *is* the least non-zero `Next`), and a fired timer carries the current clock value.
Moreover every recorded start then has `w = c`: it happened at a wake whose `now` was the clock
value of the advance that reached the activation. -/
theorem fresh_when_clock_moves_only_while_parked (S : Scheds) (t0 : Nat) (h : List Label)
    (s : State) (hp : polite S (init t0) h = true) (hrun : runFrom S (init t0) h = some s) :
    (s.pc = .arm → s.now = s.clock) ∧
    (∀ tm, s.pc = .parked (some tm) → s.now = tm.armedAt ∧ ∀ v, tm.fired = some v → v = s.clock) ∧
    (∀ id sid a w c, Rec.run id sid a w c ∈ s.log → w = c ∧ a ≤ c) := by
  have hS0 : Sync (init t0) := by simp [Sync, init]
  have hS := sync_runFrom h hS0 hp hrun
  have hE := exactLog_runFrom h hS0 (by intro _ _ _ _ _ hm; simp [init] at hm) hp hrun
  have hr : Reach S s := reach_iff_history.2 ⟨t0, h, hrun⟩
  refine ⟨?_, ?_, ?_⟩
  · intro hpc; simpa [Sync, hpc] using hS
  · intro tm hpc
    have := hS
    simp only [Sync, hpc] at this
    exact ⟨this.1, this.2⟩
  · intro id sid a w c hm
    have hw := hE id sid a w c hm
    obtain ⟨_, haw, _⟩ := chain_run_facts (reach_invB hr).chain hm
    exact ⟨hw, by omega⟩

/-- In a polite history the armed deadline is exactly the least non-zero `Next`. -/
theorem deadline_is_min_next_when_polite (S : Scheds) (t0 : Nat) (h : List Label) (s : State)
    (hp : polite S (init t0) h = true) (hrun : runFrom S (init t0) h = some s) (tm : Timer)
    (hpc : s.pc = .parked (some tm)) :
    ∃ e ∈ s.entries, e.next ≠ 0 ∧ tm.deadline = e.next ∧ ∀ x ∈ s.entries, x.next = 0 ∨ e.next ≤ x.next := by
  have hr : Reach S s := reach_iff_history.2 ⟨t0, h, hrun⟩
  obtain ⟨_, _, _, e, he, hnz, hmin, hd, _, _⟩ := reach_timerOK hr (some tm) hpc
  have hfresh := ((fresh_when_clock_moves_only_while_parked S t0 h s hp hrun).2.1 tm hpc).1
  exact ⟨e, he, hnz, by omega, hmin⟩

example : polite (fun _ t => t + 3) (init 10)
    [.add 0, .start, .boot, .arm, .advance 13, .wake, .arm, .advance 20, .wake] = true := by decide

/-! ### no_start_after_remove, no_start_after_stop -/

/-- `no_start_after_remove`: once `Remove(id)` of an issued id has returned, whatever happens
afterwards, no record of entry `id` (neither a launch nor a recomputation) is ever added. -/
theorem no_start_after_remove (S : Scheds) (s s1 s2 : State) (hr : Reach S s) (id : Nat)
    (hid : id ≤ s.nextID) (hrem : step S s (.remove id) = some s1) (h : List Label)
    (hrun : runFrom S s1 h = some s2) :
    ∃ new, s2.log = new ++ s1.log ∧ ∀ r ∈ new, r.id ≠ id := by
  have hN1 : NoEntry id s1 := by
    rcases step_remove_inv hrem with ⟨_, _, rfl⟩ | ⟨hr', rfl⟩
    · exact ⟨hid, by intro e he; simpa using (List.mem_filter.1 he).2, by simp⟩
    · refine ⟨hid, by intro e he; simpa using (List.mem_filter.1 he).2, ?_⟩
      intro i sd hpc
      have := (reach_invA hr).run_pc
      simp only [hr'] at this
      simp only [Bool.false_eq_true, ne_eq, false_iff, Decidable.not_not] at this
      rw [show _ = s.pc from rfl, this] at hpc; cases hpc
  have hr1 : Reach S s1 := Reach.step _ hr hrem
  clear hrem
  induction h generalizing s1 with
  | nil => simp [runFrom] at hrun; subst hrun; exact ⟨[], rfl, by simp⟩
  | cons l ls ih =>
    simp only [runFrom] at hrun
    cases hl : step S s1 l with
    | none => simp [hl] at hrun
    | some s1' =>
      rw [hl] at hrun
      obtain ⟨hN', new1, hlog1, hnew1⟩ := noEntry_step (reach_invA hr1) hN1 hl
      obtain ⟨new2, hlog2, hnew2⟩ := ih s1' hrun hN' (Reach.step _ hr1 hl)
      refine ⟨new2 ++ new1, by rw [hlog2, hlog1, List.append_assoc], ?_⟩
      intro r hr'
      rcases List.mem_append.1 hr' with h' | h'
      · exact hnew2 r h'
      · exact hnew1 r h'

/-- `no_start_after_stop`: after `Stop` has returned and until the next `Start`, nothing is
launched and no `Next` is recomputed: the log does not change, the number of outstanding jobs
does not grow. -/
theorem no_start_after_stop (S : Scheds) (s s1 s2 : State) (hr : Reach S s)
    (hstop : step S s .stop = some s1) (h : List Label) (hns : Label.start ∉ h)
    (hrun : runFrom S s1 h = some s2) :
    s2.log = s1.log ∧ s2.jobs.length ≤ s1.jobs.length ∧ s2.pc = .off := by
  have hoff : s1.pc = .off ∧ s1.running = false := by
    rcases step_stop_inv hstop with ⟨_, _, rfl⟩ | ⟨hr', rfl⟩
    · exact ⟨rfl, rfl⟩
    · have := (reach_invA hr).run_pc
      simp only [hr'] at this
      simp only [Bool.false_eq_true, ne_eq, false_iff, Decidable.not_not] at this
      exact ⟨this, hr'⟩
  clear hstop
  induction h generalizing s1 with
  | nil => simp [runFrom] at hrun; subst hrun; exact ⟨rfl, Nat.le_refl _, hoff.1⟩
  | cons l ls ih =>
    simp only [runFrom] at hrun
    cases hl : step S s1 l with
    | none => simp [hl] at hrun
    | some s1' =>
      rw [hl] at hrun
      have hne : l ≠ .start := fun he => hns (he ▸ List.mem_cons_self)
      obtain ⟨a, b, c, d⟩ := off_step hoff.1 hoff.2 hne hl
      obtain ⟨x, y, z⟩ := ih s1' (fun hm => hns (List.mem_cons_of_mem _ hm)) hrun ⟨a, b⟩
      exact ⟨x.trans c, Nat.le_trans y d, z⟩

/-! ### stop_ctx_iff_jobs_done -/

/-- `stop_ctx_iff_jobs_done` (only-if): the context returned by a `Stop` becomes done only in a
step after which no started job is outstanding. -/
theorem stop_ctx_done_only_when_jobs_done (S : Scheds) (s s' : State) (l : Label) (k : Nat)
    (hstep : step S s l = some s') (hnot : s.ctxs[k]? ≠ some CtxSt.done)
    (hdone : s'.ctxs[k]? = some CtxSt.done) : s'.jobs = [] := by
  cases l with
  | add sid =>
    rcases step_add_inv hstep with ⟨_, _, rfl⟩ | ⟨_, rfl⟩ <;> exact absurd hdone hnot
  | remove id =>
    rcases step_remove_inv hstep with ⟨_, _, rfl⟩ | ⟨_, rfl⟩ <;> exact absurd hdone hnot
  | snapshot => obtain ⟨rfl, _⟩ := step_snapshot_inv hstep; exact absurd hdone hnot
  | start =>
    rcases step_start_inv hstep with ⟨_, rfl⟩ | ⟨_, rfl⟩ <;> exact absurd hdone hnot
  | stop =>
    have app : (s.ctxs ++ [CtxSt.created])[k]? = some CtxSt.done → s.ctxs[k]? = some CtxSt.done := by
      intro hk
      rw [List.getElem?_append] at hk
      split at hk
      · exact hk
      · cases hk' : ([CtxSt.created])[k - s.ctxs.length]? with
        | none => rw [hk'] at hk; cases hk
        | some c =>
          rw [hk'] at hk
          have : c = .created := by simpa using List.mem_of_getElem? hk'
          subst this; cases hk
    rcases step_stop_inv hstep with ⟨_, _, rfl⟩ | ⟨_, rfl⟩ <;> exact absurd (app hdone) hnot
  | advance t =>
    obtain ⟨_, ⟨tm, hpc, rfl⟩ | ⟨_, rfl⟩⟩ := step_advance_inv hstep <;> exact absurd hdone hnot
  | boot => obtain ⟨_, rfl⟩ := step_boot_inv hstep; exact absurd hdone hnot
  | refresh =>
    rcases step_refresh_inv hstep with ⟨_, rfl⟩ | ⟨_, _, _, rfl⟩ <;> exact absurd hdone hnot
  | arm => obtain ⟨_, rfl⟩ := step_arm_inv hstep; exact absurd hdone hnot
  | wake => obtain ⟨_, _, _, _, rfl⟩ := step_wake_inv hstep; exact absurd hdone hnot
  | jobBegin i => obtain ⟨_, _, _, rfl⟩ := step_jobBegin_inv hstep; exact absurd hdone hnot
  | jobDone i =>
    obtain ⟨_, _, _, _, rfl⟩ := step_jobDone_inv hstep
    dsimp only at hdone ⊢
    split at hdone
    · rename_i he; simpa using he
    · exact absurd hdone hnot
  | ctxWait k0 =>
    obtain ⟨_, rfl⟩ := step_ctxWait_inv hstep
    dsimp only at hdone ⊢
    rw [List.getElem?_set] at hdone
    split at hdone
    · split at hdone
      · split at hdone
        · rename_i he; simpa using he
        · cases hdone
      · cases hdone
    · exact absurd hdone hnot

/-- `stop_ctx_iff_jobs_done` (if): in a reachable state with no outstanding job every Stop
context is done, or its goroutine has not called `Wait` yet and its next step completes it. -/
theorem stop_ctx_completes_when_jobs_done (S : Scheds) (s : State) (hr : Reach S s)
    (hj : s.jobs = []) (k : Nat) (c : CtxSt) (hk : s.ctxs[k]? = some c) :
    c = .done ∨ (c = .created ∧ ∃ s', step S s (.ctxWait k) = some s' ∧ s'.ctxs[k]? = some CtxSt.done) := by
  cases c with
  | done => left; rfl
  | waiting => exact absurd hj (reach_invC hr k hk)
  | created =>
    right
    refine ⟨rfl, { s with ctxs := s.ctxs.set k (if s.jobs.isEmpty then .done else .waiting) },
      by simp only [step, hk], ?_⟩
    have hlt : k < s.ctxs.length := by
      rcases Nat.lt_or_ge k s.ctxs.length with h | h
      · exact h
      · rw [List.getElem?_eq_none h] at hk; cases hk
    simp [hj, hlt]

/-! ### entries_reports_used, restart_recomputes -/

/-- `entries_reports_used`: what `Entries()` reports for a live entry of a running scheduler is
what the chain uses: `Next = S sid b` where `b` is the basis of the entry's latest record (so,
by `starts_chain`, the activation of the entry's next launch unless a restart recomputes it), and
`Prev` is the activation of its latest launch (0 if it was never started). -/
theorem entries_reports_used (S : Scheds) (s s' : State) (hr : Reach S s)
    (hsnap : step S s .snapshot = some s') (hrunning : s.running = true) :
    s' = s ∧ ∀ e ∈ snapshotOf s, e.prev = lastRunAct e.id s.log ∧
      ∃ r, lastRec e.id s.log = some r ∧ r.sid = e.sid ∧ e.next = S e.sid r.basis := by
  obtain ⟨rfl, hp⟩ := step_snapshot_inv hsnap
  obtain ⟨tm, hpc⟩ := isParked_iff.1 (hp hrunning)
  have hB := reach_invB hr
  refine ⟨rfl, ?_⟩
  intro e he
  obtain ⟨r, hr1, hr2⟩ := hB.next_ok (by simp [hpc, live]) e he
  exact ⟨hB.prev_ok e he, r, hr1, hB.sid_ok e he r hr1, hr2⟩

/-- `Prev` is reported faithfully also while the scheduler is stopped. -/
theorem entries_prev_always (S : Scheds) (s : State) (hr : Reach S s) :
    ∀ e ∈ snapshotOf s, e.prev = lastRunAct e.id s.log :=
  (reach_invB hr).prev_ok

/-- `entries_reports_exactly_live`: "Entries reports each live entry". For every history, what
`Entries()` returns lists exactly the ids issued by `Schedule` (1, 2, 3 … in order of the calls)
and not removed since (`specLive`: `add` issues `last + 1` and makes it live, `remove id` makes
`id` not live, nothing else changes the set), each exactly once — whether the Cron is running
(the snapshot is served by the loop) or stopped. -/
theorem entries_reports_exactly_live (S : Scheds) (t0 : Nat) (h : List Label) (s s' : State)
    (hrunFrom : runFrom S (init t0) h = some s) (hsnap : step S s .snapshot = some s') :
    ((snapshotOf s).map (·.id)).Perm (specLive h).2 ∧ ((snapshotOf s).map (·.id)).Nodup ∧
    s.nextID = (specLive h).1 := by
  have hr : Reach S s := reach_iff_history.2 ⟨t0, h, hrunFrom⟩
  have hA := reach_invA hr
  have h0 : (liveIds (init t0)).Perm [] := by simp [liveIds, init]
  obtain ⟨hid, hperm⟩ := live_runFrom h (Reach.init t0) h0 hrunFrom
  obtain ⟨_, hp⟩ := step_snapshot_inv hsnap
  have hpend : liveIds s = s.entries.map (·.id) := by
    unfold liveIds
    cases hrun : s.running with
    | true =>
      obtain ⟨tm, hpc⟩ := isParked_iff.1 (hp hrun)
      simp [hpc]
    | false =>
      have : s.pc = .off := by have := hA.run_pc; simp [hrun] at this; exact this
      simp [this]
  rw [hpend] at hperm
  exact ⟨hperm, hA.nodup, hid⟩

example : specLive [.add 0, .add 1, .start, .boot, .arm, .add 0, .refresh, .arm, .remove 2, .refresh,
    .arm, .snapshot] = (3, [1, 3]) := by decide

/-- `restart_recomputes`: when a (re)started scheduler goroutine boots, every entry's `Next` is
recomputed from the clock value read at that moment, `Prev` is kept. -/
theorem restart_recomputes (S : Scheds) (s s' : State) (h : step S s .boot = some s') :
    s'.now = s.clock ∧
    s'.entries = s.entries.map (fun e => { e with next := S e.sid s.clock }) ∧
    (∀ e' ∈ s'.entries, e'.next = S e'.sid s.clock) ∧
    s'.entries.map (·.prev) = s.entries.map (·.prev) := by
  obtain ⟨_, rfl⟩ := step_boot_inv h
  refine ⟨rfl, rfl, ?_, ?_⟩
  · intro e' he'
    simp only [List.mem_map] at he'
    obtain ⟨e, _, rfl⟩ := he'
    rfl
  · simp [Function.comp_def]

example : ∃ s s' : State, Reach (fun _ t => t + 3) s ∧ step (fun _ t => t + 3) s .boot = some s' ∧
    s.entries.map (·.next) = [16] ∧ s'.entries.map (·.next) = [43] ∧ s'.entries.map (·.prev) = [13] :=
  ⟨_, _, reach_runFrom (Reach.init 10) [.add 0, .start, .boot, .arm, .advance 13, .wake, .arm,
      .stop, .advance 40, .start] rfl, rfl, by decide, by decide, by decide⟩

end Kit.CronSched.C05
