/-
C16 — the model is the code, part 2: `TeeReadCloser.Read` as TRANSLATED from
/repo/streams/teereadcloser.go on this run (`KitModel/Generated/CodeC16.lean`, `TeeReadCloser_Read`)
computes exactly what the hand-written model `Kit.Streams.Tee.read` computes, for every tee state,
every buffer, every scripted source and every scripted writer — so the `tee_*` theorems of
`Props/C16.lean` about `Tee.read` are theorems about the translated source text.

How the translation represents the world (target table of `harness/cmd/go2lean`): `t.r == nil` /
`t.w == nil` are the Bool parameters `t_rnil` / `t_wnil`; the source is `R_Read : Int → Int × Err`
(what `Read` returns on a buffer of that length) plus `R_Data : Int → List UInt8` (the bytes it puts
into the buffer, `p := fill p (R_Data (len p))`); the writer is `W_Write : List UInt8 → Int × Err` and
every buffer handed to it is appended to the ghost log `wlog`; the mutex calls are dropped (every
method body runs under the lock: `tee_concurrent_*`); `errors.Is(err, io.EOF)` is
`err == some "io.EOF"`. The result is `(n, err, t.eof, p, wlog)`.

Trusted here: the translator, `KitModel/Go/Sem.lean`, and the reading of the `io.Reader` /
`io.Writer` contracts in `srcRead` / `teeData` / `teeWrite` (below).
-/
import KitProofs.Props.C16Code

namespace Kit.Streams.Code
open Kit.Streams Kit.GoSem Kit.Generated.CodeC16

/-! ### facts about the semantics prelude (`fill`, `slice`) -/

/-- A callee filling the buffer does not change its length. -/
theorem fill_length {α : Type} (p d : List α) : (fill p d).length = p.length := by
  unfold fill
  simp only [List.length_append, List.length_take, List.length_drop]
  omega

theorem lenI_fill {α : Type} (p d : List α) : lenI (fill p d) = lenI p := by
  unfold lenI; rw [fill_length]

/-- The consumer's view `p[:k]` of a buffer filled with `d`, for `k ≤ len d ≤ len p`. -/
theorem slice_fill {α : Type} (p d : List α) (k : Nat) (hk : k ≤ d.length) (hd : d.length ≤ p.length) :
    slice (fill p d) 0 (k : Int) = d.take k := by
  unfold slice fill
  simp only [Int.toNat_zero, List.drop_zero, Int.toNat_natCast]
  have h1 : List.take p.length d = d := List.take_of_length_le hd
  rw [h1, List.take_append_of_le_length hk]

theorem slice_fill_all {α : Type} (p d : List α) (hd : d.length ≤ p.length) :
    slice (fill p d) 0 (d.length : Int) = d := by
  rw [slice_fill p d d.length (Nat.le_refl _) hd, List.take_length]

/-! ### the scripted source and writer behind the translated code's parameters -/

/-- `R_Data`: the bytes the scripted source puts into a buffer of length `k`. -/
def teeData (s : Src) : Int → List UInt8 := fun k => (s.read k.toNat).2.1

/-- `W_Write`: the scripted writer's `(n, err)` on the bytes `d`. -/
def teeWrite (w : Wr) : List UInt8 → Int × GoSem.Err :=
  fun d => (((w.write d).2.1 : Int), encErr (w.write d).2.2)

/-- The scripted writer obeys the `io.Writer` contract: it reports at most `len d` bytes. -/
theorem write_n_le (w : Wr) (d : Bytes) : (w.write d).2.1 ≤ d.length := by
  unfold Wr.write
  split
  · simp
  · split
    · simp
    · simp only; omega

/-- What the scripted writer holds afterwards: what it held plus the accepted prefix of `d`. -/
theorem write_got (w : Wr) (d : Bytes) : (w.write d).1.got = w.got ++ d.take (w.write d).2.1 := by
  unfold Wr.write
  split
  · simp
  · split
    · simp
    · simp

theorem encErr_ne_none (e : Option Streams.Err) : (encErr e != (none : GoSem.Err)) = (e != none) := by
  cases e with
  | none => rfl
  | some e => cases e <;> rfl

/-- The data the source delivers in this call of `Tee.read` (nothing if the tee is closed, stopped,
or already at EOF: the source is then not read at all). -/
def teeDelivered (t : Tee) (m : Nat) : Bytes :=
  if t.rOpen = false ∨ t.wOpen = false ∨ t.eof = true then [] else (t.src.read m).2.1

/-- What the model's step yields, in the shape of the translated function's result
`(n, err, t.eof, p, wlog)`: the buffer is filled with what the source delivered, and the writer's log
gets that data, once, if there is any. -/
def modelTeeRead (t : Tee) (p : List UInt8) (wlog : List (List UInt8)) :
    Int × GoSem.Err × Bool × List UInt8 × List (List UInt8) :=
  let r := Tee.read t p.length
  let d := teeDelivered t p.length
  ((r.2.1.length : Int), encErr r.2.2, r.1.eof, fill p d, wlog ++ (if d ≠ [] then [d] else []))

theorem fill_nil {α : Type} (p : List α) : fill p [] = p := by
  unfold fill; simp

/-- **The translated `TeeReadCloser.Read` is the model's `Tee.read`**, for every tee state, buffer,
scripted source, scripted writer and starting log. (No bound on `len p` is needed: the function does
no arithmetic on it.) -/
theorem tee_read_code_eq_model_unbounded (t : Tee) (p : List UInt8) (wlog : List (List UInt8)) :
    TeeReadCloser_Read (!t.rOpen) (!t.wOpen) (srcRead t.src) (teeData t.src) (teeWrite t.w) t.eof p wlog
      = .ok (modelTeeRead t p wlog) := by
  obtain ⟨src, rOpen, w, wOpen, eof⟩ := t
  unfold TeeReadCloser_Read modelTeeRead Tee.read teeDelivered
  cases rOpen
  · simp [encErr, fill_nil]
  cases wOpen
  · simp [encErr, fill_nil]
  by_cases heof : eof = true
  · subst heof
    simp [encErr, fill_nil]
  have heof' : eof = false := by simpa using heof
  subst heof'
  simp only [Bool.not_true, Bool.or_self, Bool.false_eq_true, ↓reduceIte, or_self, reduceCtorEq]
  have hle := read_length_le src p.length
  obtain ⟨s', d, e, hr⟩ : ∃ s' d e, src.read p.length = (s', d, e) := ⟨_, _, _, rfl⟩
  simp only [srcRead, teeData, lenI, Int.toNat_natCast, hr] at hle ⊢
  by_cases hd : d = []
  · subst hd
    simp only [encErr_eq_eof, fill_nil]
    by_cases he : e = some Streams.Err.eof <;> simp [he]
  · have hpos : decide ((d.length : Int) > 0) = true := by
      have : 0 < d.length := List.length_pos_iff.mpr hd
      simp; omega
    have hb : decide (0 ≤ (0 : Int) ∧ (0 : Int) ≤ (d.length : Int) ∧ (d.length : Int) ≤ ((fill p d).length : Int)) = true := by
      rw [fill_length]; simp; omega
    have hwn := write_n_le w d
    obtain ⟨w', nw, ew, hwr⟩ : ∃ w' nw ew, w.write d = (w', nw, ew) := ⟨_, _, _, rfl⟩
    simp only [hwr] at hwn
    simp only [hpos, hb, ↓reduceIte, Bool.not_true, Bool.false_eq_true, slice_fill_all p d hle, teeWrite, hwr,
      encErr_ne_none, encErr_eq_eof, hd, ne_eq, not_false_eq_true]
    cases ew with
    | none => cases e with
      | none => simp
      | some e => cases e <;> simp
    | some ew =>
      have : min nw d.length = nw := by omega
      cases e with
      | none => simp [this]
      | some e => cases e <;> simp [this]

/-- The same, with the signature asked for (`len p` is a Go `int`; the bound is not used). -/
theorem tee_read_code_eq_model (t : Tee) (p : List UInt8) (wlog : List (List UInt8))
    (_hp : (p.length : Int) ≤ 9223372036854775807) :
    TeeReadCloser_Read (!t.rOpen) (!t.wOpen) (srcRead t.src) (teeData t.src) (teeWrite t.w) t.eof p wlog
      = .ok (modelTeeRead t p wlog) :=
  tee_read_code_eq_model_unbounded t p wlog

/-! ### what `modelTeeRead` says, component by component -/

/-- The consumer's view `p'[:n]` of the buffer the translated code hands back is exactly the bytes the
model returns. -/
theorem modelTeeRead_view (t : Tee) (p : List UInt8) (wlog : List (List UInt8)) :
    slice (modelTeeRead t p wlog).2.2.2.1 0 (modelTeeRead t p wlog).1 = (Tee.read t p.length).2.1 := by
  obtain ⟨src, rOpen, w, wOpen, eof⟩ := t
  unfold modelTeeRead Tee.read teeDelivered
  cases rOpen
  · simp [slice]
  cases wOpen
  · simp [slice]
  by_cases heof : eof = true
  · subst heof
    simp [slice]
  have heof' : eof = false := by simpa using heof
  subst heof'
  simp only [Bool.false_eq_true, ↓reduceIte, or_self, reduceCtorEq]
  have hle := read_length_le src p.length
  obtain ⟨s', d, e, hr⟩ : ∃ s' d e, src.read p.length = (s', d, e) := ⟨_, _, _, rfl⟩
  simp only [hr] at hle ⊢
  by_cases hd : d = []
  · subst hd; simp [slice]
  · have hwn := write_n_le w d
    obtain ⟨w', nw, ew, hwr⟩ : ∃ w' nw ew, w.write d = (w', nw, ew) := ⟨_, _, _, rfl⟩
    simp only [hwr] at hwn
    simp only [hd, ne_eq, not_false_eq_true, ↓reduceIte, hwr]
    cases ew with
    | none => exact slice_fill_all p d hle
    | some ew =>
      simp only [List.length_take]
      have : min nw d.length = nw := by omega
      rw [this, slice_fill p d nw hwn hle]

/-- The model's writer afterwards holds what it held plus what it accepted of the delivered data. -/
theorem tee_read_writer_got (t : Tee) (m : Nat) :
    (Tee.read t m).1.w.got
      = t.w.got ++ (teeDelivered t m).take (t.w.write (teeDelivered t m)).2.1 := by
  obtain ⟨src, rOpen, w, wOpen, eof⟩ := t
  unfold Tee.read teeDelivered
  cases rOpen
  · simp
  cases wOpen
  · simp
  by_cases heof : eof = true
  · subst heof
    simp
  have heof' : eof = false := by simpa using heof
  subst heof'
  simp only [Bool.false_eq_true, ↓reduceIte, or_self, reduceCtorEq]
  obtain ⟨s', d, e, hr⟩ : ∃ s' d e, src.read m = (s', d, e) := ⟨_, _, _, rfl⟩
  simp only [hr]
  by_cases hd : d = []
  · subst hd; simp
  · have hg := write_got w d
    obtain ⟨w', nw, ew, hwr⟩ : ∃ w' nw ew, w.write d = (w', nw, ew) := ⟨_, _, _, rfl⟩
    simp only [hwr] at hg
    simp only [hd, ne_eq, not_false_eq_true, ↓reduceIte, hwr]
    cases ew <;> exact hg

/-- **The full statement in one piece**: the translated `Read` returns `(n, err, eof', p', wlog')`
with, for `r := Tee.read t (len p)` and `d :=` the data the source delivered in this call:
`n = len r.bytes`, `err = r.err`, `eof' = r.state.eof`, the consumer's view `p'[:n] = r.bytes`,
`wlog' = wlog ++ [d]` if `d ≠ []` and `wlog` otherwise, and the model's writer holds
`t.w.got ++` the accepted prefix of `d`. -/
theorem tee_read_code_spec (t : Tee) (p : List UInt8) (wlog : List (List UInt8)) :
    ∃ n err eof' p' wlog',
      TeeReadCloser_Read (!t.rOpen) (!t.wOpen) (srcRead t.src) (teeData t.src) (teeWrite t.w) t.eof p wlog
        = .ok (n, err, eof', p', wlog') ∧
      n = ((Tee.read t p.length).2.1.length : Int) ∧
      err = encErr (Tee.read t p.length).2.2 ∧
      eof' = (Tee.read t p.length).1.eof ∧
      slice p' 0 n = (Tee.read t p.length).2.1 ∧
      p'.length = p.length ∧
      wlog' = wlog ++ (if teeDelivered t p.length ≠ [] then [teeDelivered t p.length] else []) ∧
      (Tee.read t p.length).1.w.got
        = t.w.got ++ (teeDelivered t p.length).take (t.w.write (teeDelivered t p.length)).2.1 :=
  ⟨_, _, _, _, _, tee_read_code_eq_model_unbounded t p wlog, rfl, rfl, rfl, modelTeeRead_view t p wlog,
    fill_length _ _, rfl, tee_read_writer_got t p.length⟩

/-! ### no panic; and exactly when the translated code does panic -/

/-- The translated `Read` never panics on a scripted source (one that obeys the `io.Reader`
contract `n ≤ len p`), whatever the tee state, buffer and writer. -/
theorem tee_read_code_never_panics (t : Tee) (p : List UInt8) (wlog : List (List UInt8)) :
    ∀ msg, TeeReadCloser_Read (!t.rOpen) (!t.wOpen) (srcRead t.src) (teeData t.src) (teeWrite t.w) t.eof p wlog
      ≠ .panic msg := by
  intro msg; rw [tee_read_code_eq_model_unbounded t p wlog]; intro h; cases h

/-- The translated `Read` on a closed / stopped tee, or one already at EOF, touches nothing: for ANY
source and writer. -/
theorem tee_read_code_inactive
    (t_rnil t_wnil : Bool) (R_Read : Int → Int × GoSem.Err) (R_Data : Int → List UInt8)
    (W_Write : List UInt8 → Int × GoSem.Err) (t_eof : Bool) (p : List UInt8) (wlog : List (List UInt8))
    (h : t_rnil = true ∨ t_wnil = true ∨ t_eof = true) :
    TeeReadCloser_Read t_rnil t_wnil R_Read R_Data W_Write t_eof p wlog =
      .ok (0, if t_rnil || t_wnil then some "io.ErrClosedPipe" else some "io.EOF", t_eof, p, wlog) := by
  unfold TeeReadCloser_Read
  cases t_rnil <;> cases t_wnil <;> cases t_eof <;> simp at h ⊢

/-- The translated `Read` on an open tee not at EOF, evaluated, for ANY source and writer: the
three outcomes (no data; data written; `p[:n]` out of range). -/
theorem tee_read_code_active
    (R_Read : Int → Int × GoSem.Err) (R_Data : Int → List UInt8)
    (W_Write : List UInt8 → Int × GoSem.Err) (p : List UInt8) (wlog : List (List UInt8)) :
    TeeReadCloser_Read false false R_Read R_Data W_Write false p wlog =
      (let n := (R_Read (lenI p)).1
       let err := (R_Read (lenI p)).2
       let p' := fill p (R_Data (lenI p))
       let eof' := err == (some "io.EOF" : GoSem.Err)
       if n ≤ 0 then .ok (n, err, eof', p', wlog)
       else if n > lenI p then .panic "slice bounds out of range: p[:n]"
       else if (W_Write (slice p' 0 n)).2 != none then
         .ok ((W_Write (slice p' 0 n)).1, (W_Write (slice p' 0 n)).2, eof', p', wlog ++ [slice p' 0 n])
       else .ok (n, err, eof', p', wlog ++ [slice p' 0 n])) := by
  unfold TeeReadCloser_Read
  obtain ⟨n, err, hR⟩ : ∃ n err, R_Read (lenI p) = (n, err) := ⟨_, _, rfl⟩
  simp only [Bool.or_self, Bool.false_eq_true, ↓reduceIte, hR, lenI_fill]
  have hlen : 0 ≤ lenI p := by unfold lenI; omega
  by_cases hn : n ≤ 0
  · have : ¬ n > 0 := by omega
    by_cases he : (err == (some "io.EOF" : GoSem.Err)) = true <;> simp [hn, this, he]
  · have hn' : n > 0 := by omega
    by_cases hb : n > lenI p
    · have : ¬ (n ≤ lenI p) := by omega
      by_cases he : (err == (some "io.EOF" : GoSem.Err)) = true <;> simp [hn, hn', hb, this, he]
    · have hb' : n ≤ lenI p := by omega
      have h0 : 0 ≤ n := by omega
      by_cases he : (err == (some "io.EOF" : GoSem.Err)) = true <;>
        by_cases hw : ((W_Write (slice (fill p (R_Data (lenI p))) 0 n)).2 != none) = true <;>
        simp [hn, hn', hb, hb', h0, he, hw]

/-- Directly on the translated code, for an ARBITRARY source `R_Read` / `R_Data` and writer: the
translated `Read` panics exactly when the tee is open and not at EOF and the source's `Read` claims
more bytes than the buffer holds (`n > len p`: a source violating the `io.Reader` contract, so that
`p[:n]` is out of range) — and then the panic is that slice expression. A negative `n` does not
panic: the `n > 0` guard skips the write. -/
theorem tee_read_code_panics_iff_contract_violated
    (t_rnil t_wnil : Bool) (R_Read : Int → Int × GoSem.Err) (R_Data : Int → List UInt8)
    (W_Write : List UInt8 → Int × GoSem.Err) (t_eof : Bool) (p : List UInt8) (wlog : List (List UInt8)) :
    (∃ msg, TeeReadCloser_Read t_rnil t_wnil R_Read R_Data W_Write t_eof p wlog = .panic msg) ↔
      (t_rnil = false ∧ t_wnil = false ∧ t_eof = false ∧ (R_Read (lenI p)).1 > lenI p) := by
  have hlen : 0 ≤ lenI p := by unfold lenI; omega
  by_cases h : t_rnil = true ∨ t_wnil = true ∨ t_eof = true
  · rw [tee_read_code_inactive _ _ _ _ _ _ _ _ h]
    constructor
    · rintro ⟨msg, hm⟩; cases hm
    · rintro ⟨h1, h2, h3, _⟩
      rcases h with h | h | h <;> simp_all
  · have h1 : t_rnil = false := by cases t_rnil <;> simp_all
    have h2 : t_wnil = false := by cases t_wnil <;> simp_all
    have h3 : t_eof = false := by cases t_eof <;> simp_all
    subst h1 h2 h3
    rw [tee_read_code_active]
    simp only [true_and]
    by_cases hn : (R_Read (lenI p)).1 ≤ 0
    · simp only [hn, ↓reduceIte]
      constructor
      · rintro ⟨msg, hm⟩; cases hm
      · intro hc; omega
    · by_cases hb : (R_Read (lenI p)).1 > lenI p
      · simp only [hn, hb, ↓reduceIte]
        exact ⟨fun _ => trivial, fun _ => ⟨_, rfl⟩⟩
      · simp only [hn, hb, ↓reduceIte]
        constructor
        · rintro ⟨msg, hm⟩
          split at hm <;> cases hm
        · intro hc; exact absurd hc (by simp)

/-- The panic, when it happens, is the slice expression `p[:n]`. -/
theorem tee_read_code_panic_msg
    (t_rnil t_wnil : Bool) (R_Read : Int → Int × GoSem.Err) (R_Data : Int → List UInt8)
    (W_Write : List UInt8 → Int × GoSem.Err) (t_eof : Bool) (p : List UInt8) (wlog : List (List UInt8))
    (h : t_rnil = false ∧ t_wnil = false ∧ t_eof = false ∧ (R_Read (lenI p)).1 > lenI p) :
    TeeReadCloser_Read t_rnil t_wnil R_Read R_Data W_Write t_eof p wlog
      = .panic "slice bounds out of range: p[:n]" := by
  obtain ⟨h1, h2, h3, h4⟩ := h
  subst h1 h2 h3
  have hlen : 0 ≤ lenI p := by unfold lenI; omega
  rw [tee_read_code_active]
  have hn : ¬ (R_Read (lenI p)).1 ≤ 0 := by omega
  simp only [hn, h4, ↓reduceIte]

/-! ### the writer is handed exactly the bytes read, once -/

/-- Directly on the translated code, for ANY source and writer with `n ≤ len p` (`n` what the
source's `Read` reports; `0 ≤ n` is not needed): if `n > 0` the writer's log grows by exactly one
entry, the `n` bytes the source put into the buffer, and if `n ≤ 0` the log is unchanged. The buffer
handed back is the filled one, and `t.eof` is set exactly on `io.EOF` — whatever the writer
answers. -/
theorem tee_read_code_writer_gets_exactly_the_data
    (R_Read : Int → Int × GoSem.Err) (R_Data : Int → List UInt8)
    (W_Write : List UInt8 → Int × GoSem.Err) (p : List UInt8) (wlog : List (List UInt8))
    (hn : (R_Read (lenI p)).1 ≤ lenI p) :
    ∃ n' err',
      TeeReadCloser_Read false false R_Read R_Data W_Write false p wlog =
        .ok (n', err', (R_Read (lenI p)).2 == (some "io.EOF" : GoSem.Err), fill p (R_Data (lenI p)),
             if (R_Read (lenI p)).1 > 0
             then wlog ++ [slice (fill p (R_Data (lenI p))) 0 (R_Read (lenI p)).1]
             else wlog) := by
  rw [tee_read_code_active]
  by_cases h0 : (R_Read (lenI p)).1 ≤ 0
  · have : ¬ (R_Read (lenI p)).1 > 0 := by omega
    simp only [h0, this, ↓reduceIte]
    exact ⟨_, _, rfl⟩
  · have h1 : (R_Read (lenI p)).1 > 0 := by omega
    have h2 : ¬ (R_Read (lenI p)).1 > lenI p := by omega
    simp only [h0, h1, h2, ↓reduceIte]
    split <;> exact ⟨_, _, rfl⟩

/-- The two halves as stated: `n > 0` — one entry, exactly the bytes read. -/
theorem tee_read_code_writer_gets_exactly_the_data_pos
    (R_Read : Int → Int × GoSem.Err) (R_Data : Int → List UInt8)
    (W_Write : List UInt8 → Int × GoSem.Err) (p : List UInt8) (wlog : List (List UInt8))
    (hn : (R_Read (lenI p)).1 ≤ lenI p) (hpos : (R_Read (lenI p)).1 > 0) :
    ∃ n' err' eof' p',
      TeeReadCloser_Read false false R_Read R_Data W_Write false p wlog =
        .ok (n', err', eof', p', wlog ++ [slice (fill p (R_Data (lenI p))) 0 (R_Read (lenI p)).1]) := by
  obtain ⟨n', err', h⟩ := tee_read_code_writer_gets_exactly_the_data R_Read R_Data W_Write p wlog hn
  simp only [hpos, ↓reduceIte] at h
  exact ⟨_, _, _, _, h⟩

/-- `n ≤ 0` — the writer is not called. -/
theorem tee_read_code_writer_gets_exactly_the_data_zero
    (R_Read : Int → Int × GoSem.Err) (R_Data : Int → List UInt8)
    (W_Write : List UInt8 → Int × GoSem.Err) (p : List UInt8) (wlog : List (List UInt8))
    (hz : (R_Read (lenI p)).1 ≤ 0) :
    ∃ n' err' eof' p',
      TeeReadCloser_Read false false R_Read R_Data W_Write false p wlog = .ok (n', err', eof', p', wlog) := by
  have hlen : 0 ≤ lenI p := by unfold lenI; omega
  obtain ⟨n', err', h⟩ := tee_read_code_writer_gets_exactly_the_data R_Read R_Data W_Write p wlog (by omega)
  have : ¬ (R_Read (lenI p)).1 > 0 := by omega
  simp only [this, ↓reduceIte] at h
  exact ⟨_, _, _, _, h⟩

/-! ### non-vacuity: the translated function itself, evaluated
(`synthInstance.maxSize` is raised only so that `DecidableEq` of the 5-component result type is found.) -/

set_option synthInstance.maxSize 1000

/-- Witness: a source claiming 3 bytes for a 2-byte buffer makes the translated code panic. -/
theorem tee_read_code_panics_witness :
    TeeReadCloser_Read false false (fun _ => (3, none)) (fun _ => [1, 2, 3]) (fun d => (lenI d, none)) false
      [0, 0] [] = .panic "slice bounds out of range: p[:n]" := by decide +kernel

/-- A 3-byte source into a 2-byte buffer: 2 bytes, no error, the buffer holds them, the writer was
handed them once. -/
example :
    TeeReadCloser_Read (!true) (!true)
      (srcRead { rest := [1, 2, 3], script := [], withData := true, term := .eof, closable := true, closes := 0 })
      (teeData { rest := [1, 2, 3], script := [], withData := true, term := .eof, closable := true, closes := 0 })
      (teeWrite { got := [], cap := none, closable := false, closes := 0 })
      false [9, 9] [] = .ok (2, none, false, [1, 2], [[1, 2]]) := by decide +kernel

/-- The same source into a 4-byte buffer: 3 bytes and `io.EOF` together, `t.eof` set, the buffer's
tail keeps its old byte. -/
example :
    TeeReadCloser_Read (!true) (!true)
      (srcRead { rest := [1, 2, 3], script := [], withData := true, term := .eof, closable := true, closes := 0 })
      (teeData { rest := [1, 2, 3], script := [], withData := true, term := .eof, closable := true, closes := 0 })
      (teeWrite { got := [], cap := none, closable := false, closes := 0 })
      false [9, 9, 9, 9] [[7]] = .ok (3, some "io.EOF", true, [1, 2, 3, 9], [[7], [1, 2, 3]]) := by decide +kernel

/-- A failing writer (accepts 1 byte): the writer's `(1, err)` is returned instead of the source's
`(2, nil)`; the writer was still handed both bytes. -/
example :
    TeeReadCloser_Read (!true) (!true)
      (srcRead { rest := [1, 2, 3], script := [], withData := true, term := .eof, closable := true, closes := 0 })
      (teeData { rest := [1, 2, 3], script := [], withData := true, term := .eof, closable := true, closes := 0 })
      (teeWrite { got := [], cap := some 1, closable := false, closes := 0 })
      false [9, 9] [] = .ok (1, encErr (some .wfail), false, [1, 2], [[1, 2]]) := by decide +kernel

/-- After `Close` (`t.r == nil`): `io.ErrClosedPipe`, nothing touched. -/
example :
    TeeReadCloser_Read (!false) (!false)
      (srcRead { rest := [1, 2, 3], script := [], withData := true, term := .eof, closable := true, closes := 0 })
      (teeData { rest := [1, 2, 3], script := [], withData := true, term := .eof, closable := true, closes := 0 })
      (teeWrite { got := [], cap := none, closable := false, closes := 0 })
      false [9, 9] [] = .ok (0, some "io.ErrClosedPipe", false, [9, 9], []) := by decide +kernel

/-- The model side of the failing-writer example: the writer holds the one accepted byte. -/
example :
    (Tee.read (Tee.new { rest := [1, 2, 3], script := [], withData := true, term := .eof, closable := true, closes := 0 }
      { got := [], cap := some 1, closable := false, closes := 0 }) 2).1.w.got = [1] := by decide +kernel

end Kit.Streams.Code
