import KitProofs.Props.C19
import KitProofs.Props.C18
/-!
Property C19, file-set clause, connected to the `dir.Write` model of property C18
(`KitModel/Dir.lean`): the `dir.Write` calls the renewal automaton makes, replayed on C18's
file-system model, leave the target resolving to exactly `{key.pem, cert.pem, ca.pem}` of ONE fetch —
the latest successful one.
-/
namespace Kit.Spiffe
open Kit.Dir

/-- Abstract PEM encoding of a token (content is irrelevant to the clause; what matters is which
fetch a file belongs to). -/
def pemOf (kind : String) (n : Nat) : Bytes := (kind ++ toString n).toUTF8.data.toList

open Kit.Generated.C19 (Role) in
def roleTok (f : FileSet) : Role → Nat
  | .key => f.key
  | .chain => f.chain
  | .anchors => f.anchors

open Kit.Generated.C19 (Role) in
def roleName : Role → String
  | .key => "key"
  | .chain => "chain"
  | .anchors => "anchors"

/-- The map `fetchIdentityCertificate` hands to `dir.Write`: file names and what each holds are the
ones extracted from the source on this run (`Kit.Generated.C19.fileSet`). -/
def filesOf (f : FileSet) : Files :=
  Kit.Generated.C19.fileSet.map fun nr => (.str nr.1, pemOf (roleName nr.2) (roleTok f nr.2))

example : (filesOf ⟨4, 4, 3⟩).map (·.1) = [.str "key.pem", .str "cert.pem", .str "ca.pem"] := by decide

/-- The three file names are plain names (C18's `dir.Write` model refuses names with a separator). -/
theorem filesOf_valid (f : FileSet) : AllValid (filesOf f) := by
  intro kb hkb
  simp only [filesOf, List.mem_map] at hkb
  obtain ⟨nr, hnr, rfl⟩ := hkb
  have : ∀ nr ∈ Kit.Generated.C19.fileSet, validName (.str nr.1) = true := by decide
  exact this nr hnr

/-- The history of `dir.Write` calls of a renewal run (oldest first), as events of C18's model. -/
def writesOf (s : RN) : List Kit.Dir.Ev := s.pub.reverse.map fun f => Kit.Dir.Ev.write (filesOf f)

/-- At the end of any reachable renewal run with a write directory, if some fetch has succeeded,
the target is a link to a single version directory whose content is exactly the three files of the
LATEST successful fetch `r` (its key, its chain, the anchors current at that request), and no other
version directory is left. -/
theorem published_target_is_latest_fetch {a0 : Nat} {script : List Reply} {t0 : Int} {s : RN}
    (h : RReach true a0 script t0 s) (B : Path) (fs0 : FS) (h0 : Clean B fs0)
    {r : Req} {rest : List Req} (hgood : s.log.filter (·.good) = r :: rest) :
    ∃ n, look (run B (Kit.Dir.init fs0) (writesOf s)).fs (target B) = some (.link (verDir B n)) ∧
      DirIs (run B (Kit.Dir.init fs0) (writesOf s)).fs (verDir B n) (asMap (filesOf (fileSetOf r))) ∧
      OnlyVersion B (run B (Kit.Dir.init fs0) (writesOf s)).fs n := by
  have hp := (fetch_fresh_key_one_fileset h).2.2.2.1
  have hdir : s.dirOn = true := rreach_dirOn h
  rw [hdir, hgood] at hp
  simp only [if_true, List.map_cons] at hp
  have hw : writesOf s = ((rest.map fileSetOf).reverse.map filesOf ++ [filesOf (fileSetOf r)]).map Kit.Dir.Ev.write := by
    simp [writesOf, hp]
  rw [hw]
  refine no_crash_single_version B fs0 h0 _ _ ?_
  intro w hw
  simp only [List.mem_append, List.mem_map, List.mem_singleton] at hw
  rcases hw with ⟨f, _, rfl⟩ | rfl
  · exact filesOf_valid f
  · exact filesOf_valid _

/-- Non-vacuity: in the example run the good fetches are 2 and 0 (1 failed), so the target holds
fetch 2's set. -/
example : ex2.log.filter (·.good) = [⟨1812000000000, 2, true, 7, 3600000000000, 1812000000000⟩, ⟨0, 0, true, 7, 1800000000000, 0⟩] := by decide

end Kit.Spiffe
