import KitProofs.Props.C04Parser
import KitProofs.Props.C04Next
import KitProofs.Props.C04Bridge
import KitProofs.Props.C04Dst
import KitProofs.Props.C03
import KitProofs.Props.C01NoPanic
import KitProofs.Lemmas.NoPanicSym
import KitProofs.Lemmas.NoPanicNames
import KitModel.NoPanicInventory
/-!
# C07 — obligations discharged over the models other properties own

cron `Parse` (C04Parser), cron `Next` (C04Next), RFC 3394 key wrap, PKCS#7 and the AES-CBC-HMAC
AEAD glue (C03).  The never-panic theorems that exist there are re-stated here as C07 obligations;
where the owning module has none, the theorem is proved here about the owner's model.
-/
namespace Kit.C07
open Kit

/-- cron `Parse`: no option set `NewParser` accepts and no string makes it panic. -/
theorem cron_parse_never_panics (env : Cron.Env) (o : Cron.Opts) (h2 : o.twoOptionals = false) (spec : List Char) :
    (Cron.parse env o spec).isPanic = false :=
  Cron.parse_never_panics env o h2 spec

/-- cron `Next` (fixed-offset zones): neither the `goto WRAP` bound nor an inner loop bound is
ever exhausted — the search ends by the five-year rule. -/
theorem cron_next_terminates (s : CronSpec.Sched) (off : Int) (h60 : off % 60 = 0) (tn : Int) :
    CronSpec.next s (CronSpec.fixedZone off) tn ≠ .fuel :=
  CronSpec.next_terminates s off h60 tn

/-- The property's cron clause end to end (C04Bridge): for every spec string `Parse` accepts under an
option set `NewParser` accepts, `Next` on the schedule it produced returns — an instant or the zero
time, never a panic, an error or an exhausted loop bound — from every instant, in every zone with
a constant whole-minute offset. -/
theorem cron_parse_then_next_returns (env : Cron.Env) (o : Cron.Opts) (h2 : o.twoOptionals = false)
    (spec : List Char) (s : Cron.SpecSchedule) (loc : Option String)
    (h : Cron.parse env o spec = .ok (.spec s loc)) (off : Int) (h60 : off % 60 = 0) (tn : Int) :
    (∃ r, CronBridge.parseThenNext env o spec (CronSpec.fixedZone off) tn = .at r) ∨
      CronBridge.parseThenNext env o spec (CronSpec.fixedZone off) tn = .zero := by
  obtain ⟨_, _, hr⟩ := CronBridge.parseThenNext_spec env o h2 spec s loc h off h60 tn
  rcases hr with ⟨r, hr, _⟩ | ⟨hz, _⟩
  · exact Or.inl ⟨_, hr⟩
  · exact Or.inr hz

/-- `Next` terminates on every zone with hour transitions (C04Dst): for every transition table that
passes the decidable check `hourTable` (whole-hour offsets with |off| ≤ 26 h, transitions on whole
UTC hours changing the offset by exactly one hour, ≥ 1801 h apart — America/Havana, New_York, …),
every schedule and every start instant, neither the `goto WRAP` bound nor an inner loop bound is
exhausted. -/
theorem cron_next_terminates_hour_zones (z : CronSpec.Zone) (hz : CronSpec.hourTable z = true)
    (s : CronSpec.Sched) (tn : Int) : CronSpec.next s z tn ≠ .fuel := by
  have h := CronSpec.next_dst_tables z hz s tn
  intro hf
  rw [hf] at h
  exact h

/-- …and for every accepted cron expression on such a zone `Next` returns an instant or the zero time. -/
theorem cron_parse_then_next_returns_hour_zones (env : Cron.Env) (o : Cron.Opts) (h2 : o.twoOptionals = false)
    (spec : List Char) (s : Cron.SpecSchedule) (loc : Option String)
    (h : Cron.parse env o spec = .ok (.spec s loc)) (z : CronSpec.Zone) (hz : CronSpec.hourTable z = true) (tn : Int) :
    CronSpec.next (CronBridge.toSched s) z tn ≠ .fuel := by
  obtain ⟨_, e, _, _, hn⟩ := CronBridge.parse_then_next_spec_dst env o h2 spec s loc h
  have := hn z hz tn
  intro hf
  rw [hf] at this
  exact this

/-- Termination is FALSE for arbitrary transition tables (C04Dst `next_spins_on_52h_skip`): on a table
with a 52-hour forward skip the day search never leaves the gap and the model runs out of fuel —
the bound on the shift is needed; zones outside `hourTable` (Lord_Howe, Troll, Apia's date-line
jump) are covered by the monitor only. -/
theorem cron_next_termination_needs_bounded_shift : ¬ CronSpec.next_terminates_bounded_offsets_statement :=
  CronSpec.next_terminates_bounded_offsets_false

/-- `aeskw.Unwrap` never panics (after fix 4f2d58e; `unwrap_prefix_witness` in C03 is the code as found). -/
theorem aeskw_unwrap_never_panics (bc : CryptoGlue.BlockCipher) (c : Bytes) : (CryptoGlue.unwrap bc c).isPanic = false :=
  CryptoGlue.unwrap_never_panics bc c

/-- `aeskw.Wrap` never panics. -/
theorem aeskw_wrap_never_panics (bc : CryptoGlue.BlockCipher) (cek : Bytes) : (CryptoGlue.wrap bc cek).isPanic = false := by
  unfold CryptoGlue.wrap
  split
  · rfl
  · split <;> rfl

/-- `PadPKCS7` never panics, for every buffer and every block size (legal or not). -/
theorem pad_never_panics (buf : Bytes) (size : Nat) : (CryptoGlue.pad buf size).isPanic = false := by
  unfold CryptoGlue.pad
  split <;> rfl

/-- `UnpadPKCS7` never panics, for every buffer and every block size. -/
theorem unpad_never_panics (buf : Bytes) (size : Nat) : (CryptoGlue.unpad buf size).isPanic = false := by
  unfold CryptoGlue.unpad
  split
  · rfl
  · split
    · rfl
    · split
      · rfl
      · simp only
        split
        · rfl
        · split <;> rfl

/-- AES-CBC-HMAC `Open` never panics, for every key, nonce (of any length: fix c71e752), ciphertext,
tag and associated data — including an authentic body that is not block aligned (fix 5c853ad). -/
theorem cbcHmacOpen_never_panics (P : CryptoGlue.Prims) (p : CryptoGlue.Facts.AeadParams) (key iv c ad : Bytes) :
    (CryptoGlue.cbcHmacOpen P p key iv c ad).isPanic = false :=
  CryptoGlue.cbcHmacOpen_np P p key iv c ad

example : ([0, 0, 0, 0, 0, 0, 0, 0, 0, 0, 0, 0, 0, 0, 0, 0] : Bytes).length = 16 := rfl

/-- AES-CBC-HMAC `Seal` with a nonce of `NonceSize()` bytes never panics (the wrong-size nonce is
the documented `cipher.AEAD` contract the property excludes). -/
theorem cbcHmacSeal_never_panics (P : CryptoGlue.Prims) (p : CryptoGlue.Facts.AeadParams) (key iv pt ad : Bytes)
    (hiv : iv.length = 16) : (CryptoGlue.cbcHmacSeal P p key iv pt ad).isPanic = false := by
  unfold CryptoGlue.cbcHmacSeal
  have h1 : ¬ iv.length ≠ 16 := by omega
  simp only [h1, if_false]
  have hpad : CryptoGlue.pad pt 16 = .ok (pt ++ List.replicate (16 - pt.length % 16) (UInt8.ofNat (16 - pt.length % 16))) := by
    unfold CryptoGlue.pad
    simp
  rw [hpad]
  simp only
  have hlen : (pt ++ List.replicate (16 - pt.length % 16) (UInt8.ofNat (16 - pt.length % 16))).length % 16 = 0 := by
    rw [List.length_append, List.length_replicate]
    have := Nat.mod_lt pt.length (by omega : 16 > 0)
    omega
  unfold CryptoGlue.cbcEncrypt
  simp only [h1, if_false]
  have h2 : ¬ (pt ++ List.replicate (16 - pt.length % 16) (UInt8.ofNat (16 - pt.length % 16))).length % 16 ≠ 0 := by
    omega
  simp only [h2, if_false]
  rfl

/-- `crypto.EncryptSymmetric` (C03's model, whose guard prefixes and dispatch tables are regenerated
from symmetric.go on every run) never panics: every algorithm name (listed or not), key of every
kind, plaintext / nonce / associated data of every length — given primitives that satisfy their
standards (`Std`: nonce and tag sizes; `LawfulPrims`: `Seal` with a right-size nonce returns at
least `Overhead()` bytes). -/
theorem encryptSymmetric_never_panics (P : CryptoGlue.Prims) (hS : P.Std) (hL : P.LawfulPrims)
    (pt : Bytes) (alg : String) (key : CryptoGlue.Key) (nonce ad : Bytes) :
    (CryptoGlue.encryptSymmetric P pt alg key nonce ad).isPanic = false := by
  rcases key with ⟨kind, raw⟩
  by_cases hk : kind = .oct
  · subst hk; exact CryptoGlue.encryptSymmetric_oct_np P hS hL pt alg raw nonce ad
  · unfold CryptoGlue.encryptSymmetric
    have h : CryptoGlue.keyTypeName (CryptoGlue.Key.mk kind raw).kind ≠ Generated.C03.kind_EncryptSymmetric.1 :=
      CryptoGlue.symmetric_nonoct kind hk
    rw [if_pos h]; rfl

/-- `crypto.DecryptSymmetric` never panics: every algorithm name, key kind, and ciphertext /
nonce / tag / associated data of every length — given that the standard-library AEADs' `Open`
returns for a nonce of `NonceSize()` bytes (`OpenSafe`; the CBC-HMAC AEAD's `Open` is proved
safe here, `cbcHmacOpen_never_panics`). -/
theorem decryptSymmetric_never_panics (P : CryptoGlue.Prims) (hS : P.Std) (hO : P.OpenSafe)
    (ct : Bytes) (alg : String) (key : CryptoGlue.Key) (nonce tag ad : Bytes) :
    (CryptoGlue.decryptSymmetric P ct alg key nonce tag ad).isPanic = false := by
  rcases key with ⟨kind, raw⟩
  by_cases hk : kind = .oct
  · subst hk; exact CryptoGlue.decryptSymmetric_oct_np P hS hO ct alg raw nonce tag ad
  · unfold CryptoGlue.decryptSymmetric
    have h : CryptoGlue.keyTypeName (CryptoGlue.Key.mk kind raw).kind ≠ Generated.C03.kind_DecryptSymmetric.1 :=
      CryptoGlue.symmetric_nonoct kind hk
    rw [if_pos h]; rfl

example : CryptoGlue.toyPrims.Std ∧ CryptoGlue.toyPrims.LawfulPrims ∧ CryptoGlue.toyPrims.OpenSafe :=
  ⟨CryptoGlue.toyPrims_ok.1, CryptoGlue.toyPrims_ok.2,
   ⟨fun _ _ _ _ _ => rfl, fun _ _ _ _ _ => rfl, fun _ _ _ _ _ => rfl⟩⟩

/-! ## enc/v1 (C01/C02's instrumented model `KitModel/EncChk.lean`: every index / slice / `make` of the Go
text is an explicit check, `none` = panic; proved equal to the plain model the C01/C02 checks tie to the code) -/

/-- `readHeader` never panics, for every reader script and content (buffer of the regenerated size). -/
theorem enc_readHeader_never_panics (r : Enc.Reader) :
    Enc.Chk.readHeaderO Enc.Gen.bufSize Enc.EncParams.generated r = some (Enc.readHeader Enc.EncParams.generated r) :=
  Enc.C01NoPanic.readHeader_never_panics Enc.Gen.bufSize Enc.EncParams.generated (by decide) r

/-- `Decrypt` (header, manifest, unwrap result of any length, segment loop, `DecryptSegment`) never
panics for any document bytes, any reader script, any options — with the regenerated constants and
the concrete Lean AES-GCM / ChaCha20-Poly1305. -/
theorem enc_decrypt_never_panics (cd : Enc.Codec) (o : Enc.DecryptOpts) (r : Enc.Reader) :
    Enc.Chk.decryptO Enc.Gen.bufSize Enc.Gen.nonceLength Enc.Real.realCrypto cd Enc.EncParams.generated o r =
      some (Enc.decryptImpl Enc.Real.realCrypto cd Enc.EncParams.generated o r) :=
  Enc.C01NoPanic.decrypt_never_panics_real cd o r

/-- the pooled buffer holds a decrypt segment plus the look-ahead byte exactly; the header limit fits -/
theorem enc_buffer_capacity :
    Enc.Gen.decryptSegmentArg + 1 = Enc.Gen.bufSize ∧ Enc.Gen.encryptSegmentArg + 1 ≤ Enc.Gen.bufSize ∧
    Enc.Gen.headerLimit ≤ Enc.Gen.bufSize ∧ Enc.Gen.nonceLength = 12 :=
  Enc.C01NoPanic.buffer_capacity_facts

/-- C04Parser: `getBits`' loop `for i := min; i <= max; i += step` ends (the parser refuses step 0). -/
theorem cron_getBits_loop_terminates (mx step : Nat) (hs : 1 ≤ step) (i : Nat) (bits : BitVec 64) (extra : Nat) :
    Cron.getBitsLoop mx step (mx + 1 - i + extra) i bits = Cron.getBitsLoop mx step (mx + 1 - i) i bits :=
  Cron.getBits_loop_terminates mx step hs i bits extra

/-- The four `aescbcaead` constructors as regenerated by C03's factgen: the AES key has a legal
size (so `aes.NewCipher(encKey)` in `Seal`/`Open` cannot fail and `panic(err)` is dead), the tag
is no longer than the hash output (`h.Sum(nil)[:l]` is in range), and key = MAC key ‖ ENC key. -/
theorem aescbcaead_params_sound :
    Generated.C03.aescbcaeadParams.all (fun p =>
      (p.encKeySize == 16 || p.encKeySize == 24 || p.encKeySize == 32) &&
      decide (p.tagSize ≤ p.hashBits / 8) && decide (0 < p.tagSize) && decide (p.macKeySize = p.tagSize)) = true ∧
    Generated.C03.aescbcaeadParams.length = 4 := by decide

/-- Every theorem the C07 inventory cites from another property's module exists there. -/
theorem cited_elsewhere_exist :
    (NoPanic.Inventory.citedElsewhere.map (·.2)).all
      (· ∈ thm_names% [Kit.Cron.parse_never_panics, Kit.CryptoGlue.unwrap_never_panics,
        Kit.CronSpec.next_terminates, Kit.CryptoGlue.asym_never_panics,
        Kit.C07.encryptSymmetric_never_panics, Kit.C07.decryptSymmetric_never_panics,
        Kit.C07.aeskw_wrap_never_panics, Kit.C07.pad_never_panics, Kit.C07.unpad_never_panics,
        Kit.C07.cbcHmacOpen_never_panics, Kit.C07.cbcHmacSeal_never_panics,
        Kit.C07.aescbcaead_params_sound, Kit.Cron.getBits_loop_terminates,
        Kit.Enc.C01NoPanic.processSegments_never_panics, Kit.Enc.C01NoPanic.readHeader_never_panics,
        Kit.Enc.C01NoPanic.processSegments_terminates, Kit.Enc.C01NoPanic.fill_terminates,
        Kit.Enc.C01NoPanic.readHeader_terminates]) = true := by
  decide +kernel

end Kit.C07
