import KitModel.Pool
import KitModel.Generated.C20
import KitProofs.Lemmas.Pool
/-!
# C20 — context.Pool: done exactly when all members are done (or Cancel), never earlier

Theorems about every reachable state of the transition system `Kit.Pool` (any interleaving of the
watcher goroutine with any number of `Add`/`Cancel`/`Size` callers and context ends, any initial
contexts).  "Member" is the ghost list `State.members`, maintained exactly as the statement
defines it (`members_init`, `members_step`); "Cancel was called" is `State.closed`
(`closed_only_by_cancel`); "tracked" is `State.pool`, what `Size` counts.
-/
namespace Kit.Pool.C20
open Kit.Pool

/-! ## what "member", "Cancel was called" and "tracked" mean -/

/-- Contexts passed at creation are members (also those that had already ended). -/
theorem members_init (cfg : Config) : (init cfg).members = cfg.ctxs := rfl

/-- A context becomes a member exactly when the body of `Add` runs while the pool context is not
done and some member has not ended … -/
theorem members_step_add {s s' : State} {c : Nat} (h : step s .complete = some s')
    (hw : s.writer = some (.add c)) :
    s'.members =
      if s.done = false ∧ ∃ m ∈ s.members, m ∉ s.ended then c :: s.members else s.members := by
  simp only [step, hw] at h
  split at h
  · cases h
  · cases h
    simp only [applyOp, State.hasLiveMember]
    split <;> simp

/-- … and nothing else changes the members (nor `p.pool`, `closed`, the accepted list). -/
theorem members_step_other {s s' : State} {a : Label} (h : step s a = some s')
    (ha : a ≠ .complete) :
    s'.members = s.members ∧ s'.pool = s.pool ∧ s'.closed = s.closed ∧ s'.accepted = s.accepted := by
  cases a <;> simp only [step] at h
  case lockReq op => split at h <;> cases h; simp
  case complete => exact absurd rfl ha
  case size n => split at h <;> cases h; simp
  case endCtx c => cases h; simp
  case poll d => split at h <;> cases h; simp
  case wHead =>
    split at h
    · split at h <;> cases h <;> simp
    · cases h
  case wWake =>
    split at h
    · split at h <;> cases h; simp
    · cases h
  case wRelock =>
    split at h
    · split at h <;> cases h; simp
    · cases h
  case wUnlock => split at h <;> cases h; simp
  case wCancel => split at h <;> cases h; simp

/-- The body of `Cancel` does not change the members. -/
theorem members_step_cancel {s s' : State} (h : step s .complete = some s')
    (hw : s.writer = some .cancel) : s'.members = s.members := by
  simp only [step, hw] at h
  split at h
  · cases h
  · cases h
    simp only [applyOp]
    split <;> rfl

/-- `closed` (and with it `p.pool == nil`) is set by the body of `Cancel` and by nothing else. -/
theorem closed_only_by_cancel {s s' : State} {a : Label} (h : step s a = some s')
    (h0 : s.closed = false) (h1 : s'.closed = true) : a = .complete ∧ s.writer = some .cancel := by
  by_cases ha : a = .complete
  · subst ha
    refine ⟨rfl, ?_⟩
    simp only [step] at h
    split at h
    · cases h
    · rename_i op hw
      split at h
      · cases h
      · cases h
        cases op with
        | cancel => exact hw
        | add c =>
          simp only [applyOp] at h1
          split at h1 <;> simp [h0] at h1
  · have := (members_step_other h ha).2.2.1
    rw [this, h0] at h1
    cases h1

/-! ## never early -/

/-- The pool context is done only if `Cancel` was called or every member — every context passed
at creation, and every context added while the pool was live and some member was live — has ended. -/
theorem never_early {cfg : Config} {s : State} (hr : Reach cfg s) (hd : s.done = true) :
    s.closed = true ∨ ∀ m ∈ s.members, m ∈ s.ended := by
  have hI := inv_of_reach hr
  cases hc : s.closed with
  | true => exact Or.inl rfl
  | false => exact Or.inr (hI.exited hc (Or.inr (Or.inr (hI.done_iff.mp hd))))

/-- Initial contexts in particular. -/
theorem never_early_initial {cfg : Config} {s : State} (hr : Reach cfg s) (hd : s.done = true)
    (hc : s.closed = false) : ∀ c ∈ cfg.ctxs, c ∈ s.ended := by
  intro c hcin
  rcases never_early hr hd with h | h
  · rw [hc] at h; cases h
  · exact h c ((inv_of_reach hr).init_mem c hcin)

/-- While the watcher is in its loop every live member is tracked in `p.pool` (so it will be waited for). -/
theorem live_member_is_tracked {cfg : Config} {s : State} (hr : Reach cfg s) (hc : s.closed = false)
    {m : Nat} (hm : m ∈ s.members) (hl : m ∉ s.ended) : m ∈ s.pool ∧ s.done = false := by
  have hI := inv_of_reach hr
  refine ⟨hI.tracked hc m hm hl, ?_⟩
  cases hd : s.done with
  | false => rfl
  | true =>
    rcases never_early hr hd with h | h
    · rw [hc] at h; cases h
    · exact absurd (h m hm) hl

/-- Non-vacuity: NewPool(ctx1, ctx2) with ctx2 already cancelled, Add(ctx5) while ctx1 is live,
ctx1 ends, ctx5 ends, the watcher finishes: done, not cancelled, members = [5, 1, 2]. -/
def exampleRun : List Label :=
  [.wHead, .lockReq (.add 5), .complete, .endCtx 1, .wWake, .wRelock, .wHead, .endCtx 5, .wWake,
   .wRelock, .wHead, .wUnlock, .wCancel]

def exampleCfg : Config := { ctxs := [1, 2], ended0 := [2] }

def exampleEnd : State :=
  { pool := [1, 5], ended := [5, 1, 2], pc := .finished, writer := none, closed := false, done := true,
    members := [5, 1, 2], accepted := [5] }

theorem exampleRun_ok : run (init exampleCfg) exampleRun = some exampleEnd := by decide

example : ∃ cfg s, Reach cfg s ∧ s.done = true ∧ s.closed = false ∧ s.members ≠ [] :=
  ⟨exampleCfg, exampleEnd, reach_of_run _ _ _ .init exampleRun_ok, rfl, rfl, by decide⟩

/-- The restriction to members matters, and the model has the window the statement allows:
NewPool(ctx1); ctx1 ends; the watcher leaves its loop and releases the read lock; Add(ctx5) gets
the write lock before `cancel()` and appends; the pool is done while ctx5 — tracked by `Size`,
but not a member, since no member was live when it was added — has not ended. -/
def windowEnd : State :=
  { pool := [1, 5], ended := [1], pc := .finished, writer := none, closed := false, done := true,
    members := [1], accepted := [5] }

theorem add_in_exit_window_not_waited_for :
    ∃ cfg s, Reach cfg s ∧ s.done = true ∧ s.closed = false ∧ 5 ∈ s.pool ∧ 5 ∉ s.ended ∧ 5 ∉ s.members :=
  ⟨{ ctxs := [1], ended0 := [] }, windowEnd,
    reach_of_run [.wHead, .endCtx 1, .wWake, .wRelock, .wHead, .wUnlock, .lockReq (.add 5), .complete, .wCancel]
      _ _ .init (by decide),
    rfl, rfl, by decide, by decide, by decide⟩

/-! ## eventually done -/

/-- Internal progress: in every reachable state in which `Cancel` has run, or every tracked
context has ended (and no `Add` of a still-live context is already inside `Lock()`), some
sequence of internal steps — watcher steps and the completion of the writer already inside
`Lock()`; no new call, no context end — leads to a state in which the pool context is done. -/
theorem eventually_done {cfg : Config} {s : State} (hr : Reach cfg s) (hS : Settled s) :
    ∃ s', InternalPath s s' ∧ s'.done = true :=
  path_of_settled hr hS

theorem eventually_done_after_cancel {cfg : Config} {s : State} (hr : Reach cfg s)
    (hc : s.closed = true) : ∃ s', InternalPath s s' ∧ s'.done = true :=
  eventually_done hr (Or.inl hc)

theorem eventually_done_all_ended {cfg : Config} {s : State} (hr : Reach cfg s)
    (hw : s.writer = none) (hall : ∀ c ∈ s.pool, c ∈ s.ended) :
    ∃ s', InternalPath s s' ∧ s'.done = true :=
  eventually_done hr (Or.inr ⟨hall, by intro c h; rw [hw] at h; cases h⟩)

/-- The liveness half in the statement's own terms: when every member has ended and the pool
tracks nothing but members (no `Add` slipped in after the last member ended, see
`racing_add_may_be_tracked`), internal steps lead to done. -/
theorem eventually_done_members {cfg : Config} {s : State} (hr : Reach cfg s)
    (hw : s.writer = none) (hm : ∀ m ∈ s.members, m ∈ s.ended) (hp : ∀ c ∈ s.pool, c ∈ s.members) :
    ∃ s', InternalPath s s' ∧ s'.done = true :=
  eventually_done_all_ended hr hw (fun c hc => hm c (hp c hc))

/-- A pool created with no live context is done after internal steps alone. -/
theorem eventually_done_empty (cfg : Config) (h : ∀ c ∈ cfg.ctxs, c ∈ cfg.ended0) :
    ∃ s', InternalPath (init cfg) s' ∧ s'.done = true := by
  apply eventually_done_all_ended (cfg := cfg) .init rfl
  intro c hc
  simp [init, initLive] at hc
  exact absurd (h c hc.1) hc.2

/-- Non-vacuity: a reachable, settled, not yet done state with a writer inside `Lock()`
(NewPool(ctx1, ctx2), ctx2 cancelled before; ctx1 ends; `Add(ctx2)` announced while the watcher
is parked after its select). -/
example : ∃ cfg s, Reach cfg s ∧ Settled s ∧ s.done = false ∧ s.writer ≠ none :=
  ⟨exampleCfg,
    { pool := [1], ended := [1, 2], pc := .woken 0, writer := some (.add 2), closed := false,
      done := false, members := [1, 2], accepted := [] },
    reach_of_run [.wHead, .endCtx 1, .wWake, .lockReq (.add 2)] _ _ .init (by decide),
    Or.inr ⟨by decide, by intro c h; cases h; decide⟩, rfl, by decide⟩

/-- The reading of "member" in the liveness half matters.  An `Add` that takes the write lock
after the last member ended but before the watcher re-acquired the read lock (hook point
`pool.watch.afterWait`) is *tracked*: every member in the sense of the statement has ended, yet
no internal step leads to done until the late context ends too.  (`eventually_done` is therefore
stated over the tracked contexts, `never_early` over the members.) -/
def lateAdd : State :=
  { pool := [1, 5], ended := [1], pc := .waiting 1 5, writer := none, closed := false, done := false,
    members := [1], accepted := [5] }

theorem racing_add_may_be_tracked :
    ∃ cfg s, Reach cfg s ∧ s.closed = false ∧ (∀ m ∈ s.members, m ∈ s.ended) ∧
      ¬ ∃ s', InternalPath s s' ∧ s'.done = true := by
  refine ⟨{ ctxs := [1], ended0 := [] }, lateAdd,
    reach_of_run [.wHead, .endCtx 1, .wWake, .lockReq (.add 5), .complete, .wRelock, .wHead]
      _ _ .init (by decide), rfl, by decide, ?_⟩
  rintro ⟨s', hp, hd⟩
  cases hp with
  | refl => cases hd
  | step hi hs _ =>
    rename_i a _
    cases a <;> simp [Label.isInternal, Label.isWatcher] at hi <;> simp [step, lateAdd] at hs

/-! ## contexts offered after the pool ended are ignored -/

/-- `Add` on a pool whose context is done returns (it never blocks: the watcher is gone) and
changes nothing — not the tracked contexts, not the members. -/
theorem add_after_done_ignored {cfg : Config} {s : State} {c : Nat} (hr : Reach cfg s)
    (hd : s.done = true) (hw : s.writer = some (.add c)) :
    step s .complete = some { s with writer := none } := by
  have hI := inv_of_reach hr
  have hpc := hI.done_iff.mp hd
  simp [step, hw, hpc, PC.holdsRead, applyOp, hd]

/-- Same after `Cancel`, even before the watcher has cancelled the pool context: `Size`, the
watcher and the pool context are unaffected. -/
theorem add_after_cancel_ignored {s s' : State} {c : Nat} (hc : s.closed = true)
    (hw : s.writer = some (.add c)) (h : step s .complete = some s') :
    s'.pool = s.pool ∧ s'.pc = s.pc ∧ s'.done = s.done ∧ s'.closed = true ∧ s'.accepted = s.accepted := by
  simp only [step, hw] at h
  split at h
  · cases h
  · cases h
    simp [applyOp, hc]

/-- Once done, always done. -/
theorem done_stable {s s' : State} {a : Label} (h : step s a = some s') (hd : s.done = true) :
    s'.done = true := by
  cases a <;> simp only [step] at h
  case lockReq op => split at h <;> cases h; exact hd
  case complete =>
    split at h
    · cases h
    · rename_i op _
      split at h
      · cases h
      · cases h
        cases op with
        | cancel => simp only [applyOp]; split <;> exact hd
        | add c => simp only [applyOp]; split <;> exact hd
  case size n => split at h <;> cases h; exact hd
  case endCtx c => cases h; exact hd
  case poll d => split at h <;> cases h; exact hd
  case wHead =>
    split at h
    · split at h <;> cases h <;> exact hd
    · cases h
  case wWake =>
    split at h
    · split at h <;> cases h; exact hd
    · cases h
  case wRelock =>
    split at h
    · split at h <;> cases h; exact hd
    · cases h
  case wUnlock => split at h <;> cases h; exact hd
  case wCancel => split at h <;> cases h; rfl

example : ∃ cfg s, Reach cfg s ∧ s.done = true ∧ s.writer = some (.add 7) :=
  ⟨exampleCfg, { exampleEnd with writer := some (.add 7) },
    reach_of_run (exampleRun ++ [.lockReq (.add 7)]) _ _ .init (by decide), rfl, rfl⟩

/-! ## Size -/

/-- `Size()` changes nothing and returns the number of tracked contexts: the contexts that were
live at creation plus those appended by `Add` (`accepted`), and 0 once `Cancel` has run. -/
theorem size_spec {cfg : Config} {s s' : State} {n : Nat} (hr : Reach cfg s)
    (h : step s (.size n) = some s') :
    s' = s ∧ n = s.pool.length ∧
      n = if s.closed then 0 else (initLive cfg).length + s.accepted.length := by
  have hI := inv_of_reach hr
  simp only [step] at h
  split at h
  · rename_i hcond
    cases h
    simp at hcond
    refine ⟨rfl, hcond.2, ?_⟩
    cases hc : s.closed with
    | true => simp [hcond.2, hI.closed_pool hc]
    | false => simp [hcond.2, hI.pool_eq hc]
  · cases h

/-- `accepted` grows exactly when the body of `Add` runs on a pool that is neither done nor
cancelled (for all other steps see `members_step_other`). -/
theorem accepted_step_add {s s' : State} {c : Nat} (h : step s .complete = some s')
    (hw : s.writer = some (.add c)) :
    s'.accepted = if s.done = false ∧ s.closed = false then s.accepted ++ [c] else s.accepted := by
  simp only [step, hw] at h
  split at h
  · cases h
  · cases h
    simp only [applyOp]
    cases s.done <;> cases s.closed <;> simp

theorem size_zero_after_cancel {cfg : Config} {s s' : State} {n : Nat} (hr : Reach cfg s)
    (hc : s.closed = true) (h : step s (.size n) = some s') : n = 0 := by
  have := (size_spec hr h).2.2
  simpa [hc] using this

/-- `Size()` is enabled (returns) whenever no writer is inside `Lock()`. -/
theorem size_enabled {s : State} (hw : s.writer = none) : step s (.size s.pool.length) = some s := by
  simp [step, hw]

example : ∃ cfg s n, Reach cfg s ∧ step s (.size n) = some s ∧ n = 2 :=
  ⟨exampleCfg, exampleEnd, 2, reach_of_run _ _ _ .init exampleRun_ok, by decide, rfl⟩

/-! ## the watcher ends with the pool -/

/-- The watcher goroutine has ended exactly when the pool context is done, and an ended watcher
takes no further step (with `eventually_done`: it does end once the pool is settled). -/
theorem watcher_exits_with_pool {cfg : Config} {s : State} (hr : Reach cfg s) :
    (s.done = true ↔ s.pc = .finished) ∧
      (s.pc = .finished → ∀ a : Label, a.isWatcher = true → step s a = none) := by
  refine ⟨(inv_of_reach hr).done_iff, ?_⟩
  intro hpc a ha
  cases a <;> simp [Label.isWatcher] at ha <;> simp [step, hpc]

/-- The watcher never blocks for ever on the lock: whenever it wants the read lock (`woken`) and a
writer is inside `Lock()`, that writer can complete, after which `wRelock` is enabled. -/
theorem watcher_relock_not_stuck {s : State} {i : Nat} {op : WOp} (hpc : s.pc = .woken i)
    (hw : s.writer = some op) :
    ∃ s1 s2, step s .complete = some s1 ∧ step s1 .wRelock = some s2 ∧ s2.pc = .head (i + 1) := by
  have hpw : ∀ t : State, (applyOp t op).pc = t.pc ∧ (applyOp t op).writer = t.writer := by
    intro t
    cases op with
    | cancel => simp only [applyOp]; split <;> exact ⟨rfl, rfl⟩
    | add c => simp only [applyOp]; split <;> exact ⟨rfl, rfl⟩
  have h1 := hpw { s with writer := none }
  refine ⟨applyOp { s with writer := none } op,
    { applyOp { s with writer := none } op with pc := .head (i + 1) }, ?_, ?_, rfl⟩
  · simp [step, hw, hpc, PC.holdsRead]
  · have relock : ∀ t : State, t.pc = .woken i → t.writer = none →
        step t .wRelock = some { t with pc := .head (i + 1) } := by
      intro t h2 h3; simp [step, h2, h3]
    exact relock _ (h1.1.trans hpc) h1.2

/-- A writer inside `Lock()` is never blocked for ever by the watcher: from every lock-holding
watcher state one or two watcher steps release the read lock. -/
theorem writer_not_stuck {s : State} (hh : s.pc.holdsRead = true) :
    ∃ s1, step s .wHead = some s1 ∧ (s1.pc.holdsRead = false ∨ ∃ s2, step s1 .wUnlock = some s2 ∧ s2.pc.holdsRead = false)
      ∨ ∃ s2, step s .wUnlock = some s2 ∧ s2.pc.holdsRead = false := by
  cases hpc : s.pc <;> simp [hpc, PC.holdsRead] at hh
  · rename_i i
    cases hget : s.pool[i]? with
    | some c => exact ⟨_, Or.inl ⟨by simp [step, hpc, hget]; rfl, Or.inl rfl⟩⟩
    | none =>
      exact ⟨{ s with pc := .exiting }, Or.inl ⟨by simp [step, hpc, hget], Or.inr ⟨{ s with pc := .released }, by simp [step], rfl⟩⟩⟩
  · exact ⟨s, Or.inr ⟨{ s with pc := .released }, by simp [step, hpc], rfl⟩⟩

/-! ## the driver's simulation is sound -/

/-- Every state `kitdrv C20` holds after any sequence of events is a reachable state of the
model, so all theorems above apply to it. -/
theorem sim_sound (cfg : Config) (evs : List Event) :
    ∀ s ∈ (evs.foldl advance (Sim.start cfg)).states, Reach cfg s := by
  have : ∀ (evs : List Event) (sim : Sim), AllReach cfg sim.states →
      AllReach cfg (evs.foldl advance sim).states := by
    intro evs
    induction evs with
    | nil => intro sim h; exact h
    | cons e es ih => intro sim h; exact ih _ (allReach_advance sim e h)
  exact this evs _ (allReach_start cfg)

/-! ## T1: the source shape the model was written from

`KitModel/Generated/C20.lean` is regenerated from `/repo/context/pool.go` on every run.  Each
theorem below fixes one piece of that shape and names the part of `Kit.Pool` it justifies; when
pool.go changes shape the theorem no longer checks and the tie is reported as broken. -/
section T1
open Kit.Generated.C20

/-- `closed`, `pool`, one `sync.RWMutex`, the embedded pool context: the components of `State`. -/
theorem t1_fields : poolFields =
    ["embedded context.Context", "closed chan struct{}", "pool []<-chan struct{}", "lock sync.RWMutex"] := by
  decide

/-- `init`: `p.pool` is a non-nil slice of the contexts not yet done (`initLive`), and the read
lock is taken by `NewPool` itself right before `go` (`pc = head 0` holds the lock). -/
theorem t1_new_pool : newPoolBeforeGo =
    ["callee, cancel := context.WithCancel(context.Background())",
     "p := &Pool{Context: callee, pool: make([]<-chan struct{}, 0, len(ctx)), closed: make(chan struct{})}",
     "for i := range ctx { select { case <-ctx[i].Done():  | default: p.pool = append(p.pool, ctx[i].Done()) } }",
     "p.lock.RLock()"] ∧ newPoolAfterGo = ["return p"] := by
  decide

/-- Defers run last-in-first-out: `RUnlock` (`wUnlock`), the hook (`released`), `cancel()` (`wCancel`). -/
theorem t1_watcher_exit_order : watcherDefers.reverse =
    ["p.lock.RUnlock()", "verifhook.Point(\"pool.watch.beforeCancel\")", "cancel()"] := by
  decide

/-- The loop: condition and `ch := p.pool[i]` under the read lock, `RUnlock` (`wHead`); the
two-case select (`wWake`); the hook (`woken i`); `RLock`, `i++` (`wRelock`). -/
theorem t1_watcher_loop : watcherLoop =
    ["for i := 0; i < len(p.pool); i++",
     "ch := p.pool[i]",
     "p.lock.RUnlock()",
     "select { case <-ch:  | case <-p.closed:  }",
     "verifhook.Point(\"pool.watch.afterWait\", i)",
     "p.lock.RLock()"] := by
  decide

/-- `applyOp (.add c)`: whole body under the write lock; ignored iff the pool context or `closed` is done. -/
theorem t1_add : addBody =
    ["p.lock.Lock()",
     "defer p.lock.Unlock()",
     "select { case <-p.Done():  | case <-p.closed:  | default: p.pool = append(p.pool, ctx.Done()) }",
     "return p"] := by
  decide

/-- `applyOp .cancel`: whole body under the write lock; `closed` is closed once, guarded by `p.pool != nil`. -/
theorem t1_cancel : cancelBody =
    ["p.lock.Lock()", "defer p.lock.Unlock()", "if p.pool != nil { close(p.closed); p.pool = nil }"] := by
  decide

/-- `size n`: `len(p.pool)` under the read lock. -/
theorem t1_size : sizeBody =
    ["p.lock.RLock()", "defer p.lock.RUnlock()", "return len(p.pool)"] := by
  decide

end T1

end Kit.Pool.C20
