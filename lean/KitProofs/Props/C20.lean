import KitModel.Pool
import KitModel.Generated.C20
import KitProofs.Lemmas.Pool
import KitModel.PoolAdd
import KitProofs.Lemmas.PoolAdd
/-!
# C20 — context.Pool: done exactly when all members are done (or Cancel), never earlier

Theorems about every reachable state of the transition system `Kit.Pool` (any interleaving of the
watcher goroutine with any number of `Add`/`Cancel`/`Size` callers and context ends, any initial
contexts), for the code after `fix: context.Pool.Add ignores a context when every context in the
pool is already done` (`Version.fixed`).  "Member" is the ghost list `State.members`, maintained
exactly as the statement defines it (`members_init`, `members_step_add`, `members_step_other`);
"Cancel was called" is `State.closed` (`closed_only_by_cancel`); "tracked" is `State.pool`, what
`Size` counts.  The liveness theorems (`eventually_done*`, `writer_not_stuck`,
`watcher_relock_not_stuck`) are ∃-path statements: they exhibit a finite sequence of internal
steps, they do not prove fairness of the Go scheduler.  The code as found (`Version.orig`)
falsifies the liveness half: `late_add_tracked_witness`, `eventually_done_fails_before_fix`.
-/
namespace Kit.Pool.C20
open Kit.Pool

/-! ## what "member", "Cancel was called" and "tracked" mean -/

/-- Contexts passed at creation are members (also those that had already ended). -/
theorem members_init (cfg : Config) : (init cfg).members = cfg.ctxs := rfl

/-- A context becomes a member exactly when the body of `Add` runs while the pool context is not
done and some member has not ended … -/
theorem members_step_add {s s' : State} {c : Nat} (h : step .fixed s .complete = some s')
    (hw : s.writer = some (.add c)) :
    s'.members =
      if s.done = false ∧ ∃ m ∈ s.members, m ∉ s.ended then c :: s.members else s.members := by
  simp only [step, hw] at h
  split at h
  · cases h
  · cases h
    simp only [applyOp, State.hasLiveMember]
    split <;> simp

/-- … and nothing else changes the members (nor `p.pool`, `closed`, the accepted list). -/
theorem members_step_other {s s' : State} {a : Label} (h : step .fixed s a = some s')
    (ha : a ≠ .complete) :
    s'.members = s.members ∧ s'.pool = s.pool ∧ s'.closed = s.closed ∧ s'.accepted = s.accepted := by
  cases a <;> simp only [step] at h
  case lockReq op => split at h <;> cases h; simp
  case complete => exact absurd rfl ha
  case size n => split at h <;> cases h; simp
  case endCtx c => cases h; simp
  case poll d => split at h <;> cases h; simp
  case wHead =>
    split at h
    · split at h <;> cases h <;> simp
    · cases h
  case wWake =>
    split at h
    · split at h <;> cases h; simp
    · cases h
  case wRelock =>
    split at h
    · split at h <;> cases h; simp
    · cases h
  case wUnlock => split at h <;> cases h; simp
  case wCancel => split at h <;> cases h; simp

/-- The body of `Cancel` does not change the members. -/
theorem members_step_cancel {s s' : State} (h : step .fixed s .complete = some s')
    (hw : s.writer = some .cancel) : s'.members = s.members := by
  simp only [step, hw] at h
  split at h
  · cases h
  · cases h
    simp only [applyOp]
    split <;> rfl

/-- `closed` (and with it `p.pool == nil`) is set by the body of `Cancel` and by nothing else. -/
theorem closed_only_by_cancel {s s' : State} {a : Label} (h : step .fixed s a = some s')
    (h0 : s.closed = false) (h1 : s'.closed = true) : a = .complete ∧ s.writer = some .cancel := by
  by_cases ha : a = .complete
  · subst ha
    refine ⟨rfl, ?_⟩
    simp only [step] at h
    split at h
    · cases h
    · rename_i op hw
      split at h
      · cases h
      · cases h
        cases op with
        | cancel => exact hw
        | add c =>
          simp only [applyOp] at h1
          split at h1 <;> simp [h0] at h1
  · have := (members_step_other h ha).2.2.1
    rw [this, h0] at h1
    cases h1

/-! ## never early -/

/-- The pool context is done only if `Cancel` was called or every member — every context passed
at creation, and every context added while the pool was live and some member was live — has ended. -/
theorem never_early {cfg : Config} {s : State} (hr : Reach .fixed cfg s) (hd : s.done = true) :
    s.closed = true ∨ ∀ m ∈ s.members, m ∈ s.ended := by
  have hI := inv_of_reach hr
  cases hc : s.closed with
  | true => exact Or.inl rfl
  | false => exact Or.inr (hI.exited hc (Or.inr (Or.inr (hI.done_iff.mp hd))))

/-- Initial contexts in particular. -/
theorem never_early_initial {cfg : Config} {s : State} (hr : Reach .fixed cfg s) (hd : s.done = true)
    (hc : s.closed = false) : ∀ c ∈ cfg.ctxs, c ∈ s.ended := by
  intro c hcin
  rcases never_early hr hd with h | h
  · rw [hc] at h; cases h
  · exact h c ((inv_of_reach hr).init_mem c hcin)

/-- While the watcher is in its loop every live member is tracked in `p.pool` (so it will be waited for). -/
theorem live_member_is_tracked {cfg : Config} {s : State} (hr : Reach .fixed cfg s) (hc : s.closed = false)
    {m : Nat} (hm : m ∈ s.members) (hl : m ∉ s.ended) : m ∈ s.pool ∧ s.done = false := by
  have hI := inv_of_reach hr
  refine ⟨hI.tracked hc m hm hl, ?_⟩
  cases hd : s.done with
  | false => rfl
  | true =>
    rcases never_early hr hd with h | h
    · rw [hc] at h; cases h
    · exact absurd (h m hm) hl

/-- Non-vacuity: NewPool(ctx1, ctx2) with ctx2 already cancelled, Add(ctx5) while ctx1 is live,
ctx1 ends, ctx5 ends, the watcher finishes: done, not cancelled, members = [5, 1, 2]. -/
def exampleRun : List Label :=
  [.wHead, .lockReq (.add 5), .complete, .endCtx 1, .wWake, .wRelock, .wHead, .endCtx 5, .wWake,
   .wRelock, .wHead, .wUnlock, .wCancel]

def exampleCfg : Config := { ctxs := [1, 2], ended0 := [2] }

def exampleEnd : State :=
  { pool := [1, 5], ended := [5, 1, 2], pc := .finished, writer := none, closed := false, done := true,
    members := [5, 1, 2], accepted := [5] }

theorem exampleRun_ok : run .fixed (init exampleCfg) exampleRun = some exampleEnd := by decide

example : ∃ cfg s, Reach .fixed cfg s ∧ s.done = true ∧ s.closed = false ∧ s.members ≠ [] :=
  ⟨exampleCfg, exampleEnd, reach_of_run _ _ _ .init exampleRun_ok, rfl, rfl, by decide⟩

/-- Every tracked context is a member: the repaired `Add` appends only while some tracked
context is live, and that context is (inductively) a member, so the statement's condition "added
while the pool was still live and some member was still live" holds for everything in `p.pool`. -/
theorem tracked_are_members {cfg : Config} {s : State} (hr : Reach .fixed cfg s) :
    ∀ c ∈ s.pool, c ∈ s.members :=
  pm_of_reach hr

/-- Hence: when the pool context is done and `Cancel` was not called, every tracked context has
ended — no context is counted by `Size` but not waited for. -/
theorem done_all_tracked_ended {cfg : Config} {s : State} (hr : Reach .fixed cfg s)
    (hd : s.done = true) (hc : s.closed = false) : ∀ c ∈ s.pool, c ∈ s.ended := by
  intro c hcp
  rcases never_early hr hd with h | h
  · rw [hc] at h; cases h
  · exact h c (tracked_are_members hr c hcp)

/-- Before the fix: NewPool(ctx1); ctx1 ends; the watcher leaves its loop and releases the read
lock; Add(ctx5) gets the write lock before `cancel()` and appends; the pool is done while ctx5 —
counted by `Size`, not a member — has not ended. -/
def windowEnd : State :=
  { pool := [1, 5], ended := [1], pc := .finished, writer := none, closed := false, done := true,
    members := [1], accepted := [5] }

theorem exit_window_witness_before_fix :
    ∃ cfg s, Reach .orig cfg s ∧ s.done = true ∧ s.closed = false ∧ 5 ∈ s.pool ∧ 5 ∉ s.ended ∧ 5 ∉ s.members :=
  ⟨{ ctxs := [1], ended0 := [] }, windowEnd,
    reach_of_run [.wHead, .endCtx 1, .wWake, .wRelock, .wHead, .wUnlock, .lockReq (.add 5), .complete, .wCancel]
      _ _ .init (by decide),
    rfl, rfl, by decide, by decide, by decide⟩

/-! ## eventually done -/

/-- The liveness half as the statement has it: in every reachable state in which `Cancel` was
called or every member has ended, some sequence of internal steps — watcher steps and the
completion of the writer already inside `Lock()`; no new call, no context end — leads to a state
in which the pool context is done. -/
def eventually_done_statement (v : Version) : Prop :=
  ∀ (cfg : Config) (s : State), Reach v cfg s →
    (s.closed = true ∨ ∀ m ∈ s.members, m ∈ s.ended) →
    ∃ s', InternalPath v s s' ∧ s'.done = true

/-- It holds for the repaired code (∃-path statement; measure `len(p.pool) − i`).  Whatever writer
is inside `Lock()` does not matter: a pending `Add` finds no live context and is ignored. -/
theorem eventually_done : eventually_done_statement .fixed :=
  fun _ _ hr hS => path_of_settled hr hS

theorem eventually_done_after_cancel {cfg : Config} {s : State} (hr : Reach .fixed cfg s)
    (hc : s.closed = true) : ∃ s', InternalPath .fixed s s' ∧ s'.done = true :=
  eventually_done cfg s hr (Or.inl hc)

theorem eventually_done_members_ended {cfg : Config} {s : State} (hr : Reach .fixed cfg s)
    (hm : ∀ m ∈ s.members, m ∈ s.ended) : ∃ s', InternalPath .fixed s s' ∧ s'.done = true :=
  eventually_done cfg s hr (Or.inr hm)

/-- A pool created with no live context is done after internal steps alone. -/
theorem eventually_done_empty (cfg : Config) (h : ∀ c ∈ cfg.ctxs, c ∈ cfg.ended0) :
    ∃ s', InternalPath .fixed (init cfg) s' ∧ s'.done = true :=
  eventually_done cfg (init cfg) .init (Or.inr h)

/-- Non-vacuity: a reachable, not yet done state in which every member has ended while an
`Add` of a *live* context is already inside `Lock()` (NewPool(ctx1, ctx2), ctx2 cancelled before;
ctx1 ends; `Add(ctx9)` announced while the watcher is parked after its select). -/
example : ∃ cfg s, Reach .fixed cfg s ∧ (∀ m ∈ s.members, m ∈ s.ended) ∧ s.done = false ∧
    s.writer = some (.add 9) ∧ 9 ∉ s.ended :=
  ⟨exampleCfg,
    { pool := [1], ended := [1, 2], pc := .woken 0, writer := some (.add 9), closed := false,
      done := false, members := [1, 2], accepted := [] },
    reach_of_run [.wHead, .endCtx 1, .wWake, .lockReq (.add 9)] _ _ .init (by decide),
    by decide, rfl, rfl, by decide⟩

/-- The code as found falsifies the statement.  NewPool(ctx1); ctx1 ends; the watcher's select
returns (hook point `pool.watch.afterWait`) but it has not re-acquired the read lock; `Add(ctx5)`,
ctx5 live, takes the write lock and appends although every context of the pool is done; the
watcher then waits for ctx5.  Every member has ended, `Cancel` was not called, and no internal
step is enabled.  (Replayed on the real code by the harness: finding
`late-add-tracked-after-members-ended`.) -/
def lateAdd : State :=
  { pool := [1, 5], ended := [1], pc := .waiting 1 5, writer := none, closed := false, done := false,
    members := [1], accepted := [5] }

theorem late_add_tracked_witness :
    ∃ cfg s, Reach .orig cfg s ∧ s.closed = false ∧ (∀ m ∈ s.members, m ∈ s.ended) ∧
      ¬ ∃ s', InternalPath .orig s s' ∧ s'.done = true := by
  refine ⟨{ ctxs := [1], ended0 := [] }, lateAdd,
    reach_of_run [.wHead, .endCtx 1, .wWake, .lockReq (.add 5), .complete, .wRelock, .wHead]
      _ _ .init (by decide), rfl, by decide, ?_⟩
  rintro ⟨s', hp, hd⟩
  cases hp with
  | refl => cases hd
  | step hi hs _ =>
    rename_i a _
    cases a <;> simp [Label.isInternal, Label.isWatcher] at hi <;> simp [step, lateAdd] at hs

theorem eventually_done_fails_before_fix : ¬ eventually_done_statement .orig := by
  intro h
  obtain ⟨cfg, s, hr, _, hm, hno⟩ := late_add_tracked_witness
  exact hno (h cfg s hr (Or.inr hm))

/-- The same schedule on the repaired code: the late `Add` is ignored. -/
theorem late_add_ignored_after_fix :
    run .fixed (init { ctxs := [1], ended0 := [] })
      [.wHead, .endCtx 1, .wWake, .lockReq (.add 5), .complete, .wRelock, .wHead, .wUnlock, .wCancel] =
    some { pool := [1], ended := [1], pc := .finished, writer := none, closed := false, done := true,
           members := [1], accepted := [] } := by
  decide

/-! ## contexts offered after the pool ended are ignored -/

/-- `Add` on a pool whose context is done returns (it never blocks: the watcher is gone) and
changes nothing — not the tracked contexts, not the members. -/
theorem add_after_done_ignored {cfg : Config} {s : State} {c : Nat} (hr : Reach .fixed cfg s)
    (hd : s.done = true) (hw : s.writer = some (.add c)) :
    step .fixed s .complete = some { s with writer := none } := by
  have hI := inv_of_reach hr
  have hpc := hI.done_iff.mp hd
  simp [step, hw, hpc, PC.holdsRead, applyOp, State.addIgnored, hd]

/-- Same after `Cancel`, even before the watcher has cancelled the pool context: `Size`, the
watcher and the pool context are unaffected. -/
theorem add_after_cancel_ignored {s s' : State} {c : Nat} (hc : s.closed = true)
    (hw : s.writer = some (.add c)) (h : step .fixed s .complete = some s') :
    s'.pool = s.pool ∧ s'.pc = s.pc ∧ s'.done = s.done ∧ s'.closed = true ∧ s'.accepted = s.accepted := by
  simp only [step, hw] at h
  split at h
  · cases h
  · cases h
    simp [applyOp, State.addIgnored, hc]

/-- "The context is ignored … if all current contexts in the pool are done": when no tracked
context is live the body of `Add` changes neither `p.pool` nor anything the watcher reads. -/
theorem add_when_all_done_ignored {s s' : State} {c : Nat} (hall : ∀ x ∈ s.pool, x ∈ s.ended)
    (hw : s.writer = some (.add c)) (h : step .fixed s .complete = some s') :
    s'.pool = s.pool ∧ s'.pc = s.pc ∧ s'.done = s.done ∧ s'.closed = s.closed ∧ s'.accepted = s.accepted := by
  simp only [step, hw] at h
  split at h
  · cases h
  · cases h
    have hal : State.anyLive { s with writer := none } = false := by
      simp only [State.anyLive, List.any_eq_false, decide_eq_true_eq]
      intro x hx hne
      exact hne (hall x hx)
    simp [applyOp, State.addIgnored, hal]

/-- Once done, always done. -/
theorem done_stable {s s' : State} {a : Label} (h : step .fixed s a = some s') (hd : s.done = true) :
    s'.done = true := by
  cases a <;> simp only [step] at h
  case lockReq op => split at h <;> cases h; exact hd
  case complete =>
    split at h
    · cases h
    · rename_i op _
      split at h
      · cases h
      · cases h
        cases op with
        | cancel => simp only [applyOp]; split <;> exact hd
        | add c => simp only [applyOp]; split <;> exact hd
  case size n => split at h <;> cases h; exact hd
  case endCtx c => cases h; exact hd
  case poll d => split at h <;> cases h; exact hd
  case wHead =>
    split at h
    · split at h <;> cases h <;> exact hd
    · cases h
  case wWake =>
    split at h
    · split at h <;> cases h; exact hd
    · cases h
  case wRelock =>
    split at h
    · split at h <;> cases h; exact hd
    · cases h
  case wUnlock => split at h <;> cases h; exact hd
  case wCancel => split at h <;> cases h; rfl

example : ∃ cfg s, Reach .fixed cfg s ∧ s.done = true ∧ s.writer = some (.add 7) :=
  ⟨exampleCfg, { exampleEnd with writer := some (.add 7) },
    reach_of_run (exampleRun ++ [.lockReq (.add 7)]) _ _ .init (by decide), rfl, rfl⟩

/-! ## Size -/

/-- `Size()` changes nothing and returns the number of tracked contexts: the contexts that were
live at creation plus those appended by `Add` (`accepted`), and 0 once `Cancel` has run. -/
theorem size_spec {cfg : Config} {s s' : State} {n : Nat} (hr : Reach .fixed cfg s)
    (h : step .fixed s (.size n) = some s') :
    s' = s ∧ n = s.pool.length ∧
      n = if s.closed then 0 else (initLive cfg).length + s.accepted.length := by
  have hI := inv_of_reach hr
  simp only [step] at h
  split at h
  · rename_i hcond
    cases h
    simp at hcond
    refine ⟨rfl, hcond.2, ?_⟩
    cases hc : s.closed with
    | true => simp [hcond.2, hI.closed_pool hc]
    | false => simp [hcond.2, hI.pool_eq hc]
  · cases h

/-- `accepted` grows exactly when the body of `Add` runs on a pool that is neither done nor
cancelled and still tracks a live context (for all other steps see `members_step_other`). -/
theorem accepted_step_add {s s' : State} {c : Nat} (h : step .fixed s .complete = some s')
    (hw : s.writer = some (.add c)) :
    s'.accepted =
      if s.done = false ∧ s.closed = false ∧ s.anyLive = true then s.accepted ++ [c] else s.accepted := by
  simp only [step, hw] at h
  split at h
  · cases h
  · cases h
    have hal : State.anyLive { s with writer := none } = s.anyLive := rfl
    simp only [applyOp, State.addIgnored, hal]
    cases s.done <;> cases s.closed <;> cases s.anyLive <;> simp

theorem size_zero_after_cancel {cfg : Config} {s s' : State} {n : Nat} (hr : Reach .fixed cfg s)
    (hc : s.closed = true) (h : step .fixed s (.size n) = some s') : n = 0 := by
  have := (size_spec hr h).2.2
  simpa [hc] using this

/-- `Size()` is enabled (returns) whenever no writer is inside `Lock()`. -/
theorem size_enabled {s : State} (hw : s.writer = none) : step .fixed s (.size s.pool.length) = some s := by
  simp [step, hw]

example : ∃ cfg s n, Reach .fixed cfg s ∧ step .fixed s (.size n) = some s ∧ n = 2 :=
  ⟨exampleCfg, exampleEnd, 2, reach_of_run _ _ _ .init exampleRun_ok, by decide, rfl⟩

/-! ## the watcher ends with the pool -/

/-- The watcher goroutine has ended exactly when the pool context is done, and an ended watcher
takes no further step .fixed (with `eventually_done`: it does end once the pool is settled). -/
theorem watcher_exits_with_pool {cfg : Config} {s : State} (hr : Reach .fixed cfg s) :
    (s.done = true ↔ s.pc = .finished) ∧
      (s.pc = .finished → ∀ a : Label, a.isWatcher = true → step .fixed s a = none) := by
  refine ⟨(inv_of_reach hr).done_iff, ?_⟩
  intro hpc a ha
  cases a <;> simp [Label.isWatcher] at ha <;> simp [step, hpc]

/-- The watcher never blocks for ever on the lock: whenever it wants the read lock (`woken`) and a
writer is inside `Lock()`, that writer can complete, after which `wRelock` is enabled. -/
theorem watcher_relock_not_stuck {s : State} {i : Nat} {op : WOp} (hpc : s.pc = .woken i)
    (hw : s.writer = some op) :
    ∃ s1 s2, step .fixed s .complete = some s1 ∧ step .fixed s1 .wRelock = some s2 ∧ s2.pc = .head (i + 1) := by
  have hpw : ∀ t : State, (applyOp .fixed t op).pc = t.pc ∧ (applyOp .fixed t op).writer = t.writer := by
    intro t
    cases op with
    | cancel => simp only [applyOp]; split <;> exact ⟨rfl, rfl⟩
    | add c => simp only [applyOp]; split <;> exact ⟨rfl, rfl⟩
  have h1 := hpw { s with writer := none }
  refine ⟨applyOp .fixed { s with writer := none } op,
    { applyOp .fixed { s with writer := none } op with pc := .head (i + 1) }, ?_, ?_, rfl⟩
  · simp [step, hw, hpc, PC.holdsRead]
  · have relock : ∀ t : State, t.pc = .woken i → t.writer = none →
        step .fixed t .wRelock = some { t with pc := .head (i + 1) } := by
      intro t h2 h3; simp [step, h2, h3]
    exact relock _ (h1.1.trans hpc) h1.2

/-- A writer inside `Lock()` is never blocked for ever by the watcher: from every lock-holding
watcher state one or two watcher steps release the read lock. -/
theorem writer_not_stuck {s : State} (hh : s.pc.holdsRead = true) :
    ∃ s1, step .fixed s .wHead = some s1 ∧ (s1.pc.holdsRead = false ∨ ∃ s2, step .fixed s1 .wUnlock = some s2 ∧ s2.pc.holdsRead = false)
      ∨ ∃ s2, step .fixed s .wUnlock = some s2 ∧ s2.pc.holdsRead = false := by
  cases hpc : s.pc <;> simp [hpc, PC.holdsRead] at hh
  · rename_i i
    cases hget : s.pool[i]? with
    | some c => exact ⟨_, Or.inl ⟨by simp [step, hpc, hget]; rfl, Or.inl rfl⟩⟩
    | none =>
      exact ⟨{ s with pc := .exiting }, Or.inl ⟨by simp [step, hpc, hget], Or.inr ⟨{ s with pc := .released }, by simp [step], rfl⟩⟩⟩
  · exact ⟨s, Or.inr ⟨{ s with pc := .released }, by simp [step, hpc], rfl⟩⟩

/-! ## the driver's simulation is sound -/

/-- Every state `kitdrv C20` holds after any sequence of events is a reachable state of the
model, so all theorems above apply to it. -/
theorem sim_sound (cfg : Config) (evs : List Event) :
    ∀ s ∈ (evs.foldl advance (Sim.start cfg)).states, Reach .fixed cfg s := by
  have : ∀ (evs : List Event) (sim : Sim), AllReach cfg sim.states →
      AllReach cfg (evs.foldl advance sim).states := by
    intro evs
    induction evs with
    | nil => intro sim h; exact h
    | cons e es ih => intro sim h; exact ih _ (allReach_advance sim e h)
  exact this evs _ (allReach_start cfg)

/-! ## `Add` in its real steps: check, call-out `ctx.Done()`, append (round 4)

`Kit.Pool.fstep` (`KitModel/PoolAdd.lean`) splits an `Add` that is going to append into
`addEnter` (write lock obtained, pool live, `p.anyLive()` true, `ctx.Done()` entered),
lock-free steps of everybody else while the call-out lasts, and `addExit` (append, unlock).  The
source shape that makes this the right split — `ctx.Done()` evaluated inside the critical section,
as an argument of the `append` — is `t1_add`.  The theorems above carry over through a
refinement, and the window itself is characterised: an `Add` that straddles the end of the last
live member leaves a live pool that waits for the added context. -/
section FineAdd

/-- Refinement: every reachable state of the fine system is, through `FState.abs` (the `Add` inside
its call-out counted as having taken effect when it took its decision), a reachable state of
the coarse system.  So `Add` linearises at its check, whatever happens during `ctx.Done()`. -/
theorem add_steps_refine_atomic {cfg : Config} {g : FState} (h : FReach cfg g) : Reach .fixed cfg g.abs :=
  reach_abs_of_freach h

/-- Conversely the coarse system is contained in the fine one (a call-out may return at once). -/
theorem atomic_within_add_steps {cfg : Config} {s : State} (h : Reach .fixed cfg s) :
    FReach cfg { base := s, win := none } :=
  freach_of_reach h

theorem abs_fields (g : FState) :
    g.abs.done = g.base.done ∧ g.abs.closed = g.base.closed ∧ g.abs.members = g.base.members ∧
      g.abs.ended = g.base.ended ∧ g.abs.pc = g.base.pc := by
  cases hw : g.win <;> simp [FState.abs, hw]

/-- Never early, on the real variables of the fine system. -/
theorem fine_never_early {cfg : Config} {g : FState} (hr : FReach cfg g) (hd : g.base.done = true) :
    g.base.closed = true ∨ ∀ m ∈ g.base.members, m ∈ g.base.ended := by
  obtain ⟨h1, h2, h3, h4, _⟩ := abs_fields g
  have := never_early (add_steps_refine_atomic hr) (by rw [h1]; exact hd)
  rwa [h2, h3, h4] at this

/-- While an `Add` is inside `ctx.Done()`: the pool context is not done, `Cancel` has not run, and
the watcher is still inside its loop — it has yet to take the read lock and re-read `len(p.pool)`,
so it will see the append. -/
theorem fine_window_pool_live {cfg : Config} {g : FState} {c : Nat} (hr : FReach cfg g) (hw : g.win = some c) :
    g.base.done = false ∧ g.base.closed = false ∧
      ((∃ i x, g.base.pc = .waiting i x) ∨ (∃ i, g.base.pc = .woken i)) := by
  have hW := winv_of_freach hr
  have hL := hW.inLoop c hw
  refine ⟨?_, hW.notClosed c hw, hL⟩
  obtain ⟨h1, _, _, _, h5⟩ := abs_fields g
  have hI := inv_of_reach (add_steps_refine_atomic hr)
  cases hd : g.base.done with
  | false => rfl
  | true =>
    have hfin := hI.done_iff.mp (by rw [h1]; exact hd)
    rw [h5] at hfin
    rcases hL with ⟨i, x, hp⟩ | ⟨i, hp⟩ <;> rw [hp] at hfin <;> cases hfin

/-- The write lock is held during the call-out: `Size`, the watcher's `RLock`, and the body of any
other `Add`/`Cancel` wait; contexts may end meanwhile (`fine_window_end_enabled`). -/
theorem fine_window_blocks_lock_users {g : FState} {c : Nat} (hw : g.win = some c) :
    (∀ n, fstep g (.base (.size n)) = none) ∧ fstep g (.base .wRelock) = none ∧
      fstep g (.base .complete) = none ∧ (∀ op, fstep g (.base (.lockReq op)) = none) ∧
      fstep g .addEnter = none := by
  refine ⟨fun n => ?_, ?_, ?_, fun op => ?_, ?_⟩ <;> simp [fstep, hw, Label.lockFree]

theorem fine_window_end_enabled {g : FState} {c : Nat} (hw : g.win = some c) (e : Nat) :
    fstep g (.base (.endCtx e)) = some { base := { g.base with ended := e :: g.base.ended }, win := some c } := by
  simp [fstep, hw, Label.lockFree, step]

/-- What "member" means at `addEnter`: exactly the statement's condition, evaluated where the
`Add` takes its decision — and at that point it holds, so the added context becomes a member. -/
theorem fine_enter_makes_member {cfg : Config} {g g' : FState} {c : Nat} (hr : FReach cfg g)
    (hwr : g.base.writer = some (.add c)) (h : fstep g .addEnter = some g') :
    g'.win = some c ∧ g'.base.members = c :: g.base.members ∧ g.base.done = false ∧
      ∃ m ∈ g.base.members, m ∉ g.base.ended := by
  simp only [fstep] at h
  split at h
  · rename_i c' hwin hwr'
    rw [hwr] at hwr'
    cases hwr'
    split at h
    · cases h
    · rename_i hcond
      cases h
      simp only [Bool.or_eq_true, not_or, Bool.not_eq_true] at hcond
      have hig := hcond.2
      have hP : PM g.base := by
        have := pm_of_reach (add_steps_refine_atomic hr)
        rwa [abs_of_win_none hwin] at this
      have hnd : g.base.done = false := by
        cases hd : g.base.done with
        | false => rfl
        | true => simp [State.addIgnored, hd] at hig
      have hal : g.base.anyLive = true := by
        cases ha : g.base.anyLive with
        | true => rfl
        | false => simp [State.addIgnored, ha] at hig
      simp only [State.anyLive, List.any_eq_true, decide_eq_true_eq] at hal
      obtain ⟨x, hx, hne⟩ := hal
      have hlm : g.base.hasLiveMember = true := by
        simp only [State.hasLiveMember, List.any_eq_true, decide_eq_true_eq]
        exact ⟨x, hP x hx, hne⟩
      refine ⟨rfl, ?_, hnd, x, hP x hx, hne⟩
      simp [hnd, hlm]
  · cases h

/-- The straddle: whatever ended while `Add(c)` was inside `c.Done()` — also the last live member —
when the call-out returns `c` is appended to a pool that is not done and not cancelled, `c` is a
member, and the watcher has not left its loop.  (With `never_early`: the pool then stays live
until `c` ends or `Cancel` is called.) -/
theorem fine_straddle_tracked {cfg : Config} {g g' : FState} {c : Nat} (hr : FReach cfg g)
    (hw : g.win = some c) (h : fstep g .addExit = some g') :
    g'.win = none ∧ c ∈ g'.base.pool ∧ c ∈ g'.base.members ∧ g'.base.done = false ∧ g'.base.closed = false ∧
      ((∃ i x, g'.base.pc = .waiting i x) ∨ (∃ i, g'.base.pc = .woken i)) := by
  obtain ⟨hd, hc, hl⟩ := fine_window_pool_live hr hw
  have hr' : FReach cfg g' := .step hr h
  simp only [fstep, hw] at h
  cases h
  have hpool : c ∈ g.base.pool ++ [c] := by simp
  refine ⟨rfl, hpool, ?_, hd, hc, hl⟩
  have := tracked_are_members (add_steps_refine_atomic hr') c (by simp [FState.abs])
  simpa [FState.abs] using this

/-- Done and not cancelled: every tracked context has ended, and no `Add` is inside a call-out. -/
theorem fine_done_all_tracked_ended {cfg : Config} {g : FState} (hr : FReach cfg g)
    (hd : g.base.done = true) (hc : g.base.closed = false) :
    g.win = none ∧ ∀ c ∈ g.base.pool, c ∈ g.base.ended := by
  have hwin : g.win = none := by
    cases hw : g.win with
    | none => rfl
    | some c => have := (fine_window_pool_live hr hw).1; rw [hd] at this; cases this
  refine ⟨hwin, ?_⟩
  have := done_all_tracked_ended (add_steps_refine_atomic hr)
  rw [abs_of_win_none hwin] at this
  exact this hd hc

/-- `Size` in the fine system: only outside a window, and then `len(p.pool)`. -/
theorem fine_size_spec {cfg : Config} {g g' : FState} {n : Nat} (hr : FReach cfg g)
    (h : fstep g (.base (.size n)) = some g') :
    g' = g ∧ g.win = none ∧ n = g.base.pool.length ∧
      n = if g.base.closed then 0 else (initLive cfg).length + g.base.accepted.length := by
  cases hw : g.win with
  | some c => rw [(fine_window_blocks_lock_users hw).1 n] at h; cases h
  | none =>
    simp only [fstep, hw, Option.map_eq_some_iff] at h
    obtain ⟨s, hs, rfl⟩ := h
    have hreach : Reach .fixed cfg g.base := by
      have := add_steps_refine_atomic hr
      rwa [abs_of_win_none hw] at this
    obtain ⟨h1, h2, h3⟩ := size_spec hreach hs
    subst h1
    refine ⟨?_, rfl, h2, h3⟩
    cases g
    simp at hw
    simp [hw]

/-- Liveness half for the fine system (∃-path, as `eventually_done`): if `Cancel` ran or every
member has ended, internal steps — the return of a pending call-out included — lead to done. -/
theorem fine_eventually_done {cfg : Config} {g : FState} (hr : FReach cfg g)
    (hS : g.base.closed = true ∨ ∀ m ∈ g.base.members, m ∈ g.base.ended) :
    ∃ g', FInternalPath g g' ∧ g'.base.done = true := by
  have key : ∀ g : FState, FReach cfg g → g.win = none →
      (g.base.closed = true ∨ ∀ m ∈ g.base.members, m ∈ g.base.ended) →
      ∃ g', FInternalPath g g' ∧ g'.base.done = true := by
    intro g hr hw hS
    have hreach : Reach .fixed cfg g.base := by
      have := add_steps_refine_atomic hr
      rwa [abs_of_win_none hw] at this
    obtain ⟨s', hp, hd⟩ := eventually_done cfg g.base hreach hS
    have hg : g = { base := g.base, win := none } := by
      cases g; simp at hw; simp [hw]
    rw [hg]
    exact ⟨{ base := s', win := none }, fpath_of_path hp, hd⟩
  cases hw : g.win with
  | none => exact key g hr hw hS
  | some c =>
    have hstep : fstep g .addExit = some { base := { g.base with pool := g.base.pool ++ [c], accepted := g.base.accepted ++ [c], writer := none }, win := none } := by
      simp [fstep, hw]
    obtain ⟨g', hp, hd⟩ := key _ (.step hr hstep) rfl hS
    exact ⟨g', .step (l := .addExit) rfl hstep hp, hd⟩

/-- Non-vacuity of the window theorems, and the straddle itself on the model: NewPool(ctx1);
`Add(ctx5)` enters `ctx5.Done()`; ctx1 — the last live member — ends; the watcher's select
returns, it waits for the read lock; the call-out returns; the watcher re-reads the length and
waits for ctx5.  Not done, `Size` 2, ctx5 a member. -/
def straddleRun : List FLabel :=
  [.base .wHead, .base (.lockReq (.add 5)), .addEnter, .base (.endCtx 1), .base .wWake, .addExit,
   .base .wRelock, .base .wHead]

theorem straddle_on_model :
    frun (finit { ctxs := [1], ended0 := [] }) straddleRun =
      some { base := { pool := [1, 5], ended := [1], pc := .waiting 1 5, writer := none, closed := false,
                       done := false, members := [5, 1], accepted := [5] }, win := none } := by
  decide

theorem freach_of_frun {cfg} : ∀ (ls : List FLabel) (g g' : FState), FReach cfg g → frun g ls = some g' →
    FReach cfg g' := by
  intro ls
  induction ls with
  | nil => intro g g' hr h; simp [frun] at h; subst h; exact hr
  | cons l ls ih =>
    intro g g' hr h
    simp only [frun] at h
    cases hs : fstep g l with
    | none => simp [hs] at h
    | some t =>
      simp [hs] at h
      exact ih t g' (.step hr hs) h

example : ∃ cfg g c, FReach cfg g ∧ g.win = some c ∧ c ∉ g.base.ended ∧ ∀ m ∈ g.base.members, m ≠ c → m ∈ g.base.ended :=
  ⟨{ ctxs := [1], ended0 := [] },
    { base := { pool := [1], ended := [1], pc := .woken 0, writer := some (.add 5), closed := false,
                done := false, members := [5, 1], accepted := [] }, win := some 5 }, 5,
    freach_of_frun (straddleRun.take 5) _ _ .init (by decide), rfl, by decide, by decide⟩

/-- The class of change this split is there for: decision under the read lock, `ctx.Done()` with
no lock held, append under the write lock re-checking `closed` only (`ustep`).  The same schedule
ends with the pool context done, not cancelled, while ctx5 is tracked and has not ended. -/
theorem unlocked_callout_witness :
    ∃ g, urun (finit { ctxs := [1], ended0 := [] })
        [.base .wHead, .base (.lockReq (.add 5)), .addEnter, .base (.endCtx 1), .base .wWake, .base .wRelock,
         .base .wHead, .base .wUnlock, .base .wCancel, .addExit] = some g ∧
      g.base.done = true ∧ g.base.closed = false ∧ 5 ∈ g.base.pool ∧ 5 ∉ g.base.ended :=
  ⟨{ base := { pool := [1, 5], ended := [1], pc := .finished, writer := none, closed := false, done := true,
               members := [1], accepted := [5] }, win := none }, by decide, rfl, rfl, by decide, by decide⟩

/-- Every state `kitdrv C20` holds after any sequence of events, windows included, is reachable:
coarse states in the coarse system, fine states in the fine one (hence, by
`add_steps_refine_atomic`, their abstractions in the coarse one). -/
theorem dsim_sound (cfg : Config) (evs : List DEvent) :
    DSim.Ok cfg (evs.foldl dadvance (.plain (Sim.start cfg))) := by
  have : ∀ (evs : List DEvent) (d : DSim), DSim.Ok cfg d → DSim.Ok cfg (evs.foldl dadvance d) := by
    intro evs
    induction evs with
    | nil => intro d h; exact h
    | cons e es ih => intro d h; exact ih _ (ok_dadvance d e h)
  exact this evs _ (allReach_start cfg)

end FineAdd


/-! ## T1: the source shape the model was written from

`KitModel/Generated/C20.lean` is regenerated from `/repo/context/pool.go` on every run.  Each
theorem below fixes one piece of that shape and names the part of `Kit.Pool` it justifies; when
pool.go changes shape the theorem no longer checks and the tie is reported as broken. -/
section T1
open Kit.Generated.C20

/-- `closed`, `pool`, one `sync.RWMutex`, the embedded pool context: the components of `State`. -/
theorem t1_fields : poolFields =
    ["embedded context.Context", "closed chan struct{}", "pool []<-chan struct{}", "lock sync.RWMutex"] := by
  decide

/-- `init`: `p.pool` is a non-nil slice of the contexts not yet done (`initLive`), and the read
lock is taken by `NewPool` itself right before `go` (`pc = head 0` holds the lock). -/
theorem t1_new_pool : newPoolBeforeGo =
    ["callee, cancel := context.WithCancel(context.Background())",
     "p := &Pool{Context: callee, pool: make([]<-chan struct{}, 0, len(ctx)), closed: make(chan struct{})}",
     "for i := range ctx { select { case <-ctx[i].Done():  | default: p.pool = append(p.pool, ctx[i].Done()) } }",
     "p.lock.RLock()"] ∧ newPoolAfterGo = ["return p"] := by
  decide

/-- Defers run .fixed last-in-first-out: `RUnlock` (`wUnlock`), the hook (`released`), `cancel()` (`wCancel`). -/
theorem t1_watcher_exit_order : watcherDefers.reverse =
    ["p.lock.RUnlock()", "verifhook.Point(\"pool.watch.beforeCancel\")", "cancel()"] := by
  decide

/-- The loop: condition and `ch := p.pool[i]` under the read lock, `RUnlock` (`wHead`); the
two-case select (`wWake`); the hook (`woken i`); `RLock`, `i++` (`wRelock`). -/
theorem t1_watcher_loop : watcherLoop =
    ["for i := 0; i < len(p.pool); i++",
     "ch := p.pool[i]",
     "p.lock.RUnlock()",
     "select { case <-ch:  | case <-p.closed:  }",
     "verifhook.Point(\"pool.watch.afterWait\", i)",
     "p.lock.RLock()"] := by
  decide

/-- `applyOp .fixed (.add c)`: whole body under the write lock; ignored iff the pool context or
`closed` is done or `p.anyLive()` is false (`State.addIgnored .fixed`). -/
theorem t1_add : addBody =
    ["p.lock.Lock()",
     "defer p.lock.Unlock()",
     "select { case <-p.Done():  | case <-p.closed:  | default: if p.anyLive() { p.pool = append(p.pool, ctx.Done()) } }",
     "return p"] := by
  decide

/-- `State.anyLive`: some channel in `p.pool` is not closed (non-blocking receive per entry). -/
theorem t1_any_live : anyLiveBody =
    ["for _, ch := range p.pool { select { case <-ch:  | default: return true } }",
     "return false"] := by
  decide

/-- `applyOp .cancel`: whole body under the write lock; `closed` is closed once, guarded by `p.pool != nil`. -/
theorem t1_cancel : cancelBody =
    ["p.lock.Lock()", "defer p.lock.Unlock()", "if p.pool != nil { close(p.closed); p.pool = nil }"] := by
  decide

/-- `size n`: `len(p.pool)` under the read lock. -/
theorem t1_size : sizeBody =
    ["p.lock.RLock()", "defer p.lock.RUnlock()", "return len(p.pool)"] := by
  decide

end T1

end Kit.Pool.C20
