import KitProofs.Lemmas.Streams
/-!
Property C16 — streams: bytes preserved for every chunking; oversize streams always fail.

All theorems quantify over *every* scripted source (content, script of per-read caps including
zero-length reads, terminal with the last data or alone, EOF or error) and *every* sequence of
consumer buffer sizes (`bufs`, then `dflt > 0` for ever).  They are about `Version.fixed`, the
model of `/repo/streams` after the `fix:` commits; the `…_witness` theorems show the code as found
(`Version.orig`) violating the statement.
-/
namespace Kit.Streams

/-! ## T1: the source still is the version the theorems are about -/

/-- The facts re-extracted from `/repo/streams` by `factgen_c16` on this run (guard of the
too-large error, guard of the buffer clip, `WriteTo` closing what it copied) are those of
`Version.fixed`.  Reverting any of the three repairs makes this fail to check. -/
theorem source_is_fixed : sourceVersion = some .fixed := by decide

/-- The method sets of `limitReadCloser`, `MultiReaderCloser`, `TeeReadCloser` (all non-test files
of the package), their embedded fields (none) and the concrete types the constructors return, as
re-extracted on this run, are exactly the ones the model covers: `Read`/`Close` for the limit
reader (so `io.Copy` consumes it through `Read`), `Read`/`Close`/`WriteTo` for the multi reader,
`Read`/`Close`/`Stop` for the tee reader.  A new method — e.g. an `io.Copy` fast path — breaks
this obligation. -/
theorem method_sets_as_modelled : methodSetsAsModelled = true := by decide

/-- `WriteTo`'s buffer is non-empty (used by the copy-loop termination argument). -/
theorem copy_buffer_nonempty : 0 < copyBufSize := by decide

/-! ## LimitReadCloser -/

/-- A source of at most `N` bytes passes through unchanged — bytes and terminal (EOF or the
source's own error) — and is closed exactly once by `Close` (not before). -/
theorem limit_identity (s : Src) (N : Nat) (bufs : List Nat) (dflt : Nat)
    (hc : s.closes = 0) (hd : 0 < dflt) (hle : s.rest.length ≤ N) :
    (Limit.consume .fixed (Limit.new s N) bufs dflt).2 = (s.rest, s.term) ∧
    (Limit.consume .fixed (Limit.new s N) bufs dflt).1.src.closes = 0 ∧
    (Limit.consume .fixed (Limit.new s N) bufs dflt).1.close.src.closes = 1 := by
  obtain ⟨h1, h2, h3⟩ := Limit.consume_spec s N bufs dflt hc hd
  have hcl : (Limit.consume .fixed (Limit.new s N) bufs dflt).1.closed = false := by
    cases h : (Limit.consume .fixed (Limit.new s N) bufs dflt).1.closed with
    | false => rfl
    | true => have := h3.mp h; omega
  refine ⟨?_, by simpa [hcl] using h2, ?_⟩
  · rw [h1, Limit.spec_new, if_pos hle]
  · simp only [hcl] at h2
    simp [Limit.close, hcl, Src.close, h2]

example : ∃ s : Src, s.closes = 0 ∧ s.rest.length ≤ 5 ∧ s.rest ≠ [] ∧ s.script ≠ [] :=
  ⟨{ rest := [1, 2, 3, 4, 5], script := [2, 0, 3], withData := true, term := .eof,
     closable := true, closes := 0 }, by decide⟩

/-- A source longer than `N` is never mistaken for a complete one: the consumer receives exactly
the first `N` bytes (so at most `N`) and then an error that is not EOF — `ErrStreamTooLarge`,
or the source's own error if that arrived in the same call as byte `N+1`; the source has been
closed when the error is returned and stays closed exactly once after `Close`. -/
theorem limit_never_silent (s : Src) (N : Nat) (bufs : List Nat) (dflt : Nat)
    (hc : s.closes = 0) (hd : 0 < dflt) (hgt : N < s.rest.length) :
    (Limit.consume .fixed (Limit.new s N) bufs dflt).2.1 = s.rest.take N ∧
    (Limit.consume .fixed (Limit.new s N) bufs dflt).2.2 ≠ .eof ∧
    ((Limit.consume .fixed (Limit.new s N) bufs dflt).2.2 = .tooLarge ∨
      (Limit.consume .fixed (Limit.new s N) bufs dflt).2.2 = s.term) ∧
    (s.term = .eof → (Limit.consume .fixed (Limit.new s N) bufs dflt).2.2 = .tooLarge) ∧
    (Limit.consume .fixed (Limit.new s N) bufs dflt).1.src.closes = 1 ∧
    (Limit.consume .fixed (Limit.new s N) bufs dflt).1.close.src.closes = 1 := by
  obtain ⟨h1, h2, h3⟩ := Limit.consume_spec s N bufs dflt hc hd
  have hcl : (Limit.consume .fixed (Limit.new s N) bufs dflt).1.closed = true := h3.mpr hgt
  have hspec : Limit.spec (Limit.new s N) = (s.rest.take N,
      if s.rest.length = N + 1 ∧ s.withData = true ∧ s.term ≠ .eof
      then s.term else .tooLarge) := by
    rw [Limit.spec_new, if_neg (by omega)]
  rw [h1, hspec]
  simp only [hcl, ↓reduceIte] at h2
  refine ⟨rfl, ?_, ?_, ?_, h2, by simp [Limit.close, hcl, h2]⟩
  · show (if _ then s.term else Err.tooLarge) ≠ Err.eof
    split
    · rename_i h; exact h.2.2
    · intro h; cases h
  · show (if _ then s.term else Err.tooLarge) = Err.tooLarge ∨ (if _ then s.term else Err.tooLarge) = s.term
    split
    · exact Or.inr rfl
    · exact Or.inl rfl
  · intro ht
    show (if _ then s.term else Err.tooLarge) = Err.tooLarge
    rw [if_neg (fun h => h.2.2 ht)]

example : ∃ s : Src, s.closes = 0 ∧ 5 < s.rest.length ∧ s.withData = true ∧ s.script ≠ [] :=
  ⟨{ rest := [1, 2, 3, 4, 5, 6], script := [5, 1], withData := true, term := .eof,
     closable := true, closes := 0 }, by decide⟩

/-- An error of the source is never turned into a clean EOF, whatever the length; within the
limit it is passed through unchanged after all the bytes. -/
theorem limit_error_passthrough (s : Src) (N : Nat) (bufs : List Nat) (dflt : Nat)
    (hc : s.closes = 0) (hd : 0 < dflt) (herr : s.term ≠ .eof) :
    (Limit.consume .fixed (Limit.new s N) bufs dflt).2.2 ≠ .eof ∧
    (s.rest.length ≤ N → (Limit.consume .fixed (Limit.new s N) bufs dflt).2 = (s.rest, s.term)) ∧
    (s.rest.length = N + 1 → s.withData = true →
      (Limit.consume .fixed (Limit.new s N) bufs dflt).2 = (s.rest.take N, s.term)) := by
  refine ⟨?_, fun hle => (limit_identity s N bufs dflt hc hd hle).1, ?_⟩
  · by_cases hle : s.rest.length ≤ N
    · rw [(limit_identity s N bufs dflt hc hd hle).1]; exact herr
    · exact (limit_never_silent s N bufs dflt hc hd (by omega)).2.1
  · intro hlen hwd
    obtain ⟨h1, _, _⟩ := Limit.consume_spec s N bufs dflt hc hd
    rw [h1, Limit.spec_new, if_neg (by omega), if_pos ⟨hlen, hwd, herr⟩]

example : ∃ s : Src, s.closes = 0 ∧ s.term ≠ .eof ∧ s.rest.length = 5 + 1 ∧ s.withData = true :=
  ⟨{ rest := [1, 2, 3, 4, 5, 6], script := [3, 0, 3], withData := true, term := .boom,
     closable := true, closes := 0 }, by decide⟩

/-! ### the code as found -/

def sixWithEOF : Src :=
  { rest := [1, 2, 3, 4, 5, 6], script := [], withData := true, term := .eof, closable := true, closes := 0 }

/-- Code as found: limit 5 over a 6-byte source that returns `(6, io.EOF)` yields 5 bytes and a
clean EOF — silent truncation (replayed on the implementation by the harness). -/
theorem limit_silent_witness :
    (Limit.consume .orig (Limit.new sixWithEOF 5) [] 512).2 = ([1, 2, 3, 4, 5], .eof) := by decide

/-- Code as found: `LimitReadCloser(r, math.MaxInt64)` panics on the first `Read`
(`l.N+1` wraps to `MinInt64` and is used as a slice bound). -/
theorem limit_maxint64_panic_witness :
    (Limit.read .orig (Limit.new sixWithEOF maxInt64) 512).2.2 = some .panic := by decide

/-- The repaired clip never panics and never computes outside `int64` for any `int64` limit. -/
theorem limit_clip_total (n : Int) (m : Nat) (hn : 0 ≤ n) (hm : 0 < m) :
    clip .fixed n m = some (min m (n.toNat + 1)) ∧
    ((m : Int) - 1 > n → n + 1 ≤ maxInt64 ∨ maxInt64 < (m : Int)) := by
  refine ⟨clip_fixed hn m, fun h => ?_⟩
  unfold maxInt64; omega

/-! ## MultiReaderCloser -/

def twoClosers : List Src :=
  [{ rest := [1, 2], script := [], withData := false, term := .eof, closable := true, closes := 0 },
   { rest := [3, 4], script := [], withData := true, term := .eof, closable := true, closes := 0 }]

def goodWriter : Wr := { got := [], cap := none, closable := false, closes := 0 }


/-- Sources that all end in EOF: the consumer receives exactly their concatenation, then EOF —
for every script of every source and every sequence of consumer buffer sizes. -/
theorem multi_concat (srcs : List Src) (bufs : List Nat) (dflt : Nat)
    (hc : ∀ s ∈ srcs, s.closes = 0) (hd : 0 < dflt) (heof : ∀ s ∈ srcs, s.term = .eof) :
    ((Multi.new srcs).consume bufs dflt).2 = ((srcs.map (·.rest)).flatten, .eof) := by
  rw [(Multi.consume_spec srcs bufs dflt hc hd).1]
  clear hc
  induction srcs with
  | nil => rfl
  | cons s ss ih =>
    have h1 : s.term = .eof := heof s (by simp)
    have h2 := ih (fun x hx => heof x (by simp [hx]))
    simp [multiSpec, h1, h2]

example : ∃ srcs : List Src, (∀ s ∈ srcs, s.closes = 0) ∧ (∀ s ∈ srcs, s.term = .eof) ∧
    srcs.length = 2 ∧ (∀ s ∈ srcs, s.rest ≠ [] ∧ s.script ≠ []) :=
  ⟨[{ rest := [1, 2], script := [1, 0, 1], withData := true, term := .eof, closable := true, closes := 0 },
    { rest := [3], script := [0, 1], withData := false, term := .eof, closable := false, closes := 0 }],
    by decide⟩

/-- In general (a source may end in an error): the consumer receives the concatenation of the
sources up to and including the first failing one, then that error (`multiSpec`). -/
theorem multi_concat_until_error (srcs : List Src) (bufs : List Nat) (dflt : Nat)
    (hc : ∀ s ∈ srcs, s.closes = 0) (hd : 0 < dflt) :
    ((Multi.new srcs).consume bufs dflt).2 = multiSpec srcs :=
  (Multi.consume_spec srcs bufs dflt hc hd).1

example : multiSpec
    [{ rest := [1, 2], script := [1], withData := true, term := .eof, closable := true, closes := 0 },
     { rest := [3], script := [], withData := false, term := .boom, closable := true, closes := 0 },
     { rest := [4], script := [], withData := false, term := .eof, closable := true, closes := 0 }]
    = ([1, 2, 3], .boom) := by decide

/-- Read path: after the stream was consumed (to EOF or to an error) and `Close` was called, every
source that is a closer has been closed exactly once, the others never, and nothing is left. -/
theorem multi_closes_each_once_read (srcs : List Src) (bufs : List Nat) (dflt : Nat)
    (hc : ∀ s ∈ srcs, s.closes = 0) (hd : 0 < dflt) :
    ((Multi.new srcs).consume bufs dflt).1.close.closeCounts
        = srcs.map (fun s => if s.closable then 1 else 0) ∧
    ((Multi.new srcs).consume bufs dflt).1.close.readers = [] ∧
    ((Multi.new srcs).consume bufs dflt).1.close.close.closeCounts
        = srcs.map (fun s => if s.closable then 1 else 0) := by
  have hI := (Multi.consume_spec srcs bufs dflt hc hd).2
  obtain ⟨h1, h2⟩ := Multi.close_counts hI
  refine ⟨by rw [h1]; simp, h2, ?_⟩
  -- a second Close finds nothing to close
  simp only [Multi.close, Multi.closeCounts, List.map_nil, List.append_nil] at h1 ⊢
  rw [h1]; simp

/-- WriteTo path (what `io.Copy` uses), any writer (even a failing one): after `WriteTo` and
`Close`, every source that is a closer has been closed exactly once. -/
theorem multi_closes_each_once_writeTo (srcs : List Src) (w : Wr)
    (hc : ∀ s ∈ srcs, s.closes = 0) :
    ((Multi.new srcs).writeTo .fixed w).1.close.closeCounts
        = srcs.map (fun s => if s.closable then 1 else 0) ∧
    ((Multi.new srcs).writeTo .fixed w).1.close.readers = [] := by
  have hwt : (Multi.new srcs).writeTo .fixed w = Multi.writeLoop .fixed srcs [] w := rfl
  rw [hwt]
  obtain ⟨h1, h2, h3⟩ := Multi.writeLoop_inv srcs [] w hc (by simp)
  have hI : Multi.Inv (srcs.map (·.closable)) (Multi.writeLoop .fixed srcs [] w).1 :=
    ⟨h1, h2, by simpa using h3⟩
  obtain ⟨h4, h5⟩ := Multi.close_counts hI
  exact ⟨by rw [h4]; simp, h5⟩

/-- Any mixture of the two paths, complete or not: after any sequence of `Read`s (any buffer sizes)
and `WriteTo`s (any writers) followed by `Close`, every closer source has been closed exactly once. -/
theorem multi_closes_each_once_any_use (srcs : List Src) (ops : List MultiOp)
    (hc : ∀ s ∈ srcs, s.closes = 0) :
    (Multi.run .fixed (Multi.new srcs) ops).close.closeCounts
        = srcs.map (fun s => if s.closable then 1 else 0) := by
  have hI : Multi.Inv (srcs.map (·.closable)) (Multi.new srcs) :=
    ⟨hc, by simp [Multi.new], by simp [Multi.new]⟩
  rw [(Multi.close_counts (Multi.run_inv ops _ hI)).1]; simp

example : (Multi.run .fixed (Multi.new twoClosers) [.read 1, .writeTo goodWriter, .read 3]).close.closeCounts
    = [1, 1] := by decide

/-- WriteTo path, writer that never fails: the writer receives the concatenation (up to the first
failing source) and `WriteTo` returns nil exactly when the stream ended in EOF. -/
theorem multi_writeTo_concat (srcs : List Src) (w : Wr)
    (hc : ∀ s ∈ srcs, s.closes = 0) (hw : w.cap = none) :
    ((Multi.new srcs).writeTo .fixed w).2.1.got = w.got ++ (multiSpec srcs).1 ∧
    ((Multi.new srcs).writeTo .fixed w).2.2 = errOfTerm (multiSpec srcs).2 := by
  obtain ⟨h1, h2⟩ := Multi.writeLoop_good srcs [] w hc hw
  exact ⟨by rw [show (Multi.new srcs).writeTo .fixed w = Multi.writeLoop .fixed srcs [] w from rfl, h1], h2⟩

/-- Code as found: `io.Copy(w, NewMultiReaderCloser(a, b))` then `Close` copies everything but
leaves both sources unclosed (replayed on the implementation by the harness). -/
theorem writeto_unclosed_witness :
    ((Multi.new twoClosers).writeTo .orig goodWriter).2.1.got = [1, 2, 3, 4] ∧
    ((Multi.new twoClosers).writeTo .orig goodWriter).1.close.closeCounts = [0, 0] := by decide

example : ((Multi.new twoClosers).writeTo .fixed goodWriter).1.close.closeCounts = [1, 1] := by decide

/-! ## TeeReadCloser -/

/-- The consumer receives the source's bytes and terminal unchanged and the writer receives
exactly the same bytes; if the writer fails first (it accepts only `c` more bytes, `c < |source|`)
both have received exactly the first `c` bytes and the consumer sees the writer's error, never a
clean EOF.  After `Close` the source has been closed exactly once if it is a closer. -/
theorem tee_preserves_and_copies (s : Src) (w : Wr) (bufs : List Nat) (dflt : Nat)
    (hc : s.closes = 0) (hd : 0 < dflt) :
    ((Tee.new s w).consume bufs dflt).2 = cut w.cap (s.rest, s.term) ∧
    ((Tee.new s w).consume bufs dflt).1.w.got = w.got ++ ((Tee.new s w).consume bufs dflt).2.1 ∧
    ((Tee.new s w).consume bufs dflt).1.close.src.closes = (if s.closable then 1 else 0) ∧
    ((Tee.new s w).consume bufs dflt).1.close.close.src.closes = (if s.closable then 1 else 0) := by
  obtain ⟨h1, hr, hw, hcl, hclos, hgot⟩ := Tee.consume_spec s w bufs dflt hc hd
  refine ⟨h1, by rw [hgot, h1], ?_, ?_⟩
  · simp only [Tee.close, hr, ↓reduceIte, Src.closeIfCloser, hclos, Src.close]
    split <;> simp [hcl]
  · simp only [Tee.close, hr, ↓reduceIte, Src.closeIfCloser, hclos, Src.close, Bool.false_eq_true]
    split <;> simp [hcl]

/-- writer that never fails, or has room for the whole source: bytes and terminal unchanged -/
theorem tee_preserves (s : Src) (w : Wr) (bufs : List Nat) (dflt : Nat)
    (hc : s.closes = 0) (hd : 0 < dflt) (hroom : ∀ c, w.cap = some c → s.rest.length ≤ c) :
    ((Tee.new s w).consume bufs dflt).2 = (s.rest, s.term) ∧
    ((Tee.new s w).consume bufs dflt).1.w.got = w.got ++ s.rest := by
  obtain ⟨h1, h2, _⟩ := tee_preserves_and_copies s w bufs dflt hc hd
  have : cut w.cap (s.rest, s.term) = (s.rest, s.term) := by
    cases hcap : w.cap with
    | none => rfl
    | some c => simp [cut, hroom c hcap]
  rw [this] at h1
  exact ⟨h1, by rw [h2, h1]⟩

/-- failing writer: a prefix, equal on both sides, ended by the writer's error -/
theorem tee_failing_writer_prefix (s : Src) (w : Wr) (c : Nat) (bufs : List Nat) (dflt : Nat)
    (hc : s.closes = 0) (hd : 0 < dflt) (hcap : w.cap = some c) (hlt : c < s.rest.length) :
    ((Tee.new s w).consume bufs dflt).2 = (s.rest.take c, .wfail) ∧
    ((Tee.new s w).consume bufs dflt).1.w.got = w.got ++ s.rest.take c := by
  obtain ⟨h1, h2, _⟩ := tee_preserves_and_copies s w bufs dflt hc hd
  have : cut w.cap (s.rest, s.term) = (s.rest.take c, .wfail) := by
    have : ¬ s.rest.length ≤ c := by omega
    simp [cut, hcap, this]
  rw [this] at h1
  exact ⟨h1, by rw [h2, h1]⟩

example : ∃ (s : Src) (w : Wr) (c : Nat), s.closes = 0 ∧ w.cap = some c ∧ c < s.rest.length ∧ 0 < c ∧
    s.script ≠ [] :=
  ⟨{ rest := [1, 2, 3, 4, 5], script := [2, 0, 2], withData := true, term := .eof, closable := true, closes := 0 },
   { got := [], cap := some 3, closable := true, closes := 0 }, 3, by decide⟩

end Kit.Streams
