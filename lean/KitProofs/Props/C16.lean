import KitProofs.Lemmas.Streams
/-!
Property C16 — streams: bytes preserved for every chunking; oversize streams always fail.

All theorems quantify over *every* scripted source (content, script of per-read caps including
zero-length reads, terminal with the last data or alone, EOF or error) and *every* sequence of
consumer buffer sizes (`bufs`, then `dflt > 0` for ever).  They are about `Version.fixed`, the
model of `/repo/streams` after the `fix:` commits; the `…_witness` theorems show the code as found
(`Version.orig`) violating the statement.
-/
namespace Kit.Streams

/-! ## T1: the source still is the version the theorems are about -/

/-- The facts re-extracted from `/repo/streams` by `factgen_c16` on this run (guard of the
too-large error, guard of the buffer clip, `WriteTo` closing what it copied) are those of
`Version.fixed`.  Reverting any of the three repairs makes this fail to check. -/
theorem source_is_fixed : sourceVersion = some .fixed := by decide

/-- The method sets of `limitReadCloser`, `MultiReaderCloser`, `TeeReadCloser` (all non-test files
of the package), their embedded fields (none) and the concrete types the constructors return, as
re-extracted on this run, are exactly the ones the model covers: `Read`/`Close` for the limit
reader (so `io.Copy` consumes it through `Read`), `Read`/`Close`/`WriteTo` for the multi reader,
`Read`/`Close`/`Stop` for the tee reader.  A new method — e.g. an `io.Copy` fast path — breaks
this obligation. -/
theorem method_sets_as_modelled : methodSetsAsModelled = true := by decide

/-- `WriteTo`'s buffer is non-empty (used by the copy-loop termination argument). -/
theorem copy_buffer_nonempty : 0 < copyBufSize := by decide

/-! ## LimitReadCloser -/

def sixWithEOFScripted : Src :=
  { rest := [1, 2, 3, 4, 5, 6], script := [2, 0, 3], withData := true, term := .eof, closable := true, closes := 0 }

/-- A source of at most `N` bytes passes through unchanged — bytes and terminal (EOF or the
source's own error) — and is closed exactly once by `Close` (not before). -/
theorem limit_identity (s : Src) (N : Nat) (bufs : List Nat) (dflt : Nat)
    (hc : s.closes = 0) (hd : 0 < dflt) (hle : s.rest.length ≤ N) :
    (Limit.consume .fixed (Limit.new s N) bufs dflt).2 = (s.rest, s.term) ∧
    (Limit.consume .fixed (Limit.new s N) bufs dflt).1.src.closes = 0 ∧
    (Limit.consume .fixed (Limit.new s N) bufs dflt).1.close.src.closes = 1 := by
  obtain ⟨h1, h2, h3⟩ := Limit.consume_spec s N bufs dflt hc hd
  have hcl : (Limit.consume .fixed (Limit.new s N) bufs dflt).1.closed = false := by
    cases h : (Limit.consume .fixed (Limit.new s N) bufs dflt).1.closed with
    | false => rfl
    | true => have := h3.mp h; omega
  refine ⟨?_, by simpa [hcl] using h2, ?_⟩
  · rw [h1, Limit.spec_new, if_pos hle]
  · simp only [hcl] at h2
    simp [Limit.close, hcl, Src.close, h2]

example : ∃ s : Src, s.closes = 0 ∧ s.rest.length ≤ 5 ∧ s.rest ≠ [] ∧ s.script ≠ [] :=
  ⟨{ rest := [1, 2, 3, 4, 5], script := [2, 0, 3], withData := true, term := .eof,
     closable := true, closes := 0 }, by decide⟩

/-- A source longer than `N` is never mistaken for a complete one: the consumer receives exactly
the first `N` bytes (so at most `N`) and then an error that is not EOF — `ErrStreamTooLarge`,
or the source's own error if that arrived in the same call as byte `N+1`; the source has been
closed when the error is returned and stays closed exactly once after `Close`. -/
theorem limit_never_silent (s : Src) (N : Nat) (bufs : List Nat) (dflt : Nat)
    (hc : s.closes = 0) (hd : 0 < dflt) (hgt : N < s.rest.length) :
    (Limit.consume .fixed (Limit.new s N) bufs dflt).2.1 = s.rest.take N ∧
    (Limit.consume .fixed (Limit.new s N) bufs dflt).2.2 ≠ .eof ∧
    ((Limit.consume .fixed (Limit.new s N) bufs dflt).2.2 = .tooLarge ∨
      (Limit.consume .fixed (Limit.new s N) bufs dflt).2.2 = s.term) ∧
    (s.term = .eof → (Limit.consume .fixed (Limit.new s N) bufs dflt).2.2 = .tooLarge) ∧
    (Limit.consume .fixed (Limit.new s N) bufs dflt).1.src.closes = 1 ∧
    (Limit.consume .fixed (Limit.new s N) bufs dflt).1.close.src.closes = 1 := by
  obtain ⟨h1, h2, h3⟩ := Limit.consume_spec s N bufs dflt hc hd
  have hcl : (Limit.consume .fixed (Limit.new s N) bufs dflt).1.closed = true := h3.mpr hgt
  have hspec : Limit.spec (Limit.new s N) = (s.rest.take N,
      if s.rest.length = N + 1 ∧ s.withData = true ∧ s.term ≠ .eof
      then s.term else .tooLarge) := by
    rw [Limit.spec_new, if_neg (by omega)]
  rw [h1, hspec]
  simp only [hcl, ↓reduceIte] at h2
  refine ⟨rfl, ?_, ?_, ?_, h2, by simp [Limit.close, hcl, h2]⟩
  · show (if _ then s.term else Err.tooLarge) ≠ Err.eof
    split
    · rename_i h; exact h.2.2
    · intro h; cases h
  · show (if _ then s.term else Err.tooLarge) = Err.tooLarge ∨ (if _ then s.term else Err.tooLarge) = s.term
    split
    · exact Or.inr rfl
    · exact Or.inl rfl
  · intro ht
    show (if _ then s.term else Err.tooLarge) = Err.tooLarge
    rw [if_neg (fun h => h.2.2 ht)]

example : ∃ s : Src, s.closes = 0 ∧ 5 < s.rest.length ∧ s.withData = true ∧ s.script ≠ [] :=
  ⟨{ rest := [1, 2, 3, 4, 5, 6], script := [5, 1], withData := true, term := .eof,
     closable := true, closes := 0 }, by decide⟩

/-- An error of the source is never turned into a clean EOF, whatever the length; within the
limit it is passed through unchanged after all the bytes. -/
theorem limit_error_passthrough (s : Src) (N : Nat) (bufs : List Nat) (dflt : Nat)
    (hc : s.closes = 0) (hd : 0 < dflt) (herr : s.term ≠ .eof) :
    (Limit.consume .fixed (Limit.new s N) bufs dflt).2.2 ≠ .eof ∧
    (s.rest.length ≤ N → (Limit.consume .fixed (Limit.new s N) bufs dflt).2 = (s.rest, s.term)) ∧
    (s.rest.length = N + 1 → s.withData = true →
      (Limit.consume .fixed (Limit.new s N) bufs dflt).2 = (s.rest.take N, s.term)) := by
  refine ⟨?_, fun hle => (limit_identity s N bufs dflt hc hd hle).1, ?_⟩
  · by_cases hle : s.rest.length ≤ N
    · rw [(limit_identity s N bufs dflt hc hd hle).1]; exact herr
    · exact (limit_never_silent s N bufs dflt hc hd (by omega)).2.1
  · intro hlen hwd
    obtain ⟨h1, _, _⟩ := Limit.consume_spec s N bufs dflt hc hd
    rw [h1, Limit.spec_new, if_neg (by omega), if_pos ⟨hlen, hwd, herr⟩]

example : ∃ s : Src, s.closes = 0 ∧ s.term ≠ .eof ∧ s.rest.length = 5 + 1 ∧ s.withData = true :=
  ⟨{ rest := [1, 2, 3, 4, 5, 6], script := [3, 0, 3], withData := true, term := .boom,
     closable := true, closes := 0 }, by decide⟩

/-- The common case reads as the property does: if byte `N+1` is delivered without an error of the
source's own (more bytes follow, or the terminal comes alone, or the terminal is EOF), the stream
ends with exactly `ErrStreamTooLarge` after exactly the first `N` bytes. -/
theorem limit_too_large_exact (s : Src) (N : Nat) (bufs : List Nat) (dflt : Nat)
    (hc : s.closes = 0) (hd : 0 < dflt) (hgt : N < s.rest.length)
    (hown : ¬ (s.rest.length = N + 1 ∧ s.withData = true ∧ s.term ≠ .eof)) :
    (Limit.consume .fixed (Limit.new s N) bufs dflt).2 = (s.rest.take N, .tooLarge) := by
  rw [(Limit.consume_spec s N bufs dflt hc hd).1, Limit.spec_new, if_neg (by omega), if_neg hown]

/-- The only other case: the source returns byte `N+1` together with an error of its own; that
error (not EOF, not swallowed) ends the stream after the first `N` bytes. -/
theorem limit_too_large_own_error (s : Src) (N : Nat) (bufs : List Nat) (dflt : Nat)
    (hc : s.closes = 0) (hd : 0 < dflt)
    (hown : s.rest.length = N + 1 ∧ s.withData = true ∧ s.term ≠ .eof) :
    (Limit.consume .fixed (Limit.new s N) bufs dflt).2 = (s.rest.take N, s.term) := by
  rw [(Limit.consume_spec s N bufs dflt hc hd).1, Limit.spec_new, if_neg (by omega), if_pos hown]

example : ∃ s : Src, s.closes = 0 ∧ 5 < s.rest.length ∧
    ¬ (s.rest.length = 5 + 1 ∧ s.withData = true ∧ s.term ≠ .eof) ∧ s.withData = true :=
  ⟨{ rest := [1, 2, 3, 4, 5, 6], script := [5, 0, 1], withData := true, term := .eof,
     closable := true, closes := 0 }, by decide⟩

/-- Every op sequence, every `int64` limit (negative ones included): whatever mixture of `Read`s
(any buffer sizes) and `Close`s is applied — double `Close`, `Close` after ErrStreamTooLarge,
`Read` after `Close` — the source is never closed twice; it has been closed exactly once as soon
as one `Close` is among the ops, and one more `Close` at the end always leaves it at exactly once. -/
theorem limit_closes_once_any_use (s : Src) (n : Int) (ops : List LimitOp) (hc : s.closes = 0) :
    (Limit.run .fixed (Limit.new s n) ops).src.closes ≤ 1 ∧
    (LimitOp.close ∈ ops → (Limit.run .fixed (Limit.new s n) ops).src.closes = 1) ∧
    (Limit.run .fixed (Limit.new s n) ops).close.src.closes = 1 ∧
    (Limit.run .fixed (Limit.new s n) ops).close.close.src.closes = 1 := by
  have h0 : (Limit.new s n).CInv := by simp [Limit.CInv, Limit.new, hc]
  obtain ⟨h1, _, h3⟩ := Limit.run_cinv ops _ h0
  obtain ⟨h4, h5⟩ := Limit.close_cinv _ h1
  obtain ⟨h6, h7⟩ := Limit.close_cinv _ h4
  unfold Limit.CInv at h1 h4 h6
  refine ⟨?_, fun hm => ?_, ?_, ?_⟩
  · rw [h1]; split <;> omega
  · rw [h1, h3 hm]; rfl
  · rw [h4, h5]; rfl
  · rw [h6, h7]; rfl

example : (Limit.run .fixed (Limit.new sixWithEOFScripted 5)
    [.read 4, .read 4, .close, .read 1, .close]).src.closes = 1 := by decide

/-- A negative limit (`N < 0` at construction): every `Read` fails with ErrStreamTooLarge, delivers
nothing and touches neither the counter nor the source; the source is closed by `Close`, once. -/
theorem limit_negative (s : Src) (n : Int) (hn : n < 0) (hc : s.closes = 0) :
    (∀ m, Limit.read .fixed (Limit.new s n) m = (Limit.new s n, [], some .tooLarge)) ∧
    (∀ bufs dflt, (Limit.consume .fixed (Limit.new s n) bufs dflt).2 = ([], .tooLarge)) ∧
    (Limit.new s n).close.src.closes = 1 := by
  refine ⟨fun m => Limit.read_negative _ _ m hn, fun bufs dflt => ?_, ?_⟩
  · simp [Limit.consume, Limit.fuel, drain, Limit.read_negative _ (Limit.new s n) _ hn]
  · simp [Limit.close, Limit.new, Src.close, hc]

/-- The whole behaviour over `int64` limits, in one statement: for every `n` in the `int64` range
the consumer loop yields — `ErrStreamTooLarge` at once if `n < 0`; the source unchanged if it has
at most `n` bytes; else exactly `n` bytes and then `ErrStreamTooLarge` (or the source's own error
when that arrives with byte `n+1`) — and `l.N` never leaves `int64` (see `limit_int64_range`). -/
theorem limit_all_int64_limits (s : Src) (n : Int) (bufs : List Nat) (dflt : Nat)
    (_hmin : minInt64 ≤ n) (_hmax : n ≤ maxInt64) (hc : s.closes = 0) (hd : 0 < dflt) :
    (Limit.consume .fixed (Limit.new s n) bufs dflt).2 =
      if n < 0 then ([], .tooLarge)
      else if (s.rest.length : Int) ≤ n then (s.rest, s.term)
      else (s.rest.take n.toNat,
        if (s.rest.length : Int) = n + 1 ∧ s.withData = true ∧ s.term ≠ .eof then s.term else .tooLarge) := by
  by_cases hn : n < 0
  · rw [if_pos hn]; exact (limit_negative s n hn hc).2.1 bufs dflt
  · rw [if_neg hn]
    have hnat : n = ((n.toNat : Nat) : Int) := by omega
    rw [hnat, (Limit.consume_spec s n.toNat bufs dflt hc hd).1, Limit.spec_new]
    simp only [Int.toNat_natCast]
    by_cases hle : s.rest.length ≤ n.toNat
    · have : (s.rest.length : Int) ≤ ((n.toNat : Nat) : Int) := by omega
      rw [if_pos hle, if_pos this]
    · have : ¬ (s.rest.length : Int) ≤ ((n.toNat : Nat) : Int) := by omega
      rw [if_neg hle, if_neg this]
      have e : (s.rest.length = n.toNat + 1) ↔ ((s.rest.length : Int) = ((n.toNat : Nat) : Int) + 1) := by omega
      simp only [e]

/-- `l.N` stays inside `int64` under every `Read` of the repaired code (it only decreases, and not
below −1 once it was non-negative), and the clip never panics, for every `int64` limit. -/
theorem limit_int64_range (l : Limit) (m : Nat) (h0 : minInt64 ≤ l.n) (h1 : l.n ≤ maxInt64) :
    minInt64 ≤ (Limit.read .fixed l m).1.n ∧ (Limit.read .fixed l m).1.n ≤ maxInt64 ∧
    (0 ≤ l.n → -1 ≤ (Limit.read .fixed l m).1.n) ∧ clip .fixed l.n m ≠ none := by
  obtain ⟨a, b, _, d⟩ := Limit.read_int64 l m h0 h1
  obtain ⟨m', hm', _, _⟩ := clip_fixed_some l.n m
  exact ⟨a, b, d, by rw [hm']; simp⟩

/-! ### the code as found -/

def sixWithEOF : Src :=
  { rest := [1, 2, 3, 4, 5, 6], script := [], withData := true, term := .eof, closable := true, closes := 0 }

/-- Code as found: limit 5 over a 6-byte source that returns `(6, io.EOF)` yields 5 bytes and a
clean EOF — silent truncation (replayed on the implementation by the harness). -/
theorem limit_silent_witness :
    (Limit.consume .orig (Limit.new sixWithEOF 5) [] 512).2 = ([1, 2, 3, 4, 5], .eof) := by decide

/-- Code as found: `LimitReadCloser(r, math.MaxInt64)` panics on the first `Read`
(`l.N+1` wraps to `MinInt64` and is used as a slice bound). -/
theorem limit_maxint64_panic_witness :
    (Limit.read .orig (Limit.new sixWithEOF maxInt64) 512).2.2 = some .panic := by decide

/-- The repaired clip never panics and never computes outside `int64` for any `int64` limit. -/
theorem limit_clip_total (n : Int) (m : Nat) (hn : 0 ≤ n) (hm : 0 < m) :
    clip .fixed n m = some (min m (n.toNat + 1)) ∧
    ((m : Int) - 1 > n → n + 1 ≤ maxInt64 ∨ maxInt64 < (m : Int)) := by
  refine ⟨clip_fixed hn m, fun h => ?_⟩
  unfold maxInt64; omega

/-! ## MultiReaderCloser -/

def twoClosers : List Src :=
  [{ rest := [1, 2], script := [], withData := false, term := .eof, closable := true, closes := 0 },
   { rest := [3, 4], script := [], withData := true, term := .eof, closable := true, closes := 0 }]

def goodWriter : Wr := { got := [], cap := none, closable := false, closes := 0 }


/-- Sources that all end in EOF: the consumer receives exactly their concatenation, then EOF —
for every script of every source and every sequence of consumer buffer sizes. -/
theorem multi_concat (srcs : List Src) (bufs : List Nat) (dflt : Nat)
    (hc : ∀ s ∈ srcs, s.closes = 0) (hd : 0 < dflt) (heof : ∀ s ∈ srcs, s.term = .eof) :
    ((Multi.new srcs).consume bufs dflt).2 = ((srcs.map (·.rest)).flatten, .eof) := by
  rw [(Multi.consume_spec srcs bufs dflt hc hd).1]
  clear hc
  induction srcs with
  | nil => rfl
  | cons s ss ih =>
    have h1 : s.term = .eof := heof s (by simp)
    have h2 := ih (fun x hx => heof x (by simp [hx]))
    simp [multiSpec, Err.endsSource, h1, h2]

example : ∃ srcs : List Src, (∀ s ∈ srcs, s.closes = 0) ∧ (∀ s ∈ srcs, s.term = .eof) ∧
    srcs.length = 2 ∧ (∀ s ∈ srcs, s.rest ≠ [] ∧ s.script ≠ []) :=
  ⟨[{ rest := [1, 2], script := [1, 0, 1], withData := true, term := .eof, closable := true, closes := 0 },
    { rest := [3], script := [0, 1], withData := false, term := .eof, closable := false, closes := 0 }],
    by decide⟩

/-- In general: the consumer receives the concatenation of the sources up to and including the
first one that ends in an error of its own, then that error (`multiSpec`); a source that ends in
`http.ErrBodyReadAfterClose` counts as ended (like EOF), as `Read` documents. -/
theorem multi_concat_until_error (srcs : List Src) (bufs : List Nat) (dflt : Nat)
    (hc : ∀ s ∈ srcs, s.closes = 0) (hd : 0 < dflt) :
    ((Multi.new srcs).consume bufs dflt).2 = multiSpec srcs :=
  (Multi.consume_spec srcs bufs dflt hc hd).1

example : multiSpec
    [{ rest := [1, 2], script := [1], withData := true, term := .eof, closable := true, closes := 0 },
     { rest := [3], script := [], withData := false, term := .boom, closable := true, closes := 0 },
     { rest := [4], script := [], withData := false, term := .eof, closable := true, closes := 0 }]
    = ([1, 2, 3], .boom) := by decide

/-- Read path, `http.ErrBodyReadAfterClose`: sources ending in EOF or in that error concatenate,
and the stream ends in EOF. -/
theorem multi_concat_body_closed (srcs : List Src) (bufs : List Nat) (dflt : Nat)
    (hc : ∀ s ∈ srcs, s.closes = 0) (hd : 0 < dflt)
    (hends : ∀ s ∈ srcs, s.term = .eof ∨ s.term = .bodyClosed) :
    ((Multi.new srcs).consume bufs dflt).2 = ((srcs.map (·.rest)).flatten, .eof) := by
  rw [(Multi.consume_spec srcs bufs dflt hc hd).1]
  clear hc
  induction srcs with
  | nil => rfl
  | cons s ss ih =>
    have h1 : s.term.endsSource := hends s (by simp)
    have h2 := ih (fun x hx => hends x (by simp [hx]))
    simp [multiSpec, h1, h2]

example : ((Multi.new
    [{ rest := [1, 2], script := [1], withData := true, term := .bodyClosed, closable := true, closes := 0 },
     { rest := [3], script := [], withData := false, term := .eof, closable := true, closes := 0 }]).consume [] 4).2
    = ([1, 2, 3], .eof) := by decide

/-- Read path: after the stream was consumed (to EOF or to an error) and `Close` was called (also
twice), every source that is a closer has been closed exactly once, the others never, and nothing
is left. -/
theorem multi_closes_each_once_read (srcs : List Src) (bufs : List Nat) (dflt : Nat)
    (hc : ∀ s ∈ srcs, s.closes = 0) (hd : 0 < dflt) (hnb : ∀ s ∈ srcs, s.term ≠ .bodyClosed) :
    ((Multi.new srcs).consume bufs dflt).1.close.closeCounts
        = srcs.map (fun s => if s.closable then 1 else 0) ∧
    ((Multi.new srcs).consume bufs dflt).1.close.readers = [] ∧
    ((Multi.new srcs).consume bufs dflt).1.close.close.closeCounts
        = srcs.map (fun s => if s.closable then 1 else 0) := by
  have hI := (Multi.consume_spec srcs bufs dflt hc hd).2
  obtain ⟨h1, _, _, h4⟩ := Multi.close_counts hI
  have h5 := h4 (by
    intro g hg
    obtain ⟨s, hs, rfl⟩ := List.mem_map.mp hg
    exact hnb s hs)
  have h6 : srcs.map (fun s => if s.closable then 1 else 0)
      = (srcs.map Src.ident).map (fun g => if g.1 then 1 else 0) := by
    simp only [List.map_map, Function.comp_def, Src.ident]
    apply List.map_congr_left
    intro a _; by_cases h : a.closable = true <;> simp [h]
  refine ⟨by rw [h5, h6], h1, ?_⟩
  -- a second Close finds nothing to close
  have : ((Multi.new srcs).consume bufs dflt).1.close.close.closeCounts
      = ((Multi.new srcs).consume bufs dflt).1.close.closeCounts := by
    simp [Multi.close, Multi.closeCounts]
  rw [this, h5, h6]

/-- WriteTo path (what `io.Copy` uses), any writer (even a failing one, with or without
`ReadFrom`), sources with or without `WriteTo`: after `WriteTo` and `Close`, every source that is
a closer has been closed exactly once. -/
theorem multi_closes_each_once_writeTo (srcs : List Src) (w : Wr)
    (hc : ∀ s ∈ srcs, s.closes = 0) (hnb : ∀ s ∈ srcs, s.term ≠ .bodyClosed) :
    ((Multi.new srcs).writeTo .fixed w).1.close.closeCounts
        = srcs.map (fun s => if s.closable then 1 else 0) ∧
    ((Multi.new srcs).writeTo .fixed w).1.close.readers = [] := by
  have hwt : (Multi.new srcs).writeTo .fixed w = Multi.writeLoop .fixed srcs [] w := rfl
  rw [hwt]
  obtain ⟨h1, h2, h3⟩ := Multi.writeLoop_inv srcs [] w hc (by simp)
  have hI : Multi.Inv (srcs.map Src.ident) (Multi.writeLoop .fixed srcs [] w).1 :=
    ⟨h1, h2, by simpa using h3⟩
  obtain ⟨h5, _, _, h4⟩ := Multi.close_counts hI
  have h6 := h4 (by
    intro g hg
    obtain ⟨s, hs, rfl⟩ := List.mem_map.mp hg
    exact hnb s hs)
  refine ⟨?_, h5⟩
  rw [h6]
  simp only [List.map_map, Function.comp_def, Src.ident]
  apply List.map_congr_left
  intro a _; by_cases h : a.closable = true <;> simp [h]

/-- Any mixture of the two paths, complete or not: after any sequence of `Read`s (any buffer sizes)
and `WriteTo`s (any writers) followed by `Close`, every closer source has been closed exactly once. -/
theorem multi_closes_each_once_any_use (srcs : List Src) (ops : List MultiOp)
    (hc : ∀ s ∈ srcs, s.closes = 0) (hnb : ∀ s ∈ srcs, s.term ≠ .bodyClosed) :
    (Multi.run .fixed (Multi.new srcs) ops).close.closeCounts
        = srcs.map (fun s => if s.closable then 1 else 0) := by
  have hI : Multi.Inv (srcs.map Src.ident) (Multi.new srcs) :=
    ⟨hc, by simp [Multi.new], by simp [Multi.new]⟩
  obtain ⟨_, _, _, h4⟩ := Multi.close_counts (Multi.run_inv ops _ hI)
  rw [h4 (by
    intro g hg
    obtain ⟨s, hs, rfl⟩ := List.mem_map.mp hg
    exact hnb s hs)]
  simp only [List.map_map, Function.comp_def, Src.ident]
  apply List.map_congr_left
  intro a _; by_cases h : a.closable = true <;> simp [h]

example : (Multi.run .fixed (Multi.new twoClosers) [.read 1, .writeTo goodWriter, .read 3]).close.closeCounts
    = [1, 1] := by decide

/-- With sources that may end in `http.ErrBodyReadAfterClose` (bodies somebody already closed):
after any use and `Close`, the sources are the original ones in the original order, each closed
exactly once if it is a closer — except that a source ending in that error may not have been closed
(again) at all, which is what `Read` does when it meets the error; no source is ever closed twice. -/
theorem multi_body_closed_not_closed_again (srcs : List Src) (ops : List MultiOp)
    (hc : ∀ s ∈ srcs, s.closes = 0) :
    (Multi.run .fixed (Multi.new srcs) ops).close.readers = [] ∧
    (Multi.run .fixed (Multi.new srcs) ops).close.done.map Src.ident = srcs.map Src.ident ∧
    (∀ s ∈ (Multi.run .fixed (Multi.new srcs) ops).close.done,
      s.closes ≤ 1 ∧ (s.term ≠ .bodyClosed → s.closes = if s.closable then 1 else 0)) := by
  have hI : Multi.Inv (srcs.map Src.ident) (Multi.new srcs) :=
    ⟨hc, by simp [Multi.new], by simp [Multi.new]⟩
  obtain ⟨h1, h2, h3, _⟩ := Multi.close_counts (Multi.run_inv ops _ hI)
  refine ⟨h1, h2, fun s hs => ?_⟩
  rcases h3 s hs with hco | ⟨hb, h0⟩
  · refine ⟨?_, fun _ => hco⟩
    unfold Src.closedOnce at hco; rw [hco]; split <;> omega
  · exact ⟨by omega, fun hne => absurd hb hne⟩

/-- … and on the Read path a body that answered `ErrBodyReadAfterClose` is indeed left alone:
consumed to the end and closed, its Close count is still 0 while the ordinary closer got 1. -/
example : ((Multi.new
    [{ rest := [], script := [], withData := false, term := .bodyClosed, closable := true, closes := 0 },
     { rest := [3], script := [], withData := false, term := .eof, closable := true, closes := 0 }]).consume [] 4).1.close.closeCounts
    = [0, 1] := by decide

/-- WriteTo path, writer that never fails: the writer receives the concatenation (up to the first
failing source) and `WriteTo` returns nil exactly when the stream ended in EOF. -/
theorem multi_writeTo_concat (srcs : List Src) (w : Wr)
    (hc : ∀ s ∈ srcs, s.closes = 0) (hw : w.cap = none) :
    ((Multi.new srcs).writeTo .fixed w).2.1.got = w.got ++ (multiSpecWT srcs).1 ∧
    ((Multi.new srcs).writeTo .fixed w).2.2 = errOfTerm (multiSpecWT srcs).2 := by
  obtain ⟨h1, h2⟩ := Multi.writeLoop_good srcs [] w hc hw
  exact ⟨by rw [show (Multi.new srcs).writeTo .fixed w = Multi.writeLoop .fixed srcs [] w from rfl, h1], h2⟩

/-- Code as found: `io.Copy(w, NewMultiReaderCloser(a, b))` then `Close` copies everything but
leaves both sources unclosed (replayed on the implementation by the harness). -/
theorem writeto_unclosed_witness :
    ((Multi.new twoClosers).writeTo .orig goodWriter).2.1.got = [1, 2, 3, 4] ∧
    ((Multi.new twoClosers).writeTo .orig goodWriter).1.close.closeCounts = [0, 0] := by decide

example : ((Multi.new twoClosers).writeTo .fixed goodWriter).1.close.closeCounts = [1, 1] := by decide

/-! ## TeeReadCloser -/

/-- The consumer receives the source's bytes and terminal unchanged and the writer receives
exactly the same bytes; if the writer fails first (it accepts only `c` more bytes, `c < |source|`)
both have received exactly the first `c` bytes and the consumer sees the writer's error, never a
clean EOF.  After `Close` the source has been closed exactly once if it is a closer. -/
theorem tee_preserves_and_copies (s : Src) (w : Wr) (bufs : List Nat) (dflt : Nat)
    (hc : s.closes = 0) (hd : 0 < dflt) :
    ((Tee.new s w).consume bufs dflt).2 = cut w.cap (s.rest, s.term) ∧
    ((Tee.new s w).consume bufs dflt).1.w.got = w.got ++ ((Tee.new s w).consume bufs dflt).2.1 ∧
    ((Tee.new s w).consume bufs dflt).1.close.src.closes = (if s.closable then 1 else 0) ∧
    ((Tee.new s w).consume bufs dflt).1.close.close.src.closes = (if s.closable then 1 else 0) := by
  obtain ⟨h1, hr, hw, hcl, hclos, hgot⟩ := Tee.consume_spec s w bufs dflt hc hd
  refine ⟨h1, by rw [hgot, h1], ?_, ?_⟩
  · simp only [Tee.close, hr, ↓reduceIte, Src.closeIfCloser, hclos, Src.close]
    split <;> simp [hcl]
  · simp only [Tee.close, hr, ↓reduceIte, Src.closeIfCloser, hclos, Src.close, Bool.false_eq_true]
    split <;> simp [hcl]

/-- writer that never fails, or has room for the whole source: bytes and terminal unchanged -/
theorem tee_preserves (s : Src) (w : Wr) (bufs : List Nat) (dflt : Nat)
    (hc : s.closes = 0) (hd : 0 < dflt) (hroom : ∀ c, w.cap = some c → s.rest.length ≤ c) :
    ((Tee.new s w).consume bufs dflt).2 = (s.rest, s.term) ∧
    ((Tee.new s w).consume bufs dflt).1.w.got = w.got ++ s.rest := by
  obtain ⟨h1, h2, _⟩ := tee_preserves_and_copies s w bufs dflt hc hd
  have : cut w.cap (s.rest, s.term) = (s.rest, s.term) := by
    cases hcap : w.cap with
    | none => rfl
    | some c => simp [cut, hroom c hcap]
  rw [this] at h1
  exact ⟨h1, by rw [h2, h1]⟩

/-- failing writer: a prefix, equal on both sides, ended by the writer's error -/
theorem tee_failing_writer_prefix (s : Src) (w : Wr) (c : Nat) (bufs : List Nat) (dflt : Nat)
    (hc : s.closes = 0) (hd : 0 < dflt) (hcap : w.cap = some c) (hlt : c < s.rest.length) :
    ((Tee.new s w).consume bufs dflt).2 = (s.rest.take c, .wfail) ∧
    ((Tee.new s w).consume bufs dflt).1.w.got = w.got ++ s.rest.take c := by
  obtain ⟨h1, h2, _⟩ := tee_preserves_and_copies s w bufs dflt hc hd
  have : cut w.cap (s.rest, s.term) = (s.rest.take c, .wfail) := by
    have : ¬ s.rest.length ≤ c := by omega
    simp [cut, hcap, this]
  rw [this] at h1
  exact ⟨h1, by rw [h2, h1]⟩

example : ∃ (s : Src) (w : Wr) (c : Nat), s.closes = 0 ∧ w.cap = some c ∧ c < s.rest.length ∧ 0 < c ∧
    s.script ≠ [] :=
  ⟨{ rest := [1, 2, 3, 4, 5], script := [2, 0, 2], withData := true, term := .eof, closable := true, closes := 0 },
   { got := [], cap := some 3, closable := true, closes := 0 }, 3, by decide⟩


/-! ## `io.CopyBuffer` fast paths inside `MultiReaderCloser.WriteTo` -/

/-- Whatever path `io.CopyBuffer(w, r, buf)` takes — `r.WriteTo(w)` when the source implements
`io.WriterTo` (strings.Reader, bytes.Buffer, *os.File …), `w.ReadFrom(r)` when the writer
implements `io.ReaderFrom` (any buffer size of its own), or the generic loop — a writer that never
fails receives the whole rest of the source, the result is the source's error (nil for EOF), and
the source's close count and identity are untouched. -/
theorem copyBuffer_all_paths (s : Src) (w : Wr) (hc : s.closes = 0) (hw : w.cap = none) :
    (copyBuffer s w).2.1.got = w.got ++ s.rest ∧ (copyBuffer s w).2.2 = errOfTerm s.term ∧
    (copyBuffer s w).1.closes = 0 ∧ (copyBuffer s w).1.closable = s.closable := by
  obtain ⟨h1, h2⟩ := copyBuffer_good s w hc hw
  obtain ⟨_, _, h3, h4⟩ := copyBuffer_meta s w hc
  exact ⟨by rw [h1], h2, by rw [h4, hc], h3⟩

/-- so `multi_writeTo_concat` and `multi_closes_each_once_writeTo` above hold verbatim for sources
with `WriteTo` and writers with `ReadFrom` (both quantify over all `Src` / `Wr`, flags included);
a concrete instance with both fast paths in play: -/
example :
    let srcs : List Src :=
      [{ rest := [1, 2], script := [1, 1], withData := false, term := .eof, closable := true, closes := 0, hasWriteTo := true },
       { rest := [3, 4], script := [0, 1], withData := true, term := .eof, closable := true, closes := 0 }]
    let w : Wr := { got := [], cap := none, closable := false, closes := 0, readFromBuf := 1 }
    ((Multi.new srcs).writeTo .fixed w).2.1.got = [1, 2, 3, 4] ∧
    ((Multi.new srcs).writeTo .fixed w).1.close.closeCounts = [1, 1] := by decide

/-- Observation (not part of the property): the two paths treat a body that answers
`http.ErrBodyReadAfterClose` differently — `Read` takes it for the end of that source, `WriteTo`
(through `io.CopyBuffer`) reports it as an error. -/
theorem writeTo_body_closed_differs :
    let srcs : List Src :=
      [{ rest := [], script := [], withData := false, term := .bodyClosed, closable := true, closes := 0 },
       { rest := [3], script := [], withData := false, term := .eof, closable := true, closes := 0 }]
    ((Multi.new srcs).consume [] 4).2 = ([3], .eof) ∧
    ((Multi.new srcs).writeTo .fixed goodWriter).2.2 = some .bodyClosed := by decide

/-! ## TeeReadCloser used from several goroutines (Read ∥ Close ∥ Stop under the mutex) -/

/-- In every state — before or after `Close`/`Stop`, whatever other calls ran in between — a `Read`
hands its caller only bytes it has written to the writer, and after `Close` or `Stop` it hands out
nothing (`io.ErrClosedPipe`). -/
theorem tee_read_only_returns_written (t : Tee) (m : Nat) :
    (t.read m).1.w.got = t.w.got ++ (t.read m).2.1 ∧
    (t.rOpen = false ∨ t.wOpen = false → t.read m = (t, [], some .closedPipe)) :=
  ⟨Tee.read_written t m, Tee.read_after_close t m⟩

/-- Every reachable state of the concurrent system (any number of goroutines calling Read, Close,
Stop in any interleaving; each body runs under the mutex): the writer holds exactly the bytes
handed out by the `Read`s so far, in lock order (plus those of the call inside the critical
section); r and w have each been closed at most once — exactly once, if a closer, as soon as they
are detached by `Close` (r, w) or `Stop` (w), and not at all before. -/
theorem tee_concurrent_safe (s : Src) (w : Wr) (hs : s.closes = 0) (hw : w.closes = 0)
    (c : TeeConc) (hr : TeeConc.Reach (Tee.new s w) c) :
    c.tee.w.got = w.got ++ c.returnedData ++ c.pendingData ∧
    c.tee.src.closes = (if c.tee.rOpen then 0 else if s.closable then 1 else 0) ∧
    c.tee.w.closes = (if c.tee.wOpen then 0 else if w.closable then 1 else 0) ∧
    c.tee.src.closes ≤ 1 ∧ c.tee.w.closes ≤ 1 ∧
    (c.holder = none ↔ c.result = none) := by
  have h0 : (Tee.new s w).CInv s.closable w.closable := by
    simp [Tee.CInv, Tee.new, hs, hw]
  obtain ⟨⟨_, _, h3, h4⟩, h5, h6⟩ := TeeConc.inv_of_reach h0 c hr
  refine ⟨h6, h3, h4, ?_, ?_, h5⟩
  · rw [h3]; split
    · omega
    · split <;> omega
  · rw [h4]; split
    · omega
    · split <;> omega

/-- No deadlock inside the reader: a call that waits gets the mutex as soon as it is free, and the
holder can always leave (method bodies terminate in the model: the source's `Read` returns). -/
theorem tee_concurrent_progress (c : TeeConc) :
    (∀ g op, c.holder = none → (g, op) ∈ c.waiting → (c.step (.enter g op)).isSome) ∧
    (∀ g d e, c.holder = some g → c.result = some (d, e) → ∀ op, (c.step (.leave g op)).isSome) := by
  refine ⟨fun g op hh hm => ?_, fun g d e hh hres op => ?_⟩
  · simp only [TeeConc.step, hh, hm, and_self, ↓reduceIte]
    rcases c.tee.apply op with ⟨t', d, e⟩
    rfl
  · simp [TeeConc.step, hh, hres]

/-- a schedule with two goroutines: g1's Read runs, g2's Close waits for the mutex, then runs; a
third call (Read by g1) afterwards gets `io.ErrClosedPipe` and no data -/
def demoSchedule : Option (List (Nat × Bytes × Option Err) × Nat × Nat × Bytes) :=
  ((TeeConc.init (Tee.new sixWithEOFScripted { got := [], cap := none, closable := true, closes := 0 })).run
    [.call 1 (.read 4), .enter 1 (.read 4), .call 2 .close, .leave 1 (.read 4),
     .enter 2 .close, .leave 2 .close, .call 1 (.read 4), .enter 1 (.read 4), .leave 1 (.read 4)]).map
    (fun c => (c.returned.map (fun x => (x.1, x.2.2)), c.tee.src.closes, c.tee.w.closes, c.tee.w.got))

example : demoSchedule
    = some ([(1, [], some .closedPipe), (2, [], none), (1, [1, 2], none)], 1, 1, [1, 2]) := by rfl

end Kit.Streams
