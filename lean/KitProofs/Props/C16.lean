import KitProofs.Lemmas.Streams
/-!
Property C16 — streams: bytes preserved for every chunking; oversize streams always fail.

All theorems quantify over *every* scripted source (content, script of per-read caps including
zero-length reads, terminal with the last data or alone, EOF or error) and *every* sequence of
consumer buffer sizes (`bufs`, then `dflt > 0` for ever).  They are about `Version.fixed`, the
model of `/repo/streams` after the `fix:` commits; the `…_witness` theorems show the code as found
(`Version.orig`) violating the statement.
-/
namespace Kit.Streams

/-! ## LimitReadCloser -/

/-- A source of at most `N` bytes passes through unchanged — bytes and terminal (EOF or the
source's own error) — and is closed exactly once by `Close` (not before). -/
theorem limit_identity (s : Src) (N : Nat) (bufs : List Nat) (dflt : Nat)
    (hc : s.closes = 0) (hd : 0 < dflt) (hle : s.rest.length ≤ N) :
    (Limit.consume .fixed (Limit.new s N) bufs dflt).2 = (s.rest, s.term) ∧
    (Limit.consume .fixed (Limit.new s N) bufs dflt).1.src.closes = 0 ∧
    (Limit.consume .fixed (Limit.new s N) bufs dflt).1.close.src.closes = 1 := by
  obtain ⟨h1, h2, h3⟩ := Limit.consume_spec s N bufs dflt hc hd
  have hcl : (Limit.consume .fixed (Limit.new s N) bufs dflt).1.closed = false := by
    cases h : (Limit.consume .fixed (Limit.new s N) bufs dflt).1.closed with
    | false => rfl
    | true => have := h3.mp h; omega
  refine ⟨?_, by simpa [hcl] using h2, ?_⟩
  · rw [h1, Limit.spec_new, if_pos hle]
  · simp only [hcl] at h2
    simp [Limit.close, hcl, Src.close, h2]

example : ∃ s : Src, s.closes = 0 ∧ s.rest.length ≤ 5 ∧ s.rest ≠ [] ∧ s.script ≠ [] :=
  ⟨{ rest := [1, 2, 3, 4, 5], script := [2, 0, 3], withData := true, term := .eof,
     closable := true, closes := 0 }, by decide⟩

/-- A source longer than `N` is never mistaken for a complete one: the consumer receives exactly
the first `N` bytes (so at most `N`) and then an error that is not EOF — `ErrStreamTooLarge`,
or the source's own error if that arrived in the same call as byte `N+1`; the source has been
closed when the error is returned and stays closed exactly once after `Close`. -/
theorem limit_never_silent (s : Src) (N : Nat) (bufs : List Nat) (dflt : Nat)
    (hc : s.closes = 0) (hd : 0 < dflt) (hgt : N < s.rest.length) :
    (Limit.consume .fixed (Limit.new s N) bufs dflt).2.1 = s.rest.take N ∧
    (Limit.consume .fixed (Limit.new s N) bufs dflt).2.2 ≠ .eof ∧
    ((Limit.consume .fixed (Limit.new s N) bufs dflt).2.2 = .tooLarge ∨
      (Limit.consume .fixed (Limit.new s N) bufs dflt).2.2 = s.term) ∧
    (s.term = .eof → (Limit.consume .fixed (Limit.new s N) bufs dflt).2.2 = .tooLarge) ∧
    (Limit.consume .fixed (Limit.new s N) bufs dflt).1.src.closes = 1 ∧
    (Limit.consume .fixed (Limit.new s N) bufs dflt).1.close.src.closes = 1 := by
  obtain ⟨h1, h2, h3⟩ := Limit.consume_spec s N bufs dflt hc hd
  have hcl : (Limit.consume .fixed (Limit.new s N) bufs dflt).1.closed = true := h3.mpr hgt
  have hspec : Limit.spec (Limit.new s N) = (s.rest.take N,
      if s.rest.length = N + 1 ∧ s.withData = true ∧ s.term ≠ .eof
      then s.term else .tooLarge) := by
    rw [Limit.spec_new, if_neg (by omega)]
  rw [h1, hspec]
  simp only [hcl, ↓reduceIte] at h2
  refine ⟨rfl, ?_, ?_, ?_, h2, by simp [Limit.close, hcl, h2]⟩
  · show (if _ then s.term else Err.tooLarge) ≠ Err.eof
    split
    · rename_i h; exact h.2.2
    · intro h; cases h
  · show (if _ then s.term else Err.tooLarge) = Err.tooLarge ∨ (if _ then s.term else Err.tooLarge) = s.term
    split
    · exact Or.inr rfl
    · exact Or.inl rfl
  · intro ht
    show (if _ then s.term else Err.tooLarge) = Err.tooLarge
    rw [if_neg (fun h => h.2.2 ht)]

example : ∃ s : Src, s.closes = 0 ∧ 5 < s.rest.length ∧ s.withData = true ∧ s.script ≠ [] :=
  ⟨{ rest := [1, 2, 3, 4, 5, 6], script := [5, 1], withData := true, term := .eof,
     closable := true, closes := 0 }, by decide⟩

/-- An error of the source is never turned into a clean EOF, whatever the length; within the
limit it is passed through unchanged after all the bytes. -/
theorem limit_error_passthrough (s : Src) (N : Nat) (bufs : List Nat) (dflt : Nat)
    (hc : s.closes = 0) (hd : 0 < dflt) (herr : s.term ≠ .eof) :
    (Limit.consume .fixed (Limit.new s N) bufs dflt).2.2 ≠ .eof ∧
    (s.rest.length ≤ N → (Limit.consume .fixed (Limit.new s N) bufs dflt).2 = (s.rest, s.term)) ∧
    (s.rest.length = N + 1 → s.withData = true →
      (Limit.consume .fixed (Limit.new s N) bufs dflt).2 = (s.rest.take N, s.term)) := by
  refine ⟨?_, fun hle => (limit_identity s N bufs dflt hc hd hle).1, ?_⟩
  · by_cases hle : s.rest.length ≤ N
    · rw [(limit_identity s N bufs dflt hc hd hle).1]; exact herr
    · exact (limit_never_silent s N bufs dflt hc hd (by omega)).2.1
  · intro hlen hwd
    obtain ⟨h1, _, _⟩ := Limit.consume_spec s N bufs dflt hc hd
    rw [h1, Limit.spec_new, if_neg (by omega), if_pos ⟨hlen, hwd, herr⟩]

example : ∃ s : Src, s.closes = 0 ∧ s.term ≠ .eof ∧ s.rest.length = 5 + 1 ∧ s.withData = true :=
  ⟨{ rest := [1, 2, 3, 4, 5, 6], script := [3, 0, 3], withData := true, term := .boom,
     closable := true, closes := 0 }, by decide⟩

/-! ### the code as found -/

def sixWithEOF : Src :=
  { rest := [1, 2, 3, 4, 5, 6], script := [], withData := true, term := .eof, closable := true, closes := 0 }

/-- Code as found: limit 5 over a 6-byte source that returns `(6, io.EOF)` yields 5 bytes and a
clean EOF — silent truncation (replayed on the implementation by the harness). -/
theorem limit_silent_witness :
    (Limit.consume .orig (Limit.new sixWithEOF 5) [] 512).2 = ([1, 2, 3, 4, 5], .eof) := by decide

/-- Code as found: `LimitReadCloser(r, math.MaxInt64)` panics on the first `Read`
(`l.N+1` wraps to `MinInt64` and is used as a slice bound). -/
theorem limit_maxint64_panic_witness :
    (Limit.read .orig (Limit.new sixWithEOF maxInt64) 512).2.2 = some .panic := by decide

/-- The repaired clip never panics and never computes outside `int64` for any `int64` limit. -/
theorem limit_clip_total (n : Int) (m : Nat) (hn : 0 ≤ n) (hm : 0 < m) :
    clip .fixed n m = some (min m (n.toNat + 1)) ∧
    ((m : Int) - 1 > n → n + 1 ≤ maxInt64 ∨ maxInt64 < (m : Int)) := by
  refine ⟨clip_fixed hn m, fun h => ?_⟩
  unfold maxInt64; omega

end Kit.Streams
