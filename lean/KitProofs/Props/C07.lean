import KitProofs.Lemmas.NoPanicTime
import KitProofs.Lemmas.NoPanicGlue
import KitProofs.Lemmas.NoPanicNames
import KitProofs.Lemmas.NoPanicPrefix
import KitProofs.Lemmas.NoPanicSniff
import KitModel.NoPanicInventory
/-!
# C07 — no input can crash or hang a parser, decoder or crypto entry point

Property theorems only (helper lemmas: `KitProofs/Lemmas/NoPanicTime.lean`, `NoPanicGlue.lean`).
Layer 1: `∀ input, (f input).isPanic = false` for every entry point modelled here (loops carry
fuel; exhausting it is a panic in the model, so these theorems are also the iteration bounds).
Layer 2: the generated panic-site inventory of the anchored files is fully discharged
(`sites_covered`), every `guardedBy` names a condition that syntactically dominates its site in
the current source, and every theorem the table refers to exists.
Theorems about entry points modelled by other properties are re-exported in `C07Imported.lean`.
-/
namespace Kit.C07
open Kit Kit.NoPanic

/-! ## time/time.go -/

/-- `ParseISO8601Duration` never indexes or slices out of range, for every byte string; the
`R…/` scan and the main loop each finish within `len(from)` iterations. -/
theorem parseISO8601_never_panics (s : Bytes) : (Time.parseISO8601 s).isPanic = false :=
  Time.parseISO8601_noPanic s

-- "R5/P1Y2M3DT4H5M6S"
example : Time.parseISO8601 [82, 53, 47, 80, 49, 89, 50, 77, 51, 68, 84, 52, 72, 53, 77, 54, 83]
    = .ok { years := 1, months := 2, days := 3, dur := 14706000000000, rep := 5 } := by decide +kernel

/-- The `R` scan terminates within `len(from)` steps and leaves `0 < i ≤ len(from)`. -/
theorem scanR_terminates (s : Bytes) (h : 0 < s.length) :
    ∃ j, Time.scanR s s.length 0 = .ok j ∧ 0 < j ∧ j ≤ s.length :=
  Time.scanR_ok s s.length 0 h (by omega)

example : (0 : Nat) < ([82, 47] : Bytes).length := by decide

/-- `ParseDuration` adds no panic of its own, whatever `time.ParseDuration` answers. -/
theorem parseDuration_never_panics (std : Bytes → Bool) (s : Bytes) : (Time.parseDuration std s).isPanic = false := by
  unfold Time.parseDuration
  have := parseISO8601_never_panics s
  revert this
  cases Time.parseISO8601 s with
  | ok r => intro _; rfl
  | err e => intro _; exact ite_noPanic _ _ _ rfl rfl
  | panic w => intro h; simp at h

/-- `ParseTime` adds no panic of its own, whatever the standard-library parsers answer. -/
theorem parseTime_never_panics (std rfc : Bytes → Bool) (s : Bytes) : (Time.parseTime std rfc s).isPanic = false := by
  unfold Time.parseTime
  have := parseISO8601_never_panics s
  revert this
  cases Time.parseISO8601 s with
  | ok r => intro _; exact ite_noPanic _ _ _ rfl rfl
  | err e => intro _; exact ite_noPanic _ _ _ rfl (ite_noPanic _ _ _ rfl rfl)
  | panic w => intro h; simp at h

/-! ## crypto/keys.go -/

/-- `ParseKey`'s heuristic (`raw[0]`, `raw[0:5]`) stays in bounds for every input and content type. -/
theorem parseKey_never_panics (raw : Bytes) (ct : String) : (Keys.parseKeyBranch raw ct).isPanic = false := by
  unfold Keys.parseKeyBranch
  simp only []
  split
  · rfl
  · rename_i h0
    have hpos : 0 < raw.length := by
      have : raw.length ≠ 0 := by simpa using h0
      omega
    split
    · rfl
    · split
      · rfl
      · rw [idx_ok hpos, bind_ok]
        split
        · rfl
        · split
          · rename_i h10
            rw [slice_ok (Nat.zero_le 5) (by omega), bind_ok]
            split <;> rfl
          · rfl

-- "-----BEGIN …" (27 bytes) goes to the PEM parser; '{' + 15 bytes (16 in all) is a symmetric key
example : Keys.parseKeyBranch [45, 45, 45, 45, 45, 66, 69, 71, 73, 78, 32, 80] "" = .ok .pem := by decide
example : Keys.parseKeyBranch [123, 50, 51, 52, 53, 54, 55, 56, 57, 48, 49, 50, 51, 52, 53, 54] "" = .ok .symmetric := by decide
example : Keys.parseKeyBranch [123, 125] "" = .ok .jwk := by decide

/-! ### `ParseKey`: the length guard and the slice expression must be about the same value

`Keys.parseKeyBranchOn bound hi fill view raw ct` guards with `len(raw) > bound` and slices
`(view raw)[0:hi]`, a Go slice value with its own length and capacity. -/

/-- The model of `parseKey_never_panics` is the instance "slice the guarded value itself,
`len(raw) > 10`, `[0:5]`" — whatever the spare capacity behind the input and whatever it holds. -/
theorem parseKeyOn_id_eq_model (fill : UInt8) (raw : Bytes) (spare : Nat) (ct : String) :
    Keys.parseKeyBranchOn 10 5 fill id { data := raw, spare := spare } ct = Keys.parseKeyBranch raw ct := by
  unfold Keys.parseKeyBranchOn Keys.parseKeyBranch
  simp only [Keys.GoSlice.len, id]
  by_cases h10 : raw.length > 10
  · rw [Keys.sliceCap_eq_slice fill raw spare 5 (by omega)]
    rfl
  · simp only [h10, if_false]

/-- When the marker is read from the guarded value itself, any guard `len(raw) > bound` with
`hi ≤ bound + 1` keeps `raw[0:hi]` in range: no input, content type, or capacity makes it panic. -/
theorem parseKeyOn_same_value_never_panics (bound hi : Nat) (fill : UInt8) (h : hi ≤ bound + 1)
    (raw : Keys.GoSlice) (ct : String) : (Keys.parseKeyBranchOn bound hi fill id raw ct).isPanic = false := by
  rw [Keys.parseKeyBranchOn_isPanic]
  cases hs : Keys.sniffReached bound raw.data ct with
  | false => rfl
  | true =>
    have hlen := Keys.sniffReached_length hs
    have hcap : ¬ ((id raw).cap < hi) := by
      show ¬ (raw.data.length + raw.spare < hi)
      omega
    simp only [Bool.true_and, decide_eq_false_iff_not]
    exact hcap

/-- For an ARBITRARY sliced value `view raw` the model panics exactly when the heuristic reaches the
slice expression (non-empty input, no recognised content type, not taken for a JWK, longer than
`bound`) and `view raw` has fewer than `hi` elements of capacity: the guard says nothing about it. -/
theorem parseKeyOn_panics_iff (bound hi : Nat) (fill : UInt8) (view : Keys.GoSlice → Keys.GoSlice)
    (raw : Keys.GoSlice) (ct : String) :
    (Keys.parseKeyBranchOn bound hi fill view raw ct).isPanic = true ↔
      Keys.sniffReached bound raw.data ct = true ∧ (view raw).cap < hi := by
  rw [Keys.parseKeyBranchOn_isPanic]; simp

/-- The class of the seeded change C07-r5m1, characterised: sniffing the marker on
`bytes.TrimLeft(raw, " \t\r\n")` behind the guard on the untrimmed length panics exactly for an
input of more than 10 bytes that reaches the heuristic and either consists of blanks only (a blank
key file, a raw AES key of 0x20 bytes; `TrimLeft` returns nil) or keeps fewer than 5 bytes of
length + spare capacity behind its leading blanks. -/
theorem parseKey_trimmed_view_panics_iff (fill : UInt8) (raw : Keys.GoSlice) (ct : String) :
    (Keys.parseKeyBranchOn 10 5 fill Keys.trimLeftBlanks raw ct).isPanic = true ↔
      Keys.sniffReached 10 raw.data ct = true ∧
        (raw.data.all Keys.isBlank = true ∨ (raw.data.dropWhile Keys.isBlank).length + raw.spare < 5) := by
  rw [parseKeyOn_panics_iff, Keys.trimLeftBlanks_cap]
  constructor
  · rintro ⟨h1, h2⟩
    refine ⟨h1, ?_⟩
    by_cases hall : raw.data.all Keys.isBlank = true
    · exact Or.inl hall
    · right; simpa [hall] using h2
  · rintro ⟨h1, h2⟩
    refine ⟨h1, ?_⟩
    by_cases hall : raw.data.all Keys.isBlank = true
    · simp [hall]
    · rcases h2 with h2 | h2
      · exact absurd h2 hall
      · simpa [hall] using h2

/-- So "the slice is in range" is NOT a theorem of a model in which the sliced value may differ from
the guarded one: the hypothesis `view = id` of `parseKeyOn_same_value_never_panics` is needed. -/
theorem parseKeyOn_view_must_be_the_guarded_value :
    ¬ ∀ (view : Keys.GoSlice → Keys.GoSlice) (raw : Keys.GoSlice) (ct : String),
        (Keys.parseKeyBranchOn 10 5 0 view raw ct).isPanic = false := by
  intro h
  have := h Keys.trimLeftBlanks { data := List.replicate 11 32, spare := 0 } ""
  revert this
  decide

-- 11 spaces; a raw AES-128 key of 0x20 bytes (also with spare capacity: TrimLeft returns nil); ten newlines + "abc"
example : (Keys.parseKeyBranchOn 10 5 0 Keys.trimLeftBlanks { data := List.replicate 11 32 } "").isPanic = true := by decide
example : (Keys.parseKeyBranchOn 10 5 0 Keys.trimLeftBlanks { data := List.replicate 16 32, spare := 100 } "text/plain").isPanic = true := by decide
example : (Keys.parseKeyBranchOn 10 5 0 Keys.trimLeftBlanks { data := List.replicate 10 10 ++ [97, 98, 99] } "").isPanic = true := by decide
-- the same input with two spare bytes, ten blanks only, and every one of them under `view = id`: no panic
example : Keys.parseKeyBranchOn 10 5 0 Keys.trimLeftBlanks { data := List.replicate 10 10 ++ [97, 98, 99], spare := 2 } "" = .ok .symmetric := by decide
example : Keys.parseKeyBranchOn 10 5 0 Keys.trimLeftBlanks { data := List.replicate 10 32 } "" = .ok .symmetric := by decide
example : Keys.parseKeyBranchOn 10 5 0 id { data := List.replicate 16 32 } "" = .ok .symmetric := by decide
example : Keys.parseKeyBranchOn 10 5 0 Keys.trimLeftBlanks { data := [10, 10] ++ Keys.dashes ++ [66, 69, 71, 73, 78, 32] } "" = .ok .pem := by decide

/-- **Tie to the source.** In the regenerated facts every constant-bound slice / index expression
that is dominated by length guards is covered by one of them ON THE SLICED VARIABLE ITSELF (operand
resolved through `l := len(x)`, not stale, `need ≤ minLen`), or is one of the two reviewed
derived-operand sites (`vv := []rune(str)`). A guard on another value — `l > 10` on the untrimmed
input in front of `pemStart[0:5]` — makes this fail. -/
theorem const_bounds_guarded_on_the_same_value : Inventory.guardedOnAnotherValue = [] := by decide +kernel

/-- `ParseKey`'s two sites are what the model says: `raw[0]` behind `l := len(raw); l == 0`, and
`raw[0:5]` behind `len(raw) > 10` (`minLen = 11`) on the same variable — the constants `10` and `5`
of `Keys.parseKeyBranch` and the identity view of `parseKeyOn_id_eq_model`. -/
theorem parseKey_sniff_sites_match_model :
    (Generated.C07.constBounds.filter (·.fn == "crypto.ParseKey")).map
        (fun r => (r.expr, r.operand, r.need, (r.lenGuards.filter (·.operand == r.operand)).map (·.minLen)))
      = [("raw[0]", "raw", 1, [1]), ("raw[0:5]", "raw", 5, [1, 11])] := by decide +kernel

/-- The model instantiated with the constants of any `crypto.ParseKey` record whose guard is on the
sliced variable and implies the bound never panics (in particular with the regenerated ones). -/
theorem parseKey_never_panics_at_source_constants (r : Generated.C07.ConstBound) (g : Generated.C07.LenGuard)
    (_hr : r ∈ Generated.C07.constBounds) (_hg : g ∈ r.lenGuards) (_hsame : g.operand = r.operand)
    (hneed : r.need ≤ g.minLen) (fill : UInt8) (raw : Keys.GoSlice) (ct : String) :
    (Keys.parseKeyBranchOn (g.minLen - 1) r.need fill id raw ct).isPanic = false :=
  parseKeyOn_same_value_never_panics _ _ fill (by omega) raw ct

/-- `parseSymmetricKey`: the destination buffer sized from `len(raw)` is large enough for decoding
the trimmed input, and `dst[:n]` is in range, for every decoder that honours `encoding/base64`'s
contract (`n ≤ DecodedLen(len(src))`). -/
theorem parseSymmetric_never_panics (decStd decUrl : Bytes → Option Nat)
    (hStd : ∀ src n, decStd src = some n → n ≤ Keys.rawDecodedLen src.length)
    (hUrl : ∀ src n, decUrl src = some n → n ≤ Keys.rawDecodedLen src.length)
    (raw : Bytes) : (Keys.parseSymmetric decStd decUrl raw).isPanic = false := by
  unfold Keys.parseSymmetric
  have hmk : makeChk (Keys.rawDecodedLen raw.length : Int) = .ok (Keys.rawDecodedLen raw.length) := by
    simp [makeChk]
  have hmono := Keys.rawDecodedLen_mono (Keys.trimRight_length_le raw)
  simp only [hmk, bind_ok, Keys.decodeInto_ok]
  cases h1 : decStd (Keys.trimRight raw) with
  | some n =>
    have := hStd _ _ h1
    simp only []
    rw [Keys.sliceChk_ok (by omega), bind_ok]; rfl
  | none =>
    simp only []
    cases h2 : decUrl (Keys.trimRight raw) with
    | some n =>
      have := hUrl _ _ h2
      simp only []
      rw [Keys.sliceChk_ok (by omega), bind_ok]; rfl
    | none => rfl

example : ∃ dec : Bytes → Option Nat, (∀ src n, dec src = some n → n ≤ Keys.rawDecodedLen src.length) ∧ dec [65, 65, 65, 65] = some 3 :=
  ⟨fun src => some (Keys.rawDecodedLen src.length), fun _ _ h => by simp at h; omega, by decide⟩

/-! ## crypto/pem/pem.go, utils/pem.go -/

/-- After the `fix:` commit `DecodePEMPrivateKey` returns an error for every PKCS#8 key type,
signing or not. -/
theorem decodePEMPrivateKey_never_panics (block : Option Keys.BlockType) (sec1 pkcs1 : Bool) (k : Option Keys.Pkcs8Key) :
    (Keys.decodePEMPrivateKey true block sec1 pkcs1 k).isPanic = false := by
  cases block with
  | none => rfl
  | some b =>
    cases b <;> cases sec1 <;> cases pkcs1 <;> cases k with
    | none => rfl
    | some kk => cases kk <;> rfl

/-- The code as found panicked on a well-formed X25519 (`*ecdh.PrivateKey`) PKCS#8 key. -/
theorem decodePEMPrivateKey_prefix_witness :
    (Keys.decodePEMPrivateKey false (some .privateKey) false false (some .ecdh)).isPanic = true := by decide

/-- `DecodePEMCertificates` terminates within `len(input)` iterations: `pem.Decode` returns a
strictly shorter remainder, and the Go code drops the remainder when the block is not a certificate. -/
theorem decodeCertificates_terminates (step : Bytes → Keys.CertStep)
    (hstep : ∀ b rest, step b = .cert rest → rest.length < b.length) (crtb : Bytes) :
    (Keys.decodeCerts step crtb.length crtb 0).isPanic = false :=
  Keys.decodeCerts_noPanic step hstep crtb.length crtb 0 (Nat.le_refl _)

example : ∃ step : Bytes → Keys.CertStep, (∀ b rest, step b = .cert rest → rest.length < b.length) ∧ step [1, 2] = .cert [2] :=
  ⟨fun b => match b with | [] => .stop | _ :: t => .cert t, by
    intro b rest h
    cases b with
    | nil => simp at h
    | cons a t => simp at h; subst h; simp, rfl⟩

/-- `DecodePEMCertificatesChain`: `certs[i]`, `certs[i+1]` are in range for `i < len(certs)-1`
(signed arithmetic, so an empty list does not underflow). -/
theorem chainLoop_never_panics (n : Nat) : (Keys.chainLoop n n 0).isPanic = false :=
  Keys.chainLoop_noPanic n n 0 (by omega) (by omega)

/-! ## schemes/enc/v1 manifest / algorithms / ciphers -/

theorem keyAlgUnmarshal_never_panics (data : Bytes) : (Enc.keyAlgUnmarshal data).isPanic = false := by
  unfold Enc.keyAlgUnmarshal
  refine ite_noPanic _ _ _ rfl ?_
  cases atoi data with
  | none => rfl
  | some id =>
    simp only [Enc.keyAlgFromID]
    exact ite_noPanic _ _ _ rfl (ite_noPanic _ _ _ rfl (ite_noPanic _ _ _ rfl (ite_noPanic _ _ _ rfl (ite_noPanic _ _ _ rfl rfl))))

theorem cipherUnmarshal_never_panics (data : Bytes) : (Enc.cipherUnmarshal data).isPanic = false := by
  unfold Enc.cipherUnmarshal
  refine ite_noPanic _ _ _ rfl ?_
  cases atoi data with
  | none => rfl
  | some id =>
    simp only [Enc.cipherFromID]
    exact ite_noPanic _ _ _ rfl (ite_noPanic _ _ _ rfl rfl)

theorem manifestValidate_never_panics (kw cph : String) (wfkLen npLen : Nat) :
    (Enc.manifestValidate kw wfkLen cph npLen).isPanic = false := by
  unfold Enc.manifestValidate
  refine bind_noPanic _ _ ?_ ?_
  · unfold Enc.keyAlgValidate
    exact ite_noPanic _ _ _ rfl (ite_noPanic _ _ _ rfl (ite_noPanic _ _ _ rfl rfl))
  · intro kw' _
    refine ite_noPanic _ _ _ rfl (bind_noPanic _ _ ?_ ?_)
    · unfold Enc.cipherValidate
      exact ite_noPanic _ _ _ rfl rfl
    · intro cph' _
      exact ite_noPanic _ _ _ rfl rfl

example : Enc.manifestValidate "AES" 40 "AES-GCM" 7 = .ok ("A256KW", "AES-GCM") := by decide

/-- A key algorithm accepted by `UnmarshalJSON` is one `Validate` accepts unchanged and has ID 1..5. -/
theorem keyAlgUnmarshal_valid (data : Bytes) (a : String) (h : Enc.keyAlgUnmarshal data = .ok a) :
    Enc.keyAlgValidate a = .ok a ∧ 1 ≤ Enc.keyAlgID a ∧ Enc.keyAlgID a ≤ 5 := by
  unfold Enc.keyAlgUnmarshal at h
  split at h
  · simp at h
  · cases hi : atoi data with
    | none => simp [hi] at h
    | some id =>
      simp only [hi, Enc.keyAlgFromID] at h
      split at h
      · cases h; decide
      · split at h
        · cases h; decide
        · split at h
          · cases h; decide
          · split at h
            · cases h; decide
            · split at h
              · cases h; decide
              · simp at h

example : Enc.keyAlgUnmarshal [53] = .ok "RSA-OAEP-256" := by decide

/-! ## streams/uppercase_transformer.go -/

/-- `RuneToUppercase` is total on every `rune` value (negative and beyond `MaxRune` included): the
ASCII branch yields exactly one byte. -/
theorem runeToUppercase_total (c : Int) :
    Enc.runeToUppercase c = .delegated ∨ ∃ b, Enc.runeToUppercase c = .bytes [b] := by
  unfold Enc.runeToUppercase
  by_cases h : c < 128
  · right
    simp only [h, if_true]
    split
    · exact ⟨_, rfl⟩
    · exact ⟨_, rfl⟩
  · left; simp [h]

example : Enc.runeToUppercase 97 = .bytes [65] := by decide
example : Enc.runeToUppercase (-1) = .bytes [255] := by decide

/-- The transformer's pull loop finishes within `len(input)` iterations for every input (invalid
UTF-8 included), given `ReadRune` consumes at least one byte of a non-empty buffer. -/
theorem upperLoop_terminates (runeLen : Bytes → Nat) (input : Bytes) :
    (Enc.upperLoop runeLen input.length input 0).isPanic = false :=
  Enc.upperLoop_noPanic runeLen input.length input 0 (Nat.le_refl _)

/-! ## metadata -/

/-- Every unchecked `data.(T)` in the five decode hooks succeeds for the values `DecodeMetadata`
can feed them (it converts its input to `map[string]string` first), for every target type and
every result of the opaque parsers. -/
theorem hookChain_never_panics (o : Decode.Oracle) (f t : Decode.Ty) (hf : Decode.fromDecodeMetadata f) :
    (Decode.hookChain o f t).isPanic = false := by
  rcases hf with rfl | rfl <;> cases t <;>
    rcases o with ⟨_ | _, _ | _, _ | _, _ | _, _ | _⟩ <;> decide

example : Decode.fromDecodeMetadata .string := Or.inl rfl

/-- The hooks are not safe for arbitrary sources: an `int64` (or a named string type) aimed at a
`time.Duration` field panics in `data.(time.Duration)` / `data.(string)`.  Unreachable through
`DecodeMetadata`; recorded so that exporting the hooks would be noticed. -/
theorem durHook_foreign_source_witness :
    (Decode.durHook ⟨false, true, true, true, true⟩ .int64 .duration).isPanic = true ∧
    (Decode.durHook ⟨false, true, true, true, true⟩ .namedString .duration).isPanic = true := by decide

/-- `exponentTooLarge` (the guard in front of `resource.ParseQuantity`, fix a0f5161): `str[i+1:]`,
`digits[0]`, `digits[1:]` are in range for every string. -/
theorem exponentTooLarge_never_panics (str : Bytes) : (Decode.exponentTooLarge str).isPanic = false :=
  Decode.exponentTooLarge_noPanic str

/-- Whatever reaches `resource.ParseQuantity` is exactly the guarded string, and the guard answered
"not too large" for it: no decimal exponent beyond ±1000 reaches the parser. -/
theorem quantity_arg_guarded (str a : Bytes) (h : Decode.quantityCall str = .ok a) :
    a = str ∧ Decode.exponentTooLarge a = .ok false := by
  unfold Decode.quantityCall at h
  cases hb : Decode.exponentTooLarge str with
  | ok big =>
    rw [hb, bind_ok] at h
    cases big
    · simp only [Bool.false_eq_true, if_false] at h
      cases h
      exact ⟨rfl, hb⟩
    · simp at h
  | err e => rw [hb] at h; simp [Outcome.bind] at h
  | panic w => rw [hb] at h; simp [Outcome.bind] at h

example : Decode.quantityCall [49, 101, 51] = .ok [49, 101, 51] := by decide
-- with a trailing newline the suffix is not a decimal exponent: the guard lets it through and the SAME
-- bytes (newline included) reach the parser, which rejects them; a parser fed the trimmed string would not
example : Decode.quantityCall [49, 101, 45, 57, 57, 57, 57, 57, 57, 57, 57, 57, 10] = .ok [49, 101, 45, 57, 57, 57, 57, 57, 57, 57, 57, 57, 10] := by decide

-- "1e-999999999" is refused, "5Ei" and "1e3" go on to the parser
example : Decode.exponentTooLarge [49, 101, 45, 57, 57, 57, 57, 57, 57, 57, 57, 57] = .ok true := by decide
example : Decode.exponentTooLarge [53, 69, 105] = .ok false := by decide
example : Decode.exponentTooLarge [49, 101, 51] = .ok false := by decide

/-- `DecodeMetadata`'s struct-input branch after the `fix:` commit never panics. -/
theorem decodeMetadataPrefix_never_panics (inp : Decode.Input) (castOk : Bool) :
    (Decode.decodeMetadataPrefix true inp castOk).isPanic = false := by
  cases inp with
  | notStruct => cases castOk <;> rfl
  | structWith p => cases castOk <;> rfl

/-- The code as found panicked on a struct whose `Properties` is a map of another type, or is
promoted through a nil embedded pointer. -/
theorem decodeMetadataPrefix_prefix_witness :
    (Decode.decodeMetadataPrefix false (.structWith .otherMap) true).isPanic = true ∧
    (Decode.decodeMetadataPrefix false (.structWith .viaNilEmbeddedPtr) true).isPanic = true := by decide

/-- `resolveAliases` panics only for a nil `result` argument (`reflect.TypeOf(nil)`), which is the
caller's program text, not input. -/
theorem resolveAliases_never_panics (dup : Bool) (r : Decode.RKind) (h : r ≠ .nilType) :
    (Decode.resolveAliases dup r).isPanic = false := by
  cases dup <;> cases r <;> first | rfl | exact absurd rfl h

example : Decode.RKind.ptrToStruct ≠ .nilType := by decide

/-! ## config -/

/-- `decodeString` after the `fix:` commits never panics, provided a target type that implements
`StringDecoder` directly is a pointer type (value-receiver implementations are program text, not
input; the negation below shows the hypothesis is needed). -/
theorem decodeString_never_panics (c : Decode.CfgIn) (h : c.tImplements = true → c.tIsPtr = true) :
    (Decode.decodeString true c).isPanic = false := by
  unfold Decode.decodeString
  refine ite_noPanic _ _ _ rfl ?_
  have hA : (Decode.afterPtr true c).isPanic = false := by
    unfold Decode.afterPtr
    refine ite_noPanic _ _ _ ?_ rfl
    cases c.pointee <;> rfl
  have hT : ∀ fk, (Decode.decodeTail c fk).isPanic = false := by
    intro fk
    unfold Decode.decodeTail
    refine ite_noPanic _ _ _ rfl (ite_noPanic _ _ _ rfl ?_)
    by_cases hi : c.tImplements = true
    · simp only [hi, h hi, if_true]
      exact ite_noPanic _ _ _ rfl rfl
    · rw [if_neg hi]
      exact ite_noPanic _ _ _ (ite_noPanic _ _ _ rfl rfl) (ite_noPanic _ _ _ rfl rfl)
  revert hA
  cases Decode.afterPtr true c with
  | ok fk => intro _; exact hT fk
  | err e => intro _; rfl
  | panic w => intro hp; simp at hp

example : ∃ c : Decode.CfgIn, (c.tImplements = true → c.tIsPtr = true) ∧ c.fKind = .ptr ∧ c.pointee = .nilPointer :=
  ⟨⟨.int, .ptr, .nilPointer, .string, true, true, true, false, true, true⟩, fun _ => rfl, rfl, rfl⟩

/-- The code as found: a pointer to a nil interface / nil pointer made the hook return nil and
mapstructure panic. -/
theorem decodeString_prefix_witness :
    (Decode.decodeString false ⟨.struct, .ptr, .nilInterface, .other, false, false, false, false, true, true⟩).isPanic = true := by decide

/-- Without the hypothesis: a non-pointer type implementing `StringDecoder` with a value receiver
panics in `t.Elem()` (type-driven, outside the property's inputs). -/
theorem decodeString_value_receiver_witness :
    (Decode.decodeString true ⟨.struct, .string, .value, .string, true, true, false, false, true, true⟩).isPanic = true := by decide

/-- `Normalize` never panics and terminates on every finite value tree. -/
theorem normalize_never_panics (v : Decode.Val) : (Decode.normalize v).isPanic = false :=
  Decode.normalize_noPanic v

example : Decode.normalize (.mapAny [(true, .list [.scalar, .mapStr [.scalar]]), (false, .scalar)]) = .err "error parsing config field" := by
  simp [Decode.normalize, Decode.normalizeKVs, Decode.normalizeAll, Outcome.bind]

/-! ## config/prefix.go, retry/retry.go — configuration maps selected by a key prefix -/

/-- `uncapitalize` never indexes the empty rune slice: `[]rune(str)` of a non-empty string has at
least one element (an invalid first byte decodes to U+FFFD), and the empty string is returned by
the `len(str) == 0` guard — for every byte string and every `unicode.ToLower`. -/
theorem uncapitalize_never_panics (toLower : Prefix.Rune → Prefix.Rune) (str : Bytes) :
    (Prefix.uncapitalize toLower str).isPanic = false :=
  Prefix.uncapitalize_noPanic toLower str

-- "Éa" → "éa" (two-byte first rune), "\xffA" → U+FFFD "A" re-encoded, "" → ""
example : Prefix.uncapitalize (fun r => if r = 0xC9 then 0xE9 else r) [0xC3, 0x89, 0x61] = .ok [0xC3, 0xA9, 0x61] := by decide +kernel
example : Prefix.uncapitalize id [0xFF, 0x41] = .ok [0xEF, 0xBF, 0xBD, 0x41] := by decide +kernel
example : Prefix.uncapitalize id [] = .ok [] := by decide +kernel

/-- The guard is what makes it so: the same body without `if len(str) == 0 { return str }` panics on
the empty string and only there. -/
theorem uncapitalize_guard_needed (toLower : Prefix.Rune → Prefix.Rune) (str : Bytes) :
    (Prefix.uncapitalizeUnguarded toLower str).isPanic = true ↔ str = [] :=
  Prefix.uncapitalizeUnguarded_panics_iff toLower str

/-- `[]rune(str)`: every decoding step consumes between one byte and all remaining bytes, a
non-empty string yields a non-empty slice, and `len(str)` steps always suffice. -/
theorem runes_of_string (p0 : UInt8) (rest : Bytes) :
    1 ≤ (Prefix.decodeRune p0 rest).2 ∧ (Prefix.decodeRune p0 rest).2 ≤ rest.length + 1 ∧
    Prefix.runesOf (p0 :: rest) ≠ [] ∧
    ∀ fuel, (p0 :: rest).length ≤ fuel → Prefix.runesFuel fuel (p0 :: rest) = Prefix.runesOf (p0 :: rest) :=
  ⟨(Prefix.decodeRune_width p0 rest).1, (Prefix.decodeRune_width p0 rest).2,
   Prefix.runesOf_ne_nil _ (List.cons_ne_nil _ _),
   fun fuel h => Prefix.runesFuel_indep fuel _ _ h (Nat.le_refl _)⟩

/-- `config.PrefixedBy` never panics: for a `map[string]interface{}`, a `map[string]string`, a
`map[interface{}]interface{}` (string and non-string keys) or any other value, for every prefix —
keys equal to the prefix, empty keys, the empty prefix, keys shorter than the prefix, invalid
UTF-8 included. -/
theorem prefixedBy_never_panics (toLower : Prefix.Rune → Prefix.Rune) (inp : Prefix.Input) (pre : Bytes) :
    (Prefix.prefixedBy toLower inp pre).isPanic = false :=
  Prefix.prefixedByWith_noPanic _ (Prefix.uncapitalize_noPanic toLower) inp pre

-- {"backOff": …, "backOffMaxRetries": …, "other": …} by "backOff": the key equal to the prefix becomes ""
example : Prefix.prefixedBy id (.mapStrStr [[98, 97, 99, 107, 79, 102, 102], [98, 97, 99, 107, 79, 102, 102, 77], [111]])
    [98, 97, 99, 107, 79, 102, 102] = .ok [[], [77]] := by decide +kernel
example : Prefix.prefixedBy id (.mapAnyAny [(none, .scalar)]) [] = .err "error parsing config field" := by decide +kernel

/-- With the guard hoisted out of `uncapitalize` and not re-established in a branch of
`PrefixedBy`, a `map[string]string` makes it panic exactly when one key is byte for byte the prefix
(the class of change the round-4 seeded patch belongs to). -/
theorem prefixedBy_unguarded_panics_iff_key_is_prefix (toLower : Prefix.Rune → Prefix.Rune) (ks : List Bytes) (pre : Bytes) :
    (Prefix.prefixedByWith (Prefix.uncapitalizeUnguarded toLower) (.mapStrStr ks) pre).isPanic = true ↔ pre ∈ ks := by
  unfold Prefix.prefixedByWith
  simp only [Prefix.Input.toVal, Prefix.Input.keys, Decode.normalize, bind_ok]
  exact Prefix.convertKeys_unguarded_panics_iff toLower pre ks

/-- `retry.DecodeConfigWithPrefix` never panics, whatever `config.Decode` (which returns library
panics as errors since fix 76c99a5) answers for the selected keys. -/
theorem decodeConfigWithPrefix_never_panics (toLower : Prefix.Rune → Prefix.Rune) (decodeOk : List Bytes → Bool)
    (inp : Prefix.Input) (pre : Bytes) : (Prefix.decodeConfigWithPrefix toLower decodeOk inp pre).isPanic = false := by
  unfold Prefix.decodeConfigWithPrefix
  refine bind_noPanic _ _ (prefixedBy_never_panics toLower inp pre) fun ks _ => ?_
  exact ite_noPanic _ _ _ rfl rfl

example : Prefix.decodeConfigWithPrefix id (fun ks => ks.length == 1) (.mapStrStr [[112], [113]]) [112] = .ok () := by decide +kernel

/-! ## Layer 2: the panic-site inventory regenerated from /repo is discharged -/

/-- Every panic-capable site factgen finds in the anchored files has a discharge whose side
conditions hold: `guardedBy` / `needs` conditions are among the conditions that syntactically
dominate the site in the current source. -/
theorem sites_covered : Inventory.uncovered = [] := by decide +kernel

/-- The table has no entry for a site that no longer exists (stale keys are removed, not ignored). -/
theorem table_keys_live : Inventory.staleKeys = [] := by decide +kernel

/-- Site keys are unique (the inventory is a function of the key). -/
theorem site_keys_unique : Inventory.duplicateKeys = [] := by decide +kernel

/-- Every theorem of this module the table cites exists and is a theorem (`thm_names%` resolves
the identifiers at elaboration time). -/
theorem cited_theorems_exist :
    Inventory.citedHere.all (· ∈ thm_names% [parseISO8601_never_panics, parseKey_never_panics,
      parseSymmetric_never_panics, chainLoop_never_panics, hookChain_never_panics,
      decodeString_never_panics, normalize_never_panics, decodeCertificates_terminates,
      exponentTooLarge_never_panics, quantity_arg_guarded, uncapitalize_never_panics]) = true := by decide +kernel

/-- the theorems `derivedOperandSites` relies on exist -/
theorem derived_operand_theorems_exist :
    Inventory.derivedOperandSites.all (fun d => d.2.2.2 ∈ thm_names% [runes_of_string]) = true := by decide +kernel

/-- The dapr/kit functions that panic on part of their domain (closed under "hands its own parameter
on without a `switch` on it") are exactly the two table look-ups of package crypto and the six
unexported helpers that call `expectedKeySize(algorithm)`: no exported entry point is partial, and
every call to one of the eight is an inventory site that needs its `switch algorithm case …` guard.
Hoisting such a call out of its case clause changes this list or loses the guard. -/
theorem partial_functions_are_internal :
    Generated.C07.partialFunctions.map (·.1) =
      ["github.com/dapr/kit/crypto.decryptSymmetricAESCBC", "github.com/dapr/kit/crypto.decryptSymmetricAESGCM",
       "github.com/dapr/kit/crypto.decryptSymmetricAESKW", "github.com/dapr/kit/crypto.encryptSymmetricAESCBC",
       "github.com/dapr/kit/crypto.encryptSymmetricAESGCM", "github.com/dapr/kit/crypto.encryptSymmetricAESKW",
       "github.com/dapr/kit/crypto.expectedKeySize", "github.com/dapr/kit/crypto.getSHAHash"] ∧
    Generated.C07.reachableFiles = ["crypto/crypto.go"] := by decide +kernel

/-- The inventory is not limited to the files the property record anchors: every non-test source
file of the packages that decode caller-supplied maps and strings (`config`, `metadata`, `utils`,
`retry`) is inventoried — factgen exits non-zero on a file of these packages that is in none of the
three lists. -/
theorem covered_files_listed :
    Generated.C07.coveredFiles = ["config/prefix.go", "metadata/properties.go", "retry/retry.go", "utils/env.go", "utils/strings.go"] ∧
    Generated.C07.coveredDirs = ["config", "metadata", "utils", "retry"] := by decide +kernel

/-- The two documented programmer-misuse panics that live in the anchored files (`NewParser` with
two optionals, `cipher.AEAD` `Seal` with a wrong-size nonce) are in the table as such, and nothing
else is excused that way — in particular not `Open`, whose nonce is an input. -/
theorem documented_misuse_listed :
    Inventory.misuseFns = ["cron.NewParser", "crypto/aescbcaead.aesCBCAEAD.Seal"] := by
  decide +kernel

end Kit.C07
