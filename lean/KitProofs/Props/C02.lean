/-
C02 — enc/v1: tampered or truncated documents never decrypt silently; released bytes are a prefix;
source errors surface.  Property theorems only (lemmas: `KitProofs/Lemmas/EncTamper.lean` etc.).
-/
import KitModel.Enc
import KitProofs.Lemmas.EncLoop
import KitProofs.Lemmas.EncSegs
import KitProofs.Lemmas.EncHeader
import KitProofs.Lemmas.EncDecrypt
import KitProofs.Lemmas.EncTamper
import KitProofs.Lemmas.EncToy
import KitProofs.Lemmas.EncMutations

namespace Kit.Enc.C02
open Kit Kit.Enc

/-- The parameters regenerated from the Go source satisfy what the theorems assume. -/
theorem generated_wf : EncParams.generated.WF :=
  ⟨by decide, by decide, by decide⟩

/-- **Tamper safety (proved part).** For every adversarial source `r` (any bytes, any script, any
    failure point), any options and any unwrapped key, under the no-forgery hypothesis about this
    run: what `Decrypt` releases is a prefix of the honest plaintext `p`; and if the stream ends in
    a clean EOF then it released exactly `p` — provided at least one byte follows the header of the
    adversarial document, or `p` is empty.  (Without that proviso the statement is false:
    `header_only_accepted`.) -/
theorem tamper_safe_partial (c : Crypto) (cd : Codec) (P : EncParams) (pwf : P.WF)
    (fk : Bytes) (m : Manifest) (lc : c.LawfulFor P (payloadKey c P fk m.np) m.np) (p : Bytes) (o : DecryptOpts) (r : Reader)
    (nf : NoForgery c cd P fk m p o r) :
    (∃ rest, (decryptImpl c cd P o r).1 ++ rest = p) ∧
    ((decryptImpl c cd P o r).2 = .ok →
      (∀ ml cl r', readHeader P r = .ok (ml, cl, r') → r'.stream ≠ [] ∨ p = []) →
      (decryptImpl c cd P o r).1 = p) := by
  unfold decryptImpl
  cases hrh : readHeaderWith true P r with
  | error e =>
    rw [decryptWith_err _ _ _ _ _ _ _ _ hrh]
    exact ⟨⟨p, rfl⟩, fun h => by cases h⟩
  | ok x =>
    obtain ⟨ml, cl, r'⟩ := x
    rw [decryptWith_ok _ _ _ _ _ _ _ _ _ _ hrh]
    cases hp : cd.parse ml with
    | none => exact ⟨⟨p, rfl⟩, fun h => by cases h⟩
    | some m' =>
      simp only []
      by_cases hv : (!m'.valid P) = true
      · simp only [hv, if_true]; exact ⟨⟨p, rfl⟩, fun h => by cases h⟩
      · simp only [hv, Bool.false_eq_true, if_false]
        by_cases hk : (if o.keyName.isEmpty then m'.keyName else o.keyName).isEmpty = true
        · simp only [hk, if_true]; exact ⟨⟨p, rfl⟩, fun h => by cases h⟩
        · simp only [hk, Bool.false_eq_true, if_false]
          cases hver : verifyHeader c cd P (effKey true P o m' (if o.keyName.isEmpty then m'.keyName else o.keyName)) ml cl with
          | some e => exact ⟨⟨p, rfl⟩, fun h => by cases h⟩
          | none =>
            simp only [Bool.true_and]
            by_cases hbad : unwrapFailed true P o m' (if o.keyName.isEmpty then m'.keyName else o.keyName) = true
            · -- the unwrap failed: refused after the MAC check, whatever the MAC said
              simp only [hbad, if_true]
              exact ⟨⟨p, rfl⟩, fun h => by cases h⟩
            have hgood : unwrapFailed true P o m' (if o.keyName.isEmpty then m'.keyName else o.keyName) = false := by
              simpa using hbad
            have heff : effKey true P o m' (if o.keyName.isEmpty then m'.keyName else o.keyName) =
                o.unwrap m' (if o.keyName.isEmpty then m'.keyName else o.keyName) := by
              unfold effKey; rw [hgood]; rfl
            simp only [hgood, Bool.false_eq_true, if_false]
            rw [heff] at hver ⊢
            obtain ⟨hfk, hnp, hcph⟩ := nf.header ml cl r' m' _ hrh hp hgood hver
            rw [hfk, hnp, hcph]
            have hpos : 0 < P.segSize + P.overhead := by have := pwf.seg_pos; omega
            rw [processSegments_spec _ _ _ hpos r']
            have hseg := nf.seg ml cl r' hrh
            have hsh := segments_shape P.segSize pwf.seg_pos p
            obtain ⟨hpre, hok, hfail⟩ := runSegs_tamper c P m.cph (payloadKey c P fk m.np) m.np P.segSize
              (P.segSize + P.overhead) lc (segments P.segSize p) hsh (finOf r')
              (confirmed (P.segSize + P.overhead) r' none) 0 hseg
            have htail : tailFrom (segments P.segSize p) 0 = p := by
              simp [tailFrom, segments_concat _ pwf.seg_pos]
            rw [htail] at hpre hok
            refine ⟨hpre, fun hterm hbytes => ?_⟩
            by_cases hf : r'.term.fails = true
            · -- a failing source cannot end cleanly
              exfalso
              have hfin : finOf r' ≠ .ok := by simp [finOf, hf]
              obtain ⟨x, hx, hx2⟩ := hfail hterm hfin
              have hconf : confirmed (P.segSize + P.overhead) r' none =
                  (segments (P.segSize + P.overhead) (visible r' none)).dropLast := by simp [confirmed, hf]
              rw [hconf] at hx
              have := shape_dropLast_flags _ _ (segments_shape _ hpos _) x hx
              rw [this] at hx2; cases hx2
            · have hf' : r'.term.fails = false := by simpa using hf
              have hconf : confirmed (P.segSize + P.overhead) r' none = segments (P.segSize + P.overhead) r'.stream := by
                simp [confirmed, visible, hf']
              rcases hbytes ml cl r' hrh with hne | hempty
              · apply hok hterm
                · rw [hconf]; exact segments_shape _ hpos _
                · rw [hconf]; exact segments_ne_nil _ hpos _ hne
              · obtain ⟨rest, hrest⟩ := hpre
                rw [hempty] at hrest ⊢
                exact (List.append_eq_nil_iff.mp hrest).1

/-- **Source errors surface.** Whatever the document, the keys and the primitives: if the source
    reader fails (at any offset, with or without data in the same call, sticky or followed by EOF),
    reading the decrypted stream never ends in a clean EOF. -/
theorem source_error_surfaces (c : Crypto) (cd : Codec) (P : EncParams) (pwf : P.WF) (o : DecryptOpts)
    (r : Reader) (hfail : r.term.fails = true) : (decryptImpl c cd P o r).2 ≠ .ok := by
  unfold decryptImpl
  cases hrh : readHeaderWith true P r with
  | error e => rw [decryptWith_err _ _ _ _ _ _ _ _ hrh]; intro h; cases h
  | ok x =>
    obtain ⟨ml, cl, r'⟩ := x
    rw [decryptWith_ok _ _ _ _ _ _ _ _ _ _ hrh]
    cases hp : cd.parse ml with
    | none => intro h; cases h
    | some m' =>
      simp only []
      by_cases hv : (!m'.valid P) = true
      · simp only [hv, if_true]; intro h; cases h
      · simp only [hv, Bool.false_eq_true, if_false]
        by_cases hk : (if o.keyName.isEmpty then m'.keyName else o.keyName).isEmpty = true
        · simp only [hk, if_true]; intro h; cases h
        · simp only [hk, Bool.false_eq_true, if_false]
          cases hver : verifyHeader c cd P (effKey true P o m' (if o.keyName.isEmpty then m'.keyName else o.keyName)) ml cl with
          | some e => intro h; cases h
          | none =>
            simp only [Bool.true_and]
            by_cases hbad : unwrapFailed true P o m' (if o.keyName.isEmpty then m'.keyName else o.keyName) = true
            · simp only [hbad, if_true]; intro h; cases h
            simp only [hbad, Bool.false_eq_true, if_false]
            have hf : r'.term.fails = true := by rw [readHeader_term P r ml cl r' hrh]; exact hfail
            have hpos : 0 < P.segSize + P.overhead := by have := pwf.seg_pos; omega
            rw [processSegments_spec _ _ _ hpos r']
            intro hterm
            have hfin : finOf r' ≠ .ok := by simp [finOf, hf]
            obtain ⟨x, hx, hx2⟩ := runSegs_ok_needs_last _ _ _ hfin _ 0 hterm
            have hconf : confirmed (P.segSize + P.overhead) r' none =
                (segments (P.segSize + P.overhead) (visible r' none)).dropLast := by simp [confirmed, hf]
            rw [hconf] at hx
            have := shape_dropLast_flags _ _ (segments_shape _ hpos _) x hx
            rw [this] at hx2; cases hx2

example : (⟨[], [1, 2, 3], [2, 0], true, .failOnce⟩ : Reader).term.fails = true := rfl

/-- **Negation witness (format-level finding `truncate-at-header-end`).** Any document — of a
    message of any length — truncated to its bare header decrypts to the empty stream with a clean
    EOF: the header alone *is* the encoding of the empty message. -/
theorem header_only_accepted (c : Crypto) (cd : Codec) (P : EncParams) (pwf : P.WF)
    (hmac : ∀ k msg, c.hmac k msg ≠ []) (fk : Bytes) (hfk : fk.length = P.fkLen)
    (m : Manifest) (lcd : cd.LawfulFor m) (hm : m.valid P = true) (p : Bytes) (o : DecryptOpts)
    (hkn : o.keyName ≠ [] ∨ m.keyName ≠ []) (hunwrap : ∀ kn, o.unwrap m kn = fk)
    (hnf : ∀ kn, o.unwrapFails m kn = false)
    (hhdr : (signHeader c cd P fk (cd.render m)).length ≤ P.hdrMax)
    (r : Reader) (heof : r.term = .eof)
    (hstream : r.stream = (specEncrypt c cd P fk m p).take (signHeader c cd P fk (cd.render m)).length) :
    decryptImpl c cd P o r = ([], .ok) := by
  have hcut : (specEncrypt c cd P fk m p).take (signHeader c cd P fk (cd.render m)).length
      = signHeader c cd P fk (cd.render m) ++ [] := by
    rw [specEncrypt_eq, ← signHeader_eq, List.take_left', List.append_nil]; rfl
  rw [hcut] at hstream
  obtain ⟨r', hrs, hrt, hdec⟩ := decrypt_of_honest_header true c cd P pwf hmac fk hfk m lcd hm o hkn hunwrap hnf [] r heof hhdr hstream
  unfold decryptImpl
  have hpos : 0 < P.segSize + P.overhead := by have := pwf.seg_pos; omega
  rw [hdec, processSegments_nil _ _ hpos _ r' hrt hrs]


/-! ### one corollary per mutation class

Notation: `segs = segments P.segSize p` the honest plaintext segments, `ctOf … j` the honest sealed
segment `j`, `prefixBytes … j` the bytes of the first `j` sealed segments, `headTo segs j` the plaintext
of the first `j` segments; `T = segSize + overhead`. Every statement is about `processSegments` with
`DecryptSegment` over **any** source script delivering the mutated payload, under the no-forgery
hypothesis about the pieces that payload presents. Each ends with `ErrDecryptionFailed` after
releasing exactly the untouched leading segments. -/

section classes
variable (c : Crypto) (P : EncParams) (pwf : P.WF) (cph : Nat) (pk np : Bytes) (lc : c.LawfulFor P pk np) (p : Bytes)
include pwf lc

/-- **Bit flips (or any change) inside sealed segment `j`, body or tag**: the segment's bytes are
    replaced by different bytes of the same length; whatever follows. -/
theorem flip_in_segment_detected (j : Nat) (hj : j < (segments P.segSize p).length) (hmax : j ≤ P.maxSeg)
    (x' post : Bytes) (hlen : x'.length = (ctOf c P cph pk np (segments P.segSize p) j).length)
    (hne : x' ≠ ctOf c P cph pk np (segments P.segSize p) j)
    (r : Reader) (heof : r.term = .eof)
    (hstream : r.stream = prefixBytes c P cph pk np (segments P.segSize p) j ++ (x' ++ post))
    (nf : PresentedNoForgery c P cph pk np (segments P.segSize p) (segments (P.segSize + P.overhead) r.stream) 0) :
    (processSegments (P.segSize + P.overhead) P.maxSeg (decryptSeg c P cph pk np) r).out = headTo (segments P.segSize p) j ∧
    (processSegments (P.segSize + P.overhead) P.maxSeg (decryptSeg c P cph pk np) r).term = .err .decryptFailed := by
  have hsh := segments_shape P.segSize pwf.seg_pos p
  obtain ⟨hpos, hle, _, _⟩ := shape_getElem P.segSize _ j hj hsh
  have hct := ctOf_length c P cph pk np lc _ j hj
  apply payload_deviation_detected c P pwf cph pk np lc p j hj hmax (x' ++ post) ?_ ?_ r heof hstream nf
  · intro h
    have := congrArg List.length h
    simp only [List.length_append, List.length_nil] at this
    omega
  · left
    intro h
    apply hne
    have h1 : ((x' ++ post).take (P.segSize + P.overhead)).take x'.length = x' := by
      rw [List.take_take, Nat.min_eq_left (by omega), List.take_left']
      rfl
    rw [h, hlen, List.take_of_length_le (Nat.le_refl _)] at h1
    exact h1.symm

/-- **Truncation inside sealed segment `j`** (or the segment replaced by anything shorter): the
    stream ends with fewer bytes than the segment has. -/
theorem truncation_in_segment_detected (j : Nat) (hj : j < (segments P.segSize p).length) (hmax : j ≤ P.maxSeg)
    (y : Bytes) (hy0 : y ≠ []) (hy : y.length < (ctOf c P cph pk np (segments P.segSize p) j).length)
    (r : Reader) (heof : r.term = .eof)
    (hstream : r.stream = prefixBytes c P cph pk np (segments P.segSize p) j ++ y)
    (nf : PresentedNoForgery c P cph pk np (segments P.segSize p) (segments (P.segSize + P.overhead) r.stream) 0) :
    (processSegments (P.segSize + P.overhead) P.maxSeg (decryptSeg c P cph pk np) r).out = headTo (segments P.segSize p) j ∧
    (processSegments (P.segSize + P.overhead) P.maxSeg (decryptSeg c P cph pk np) r).term = .err .decryptFailed := by
  apply payload_deviation_detected c P pwf cph pk np lc p j hj hmax y hy0 ?_ r heof hstream nf
  left
  intro h
  have := congrArg List.length h
  simp only [List.length_take] at this
  omega

/-- **Truncation at a segment boundary**: the stream ends right after `j ≥ 1` complete sealed
    segments although more follow in the honest document — the last delivered segment is then
    presented as final, which its nonce contradicts: it is *not* released. (`j = 0` is the bare
    header: `header_only_accepted`.) -/
theorem truncation_at_boundary_detected (j : Nat) (hj : j + 1 < (segments P.segSize p).length) (hmax : j ≤ P.maxSeg)
    (r : Reader) (heof : r.term = .eof)
    (hstream : r.stream = prefixBytes c P cph pk np (segments P.segSize p) (j + 1))
    (nf : PresentedNoForgery c P cph pk np (segments P.segSize p) (segments (P.segSize + P.overhead) r.stream) 0) :
    (processSegments (P.segSize + P.overhead) P.maxSeg (decryptSeg c P cph pk np) r).out = headTo (segments P.segSize p) j ∧
    (processSegments (P.segSize + P.overhead) P.maxSeg (decryptSeg c P cph pk np) r).term = .err .decryptFailed := by
  have hsh := segments_shape P.segSize pwf.seg_pos p
  have hj' : j < (segments P.segSize p).length := by omega
  obtain ⟨hpos, hle, hfull, _⟩ := shape_getElem P.segSize _ j hj' hsh
  have hct := ctOf_length c P cph pk np lc _ j hj'
  rw [prefixBytes_succ c P cph pk np _ j hj'] at hstream
  apply payload_deviation_detected c P pwf cph pk np lc p j hj' hmax _ ?_ ?_ r heof hstream nf
  · intro h; rw [h] at hct; simp at hct; omega
  · right
    rw [(hfull hj).2]
    have : (ctOf c P cph pk np (segments P.segSize p) j).length ≤ P.segSize + P.overhead := by omega
    simp [this]

/-- **Appended bytes** after a complete honest payload of a non-empty message: the honest final
    segment is no longer final (or no longer itself), so it is not released. -/
theorem append_detected (k : Nat) (hk : (segments P.segSize p).length = k + 1) (hmax : k ≤ P.maxSeg)
    (e : Bytes) (he : e ≠ [])
    (r : Reader) (heof : r.term = .eof)
    (hstream : r.stream = prefixBytes c P cph pk np (segments P.segSize p) (k + 1) ++ e)
    (nf : PresentedNoForgery c P cph pk np (segments P.segSize p) (segments (P.segSize + P.overhead) r.stream) 0) :
    (processSegments (P.segSize + P.overhead) P.maxSeg (decryptSeg c P cph pk np) r).out = headTo (segments P.segSize p) k ∧
    (processSegments (P.segSize + P.overhead) P.maxSeg (decryptSeg c P cph pk np) r).term = .err .decryptFailed := by
  have hsh := segments_shape P.segSize pwf.seg_pos p
  have hj' : k < (segments P.segSize p).length := by omega
  obtain ⟨hpos, hle, _, hlast⟩ := shape_getElem P.segSize _ k hj' hsh
  have hct := ctOf_length c P cph pk np lc _ k hj'
  have hepos : 0 < e.length := List.length_pos_iff.mpr he
  rw [prefixBytes_succ c P cph pk np _ k hj', List.append_assoc] at hstream
  apply payload_deviation_detected c P pwf cph pk np lc p k hj' hmax _ ?_ ?_ r heof hstream nf
  · intro h; have := congrArg List.length h; simp only [List.length_append, List.length_nil] at this; omega
  · by_cases hfit : (ctOf c P cph pk np (segments P.segSize p) k ++ e).length ≤ P.segSize + P.overhead
    · left
      rw [List.take_of_length_le hfit]
      intro h; have := congrArg List.length h; simp only [List.length_append] at this; omega
    · right
      rw [hlast (by omega)]
      simp only [List.length_append] at hfit
      simp only [List.length_append, ne_eq, decide_eq_true_eq]
      omega

end classes

/-- Honest entry `n` of the sealed list. -/
theorem sealedSegs_getElem (c : Crypto) (P : EncParams) (cph : Nat) (pk np : Bytes) (segs : List (Bytes × Bool))
    (n : Nat) (hn : n < segs.length) :
    (sealedSegs c P cph pk np 0 segs)[n]? = some (ctOf c P cph pk np segs n, (segs[n]).2) := by
  have h1 := sealedSegs_take_succ c P cph pk np segs n hn
  have hlen : ∀ (l : List (Bytes × Bool)) (i : Nat), (sealedSegs c P cph pk np i l).length = l.length := by
    intro l; induction l with
    | nil => intro i; rfl
    | cons a t ih => intro i; obtain ⟨d, f⟩ := a; rw [sealedSegs_cons]; simp [ih]
  have h2 : sealedSegs c P cph pk np 0 segs =
      sealedSegs c P cph pk np 0 (segs.take (n + 1)) ++ sealedSegs c P cph pk np (n + 1) (segs.drop (n + 1)) := by
    conv => lhs; rw [← List.take_append_drop (n + 1) segs]
    rw [sealedSegs_append]
    simp; congr 1; omega
  rw [h2, h1, List.append_assoc]
  have hl : (sealedSegs c P cph pk np 0 (segs.take n)).length = n := by rw [hlen]; simp; omega
  rw [List.getElem?_append_right (by omega), hl]
  simp

/-- **Segment deletion, duplication, swap (list level): the first displaced index decides.** If the
    pieces presented to the loop are the honest sealed segments up to index `j` and then some *other*
    honest sealed segment `i ≠ j` (with its own flag) — which is what deleting segment `j` (`i = j+1`),
    duplicating segment `j-1` (`i = j-1`) or swapping segments `j` and `i` puts at position `j` — and
    that segment's bytes differ from segment `j`'s, then exactly the first `j` segments are released
    and the stream ends with `ErrDecryptionFailed`. -/
theorem displaced_segment_detected (c : Crypto) (P : EncParams) (pwf : P.WF) (cph : Nat) (pk np : Bytes)
    (lc : c.LawfulFor P pk np) (p : Bytes) (j i : Nat) (hj : j < (segments P.segSize p).length)
    (hi : i < (segments P.segSize p).length) (hmax : j ≤ P.maxSeg)
    (hdiff : ctOf c P cph pk np (segments P.segSize p) i ≠ ctOf c P cph pk np (segments P.segSize p) j)
    (rest : List (Bytes × Bool)) (fin : Terminal)
    (nf : PresentedNoForgery c P cph pk np (segments P.segSize p)
      (sealedSegs c P cph pk np 0 ((segments P.segSize p).take j) ++
        (ctOf c P cph pk np (segments P.segSize p) i, ((segments P.segSize p)[i]).2) :: rest) 0) :
    (runSegs P.maxSeg (decryptSeg c P cph pk np)
      (sealedSegs c P cph pk np 0 ((segments P.segSize p).take j) ++
        (ctOf c P cph pk np (segments P.segSize p) i, ((segments P.segSize p)[i]).2) :: rest) 0 fin).out
      = headTo (segments P.segSize p) j ∧
    (runSegs P.maxSeg (decryptSeg c P cph pk np)
      (sealedSegs c P cph pk np 0 ((segments P.segSize p).take j) ++
        (ctOf c P cph pk np (segments P.segSize p) i, ((segments P.segSize p)[i]).2) :: rest) 0 fin).term
      = .err .decryptFailed := by
  have hsh := segments_shape P.segSize pwf.seg_pos p
  obtain ⟨hpos, _, _, _⟩ := shape_getElem P.segSize _ i hi hsh
  have hct := ctOf_length c P cph pk np lc _ i hi
  apply first_displaced_detected c P cph pk np P.segSize pwf.seg_pos lc _ hsh j hj hmax _ _ rest ?_ fin nf
  · left; rw [← ctOf_eq c P cph pk np _ j hj]; exact hdiff
  · intro h; rw [h] at hct; simp at hct; omega

/-! ### mechanism lemmas -/

theorem u8_ofNat_inj (a b : Nat) (ha : a < 256) (hb : b < 256) (h : UInt8.ofNat a = UInt8.ofNat b) : a = b := by
  have := congrArg UInt8.toNat h
  simp [UInt8.toNat_ofNat'] at this
  omega

/-- The nonce determines position and finality: with the layout extracted from `nonceForSegment`
    (`np ‖ be32(i) ‖ last`), two nonces under the same prefix coincide only for the same counter
    (below `2^32`) and the same last flag. -/
theorem nonce_injective (P : EncParams) (hl : P.nonceLayout = Gen.nonceLayout) (np : Bytes)
    (i i' : Nat) (last last' : Bool) (hi : i < 2 ^ 32) (hi' : i' < 2 ^ 32)
    (h : nonceFor P np i last = nonceFor P np i' last') : i = i' ∧ last = last' := by
  have hl' : P.nonceLayout = [.noncePrefix 7, .counterBE32, .lastFlag 1 0] := by rw [hl]; rfl
  simp only [nonceFor, hl', List.flatMap_cons, List.flatMap_nil, noncePart, List.append_nil] at h
  have h2 := List.append_cancel_left h
  simp only [be32, List.cons_append, List.nil_append, List.cons.injEq, and_true] at h2
  obtain ⟨a, b, c, d, e⟩ := h2
  have ha := u8_ofNat_inj _ _ (Nat.mod_lt _ (by decide)) (Nat.mod_lt _ (by decide)) a
  have hb := u8_ofNat_inj _ _ (Nat.mod_lt _ (by decide)) (Nat.mod_lt _ (by decide)) b
  have hc := u8_ofNat_inj _ _ (Nat.mod_lt _ (by decide)) (Nat.mod_lt _ (by decide)) c
  have hd := u8_ofNat_inj _ _ (Nat.mod_lt _ (by decide)) (Nat.mod_lt _ (by decide)) d
  constructor
  · omega
  · cases last <;> cases last' <;> first | rfl | (exfalso; revert e; decide)

/-- The layout the theorem is about is the regenerated one. -/
example : EncParams.generated.nonceLayout = Gen.nonceLayout := rfl

/-- The nonce of the regenerated layout, byte for byte (README.md: `nonce_prefix ‖ i ‖ last_segment`,
    `i` a 32-bit big-endian counter): this is the value the function-level tie of `nonceForSegment`
    (`harness/cmd/c02nonce`, driver op `nonce`) compares the real function with at segment numbers on
    every byte boundary of the counter. -/
theorem nonce_layout_explicit (np : Bytes) (i : Nat) (last : Bool) :
    nonceFor EncParams.generated np i last
      = fitTo 7 np ++ [UInt8.ofNat (i / 16777216 % 256), UInt8.ofNat (i / 65536 % 256),
          UInt8.ofNat (i / 256 % 256), UInt8.ofNat (i % 256)] ++ [if last then 1 else 0] := by
  have hl : EncParams.generated.nonceLayout = [.noncePrefix 7, .counterBE32, .lastFlag 1 0] := rfl
  simp only [nonceFor, hl, List.flatMap_cons, List.flatMap_nil, noncePart, be32, List.append_nil]
  cases last <;> simp

example : nonceFor EncParams.generated [1, 2, 3, 4, 5, 6, 7] 65536 false = [1, 2, 3, 4, 5, 6, 7, 0, 1, 0, 0, 0] := by decide
example : nonceFor EncParams.generated [1, 2, 3, 4, 5, 6, 7] 4294967295 true
    = [1, 2, 3, 4, 5, 6, 7, 255, 255, 255, 255, 1] := by decide

/-- The nonce is 12 bytes (what both AEADs require), whatever prefix the manifest carried. -/
theorem nonce_length (np : Bytes) (i : Nat) (last : Bool) :
    (nonceFor EncParams.generated np i last).length = 12 := by
  rw [nonce_layout_explicit]
  simp [fitTo]
  omega

/-- **Why the nonce has to determine the position.**  Whatever the layout: if two (position, flag)
    pairs share a nonce, a lawful AEAD opens the segment sealed for one of them when it is presented
    at the other — `DecryptSegment` hands out that segment's plaintext at the wrong place.  So the
    per-run hypothesis `PresentedNoForgery` (only the honest segment of a position opens there) can
    hold for documents with displaced segments only because of `nonce_injective`; a layout that
    loses a counter byte makes positions `2^16` (or `2^8`, `2^24`) apart interchangeable. -/
theorem colliding_nonce_opens_displaced (c : Crypto) (P : EncParams) (cph : Nat) (pk np : Bytes)
    (lc : c.LawfulFor P pk np) (i j : Nat) (li lj : Bool)
    (hcoll : nonceFor P np i li = nonceFor P np j lj) (d : Bytes) (hd : d ≠ []) :
    ∃ ct, encryptSeg c P cph pk np d i li = .ok ct ∧ decryptSeg c P cph pk np ct j lj = .ok d := by
  have hne : d.isEmpty = false := by cases d <;> simp_all
  refine ⟨c.aseal cph pk (nonceFor P np i li) d, ?_, ?_⟩
  · simp [encryptSeg, hne]
  · have hlen := lc.seal_length cph i li d
    have hct : (c.aseal cph pk (nonceFor P np i li) d).isEmpty = false := by
      cases hx : c.aseal cph pk (nonceFor P np i li) d with
      | nil =>
        rw [hx] at hlen
        have hpos : 0 < d.length := List.length_pos_iff.mpr hd
        simp only [List.length_nil] at hlen
        omega
      | cons a t => rfl
    simp only [decryptSeg, hct, Bool.false_eq_true, if_false]
    rw [← hcoll, lc.open_seal cph i li d]

/-- The hypothesis of `colliding_nonce_opens_displaced` is satisfiable exactly when the layout is not
    the regenerated one: a layout without the counter gives every position the same nonce (witness
    positions 0 and 65536), while under the regenerated layout `nonce_injective` excludes it. -/
theorem counterless_layout_collides :
    nonceFor { EncParams.generated with nonceLayout := [.noncePrefix 7, .lastFlag 1 0] } [1, 2, 3, 4, 5, 6, 7] 0 false
      = nonceFor { EncParams.generated with nonceLayout := [.noncePrefix 7, .lastFlag 1 0] } [1, 2, 3, 4, 5, 6, 7] 65536 false := by
  decide

example : nonceFor EncParams.generated [1, 2, 3, 4, 5, 6, 7] 0 false
    ≠ nonceFor EncParams.generated [1, 2, 3, 4, 5, 6, 7] 65536 false := by decide

/-- The 32-bit counter never wraps: every call the loop makes carries an index `≤ maxSeg`
    (`2^32 − 1`), whatever the source delivers. -/
theorem counter_no_wrap (segSize maxSeg : Nat) (hs : 0 < segSize) (fn : ProcFn) (r : Reader) :
    ∀ call ∈ (processSegments segSize maxSeg fn r).calls, call.2.1 ≤ maxSeg := by
  rw [processSegments_spec segSize maxSeg fn hs r]
  have key : ∀ (segs : List (Bytes × Bool)) (i : Nat) (fin : Terminal), i ≤ maxSeg →
      ∀ call ∈ (runSegs maxSeg fn segs i fin).calls, call.2.1 ≤ maxSeg := by
    intro segs
    induction segs with
    | nil => intro i fin _ call h; simp [runSegs] at h
    | cons a t ih =>
      intro i fin hi call h
      obtain ⟨d, l⟩ := a
      cases l with
      | true =>
        rw [runSegs_cons_last] at h
        cases hfn : fn d i true with
        | error e => rw [hfn] at h; simp only [List.mem_singleton] at h; subst h; exact hi
        | ok o => rw [hfn] at h; simp only [List.mem_singleton] at h; subst h; exact hi
      | false =>
        rw [runSegs_cons_nonlast] at h
        cases hfn : fn d i false with
        | error e => rw [hfn] at h; simp only [List.mem_singleton] at h; subst h; exact hi
        | ok o =>
          rw [hfn] at h
          simp only [] at h
          by_cases hm : i = maxSeg
          · rw [if_pos hm] at h; simp only [List.mem_singleton] at h; subst h; exact hi
          · rw [if_neg hm] at h
            simp only [PSResult.cons, List.mem_cons] at h
            rcases h with h | h
            · subst h; exact hi
            · exact ih (i + 1) fin (by omega) call h
  exact key _ 0 _ (Nat.zero_le _)

/-- The MAC is checked before any payload work: if the header of the run does not verify, nothing
    is released and the terminal is that error — the payload is never touched. -/
theorem mac_before_payload (c : Crypto) (cd : Codec) (P : EncParams) (o : DecryptOpts) (r : Reader)
    (ml cl : Bytes) (r' : Reader) (m' : Manifest) (e : Err)
    (hrh : readHeader P r = .ok (ml, cl, r')) (hp : cd.parse ml = some m') (hv : m'.valid P = true)
    (hk : (if o.keyName.isEmpty then m'.keyName else o.keyName).isEmpty = false)
    (hver : verifyHeader c cd P (effKey true P o m' (if o.keyName.isEmpty then m'.keyName else o.keyName)) ml cl = some e) :
    decryptImpl c cd P o r = ([], .err e) := by
  unfold decryptImpl
  rw [decryptWith_ok _ _ _ _ _ _ _ _ _ _ hrh, hp]
  simp only [hv, Bool.not_true, Bool.false_eq_true, if_false, hk, hver]

/-- A segment reaches the consumer only after `Open` succeeded on it: the released bytes are
    exactly the outputs of the successful calls of the process function, in order. -/
theorem release_after_open (segSize maxSeg : Nat) (hs : 0 < segSize) (fn : ProcFn) (r : Reader) :
    (processSegments segSize maxSeg fn r).out =
      ((processSegments segSize maxSeg fn r).calls.filterMap fun x =>
        match fn x.1 x.2.1 x.2.2 with | .ok o => some o | .error _ => none).flatten := by
  rw [processSegments_spec segSize maxSeg fn hs r]
  have key : ∀ (segs : List (Bytes × Bool)) (i : Nat) (fin : Terminal),
      (runSegs maxSeg fn segs i fin).out =
        ((runSegs maxSeg fn segs i fin).calls.filterMap fun x =>
          match fn x.1 x.2.1 x.2.2 with | .ok o => some o | .error _ => none).flatten := by
    intro segs
    induction segs with
    | nil => intro i fin; rfl
    | cons a t ih =>
      intro i fin
      obtain ⟨d, l⟩ := a
      cases l with
      | true =>
        rw [runSegs_cons_last]
        cases hfn : fn d i true with
        | error e => simp [hfn]
        | ok o => simp [hfn]
      | false =>
        rw [runSegs_cons_nonlast]
        cases hfn : fn d i false with
        | error e => simp [hfn]
        | ok o =>
          simp only []
          by_cases hm : i = maxSeg
          · rw [if_pos hm]; simp [hfn]
          · rw [if_neg hm]
            simp only [PSResult.cons, List.filterMap_cons, hfn, List.flatten_cons]
            rw [ih (i + 1) fin]
  exact key _ 0 _

/-- T1: the order of the steps of `Decrypt` the model implements (MAC check before any payload work)
    is the order `factgen_c01` reads off the source. -/
theorem decrypt_order_as_modelled :
    Gen.decryptOrder = ["readHeader", "json.Unmarshal", "Validate", "UnwrapKeyFn", "importFileKey",
      "VerifyHeaderSignature", "processSegments"] ∧
    Gen.maxSegment + 1 = 2 ^ 32 ∧ Gen.fileKeyLength = 32 := by decide

/-- T1: the refusal of a failed unwrap is in the source where the model has it: `unwrapFailed` is
    "error or not 32 bytes", and the statement right after `VerifyHeaderSignature` turns a verified MAC
    into `ErrDecryptionSignature` when the unwrap had failed. -/
theorem bad_unwrap_refusal_as_modelled :
    Gen.badUnwrapRefusal = ["unwrapErr!=nil||len(fileKeyBytes)!=32", "err==nil&&unwrapFailed", "ErrDecryptionSignature"] := by
  decide

/-- T1 (pool hygiene): every function of the package that takes a buffer from `BufPool` has exactly one
    `Get`, exactly one `Put`, and that `Put` is a `defer` in the statement right after the `Get` — so a
    buffer is never handed back twice, and never while the function still uses it. (A second `Put`
    anywhere, e.g. on an error path, makes this obligation fail; the harness's `bufpool-double-put`
    probe and the history family then exhibit the shared buffer.) -/
theorem bufpool_discipline_as_modelled :
    Gen.bufPoolDiscipline = [("processSegments", 1, 1, true), ("readHeader", 1, 1, true)] := by decide

/-- Non-vacuity of the segment hypothesis beyond the bare header: for every lawful AEAD the honest
    sealed segments (hence every truncation of the honest payload at a segment boundary) satisfy it. -/
theorem tamper_safe_on_honest_prefixes (c : Crypto) (P : EncParams) (cph : Nat) (pk np : Bytes) (p : Bytes) :
    PresentedNoForgery c P cph pk np (segments P.segSize p)
      (sealedSegs c P cph pk np 0 (segments P.segSize p)) 0 := by
  have := presented_honest c P cph pk np (segments P.segSize p) []
  simpa using this

/-! ### a failed unwrap -/

/-- **A failed unwrap never decrypts** — with no cryptographic hypothesis at all: if `UnwrapKeyFn`
    reports an error or does not return a key of `fkLen` bytes (for the manifest and key name of the
    run), then whatever the document — in particular one MACed and sealed under the all-zero key that
    `Decrypt` substitutes — nothing is released and the terminal is an error. -/
theorem bad_unwrap_never_ok (c : Crypto) (cd : Codec) (P : EncParams) (o : DecryptOpts) (r : Reader)
    (hbad : ∀ m kn, o.unwrapFails m kn = true ∨ (o.unwrap m kn).length ≠ P.fkLen) :
    (decryptImpl c cd P o r).1 = [] ∧ (decryptImpl c cd P o r).2 ≠ .ok := by
  have key : ∀ m kn, unwrapFailed true P o m kn = true := by
    intro m kn
    unfold unwrapFailed
    rcases hbad m kn with h | h
    · rw [h]; rfl
    · simp [h]
  unfold decryptImpl
  cases hrh : readHeaderWith true P r with
  | error e => rw [decryptWith_err _ _ _ _ _ _ _ _ hrh]; refine ⟨?_, ?_⟩ <;> simp
  | ok x =>
    obtain ⟨ml, cl, r'⟩ := x
    rw [decryptWith_ok _ _ _ _ _ _ _ _ _ _ hrh]
    cases hp : cd.parse ml with
    | none => refine ⟨?_, ?_⟩ <;> simp
    | some m' =>
      simp only []
      by_cases hv : (!m'.valid P) = true
      · simp only [hv, if_true]; refine ⟨?_, ?_⟩ <;> simp
      · simp only [hv, Bool.false_eq_true, if_false]
        by_cases hk : (if o.keyName.isEmpty then m'.keyName else o.keyName).isEmpty = true
        · simp only [hk, if_true]; refine ⟨?_, ?_⟩ <;> simp
        · simp only [hk, Bool.false_eq_true, if_false, key, Bool.and_self, if_true]
          cases verifyHeader c cd P (effKey true P o m' (if o.keyName.isEmpty then m'.keyName else o.keyName)) ml cl with
          | some e => refine ⟨?_, ?_⟩ <;> simp
          | none => refine ⟨?_, ?_⟩ <;> simp

/-- The forgery the fix closes, as data: manifest, attacker plaintext, and the victim's options whose
    `UnwrapKeyFn` returns no key. -/
def zkManifest : Manifest := ⟨[118], 1, [9, 9, 9], 1, [1, 2, 3, 4, 5, 6, 7]⟩
def zkOpts : DecryptOpts := { unwrap := fun _ _ => [] }
def zkReader : Reader :=
  { data := specEncrypt Toy.toyCrypto Toy.toyCodec EncParams.generated (List.replicate 32 0) zkManifest [66, 65, 68] }

/-- **Pre-fix witness (finding `zero-key-forgery`)**: on the code before the fix (`refuse = false`) a
    document MACed and sealed under the public all-zero key is accepted when the victim's unwrap fails:
    the attacker's bytes `BAD` are released with a clean EOF. After the fix the same run is refused
    (`bad_unwrap_never_ok`). -/
theorem zero_key_forgery_witness :
    decryptWith true false Toy.toyCrypto Toy.toyCodec EncParams.generated zkOpts zkReader = ([66, 65, 68], .ok) ∧
    (decryptImpl Toy.toyCrypto Toy.toyCodec EncParams.generated zkOpts zkReader).1 = [] ∧
    (decryptImpl Toy.toyCrypto Toy.toyCodec EncParams.generated zkOpts zkReader).2 ≠ .ok := by
  refine ⟨?_, bad_unwrap_never_ok _ _ _ zkOpts zkReader (fun _ _ => Or.inr (by show ([] : Bytes).length ≠ EncParams.generated.fkLen; decide))⟩
  have lcd := (Toy.toyCodec_lawful EncParams.generated).for zkManifest (by decide)
  have lc : Toy.toyCrypto.LawfulFor EncParams.generated
      (payloadKey Toy.toyCrypto EncParams.generated (List.replicate 32 0) zkManifest.np) zkManifest.np :=
    Toy.toyCrypto_lawful.for _ _
  have hstream : zkReader.stream = signHeader Toy.toyCrypto Toy.toyCodec EncParams.generated (List.replicate 32 0)
      (Toy.toyCodec.render zkManifest) ++ specPayload Toy.toyCrypto EncParams.generated zkManifest.cph
        (payloadKey Toy.toyCrypto EncParams.generated (List.replicate 32 0) zkManifest.np) zkManifest.np 0
        (segments EncParams.generated.segSize [66, 65, 68]) := by
    simp only [zkReader, Reader.stream, List.nil_append]
    rw [specEncrypt_eq, signHeader_eq]
  obtain ⟨r', hrs, hrt, hdec⟩ := decrypt_of_header_line true false Toy.toyCrypto Toy.toyCodec EncParams.generated
    C02.generated_wf Toy.toyCrypto_lawful.hmac_ne lcd.b64 (List.replicate 32 0) zkManifest _ lcd.parse_render
    lcd.render_line.1 lcd.render_line.2 (by decide) zkOpts (Or.inr (by decide))
    (fun kn => by show effKey false EncParams.generated zkOpts zkManifest kn = List.replicate 32 0
                  have h32 : EncParams.generated.fkLen = 32 := rfl
                  simp [effKey, unwrapFailed, zkOpts, h32]) (fun _ => rfl) _ zkReader rfl
    (by simp only [signHeader, headerMessage, List.length_append, List.length_cons, List.length_nil]; decide) hstream
  rw [hdec]
  have hfails : r'.term.fails = false := by rw [hrt]; rfl
  have pwf := C02.generated_wf
  have hconf : confirmed (EncParams.generated.segSize + EncParams.generated.overhead) r' none =
      sealedSegs Toy.toyCrypto EncParams.generated zkManifest.cph
        (payloadKey Toy.toyCrypto EncParams.generated (List.replicate 32 0) zkManifest.np) zkManifest.np 0
        (segments EncParams.generated.segSize [66, 65, 68]) := by
    simp only [confirmed, visible, hfails, Bool.false_and, Bool.false_eq_true, if_false, Option.toList_none,
      List.nil_append, hrs]
    exact segments_specPayload _ _ _ _ _ _ pwf.seg_pos lc _ 0 (segments_shape _ pwf.seg_pos _)
  have hfin : finOf r' = .ok := by simp [finOf, hfails]
  rw [processSegments_spec _ _ _ (by decide) r', hconf, hfin]
  obtain ⟨h1, h2⟩ := runSegs_decrypt_sealed Toy.toyCrypto EncParams.generated zkManifest.cph _ zkManifest.np
    EncParams.generated.segSize pwf.seg_pos lc (segments EncParams.generated.segSize [66, 65, 68]) 0
    (segments_shape _ pwf.seg_pos _) (by decide)
  rw [h1, h2, segments_concat _ pwf.seg_pos]

/-! ### the full statement and its negation -/

/-- The full statement of C02's "never decrypts silently" (no proviso about bytes after the
    header). It is **false** for the published format: `not_tamper_safe_statement`. -/
def tamper_safe_statement : Prop :=
  ∀ (c : Crypto) (cd : Codec) (P : EncParams), P.WF → c.Lawful P.overhead → cd.Lawful P →
    ∀ (fk : Bytes) (m : Manifest) (p : Bytes) (o : DecryptOpts) (r : Reader),
      NoForgery c cd P fk m p o r →
      (decryptImpl c cd P o r).2 = .ok → (decryptImpl c cd P o r).1 = p

/-- The honest manifest and options used by the witness. -/
def witnessManifest : Manifest := ⟨[107], 1, [1, 2, 3], 1, [1, 2, 3, 4, 5, 6, 7]⟩
def witnessFk : Bytes := List.replicate 32 7
def witnessOpts : DecryptOpts := { unwrap := fun _ _ => witnessFk }
/-- The document of the one-byte message `[42]`, cut right after its header. -/
def witnessReader : Reader :=
  { data := (specEncrypt Toy.toyCrypto Toy.toyCodec EncParams.generated witnessFk witnessManifest [42]).take
      (signHeader Toy.toyCrypto Toy.toyCodec EncParams.generated witnessFk (Toy.toyCodec.render witnessManifest)).length }

theorem witness_decrypts_to_empty :
    decryptImpl Toy.toyCrypto Toy.toyCodec EncParams.generated witnessOpts witnessReader = ([], .ok) := by
  apply header_only_accepted Toy.toyCrypto Toy.toyCodec EncParams.generated C02.generated_wf
    Toy.toyCrypto_lawful.hmac_ne witnessFk (by decide) witnessManifest
    ((Toy.toyCodec_lawful EncParams.generated).for witnessManifest (by decide)) (by decide) [42]
    witnessOpts (Or.inr (by decide)) (fun _ => rfl) (fun _ => rfl) ?_ witnessReader rfl rfl
  simp only [signHeader, headerMessage, List.length_append, List.length_cons, List.length_nil]
  decide

/-- The bare-header run satisfies the no-forgery hypothesis (nothing is presented to the AEAD, and
    the header that verifies is the honest one), so the hypothesis does not exclude it. -/
theorem witness_noForgery :
    NoForgery Toy.toyCrypto Toy.toyCodec EncParams.generated witnessFk witnessManifest [42] witnessOpts witnessReader := by
  -- the run's header is the honest header
  have hcut : witnessReader.stream =
      signHeader Toy.toyCrypto Toy.toyCodec EncParams.generated witnessFk (Toy.toyCodec.render witnessManifest) ++ [] := by
    simp only [witnessReader, Reader.stream, List.nil_append]
    rw [specEncrypt_eq, ← signHeader_eq, List.take_left', List.append_nil]; rfl
  have hhdr : (signHeader Toy.toyCrypto Toy.toyCodec EncParams.generated witnessFk (Toy.toyCodec.render witnessManifest)).length
      ≤ EncParams.generated.hdrMax := by
    simp only [signHeader, headerMessage, List.length_append, List.length_cons, List.length_nil]
    decide
  rw [signHeader_eq] at hcut hhdr
  obtain ⟨r0, hrh, hrs, hrt⟩ := readHeader_complete true EncParams.generated _ _ []
    (header_wf Toy.toyCrypto Toy.toyCodec EncParams.generated C02.generated_wf Toy.toyCrypto_lawful.hmac_ne
      witnessFk witnessManifest ((Toy.toyCodec_lawful EncParams.generated).for witnessManifest (by decide))) hhdr witnessReader rfl hcut
  constructor
  · intro ml cl r' m' kn h hp _ _
    have h' : readHeaderWith true EncParams.generated witnessReader = .ok (ml, cl, r') := h
    rw [hrh] at h'
    cases h'
    rw [(Toy.toyCodec_lawful EncParams.generated).parse_render witnessManifest (by decide)] at hp
    cases hp
    exact ⟨rfl, rfl, rfl⟩
  · intro ml cl r' h
    have h' : readHeaderWith true EncParams.generated witnessReader = .ok (ml, cl, r') := h
    rw [hrh] at h'
    cases h'
    have hconf : confirmed (EncParams.generated.segSize + EncParams.generated.overhead) r0 none = [] := by
      have hf : r0.term.fails = false := by rw [hrt]; rfl
      simp [confirmed, visible, hf, hrs, segments_nil]
    rw [hconf]
    trivial

/-- **The full statement is false**: a one-byte message truncated to its header ends in a clean
    EOF with nothing released, in a run that satisfies every hypothesis. -/
theorem not_tamper_safe_statement : ¬ tamper_safe_statement := by
  intro h
  have := h Toy.toyCrypto Toy.toyCodec EncParams.generated C02.generated_wf Toy.toyCrypto_lawful
    (Toy.toyCodec_lawful _) witnessFk witnessManifest [42] witnessOpts witnessReader witness_noForgery
    (by rw [witness_decrypts_to_empty])
  rw [witness_decrypts_to_empty] at this
  cases this

end Kit.Enc.C02
