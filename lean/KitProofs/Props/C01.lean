/-
C01 — enc/v1: Decrypt inverts Encrypt for every chunking; the ciphertext follows the published
layout; interop with an independent implementation.  Property theorems only (lemmas are in
`KitProofs/Lemmas/Enc*.lean`).
-/
import KitModel.Enc
import KitProofs.Lemmas.EncLoop
import KitProofs.Lemmas.EncSegs
import KitProofs.Lemmas.EncHeader
import KitProofs.Lemmas.EncDecrypt
import KitProofs.Lemmas.EncToy
import KitProofs.Lemmas.EncRealLaws
import KitProofs.Lemmas.EncCodecLaws
import KitProofs.Lemmas.EncPipe

namespace Kit.Enc.C01
open Kit Kit.Enc

/-- A process function that accepts every segment (what a recording function does). -/
def Accepting (fn : ProcFn) : Prop := ∀ d i l, ∃ o, fn d i l = .ok o

/-- **Core theorem.** For every content, every reader script delivering it (any caps, zero-length
    reads, EOF with or after the last data, any push-back) and every segment size `> 0`, the
    sequence of `(data, index, last)` calls made by the implementation-shaped loop is exactly the
    pure split of the content numbered from 0, and the pipe is closed cleanly.  (The count
    hypothesis is the loop's own 32-bit guard: at most `maxSeg + 1 = 2^32` segments.) -/
theorem processSegments_eq_pure (segSize maxSeg : Nat) (hs : 0 < segSize) (fn : ProcFn)
    (hfn : Accepting fn) (r : Reader) (heof : r.term = .eof)
    (hcount : (segments segSize r.stream).length ≤ maxSeg + 1) :
    (processSegments segSize maxSeg fn r).calls = numbered 0 (segments segSize r.stream) ∧
    (processSegments segSize maxSeg fn r).term = .ok := by
  have hfails : r.term.fails = false := by rw [heof]; rfl
  have hconf : confirmed segSize r none = segments segSize r.stream := by
    simp [confirmed, visible, hfails]
  have hfin : finOf r = .ok := by simp [finOf, hfails]
  rw [processSegments_spec segSize maxSeg fn hs r, hconf, hfin]
  -- choose the outputs
  have hg : ∃ g : Bytes → Nat → Bool → Bytes, ∀ d i l, fn d i l = .ok (g d i l) :=
    ⟨fun d i l => (hfn d i l).choose, fun d i l => (hfn d i l).choose_spec⟩
  obtain ⟨g, hg⟩ := hg
  rw [runSegs_all_ok segSize maxSeg hs fn g (fun d i l _ _ => hg d i l) _ 0
    (segments_shape segSize hs _) (by omega)]
  exact ⟨rfl, rfl⟩

example : Accepting (fun d _ _ => .ok d) := fun d _ _ => ⟨d, rfl⟩
example : (⟨[], [1, 2, 3, 4, 5], [0, 2, 0, 1], true, .eof⟩ : Reader).term = .eof := rfl

/-- No call at all for empty content. -/
theorem processSegments_empty (segSize maxSeg : Nat) (hs : 0 < segSize) (fn : ProcFn) (r : Reader)
    (heof : r.term = .eof) (hempty : r.stream = []) :
    processSegments segSize maxSeg fn r = ⟨[], [], .ok⟩ :=
  processSegments_nil segSize maxSeg hs fn r heof hempty

/-- The split itself: `⌈|p|/S⌉` segments, all full and non-final except the last, which has
    `1..S` bytes and carries the last flag; concatenated they are `p`. -/
theorem segments_layout (S : Nat) (hS : 0 < S) (p : Bytes) :
    (segments S p).length = (p.length + S - 1) / S ∧ Shape S (segments S p) ∧
    ((segments S p).map (·.1)).flatten = p :=
  ⟨segments_length S hS p, segments_shape S hS p, segments_concat S hS p⟩

/-! ### layout -/

/-- `Encrypt` writes exactly what a README-only encoder writes: the three-line header, then the
    sealed segments — for every script of the plaintext source. -/
theorem encrypt_layout (c : Crypto) (cd : Codec) (P : EncParams) (pwf : P.WF) (o : EncryptOpts)
    (fk np wfk : Bytes) (hwfk : wfk ≠ []) (r : Reader) (heof : r.term = .eof)
    (hhdr : (signHeader c cd P fk (cd.render (mkManifest o wfk np))).length ≤ P.segSize)
    (hcount : (segments P.segSize r.stream).length ≤ P.maxSeg + 1) :
    encryptImpl c cd P o fk np wfk r = (specEncrypt c cd P fk (mkManifest o wfk np) r.stream, .ok) := by
  have hwe : wfk.isEmpty = false := by simpa using hwfk
  have hfails : r.term.fails = false := by rw [heof]; rfl
  have hconf : confirmed P.segSize r none = segments P.segSize r.stream := by
    simp [confirmed, visible, hfails]
  have hfin : finOf r = .ok := by simp [finOf, hfails]
  have hnot : ¬ (signHeader c cd P fk (cd.render (mkManifest o wfk np))).length > P.segSize := by omega
  unfold encryptImpl
  simp only [hwe, Bool.false_eq_true, hnot, if_false]
  rw [processSegments_spec P.segSize P.maxSeg _ pwf.seg_pos r, hconf, hfin,
    runSegs_encrypt c P o.cph _ np P.segSize pwf.seg_pos _ 0 (segments_shape _ pwf.seg_pos _) (by omega)]
  rw [specEncrypt_eq, signHeader_eq]
  rfl

/-- `Encrypt` refuses a `WrapKeyFn` result that `Decrypt` would reject (an empty wrapped file key):
    it never emits a document whose manifest fails `Validate` for that reason. (Before
    `fix: … empty wrapped file key` it did; finding `empty-wrapped-key-accepted-by-encrypt`.) With it,
    the only parts of `Manifest.valid` left as preconditions of the round-trip theorems are facts
    `Encrypt` establishes itself before calling `WrapKeyFn`: validated algorithm and cipher ids and a
    7-byte nonce prefix. -/
theorem encrypt_refuses_empty_wrapped_key (c : Crypto) (cd : Codec) (P : EncParams) (o : EncryptOpts)
    (fk np : Bytes) (r : Reader) :
    encryptImpl c cd P o fk np [] r = ([], .err .emptyWrappedKey) := by
  simp [encryptImpl]

/-- T1: both sides of the empty-wrapped-key boundary are in the source. -/
theorem empty_wrapped_key_checks_as_modelled :
    Gen.encryptRefusesEmptyWrappedKey = true ∧ Gen.validateRejectsEmptyWrappedKey = true := by decide

/-- T1: the model may treat the file key handed to `WrapKeyFn` as a value: no function reachable from the
    statements of `Encrypt` after the call mentions the `fileKey` field, and the two slices cut from the
    39 random bytes carry no spare capacity (an appending callback cannot reach the nonce prefix). -/
theorem wrap_argument_not_read_again_as_modelled :
    Gen.fileKeyReadersAfterWrap = [] ∧ Gen.fileKeySlicesCapLimited = true ∧
      Gen.randomSplit = (32, 39) := by decide

/-- The layout of the specification document: header of three newline-terminated lines, then
    `⌈|p|/S⌉` sealed segments, each `overhead` bytes longer than its plaintext; none for `p = []`. -/
theorem spec_layout (c : Crypto) (cd : Codec) (P : EncParams) (pwf : P.WF)
    (fk : Bytes) (m : Manifest) (lc : c.LawfulFor P (payloadKey c P fk m.np) m.np) (p : Bytes) :
    specEncrypt c cd P fk m p =
      P.scheme ++ [10] ++ cd.render m ++ [10] ++ cd.b64 (headerMac c P fk (cd.render m)) ++ [10] ++
        ((sealedSegs c P m.cph (payloadKey c P fk m.np) m.np 0 (segments P.segSize p)).map (·.1)).flatten ∧
    (sealedSegs c P m.cph (payloadKey c P fk m.np) m.np 0 (segments P.segSize p)).length
      = (p.length + P.segSize - 1) / P.segSize ∧
    (specEncrypt c cd P fk m p).length =
      (P.scheme ++ [10] ++ cd.render m ++ [10] ++ cd.b64 (headerMac c P fk (cd.render m)) ++ [10]).length
        + p.length + P.overhead * ((p.length + P.segSize - 1) / P.segSize) := by
  have hflat : ∀ (segs : List (Bytes × Bool)) (i : Nat),
      specPayload c P m.cph (payloadKey c P fk m.np) m.np i segs =
        ((sealedSegs c P m.cph (payloadKey c P fk m.np) m.np i segs).map (·.1)).flatten := by
    intro segs; induction segs with
    | nil => intro i; rfl
    | cons a t ih => intro i; obtain ⟨d, l⟩ := a; rw [specPayload_cons, sealedSegs_cons, ih]; rfl
  have hlen : ∀ (segs : List (Bytes × Bool)) (i : Nat),
      (sealedSegs c P m.cph (payloadKey c P fk m.np) m.np i segs).length = segs.length := by
    intro segs; induction segs with
    | nil => intro i; rfl
    | cons a t ih => intro i; obtain ⟨d, l⟩ := a; rw [sealedSegs_cons]; simp [ih]
  have hplen : ∀ (segs : List (Bytes × Bool)) (i : Nat),
      (specPayload c P m.cph (payloadKey c P fk m.np) m.np i segs).length =
        ((segs.map (·.1)).flatten).length + P.overhead * segs.length := by
    intro segs; induction segs with
    | nil => intro i; rfl
    | cons a t ih =>
      intro i; obtain ⟨d, l⟩ := a
      rw [specPayload_cons, List.length_append, lc.seal_length, ih]
      simp only [List.map_cons, List.flatten_cons, List.length_append, List.length_cons]
      rw [Nat.mul_add]; omega
  refine ⟨?_, ?_, ?_⟩
  · rw [specEncrypt_eq, hflat]; rfl
  · rw [hlen, segments_length _ pwf.seg_pos]
  · rw [specEncrypt_eq, List.length_append, hplen, segments_concat _ pwf.seg_pos, segments_length _ pwf.seg_pos]
    simp only [hdrBytes]; omega

/-- `readHeader`: for any stream that starts with a well-formed header of at most `hdrMax` bytes and
    any script of a non-failing source, the manifest and MAC lines are returned and the stream
    continues with exactly the rest. -/
theorem readHeader_spec (P : EncParams) (ml cl rest : Bytes) (wf : HdrWF P.scheme ml cl)
    (hmax : (hdrBytes P.scheme ml cl).length ≤ P.hdrMax) (r : Reader) (heof : r.term = .eof)
    (hstream : r.stream = hdrBytes P.scheme ml cl ++ rest) :
    ∃ r', readHeader P r = .ok (ml, cl, r') ∧ r'.stream = rest ∧ r'.term = .eof :=
  readHeader_complete true P ml cl rest wf hmax r heof hstream

example : HdrWF [100] [123, 125] [65] := ⟨by simp, by simp, by simp, by simp, by simp, by simp⟩

/-- **Interop with encoders that write the manifest their own way** (README: "each JSON encoder could
    produce a slightly different output … the MAC should be computed on the exact manifest string"):
    for ANY manifest line `ml` — any field order, whitespace, escapes — that is non-empty, has no line
    feed and that the parser reads as a valid manifest `m`, with the MAC computed over `ml` itself,
    `Decrypt` releases exactly the plaintext with a clean EOF, for every script of the document source.
    (The code MACs the received bytes, never a re-encoding.) -/
theorem decrypt_accepts_foreign_manifest (c : Crypto) (cd : Codec) (P : EncParams) (pwf : P.WF)
    (lb : cd.B64Lawful) (fk : Bytes) (hfk : fk.length = P.fkLen)
    (m : Manifest) (ml : Bytes) (hparse : cd.parse ml = some m) (hne : ml ≠ []) (hnl : (10 : UInt8) ∉ ml)
    (lc : c.LawfulFor P (payloadKey c P fk m.np) m.np) (hm : m.valid P = true) (p : Bytes) (o : DecryptOpts)
    (hkn : o.keyName ≠ [] ∨ m.keyName ≠ []) (hunwrap : ∀ kn, o.unwrap m kn = fk)
    (hnf : ∀ kn, o.unwrapFails m kn = false)
    (hhdr : (signHeader c cd P fk ml).length ≤ P.hdrMax)
    (hcount : (segments P.segSize p).length ≤ P.maxSeg + 1)
    (r : Reader) (heof : r.term = .eof) (hstream : r.stream = specEncryptLine c cd P fk ml m p) :
    decryptImpl c cd P o r = (p, .ok) := by
  obtain ⟨e1, e2⟩ := effKey_good true P o m fk hfk hunwrap hnf
  obtain ⟨r', hrs, hrt, hdec⟩ := decrypt_of_header_line true true c cd P pwf lc.hmac_ne lb fk m ml hparse hne hnl hm o
    hkn e1 e2 _ r heof hhdr hstream
  unfold decryptImpl
  rw [hdec]
  have hfails : r'.term.fails = false := by rw [hrt]; rfl
  have hconf : confirmed (P.segSize + P.overhead) r' none =
      sealedSegs c P m.cph (payloadKey c P fk m.np) m.np 0 (segments P.segSize p) := by
    simp only [confirmed, visible, hfails, Bool.false_and, Bool.false_eq_true, if_false, Option.toList_none,
      List.nil_append, hrs]
    exact segments_specPayload c P m.cph _ m.np P.segSize pwf.seg_pos lc _ 0 (segments_shape _ pwf.seg_pos _)
  have hfin : finOf r' = .ok := by simp [finOf, hfails]
  have hpos : 0 < P.segSize + P.overhead := by have := pwf.seg_pos; omega
  rw [processSegments_spec _ _ _ hpos r', hconf, hfin]
  obtain ⟨h1, h2⟩ := runSegs_decrypt_sealed c P m.cph (payloadKey c P fk m.np) m.np P.segSize pwf.seg_pos lc
    (segments P.segSize p) 0 (segments_shape _ pwf.seg_pos _) (by omega)
  rw [h1, h2, segments_concat _ pwf.seg_pos]

/-- **Round trip / interop.** `Decrypt` opens every document of the specification encoder
    (`specEncrypt`, written from README.md; by `encrypt_layout` also every document of `Encrypt`)
    and releases exactly the plaintext with a clean EOF — for every lawful AEAD and codec, every
    file key, manifest, plaintext, and every script of the document source. -/
theorem decrypt_encrypt (c : Crypto) (cd : Codec) (P : EncParams) (pwf : P.WF)
    (fk : Bytes) (hfk : fk.length = P.fkLen)
    (m : Manifest) (lcd : cd.LawfulFor m) (lc : c.LawfulFor P (payloadKey c P fk m.np) m.np) (hm : m.valid P = true) (p : Bytes) (o : DecryptOpts)
    (hkn : o.keyName ≠ [] ∨ m.keyName ≠ []) (hunwrap : ∀ kn, o.unwrap m kn = fk)
    (hnf : ∀ kn, o.unwrapFails m kn = false)
    (hhdr : (signHeader c cd P fk (cd.render m)).length ≤ P.hdrMax)
    (hcount : (segments P.segSize p).length ≤ P.maxSeg + 1)
    (r : Reader) (heof : r.term = .eof) (hstream : r.stream = specEncrypt c cd P fk m p) :
    decryptImpl c cd P o r = (p, .ok) := by
  rw [specEncrypt_eq_line] at hstream
  exact decrypt_accepts_foreign_manifest c cd P pwf lcd.b64 fk hfk m _ lcd.parse_render lcd.render_line.1
    lcd.render_line.2 lc hm p o hkn hunwrap hnf hhdr hcount r heof hstream

/-- **Interop, other direction.** A decoder written from README.md alone (`specDecrypt`) opens what
    `Encrypt` writes, for every script of the plaintext source. -/
theorem spec_decrypts_impl (c : Crypto) (cd : Codec) (P : EncParams) (pwf : P.WF)
    (o : EncryptOpts) (fk np wfk : Bytes) (lcd : cd.LawfulFor (mkManifest o wfk np))
    (lc : c.LawfulFor P (payloadKey c P fk np) np) (hm : (mkManifest o wfk np).valid P = true) (r : Reader) (heof : r.term = .eof)
    (hhdr : (signHeader c cd P fk (cd.render (mkManifest o wfk np))).length ≤ P.segSize)
    (hcount : (segments P.segSize r.stream).length ≤ P.maxSeg + 1) :
    specDecrypt c cd P fk (encryptImpl c cd P o fk np wfk r).1 = some r.stream := by
  rw [encrypt_layout c cd P pwf o fk np wfk (Codec.valid_parts P _ hm).2.1 r heof hhdr hcount]
  exact specDecrypt_specEncrypt c cd P pwf fk _ lcd lc hm r.stream

/-- `Decrypt ∘ Encrypt = id` on the implementation-shaped functions themselves, including the header
    limit: whatever header `Encrypt` agrees to emit (`SignHeader` refuses more than `segSize` bytes)
    fits the buffer `readHeader` reads into (`hdrMax`), so every document `Encrypt` produces — with key
    names or wrapped keys of any size it accepts — is opened, for every script on both sides. -/
theorem decrypt_encryptImpl (c : Crypto) (cd : Codec) (P : EncParams) (pwf : P.WF)
    (hlim : P.segSize ≤ P.hdrMax)
    (eo : EncryptOpts) (fk np wfk : Bytes) (lcd : cd.LawfulFor (mkManifest eo wfk np)) (lc : c.LawfulFor P (payloadKey c P fk np) np) (hfk : fk.length = P.fkLen)
    (hm : (mkManifest eo wfk np).valid P = true) (o : DecryptOpts)
    (hkn : o.keyName ≠ [] ∨ (mkManifest eo wfk np).keyName ≠ [])
    (hunwrap : ∀ kn, o.unwrap (mkManifest eo wfk np) kn = fk)
    (hnf : ∀ kn, o.unwrapFails (mkManifest eo wfk np) kn = false)
    (src : Reader) (hsrc : src.term = .eof)
    (hhdr : (signHeader c cd P fk (cd.render (mkManifest eo wfk np))).length ≤ P.segSize)
    (hcount : (segments P.segSize src.stream).length ≤ P.maxSeg + 1)
    (r : Reader) (heof : r.term = .eof) (hstream : r.stream = (encryptImpl c cd P eo fk np wfk src).1) :
    decryptImpl c cd P o r = (src.stream, .ok) := by
  rw [encrypt_layout c cd P pwf eo fk np wfk (Codec.valid_parts P _ hm).2.1 src hsrc hhdr hcount] at hstream
  exact decrypt_encrypt c cd P pwf fk hfk _ lcd lc hm src.stream o hkn hunwrap hnf (by omega) hcount r heof hstream

/-- The parameters regenerated from the Go source satisfy what the theorems assume. -/
theorem generated_wf : EncParams.generated.WF :=
  ⟨by decide, by decide, by decide⟩

/-! ### the consumer's chunking -/

/-- `io.Pipe` with the consumer's read sizes as a script: whatever sizes the consumer of the stream
    returned by `Decrypt` reads with (any finite script, zero-length reads included, then any positive
    size), it receives exactly the released bytes and the terminal of `decryptImpl` — for every
    document source and script. -/
theorem decrypt_consumer_independent (c : Crypto) (cd : Codec) (P : EncParams) (pwf : P.WF) (o : DecryptOpts)
    (r : Reader) (bufs : List Nat) (dflt : Nat) (hd : 0 < dflt) :
    Pipe.decryptConsumed c cd P o r bufs dflt = decryptImpl c cd P o r := by
  unfold Pipe.decryptConsumed
  obtain ⟨h1, h2⟩ := Pipe.consumeAll_spec (Pipe.decryptPipe c cd P o r).1 (Pipe.decryptPipe c cd P o r).2 bufs dflt hd
  simp only [h1, h2]
  exact Pipe.decryptPipe_eq c cd P pwf.seg_pos o r

/-- The same for the stream returned by `Encrypt`. -/
theorem encrypt_consumer_independent (c : Crypto) (cd : Codec) (P : EncParams) (pwf : P.WF) (o : EncryptOpts)
    (fk np wfk : Bytes) (r : Reader) (bufs : List Nat) (dflt : Nat) (hd : 0 < dflt) :
    Pipe.encryptConsumed c cd P o fk np wfk r bufs dflt = encryptImpl c cd P o fk np wfk r := by
  unfold Pipe.encryptConsumed
  obtain ⟨h1, h2⟩ := Pipe.consumeAll_spec (Pipe.encryptPipe c cd P o fk np wfk r).1
    (Pipe.encryptPipe c cd P o fk np wfk r).2 bufs dflt hd
  simp only [h1, h2]
  exact Pipe.encryptPipe_eq c cd P pwf.seg_pos o fk np wfk r

/-- The pipe itself: any consumer script receives the concatenation of the writes and the close status. -/
theorem pipe_consumer_irrelevant (ws : List Bytes) (term : Terminal) (bufs : List Nat) (dflt : Nat) (hd : 0 < dflt) :
    (Pipe.consumeAll ws term bufs dflt).1.flatten = ws.flatten ∧ (Pipe.consumeAll ws term bufs dflt).2 = term :=
  Pipe.consumeAll_spec ws term bufs dflt hd

example : (Pipe.consumeAll [[1, 2, 3], [4, 5]] .ok [2, 0, 5] 1).1 = [[1, 2], [], [3], [4], [5]] := by decide

/-! ### the concrete Lean crypto the driver runs -/

/-- The AEAD/HKDF/HMAC instance `kitdrv` executes is lawful on every run (`realCrypto_lawful`): the
    round-trip theorem therefore holds for the **concrete** Lean AES-GCM and ChaCha20-Poly1305, with no
    hypothesis about the primitives left. -/
theorem decrypt_encrypt_real_crypto (cd : Codec)
    (fk : Bytes) (hfk : fk.length = 32) (m : Manifest) (lcd : cd.LawfulFor m) (hm : m.valid EncParams.generated = true) (p : Bytes)
    (o : DecryptOpts) (hkn : o.keyName ≠ [] ∨ m.keyName ≠ []) (hunwrap : ∀ kn, o.unwrap m kn = fk)
    (hnf : ∀ kn, o.unwrapFails m kn = false)
    (hhdr : (signHeader Real.realCrypto cd EncParams.generated fk (cd.render m)).length ≤ 65536)
    (hcount : (segments 65536 p).length ≤ 2 ^ 32)
    (r : Reader) (heof : r.term = .eof)
    (hstream : r.stream = specEncrypt Real.realCrypto cd EncParams.generated fk m p) :
    decryptImpl Real.realCrypto cd EncParams.generated o r = (p, .ok) :=
  decrypt_encrypt Real.realCrypto cd EncParams.generated generated_wf fk hfk m lcd
    (Real.realCrypto_lawful fk m.np) hm p o hkn hunwrap hnf hhdr hcount r heof hstream

/-- **Round trip for the concrete Lean implementation the driver runs** — Lean AES-GCM /
    ChaCha20-Poly1305 / HKDF / HMAC (`Real.realCrypto`) and the Go-modelled base64/JSON codec
    (`Real.realCodec`): no hypothesis about primitives or codec is left. What remains are the
    conditions of the scheme itself: a 32-byte file key, a valid manifest (ids known, wrapped key
    non-empty, 7-byte nonce prefix) whose key name is in the modelled subset (bytes `< 0x80`), a
    resolvable key name, a header within the 64 KiB limit and at most `2^32` segments. For every
    script of the document source. -/
theorem decrypt_encrypt_real (fk : Bytes) (hfk : fk.length = 32) (m : Manifest)
    (hm : m.valid EncParams.generated = true) (hk : ∀ b ∈ m.keyName, b.toNat < 128) (p : Bytes)
    (o : DecryptOpts) (hkn : o.keyName ≠ [] ∨ m.keyName ≠ []) (hunwrap : ∀ kn, o.unwrap m kn = fk)
    (hnf : ∀ kn, o.unwrapFails m kn = false)
    (hhdr : (signHeader Real.realCrypto Real.realCodec EncParams.generated fk (Real.realCodec.render m)).length ≤ 65536)
    (hcount : (segments 65536 p).length ≤ 2 ^ 32)
    (r : Reader) (heof : r.term = .eof)
    (hstream : r.stream = specEncrypt Real.realCrypto Real.realCodec EncParams.generated fk m p) :
    decryptImpl Real.realCrypto Real.realCodec EncParams.generated o r = (p, .ok) :=
  decrypt_encrypt_real_crypto Real.realCodec fk hfk m (Codec.realCodec_lawful m hm hk) hm p o hkn hunwrap hnf hhdr hcount r
    heof hstream

/-- The same for `Encrypt`'s own output (`encryptImpl`), for every script on both sides. -/
theorem decrypt_encryptImpl_real (eo : EncryptOpts) (fk np wfk : Bytes) (hfk : fk.length = 32)
    (hm : (mkManifest eo wfk np).valid EncParams.generated = true)
    (hk : ∀ b ∈ (mkManifest eo wfk np).keyName, b.toNat < 128) (o : DecryptOpts)
    (hkn : o.keyName ≠ [] ∨ (mkManifest eo wfk np).keyName ≠ [])
    (hunwrap : ∀ kn, o.unwrap (mkManifest eo wfk np) kn = fk)
    (hnf : ∀ kn, o.unwrapFails (mkManifest eo wfk np) kn = false)
    (src : Reader) (hsrc : src.term = .eof)
    (hhdr : (signHeader Real.realCrypto Real.realCodec EncParams.generated fk
      (Real.realCodec.render (mkManifest eo wfk np))).length ≤ 65536)
    (hcount : (segments 65536 src.stream).length ≤ 2 ^ 32)
    (r : Reader) (heof : r.term = .eof)
    (hstream : r.stream = (encryptImpl Real.realCrypto Real.realCodec EncParams.generated eo fk np wfk src).1) :
    decryptImpl Real.realCrypto Real.realCodec EncParams.generated o r = (src.stream, .ok) :=
  decrypt_encryptImpl Real.realCrypto Real.realCodec EncParams.generated generated_wf (by decide) eo fk np wfk
    (Codec.realCodec_lawful _ hm hk) (Real.realCrypto_lawful fk np) hfk hm o hkn hunwrap hnf src hsrc hhdr hcount r heof hstream

/-- The README-only decoder opens what the concrete `Encrypt` writes. -/
theorem spec_decrypts_impl_real (eo : EncryptOpts) (fk np wfk : Bytes)
    (hm : (mkManifest eo wfk np).valid EncParams.generated = true)
    (hk : ∀ b ∈ (mkManifest eo wfk np).keyName, b.toNat < 128)
    (src : Reader) (hsrc : src.term = .eof)
    (hhdr : (signHeader Real.realCrypto Real.realCodec EncParams.generated fk
      (Real.realCodec.render (mkManifest eo wfk np))).length ≤ 65536)
    (hcount : (segments 65536 src.stream).length ≤ 2 ^ 32) :
    specDecrypt Real.realCrypto Real.realCodec EncParams.generated fk
      (encryptImpl Real.realCrypto Real.realCodec EncParams.generated eo fk np wfk src).1 = some src.stream :=
  spec_decrypts_impl Real.realCrypto Real.realCodec EncParams.generated generated_wf eo fk np wfk
    (Codec.realCodec_lawful _ hm hk) (Real.realCrypto_lawful fk np) hm src hsrc hhdr hcount

/-- Non-vacuity: a manifest and file key satisfying the hypotheses of `decrypt_encrypt_real`. -/
example : (⟨[107, 34, 60, 10], 1, [1, 2, 3], 2, [1, 2, 3, 4, 5, 6, 7]⟩ : Manifest).valid EncParams.generated = true ∧
    (∀ b ∈ ([107, 34, 60, 10] : Bytes), b.toNat < 128) ∧ (List.replicate 32 (7 : UInt8)).length = 32 := by decide

/-- T1: in the source the two limits coincide (both are `SegmentSize` = 64 KiB). -/
theorem header_limit_matches :
    EncParams.generated.segSize ≤ EncParams.generated.hdrMax ∧ Gen.headerLimit = Gen.segmentSize ∧
    Gen.encryptSegmentArg = Gen.segmentSize := by decide


/-! Non-vacuity: a lawful AEAD and a lawful codec exist (`KitProofs/Lemmas/EncToy.lean`), for the
    generated parameters, with a valid manifest and a resolvable key name. -/
example : Toy.toyCrypto.Lawful EncParams.generated.overhead := Toy.toyCrypto_lawful
example (pk np : Bytes) : Toy.toyCrypto.LawfulFor EncParams.generated pk np := Toy.toyCrypto_lawful.for pk np
example : Toy.toyCodec.Lawful EncParams.generated := Toy.toyCodec_lawful _
example (m : Manifest) (hm : m.valid EncParams.generated = true) : Toy.toyCodec.LawfulFor m := (Toy.toyCodec_lawful _).for m hm
example : (⟨[107], 1, [1, 2, 3], 2, [1, 2, 3, 4, 5, 6, 7]⟩ : Manifest).valid EncParams.generated = true := by decide

/-! ### tables (over the facts regenerated from algorithms.go / ciphers.go / scheme.go) -/

/-- `Validate` resolves the two aliases and keeps the five canonical names. -/
theorem alg_validate_table :
    Gen.keyAlgorithmValidate.map (fun x => (x.1, kwValidate x.1)) =
      [("A256KW", some "A256KW"), ("A128CBC-NOPAD", some "A128CBC-NOPAD"), ("A192CBC-NOPAD", some "A192CBC-NOPAD"),
       ("A256CBC-NOPAD", some "A256CBC-NOPAD"), ("RSA-OAEP-256", some "RSA-OAEP-256"),
       ("AES", some "A256KW"), ("RSA", some "RSA-OAEP-256")] := by decide

/-- For every accepted name (aliases included): `NewKeyAlgorithmFromID(a.ID()) = a.Validate()`, and the id is not the invalid one. -/
theorem alg_id_roundtrip :
    ∀ a ∈ Gen.keyAlgorithmValidate.map (·.1), kwFromID (kwID a) = kwValidate a ∧ kwID a ≠ Gen.keyAlgorithmInvalidID := by decide

/-- For every id with a name: `NewKeyAlgorithmFromID(i).ID() = i` and the name is canonical. -/
theorem alg_fromid_roundtrip :
    ∀ i ∈ Gen.keyAlgorithmFromID.map (·.1), (kwFromID i).map kwID = some i ∧ (kwFromID i).bind kwValidate = kwFromID i := by decide

theorem alg_ids_distinct : (Gen.keyAlgorithmFromID.map (·.1)).Nodup ∧ (Gen.keyAlgorithmFromID.map (·.2)).Nodup := by decide

theorem cipher_id_roundtrip :
    ∀ a ∈ Gen.cipherValidate.map (·.1), cphFromID (cphID a) = cphValidate a ∧ cphValidate a = some a ∧ cphID a ≠ Gen.cipherInvalidID := by decide

theorem cipher_fromid_roundtrip :
    ∀ i ∈ Gen.cipherFromID.map (·.1), (cphFromID i).map cphID = some i := by decide

theorem default_cipher_valid : cphValidate Gen.defaultCipher = some Gen.defaultCipher ∧ cphID Gen.defaultCipher = 1 := by decide

/-- Decision table of the key name written into the manifest
    (`OmitKeyName` wins, then `DecryptionKeyName`, then `KeyName`). -/
theorem keyname_encrypt_table (kn dk : Bytes) (kw cph : Nat) :
    manifestKeyName ⟨kn, dk, true, kw, cph⟩ = [] ∧
    (dk ≠ [] → manifestKeyName ⟨kn, dk, false, kw, cph⟩ = dk) ∧
    manifestKeyName ⟨kn, [], false, kw, cph⟩ = kn := by
  refine ⟨rfl, ?_, rfl⟩
  intro h
  cases dk with
  | nil => exact absurd rfl h
  | cons b bs => rfl

/-- Decision table of the key name handed to `UnwrapKeyFn`
    (the option overrides the manifest; neither ⇒ `ErrDecryptionKeyMissing`). -/
theorem keyname_decrypt_table (opt mk : Bytes) :
    (opt ≠ [] → resolveKeyName opt mk = some opt) ∧
    (mk ≠ [] → resolveKeyName [] mk = some mk) ∧
    resolveKeyName [] [] = none := by
  refine ⟨?_, ?_, rfl⟩
  · intro h; cases opt with
    | nil => exact absurd rfl h
    | cons b bs => rfl
  · intro h; cases mk with
    | nil => exact absurd rfl h
    | cons b bs => rfl

/-- The generated manifest description is the one README.md publishes. -/
theorem manifest_fields_as_published :
    Gen.manifestFields.map (fun f => (f.2.1, f.2.2.1)) =
      [("k", true), ("kw", false), ("wfk", false), ("cph", false), ("np", false)] := by decide

/-- The key-name decisions and the manifest marshalling the model implements are the ones
    `factgen_c01` found in `Encrypt` / `Decrypt` / `MarshalJSON`. -/
theorem keyname_rules_as_modelled :
    Gen.encryptKeyNameRule = ["DecryptionKeyName", "OmitKeyName→empty", "empty→KeyName"] ∧
    Gen.decryptKeyNameRule = ["opts.KeyName", "empty→manifest.KeyName", "empty→ErrDecryptionKeyMissing"] ∧
    Gen.keyAlgorithmMarshal = "strconv.Itoa(a.ID())" ∧ Gen.cipherMarshal = "strconv.Itoa(c.ID())" ∧
    Gen.headerMessageParts = ["SchemeName", "manifest", ""] ∧ Gen.headerJoin = 10 ∧
    Gen.macEncoding = "base64.StdEncoding" ∧ Gen.headerTerminator = 10 ∧
    Gen.cipherConstructors = [("AES-GCM", "cipher.NewGCM(aes.NewCipher)"), ("CHACHA20-POLY1305", "chacha20poly1305.New")] := by decide

/-- Constants of the published format. -/
theorem constants_as_published :
    Gen.schemeName = "dapr.io/enc/v1" ∧ Gen.segmentSize = 65536 ∧ Gen.segmentOverhead = 16 ∧
    Gen.noncePrefixLength = 7 ∧ Gen.encryptSegmentArg = Gen.segmentSize ∧
    Gen.decryptSegmentArg = Gen.segmentSize + Gen.segmentOverhead ∧
    Gen.bufSize = Gen.segmentSize + Gen.segmentOverhead + 1 ∧ Gen.maxSegment + 1 = 2 ^ 32 ∧
    Gen.nonceLength = 12 ∧ Gen.nonceLayout = [.noncePrefix 7, .counterBE32, .lastFlag 1 0] ∧
    Gen.headerKeyDerivation = (32, "header", false) ∧ Gen.payloadKeyDerivation = (32, "payload", true) ∧
    Gen.hkdfHash = "sha256" ∧ Gen.hmacHash = "sha256" := by decide

/-- **The read-size sequence of the source is irrelevant, for every process function and every
    terminal** (failing sources included): replacing the caps of a reader script by ANY other list —
    other chunk sizes, any number of zero-length `(0, nil)` reads anywhere, in runs of any length —
    leaves the whole result of the segment loop (calls, bytes written, close status) unchanged.
    (Both sides equal `runSegs fn (confirmed r) 0 (finOf r)` by `processSegments_spec`, and neither
    `confirmed` nor `finOf` looks at the caps.) -/
theorem processSegments_read_sizes_irrelevant (segSize maxSeg : Nat) (hs : 0 < segSize) (fn : ProcFn)
    (r : Reader) (caps' : List Nat) :
    processSegments segSize maxSeg fn { r with caps := caps' } = processSegments segSize maxSeg fn r := by
  rw [processSegments_spec segSize maxSeg fn hs, processSegments_spec segSize maxSeg fn hs r]
  rfl

/-- The instance behind seeded change C01-r6m2 (a "no progress" guard after 100 empty reads): a run
    of `k` consecutive zero-length reads inserted before the `pos`-th read of any script — `k` = 100,
    5000, anything — does not change what the segment loop does. -/
theorem processSegments_zero_read_runs_irrelevant (segSize maxSeg : Nat) (hs : 0 < segSize) (fn : ProcFn)
    (r : Reader) (pos k : Nat) :
    processSegments segSize maxSeg fn
        { r with caps := r.caps.take pos ++ List.replicate k 0 ++ r.caps.drop pos }
      = processSegments segSize maxSeg fn r :=
  processSegments_read_sizes_irrelevant segSize maxSeg hs fn r _

/-- The instance is not vacuous: 100 zero-length reads between the two reads of a script. -/
example : ({ (⟨[], [1, 2, 3], [2, 1], false, .eof⟩ : Reader) with
      caps := ([2, 1] : List Nat).take 1 ++ List.replicate 100 0 ++ ([2, 1] : List Nat).drop 1 }).caps.length = 102 := by
  decide

end Kit.Enc.C01
