/-
C01 — enc/v1: Decrypt inverts Encrypt for every chunking; the ciphertext follows the published
layout; interop with an independent implementation.  Property theorems only (lemmas are in
`KitProofs/Lemmas/Enc*.lean`).
-/
import KitModel.Enc
import KitProofs.Lemmas.EncLoop
import KitProofs.Lemmas.EncSegs

namespace Kit.Enc.C01
open Kit Kit.Enc

/-- A process function that accepts every segment (what a recording function does). -/
def Accepting (fn : ProcFn) : Prop := ∀ d i l, ∃ o, fn d i l = .ok o

/-- **Core theorem.** For every content, every reader script delivering it (any caps, zero-length
    reads, EOF with or after the last data, any push-back) and every segment size `> 0`, the
    sequence of `(data, index, last)` calls made by the implementation-shaped loop is exactly the
    pure split of the content numbered from 0, and the pipe is closed cleanly.  (The count
    hypothesis is the loop's own 32-bit guard: at most `maxSeg + 1 = 2^32` segments.) -/
theorem processSegments_eq_pure (segSize maxSeg : Nat) (hs : 0 < segSize) (fn : ProcFn)
    (hfn : Accepting fn) (r : Reader) (heof : r.term = .eof)
    (hcount : (segments segSize r.stream).length ≤ maxSeg + 1) :
    (processSegments segSize maxSeg fn r).calls = numbered 0 (segments segSize r.stream) ∧
    (processSegments segSize maxSeg fn r).term = .ok := by
  have hfails : r.term.fails = false := by rw [heof]; rfl
  have hconf : confirmed segSize r none = segments segSize r.stream := by
    simp [confirmed, visible, hfails]
  have hfin : finOf r = .ok := by simp [finOf, hfails]
  rw [processSegments_spec segSize maxSeg fn hs r, hconf, hfin]
  -- choose the outputs
  have hg : ∃ g : Bytes → Nat → Bool → Bytes, ∀ d i l, fn d i l = .ok (g d i l) :=
    ⟨fun d i l => (hfn d i l).choose, fun d i l => (hfn d i l).choose_spec⟩
  obtain ⟨g, hg⟩ := hg
  rw [runSegs_all_ok segSize maxSeg hs fn g (fun d i l _ _ => hg d i l) _ 0
    (segments_shape segSize hs _) (by omega)]
  exact ⟨rfl, rfl⟩

example : Accepting (fun d _ _ => .ok d) := fun d _ _ => ⟨d, rfl⟩
example : (⟨[], [1, 2, 3, 4, 5], [0, 2, 0, 1], true, .eof⟩ : Reader).term = .eof := rfl

/-- No call at all for empty content. -/
theorem processSegments_empty (segSize maxSeg : Nat) (hs : 0 < segSize) (fn : ProcFn) (r : Reader)
    (heof : r.term = .eof) (hempty : r.stream = []) :
    processSegments segSize maxSeg fn r = ⟨[], [], .ok⟩ := by
  have hfails : r.term.fails = false := by rw [heof]; rfl
  have hconf : confirmed segSize r none = [] := by
    simp [confirmed, visible, hfails, hempty, segments_nil]
  rw [processSegments_spec segSize maxSeg fn hs r, hconf, runSegs_nil]
  simp [finOf, hfails]

/-- The split itself: `⌈|p|/S⌉` segments, all full and non-final except the last, which has
    `1..S` bytes and carries the last flag; concatenated they are `p`. -/
theorem segments_layout (S : Nat) (hS : 0 < S) (p : Bytes) :
    (segments S p).length = (p.length + S - 1) / S ∧ Shape S (segments S p) ∧
    ((segments S p).map (·.1)).flatten = p :=
  ⟨segments_length S hS p, segments_shape S hS p, segments_concat S hS p⟩

/-! ### tables (over the facts regenerated from algorithms.go / ciphers.go / scheme.go) -/

/-- `Validate` resolves the two aliases and keeps the five canonical names. -/
theorem alg_validate_table :
    Gen.keyAlgorithmValidate.map (fun x => (x.1, kwValidate x.1)) =
      [("A256KW", some "A256KW"), ("A128CBC-NOPAD", some "A128CBC-NOPAD"), ("A192CBC-NOPAD", some "A192CBC-NOPAD"),
       ("A256CBC-NOPAD", some "A256CBC-NOPAD"), ("RSA-OAEP-256", some "RSA-OAEP-256"),
       ("AES", some "A256KW"), ("RSA", some "RSA-OAEP-256")] := by decide

/-- For every accepted name (aliases included): `NewKeyAlgorithmFromID(a.ID()) = a.Validate()`, and the id is not the invalid one. -/
theorem alg_id_roundtrip :
    ∀ a ∈ Gen.keyAlgorithmValidate.map (·.1), kwFromID (kwID a) = kwValidate a ∧ kwID a ≠ Gen.keyAlgorithmInvalidID := by decide

/-- For every id with a name: `NewKeyAlgorithmFromID(i).ID() = i` and the name is canonical. -/
theorem alg_fromid_roundtrip :
    ∀ i ∈ Gen.keyAlgorithmFromID.map (·.1), (kwFromID i).map kwID = some i ∧ (kwFromID i).bind kwValidate = kwFromID i := by decide

theorem alg_ids_distinct : (Gen.keyAlgorithmFromID.map (·.1)).Nodup ∧ (Gen.keyAlgorithmFromID.map (·.2)).Nodup := by decide

theorem cipher_id_roundtrip :
    ∀ a ∈ Gen.cipherValidate.map (·.1), cphFromID (cphID a) = cphValidate a ∧ cphValidate a = some a ∧ cphID a ≠ Gen.cipherInvalidID := by decide

theorem cipher_fromid_roundtrip :
    ∀ i ∈ Gen.cipherFromID.map (·.1), (cphFromID i).map cphID = some i := by decide

theorem default_cipher_valid : cphValidate Gen.defaultCipher = some Gen.defaultCipher ∧ cphID Gen.defaultCipher = 1 := by decide

/-- Decision table of the key name written into the manifest
    (`OmitKeyName` wins, then `DecryptionKeyName`, then `KeyName`). -/
theorem keyname_encrypt_table (kn dk : Bytes) (kw cph : Nat) :
    manifestKeyName ⟨kn, dk, true, kw, cph⟩ = [] ∧
    (dk ≠ [] → manifestKeyName ⟨kn, dk, false, kw, cph⟩ = dk) ∧
    manifestKeyName ⟨kn, [], false, kw, cph⟩ = kn := by
  refine ⟨rfl, ?_, rfl⟩
  intro h
  cases dk with
  | nil => exact absurd rfl h
  | cons b bs => rfl

/-- Decision table of the key name handed to `UnwrapKeyFn`
    (the option overrides the manifest; neither ⇒ `ErrDecryptionKeyMissing`). -/
theorem keyname_decrypt_table (opt mk : Bytes) :
    (opt ≠ [] → resolveKeyName opt mk = some opt) ∧
    (mk ≠ [] → resolveKeyName [] mk = some mk) ∧
    resolveKeyName [] [] = none := by
  refine ⟨?_, ?_, rfl⟩
  · intro h; cases opt with
    | nil => exact absurd rfl h
    | cons b bs => rfl
  · intro h; cases mk with
    | nil => exact absurd rfl h
    | cons b bs => rfl

/-- The generated manifest description is the one README.md publishes. -/
theorem manifest_fields_as_published :
    Gen.manifestFields.map (fun f => (f.2.1, f.2.2.1)) =
      [("k", true), ("kw", false), ("wfk", false), ("cph", false), ("np", false)] := by decide

/-- Constants of the published format. -/
theorem constants_as_published :
    Gen.schemeName = "dapr.io/enc/v1" ∧ Gen.segmentSize = 65536 ∧ Gen.segmentOverhead = 16 ∧
    Gen.noncePrefixLength = 7 ∧ Gen.encryptSegmentArg = Gen.segmentSize ∧
    Gen.decryptSegmentArg = Gen.segmentSize + Gen.segmentOverhead ∧
    Gen.bufSize = Gen.segmentSize + Gen.segmentOverhead + 1 ∧ Gen.maxSegment + 1 = 2 ^ 32 ∧
    Gen.nonceLength = 12 ∧ Gen.nonceLayout = [.noncePrefix 7, .counterBE32, .lastFlag 1 0] ∧
    Gen.headerKeyDerivation = (32, "header", false) ∧ Gen.payloadKeyDerivation = (32, "payload", true) ∧
    Gen.hkdfHash = "sha256" ∧ Gen.hmacHash = "sha256" := by decide

end Kit.Enc.C01
