/-
C16 — the model is the code, part 3: `MultiReaderCloser.Close`, `TeeReadCloser.Close` and
`TeeReadCloser.Stop` as TRANSLATED from /repo/streams/multireadercloser.go and
/repo/streams/teereadcloser.go on this run (`KitModel/Generated/CodeC16.lean`:
`MultiReaderCloser_Close` with its `range` loop `MultiReaderCloser_Close_loop1`,
`TeeReadCloser_Close`, `TeeReadCloser_Stop`) compute exactly what the hand-written models
`Kit.Streams.Multi.close`, `Tee.close`, `Tee.stop` compute.

How the translation represents the world (target table of `harness/cmd/go2lean`):
  * Multi: `mr.readers : List Nat` (source identifiers), `R_IsCloser i` says whether source `i`
    implements `io.Closer`, every `rc.Close()` appends the identifier to the ghost log `closeLog`
    (its error is discarded by the Go code: `_ = rc.Close()`); the result is
    `(nil error, mr.readers, closeLog)`.
  * Tee: whether `t.r` / `t.w` is nil is the ghost state `t_rnil` / `t_wnil`; the type assertion
    `t.r.(io.Closer)` is `(!t_rnil) && R_IsCloser` (an assertion on a nil interface fails);
    `r.Close()` / `w.Close()` return the parameters `R_CloseErr` / `W_CloseErr` and are counted in
    `rCloses` / `wCloses`; `fmt.Errorf(..)` is `some "fmt.Errorf"`; the mutex calls are dropped.
    Results: Close `(err, t_rnil, t_wnil, rCloses, wCloses)`, Stop `(err, t_wnil, wCloses)`.

Route for `Close` of the multi reader: the translated `range` loop is first shown, for ARBITRARY
`R_IsCloser` / `mr_readers` and every amount of fuel, to append exactly `mr_readers.filter R_IsCloser`
to the log (never-panics, termination, closes-each-listed-closer-once, idempotence on the translated
code alone); then, over a table of scripted sources, that list is shown to be the identifiers of the
sources the model's `Multi.close` closed.

No arithmetic that could wrap occurs in any of the three functions except `rCloses + 1` /
`wCloses + 1` on the ghost counters, which are mathematical integers in the translation.

Trusted here: the translator, `KitModel/Go/Sem.lean`, and the representation above.
-/
import KitProofs.Props.C16CodeTee
import KitProofs.Props.C16CodeMulti

namespace Kit.Streams.Code
open Kit.Streams Kit.GoSem Kit.Generated.CodeC16

/-! ## `MultiReaderCloser.Close` -/

/-! ### the translated `range` loop -/

/-- One iteration of the translated loop. (`mr_readers` is carried along but not used by the loop:
Go's `range` evaluates its operand once, into `rng1_`.) -/
theorem close_loop1_step (f : Nat) (C : Nat → Bool) (mr cl rng : List Nat) (len i : Int) :
    MultiReaderCloser_Close_loop1 (f + 1) C mr cl rng len i =
      if i < len then
        MultiReaderCloser_Close_loop1 f C mr
          (if C (idxG rng i) then cl ++ [idxG rng i] else cl) rng len (i + 1)
      else .ok (.brk (cl, i)) := by
  rw [MultiReaderCloser_Close_loop1]
  by_cases h : i < len
  · cases hc : C (idxG rng i) <;> simp [h, hc]
  · simp [h]

theorem idxG_natCast (rng : List Nat) (i : Nat) (hi : i < rng.length) :
    idxG rng (i : Int) = rng[i] := by
  simp [idxG, List.getD_eq_getElem?_getD, List.getElem?_eq_getElem hi]

/-- **The translated loop appends exactly the closers among the identifiers still to be visited**,
for every amount of fuel: started at index `i ≤ len(rng)`, either the fuel ran out (and then it was
at most `len(rng) - i`), or the loop ended normally (never by `return`, never by a panic) with
`closeLog ++ (rng[i:] filtered by R_IsCloser)`, the index at `len(rng)`. -/
theorem close_loop1_spec (C : Nat → Bool) (mr rng : List Nat) :
    ∀ (fuel i : Nat) (cl : List Nat), i ≤ rng.length →
      (MultiReaderCloser_Close_loop1 fuel C mr cl rng (lenI rng) (i : Int) = .nofuel ∧
          fuel + i ≤ rng.length) ∨
      MultiReaderCloser_Close_loop1 fuel C mr cl rng (lenI rng) (i : Int) =
        .ok (.brk (cl ++ (rng.drop i).filter C, lenI rng)) := by
  intro fuel
  induction fuel with
  | zero =>
    intro i cl hi
    left
    exact ⟨by rw [MultiReaderCloser_Close_loop1], by omega⟩
  | succ f ih =>
    intro i cl hi
    rw [close_loop1_step]
    by_cases hlt : i < rng.length
    · have hc : (i : Int) < lenI rng := by unfold lenI; omega
      have hnext : (i : Int) + 1 = ((i + 1 : Nat) : Int) := by omega
      simp only [hc, ↓reduceIte, idxG_natCast rng i hlt, hnext]
      have hdrop : rng.drop i = rng[i] :: rng.drop (i + 1) := List.drop_eq_getElem_cons hlt
      rcases ih (i + 1) (if C rng[i] then cl ++ [rng[i]] else cl) (by omega) with h | h
      · left; exact ⟨h.1, by omega⟩
      · right
        have hfilt : (rng.drop i).filter C =
            if C rng[i] then rng[i] :: (rng.drop (i + 1)).filter C else (rng.drop (i + 1)).filter C := by
          rw [hdrop, List.filter_cons]
        rw [h, hfilt]
        cases hC : C rng[i] <;> simp
    · have hi' : i = rng.length := by omega
      have hc : ¬ ((i : Int) < lenI rng) := by unfold lenI; omega
      right
      simp only [hc, ↓reduceIte]
      subst hi'
      simp [lenI]

/-- The translated `Close`, for every amount of fuel and ARBITRARY parameters: out of fuel (only
below `len(mr.readers) + 1`), or `(nil, [], closeLog ++ closers of mr.readers)`. -/
theorem close_code_spec (fuel : Nat) (C : Nat → Bool) (mr cl : List Nat) :
    (MultiReaderCloser_Close fuel C mr cl = .nofuel ∧ fuel ≤ mr.length) ∨
    MultiReaderCloser_Close fuel C mr cl = .ok (none, [], cl ++ mr.filter C) := by
  have h := close_loop1_spec C mr mr fuel 0 cl (Nat.zero_le _)
  simp only [Int.natCast_zero, List.drop_zero, Nat.add_zero] at h
  unfold MultiReaderCloser_Close
  rcases h with h | h
  · left
    simp only [h.1]
    exact ⟨trivial, h.2⟩
  · right
    simp only [h]
    have hl : (0 : Int) ≤ lenI mr := by unfold lenI; omega
    simp [hl, slice]

/-- **The translated `Close` never panics** — all inputs, all fuel, arbitrary `R_IsCloser`
(`rng[idx]` is only evaluated under `idx < len(rng)`; `mr.readers[:0]` is always in range). -/
theorem multi_close_code_never_panics (fuel : Nat) (R_IsCloser : Nat → Bool)
    (mr_readers closeLog : List Nat) :
    ∀ msg, MultiReaderCloser_Close fuel R_IsCloser mr_readers closeLog ≠ .panic msg := by
  intro msg h
  rcases close_code_spec fuel R_IsCloser mr_readers closeLog with h' | h'
  · rw [h'.1] at h; cases h
  · rw [h'] at h; cases h

/-- **Closes each listed closer exactly once**, directly on the translated code, arbitrary
`R_IsCloser` / `mr_readers`: with `len(mr.readers) + 1` iterations of fuel the translated `Close`
returns a nil error, `mr.readers` becomes `[]`, and `closeLog` grows by exactly the sub-list of
`mr_readers` (same order, same multiplicities) whose elements are closers. -/
theorem multi_close_code_closes_each_listed_closer_once (fuel : Nat) (R_IsCloser : Nat → Bool)
    (mr_readers closeLog : List Nat) (hfuel : mr_readers.length + 1 ≤ fuel) :
    MultiReaderCloser_Close fuel R_IsCloser mr_readers closeLog =
      .ok (none, [], closeLog ++ mr_readers.filter R_IsCloser) := by
  rcases close_code_spec fuel R_IsCloser mr_readers closeLog with h' | h'
  · omega
  · exact h'

/-- The same for ANY fuel: whatever the translated `Close` returns is that value (fuel never changes
a result). -/
theorem multi_close_code_ok_iff (fuel : Nat) (R_IsCloser : Nat → Bool)
    (mr_readers closeLog : List Nat) (v : GoSem.Err × List Nat × List Nat)
    (h : MultiReaderCloser_Close fuel R_IsCloser mr_readers closeLog = .ok v) :
    v = (none, [], closeLog ++ mr_readers.filter R_IsCloser) := by
  rcases close_code_spec fuel R_IsCloser mr_readers closeLog with h' | h'
  · rw [h'.1] at h; cases h
  · rw [h'] at h; cases h; rfl

/-- What "exactly the sub-list of closers, once each" means element by element: the appended list is
a sub-sequence of `mr_readers`, an identifier occurs in it as often as it is listed in `mr_readers`
if it is a closer and not at all otherwise; so with distinct identifiers every closer is closed
exactly once and nothing else is closed. -/
theorem multi_close_code_added_facts (R_IsCloser : Nat → Bool) (mr_readers : List Nat) :
    (mr_readers.filter R_IsCloser).Sublist mr_readers ∧
    (∀ i, (mr_readers.filter R_IsCloser).count i =
      if R_IsCloser i then mr_readers.count i else 0) ∧
    (∀ i, i ∈ mr_readers.filter R_IsCloser ↔ i ∈ mr_readers ∧ R_IsCloser i = true) ∧
    (mr_readers.Nodup → (mr_readers.filter R_IsCloser).Nodup) := by
  refine ⟨List.filter_sublist, ?_, ?_, ?_⟩
  · intro i
    cases hC : R_IsCloser i
    · simp only [Bool.false_eq_true, ↓reduceIte]
      apply List.count_eq_zero.mpr
      intro hmem
      have := (List.mem_filter.mp hmem).2
      simp [hC] at this
    · simp only [↓reduceIte]
      exact List.count_filter hC
  · intro i; exact List.mem_filter
  · intro hnd; exact hnd.sublist List.filter_sublist

/-- **The translated `Close` terminates**: `len(mr.readers) + 1` iterations of fuel always suffice
(one per element of the ranged-over slice, one for the exit test). -/
theorem multi_close_code_terminates (fuel : Nat) (R_IsCloser : Nat → Bool)
    (mr_readers closeLog : List Nat) (hfuel : mr_readers.length + 1 ≤ fuel) :
    ∃ v, MultiReaderCloser_Close fuel R_IsCloser mr_readers closeLog = .ok v :=
  ⟨_, multi_close_code_closes_each_listed_closer_once fuel R_IsCloser mr_readers closeLog hfuel⟩

/-- **Idempotent**, directly on the translated code: whatever the first `Close` returned (any fuel,
arbitrary parameters), a second `Close` on the resulting state — even with a different
`R_IsCloser'`, any fuel `≥ 1` — returns nil, leaves `mr.readers = []` and appends NOTHING to
`closeLog`: no source is closed a second time by `Close`. -/
theorem multi_close_code_idempotent (fuel fuel' : Nat) (R_IsCloser R_IsCloser' : Nat → Bool)
    (mr_readers closeLog : List Nat) (err : GoSem.Err) (readers' closeLog' : List Nat)
    (h : MultiReaderCloser_Close fuel R_IsCloser mr_readers closeLog = .ok (err, readers', closeLog'))
    (hfuel' : 1 ≤ fuel') :
    MultiReaderCloser_Close fuel' R_IsCloser' readers' closeLog' = .ok (none, [], closeLog') := by
  have hv := multi_close_code_ok_iff fuel R_IsCloser mr_readers closeLog _ h
  have hr : readers' = [] := by
    have := congrArg (fun v => v.2.1) hv
    simpa using this
  subst hr
  rw [multi_close_code_closes_each_listed_closer_once fuel' R_IsCloser' [] closeLog' (by simpa using hfuel')]
  simp

/-- …in one piece with enough fuel: `Close; Close` is `Close`. -/
theorem multi_close_code_twice (fuel fuel' : Nat) (R_IsCloser : Nat → Bool)
    (mr_readers closeLog : List Nat) (hfuel : mr_readers.length + 1 ≤ fuel) (hfuel' : 1 ≤ fuel') :
    ∃ err readers' closeLog',
      MultiReaderCloser_Close fuel R_IsCloser mr_readers closeLog = .ok (err, readers', closeLog') ∧
      MultiReaderCloser_Close fuel' R_IsCloser readers' closeLog' = .ok (err, readers', closeLog') ∧
      closeLog' = closeLog ++ mr_readers.filter R_IsCloser :=
  have h1 := multi_close_code_closes_each_listed_closer_once fuel R_IsCloser mr_readers closeLog hfuel
  ⟨_, _, _, h1, multi_close_code_idempotent fuel fuel' R_IsCloser R_IsCloser mr_readers closeLog _ _ _ h1 hfuel',
    rfl⟩

/-- After `Close`, the translated `Read` finds no reader: `(0, io.EOF)`, nothing closed. -/
theorem multi_close_then_read_code (fuel fuel' : Nat) (R_Read : Nat → Int → Int × GoSem.Err)
    (R_IsCloser : Nat → Bool) (mr_readers closeLog : List Nat) (p : List UInt8)
    (err : GoSem.Err) (readers' closeLog' : List Nat)
    (h : MultiReaderCloser_Close fuel R_IsCloser mr_readers closeLog = .ok (err, readers', closeLog'))
    (hfuel' : 1 ≤ fuel') :
    MultiReaderCloser_Read fuel' R_Read R_IsCloser readers' p closeLog' =
      .ok (0, some "io.EOF", [], closeLog') := by
  have hv := multi_close_code_ok_iff fuel R_IsCloser mr_readers closeLog _ h
  have hr : readers' = [] := by
    have := congrArg (fun v => v.2.1) hv
    simpa using this
  subst hr
  rw [multi_read_code_eq_spec fuel' R_Read R_IsCloser [] p closeLog' (by simpa using hfuel')]
  simp [readSpec]

/-! ### the translated `Close` is the model's `Multi.close` -/

/-- What the model's `Close` does, for any multi reader state. -/
theorem multi_close_model (M : Multi) :
    (Multi.close M).readers = [] ∧
    (Multi.close M).done = M.done ++ M.readers.map Src.closeIfCloser ∧
    (Multi.close M).closeCounts =
      M.done.map (·.closes) ++ M.readers.map (fun s => s.closes + if s.closable then 1 else 0) := by
  refine ⟨rfl, rfl, ?_⟩
  unfold Multi.closeCounts Multi.close
  simp only [List.append_nil, List.map_append, List.map_map]
  congr 1
  apply List.map_congr_left
  intro s _
  unfold Src.closeIfCloser Src.close
  cases h : s.closable <;> simp [h]

/-- The identifiers `b, b+1, …` that the table says are closers are exactly the identifiers
(positionally) of the sources whose `closes` the model's `closeIfCloser` raised from 0. -/
theorem filter_table_eq_closedIds : ∀ (srcs : List Src) (b : Nat), (∀ s ∈ srcs, s.closes = 0) →
    (List.range' b srcs.length).filter (tableIsCloser b srcs) =
      closedIds (List.range' b srcs.length) (srcs.map Src.closeIfCloser) := by
  intro srcs
  induction srcs with
  | nil => intro b _; simp [closedIds]
  | cons s srcs ih =>
    intro b h0
    have hs0 : s.closes = 0 := h0 s (List.mem_cons_self ..)
    have ih' := ih (b + 1) (fun x hx => h0 x (List.mem_cons_of_mem _ hx))
    simp only [List.length_cons, List.range'_succ, List.map_cons, closedIds_cons, List.filter_cons]
    have hhead : tableIsCloser b (s :: srcs) b = s.closable := by
      simp [tableIsCloser]
    have htail : (List.range' (b + 1) srcs.length).filter (tableIsCloser b (s :: srcs)) =
        (List.range' (b + 1) srcs.length).filter (tableIsCloser (b + 1) srcs) := by
      apply List.filter_congr
      intro i hi
      have hge : b + 1 ≤ i := (List.mem_range'_1.mp hi).1
      have : i - b = (i - (b + 1)) + 1 := by omega
      simp only [tableIsCloser, this, List.getD_cons_succ]
    rw [hhead, htail, ih']
    have hcc : (0 < s.closeIfCloser.closes) ↔ s.closable = true := by
      unfold Src.closeIfCloser Src.close
      cases s.closable <;> simp [hs0]
    cases hsc : s.closable <;> simp [hcc, hsc]

/-- **The translated `MultiReaderCloser.Close` is the model's `Multi.close`.** Sources `srcs` (none
closed yet) known to the translated code as `0, 1, …, len-1`, `R_IsCloser` read off the table, any
starting `closeLog`, fuel ≥ `len(srcs) + 1`. The translated function returns a nil error,
`mr.readers = []` and `closeLog ++` the identifiers `j` of the sources the model closed
(`done[j].closes > 0`), in order; the model has `readers = []`, all sources moved to `done` in
order, and the Close count of each source raised by one exactly if it is a closer. -/
theorem multi_close_code_eq_model (srcs : List Src) (h0 : ∀ s ∈ srcs, s.closes = 0)
    (closeLog : List Nat) (fuel : Nat) (hfuel : srcs.length + 1 ≤ fuel) :
    MultiReaderCloser_Close fuel (tableIsCloser 0 srcs) (List.range srcs.length) closeLog =
      .ok (none, [],
           closeLog ++ closedIds (List.range srcs.length) (Multi.close (Multi.new srcs)).done) ∧
    (Multi.close (Multi.new srcs)).readers = [] ∧
    (Multi.close (Multi.new srcs)).done.length = srcs.length ∧
    (Multi.close (Multi.new srcs)).closeCounts = srcs.map (fun s => if s.closable then 1 else 0) ∧
    closedIds (List.range srcs.length) (Multi.close (Multi.new srcs)).done =
      (List.range srcs.length).filter (fun j => (srcs.getD j dfltSrc).closable) := by
  have hf := filter_table_eq_closedIds srcs 0 h0
  rw [← List.range_eq_range'] at hf
  have hdone : (Multi.close (Multi.new srcs)).done = srcs.map Src.closeIfCloser := by
    simp [Multi.close, Multi.new]
  refine ⟨?_, rfl, by rw [hdone]; simp, ?_, ?_⟩
  · rw [multi_close_code_closes_each_listed_closer_once fuel _ _ closeLog (by simpa using hfuel),
      hdone, hf]
  · rw [(multi_close_model (Multi.new srcs)).2.2]
    simp only [Multi.new, List.map_nil, List.nil_append]
    apply List.map_congr_left
    intro s hs
    rw [h0 s hs]; simp
  · rw [hdone, ← hf]
    apply List.filter_congr
    intro i _
    simp [tableIsCloser]

/-- The same without the assumption that no source was closed before (the translated code does not
look at Close counts): the log grows by the identifiers of the closable sources, in order, and the
model's Close count of every source goes up by one exactly if it is closable. -/
theorem multi_close_code_eq_model_any_closes (srcs : List Src)
    (closeLog : List Nat) (fuel : Nat) (hfuel : srcs.length + 1 ≤ fuel) :
    MultiReaderCloser_Close fuel (tableIsCloser 0 srcs) (List.range srcs.length) closeLog =
      .ok (none, [],
           closeLog ++ (List.range srcs.length).filter (fun j => (srcs.getD j dfltSrc).closable)) ∧
    (Multi.close (Multi.new srcs)).readers = [] ∧
    (Multi.close (Multi.new srcs)).done.length = srcs.length ∧
    (Multi.close (Multi.new srcs)).closeCounts =
      srcs.map (fun s => s.closes + if s.closable then 1 else 0) := by
  refine ⟨?_, rfl, by simp [Multi.close, Multi.new], ?_⟩
  · rw [multi_close_code_closes_each_listed_closer_once fuel _ _ closeLog (by simpa using hfuel)]
    rfl
  · rw [(multi_close_model (Multi.new srcs)).2.2]
    simp [Multi.new]

/-! ## `TeeReadCloser.Close` and `TeeReadCloser.Stop` -/

/-- **The translated `Close`, evaluated, for ARBITRARY parameters**: `r.Close()` is called iff
`t.r` is non-nil and a closer (same for `w`); both fields are set to nil; the error is
`fmt.Errorf(..)` iff one of the calls made returned a non-nil error. -/
theorem tee_close_code_spec (R_IsCloser W_IsCloser : Bool) (R_CloseErr W_CloseErr : GoSem.Err)
    (t_rnil t_wnil : Bool) (rCloses wCloses : Int) :
    TeeReadCloser_Close R_IsCloser W_IsCloser R_CloseErr W_CloseErr t_rnil t_wnil rCloses wCloses =
      .ok (if (((!t_rnil) && R_IsCloser) && (R_CloseErr != none)) ||
              (((!t_wnil) && W_IsCloser) && (W_CloseErr != none))
           then some "fmt.Errorf" else none,
           true, true,
           if (!t_rnil) && R_IsCloser then rCloses + 1 else rCloses,
           if (!t_wnil) && W_IsCloser then wCloses + 1 else wCloses) := by
  unfold TeeReadCloser_Close
  cases t_rnil <;> cases t_wnil <;> cases R_IsCloser <;> cases W_IsCloser <;>
    cases R_CloseErr <;> cases W_CloseErr <;> simp

/-- **The translated `Stop`, evaluated, for ARBITRARY parameters.** -/
theorem tee_stop_code_spec (W_IsCloser : Bool) (W_CloseErr : GoSem.Err) (t_wnil : Bool) (wCloses : Int) :
    TeeReadCloser_Stop W_IsCloser W_CloseErr t_wnil wCloses =
      .ok (if (!t_wnil) && W_IsCloser then W_CloseErr else none, true,
           if (!t_wnil) && W_IsCloser then wCloses + 1 else wCloses) := by
  unfold TeeReadCloser_Stop
  cases t_wnil <;> cases W_IsCloser <;> simp

/-- **The translated `Close` never panics**, whatever the parameters. -/
theorem tee_close_code_never_panics (R_IsCloser W_IsCloser : Bool) (R_CloseErr W_CloseErr : GoSem.Err)
    (t_rnil t_wnil : Bool) (rCloses wCloses : Int) :
    ∀ msg, TeeReadCloser_Close R_IsCloser W_IsCloser R_CloseErr W_CloseErr t_rnil t_wnil rCloses wCloses
      ≠ .panic msg := by
  intro msg; rw [tee_close_code_spec]; intro h; cases h

/-- The translated `Stop` never panics either. -/
theorem tee_stop_code_never_panics (W_IsCloser : Bool) (W_CloseErr : GoSem.Err) (t_wnil : Bool)
    (wCloses : Int) :
    ∀ msg, TeeReadCloser_Stop W_IsCloser W_CloseErr t_wnil wCloses ≠ .panic msg := by
  intro msg; rw [tee_stop_code_spec]; intro h; cases h

/-- **The returned error is non-nil iff one of the two `Close` calls that were made returned an
error** (a call is made iff the field is non-nil and a closer); it is then `fmt.Errorf(..)`. The
function always returns, with both fields nil. -/
theorem tee_close_code_error_iff (R_IsCloser W_IsCloser : Bool) (R_CloseErr W_CloseErr : GoSem.Err)
    (t_rnil t_wnil : Bool) (rCloses wCloses : Int) :
    ∃ err rCloses' wCloses',
      TeeReadCloser_Close R_IsCloser W_IsCloser R_CloseErr W_CloseErr t_rnil t_wnil rCloses wCloses =
        .ok (err, true, true, rCloses', wCloses') ∧
      (err ≠ none ↔
        ((t_rnil = false ∧ R_IsCloser = true ∧ R_CloseErr ≠ none) ∨
         (t_wnil = false ∧ W_IsCloser = true ∧ W_CloseErr ≠ none))) ∧
      (err = none ∨ err = some "fmt.Errorf") := by
  refine ⟨_, _, _, tee_close_code_spec .., ?_, ?_⟩
  · cases t_rnil <;> cases t_wnil <;> cases R_IsCloser <;> cases W_IsCloser <;>
      cases R_CloseErr <;> cases W_CloseErr <;> simp
  · split <;> simp

/-- **Each of `r.Close()`, `w.Close()` is called at most once**: the counters go up by at most one,
by exactly one iff the field is non-nil and a closer, and are otherwise unchanged. -/
theorem tee_close_code_closes_at_most_once_each (R_IsCloser W_IsCloser : Bool)
    (R_CloseErr W_CloseErr : GoSem.Err) (t_rnil t_wnil : Bool) (rCloses wCloses : Int) :
    ∃ err rCloses' wCloses',
      TeeReadCloser_Close R_IsCloser W_IsCloser R_CloseErr W_CloseErr t_rnil t_wnil rCloses wCloses =
        .ok (err, true, true, rCloses', wCloses') ∧
      rCloses' ≤ rCloses + 1 ∧ (rCloses' = rCloses + 1 ↔ ((!t_rnil) && R_IsCloser) = true) ∧
      (rCloses' = rCloses ↔ ((!t_rnil) && R_IsCloser) = false) ∧
      wCloses' ≤ wCloses + 1 ∧ (wCloses' = wCloses + 1 ↔ ((!t_wnil) && W_IsCloser) = true) ∧
      (wCloses' = wCloses ↔ ((!t_wnil) && W_IsCloser) = false) := by
  refine ⟨_, _, _, tee_close_code_spec .., ?_⟩
  cases t_rnil <;> cases t_wnil <;> cases R_IsCloser <;> cases W_IsCloser <;> simp <;> omega

/-- **Idempotent**: whatever the first `Close` returned, a second `Close` on the resulting state —
with any `IsCloser` flags and any errors the `Close` methods would return — makes no further
`Close` call (the counters are unchanged) and returns nil. -/
theorem tee_close_code_idempotent (R_IsCloser W_IsCloser R_IsCloser' W_IsCloser' : Bool)
    (R_CloseErr W_CloseErr R_CloseErr' W_CloseErr' : GoSem.Err)
    (t_rnil t_wnil : Bool) (rCloses wCloses : Int)
    (err : GoSem.Err) (t_rnil' t_wnil' : Bool) (rCloses' wCloses' : Int)
    (h : TeeReadCloser_Close R_IsCloser W_IsCloser R_CloseErr W_CloseErr t_rnil t_wnil rCloses wCloses =
      .ok (err, t_rnil', t_wnil', rCloses', wCloses')) :
    TeeReadCloser_Close R_IsCloser' W_IsCloser' R_CloseErr' W_CloseErr' t_rnil' t_wnil' rCloses' wCloses' =
      .ok (none, true, true, rCloses', wCloses') := by
  rw [tee_close_code_spec] at h
  injection h with h
  have hr : t_rnil' = true := by
    have := congrArg (fun v => v.2.1) h; simpa using this.symm
  have hw : t_wnil' = true := by
    have := congrArg (fun v => v.2.2.1) h; simpa using this.symm
  subst hr hw
  rw [tee_close_code_spec]
  simp

/-- **`Stop` then `Close`**: after `Stop` (whatever it returned), `Close` closes the reader (iff it
is non-nil and a closer) but does NOT close the writer again — `wCloses` stays what `Stop` left,
and the error of `Close` can only come from the reader. -/
theorem tee_stop_then_close_code (R_IsCloser W_IsCloser W_IsCloser' : Bool)
    (R_CloseErr W_CloseErr W_CloseErr' : GoSem.Err) (t_rnil t_wnil : Bool) (rCloses wCloses : Int)
    (err1 : GoSem.Err) (t_wnil1 : Bool) (wCloses1 : Int)
    (h : TeeReadCloser_Stop W_IsCloser W_CloseErr t_wnil wCloses = .ok (err1, t_wnil1, wCloses1)) :
    TeeReadCloser_Close R_IsCloser W_IsCloser' R_CloseErr W_CloseErr' t_rnil t_wnil1 rCloses wCloses1 =
      .ok (if ((!t_rnil) && R_IsCloser) && (R_CloseErr != none) then some "fmt.Errorf" else none,
           true, true,
           if (!t_rnil) && R_IsCloser then rCloses + 1 else rCloses,
           wCloses1) ∧
    wCloses1 = (if (!t_wnil) && W_IsCloser then wCloses + 1 else wCloses) ∧
    err1 = (if (!t_wnil) && W_IsCloser then W_CloseErr else none) := by
  rw [tee_stop_code_spec] at h
  injection h with h
  have hw : t_wnil1 = true := by
    have := congrArg (fun v => v.2.1) h; simpa using this.symm
  have hc : wCloses1 = (if (!t_wnil) && W_IsCloser then wCloses + 1 else wCloses) := by
    have := congrArg (fun v => v.2.2) h; simpa using this.symm
  have he : err1 = (if (!t_wnil) && W_IsCloser then W_CloseErr else none) := by
    have := congrArg (fun v => v.1) h; simpa using this.symm
  subst hw
  refine ⟨?_, hc, he⟩
  rw [tee_close_code_spec]
  simp

/-- `Stop` is idempotent too: a second `Stop` makes no further `Close` call and returns nil. -/
theorem tee_stop_code_idempotent (W_IsCloser W_IsCloser' : Bool) (W_CloseErr W_CloseErr' : GoSem.Err)
    (t_wnil : Bool) (wCloses : Int) (err1 : GoSem.Err) (t_wnil1 : Bool) (wCloses1 : Int)
    (h : TeeReadCloser_Stop W_IsCloser W_CloseErr t_wnil wCloses = .ok (err1, t_wnil1, wCloses1)) :
    TeeReadCloser_Stop W_IsCloser' W_CloseErr' t_wnil1 wCloses1 = .ok (none, true, wCloses1) := by
  rw [tee_stop_code_spec] at h
  injection h with h
  have hw : t_wnil1 = true := by
    have := congrArg (fun v => v.2.1) h; simpa using this.symm
  subst hw
  rw [tee_stop_code_spec]
  simp

/-! ### the translated `Close` / `Stop` are the model's `Tee.close` / `Tee.stop` -/

/-- What the model's `Close` does. -/
theorem tee_close_model (t : Tee) :
    (Tee.close t).rOpen = false ∧ (Tee.close t).wOpen = false ∧
    (Tee.close t).src.closes = t.src.closes + (if t.rOpen && t.src.closable then 1 else 0) ∧
    (Tee.close t).w.closes = t.w.closes + (if t.wOpen && t.w.closable then 1 else 0) ∧
    (Tee.close t).eof = t.eof := by
  obtain ⟨src, rOpen, w, wOpen, eof⟩ := t
  refine ⟨rfl, rfl, ?_, ?_, rfl⟩
  · unfold Tee.close Src.closeIfCloser Src.close
    cases rOpen <;> cases src.closable <;> simp
  · unfold Tee.close Wr.closeIfCloser
    cases wOpen <;> cases w.closable <;> simp

/-- What the model's `Stop` does. -/
theorem tee_stop_model (t : Tee) :
    (Tee.stop t).rOpen = t.rOpen ∧ (Tee.stop t).wOpen = false ∧
    (Tee.stop t).src = t.src ∧
    (Tee.stop t).w.closes = t.w.closes + (if t.wOpen && t.w.closable then 1 else 0) ∧
    (Tee.stop t).eof = t.eof := by
  obtain ⟨src, rOpen, w, wOpen, eof⟩ := t
  refine ⟨rfl, rfl, rfl, ?_, rfl⟩
  unfold Tee.stop Wr.closeIfCloser
  cases wOpen <;> cases w.closable <;> simp

/-- **The translated `TeeReadCloser.Close` is the model's `Tee.close`**: for every tee state `t`
(`t.r == nil` iff `!t.rOpen`, `t.w == nil` iff `!t.wOpen`, the closer flags those of the scripted
source and writer), any errors the two `Close` methods return, any starting counters: the new
`t_rnil` / `t_wnil` are those of `Tee.close t` (both nil: `rOpen = false`, `wOpen = false`), and the
counters grow by exactly the growth of `src.closes` / `w.closes` in the model (one iff open and
closable). The error is `fmt.Errorf(..)` iff a call that was made returned an error. -/
theorem tee_close_code_eq_model (t : Tee) (R_CloseErr W_CloseErr : GoSem.Err) (rCloses wCloses : Int) :
    TeeReadCloser_Close t.src.closable t.w.closable R_CloseErr W_CloseErr (!t.rOpen) (!t.wOpen)
        rCloses wCloses =
      .ok (if (t.rOpen && t.src.closable && (R_CloseErr != none)) ||
              (t.wOpen && t.w.closable && (W_CloseErr != none))
           then some "fmt.Errorf" else none,
           !(Tee.close t).rOpen, !(Tee.close t).wOpen,
           rCloses + (((Tee.close t).src.closes : Int) - (t.src.closes : Int)),
           wCloses + (((Tee.close t).w.closes : Int) - (t.w.closes : Int))) ∧
    (Tee.close t).rOpen = false ∧ (Tee.close t).wOpen = false ∧
    (Tee.close t).src.closes = t.src.closes + (if t.rOpen && t.src.closable then 1 else 0) ∧
    (Tee.close t).w.closes = t.w.closes + (if t.wOpen && t.w.closable then 1 else 0) := by
  obtain ⟨h1, h2, h3, h4, _⟩ := tee_close_model t
  refine ⟨?_, h1, h2, h3, h4⟩
  rw [tee_close_code_spec, h1, h2, h3, h4]
  cases t.rOpen <;> cases t.wOpen <;> cases t.src.closable <;> cases t.w.closable <;> simp <;> omega

/-- **The translated `TeeReadCloser.Stop` is the model's `Tee.stop`**: the new `t_wnil` is that of
`Tee.stop t` (`wOpen = false`), `wCloses` grows by exactly the growth of `w.closes` in the model
(one iff open and closable); the reader side is not touched (`rOpen`, `src` unchanged — the
translated function does not even take them); the error is the writer's `Close` error if the call
was made, nil otherwise. -/
theorem tee_stop_code_eq_model (t : Tee) (W_CloseErr : GoSem.Err) (wCloses : Int) :
    TeeReadCloser_Stop t.w.closable W_CloseErr (!t.wOpen) wCloses =
      .ok (if t.wOpen && t.w.closable then W_CloseErr else none,
           !(Tee.stop t).wOpen,
           wCloses + (((Tee.stop t).w.closes : Int) - (t.w.closes : Int))) ∧
    (Tee.stop t).wOpen = false ∧ (Tee.stop t).rOpen = t.rOpen ∧ (Tee.stop t).src = t.src ∧
    (Tee.stop t).w.closes = t.w.closes + (if t.wOpen && t.w.closable then 1 else 0) := by
  obtain ⟨h1, h2, h3, h4, _⟩ := tee_stop_model t
  refine ⟨?_, h2, h1, h3, h4⟩
  rw [tee_stop_code_spec, h2, h4]
  cases t.wOpen <;> cases t.w.closable <;> simp <;> omega

/-- `Stop` then `Close`, on the model side, agrees with `tee_stop_then_close_code`: the writer's
Close count after `close (stop t)` is that after `stop t`. -/
theorem tee_stop_then_close_model (t : Tee) :
    (Tee.close (Tee.stop t)).w.closes = (Tee.stop t).w.closes ∧
    (Tee.close (Tee.stop t)).src.closes = t.src.closes + (if t.rOpen && t.src.closable then 1 else 0) := by
  obtain ⟨h1, h2, h3, _, _⟩ := tee_stop_model t
  obtain ⟨_, _, c3, c4, _⟩ := tee_close_model (Tee.stop t)
  rw [c3, c4, h1, h2, h3]
  simp

/-! ## non-vacuity: the translated functions themselves, evaluated
(`synthInstance.maxSize` is raised only so that `DecidableEq` of the 5-component result type is found.) -/

set_option synthInstance.maxSize 1000

/-- a source that is not an `io.Closer` -/
def exPlain : Src :=
  { rest := [4], script := [], withData := false, term := .eof, closable := false, closes := 0 }

/-- Three readers, the middle one not a closer: identifiers 0 and 2 are closed, in order, after what
was logged before; `mr.readers` is emptied. The fuel bound `len + 1` is tight. -/
example :
    MultiReaderCloser_Close 4 (tableIsCloser 0 [exData, exPlain, exEmpty]) [0, 1, 2] [9] =
      .ok (none, [], [9, 0, 2]) ∧
    MultiReaderCloser_Close 3 (tableIsCloser 0 [exData, exPlain, exEmpty]) [0, 1, 2] [9] = .nofuel := by
  decide +kernel

/-- A reader listed twice is closed twice by ONE `Close` (the code closes each LISTED closer once). -/
example :
    MultiReaderCloser_Close 4 (fun i => i != 1) [5, 1, 5] [] = .ok (none, [], [5, 5]) := by
  decide +kernel

/-- The second `Close` appends nothing. -/
example :
    MultiReaderCloser_Close 1 (tableIsCloser 0 [exData, exPlain, exEmpty]) [] [9, 0, 2] =
      .ok (none, [], [9, 0, 2]) := by decide +kernel

/-- The model side on the same input: sources 0 and 2 closed once, source 1 not. -/
example :
    (Multi.close (Multi.new [exData, exPlain, exEmpty])).closeCounts = [1, 0, 1] ∧
    closedIds (List.range 3) (Multi.close (Multi.new [exData, exPlain, exEmpty])).done = [0, 2] := by
  decide +kernel

/-- The hypotheses of `multi_close_code_eq_model` are satisfiable and its instance is that value. -/
example :
    MultiReaderCloser_Close 4 (tableIsCloser 0 [exData, exPlain, exEmpty]) (List.range 3) [9] =
      .ok (none, [], [9, 0, 2]) :=
  (multi_close_code_eq_model [exData, exPlain, exEmpty] (by decide) [9] 4 (by decide)).1.trans
    (by decide +kernel)

/-- `Close` with both sides closers, the reader's `Close` failing: one call each, `fmt.Errorf`. -/
example :
    TeeReadCloser_Close true true (some "boom") none false false 0 0 =
      .ok (some "fmt.Errorf", true, true, 1, 1) := by decide +kernel

/-- A reader that is not a closer is not closed; the writer's error alone is reported. -/
example :
    TeeReadCloser_Close false true (some "ignored") (some "wboom") false false 3 5 =
      .ok (some "fmt.Errorf", true, true, 3, 6) := by decide +kernel

/-- A second `Close` (both fields nil): no call, nil — even though the `Close` methods would fail. -/
example :
    TeeReadCloser_Close true true (some "boom") (some "wboom") true true 1 1 =
      .ok (none, true, true, 1, 1) := by decide +kernel

/-- `Stop` closes the writer and returns its error unwrapped; then `Close` closes only the reader. -/
example :
    TeeReadCloser_Stop true (some "wboom") false 0 = .ok (some "wboom", true, 1) ∧
    TeeReadCloser_Close true true none (some "wboom") false true 0 1 = .ok (none, true, true, 1, 1) := by
  decide +kernel

/-- The model side: `close` after `stop` closes the source once and the writer once in total. -/
example :
    (Tee.close (Tee.stop (Tee.new exData { got := [], cap := none, closable := true, closes := 0 }))).w.closes = 1 ∧
    (Tee.close (Tee.stop (Tee.new exData { got := [], cap := none, closable := true, closes := 0 }))).src.closes = 1 ∧
    (Tee.close (Tee.new exPlain { got := [], cap := none, closable := true, closes := 0 })).src.closes = 0 := by
  decide +kernel

/-- Instances of the model-equality theorems on a concrete tee. -/
example :
    TeeReadCloser_Close true true (some "boom") none (!true) (!true) 0 0 =
      .ok (some "fmt.Errorf", true, true, 1, 1) :=
  (tee_close_code_eq_model (Tee.new exData { got := [], cap := none, closable := true, closes := 0 })
    (some "boom") none 0 0).1.trans (by decide +kernel)

example :
    TeeReadCloser_Stop true (some "wboom") (!true) 0 = .ok (some "wboom", true, 1) :=
  (tee_stop_code_eq_model (Tee.new exData { got := [], cap := none, closable := true, closes := 0 })
    (some "wboom") 0).1.trans (by decide +kernel)

end Kit.Streams.Code
