import KitProofs.Lemmas.RunnerTrace
import KitProofs.Lemmas.RunnerSim
import KitProofs.Lemmas.RunnerGraceInt
/-!
# C12 — runner / closer managers: the property theorems

All statements quantify over every reachable state of the transition systems of
`KitModel/Runner.lean`, i.e. over every interleaving, every number of runners and closers, every
runner/closer behaviour (bodies are the environment: any value, any time), any number of `Run`,
`Close`, `Add`, `AddCloser` callers and every clock schedule.  An ordering claim "B only after A"
is stated as "whenever the step B is enabled, the state records that A has happened".
`cfg.recheck = true` is the repaired `AddCloser` (commit `fix:` in /repo); `addcloser_race_witness`
shows the unrepaired code violates `each_closer_once`.
-/
namespace Kit.Runner

/-! ## RunnerManager -/

/-- **all_started / run_returns_after_all.** `Run` can return only when every registered runner has
been started, has returned, and has handed its result to the collector. -/
theorem all_started {s s' : RM} (hr : RM.Reach s) (hs : s.step .runRet = some s')
    (i : Nat) (p : RPc) (hp : s.pcs[i]? = some p) : p.isDelivered = true := by
  have inv := RM.inv_of_reach hr
  have hc : s.pcs.countP RPc.isDelivered = s.pcs.length := by
    have := inv.collected_eq; grind [RM.step]
  exact of_countP_eq_length _ _ hc i p hp

/-- The spawn loop never waits for anything: while runners remain it can always take its next step,
and a spawned runner can always be entered. -/
theorem all_started_progress {s : RM} (h1 : s.runPc = .active) :
    (s.spawned < s.pcs.length → (s.step .spawn).isSome = true) ∧
    (∀ i, i < s.spawned → s.pcs[i]? = some .idle → (s.step (.start i)).isSome = true) := by
  constructor
  · intro h; simp [RM.step, h1, h]
  · intro i hi hp; simp [RM.step, hi, hp]

example : ∃ s s', RM.Reach s ∧ s.step .runRet = some s' ∧ s.pcs.length = 2 :=
  ⟨_, _, RM.reach_runLabels [.addCall 2, .addDo 2, .addRet true, .runCall, .runCas, .spawn, .spawn, .start 1, .start 0,
      .ret 1 (.err 7), .deliver 1, .cancelBy 1, .ctxDone 0, .ret 0 .canceled, .deliver 0] rfl,
    rfl, rfl⟩

/-- State form: after `Run` has returned every runner has been delivered. -/
theorem run_returns_after_all {s : RM} (hr : RM.Reach s) (hf : s.runPc = .finished)
    (i : Nat) (p : RPc) (hp : s.pcs[i]? = some p) : p.isDelivered = true := by
  have inv := RM.inv_of_reach hr
  have hc : s.pcs.countP RPc.isDelivered = s.pcs.length := by
    have := inv.collected_eq; have := inv.fin hf; omega
  exact of_countP_eq_length _ _ hc i p hp

example : ∃ s, RM.Reach s ∧ s.runPc = .finished ∧ s.pcs.length = 1 :=
  ⟨_, RM.reach_runLabels [.addCall 1, .addDo 1, .addRet true, .runCall, .runCas, .spawn, .start 0, .ret 0 .nil, .deliver 0,
      .runRet] rfl, rfl, rfl⟩

/-- **cancel_on_first_return** (safety): as soon as one runner goroutine has finished, the context
of all the others is cancelled. -/
theorem cancel_on_first_return {s : RM} (hr : RM.Reach s) (i : Nat) (v : Ret)
    (hp : s.pcs[i]? = some (.done v)) : s.cancelled = true := by
  have inv := RM.inv_of_reach hr
  have : 0 < s.pcs.countP RPc.isDone :=
    List.countP_pos_iff.mpr ⟨_, List.mem_of_getElem? hp, rfl⟩
  simp [RM.cancelled, inv.done_cancel this]

/-- **cancel_on_first_return** (promptness): once a runner has returned and the spawn loop is over,
two internal steps of *its own goroutine* (hand-over, deferred `cancel()`) cancel the context; no
other runner has to do anything. -/
theorem cancel_on_first_return_prompt {s : RM} (i : Nat) (v : Ret)
    (hp : s.pcs[i]? = some (.returned v)) (ha : s.runPc = .active) (hsp : s.spawned = s.pcs.length) :
    ∃ s1 s2, s.step (.deliver i) = some s1 ∧ s1.step (.cancelBy i) = some s2 ∧ s2.cancelled = true := by
  have hi : i < s.pcs.length := by
    rcases Nat.lt_or_ge i s.pcs.length with h | h
    · exact h
    · simp [List.getElem?_eq_none h] at hp
  have h1 : ∃ s1, s.step (.deliver i) = some s1 ∧ s1.pcs[i]? = some (.delivered v) := by
    simp only [RM.step, hp]
    simp [ha, hsp, hi]
  obtain ⟨s1, hs1, hp1⟩ := h1
  have h2 : ∃ s2, s1.step (.cancelBy i) = some s2 ∧ s2.cancelled = true := by
    simp only [RM.step, hp1]
    simp [RM.cancelled]
  obtain ⟨s2, hs2, hc2⟩ := h2
  exact ⟨s1, s2, hs1, hs2, hc2⟩

/-- No spurious cancellation: the derived context is cancelled only by the parent, by a runner
goroutine that finished, or by `Run` returning.  In particular a runner observes `ctx.Done()`
(label `ctxDone`, enabled only when `cancelled`) only for one of these reasons. -/
theorem cancel_only_after_a_return {s : RM} (hr : RM.Reach s) (hc : s.cancelled = true) :
    s.parentCancelled = true ∨ (∃ (i : Nat) (v : Ret), s.pcs[i]? = some (RPc.done v)) ∨
      s.runPc = .finished := by
  have inv := RM.inv_of_reach hr
  simp only [RM.cancelled, Bool.or_eq_true] at hc
  rcases hc with h | h
  · exact Or.inl h
  · rcases inv.cancel_src h with h | h
    · right; left
      obtain ⟨p, hm, hd⟩ := List.countP_pos_iff.mp h
      obtain ⟨i, hi⟩ := List.mem_iff_getElem?.mp hm
      cases p with
      | done v => exact ⟨i, v, hi⟩
      | _ => simp [RPc.isDone] at hd
    · exact Or.inr (Or.inr h)

example : ∃ s, RM.Reach s ∧ s.cancelled = true ∧ s.parentCancelled = false ∧ s.runPc = .active :=
  ⟨_, RM.reach_runLabels [.addCall 2, .addDo 2, .addRet true, .runCall, .runCas, .spawn, .spawn, .start 0, .ret 0 .nil,
      .deliver 0, .cancelBy 0] rfl, rfl, rfl, rfl⟩

/-- **error_is_join_of_real_errors.** What `Run` returns is, as a multiset, exactly the non-nil,
non-`Canceled` errors among the values the runner bodies returned (order = order of hand-over). -/
theorem error_is_join_of_real_errors {s : RM} (hr : RM.Reach s) (es : List Nat)
    (hres : s.result = some es) :
    es.Perm (s.pcs.filterMap (fun p => p.retVal.bind Ret.real)) := by
  have inv := RM.inv_of_reach hr
  have hf : s.runPc = .finished := inv.res (by simp [hres])
  have hes : es = s.errs := by have := (inv.fin hf).2.2; simp_all
  subst hes
  have hdel := run_returns_after_all hr hf
  rw [List.perm_iff_count]
  intro e
  rw [inv.errs_count e, count_filterMap_eq_countP]
  apply List.countP_congr
  intro p hp
  obtain ⟨i, hi, rfl⟩ := List.getElem_of_mem hp
  have := hdel i _ (List.getElem?_eq_getElem hi)
  cases hpc : s.pcs[i] <;> simp_all [RPc.isDelivered, RPc.deliveredReal, RPc.retVal]

example : ∃ s, RM.Reach s ∧ s.result = some [7, 5] :=
  ⟨_, RM.reach_runLabels [.addCall 3, .addDo 3, .addRet true, .runCall, .runCas, .spawn, .spawn, .spawn, .start 2, .start 0,
      .start 1, .ret 1 (.err 7), .ret 0 (.err 5), .ret 2 .canceled, .deliver 1, .deliver 2,
      .deliver 0, .runRet] rfl, rfl⟩

/-- How a Go error value is seen by the model. `isCanceled` stands for the predicate
`errors.Is(·, context.Canceled)` — the theorems below hold for *every* predicate, so nothing is
assumed about it — and `ident` names a value inside a joined error. `context.DeadlineExceeded`, an
error wrapping it, the error or the cause of the context handed to `Run`: every value on which
`isCanceled` is false is a real error (`Ret.err`). -/
def Ret.ofGo {α : Type} (isCanceled : α → Bool) (ident : α → Nat) : Option α → Ret
  | none => .nil
  | some e => if isCanceled e then .canceled else .err (ident e)

/-- What survives the filter, in terms of the Go value: non-nil and not `isCanceled`. -/
def reportedOf {α : Type} (isCanceled : α → Bool) (ident : α → Nat) (v : Option α) : Option Nat :=
  v.bind fun e => if isCanceled e then none else some (ident e)

theorem Ret.real_ofGo {α : Type} (isCanceled : α → Bool) (ident : α → Nat) (v : Option α) :
    (Ret.ofGo isCanceled ident v).real = reportedOf isCanceled ident v := by
  cases v with
  | none => rfl
  | some e => cases h : isCanceled e <;> simp [Ret.ofGo, reportedOf, Ret.real, h]

/-- **error_is_join_of_non_canceled.** With the error kind made explicit: if the bodies returned the
Go values `vs` (runner `i` returned `vs[i]`), what `Run` returns is, as a multiset, exactly the
values that are non-nil and not `isCanceled` — whatever the predicate is, and whatever happened to
the context handed to `Run` (the hypotheses do not mention it). -/
theorem error_is_join_of_non_canceled {α : Type} (isCanceled : α → Bool) (ident : α → Nat)
    {s : RM} (hr : RM.Reach s) (es : List Nat) (hres : s.result = some es) (vs : List (Option α))
    (hvs : s.pcs.map RPc.retVal = vs.map fun v => some (Ret.ofGo isCanceled ident v)) :
    es.Perm (vs.filterMap (reportedOf isCanceled ident)) := by
  have h := error_is_join_of_real_errors hr es hres
  have e1 : s.pcs.filterMap (fun p => p.retVal.bind Ret.real)
      = (s.pcs.map RPc.retVal).filterMap (fun o => o.bind Ret.real) := by
    rw [List.filterMap_map]; rfl
  rw [e1, hvs, List.filterMap_map] at h
  have e2 : ((fun o : Option Ret => o.bind Ret.real) ∘ fun v => some (Ret.ofGo isCanceled ident v))
      = reportedOf isCanceled ident := by
    funext v; simp [Function.comp, Ret.real_ofGo]
  rwa [e2] at h

/-- A returned value that is not `isCanceled` (a deadline error, say) is in what `Run` reports. -/
theorem non_canceled_error_is_reported {α : Type} (isCanceled : α → Bool) (ident : α → Nat)
    {s : RM} (hr : RM.Reach s) (es : List Nat) (hres : s.result = some es) (vs : List (Option α))
    (hvs : s.pcs.map RPc.retVal = vs.map fun v => some (Ret.ofGo isCanceled ident v))
    (e : α) (he : some e ∈ vs) (hc : isCanceled e = false) : ident e ∈ es := by
  have h := error_is_join_of_non_canceled isCanceled ident hr es hres vs hvs
  rw [h.mem_iff, List.mem_filterMap]
  exact ⟨some e, he, by simp [reportedOf, hc]⟩

/-- **result_independent_of_context.** Two runs — any two interleavings, the caller's context
cancelled or not, before or after anything — in which the bodies returned the same values report
the same errors: the report is a function of the returned values alone, never of the state (or the
error) of the manager's context. -/
theorem result_independent_of_context {s t : RM} (hs : RM.Reach s) (ht : RM.Reach t)
    (es et : List Nat) (h1 : s.result = some es) (h2 : t.result = some et)
    (hv : s.pcs.map RPc.retVal = t.pcs.map RPc.retVal) : es.Perm et := by
  have a := error_is_join_of_real_errors hs es h1
  have b := error_is_join_of_real_errors ht et h2
  have e : ∀ u : RM, u.pcs.filterMap (fun p => p.retVal.bind Ret.real)
      = (u.pcs.map RPc.retVal).filterMap (fun o => o.bind Ret.real) := by
    intro u; rw [List.filterMap_map]; rfl
  rw [e s, hv, ← e t] at a
  exact a.trans b.symm

/-- Satisfiable and not vacuous: the caller's context is done before `Run` is even called in one
run and never in the other; both report the deadline error `40` and drop the `Canceled` one. Here
`α = Bool`, `true` = a Canceled-like value, `false` = a DeadlineExceeded-like value. -/
example : ∃ s t, RM.Reach s ∧ RM.Reach t ∧ s.parentCancelled = true ∧ t.parentCancelled = false ∧
    s.result = some [40] ∧ t.result = some [40] ∧
    s.pcs.map RPc.retVal = [some false, some true].map
      (fun v => some (Ret.ofGo (fun b => b) (fun _ => 40) v)) :=
  ⟨_, _, RM.reach_runLabels [.addCall 2, .addDo 2, .addRet true, .parentCancel, .runCall, .runCas, .spawn, .spawn,
      .start 0, .start 1, .ctxDone 1, .ret 0 (.err 40), .ret 1 .canceled, .deliver 0, .deliver 1, .runRet] rfl,
    RM.reach_runLabels [.addCall 2, .addDo 2, .addRet true, .runCall, .runCas, .spawn, .spawn,
      .start 0, .start 1, .ret 0 (.err 40), .deliver 0, .cancelBy 0, .ctxDone 1, .ret 1 .canceled, .deliver 1, .runRet] rfl,
    rfl, rfl, rfl, rfl, rfl⟩

/-- Event-log form of `run_returns_after_all`: in every execution, when `Run` returns, the log
contains a `ret i v` event for every registered runner `i`. -/
theorem run_returns_after_all_trace {tr : List RLabel} {s s' : RM} (he : RM.Exec tr s)
    (hs : s.step .runRet = some s') (i : Nat) (hi : i < s.pcs.length) : ∃ v, RLabel.ret i v ∈ tr := by
  have hd := all_started (RM.reach_of_exec he) hs i _ (List.getElem?_eq_getElem hi)
  obtain ⟨v, hv⟩ := RPc.retVal_of_isDelivered _ hd
  exact ⟨v, RM.ret_in_trace he i _ v (List.getElem?_eq_getElem hi) hv⟩

/-- What a runner body returned is never altered afterwards. -/
theorem runner_value_stable {s s' : RM} (a : RLabel) (hs : s.step a = some s') (i : Nat) (p : RPc)
    (v : Ret) (hp : s.pcs[i]? = some p) (hv : p.retVal = some v) :
    ∃ p', s'.pcs[i]? = some p' ∧ p'.retVal = some v := by
  cases a <;> grind [RM.step, RPc.retVal]

/-- **runs_once.** After one `Run` call has won the CAS no later `Run` call ever enters: in every
later state the CAS step is disabled, so a pending caller can only be rejected. -/
theorem runs_once {s s1 t : RM} (hs : s.step .runCas = some s1) (ht : RM.Steps s1 t) :
    t.step .runCas = none ∧ (t.pend > 0 → (t.step .runRejected).isSome = true) := by
  have h1 : s1.running = true := by grind [RM.step]
  have ht' : t.running = true := by
    induction ht with
    | refl => exact h1
    | tail a _ hs ih => exact RM.step_running a hs ih
  constructor
  · simp [RM.step, ht']
  · intro hp; simp [RM.step, ht', hp]

example : ∃ s s1, RM.Reach s ∧ s.step .runCas = some s1 ∧ s1.pend = 1 :=
  ⟨_, _, RM.reach_runLabels [.addCall 1, .addDo 1, .addRet true, .runCall, .runCall] rfl, rfl, rfl⟩

/-- **add_rejected_after_start.** `Add`'s locked section (`addDo`, atomic with respect to the start of
`Run` — fact `addAtomic` from the source): once the manager is running it registers nothing and the
call can only return `ErrManagerAlreadyStarted`; before, it registers its `k` runners and the call
returns nil.  `addRet true` (Add returned nil) is enabled only for a call that registered. -/
theorem add_rejected_after_start {s s' : RM} (k : Nat) (hs : s.step (.addDo k) = some s') :
    (s.running = true → s'.pcs = s.pcs ∧ s'.addRej = s.addRej + 1 ∧ s'.addOk = s.addOk) ∧
    (s.running = false → s'.pcs = s.pcs ++ List.replicate k .idle ∧ s'.addOk = s.addOk + 1 ∧
      s'.addRej = s.addRej) := by
  constructor <;> intro h <;> grind [RM.step]

/-- Every `Add` that returned nil registered its runners while the manager was not running yet, so
(`all_started`) `Run` starts them and waits for them: an accepted addition is never lost.  The
number of accepted calls still to return is bounded by the calls that registered. -/
theorem add_ok_only_if_registered {s s' : RM} (hs : s.step (.addRet true) = some s') :
    0 < s.addOk ∧ s'.pcs = s.pcs := by
  grind [RM.step]

example : ∃ s s', RM.Reach s ∧ s.running = true ∧ s.step (.addDo 2) = some s' ∧ s'.addRej = 1 :=
  ⟨_, _, RM.reach_runLabels [.addCall 1, .addDo 1, .addRet true, .runCall, .addCall 2, .runCas] rfl,
    rfl, rfl, rfl⟩

/-- … and `running`, once set, stays set. -/
theorem running_stable {s t : RM} (ht : RM.Steps s t) (h : s.running = true) : t.running = true := by
  induction ht with
  | refl => exact h
  | tail a _ hs ih => exact RM.step_running a hs ih

/-! ## RunnerCloserManager -/

/-- Every reachable state of the closer manager contains a reachable-invariant inner manager, so
the `RunnerManager` facts hold for the inner manager as well. -/
theorem inner_runners_done {cfg : Cfg} {s : RCM} (hr : RCM.Reach cfg s) (h4 : 4 ≤ s.opc.rank)
    (i : Nat) (p : RPc) (hp : s.inner.pcs[i]? = some p) : p.isDelivered = true := by
  have inv := RCM.inv_of_reach hr
  have hf := (inv.a.got_inner h4).1
  have hc : s.inner.pcs.countP RPc.isDelivered = s.inner.pcs.length := by
    have := inv.a.inner.collected_eq; have := inv.a.inner.fin hf; omega
  exact of_countP_eq_length _ _ hc i p hp

/-- **closers_after_runners.** A closer (and the grace timer) can start only when the inner `Run`
has returned, i.e. when every runner has returned and been collected. -/
theorem closers_after_runners {cfg : Cfg} {s s' : RCM} (hr : RCM.Reach cfg s) (j : Nat)
    (hs : s.step cfg (.cstart j) = some s' ∨ s.step cfg .farm = some s') :
    s.inner.runPc = .finished ∧ ∀ (i : Nat) (p : RPc), s.inner.pcs[i]? = some p → p.isDelivered = true := by
  have inv := RCM.inv_of_reach hr
  have h5 : s.opc = .closing := by
    rcases hs with hs | hs
    · grind [RCM.step]
    · simp only [RCM.step] at hs; split at hs <;> grind
  have h4 : 4 ≤ s.opc.rank := by simp [h5, OPc.rank]
  exact ⟨(inv.a.got_inner h4).1, inner_runners_done hr h4⟩

/-- Event-log form: in every execution, a closer-start event is preceded in the log by a return
event of every runner of the inner manager (every user runner and the closeCh runner). -/
theorem closers_after_runners_trace {cfg : Cfg} {tr : List Label} {s s' : RCM}
    (he : RCM.Exec cfg tr s) (j : Nat) (hs : s.step cfg (.cstart j) = some s')
    (i : Nat) (hi : i < s.inner.pcs.length) : ∃ v, Label.inner (.ret i v) ∈ tr := by
  have hd := (closers_after_runners (RCM.reach_of_exec he) j (Or.inl hs)).2 i _
    (List.getElem?_eq_getElem hi)
  obtain ⟨v, hv⟩ := RPc.retVal_of_isDelivered _ hd
  exact ⟨v, RCM.ret_in_trace he i _ v (List.getElem?_eq_getElem hi) hv⟩

/-- State form: in every reachable state, a closer that is not idle implies all runners are done. -/
theorem closers_after_runners_state {cfg : Cfg} {s : RCM} (hr : RCM.Reach cfg s) (j : Nat) (p : CPc)
    (hp : s.cpcs[j]? = some p) (hne : p ≠ .idle) :
    s.inner.runPc = .finished ∧ ∀ (i : Nat) (q : RPc), s.inner.pcs[i]? = some q → q.isDelivered = true := by
  have inv := RCM.inv_of_reach hr
  have h5 : 5 ≤ s.opc.rank := by
    rcases Nat.lt_or_ge s.opc.rank 5 with h | h
    · exact absurd (inv.b.low_idle h j p hp) hne
    · exact h
  have h4 : 4 ≤ s.opc.rank := by omega
  exact ⟨(inv.a.got_inner h4).1, inner_runners_done hr h4⟩

example : ∃ s s', RCM.Reach {} s ∧ s.step {} (.cstart 0) = some s' ∧ s.inner.pcs.length = 2 :=
  ⟨_, _, RCM.reach_runLabels [.addCall 1, .addOuterCheck 1, .inner (.addDo 1), .inner (.addRet true), .acCall, .acCheck, .acAppend, .acRetOk, .runCall, .runCas,
      .prepare, .launch, .inner .runCas, .inner .spawn, .inner .spawn, .inner (.start 0),
      .inner (.ret 0 (.err 3)), .inner (.deliver 0), .inner (.cancelBy 0), .inner (.start 1),
      .inner (.ret 1 .nil), .inner (.deliver 1), .inner .runRet, .gotInner, .lockClosing, .cspawn] rfl,
    rfl, rfl⟩

/-- **each_closer_once** (at most once): after a closer has been started it can never be started
again, in any continuation. -/
theorem each_closer_once {cfg : Cfg} {s s1 t : RCM} (j : Nat)
    (hs : s.step cfg (.cstart j) = some s1) (ht : RCM.Steps cfg s1 t) :
    t.step cfg (.cstart j) = none := by
  have h1 : ∃ p, s1.cpcs[j]? = some p ∧ p ≠ .idle := by
    simp only [RCM.step] at hs
    split at hs
    · simp at hs; subst hs
      rename_i h
      have hj : j < s.cpcs.length := by
        rcases Nat.lt_or_ge j s.cpcs.length with hh | hh
        · exact hh
        · simp [List.getElem?_eq_none hh] at h
      exact ⟨.started, by simp [hj], by simp⟩
    · simp at hs
  have ht' : ∃ p, t.cpcs[j]? = some p ∧ p ≠ .idle := by
    induction ht with
    | refl => exact h1
    | tail a _ hs ih =>
      obtain ⟨p, hp, hne⟩ := ih
      exact RCM.cpc_started_stable cfg a hs j p hp hne
  obtain ⟨p, hp, hne⟩ := ht'
  simp only [RCM.step]
  split
  · rename_i h; simp [hp] at h; exact absurd h.2.2 hne
  · rfl

/-- **each_closer_once** (exactly once by the end; repaired `AddCloser`): when `Run` has finished,
every registered closer has been started, has returned and has been collected. -/
theorem each_closer_run {cfg : Cfg} {s : RCM} (hr : RCM.Reach cfg s) (hfix : cfg.recheck = true)
    (h6 : 6 ≤ s.opc.rank) (j : Nat) (p : CPc) (hp : s.cpcs[j]? = some p) : p.isCollected = true := by
  have inv := RCM.inv_of_reach hr
  have hn := inv.b.nclosers_fixed hfix (by omega)
  have hf := inv.b.fin h6
  have hc := inv.b.ccollected_eq
  have hle : s.cpcs.countP CPc.isCollected ≤ s.cpcs.length := List.countP_le_length
  have hoff : s.fpc = .collected → cfg.off = 1 := by
    intro h
    have : cfg.grace ≠ none := fun hg => by have := inv.b.no_grace hg; simp [h] at this
    cases hg : cfg.grace <;> simp_all [Cfg.off]
  have hcount : s.cpcs.countP CPc.isCollected = s.cpcs.length := by
    by_cases hfp : s.fpc = .collected
    · have := hoff hfp; simp [hfp] at hc; omega
    · simp [hfp] at hc
      have : cfg.off ≤ 1 := by unfold Cfg.off; split <;> omega
      omega
  exact of_countP_eq_length _ _ hcount j p hp

example : ∃ s, RCM.Reach {} s ∧ 6 ≤ s.opc.rank ∧ s.cpcs.length = 1 :=
  ⟨_, RCM.reach_runLabels [.acCall, .acCheck, .acAppend, .acRetOk, .runCall, .runCas, .prepare,
      .launch, .inner .runCas, .inner .runRet, .gotInner, .lockClosing, .cspawn, .cstart 0,
      .cret 0 (some 9), .closeFatal, .ccollect 0, .finish] rfl, by decide, rfl⟩

/-- **run_and_close_return_after_closers.** Once running, `Run` (label `runRet`) and every `Close`
call (label `closeRet`, on a manager whose `running` CAS was won by `Run`) can return only when all
runners and all closers are done, and both return the same value `retErr` = the inner manager's
joined runner errors followed by the closers' errors. -/
theorem run_and_close_return_after_closers {cfg : Cfg} {s s' : RCM} (hr : RCM.Reach cfg s)
    (hfix : cfg.recheck = true)
    (hs : s.step cfg .runRet = some s' ∨ (s.step cfg .closeRet = some s' ∧ s.closeWon = false)) :
    (∀ (j : Nat) (p : CPc), s.cpcs[j]? = some p → p.isCollected = true) ∧
    (∀ (i : Nat) (p : RPc), s.inner.pcs[i]? = some p → p.isDelivered = true) ∧
    s.retErr = s.inner.errs ++ s.cerrs ∧ s'.retErr = s.retErr := by
  have inv := RCM.inv_of_reach hr
  have h6 : 6 ≤ s.opc.rank := by
    rcases hs with hs | ⟨hs, hw⟩
    · have : s.opc = .finished := by grind [RCM.step]
      simp [this, OPc.rank]
    · have hst : s.stopped = true := by grind [RCM.step]
      rcases inv.a.stopped_src hst with h | h
      · exact h
      · simp [hw] at h
  have hret : s'.retErr = s.retErr := by
    rcases hs with hs | ⟨hs, _⟩ <;> grind [RCM.step]
  refine ⟨each_closer_run hr hfix h6, inner_runners_done hr (by omega), ?_, hret⟩
  have := (inv.b.fin h6).2.1
  have h2 := (inv.a.got_inner (by omega)).2
  rw [this, h2]

/-- The returned value never changes once `Run` has finished: every caller, whenever it returns,
gets the same joined error. -/
theorem same_error_for_every_caller {cfg : Cfg} {s t : RCM} (hr : RCM.Reach cfg s)
    (ht : RCM.Steps cfg s t) (h6 : 6 ≤ s.opc.rank) : t.retErr = s.retErr ∧ 6 ≤ t.opc.rank := by
  induction ht with
  | refl => exact ⟨rfl, h6⟩
  | tail a hst hs ih =>
    have inv := RCM.inv_of_reach (RCM.reach_of_steps hst hr)
    have := (RCM.final_stable cfg a inv.a hs).1 ih.2
    exact ⟨this.2.trans ih.1, this.1⟩

/-- The closers' part of the joined error is, as a multiset, exactly the non-nil values the closers
returned. -/
theorem closer_errors_are_joined {cfg : Cfg} {s : RCM} (hr : RCM.Reach cfg s) :
    s.cerrs.Perm (s.cpcs.filterMap CPc.collectedErr) := by
  have inv := RCM.inv_of_reach hr
  rw [List.perm_iff_count]
  intro e
  rw [inv.b.cerrs_count e, count_filterMap_eq_countP]

example : ∃ s s', RCM.Reach {} s ∧ s.step {} .closeRet = some s' ∧ s.closeWon = false ∧ s.retErr = [4, 9] :=
  ⟨_, _, RCM.reach_runLabels [.addCall 1, .addOuterCheck 1, .inner (.addDo 1), .inner (.addRet true), .acCall, .acCheck, .acAppend, .acRetOk, .runCall, .runCas,
      .prepare, .launch, .inner .runCas, .inner .spawn, .inner .spawn, .inner (.start 0),
      .closeCall, .closeS1, .closeS2, .inner (.start 1), .inner (.ret 1 .nil), .inner (.deliver 1),
      .inner (.cancelBy 1), .inner (.ctxDone 0), .inner (.ret 0 (.err 4)), .inner (.deliver 0),
      .inner .runRet, .gotInner, .lockClosing, .cspawn, .cstart 0,
      .cret 0 (some 9), .closeFatal, .ccollect 0, .finish] rfl, rfl, rfl, rfl⟩

/-! ### fatal shutdown -/

/-- **fatal_iff_over_grace.**  `d` is what the fatal closer's `select` saw at the instant it
committed (`expired`: the grace timer had expired; `closed`: `closeFatalShutdown` was closed, which
happens only when all other closers have been collected — `closeFatal_after_closers`).
* it fires only if the timer had expired (`fire → expired`);
* it leaves quietly only if all other closers were done (`¬fire → closed`);
hence `expired ∧ ¬closed → fire` (over grace with a closer still running: fires) and
`¬expired → ¬fire`; when both were ready (`expired ∧ closed`) either outcome is allowed — and both
do occur (`fatal_both_ready_fire`, `fatal_both_ready_quiet`).  `fired` (the action really ran)
implies a firing decision and a passed deadline; without a grace period nothing ever fires. -/
theorem fatal_iff_over_grace {cfg : Cfg} {s : RCM} (hr : RCM.Reach cfg s) :
    (∀ d, s.decision = some d →
        (d.fire = true → d.expired = true) ∧ (d.fire = false → d.closed = true) ∧
        (d.expired = true ∧ d.closed = false → d.fire = true) ∧ (d.expired = false → d.fire = false)) ∧
    (s.fired = true → (∃ dl, s.deadline = some dl ∧ dl ≤ s.now) ∧
        ∀ d, s.decision = some d → d.fire = true) ∧
    (6 ≤ s.opc.rank → ∀ d, s.decision = some d → (s.fired = true ↔ d.fire = true)) ∧
    (cfg.grace = none → s.fired = false ∧ s.decision = none) := by
  have inv := RCM.inv_of_reach hr
  refine ⟨?_, ?_, ?_, ?_⟩
  · intro d hd
    have := inv.c.dec_ok d hd
    refine ⟨this.1, this.2, ?_, ?_⟩
    · intro ⟨he, hc⟩
      cases hf : d.fire
      · have := this.2 hf; simp [hc] at this
      · rfl
    · intro he
      cases hf : d.fire
      · rfl
      · have := this.1 hf; simp [he] at this
  · intro hf
    constructor
    · have hs := inv.c.fire_set (Or.inr hf)
      cases hd : s.deadline with
      | none => simp [hd] at hs
      | some dl => exact ⟨dl, rfl, inv.c.fire_exp dl hd (Or.inr hf)⟩
    · exact inv.c.fired_dec hf
  · intro h6 d hd
    constructor
    · intro hf; exact inv.c.fired_dec hf d hd
    · intro hdf
      cases hf : s.fired
      · -- the fatal closer must have been collected for Run to finish
        have hfin := inv.b.fin h6
        have hsome : s.decision.isSome := by simp [hd]
        rcases inv.c.dec_iff.mp hsome with h | h | h
        · -- willFire cannot be: then ccollected < nclosers
          exfalso
          have hc := inv.b.ccollected_eq
          have hle : s.cpcs.countP CPc.isCollected ≤ s.cpcs.length := List.countP_le_length
          have hg : cfg.grace ≠ none := fun hg => by have := inv.b.no_grace hg; simp [h] at this
          have hoff : cfg.off = 1 := by cases hgg : cfg.grace <;> simp_all [Cfg.off]
          simp [h] at hc
          -- closers at index ≥ nclosers - 1 were never spawned, so at most nclosers - 1 are collected
          have hsuf : s.cpcs.countP CPc.isCollected ≤ s.nclosers - 1 := by
            apply countP_le_of_suffix
            intro j x hx hk
            have := inv.b.unspawned j x hx (by omega)
            simp [this, CPc.isCollected]
          have hpos : 0 < s.cspawned := inv.b.fatal_spawned (by simp [h])
          omega
        · have := inv.c.quiet_dec (Or.inl h) hf d hd; simp [hdf] at this
        · have := inv.c.quiet_dec (Or.inr h) hf d hd; simp [hdf] at this
      · rfl
  · intro hg
    have hidle := inv.b.no_grace hg
    constructor
    · cases hf : s.fired
      · rfl
      · have := inv.c.fired_pc hf; simp [hidle] at this
    · cases hd : s.decision with
      | none => rfl
      | some d =>
        have := inv.c.dec_iff.mp (by simp [hd]); simp [hidle] at this

/-- With a grace period configured, `closeFatalShutdown` is closed only when every user closer has
been collected (as long as the fatal closer itself has not been collected — the situation at its
decision instant).  So `closed` in `fatal_iff_over_grace` means "no closer was still running". -/
theorem closeFatal_after_closers {cfg : Cfg} {s : RCM} (hr : RCM.Reach cfg s)
    (hg : cfg.grace ≠ none) (hcfs : s.cfs = true) (hopc : s.opc = .closing)
    (hf : s.fpc ≠ .collected) (j : Nat) (p : CPc) (hp : s.cpcs[j]? = some p) :
    p.isCollected = true := by
  have inv := RCM.inv_of_reach hr
  have h1 := inv.b.cfs_src hcfs
  have hn := inv.b.nclosers_closing hopc
  have hc := inv.b.ccollected_eq
  simp [hf] at hc
  have hle : s.cpcs.countP CPc.isCollected ≤ s.cpcs.length := List.countP_le_length
  have hoff : cfg.off = 1 := by cases hgg : cfg.grace <;> simp_all [Cfg.off]
  have hcount : s.cpcs.countP CPc.isCollected = s.cpcs.length := by omega
  exact of_countP_eq_length _ _ hcount j p hp

/-- Conversely, while some user closer has not been collected the fatal closer cannot leave
quietly: with the timer expired its only move is to fire. -/
theorem fatal_fires_when_over_grace {cfg : Cfg} {s : RCM} (hr : RCM.Reach cfg s) (dl : Nat)
    (hf : s.fpc = .armed dl) (hexp : dl ≤ s.now) (j : Nat) (p : CPc) (hp : s.cpcs[j]? = some p)
    (hrun : p.isCollected = false) :
    s.step cfg .fenterStop = none ∧ s.step cfg .fpark = none ∧ (s.step cfg .fenterFire).isSome = true := by
  have inv := RCM.inv_of_reach hr
  have hg : cfg.grace ≠ none := fun hg => by have := inv.b.no_grace hg; simp [hf] at this
  have hcfs : s.cfs = false := by
    cases hc : s.cfs
    · rfl
    · have h5 : s.opc = .closing := by
        have h1 := inv.b.cfs_src hc
        have hfin := inv.b.fin
        have hceq := inv.b.ccollected_eq
        cases ho : s.opc <;> simp_all [OPc.rank]
        all_goals
          have hsuf : s.cpcs.countP CPc.isCollected ≤ s.nclosers - 1 := by
            apply countP_le_of_suffix
            intro j x hx hk
            have := inv.b.unspawned j x hx (by cases hgg : cfg.grace <;> simp_all [Cfg.off] <;> omega)
            simp [this, CPc.isCollected]
          have hpos : 0 < s.cspawned := inv.b.fatal_spawned (by simp [hf])
          omega
      have := closeFatal_after_closers hr hg hc h5 (by simp [hf]) j p hp
      simp [hrun] at this
  refine ⟨by simp [RCM.step, hf, hcfs], ?_, by simp [RCM.step, hf, hexp]⟩
  simp only [RCM.step, hf]
  split
  · rename_i h; omega
  · rfl

/-- A fatal closer parked in its `select` is committed by the first event: if the clock passes the
deadline first, it will fire (and then `ffire` is its only move). -/
theorem fatal_parked_expiry_fires {cfg : Cfg} {s : RCM} (dl d : Nat) (hf : s.fpc = .parked dl)
    (hexp : dl ≤ s.now + d) :
    ∃ s', s.step cfg (.tick d) = some s' ∧ s'.fpc = .willFire ∧
      s'.decision = some ⟨true, true, false⟩ := by
  simp [RCM.step, hf, hexp]

/-- Both ready at the same instant: either outcome occurs (two reachable continuations of the same
reachable state). -/
theorem fatal_both_ready_either :
    ∃ s sf sq, RCM.Reach { grace := some 10 } s ∧
      s.step { grace := some 10 } .fenterFire = some sf ∧ sf.decision = some ⟨true, true, true⟩ ∧
      s.step { grace := some 10 } .fenterStop = some sq ∧ sq.decision = some ⟨false, true, true⟩ :=
  ⟨_, _, _, RCM.reach_runLabels [.acCall, .acCheck, .acAppend, .acRetOk, .runCall, .runCas, .prepare,
      .launch, .inner .runCas, .inner .runRet, .gotInner, .lockClosing, .cspawn, .cspawn, .farm,
      .cstart 0, .cret 0 none, .ccollect 0, .tick 10, .closeFatal] rfl, rfl, rfl, rfl, rfl⟩

/-- Over grace with a closer still running: a reachable run in which the action fires. -/
example : ∃ s, RCM.Reach { grace := some 10 } s ∧ s.fired = true ∧ s.opc = .returned :=
  ⟨_, RCM.reach_runLabels [.acCall, .acCheck, .acAppend, .acRetOk, .runCall, .runCas, .prepare,
      .launch, .inner .runCas, .inner .runRet, .gotInner, .lockClosing, .cspawn, .cspawn, .farm,
      .fpark, .cstart 0, .tick 10, .ffire, .fcollect, .cret 0 none, .closeFatal, .ccollect 0,
      .finish, .runRet] rfl, rfl, rfl⟩

/-! ### Close before Run; AddCloser -/

/-- **close_before_run_prevents_run.** If a `Close` call wins the `running` CAS (the manager never
ran), then `stopped` is closed at once, the value `Close` returns is nil, and in every later state
`Run` cannot enter (only be rejected), no closer can start, and no runner can start. -/
theorem close_before_run_prevents_run {cfg : Cfg} {s t : RCM} (hr : RCM.Reach cfg s)
    (hw : s.closeWon = true) (ht : RCM.Steps cfg s t) :
    t.stopped = true ∧ t.retErr = [] ∧ t.step cfg .runCas = none ∧
    (t.pendRun > 0 → (t.step cfg .runRejected).isSome = true) ∧
    (∀ j, t.step cfg (.cstart j) = none) ∧ (∀ i, t.step cfg (.inner (.start i)) = none) := by
  have hwt : t.closeWon = true := by
    induction ht with
    | refl => exact hw
    | tail a hst hs ih =>
      exact (RCM.final_stable cfg a (RCM.inv_of_reach (RCM.reach_of_steps hst hr)).a hs).2.1 ih
  have inv := RCM.inv_of_reach (RCM.reach_of_steps ht hr)
  have hidle := (inv.a.won hwt).1
  have hrun : t.running = true := inv.a.run_iff.mpr (Or.inr hwt)
  refine ⟨(inv.a.won hwt).2, inv.a.ret_low (by simp [hidle, OPc.rank]), by simp [RCM.step, hrun],
    fun hp => by simp [RCM.step, hrun, hp], fun j => by simp [RCM.step, hidle], fun i => ?_⟩
  have hsp : t.inner.spawned = 0 :=
    inv.a.inner.idle_spawned (inv.a.inner_low (by simp [hidle, OPc.rank])).1
  simp [RCM.step, RM.step, hsp]

/-- `Close` on a manager that never ran returns at once: its three steps are enabled one after the
other without any other thread moving, it returns nil, and it has won the CAS. -/
theorem close_before_run_returns_at_once {cfg : Cfg} {s : RCM} (hr : RCM.Reach cfg s)
    (hn : s.running = false) (hc : s.cl0 > 0) :
    ∃ s1 s2 s3, s.step cfg .closeS1 = some s1 ∧ s1.step cfg .closeS2 = some s2 ∧
      s2.step cfg .closeRet = some s3 ∧ s2.closeWon = true ∧ s3.retErr = [] := by
  have inv := RCM.inv_of_reach hr
  have hidle : s.opc = .idle := by
    cases ho : s.opc <;> first | rfl | (have := inv.a.run_iff.mpr (Or.inl (by simp [ho])); simp [hn] at this)
  have hret := inv.a.ret_low (by simp [hidle, OPc.rank])
  refine ⟨_, _, _, by simp [RCM.step, hc]; rfl, by simp [RCM.step, hn]; rfl, by simp [RCM.step]; rfl, rfl, ?_⟩
  simp [hret]

example : ∃ s, RCM.Reach {} s ∧ s.running = false ∧ s.cl0 > 0 ∧ s.inner.pcs.length = 2 :=
  ⟨_, RCM.reach_runLabels [.addCall 2, .addOuterCheck 2, .inner (.addDo 2), .inner (.addRet true), .closeCall] rfl, rfl, by decide, rfl⟩

/-- **addcloser_during_run_is_run.** (repaired code) A closer whose registration succeeds (step
`acAppend`) was registered before closing began, and by the time `Run` has finished it has been
started exactly once, has returned and has been collected. -/
theorem addcloser_during_run_is_run {cfg : Cfg} {s s1 t : RCM} (hr : RCM.Reach cfg s)
    (hfix : cfg.recheck = true) (hs : s.step cfg .acAppend = some s1) (ht : RCM.Steps cfg s1 t)
    (h6 : 6 ≤ t.opc.rank) :
    s.closing = false ∧ ∃ p, t.cpcs[s.cpcs.length]? = some p ∧ p.isCollected = true := by
  have hcl : s.closing = false ∧ s1.cpcs.length = s.cpcs.length + 1 := by
    simp only [RCM.step] at hs
    split at hs
    · simp at hs; subst hs; rename_i h; simp_all
    · simp at hs
  have hlen : s1.cpcs.length ≤ t.cpcs.length := by
    clear h6
    induction ht with
    | refl => exact Nat.le_refl _
    | tail a _ hs ih => exact Nat.le_trans ih (RCM.cpcs_length_mono cfg a hs)
  have hrt := RCM.reach_of_steps ht (RCM.Reach.step _ hr hs)
  have hi : s.cpcs.length < t.cpcs.length := by omega
  exact ⟨hcl.1, t.cpcs[s.cpcs.length], List.getElem?_eq_getElem hi,
    each_closer_run hrt hfix h6 _ _ (List.getElem?_eq_getElem hi)⟩

/-- (repaired code) Once closing has begun `AddCloser` cannot register anything: the append step is
disabled and the pending call can only be rejected. -/
theorem addcloser_rejected_after_closing {cfg : Cfg} {s : RCM} (hfix : cfg.recheck = true)
    (hc : s.closing = true) :
    s.step cfg .acAppend = none ∧ s.step cfg .acCheck = none ∧
    (s.ac0 > 0 → (s.step cfg .acRejectEarly).isSome = true) ∧
    (s.ac1 > 0 → s.lock = false → (s.step cfg .acRejectLate).isSome = true) := by
  refine ⟨by simp [RCM.step, hfix, hc], by simp [RCM.step, hc], fun h => by simp [RCM.step, hc, h],
    fun h hl => by simp [RCM.step, hc, h, hl, hfix]⟩

/-- **Witness (unrepaired code).** Without the re-check under the lock an `AddCloser` call that
passed its `closing` test before `Run` took the lock is accepted after `Run` has finished: the
closer is registered (`AddCloser` returned nil) and never invoked — `each_closer_run` fails. -/
theorem addcloser_race_witness :
    ∃ s, RCM.Reach { recheck := false } s ∧ s.opc = .returned ∧ s.ac2 = 0 ∧ s.cpcs = [.idle] :=
  ⟨_, RCM.reach_runLabels [.addCall 1, .addOuterCheck 1, .inner (.addDo 1), .inner (.addRet true), .runCall, .runCas, .prepare, .launch, .inner .runCas,
      .inner .spawn, .inner .spawn, .inner (.start 0), .inner (.start 1), .inner (.ret 0 .nil),
      .acCall, .acCheck, .inner (.deliver 0), .inner (.cancelBy 0), .inner (.ret 1 .nil),
      .inner (.deliver 1), .inner .runRet, .gotInner, .lockClosing, .finish, .runRet,
      .acAppend, .acRetOk] rfl, rfl, rfl, rfl⟩

/-- The same schedule on the repaired code ends with the rejection. -/
example : ∃ s, RCM.Reach { recheck := true } s ∧ s.opc = .returned ∧ s.cpcs = [] ∧ s.ac1 = 0 :=
  ⟨_, RCM.reach_runLabels [.addCall 1, .addOuterCheck 1, .inner (.addDo 1), .inner (.addRet true), .runCall, .runCas, .prepare, .launch, .inner .runCas,
      .inner .spawn, .inner .spawn, .inner (.start 0), .inner (.start 1), .inner (.ret 0 .nil),
      .acCall, .acCheck, .inner (.deliver 0), .inner (.cancelBy 0), .inner (.ret 1 .nil),
      .inner (.deliver 1), .inner .runRet, .gotInner, .lockClosing, .finish, .runRet,
      .acRejectLate] rfl, rfl, rfl, rfl⟩

/-! ## T1: the source is of the shape the models assume

`KitModel/Generated/C12.lean` is rewritten by `factgen_c12` from `/repo/concurrency/{runner,closer}.go`
on every run of the check; the model's guards are those definitions and every invariant proof
unfolds them (`Lemmas/RunnerFacts.lean`).  This theorem pins each fact to the value the theorems
above are about; a source change that alters a fact (e.g. reverting either `fix:` commit) makes it
— and the invariant proofs — fail to re-check. -/
theorem source_shape_as_modelled :
    -- runner.go
    Kit.Generated.C12.addChecksRunningUnderLock = true ∧
    Kit.Generated.C12.runCasAndSnapshotUnderLock = true ∧ addAtomic = true ∧
    Kit.Generated.C12.runDefersCancel = true ∧ Kit.Generated.C12.errChCapacity = 0 ∧
    Kit.Generated.C12.goroutineDefersCancel = true ∧ Kit.Generated.C12.filterDropsCanceled = true ∧
    (∀ n, collectTarget n = n) ∧ Kit.Generated.C12.runReturnsJoin = true ∧
    -- closer.go
    Kit.Generated.C12.fatalCloserOnlyWithGrace = true ∧
    Kit.Generated.C12.fatalCloserIsFirstCloser = true ∧ Kit.Generated.C12.fatalCloserSelect = true ∧
    Kit.Generated.C12.rcmAddChecksRunningThenInnerAdd = true ∧
    Kit.Generated.C12.addCloserRechecksClosingUnderLock = true ∧
    Kit.Generated.C12.acceptedCloserShapes =
      ["io.Closer", "func(context.Context) error", "func() error", "func()"] ∧
    Kit.Generated.C12.rcmRunCasThenDeferCloseStopped = true ∧
    Kit.Generated.C12.closeRunnerMinRunners = 1 ∧ Kit.Generated.C12.closingSetUnderLock = true ∧
    Kit.Generated.C12.closerLoopStart = 1 ∧ Kit.Generated.C12.closerLoopBoundPlus = 1 ∧
    Kit.Generated.C12.closeFatalAtPlus = 0 ∧ Kit.Generated.C12.retErrIsJoinRunnerFirst = true ∧
    Kit.Generated.C12.closeShape = true := by
  refine ⟨rfl, rfl, rfl, rfl, rfl, rfl, rfl, fun n => by simp, rfl, rfl, rfl, rfl, rfl, rfl, rfl, rfl,
    rfl, rfl, rfl, rfl, rfl, rfl, rfl⟩

/-- The configuration the driver runs (`recheck` read from the source) is the repaired one, for
every grace period: the `recheck = true` theorems above are about the current source. -/
theorem current_source_is_repaired (g : Option Nat) : ({ grace := g } : Cfg).recheck = true := rfl

/-- … e.g. on the current source every registered closer has been run when `Run` has finished. -/
theorem current_source_each_closer_run {g : Option Nat} {s : RCM} (hr : RCM.Reach { grace := g } s)
    (h6 : 6 ≤ s.opc.rank) (j : Nat) (p : CPc) (hp : s.cpcs[j]? = some p) : p.isCollected = true :=
  each_closer_run hr (current_source_is_repaired g) h6 j p hp

/-! ## Witnesses for the code before the second `fix:` commit (`Add` racing the start of `Run`) -/

/-- `Add` passes its `running` test, `Run` starts with no runner and returns, then `Add` appends and
returns nil: an accepted runner that was never started ("starts all runners" fails). -/
theorem add_race_never_started_witness :
    ∃ s, RMRacy.runLabels {} [.addCheck, .runCas, .runRet, .addAppend] = some s ∧
      s.returned = true ∧ s.accepted = 1 ∧ s.pcs = [.idle] := ⟨_, rfl, rfl, rfl, rfl⟩

/-- The append lands while `Run` is collecting: the loop bound `len(r.runners)` grows to 2, the only
started runner is done, the second one is never started (`1 ≥ snap`), and *no step is enabled*:
`Run` waits forever. -/
theorem add_race_hang_witness :
    ∃ s, RMRacy.runLabels {} [.addCheck, .addAppend, .addCheck, .runCas, .start 0, .addAppend, .ret 0,
        .deliver 0] = some s ∧
      s.accepted = 2 ∧ s.returned = false ∧ s.pcs = [.done .nil, .idle] ∧ ∀ a, s.step a = none := by
  refine ⟨_, rfl, rfl, rfl, rfl, ?_⟩
  intro a
  cases a with
  | start i =>
    simp only [RMRacy.step]
    rcases i with _ | _ | i <;> simp
  | ret i => rcases i with _ | _ | i <;> simp [RMRacy.step]
  | deliver i => rcases i with _ | _ | i <;> simp [RMRacy.step]
  | _ => simp [RMRacy.step]

/-! ## Soundness of the tie: what `kitdrv C12` accepts is the event log of an execution

`Sim.accepts` (`KitModel/RunnerSim.lean`) is the function the driver computes event by event (state
sets in hash sets, closed under τ with a worklist).  `Sim.Reached M init evs t` says: there is an
execution from `init` to `t` made of internal steps and, in order, exactly one step per observed
event, labelled by one of that event's candidate labels and taken in a state passing the event's
filter (for `run.ret`/`close.ret`: the model's joined error equals the observed one). -/

/-- **accepts_sound.** If the simulation accepts an event log, some execution of the model has it. -/
theorem accepts_sound {σ α : Type} [BEq σ] [Hashable σ] [LawfulBEq σ] (M : Sim σ α) (init : σ)
    (evs : List (Ev σ α)) (h : M.accepts init evs = true) : ∃ t, Sim.Reached M init evs t := by
  simp only [Sim.accepts, Bool.not_eq_true', List.isEmpty_eq_false_iff] at h
  obtain ⟨t, ht⟩ := List.exists_mem_of_ne_nil _ h
  exact ⟨t, Sim.run_good M init evs t ht⟩

/-- For the closer-manager model: such an execution is an `Exec` (so every theorem above applies to
the state it reaches and to its event log). -/
theorem reached_is_execution {cfg : Cfg} {evs : List (Ev RCM Label)} {t : RCM}
    (h : Sim.Reached (rcmSim cfg) {} evs t) : ∃ tr, RCM.Exec cfg tr t := by
  induction h with
  | init => exact ⟨[], RCM.Exec.init⟩
  | tau a _ _ hs ih => obtain ⟨tr, he⟩ := ih; exact ⟨a :: tr, RCM.Exec.step a he hs⟩
  | obs e a _ _ _ hs ih => obtain ⟨tr, he⟩ := ih; exact ⟨a :: tr, RCM.Exec.step a he hs⟩

theorem reached_is_execution_rm {evs : List (Ev RM RLabel)} {t : RM}
    (h : Sim.Reached rmSim {} evs t) : ∃ tr, RM.Exec tr t := by
  induction h with
  | init => exact ⟨[], RM.Exec.init⟩
  | tau a _ _ hs ih => obtain ⟨tr, he⟩ := ih; exact ⟨a :: tr, RM.Exec.step a he hs⟩
  | obs e a _ _ _ hs ih => obtain ⟨tr, he⟩ := ih; exact ⟨a :: tr, RM.Exec.step a he hs⟩

/-- The driver's verdict on a real log, spelled out for the closer manager: accepted ⇒ reachable
model state, hence covered by the invariants (`RCM.inv_of_reach`). -/
theorem accepted_log_reaches_invariant_state {cfg : Cfg} (evs : List (Ev RCM Label))
    (h : (rcmSim cfg).accepts {} evs = true) :
    ∃ t, Sim.Reached (rcmSim cfg) {} evs t ∧ RCM.Reach cfg t ∧ RCM.Inv cfg t := by
  obtain ⟨t, ht⟩ := accepts_sound (rcmSim cfg) {} evs h
  obtain ⟨tr, he⟩ := reached_is_execution ht
  exact ⟨t, ht, RCM.reach_of_exec he, RCM.inv_of_reach (RCM.reach_of_exec he)⟩

/-- A concrete log and the execution that explains it (`run.call`, then `run.ret` with no error on
a manager without runners or closers): observed steps interleaved with the internal ones.
(That `accepts` itself returns `true` is exhibited on every run of the check: the driver accepts
the ≈ 10⁴–10⁵ logs of real executions; hash sets do not reduce in the kernel.) -/
example : ∃ t, Sim.Reached (rcmSim {}) {}
    [(fun _ => true, [.runCall]), (fun s => s.retErr == [], [.runRet])] t := by
  refine ⟨_, Sim.Reached.obs (evs := [(fun _ => true, [Label.runCall])]) _ .runRet
    (Sim.Reached.tau .finish (Sim.Reached.tau .lockClosing (Sim.Reached.tau .gotInner
      (Sim.Reached.tau (.inner .runRet) (Sim.Reached.tau (.inner .runCas) (Sim.Reached.tau .launch
        (Sim.Reached.tau .prepare (Sim.Reached.tau .runCas
          (Sim.Reached.obs (evs := []) (fun _ => true, [Label.runCall]) .runCall Sim.Reached.init rfl
            (by simp) rfl)
          (by decide) rfl) (by decide) rfl) (by decide) rfl) (by decide) rfl) (by decide) rfl)
      (by decide) rfl) (by decide) rfl) (by decide) rfl) rfl (by simp) rfl⟩

/-! ### The grace period as Go passes it: any `time.Duration`, also zero and negative

`Cfg.ofGoGrace : Option Int → Cfg` (`Lemmas/RunnerGraceInt.lean`) is the configuration of
`NewRunnerCloserManager(log, gracePeriod, …)` for a nil pointer (`none`) and for **every** signed
duration. A timer created with a duration ≤ 0 has its deadline at the instant of its creation. -/

/-- **fatal_iff_over_grace_int.** `fatal_iff_over_grace` for every Go grace period `g : Option Int`
(nil, negative, zero, positive), plus what the sign of `g` adds: nil ⇒ the action never fires and no
watchdog is ever armed; `g ≤ 0` ⇒ every deadline that exists has already been reached (the period
has expired the moment the timer is created), the watchdog never parks in its `select`, and every
recorded decision saw an expired timer. (For `g > 0`, `Cfg.ofGoGrace_pos`: the model's period is
exactly `g`.) -/
theorem fatal_iff_over_grace_int (g : Option Int) {s : RCM} (hr : RCM.Reach (Cfg.ofGoGrace g) s) :
    (∀ d, s.decision = some d →
        (d.fire = true → d.expired = true) ∧ (d.fire = false → d.closed = true) ∧
        (d.expired = true ∧ d.closed = false → d.fire = true) ∧ (d.expired = false → d.fire = false)) ∧
    (s.fired = true → ∃ dl, s.deadline = some dl ∧ dl ≤ s.now) ∧
    (g = none → s.fired = false ∧ s.decision = none ∧ s.fpc = .idle) ∧
    (∀ x : Int, g = some x → x ≤ 0 →
        (∀ dl, s.deadline = some dl → dl ≤ s.now) ∧ (∀ dl, s.fpc ≠ .parked dl) ∧
        (∀ d, s.decision = some d → d.expired = true)) := by
  have h := fatal_iff_over_grace hr
  have inv := RCM.inv_of_reach hr
  refine ⟨h.1, fun hf => (h.2.1 hf).1, ?_, ?_⟩
  · intro hg; subst hg
    have := h.2.2.2 rfl
    exact ⟨this.1, this.2, inv.b.no_grace rfl⟩
  · intro x hx hle; subst hx
    have hz := RCM.invZ_of_reach (Cfg.ofGoGrace_nonpos hle) hr
    refine ⟨hz, ?_, ?_⟩
    · intro dl hp
      have := inv.c.parked_dl dl hp
      have := hz dl this.1
      omega
    · intro d hd
      exact RCM.dec_expired_of_invZ (Cfg.ofGoGrace_nonpos hle) hr d hd

/-- **fatal_fires_when_grace_nonpos.** Grace period ≤ 0 (0 s, −1 ns, −1 s, `MinInt64`): as soon as
the watchdog's timer exists, while some user closer has not been collected, its `select` cannot
take the quiet branch and cannot park — firing is the only move, with no clock step at all. (The
*if* direction of "fires iff the closers outlast the grace period" at and below zero.) -/
theorem fatal_fires_when_grace_nonpos {x : Int} (hx : x ≤ 0) {s : RCM}
    (hr : RCM.Reach (Cfg.ofGoGrace (some x)) s) (dl : Nat) (hf : s.fpc = .armed dl)
    (j : Nat) (p : CPc) (hp : s.cpcs[j]? = some p) (hrun : p.isCollected = false) :
    s.step (Cfg.ofGoGrace (some x)) .fenterStop = none ∧ s.step (Cfg.ofGoGrace (some x)) .fpark = none ∧
      (s.step (Cfg.ofGoGrace (some x)) .fenterFire).isSome = true := by
  have inv := RCM.inv_of_reach hr
  have hz := RCM.invZ_of_reach (Cfg.ofGoGrace_nonpos hx) hr
  exact fatal_fires_when_over_grace hr dl hf (hz dl (inv.c.armed_dl dl hf)) j p hp hrun

/-- A non-nil grace period of any sign installs the watchdog: it is a registered closer
(`Cfg.off = 1`), whereas nil installs none. -/
theorem watchdog_installed_iff_grace_non_nil (g : Option Int) :
    ((Cfg.ofGoGrace g).off = 1 ↔ g ≠ none) ∧ ((Cfg.ofGoGrace g).off = 0 ↔ g = none) := by
  cases g <;> simp [Cfg.ofGoGrace, Cfg.off]

/-- Grace period −1 s, one closer that blocks: the action fires without any clock step and `Run`
returns only afterwards (a reachable run; no `tick` label occurs in it). -/
example : ∃ s, RCM.Reach (Cfg.ofGoGrace (some (-1000000000))) s ∧ s.fired = true ∧ s.opc = .returned ∧
    s.now = 0 :=
  ⟨_, RCM.reach_runLabels [.acCall, .acCheck, .acAppend, .acRetOk, .runCall, .runCas, .prepare,
      .launch, .inner .runCas, .inner .runRet, .gotInner, .lockClosing, .cspawn, .cspawn, .farm,
      .cstart 0, .fenterFire, .ffire, .fcollect, .cret 0 none, .closeFatal, .ccollect 0,
      .finish, .runRet] rfl, rfl, rfl, rfl⟩

end Kit.Runner
