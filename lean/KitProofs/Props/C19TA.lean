import KitModel.SpiffeTA
import KitModel.SpiffeTAShape
import KitProofs.Lemmas.SpiffeTA
import KitProofs.Lemmas.SpiffeTASim
/-!
Property C19, trust-bundle source (`crypto/spiffe/trustanchors/file.go`): the readiness discipline of
`GetX509BundleForTrustDomain` / `CurrentTrustAnchors` / `Watch` against `Run`.  The source waits for
`readyCh | closeCh` BEFORE taking the read lock and `Run` never holds the lock while it signals, so
the deadlock of `GetX509SVID` cannot occur here; these theorems prove it for the model in
`KitModel/SpiffeTA.lean`.
-/
namespace Kit.Spiffe.TA

open Kit.Generated.C19 in
/-- **T1 for the trust-bundle source**: the statement order of `Run`, `updateAnchors`,
`GetX509BundleForTrustDomain`, `CurrentTrustAnchors` and `Watch` extracted from
`trustanchors/file.go` on this run equals the order read back out of the LTS by executing it:
`Run` = CAS, (deferred `close(closeCh)` registered FIRST, so every later return closes it), wait for
the file, `updateAnchors` (Lock, deferred Unlock registered directly after it, read, decode, assign,
notify), `fswatcher.New`, `close(readyCh)` — after the load, never under the lock; on garbage: Lock,
Unlock, `close(closeCh)`.  Readers: ONE select over `closeCh | readyCh` (plus ctx for
`CurrentTrustAnchors`) that needs no lock, THEN `RLock`, read, deferred `RUnlock`.  `Watch`:
Lock … Unlock around the registration.  A reload is Lock, assign, Unlock. -/
theorem ta_source_shape_as_modelled :
    Shape.srcRunOk = Shape.modelRunOk ∧
    Shape.srcRunGarbage = Shape.modelRunGarbage ∧
    Shape.modelStop = [.deferCloseClosed] ∧
    Shape.updOk = Shape.modelReload ∧
    Shape.follows .cas .deferCloseClosed taRun = true ∧
    Shape.follows .lock .deferUnlock taUpdate = true ∧
    taRun.getLast? = some .runWatcherAndReloadLoop ∧
    Shape.resolveDefer taGetBundle = Shape.modelGet false ∧
    Shape.resolveDefer taCurrent = Shape.modelGet true ∧
    Shape.follows .rlock .deferRUnlock taGetBundle = true ∧ Shape.follows .rlock .deferRUnlock taCurrent = true ∧
    taWatch.filter Shape.isSync = Shape.modelWatch ∧ taWatch.getLast? = some .watchLoop ∧
    -- defers run last-in-first-out: `wg.Wait()` (registered after `Unlock`) runs BEFORE `Unlock`, i.e. the
    -- subscribers are awaited under the write lock — as in the model
    Shape.before .deferUnlock .deferWgWait taUpdate = true ∧ Shape.before .deferWgWait .notifySubs taUpdate = true ∧
    Shape.modelNotifiesUnderLock = true := by
  decide

/-- **The bundle source never deadlocks, whatever the order of first calls.**  From every reachable
state — any number of `GetX509BundleForTrustDomain`, `CurrentTrustAnchors(ctx)` and `Watch` callers,
any interleaving with `Run`, reloads, file contents, cancellations — in which `readyCh` or `closeCh`
is closed (the first load succeeded, or `Run` has ended for whatever reason) and no `Watch`
subscriber is stalled (hypothesis `subscribers_drain`: every subscriber's consumer keeps reading its
channel — `updateAnchors` awaits the notifications while it holds the write lock; the witness
`stalled_subscriber_blocks_readers` shows the hypothesis is needed), internal steps alone
lead to a state where every call has returned (`Watch`: is registered); the same calls (same list
length); a returned bundle is never nil, and "closed" is only reported when `closeCh` is closed. -/
theorem bundle_source_no_deadlock {s : St} (hreach : Reach init s) (hup : s.ready = true ∨ s.closed = true)
    (subscribers_drain : s.subBlocked = false) :
    ∃ t, IntPath s t ∧ t.cons.length = s.cons.length ∧
      ∀ c ∈ t.cons, c = .sDone ∨ ∃ r, c = .bDone r ∧
        (∀ v, r = .ok v → v.isSome = true ∧ t.ready = true) ∧ (r = .closed → t.closed = true) := by
  have hi := inv_reach inv_init hreach
  obtain ⟨t, hp, hall, hlen⟩ := progress (total s) s (Nat.le_refl _) hi hup subscribers_drain
  have hit := inv_reach inv_init (reach_of_intPath hreach hp)
  refine ⟨t, hp, hlen, ?_⟩
  intro c hc
  have hret : c.returned = true := by
    simp only [St.allReturned, List.all_eq_true] at hall
    exact hall c hc
  cases c with
  | sDone => exact Or.inl rfl
  | bDone r =>
    refine Or.inr ⟨r, rfl, ?_, ?_⟩
    · intro v hv; subst hv
      exact ⟨hit.results _ hc v (Or.inr rfl), hit.passed _ hc rfl⟩
    · intro hr; subst hr; exact hit.closedRes _ hc rfl
  | _ => simp [ConsPc.returned] at hret

/-- Non-vacuity: two readers and a Watch call arrive before `Run`; `Run` is inside `Lock()` of its
first load behind the registering `Watch`. -/
example : ∃ s, Reach init s ∧ s.run = .uWant false ∧ s.cons = [.bCall false, .bCall true, .sPend] ∧ s.wPend = true :=
  ⟨_, .tail (.cons 2) (.tail .run (.tail (.fileWrite (.ver 1)) (.tail .run (.tail .callRun (.tail .callWatch
    (.tail (.callBundle true) (.tail (.callBundle false) (.refl _) rfl) rfl) rfl) rfl) rfl) rfl) rfl) rfl, rfl, rfl, rfl⟩

/-- A reload is waiting for a stalled subscriber while holding the write lock; a reader is past its
select and wants the read lock. -/
def stalledState : St :=
  { running := true, wHeld := true, ready := true, bundle := some 2, file := .ver 2, subBlocked := true,
    run := .uNotify true, cons := [.sDone, .bPassed] }

/-- **Without `subscribers_drain` readers can block** (the boundary of the previous theorem, machine
checked; behaviour of trustanchors outside C19's statement): the state is reachable — a registered
`Watch` whose consumer stopped reading, then a file update, then a reader — `readyCh` is closed, and
NO internal step is enabled: the reload waits for the subscriber under the write lock, the reader waits
for the lock.  Only the environment (the subscriber drains, or Run's ctx ends) can release them. -/
theorem stalled_subscriber_blocks_readers :
    Reach init stalledState ∧ stalledState.ready = true ∧ stalledState.allReturned = false ∧
    ∀ l, l.internal = true → step stalledState l = none := by
  refine ⟨?_, rfl, rfl, ?_⟩
  · exact .tail (.cons 1) (.tail (.callBundle false) (.tail .run (.tail .run (.tail .run (.tail .run
      (.tail (.fileWrite (.ver 2)) (.tail .subStall (.tail (.cons 0) (.tail (.cons 0) (.tail (.cons 0) (.tail .callWatch
      (.tail .run (.tail .run (.tail .run (.tail .run (.tail .run (.tail .run (.tail .run (.tail .run (.tail .run (.tail .run
      (.tail .callRun (.tail (.fileWrite (.ver 1)) (.refl _) rfl) rfl) rfl) rfl) rfl) rfl) rfl) rfl) rfl) rfl) rfl) rfl)
      rfl) rfl) rfl) rfl) rfl) rfl) rfl) rfl) rfl) rfl) rfl) rfl
  · intro l hl
    cases l with
    | run => rfl
    | cons i =>
      match i with
      | 0 => rfl
      | 1 => rfl
      | i + 2 => simp [step, consStep, stalledState]
    | consClosed i =>
      match i with
      | 0 => rfl
      | 1 => rfl
      | i + 2 => simp [step, stalledState]
    | _ => simp [Lbl.internal] at hl

/-- **Every way `Run` ends releases the readers**: `closeCh` is closed exactly when `Run` has
returned after winning the CAS (error or not: file never found, garbage content, watcher failure,
reload failure, ctx done) — and `readyCh` is only closed once a bundle is loaded. -/
theorem run_exit_closes {s : St} (hreach : Reach init s) :
    (s.closed = true ↔ ∃ e, s.run = .done e) ∧ (s.ready = true → s.bundle.isSome = true) := by
  have hi := inv_reach inv_init hreach
  refine ⟨?_, hi.readyBundle⟩
  rw [hi.closedDone]
  cases s.run <;> simp [RunPc.isDone]

/-- Safety in every reachable state: nobody is past the select (let alone holding the read lock or
returned with a bundle) before `readyCh` is closed; a value read or returned is a loaded bundle; the
lock is consistent (readers counted, at most one writer between announce and unlock). -/
theorem bundle_results_correct {s : St} (hreach : Reach init s) :
    (∀ c ∈ s.cons, pastSelect c = true → s.ready = true) ∧
    (∀ c ∈ s.cons, ∀ r, (c = .bUnlock r ∨ c = .bDone (.ok r)) → r.isSome = true) ∧
    (∀ c ∈ s.cons, c = .bDone .closed → s.closed = true) ∧
    ¬ (s.wPend = true ∧ s.wHeld = true) := by
  have hi := inv_reach inv_init hreach
  exact ⟨hi.passed, hi.results, hi.closedRes, hi.excl⟩

/-- **Trace inclusion for the bundle source is sound**: an accepted trace of observable events ends,
for every state of the final (non-empty) set, a genuine run of the LTS exhibiting exactly those
events with internal steps in between; the state is reachable. -/
theorem ta_accept_sound {tr : List Ev} {mf : List St} (h : accept tr = (none, mf)) :
    mf ≠ [] ∧ ∀ t ∈ mf, ∃ s0, TauStar init s0 ∧ TraceRun s0 tr t ∧ Reach init t := by
  simp only [accept] at h
  obtain ⟨hne, hall⟩ := acceptFrom_sound _ _ _ _ h
  constructor
  · apply hne
    have : init ∈ close [init] := by
      simp only [close]
      exact closure_superset _ _ _ _ _ (by simp [insertNew])
    intro h0; rw [h0] at this; simp at this
  · intro t ht
    obtain ⟨s0, hs0, htr⟩ := hall t ht
    obtain ⟨s, hs, htau⟩ := close_sound hs0
    simp only [List.mem_singleton] at hs
    subst hs
    exact ⟨s0, htau, htr, traceRun_reach (tauStar_reach (.refl _) htau) htr⟩

/-- Non-vacuity: readers first, then `Run`, then the file appears — accepted; the same trace with a
reader left pending although the source is up — rejected. -/
example : (accept [.callBundle false, .callBundle true, .callRun, .quiet [0, 1], .file (.ver 1),
      .ret 0 (.ok (some 1)), .ret 1 (.ok (some 1)), .quiet []]).1 = none ∧
    (accept [.callBundle false, .callRun, .file (.ver 1), .quiet [0]]).1 = some 3 := by
  decide

end Kit.Spiffe.TA
