/-
Property C04 (`Next` half) across daylight-saving transitions: on every zone whose transitions are
shifts of exactly one hour, between whole hours, at most one per 75 days (`HourZone`), the REPAIRED
`Next` is sound, minimal, zero-correct and terminates — including transitions that skip or repeat
local midnight (the class repaired by the two `fix:` commits).

Reading of doc.go encoded by `Matches` (unchanged from the fixed-offset theorems): a wall-clock
time in a spring-forward gap belongs to no instant, so a job scheduled there does not run that
day ("jobs scheduled during daylight-savings leap-ahead transitions will not be run"); a wall-clock
time that occurs twice (fall-back) matches at BOTH instants, so such a job runs twice
(spec_test.go pins this for America/New_York).
-/
import KitProofs.Lemmas.CronDstNext
import KitProofs.Props.C04Next

namespace Kit.CronSpec
open Kit.CronCal

/-- What `Next` must satisfy on the wall clock of `z` (whole seconds `u`; `tn` in nanoseconds). -/
def NextSpecZ (s : Sched) (z : Zone) (tn : Int) : Result → Prop
  | .at r => tn < r * 1000000000 ∧ Matches s z r ∧
      ∀ u, tn < u * 1000000000 → u < r → ¬ Matches s z u
  | .zero => ∀ u, tn < u * 1000000000 → year z u ≤ year z (roundUp tn) + 5 → ¬ Matches s z u
  | .fuel => False

/-- **Soundness, minimality, zero answer and termination on hour zones.** -/
theorem next_dst_hour_zones {z : Zone} {b : Int → Int} (H : HourZone z b) (s : Sched) (tn : Int) :
    NextSpecZ s z tn (next s z tn) := by
  have hp : NextPostD s z (roundUp tn) (year z (roundUp tn) + 5) (next s z tn) := by
    simp only [next, Generated.C04Next.yearLimitAdd]
    refine nextFrom_ruleD H (roundUp tn) _ (roundUp tn + 193200000)
      (fun u hu => year_limit_boundD H (roundUp tn) u hu) outerFuel (roundUp tn) false
      ⟨NoMatchB.refl _ _ _, fun _ => rfl, fun h => Bool.noConfusion h⟩ ?_ ?_
    · simp only [outerFuel]; simp; omega
    · simp only [outerFuel]; omega
  cases hr : next s z tn with
  | fuel => rw [hr] at hp; exact hp
  | «at» r =>
    rw [hr] at hp
    obtain ⟨hm, hnm⟩ := hp
    rw [roundUp_eq] at hnm
    have hge : tn / 1000000000 + 1 ≤ r := by
      by_cases h : tn / 1000000000 + 1 ≤ r; exact h
      exact absurd hm (hnm r (Or.inr ⟨by omega, by omega⟩))
    refine ⟨by omega, hm, fun u hu1 hu2 => hnm u (Or.inl ⟨by omega, hu2⟩)⟩
  | zero =>
    rw [hr] at hp
    obtain ⟨t', hy, hnm⟩ := hp
    intro u hu1 hu2
    rw [roundUp_eq] at hnm
    have hlt : u < t' := by
      by_cases h : u < t'; exact h
      have := year_mono_hz H (u := t') (v := u) (by omega); omega
    exact hnm u (Or.inl ⟨by omega, hlt⟩)

end Kit.CronSpec
