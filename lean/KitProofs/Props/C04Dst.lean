/-
Property C04 (`Next` half) across daylight-saving transitions: on every zone whose transitions are
shifts of exactly one hour, between whole hours, at most one per 75 days (`HourZone`), the REPAIRED
`Next` is sound, minimal, zero-correct and terminates — including transitions that skip or repeat
local midnight (the class repaired by the two `fix:` commits).

Reading of doc.go encoded by `Matches` (unchanged from the fixed-offset theorems): a wall-clock
time in a spring-forward gap belongs to no instant, so a job scheduled there does not run that
day ("jobs scheduled during daylight-savings leap-ahead transitions will not be run"); a wall-clock
time that occurs twice (fall-back) matches at BOTH instants, so such a job runs twice
(spec_test.go pins this for America/New_York).
-/
import KitProofs.Lemmas.CronDstNext
import KitProofs.Lemmas.CronDstTable
import KitProofs.Props.C04Next

namespace Kit.CronSpec
open Kit.CronCal

/-- What `Next` must satisfy on the wall clock of `z` (whole seconds `u`; `tn` in nanoseconds). -/
def NextSpecZ (s : Sched) (z : Zone) (tn : Int) : Result → Prop
  | .at r => tn < r * 1000000000 ∧ Matches s z r ∧
      ∀ u, tn < u * 1000000000 → u < r → ¬ Matches s z u
  | .zero => ∀ u, tn < u * 1000000000 → year z u ≤ year z (roundUp tn) + 5 → ¬ Matches s z u
  | .fuel => False

/-- **Soundness, minimality, zero answer and termination on hour zones.** -/
theorem next_dst_hour_zones {z : Zone} {b : Int → Int} (H : HourZone z b) (s : Sched) (tn : Int) :
    NextSpecZ s z tn (next s z tn) := by
  have hp : NextPostD s z (roundUp tn) (year z (roundUp tn) + 5) (next s z tn) := by
    simp only [next, Generated.C04Next.yearLimitAdd]
    refine nextFrom_ruleD H (roundUp tn) _ (roundUp tn + 193200000)
      (fun u hu => year_limit_boundD H (roundUp tn) u hu) outerFuel (roundUp tn) false
      ⟨NoMatchB.refl _ _ _, fun _ => rfl, fun h => Bool.noConfusion h⟩ ?_ ?_
    · simp only [outerFuel]; simp; omega
    · simp only [outerFuel]; omega
  cases hr : next s z tn with
  | fuel => rw [hr] at hp; exact hp
  | «at» r =>
    rw [hr] at hp
    obtain ⟨hm, hnm⟩ := hp
    rw [roundUp_eq] at hnm
    have hge : tn / 1000000000 + 1 ≤ r := by
      by_cases h : tn / 1000000000 + 1 ≤ r; exact h
      exact absurd hm (hnm r (Or.inr ⟨by omega, by omega⟩))
    refine ⟨by omega, hm, fun u hu1 hu2 => hnm u (Or.inl ⟨by omega, hu2⟩)⟩
  | zero =>
    rw [hr] at hp
    obtain ⟨t', hy, hnm⟩ := hp
    intro u hu1 hu2
    rw [roundUp_eq] at hnm
    have hlt : u < t' := by
      by_cases h : u < t'; exact h
      have := year_mono_hz H (u := t') (v := u) (by omega); omega
    exact hnm u (Or.inl ⟨by omega, hlt⟩)

/-- The DST statement of DESIGN §3 (C04, item 6), widened to transitions at any whole local hour,
midnight included: for every transition table that passes the decidable check `hourTable`
(offsets whole hours with |off| ≤ 26 h, transitions on whole UTC hours, each changing the offset by
exactly one hour, at least 1801 hours apart), every schedule and every start instant. -/
def next_dst_statement : Prop :=
  ∀ (z : Zone), hourTable z = true → ∀ (s : Sched) (tn : Int), NextSpecZ s z tn (next s z tn)

theorem next_dst_tables : next_dst_statement :=
  fun z h s tn => next_dst_hour_zones (hourZone_of_table z h) s tn

/-! ### the hypotheses are satisfiable by real zones; and they are needed -/

/-- America/Havana 2017/18 (DST starts at local midnight, ends at 01:00 → 00:00) is an hour zone. -/
example : hourTable havana = true := by decide

/-- America/New_York 2017–2019. -/
def newYork : Zone :=
  [(0, -18000), (1489302000, -14400), (1509861600, -18000), (1520751600, -14400),
   (1541311200, -18000), (1552201200, -14400), (1572760800, -18000)]
example : hourTable newYork = true := by decide

/-- The repaired search on Havana: concrete instance of the theorem (the case of
`next_right_day_havana`). -/
example : NextSpecZ ⟨1, 1, 2, 2048, 8, 9223372036854775935⟩ havana 1489251600000000000
    (next ⟨1, 1, 2, 2048, 8, 9223372036854775935⟩ havana 1489251600000000000) :=
  next_dst_tables havana (by decide) _ _

/-- Australia/Lord_Howe (half-hour shift) is not an hour zone — and the statement fails there
(`next_missed_lord_howe`, `next_nonmatching_lord_howe`). -/
example : hourTable lordHowe = false := by decide

/-- Antarctica/Troll 2017 (two-hour shift): not an hour zone; the statement fails:
`0 0 2 29 10 *`-style schedule with hour {2} from 01:30+02:00 skips 02:00+02:00. -/
def troll : Zone := [(0, 0), (1490490000, 7200), (1509238800, 0), (1521939600, 7200)]
example : hourTable troll = false := by decide
theorem next_missed_troll :
    next ⟨1, 1, 4, 9223372041149743102, 8190, 9223372036854775935⟩ troll 1509233400000000000
      = .at 1509242400 ∧
    Matches ⟨1, 1, 4, 9223372041149743102, 8190, 9223372036854775935⟩ troll 1509235200 ∧
    (1509233400000000000 : Int) < 1509235200 * 1000000000 ∧ (1509235200 : Int) < 1509242400 := by
  decide

/-! ### termination needs a bound on the size of the shift -/

/-- Termination for ARBITRARY transition tables whose offsets are merely bounded (|off| ≤ 26 h):
false.  Kept as the statement one might hope for. -/
def next_terminates_bounded_offsets_statement : Prop :=
  ∀ (z : Zone), (∀ e ∈ z, -93600 ≤ e.2 ∧ e.2 ≤ 93600) → ∀ (s : Sched) (tn : Int),
    next s z tn ≠ .fuel

/-- A synthetic zone that jumps from −26 h to +26 h (two local days are skipped). -/
def skip52 : Zone := [(0, -93600), (1499997600, 93600)]

set_option maxRecDepth 20000 in
/-- On `skip52` the day loop of the repaired code does not advance: `dayInc` has a fixed point on
a day that is not the first of the month (both `AddDate(0,0,1)` and `AddDate(0,0,2)` resolve into
the gap and back), so a schedule that does not match that day spins forever — the model runs out
of fuel.  Termination therefore needs a bound on the shift (hour zones: one hour; the second `fix:`
commit handles exactly one skipped day). -/
theorem next_spins_on_52h_skip :
    dayInc skip52 1499911200 = 1499911200 ∧ day skip52 1499911200 ≠ 1 ∧
    next ⟨1, 1, 2, 2, 8190, 9223372036854775935⟩ skip52 1499652000000000000 = .fuel := by
  refine ⟨by decide, by decide, ?_⟩
  decide +kernel

theorem next_terminates_bounded_offsets_false : ¬ next_terminates_bounded_offsets_statement := by
  intro h
  exact h skip52 (by decide) _ _ next_spins_on_52h_skip.2.2

end Kit.CronSpec
