/-
C04 (parser half) — the model is the code: `getBits` (with its loop `getBits_loop1`) and `all` as
TRANSLATED from /repo/cron/parser.go on this run (`KitModel/Generated/CodeC04Parser.lean`, written by
`harness/cmd/go2lean`) compute exactly what the hand-written model `Kit.Cron.getBits` /
`Kit.Cron.allBits` computes, for every `uint` argument for which the Go addition `i += step` (and
`max + 1`) cannot wrap — so the bit-set theorems of `Lemmas/CronParser.lean` / `Props/C04Parser.lean`
about `Kit.Cron.getBits` are theorems about the translated source text, and a change to the Go
function changes the definition these theorems are about.

Ranges (the model computes in `Nat`, the code in `uint` = `BitVec 64`):
  * `min < 2^64`            — `min` is a `uint` (otherwise `BitVec.ofNat 64 min` is another number:
                              `getBits_code_min_wrap_differs`);
  * `max + step < 2^64`     — neither `max + 1` (shift branch) nor `i += step` while `i ≤ max` (loop
                              branch) wraps. Outside it the code really differs from the model:
                              `getBits_code_step_wrap_differs` (step = 2^64-1) and
                              `getBits_code_max_wrap_differs` (max = 2^64-1, step = 1);
  * `1 ≤ step ∨ max < min`  — `step = 0` with `min ≤ max` makes the Go loop spin
                              (`getBits_code_step_zero_spins`); the parser refuses a zero step before
                              the call (`finishRange`).
All call sites have `max ≤ 63` and `step < 2^63` (`getBits_code_eq_model_callsite`).

Trusted here: the translator and `KitModel/Go/Sem.lean` (`uint` as `BitVec 64`, a shift by a count
≥ 64 gives 0, `.nofuel` = the loop was still running when the fuel ran out).
-/
import KitModel.CronParser
import KitModel.Generated.CodeC04Parser
import KitProofs.Lemmas.CronParser

namespace Kit.Cron.Code
open Kit.Cron Kit.GoSem Kit.Generated

/-! ## Helpers: `uint` comparisons and shifts on `BitVec.ofNat 64` -/

theorem two64 : (2 : Nat) ^ 64 = 18446744073709551616 := by decide

theorem ofNat_le_ofNat (a b : Nat) (ha : a < 2 ^ 64) (hb : b < 2 ^ 64) :
    (BitVec.ofNat 64 a ≤ BitVec.ofNat 64 b) ↔ a ≤ b := by
  rw [BitVec.le_def, BitVec.toNat_ofNat, BitVec.toNat_ofNat, Nat.mod_eq_of_lt ha,
    Nat.mod_eq_of_lt hb]

theorem ofNat_eq_one_iff (s : Nat) (hs : s < 2 ^ 64) : (BitVec.ofNat 64 s = 1#64) ↔ s = 1 := by
  constructor
  · intro h
    have := congrArg BitVec.toNat h
    rw [BitVec.toNat_ofNat, Nat.mod_eq_of_lt hs] at this
    simpa using this
  · intro h; subst h; rfl

theorem starBit_eq : starBit = 9223372036854775808#64 := by decide

theorem allOnes64_eq : allOnes64 = 18446744073709551615#64 := by decide

/-! ## The loop -/

/-- The translated loop never panics and never returns from inside the loop: it either runs out of
fuel or ends with the loop-carried `(bits, i)`. For all arguments whatsoever. -/
theorem loop_code_shape (mn mx st : BitVec 64) :
    ∀ (fuel : Nat) (bits i : BitVec 64),
      CodeC04Parser.getBits_loop1 fuel mn mx st bits i = .nofuel ∨
      ∃ b i', CodeC04Parser.getBits_loop1 fuel mn mx st bits i = .ok (.brk (b, i')) := by
  intro fuel
  induction fuel with
  | zero => intro bits i; left; rfl
  | succ n ih =>
    intro bits i
    unfold CodeC04Parser.getBits_loop1
    by_cases h : i ≤ mx
    · simp only [h, decide_true, ↓reduceIte]
      exact ih _ _
    · simp only [h, decide_false, Bool.false_eq_true, ↓reduceIte]
      exact Or.inr ⟨bits, i, rfl⟩

/-- **Simulation.** With `1 ≤ step` and no wrap possible (`max + step < 2^64`), the translated loop
started at `i ≤ max + step` with `F + 1` units of fuel ends, and its `bits` are those of the model loop
run with any `f` such that `max + 1 - i ≤ f ≤ F`. -/
theorem loop_code_eq_model (mn : BitVec 64) (max step : Nat) (hs : 1 ≤ step)
    (hw : max + step < 2 ^ 64) :
    ∀ (f F i : Nat) (bits : BitVec 64), max + 1 - i ≤ f → f ≤ F → i ≤ max + step →
      ∃ i', CodeC04Parser.getBits_loop1 (F + 1) mn (BitVec.ofNat 64 max) (BitVec.ofNat 64 step) bits
          (BitVec.ofNat 64 i) = .ok (.brk (getBitsLoop max step f i bits, i')) := by
  have h64 := two64
  intro f
  induction f with
  | zero =>
    intro F i bits h1 _ h3
    have hc : ¬ (BitVec.ofNat 64 i ≤ BitVec.ofNat 64 max) := by
      rw [ofNat_le_ofNat i max (by omega) (by omega)]; omega
    refine ⟨BitVec.ofNat 64 i, ?_⟩
    unfold CodeC04Parser.getBits_loop1
    simp only [hc, decide_false, Bool.false_eq_true, ↓reduceIte, getBitsLoop]
  | succ f ih =>
    intro F i bits h1 h2 h3
    obtain ⟨F', rfl⟩ : ∃ F', F = F' + 1 := ⟨F - 1, by omega⟩
    by_cases hle : i ≤ max
    · have hc : BitVec.ofNat 64 i ≤ BitVec.ofNat 64 max := by
        rw [ofNat_le_ofNat i max (by omega) (by omega)]; exact hle
      obtain ⟨i', hi'⟩ := ih F' (i + step) (bits ||| ((1 : BitVec 64) <<< i)) (by omega) (by omega)
        (by omega)
      refine ⟨i', ?_⟩
      rw [CodeC04Parser.getBits_loop1]
      simp only [hc, decide_true, ↓reduceIte]
      rw [BitVec.toNat_ofNat, Nat.mod_eq_of_lt (by omega : i < 2 ^ 64), ← BitVec.ofNat_add]
      rw [getBitsLoop]
      simp only [hle, ↓reduceIte]
      exact hi'
    · have hc : ¬ (BitVec.ofNat 64 i ≤ BitVec.ofNat 64 max) := by
        rw [ofNat_le_ofNat i max (by omega) (by omega)]; exact hle
      refine ⟨BitVec.ofNat 64 i, ?_⟩
      rw [CodeC04Parser.getBits_loop1]
      simp only [hc, decide_false, Bool.false_eq_true, ↓reduceIte]
      rw [getBitsLoop]
      simp only [hle, ↓reduceIte]

/-- The image of Go's infinite loop: with `step = 0` and `i ≤ max` the translated loop uses up any
amount of fuel. -/
theorem loop_code_step_zero_spins (mn mx i : BitVec 64) (h : i ≤ mx) :
    ∀ (fuel : Nat) (bits : BitVec 64),
      CodeC04Parser.getBits_loop1 fuel mn mx (0#64) bits i = .nofuel := by
  intro fuel
  induction fuel with
  | zero => intro bits; rfl
  | succ n ih =>
    intro bits
    rw [CodeC04Parser.getBits_loop1]
    simp only [h, decide_true, ↓reduceIte, BitVec.add_zero]
    exact ih _

/-! ## `getBits` -/

/-- **The translated `getBits` is the model's `getBits`**, for every `uint` `min`, every `max`, `step`
with `max + step < 2^64` (no `uint` wrap), `step ≥ 1` (or an empty range), and every fuel
`≥ max + 2` (the shift branch `step = 1` needs none). -/
theorem getBits_code_eq_model (min max step : Nat) (hmin : min < 2 ^ 64)
    (hwrap : max + step < 2 ^ 64) (hstep : 1 ≤ step ∨ max < min) :
    ∀ fuel, max + 2 ≤ fuel →
      CodeC04Parser.getBits fuel (BitVec.ofNat 64 min) (BitVec.ofNat 64 max) (BitVec.ofNat 64 step)
        = .ok (Kit.Cron.getBits min max step) := by
  have h64 := two64
  intro fuel hfuel
  unfold CodeC04Parser.getBits Kit.Cron.getBits
  by_cases h1 : step = 1
  · subst h1
    have hb : (BitVec.ofNat 64 1 == 1#64) = true := by decide
    simp only [hb, ↓reduceIte]
    have hm1 : (BitVec.ofNat 64 max + 1#64).toNat = max + 1 := by
      rw [show (1#64) = BitVec.ofNat 64 1 from rfl, ← BitVec.ofNat_add, BitVec.toNat_ofNat,
        Nat.mod_eq_of_lt (by omega)]
    rw [hm1, BitVec.toNat_ofNat, Nat.mod_eq_of_lt hmin, allOnes64_eq]
  · have hb : (BitVec.ofNat 64 step == 1#64) = false := by
      rw [beq_eq_false_iff_ne, Ne, ofNat_eq_one_iff step (by omega)]; exact h1
    simp only [hb, Bool.false_eq_true, ↓reduceIte, h1]
    obtain ⟨F, rfl⟩ : ∃ F, fuel = F + 1 := ⟨fuel - 1, by omega⟩
    rcases hstep with hs | hlt
    · by_cases hin : min ≤ max + step
      · obtain ⟨i', hi'⟩ := loop_code_eq_model (BitVec.ofNat 64 min) max step hs hwrap (max + 1) F min
          (0#64) (by omega) (by omega) hin
        rw [hi']
        rfl
      · -- `min` beyond `max + step`: the loop body never runs, on either side
        have hc : ¬ (BitVec.ofNat 64 min ≤ BitVec.ofNat 64 max) := by
          rw [ofNat_le_ofNat min max hmin (by omega)]; omega
        have hnle : ¬ min ≤ max := by omega
        rw [CodeC04Parser.getBits_loop1]
        simp only [hc, decide_false, Bool.false_eq_true, ↓reduceIte]
        rw [getBitsLoop]
        simp only [hnle, ↓reduceIte]
        rfl
    · have hc : ¬ (BitVec.ofNat 64 min ≤ BitVec.ofNat 64 max) := by
        rw [ofNat_le_ofNat min max hmin (by omega)]; omega
      have hnle : ¬ min ≤ max := by omega
      rw [CodeC04Parser.getBits_loop1]
      simp only [hc, decide_false, Bool.false_eq_true, ↓reduceIte]
      rw [getBitsLoop]
      simp only [hnle, ↓reduceIte]
      rfl

/-- The same at the ranges of every call site in parser.go (`max ≤ 63` is the largest `bounds.max`
plus the star-bit limit, `step < 2^63` is what `mustParseInt` can return, `step ≥ 1` is checked by
`getRange` before the call). -/
theorem getBits_code_eq_model_callsite (min max step : Nat) (hmin : min < 2 ^ 64) (hmax : max ≤ 63)
    (hstep1 : 1 ≤ step) (hstep : step < 2 ^ 63) :
    ∀ fuel, max + 2 ≤ fuel →
      CodeC04Parser.getBits fuel (BitVec.ofNat 64 min) (BitVec.ofNat 64 max) (BitVec.ofNat 64 step)
        = .ok (Kit.Cron.getBits min max step) := by
  have h63 : (2 : Nat) ^ 63 = 9223372036854775808 := by decide
  have h64 := two64
  exact getBits_code_eq_model min max step hmin (by omega) (Or.inl hstep1)

/-- `step = 0` with a non-empty range: Go's `for i := min; i <= max; i += 0` never ends; the
translated function reports `.nofuel` for every fuel. (`getRange` refuses a zero step before calling
`getBits`; the model's `getBitsLoop` stops after `max + 1` rounds instead, so the two differ here.) -/
theorem getBits_code_step_zero_spins (min max : Nat) (hle : min ≤ max) (hmax : max < 2 ^ 64) :
    ∀ fuel,
      CodeC04Parser.getBits fuel (BitVec.ofNat 64 min) (BitVec.ofNat 64 max) (BitVec.ofNat 64 0)
        = .nofuel := by
  intro fuel
  have hc : BitVec.ofNat 64 min ≤ BitVec.ofNat 64 max := by
    rw [ofNat_le_ofNat min max (by omega) hmax]; exact hle
  unfold CodeC04Parser.getBits
  have hb : (BitVec.ofNat 64 0 == 1#64) = false := by decide
  simp only [hb, Bool.false_eq_true, ↓reduceIte]
  rw [show BitVec.ofNat 64 0 = 0#64 from rfl, loop_code_step_zero_spins _ _ _ hc]

/-- The form asked for at the parser's ranges: `step = 0`, `min ≤ max ≤ 63`. -/
theorem getBits_code_step_zero_spins_callsite (min max : Nat) (hle : min ≤ max) (hmax : max ≤ 63) :
    ∀ fuel,
      CodeC04Parser.getBits fuel (BitVec.ofNat 64 min) (BitVec.ofNat 64 max) (0#64) = .nofuel := by
  have h64 := two64
  exact getBits_code_step_zero_spins min max hle (by omega)

/-! ### Outside the ranges the code really differs from the model (counter-witnesses) -/

/-- `step = 2^64 - 1`, `min = 1`, `max = 63`: `i += step` wraps 1 to 0, so the code also sets bit 0
(then `i = 2^64 - 1 > max`); the model, adding in `Nat`, stops after bit 1. -/
theorem getBits_code_step_wrap_differs :
    CodeC04Parser.getBits 65 (BitVec.ofNat 64 1) (BitVec.ofNat 64 63)
        (BitVec.ofNat 64 (2 ^ 64 - 1)) = .ok 3#64 ∧
    Kit.Cron.getBits 1 63 (2 ^ 64 - 1) = 2#64 := by
  constructor <;> decide +kernel

/-- `max = 2^64 - 1`, `step = 1`: `max + 1` wraps to 0, the code returns no bits at all; the model
(shift by `2^64` gives 0) returns every bit from `min` up. -/
theorem getBits_code_max_wrap_differs :
    CodeC04Parser.getBits 0 (BitVec.ofNat 64 0) (BitVec.ofNat 64 (2 ^ 64 - 1)) (BitVec.ofNat 64 1)
        = .ok 0#64 ∧
    Kit.Cron.getBits 0 (2 ^ 64 - 1) 1 = 18446744073709551615#64 := by
  constructor
  · decide +kernel
  · unfold Kit.Cron.getBits
    simp only [↓reduceIte]
    rw [BitVec.shiftLeft_eq_zero (by omega : 64 ≤ 2 ^ 64 - 1 + 1)]
    decide

/-- `min = 2^64` is not a `uint`: `BitVec.ofNat 64 min` is 0. -/
theorem getBits_code_min_wrap_differs :
    CodeC04Parser.getBits 7 (BitVec.ofNat 64 (2 ^ 64)) (BitVec.ofNat 64 5) (BitVec.ofNat 64 2)
        = .ok 21#64 ∧
    Kit.Cron.getBits (2 ^ 64) 5 2 = 0#64 := by
  constructor <;> decide +kernel

/-! ## `all` -/

/-- **The translated `all` is the model's `allBits`**, for every fuel (the `step = 1` branch has no
loop), every `uint` `r.min` and every `r.max < 2^64 - 1` (all bounds in parser.go have
`max ≤ 59`). -/
theorem all_code_eq_model (r : Bounds) (hmin : r.min < 2 ^ 64) (hmax : r.max + 1 < 2 ^ 64) :
    ∀ fuel,
      CodeC04Parser.all fuel (BitVec.ofNat 64 r.min) (BitVec.ofNat 64 r.max) = .ok (allBits r) := by
  have h64 := two64
  intro fuel
  unfold CodeC04Parser.all CodeC04Parser.getBits allBits Kit.Cron.getBits
  have hb : ((1#64) == 1#64) = true := by decide
  simp only [hb, ↓reduceIte]
  have hm1 : (BitVec.ofNat 64 r.max + 1#64).toNat = r.max + 1 := by
    rw [show (1#64) = BitVec.ofNat 64 1 from rfl, ← BitVec.ofNat_add, BitVec.toNat_ofNat,
      Nat.mod_eq_of_lt (by omega)]
  rw [hm1, BitVec.toNat_ofNat, Nat.mod_eq_of_lt hmin, allOnes64_eq, starBit_eq]

/-- At the parser's ranges. -/
theorem all_code_eq_model_callsite (r : Bounds) (hmin : r.min < 2 ^ 64) (hmax : r.max ≤ 63) :
    ∀ fuel,
      CodeC04Parser.all fuel (BitVec.ofNat 64 r.min) (BitVec.ofNat 64 r.max) = .ok (allBits r) := by
  have h64 := two64
  exact all_code_eq_model r hmin (by omega)

/-! ## Corollaries on the translated code itself -/

/-- For ALL `uint` arguments and all fuel the translated `getBits` does not panic (it has no
division, index or slice; a shift count ≥ 64 is defined in Go). -/
theorem getBits_code_never_panics (fuel : Nat) (mn mx st : BitVec 64) :
    ∀ msg, CodeC04Parser.getBits fuel mn mx st ≠ .panic msg := by
  intro msg
  unfold CodeC04Parser.getBits
  by_cases hb : (st == 1#64) = true
  · simp only [hb, ↓reduceIte]; intro h; cases h
  · simp only [hb, Bool.false_eq_true, ↓reduceIte]
    rcases loop_code_shape mn mx st fuel 0#64 mn with h | ⟨b, i', h⟩
    · rw [h]; intro h'; cases h'
    · rw [h]; intro h'; cases h'

/-- The same for `all`. -/
theorem all_code_never_panics (fuel : Nat) (mn mx : BitVec 64) :
    ∀ msg, CodeC04Parser.all fuel mn mx ≠ .panic msg := by
  intro msg
  unfold CodeC04Parser.all
  cases h : CodeC04Parser.getBits fuel mn mx 1#64 with
  | ok v => intro h'; cases h'
  | panic m => exact absurd h (getBits_code_never_panics fuel mn mx 1#64 m)
  | nofuel => intro h'; cases h'

/-- Termination, on `uint` arguments directly: a non-zero step that cannot wrap
(`max + step < 2^64`; in particular `max ≤ 63`, `step < 2^63`) — `max + 2` units of fuel suffice. -/
theorem getBits_code_terminates (mn mx st : BitVec 64) (hst : st ≠ 0#64)
    (hw : mx.toNat + st.toNat < 2 ^ 64) :
    ∃ fuel v, CodeC04Parser.getBits fuel mn mx st = .ok v := by
  have hs : 1 ≤ st.toNat := by
    rcases Nat.eq_zero_or_pos st.toNat with h0 | hp
    · exact absurd (BitVec.eq_of_toNat_eq (by simpa using h0)) hst
    · exact hp
  have := getBits_code_eq_model mn.toNat mx.toNat st.toNat mn.isLt hw (Or.inl hs) (mx.toNat + 2)
    (Nat.le_refl _)
  simp only [BitVec.ofNat_toNat, BitVec.setWidth_eq] at this
  exact ⟨_, _, this⟩

/-- Termination in the form of the call sites (`step ≥ 1`, `max ≤ 63`, `step < 2^63`). -/
theorem getBits_code_terminates_callsite (min max step : Nat) (hmin : min < 2 ^ 64) (hmax : max ≤ 63)
    (hstep1 : 1 ≤ step) (hstep : step < 2 ^ 63) :
    ∃ fuel v,
      CodeC04Parser.getBits fuel (BitVec.ofNat 64 min) (BitVec.ofNat 64 max) (BitVec.ofNat 64 step)
        = .ok v :=
  ⟨max + 2, _, getBits_code_eq_model_callsite min max step hmin hmax hstep1 hstep _ (Nat.le_refl _)⟩

/-- A property theorem of the model carried over to the translated source text: the value the
translated `getBits` returns has exactly the bits `i` with `min ≤ i ≤ max` and `step ∣ i - min`. -/
theorem getBits_code_bits (min max step : Nat) (hmin : min < 2 ^ 64) (hwrap : max + step < 2 ^ 64)
    (hstep : 1 ≤ step) (fuel : Nat) (hfuel : max + 2 ≤ fuel) :
    ∃ v, CodeC04Parser.getBits fuel (BitVec.ofNat 64 min) (BitVec.ofNat 64 max)
          (BitVec.ofNat 64 step) = .ok v ∧
      ∀ i, i < 64 → v.getLsbD i = decide (min ≤ i ∧ i ≤ max ∧ step ∣ (i - min)) :=
  ⟨_, getBits_code_eq_model min max step hmin hwrap (Or.inl hstep) fuel hfuel,
    fun i hi => getBits_getLsbD min max step i hstep hi⟩

/-! ## Non-vacuity: the translated code itself, evaluated -/

/-- `*/5` on minutes: bits 0, 5, …, 55. -/
example : CodeC04Parser.getBits 100 0#64 59#64 5#64 = .ok 0x84210842108421#64 := by decide +kernel

/-- … and the theorem's right-hand side is that same value. -/
example : Kit.Cron.getBits 0 59 5 = 0x84210842108421#64 := by decide +kernel

/-- Shift branch: hours 9-17. -/
example : CodeC04Parser.getBits 0 9#64 17#64 1#64 = .ok 0x3FE00#64 := by decide +kernel

/-- The loop with exactly `max + 2` units of fuel ends; with `max + 1 - min` it may not. -/
example : CodeC04Parser.getBits 8 1#64 6#64 2#64 = .ok 0x2A#64 := by decide +kernel
example : CodeC04Parser.getBits 3 1#64 6#64 2#64 = .nofuel := by decide +kernel

/-- Zero step spins. -/
example : CodeC04Parser.getBits 1000 3#64 5#64 0#64 = .nofuel := by decide +kernel

/-- `all` on days of month (1..31) carries the star bit. -/
example : CodeC04Parser.all 0 1#64 31#64 = .ok 0x80000000FFFFFFFE#64 := by decide +kernel

/-- Instances of the main theorems (hypotheses satisfiable). -/
example : CodeC04Parser.getBits 61 (BitVec.ofNat 64 0) (BitVec.ofNat 64 59) (BitVec.ofNat 64 5)
    = .ok (Kit.Cron.getBits 0 59 5) :=
  getBits_code_eq_model_callsite 0 59 5 (by decide) (by decide) (by decide) (by decide) 61 (by decide)

example : CodeC04Parser.all 0 (BitVec.ofNat 64 1) (BitVec.ofNat 64 31)
    = .ok (allBits ⟨1, 31, []⟩) :=
  all_code_eq_model_callsite ⟨1, 31, []⟩ (by decide) (by decide) 0

end Kit.Cron.Code
