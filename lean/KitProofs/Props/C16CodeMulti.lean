/-
C16 — the model is the code, part 2: `MultiReaderCloser.Read` as TRANSLATED from
/repo/streams/multireadercloser.go on this run (`KitModel/Generated/CodeC16.lean`,
`MultiReaderCloser_Read` and its loop `MultiReaderCloser_Read_loop1`) computes exactly what the
hand-written model `Kit.Streams.Multi.read` / `Multi.readLoop` computes.

How the translation sees the world: `mr.readers` is a list of source identifiers, `R_Read i k` is
what `Read` of source `i` returns on a buffer of length `k` (within one call every source is read
at most once), `R_IsCloser i` says whether source `i` implements `io.Closer`, every `rc.Close()`
appends the identifier to the ghost log `closeLog`.

Route: the translated loop is first shown equal to a structurally recursive function on the list
of identifiers (`readSpec`, for ARBITRARY `R_Read`/`R_IsCloser`/`mr_readers`: this gives
never-panics, termination and closes-at-most-once on the translated code alone), then `readSpec`
over a table of scripted sources is shown equal to the model.

No hypothesis on the buffer is needed: the function performs no arithmetic on `len(p)`; for
`len(p) = 0` both sides return `(0, nil)` from the first source without dropping it (or
`(0, io.EOF)` if there is no source).
-/
import KitProofs.Props.C16Code

namespace Kit.Streams.Code
open Kit.Streams Kit.GoSem Kit.Generated.CodeC16

/-! ### the translated loop as a recursion on the list of identifiers -/

/-- What one call of the translated `Read` returns, by recursion on `mr.readers`:
`(n, err, mr.readers', closeLog')`. `k` is `len(p)`. -/
def readSpec (R : Nat → Int → Int × GoSem.Err) (C : Nat → Bool) (k : Int) :
    List Nat → List Nat → Int × GoSem.Err × List Nat × List Nat
  | [], cl => (0, some "io.EOF", [], cl)
  | r :: rs, cl =>
    if (R r k).2 = some "http.ErrBodyReadAfterClose" then
      -- dropped, NOT closed
      if (R r k).1 > 0 then ((R r k).1, if rs = [] then some "io.EOF" else none, rs, cl)
      else readSpec R C k rs cl
    else if (R r k).2 = some "io.EOF" then
      -- closed if a closer, dropped
      if (R r k).1 > 0 then
        ((R r k).1, if rs = [] then some "io.EOF" else none, rs, if C r then cl ++ [r] else cl)
      else readSpec R C k rs (if C r then cl ++ [r] else cl)
    else ((R r k).1, (R r k).2, r :: rs, cl)

/-- The `match` that ends the translated `Read` (what it does with the loop's outcome). -/
def finish :
    Res (LoopOut (Int × GoSem.Err × List Nat × List Nat) (List Nat × List Nat × Int × GoSem.Err)) →
    Res (Int × GoSem.Err × List Nat × List Nat)
  | .panic m => .panic m
  | .nofuel => .nofuel
  | .ok (.ret r) => .ok r
  | .ok (.brk (rs, cl, _, _)) => .ok (0, some "io.EOF", rs, cl)

theorem read_eq_finish (fuel : Nat) (R : Nat → Int → Int × GoSem.Err) (C : Nat → Bool)
    (ids : List Nat) (p : List UInt8) (cl : List Nat) :
    MultiReaderCloser_Read fuel R C ids p cl =
      finish (MultiReaderCloser_Read_loop1 fuel R C ids p cl 0 none) := by
  unfold MultiReaderCloser_Read finish
  rfl

theorem lenI_cons_pos (r : Nat) (rs : List Nat) : (lenI (r :: rs) > 0) := by
  simp only [lenI, List.length_cons]; omega

theorem idxG_head (r : Nat) (rs : List Nat) : idxG (r :: rs) 0 = r := by
  simp [idxG]

theorem slice_tail (r : Nat) (rs : List Nat) : slice (r :: rs) 1 (lenI (r :: rs)) = rs := by
  simp [slice, lenI]

/-- One iteration of the translated loop on a non-empty `mr.readers`. -/
theorem loop1_cons (f : Nat) (R : Nat → Int → Int × GoSem.Err) (C : Nat → Bool) (r : Nat)
    (rs : List Nat) (p : List UInt8) (cl : List Nat) (n : Int) (err : GoSem.Err) :
    MultiReaderCloser_Read_loop1 (f + 1) R C (r :: rs) p cl n err =
      if (R r (lenI p)).2 = some "http.ErrBodyReadAfterClose" then
        if (R r (lenI p)).1 > 0 then
          .ok (.ret ((R r (lenI p)).1, if rs = [] then some "io.EOF" else none, rs, cl))
        else MultiReaderCloser_Read_loop1 f R C rs p cl (R r (lenI p)).1 (some "io.EOF")
      else if (R r (lenI p)).2 = some "io.EOF" then
        if (R r (lenI p)).1 > 0 then
          .ok (.ret ((R r (lenI p)).1, if rs = [] then some "io.EOF" else none, rs,
            if C r then cl ++ [r] else cl))
        else MultiReaderCloser_Read_loop1 f R C rs p (if C r then cl ++ [r] else cl)
          (R r (lenI p)).1 (some "io.EOF")
      else .ok (.ret ((R r (lenI p)).1, (R r (lenI p)).2, r :: rs, cl)) := by
  rw [MultiReaderCloser_Read_loop1]
  have hpos := lenI_cons_pos r rs
  have hlen : (lenI rs > 0) = (rs ≠ []) := by
    cases rs <;> simp [lenI]
  simp only [hpos, idxG_head, slice_tail, decide_true, ↓reduceIte, Int.le_refl, true_and]
  have h1 : (1 : Int) ≤ lenI (r :: rs) := by omega
  generalize R r (lenI p) = ne
  obtain ⟨n', e'⟩ := ne
  simp only [h1, hlen]
  by_cases hb : e' = some "http.ErrBodyReadAfterClose"
  · subst hb
    by_cases hn : n' > 0 <;> by_cases hrs : rs = [] <;> simp [hn, hrs]
  · by_cases he : e' = some "io.EOF"
    · subst he
      by_cases hn : n' > 0 <;> by_cases hrs : rs = [] <;> cases C r <;> simp [hn, hrs]
    · by_cases hn : n' > 0 <;> simp [hn, hb, he]

/-- **The translated loop is `readSpec`**, for every amount of fuel: either the fuel ran out (and
then it was at most `len(mr.readers)`), or the call returned exactly `readSpec`. -/
theorem loop1_spec (R : Nat → Int → Int × GoSem.Err) (C : Nat → Bool) (p : List UInt8) :
    ∀ (fuel : Nat) (ids cl : List Nat) (n : Int) (err : GoSem.Err),
      (finish (MultiReaderCloser_Read_loop1 fuel R C ids p cl n err) = .nofuel ∧ fuel ≤ ids.length) ∨
      finish (MultiReaderCloser_Read_loop1 fuel R C ids p cl n err) =
        .ok (readSpec R C (lenI p) ids cl) := by
  intro fuel
  induction fuel with
  | zero =>
    intro ids cl n err
    left
    exact ⟨by rw [MultiReaderCloser_Read_loop1]; rfl, Nat.zero_le _⟩
  | succ f ih =>
    intro ids cl n err
    cases ids with
    | nil =>
      right
      rw [MultiReaderCloser_Read_loop1]
      simp [lenI, finish, readSpec]
    | cons r rs =>
      rw [loop1_cons]
      simp only [readSpec]
      have step : ∀ cl' n' err',
          (finish (MultiReaderCloser_Read_loop1 f R C rs p cl' n' err') = .nofuel ∧
              f + 1 ≤ (r :: rs).length) ∨
          finish (MultiReaderCloser_Read_loop1 f R C rs p cl' n' err') =
            .ok (readSpec R C (lenI p) rs cl') := by
        intro cl' n' err'
        rcases ih rs cl' n' err' with h | h
        · left; exact ⟨h.1, by simp only [List.length_cons]; omega⟩
        · right; exact h
      by_cases hb : (R r (lenI p)).2 = some "http.ErrBodyReadAfterClose"
      · simp only [hb, ↓reduceIte]
        by_cases hn : (R r (lenI p)).1 > 0
        · simp only [hn, ↓reduceIte]; right; rfl
        · simp only [hn, ↓reduceIte]; exact step _ _ _
      · simp only [hb, ↓reduceIte]
        by_cases he : (R r (lenI p)).2 = some "io.EOF"
        · simp only [he, ↓reduceIte]
          by_cases hn : (R r (lenI p)).1 > 0
          · simp only [hn, ↓reduceIte]; right; rfl
          · simp only [hn, ↓reduceIte]; exact step _ _ _
        · simp only [he, ↓reduceIte]; right; rfl

/-- The translated `Read`, for every amount of fuel and ARBITRARY parameters. -/
theorem read_code_spec (fuel : Nat) (R : Nat → Int → Int × GoSem.Err) (C : Nat → Bool)
    (ids : List Nat) (p : List UInt8) (cl : List Nat) :
    (MultiReaderCloser_Read fuel R C ids p cl = .nofuel ∧ fuel ≤ ids.length) ∨
    MultiReaderCloser_Read fuel R C ids p cl = .ok (readSpec R C (lenI p) ids cl) := by
  rw [read_eq_finish]
  exact loop1_spec R C p fuel ids cl 0 none

/-- **2a. The translated `Read` never panics** — all inputs, all fuel, arbitrary source behaviour
(`mr.readers[0]` and `mr.readers[1:]` are only evaluated under `len(mr.readers) > 0`). -/
theorem multi_read_code_never_panics (fuel : Nat) (R_Read : Nat → Int → Int × GoSem.Err)
    (R_IsCloser : Nat → Bool) (mr_readers : List Nat) (p : List UInt8) (closeLog : List Nat) :
    ∀ msg, MultiReaderCloser_Read fuel R_Read R_IsCloser mr_readers p closeLog ≠ .panic msg := by
  intro msg h
  rcases read_code_spec fuel R_Read R_IsCloser mr_readers p closeLog with h' | h'
  · rw [h'.1] at h; cases h
  · rw [h'] at h; cases h

/-- **2b. The translated `Read` terminates**: `len(mr.readers) + 1` iterations of fuel always
suffice (every iteration that does not return drops one reader), and the result is `readSpec`. -/
theorem multi_read_code_eq_spec (fuel : Nat) (R_Read : Nat → Int → Int × GoSem.Err)
    (R_IsCloser : Nat → Bool) (mr_readers : List Nat) (p : List UInt8) (closeLog : List Nat)
    (hfuel : mr_readers.length + 1 ≤ fuel) :
    MultiReaderCloser_Read fuel R_Read R_IsCloser mr_readers p closeLog =
      .ok (readSpec R_Read R_IsCloser (lenI p) mr_readers closeLog) := by
  rcases read_code_spec fuel R_Read R_IsCloser mr_readers p closeLog with h' | h'
  · omega
  · exact h'

theorem multi_read_code_terminates (fuel : Nat) (R_Read : Nat → Int → Int × GoSem.Err)
    (R_IsCloser : Nat → Bool) (mr_readers : List Nat) (p : List UInt8) (closeLog : List Nat)
    (hfuel : mr_readers.length + 1 ≤ fuel) :
    ∃ v, MultiReaderCloser_Read fuel R_Read R_IsCloser mr_readers p closeLog = .ok v :=
  ⟨_, multi_read_code_eq_spec fuel R_Read R_IsCloser mr_readers p closeLog hfuel⟩

/-- Whatever fuel was given: a returned value is `readSpec` (fuel never changes a result). -/
theorem multi_read_code_ok_iff (fuel : Nat) (R : Nat → Int → Int × GoSem.Err) (C : Nat → Bool)
    (ids : List Nat) (p : List UInt8) (cl : List Nat) (v : Int × GoSem.Err × List Nat × List Nat)
    (h : MultiReaderCloser_Read fuel R C ids p cl = .ok v) : v = readSpec R C (lenI p) ids cl := by
  rcases read_code_spec fuel R C ids p cl with h' | h'
  · rw [h'.1] at h; cases h
  · rw [h'] at h; cases h; rfl

/-! ### 3. no source is closed twice by `Read` -/

/-- Shape of one call, arbitrary parameters: the readers left are a suffix of `mr.readers`, the
close log only grows, and the identifiers appended to it are a sub-sequence (same order) of the
readers removed by this call. -/
theorem readSpec_shape (R : Nat → Int → Int × GoSem.Err) (C : Nat → Bool) (k : Int) :
    ∀ (ids cl : List Nat), ∃ removed added,
      ids = removed ++ (readSpec R C k ids cl).2.2.1 ∧
      (readSpec R C k ids cl).2.2.2 = cl ++ added ∧ added.Sublist removed := by
  intro ids
  induction ids with
  | nil => intro cl; exact ⟨[], [], by simp [readSpec]⟩
  | cons r rs ih =>
    intro cl
    simp only [readSpec]
    by_cases hb : (R r k).2 = some "http.ErrBodyReadAfterClose"
    · simp only [hb, ↓reduceIte]
      by_cases hn : (R r k).1 > 0
      · simp only [hn, ↓reduceIte]
        exact ⟨[r], [], by simp⟩
      · simp only [hn, ↓reduceIte]
        obtain ⟨rm, ad, h1, h2, h3⟩ := ih cl
        exact ⟨r :: rm, ad, by rw [List.cons_append, ← h1], h2, h3.cons _⟩
    · simp only [hb, ↓reduceIte]
      by_cases he : (R r k).2 = some "io.EOF"
      · simp only [he, ↓reduceIte]
        by_cases hn : (R r k).1 > 0
        · simp only [hn, ↓reduceIte]
          cases C r
          · exact ⟨[r], [], by simp⟩
          · exact ⟨[r], [r], by simp⟩
        · simp only [hn, ↓reduceIte]
          cases hc : C r
          · obtain ⟨rm, ad, h1, h2, h3⟩ := ih cl
            simp only [Bool.false_eq_true, ↓reduceIte]
            exact ⟨r :: rm, ad, by rw [List.cons_append, ← h1], h2, h3.cons _⟩
          · obtain ⟨rm, ad, h1, h2, h3⟩ := ih (cl ++ [r])
            simp only [↓reduceIte]
            exact ⟨r :: rm, r :: ad, by rw [List.cons_append, ← h1],
              by rw [h2]; simp, h3.cons₂ _⟩
      · simp only [he, ↓reduceIte]
        exact ⟨[], [], by simp⟩

/-- **3. Closes each source at most once**, directly on the translated code, arbitrary
`R_Read`/`R_IsCloser`, any fuel: whatever one call appended to `closeLog` (`added`) is a
sub-sequence of the identifiers it removed from `mr.readers` (`removed`); hence, if `mr.readers`
has no duplicates, nothing is appended twice and every appended identifier is no longer in
`mr.readers` afterwards — a later `Read` cannot close it again. -/
theorem multi_read_code_closes_each_at_most_once (fuel : Nat) (R_Read : Nat → Int → Int × GoSem.Err)
    (R_IsCloser : Nat → Bool) (mr_readers : List Nat) (p : List UInt8) (closeLog : List Nat)
    (n : Int) (err : GoSem.Err) (readers' closeLog' : List Nat)
    (hnd : mr_readers.Nodup)
    (h : MultiReaderCloser_Read fuel R_Read R_IsCloser mr_readers p closeLog =
      .ok (n, err, readers', closeLog')) :
    ∃ removed added, mr_readers = removed ++ readers' ∧ closeLog' = closeLog ++ added ∧
      added.Sublist removed ∧ added.Nodup ∧ ∀ i ∈ added, i ∈ mr_readers ∧ i ∉ readers' := by
  have hv := multi_read_code_ok_iff fuel R_Read R_IsCloser mr_readers p closeLog _ h
  obtain ⟨rm, ad, h1, h2, h3⟩ := readSpec_shape R_Read R_IsCloser (lenI p) mr_readers closeLog
  rw [← hv] at h1 h2
  simp only at h1 h2
  refine ⟨rm, ad, h1, h2, h3, ?_, ?_⟩
  · rw [h1] at hnd
    exact (List.nodup_append.mp hnd).1.sublist h3
  · intro i hi
    have hirm : i ∈ rm := h3.subset hi
    refine ⟨by rw [h1]; exact List.mem_append_left _ hirm, ?_⟩
    intro hi'
    rw [h1] at hnd
    exact (List.nodup_append.mp hnd).2.2 i hirm i hi' rfl

end Kit.Streams.Code
