/-
C16 — the model is the code, part 2: `MultiReaderCloser.Read` as TRANSLATED from
/repo/streams/multireadercloser.go on this run (`KitModel/Generated/CodeC16.lean`,
`MultiReaderCloser_Read` and its loop `MultiReaderCloser_Read_loop1`) computes exactly what the
hand-written model `Kit.Streams.Multi.read` / `Multi.readLoop` computes.

How the translation sees the world: `mr.readers` is a list of source identifiers, `R_Read i k` is
what `Read` of source `i` returns on a buffer of length `k` (within one call every source is read
at most once), `R_IsCloser i` says whether source `i` implements `io.Closer`, every `rc.Close()`
appends the identifier to the ghost log `closeLog`.

Route: the translated loop is first shown equal to a structurally recursive function on the list
of identifiers (`readSpec`, for ARBITRARY `R_Read`/`R_IsCloser`/`mr_readers`: this gives
never-panics, termination and closes-at-most-once on the translated code alone), then `readSpec`
over a table of scripted sources is shown equal to the model.

No hypothesis on the buffer is needed: the function performs no arithmetic on `len(p)`; for
`len(p) = 0` both sides return `(0, nil)` from the first source without dropping it (or
`(0, io.EOF)` if there is no source).
-/
import KitProofs.Props.C16Code

namespace Kit.Streams.Code
open Kit.Streams Kit.GoSem Kit.Generated.CodeC16

/-! ### the translated loop as a recursion on the list of identifiers -/

/-- What one call of the translated `Read` returns, by recursion on `mr.readers`:
`(n, err, mr.readers', closeLog')`. `k` is `len(p)`. -/
def readSpec (R : Nat → Int → Int × GoSem.Err) (C : Nat → Bool) (k : Int) :
    List Nat → List Nat → Int × GoSem.Err × List Nat × List Nat
  | [], cl => (0, some "io.EOF", [], cl)
  | r :: rs, cl =>
    if (R r k).2 = some "http.ErrBodyReadAfterClose" then
      -- dropped, NOT closed
      if (R r k).1 > 0 then ((R r k).1, if rs = [] then some "io.EOF" else none, rs, cl)
      else readSpec R C k rs cl
    else if (R r k).2 = some "io.EOF" then
      -- closed if a closer, dropped
      if (R r k).1 > 0 then
        ((R r k).1, if rs = [] then some "io.EOF" else none, rs, if C r then cl ++ [r] else cl)
      else readSpec R C k rs (if C r then cl ++ [r] else cl)
    else ((R r k).1, (R r k).2, r :: rs, cl)

/-- The `match` that ends the translated `Read` (what it does with the loop's outcome). -/
def finish :
    Res (LoopOut (Int × GoSem.Err × List Nat × List Nat) (List Nat × List Nat × Int × GoSem.Err)) →
    Res (Int × GoSem.Err × List Nat × List Nat)
  | .panic m => .panic m
  | .nofuel => .nofuel
  | .ok (.ret r) => .ok r
  | .ok (.brk (rs, cl, _, _)) => .ok (0, some "io.EOF", rs, cl)

theorem read_eq_finish (fuel : Nat) (R : Nat → Int → Int × GoSem.Err) (C : Nat → Bool)
    (ids : List Nat) (p : List UInt8) (cl : List Nat) :
    MultiReaderCloser_Read fuel R C ids p cl =
      finish (MultiReaderCloser_Read_loop1 fuel R C ids p cl 0 none) := by
  unfold MultiReaderCloser_Read finish
  rfl

theorem lenI_cons_pos (r : Nat) (rs : List Nat) : (lenI (r :: rs) > 0) := by
  simp only [lenI, List.length_cons]; omega

theorem idxG_head (r : Nat) (rs : List Nat) : idxG (r :: rs) 0 = r := by
  simp [idxG]

theorem slice_tail (r : Nat) (rs : List Nat) : slice (r :: rs) 1 (lenI (r :: rs)) = rs := by
  simp [slice, lenI]

/-- One iteration of the translated loop on a non-empty `mr.readers`. -/
theorem loop1_cons (f : Nat) (R : Nat → Int → Int × GoSem.Err) (C : Nat → Bool) (r : Nat)
    (rs : List Nat) (p : List UInt8) (cl : List Nat) (n : Int) (err : GoSem.Err) :
    MultiReaderCloser_Read_loop1 (f + 1) R C (r :: rs) p cl n err =
      if (R r (lenI p)).2 = some "http.ErrBodyReadAfterClose" then
        if (R r (lenI p)).1 > 0 then
          .ok (.ret ((R r (lenI p)).1, if rs = [] then some "io.EOF" else none, rs, cl))
        else MultiReaderCloser_Read_loop1 f R C rs p cl (R r (lenI p)).1 (some "io.EOF")
      else if (R r (lenI p)).2 = some "io.EOF" then
        if (R r (lenI p)).1 > 0 then
          .ok (.ret ((R r (lenI p)).1, if rs = [] then some "io.EOF" else none, rs,
            if C r then cl ++ [r] else cl))
        else MultiReaderCloser_Read_loop1 f R C rs p (if C r then cl ++ [r] else cl)
          (R r (lenI p)).1 (some "io.EOF")
      else .ok (.ret ((R r (lenI p)).1, (R r (lenI p)).2, r :: rs, cl)) := by
  rw [MultiReaderCloser_Read_loop1]
  have hpos := lenI_cons_pos r rs
  have hlen : (lenI rs > 0) = (rs ≠ []) := by
    cases rs <;> simp [lenI]
  simp only [hpos, idxG_head, slice_tail, decide_true, ↓reduceIte, Int.le_refl, true_and]
  have h1 : (1 : Int) ≤ lenI (r :: rs) := by omega
  generalize R r (lenI p) = ne
  obtain ⟨n', e'⟩ := ne
  simp only [h1, hlen]
  by_cases hb : e' = some "http.ErrBodyReadAfterClose"
  · subst hb
    by_cases hn : n' > 0 <;> by_cases hrs : rs = [] <;> simp [hn, hrs]
  · by_cases he : e' = some "io.EOF"
    · subst he
      by_cases hn : n' > 0 <;> by_cases hrs : rs = [] <;> cases C r <;> simp [hn, hrs]
    · by_cases hn : n' > 0 <;> simp [hn, hb, he]

/-- **The translated loop is `readSpec`**, for every amount of fuel: either the fuel ran out (and
then it was at most `len(mr.readers)`), or the call returned exactly `readSpec`. -/
theorem loop1_spec (R : Nat → Int → Int × GoSem.Err) (C : Nat → Bool) (p : List UInt8) :
    ∀ (fuel : Nat) (ids cl : List Nat) (n : Int) (err : GoSem.Err),
      (finish (MultiReaderCloser_Read_loop1 fuel R C ids p cl n err) = .nofuel ∧ fuel ≤ ids.length) ∨
      finish (MultiReaderCloser_Read_loop1 fuel R C ids p cl n err) =
        .ok (readSpec R C (lenI p) ids cl) := by
  intro fuel
  induction fuel with
  | zero =>
    intro ids cl n err
    left
    exact ⟨by rw [MultiReaderCloser_Read_loop1]; rfl, Nat.zero_le _⟩
  | succ f ih =>
    intro ids cl n err
    cases ids with
    | nil =>
      right
      rw [MultiReaderCloser_Read_loop1]
      simp [lenI, finish, readSpec]
    | cons r rs =>
      rw [loop1_cons]
      simp only [readSpec]
      have step : ∀ cl' n' err',
          (finish (MultiReaderCloser_Read_loop1 f R C rs p cl' n' err') = .nofuel ∧
              f + 1 ≤ (r :: rs).length) ∨
          finish (MultiReaderCloser_Read_loop1 f R C rs p cl' n' err') =
            .ok (readSpec R C (lenI p) rs cl') := by
        intro cl' n' err'
        rcases ih rs cl' n' err' with h | h
        · left; exact ⟨h.1, by simp only [List.length_cons]; omega⟩
        · right; exact h
      by_cases hb : (R r (lenI p)).2 = some "http.ErrBodyReadAfterClose"
      · simp only [hb, ↓reduceIte]
        by_cases hn : (R r (lenI p)).1 > 0
        · simp only [hn, ↓reduceIte]; right; rfl
        · simp only [hn, ↓reduceIte]; exact step _ _ _
      · simp only [hb, ↓reduceIte]
        by_cases he : (R r (lenI p)).2 = some "io.EOF"
        · simp only [he, ↓reduceIte]
          by_cases hn : (R r (lenI p)).1 > 0
          · simp only [hn, ↓reduceIte]; right; rfl
          · simp only [hn, ↓reduceIte]; exact step _ _ _
        · simp only [he, ↓reduceIte]; right; rfl

/-- The translated `Read`, for every amount of fuel and ARBITRARY parameters. -/
theorem read_code_spec (fuel : Nat) (R : Nat → Int → Int × GoSem.Err) (C : Nat → Bool)
    (ids : List Nat) (p : List UInt8) (cl : List Nat) :
    (MultiReaderCloser_Read fuel R C ids p cl = .nofuel ∧ fuel ≤ ids.length) ∨
    MultiReaderCloser_Read fuel R C ids p cl = .ok (readSpec R C (lenI p) ids cl) := by
  rw [read_eq_finish]
  exact loop1_spec R C p fuel ids cl 0 none

/-- **2a. The translated `Read` never panics** — all inputs, all fuel, arbitrary source behaviour
(`mr.readers[0]` and `mr.readers[1:]` are only evaluated under `len(mr.readers) > 0`). -/
theorem multi_read_code_never_panics (fuel : Nat) (R_Read : Nat → Int → Int × GoSem.Err)
    (R_IsCloser : Nat → Bool) (mr_readers : List Nat) (p : List UInt8) (closeLog : List Nat) :
    ∀ msg, MultiReaderCloser_Read fuel R_Read R_IsCloser mr_readers p closeLog ≠ .panic msg := by
  intro msg h
  rcases read_code_spec fuel R_Read R_IsCloser mr_readers p closeLog with h' | h'
  · rw [h'.1] at h; cases h
  · rw [h'] at h; cases h

/-- **2b. The translated `Read` terminates**: `len(mr.readers) + 1` iterations of fuel always
suffice (every iteration that does not return drops one reader), and the result is `readSpec`. -/
theorem multi_read_code_eq_spec (fuel : Nat) (R_Read : Nat → Int → Int × GoSem.Err)
    (R_IsCloser : Nat → Bool) (mr_readers : List Nat) (p : List UInt8) (closeLog : List Nat)
    (hfuel : mr_readers.length + 1 ≤ fuel) :
    MultiReaderCloser_Read fuel R_Read R_IsCloser mr_readers p closeLog =
      .ok (readSpec R_Read R_IsCloser (lenI p) mr_readers closeLog) := by
  rcases read_code_spec fuel R_Read R_IsCloser mr_readers p closeLog with h' | h'
  · omega
  · exact h'

theorem multi_read_code_terminates (fuel : Nat) (R_Read : Nat → Int → Int × GoSem.Err)
    (R_IsCloser : Nat → Bool) (mr_readers : List Nat) (p : List UInt8) (closeLog : List Nat)
    (hfuel : mr_readers.length + 1 ≤ fuel) :
    ∃ v, MultiReaderCloser_Read fuel R_Read R_IsCloser mr_readers p closeLog = .ok v :=
  ⟨_, multi_read_code_eq_spec fuel R_Read R_IsCloser mr_readers p closeLog hfuel⟩

/-- Whatever fuel was given: a returned value is `readSpec` (fuel never changes a result). -/
theorem multi_read_code_ok_iff (fuel : Nat) (R : Nat → Int → Int × GoSem.Err) (C : Nat → Bool)
    (ids : List Nat) (p : List UInt8) (cl : List Nat) (v : Int × GoSem.Err × List Nat × List Nat)
    (h : MultiReaderCloser_Read fuel R C ids p cl = .ok v) : v = readSpec R C (lenI p) ids cl := by
  rcases read_code_spec fuel R C ids p cl with h' | h'
  · rw [h'.1] at h; cases h
  · rw [h'] at h; cases h; rfl

/-! ### 3. no source is closed twice by `Read` -/

/-- Shape of one call, arbitrary parameters: the readers left are a suffix of `mr.readers`, the
close log only grows, and the identifiers appended to it are a sub-sequence (same order) of the
readers removed by this call. -/
theorem readSpec_shape (R : Nat → Int → Int × GoSem.Err) (C : Nat → Bool) (k : Int) :
    ∀ (ids cl : List Nat), ∃ removed added,
      ids = removed ++ (readSpec R C k ids cl).2.2.1 ∧
      (readSpec R C k ids cl).2.2.2 = cl ++ added ∧ added.Sublist removed := by
  intro ids
  induction ids with
  | nil => intro cl; exact ⟨[], [], by simp [readSpec]⟩
  | cons r rs ih =>
    intro cl
    simp only [readSpec]
    by_cases hb : (R r k).2 = some "http.ErrBodyReadAfterClose"
    · simp only [hb, ↓reduceIte]
      by_cases hn : (R r k).1 > 0
      · simp only [hn, ↓reduceIte]
        exact ⟨[r], [], by simp⟩
      · simp only [hn, ↓reduceIte]
        obtain ⟨rm, ad, h1, h2, h3⟩ := ih cl
        exact ⟨r :: rm, ad, by rw [List.cons_append, ← h1], h2, h3.cons _⟩
    · simp only [hb, ↓reduceIte]
      by_cases he : (R r k).2 = some "io.EOF"
      · simp only [he, ↓reduceIte]
        by_cases hn : (R r k).1 > 0
        · simp only [hn, ↓reduceIte]
          cases C r
          · exact ⟨[r], [], by simp⟩
          · exact ⟨[r], [r], by simp⟩
        · simp only [hn, ↓reduceIte]
          cases hc : C r
          · obtain ⟨rm, ad, h1, h2, h3⟩ := ih cl
            simp only [Bool.false_eq_true, ↓reduceIte]
            exact ⟨r :: rm, ad, by rw [List.cons_append, ← h1], h2, h3.cons _⟩
          · obtain ⟨rm, ad, h1, h2, h3⟩ := ih (cl ++ [r])
            simp only [↓reduceIte]
            exact ⟨r :: rm, r :: ad, by rw [List.cons_append, ← h1],
              by rw [h2]; simp, h3.cons_cons _⟩
      · simp only [he, ↓reduceIte]
        exact ⟨[], [], by simp⟩

/-- **3. Closes each source at most once**, directly on the translated code, arbitrary
`R_Read`/`R_IsCloser`, any fuel: whatever one call appended to `closeLog` (`added`) is a
sub-sequence of the identifiers it removed from `mr.readers` (`removed`); hence, if `mr.readers`
has no duplicates, nothing is appended twice and every appended identifier is no longer in
`mr.readers` afterwards — a later `Read` cannot close it again. -/
theorem multi_read_code_closes_each_at_most_once (fuel : Nat) (R_Read : Nat → Int → Int × GoSem.Err)
    (R_IsCloser : Nat → Bool) (mr_readers : List Nat) (p : List UInt8) (closeLog : List Nat)
    (n : Int) (err : GoSem.Err) (readers' closeLog' : List Nat)
    (hnd : mr_readers.Nodup)
    (h : MultiReaderCloser_Read fuel R_Read R_IsCloser mr_readers p closeLog =
      .ok (n, err, readers', closeLog')) :
    ∃ removed added, mr_readers = removed ++ readers' ∧ closeLog' = closeLog ++ added ∧
      added.Sublist removed ∧ added.Nodup ∧ ∀ i ∈ added, i ∈ mr_readers ∧ i ∉ readers' := by
  have hv := multi_read_code_ok_iff fuel R_Read R_IsCloser mr_readers p closeLog _ h
  obtain ⟨rm, ad, h1, h2, h3⟩ := readSpec_shape R_Read R_IsCloser (lenI p) mr_readers closeLog
  rw [← hv] at h1 h2
  simp only at h1 h2
  refine ⟨rm, ad, h1, h2, h3, ?_, ?_⟩
  · rw [h1] at hnd
    exact (List.nodup_append.mp hnd).1.sublist h3
  · intro i hi
    have hirm : i ∈ rm := h3.subset hi
    refine ⟨by rw [h1]; exact List.mem_append_left _ hirm, ?_⟩
    intro hi'
    rw [h1] at hnd
    exact (List.nodup_append.mp hnd).2.2 i hirm i hi' rfl

/-! ### 1. the translated `Read` is the model's `Multi.read` -/

theorem encErr_eq_bodyClosed (e : Option Streams.Err) :
    (encErr e = (some "http.ErrBodyReadAfterClose" : GoSem.Err)) ↔ e = some .bodyClosed := by
  cases e with
  | none => simp [encErr]
  | some e => cases e <;> simp [encErr] <;> decide

theorem encErr_eq_eof' (e : Option Streams.Err) :
    (encErr e = (some "io.EOF" : GoSem.Err)) ↔ e = some .eof := by
  cases e with
  | none => simp [encErr]
  | some e => cases e <;> simp [encErr] <;> decide

/-- Identifier `i` of the translated code stands for the scripted source `s` (not yet closed), as
far as a call with a buffer of length `m` can tell. -/
def Tied (R : Nat → Int → Int × GoSem.Err) (C : Nat → Bool) (m : Nat) (i : Nat) (s : Src) : Prop :=
  R i (m : Int) = srcRead s (m : Int) ∧ C i = s.closable ∧ s.closes = 0

/-- The identifiers (positionally, `ids[j]` ↔ `newDone[j]`) of the sources the model closed in this
call: those among the sources moved to `done` whose `closes` went up (from 0). -/
def closedIds (ids : List Nat) (newDone : List Src) : List Nat :=
  ((ids.zip newDone).filter (fun x => decide (0 < x.2.closes))).map Prod.fst

theorem closedIds_cons (i : Nat) (ids : List Nat) (x : Src) (D : List Src) :
    closedIds (i :: ids) (x :: D) = (if 0 < x.closes then [i] else []) ++ closedIds ids D := by
  unfold closedIds
  by_cases h : 0 < x.closes <;> simp [h]

/-- The model's one call `Multi.readLoop m rs dn`, in the shape of the translated function's
result: `(n, err, identifiers of the readers left, closeLog')`. The sources moved to `done` by
this call are `done.drop dn.length`; they are the first sources of `rs`, so their identifiers are
the first of `ids`. -/
def modelMultiRead (ids : List Nat) (rs dn : List Src) (m : Nat) (cl : List Nat) :
    Int × GoSem.Err × List Nat × List Nat :=
  let r := Multi.readLoop m rs dn
  let newDone := r.1.done.drop dn.length
  ((r.2.1.length : Int), encErr r.2.2, ids.drop newDone.length, cl ++ closedIds ids newDone)

/-- `done` is only an accumulator of the model's loop. -/
theorem readLoop_shift (m : Nat) : ∀ (rs dn : List Src),
    Multi.readLoop m rs dn =
      ({ readers := (Multi.readLoop m rs []).1.readers,
         done := dn ++ (Multi.readLoop m rs []).1.done }, (Multi.readLoop m rs []).2) := by
  intro rs
  induction rs with
  | nil => intro dn; simp [Multi.readLoop]
  | cons r rs ih =>
    intro dn
    rw [Multi.readLoop_cons m r rs dn, Multi.readLoop_cons m r rs []]
    by_cases he : (r.read m).2.2 = some .eof
    · simp only [he, ↓reduceIte]
      by_cases hd : (r.read m).2.1 ≠ []
      · simp [hd]
      · simp only [hd, ↓reduceIte]
        rw [ih (dn ++ [(r.read m).1.closeIfCloser]), ih ([] ++ [(r.read m).1.closeIfCloser])]
        simp
    · simp only [he, ↓reduceIte]
      by_cases hb : (r.read m).2.2 = some .bodyClosed
      · simp only [hb, ↓reduceIte]
        by_cases hd : (r.read m).2.1 ≠ []
        · simp [hd]
        · simp only [hd, ↓reduceIte]
          rw [ih (dn ++ [(r.read m).1]), ih ([] ++ [(r.read m).1])]
          simp
      · simp only [hb, ↓reduceIte]; simp

theorem modelMultiRead_shift (ids : List Nat) (rs dn : List Src) (m : Nat) (cl : List Nat) :
    modelMultiRead ids rs dn m cl = modelMultiRead ids rs [] m cl := by
  unfold modelMultiRead
  rw [readLoop_shift m rs dn]
  simp

/-- Shape of the model's call: it moves a prefix of the readers to `done` (so the identifiers
`ids.drop newDone.length` are those of `r.1.readers`, position by position), and all readers left
but the first are untouched. -/
theorem readLoop_shape (m : Nat) : ∀ (rs : List Src),
    (Multi.readLoop m rs []).1.done.length + (Multi.readLoop m rs []).1.readers.length = rs.length ∧
    (Multi.readLoop m rs []).1.readers.tail = (rs.drop (Multi.readLoop m rs []).1.done.length).tail := by
  intro rs
  induction rs with
  | nil => simp [Multi.readLoop]
  | cons r rs ih =>
    rw [Multi.readLoop_cons m r rs []]
    by_cases he : (r.read m).2.2 = some .eof
    · simp only [he, ↓reduceIte]
      by_cases hd : (r.read m).2.1 ≠ []
      · simp [hd, Nat.add_comm]
      · simp only [hd, ↓reduceIte]
        rw [readLoop_shift]
        simp only [List.nil_append, List.length_append, List.length_cons, List.length_nil]
        refine ⟨by omega, ?_⟩
        rw [ih.2, Nat.add_comm, List.drop_succ_cons]
    · simp only [he, ↓reduceIte]
      by_cases hb : (r.read m).2.2 = some .bodyClosed
      · simp only [hb, ↓reduceIte]
        by_cases hd : (r.read m).2.1 ≠ []
        · simp [hd, Nat.add_comm]
        · simp only [hd, ↓reduceIte]
          rw [readLoop_shift]
          simp only [List.nil_append, List.length_append, List.length_cons, List.length_nil]
          refine ⟨by omega, ?_⟩
          rw [ih.2, Nat.add_comm, List.drop_succ_cons]
      · simp only [hb, ↓reduceIte]; simp

/-- `ids` and `rs` have the same length and are tied position by position. -/
def TiedAll (R : Nat → Int → Int × GoSem.Err) (C : Nat → Bool) (m : Nat) : List Nat → List Src → Prop
  | [], [] => True
  | i :: ids, s :: rs => Tied R C m i s ∧ TiedAll R C m ids rs
  | _, _ => False

theorem TiedAll.length {R : Nat → Int → Int × GoSem.Err} {C : Nat → Bool} {m : Nat} :
    ∀ {ids : List Nat} {rs : List Src}, TiedAll R C m ids rs → ids.length = rs.length := by
  intro ids
  induction ids with
  | nil => intro rs h; cases rs with
    | nil => rfl
    | cons _ _ => simp [TiedAll] at h
  | cons i ids ih =>
    intro rs h
    cases rs with
    | nil => simp [TiedAll] at h
    | cons s rs => simp [ih h.2]

theorem tiedAll_of_getElem {R : Nat → Int → Int × GoSem.Err} {C : Nat → Bool} {m : Nat} :
    ∀ (ids : List Nat) (rs : List Src), ids.length = rs.length →
    (∀ j (h₁ : j < ids.length) (h₂ : j < rs.length), Tied R C m ids[j] rs[j]) →
    TiedAll R C m ids rs := by
  intro ids
  induction ids with
  | nil => intro rs hl _; cases rs with
    | nil => trivial
    | cons _ _ => simp at hl
  | cons a ids ih =>
    intro rs hl h
    cases rs with
    | nil => simp at hl
    | cons b rs =>
      refine ⟨h 0 (by simp) (by simp), ih rs (by simpa using hl) ?_⟩
      intro j h₁ h₂
      exact h (j + 1) (by simp; omega) (by simp; omega)

/-- `readSpec` over identifiers tied to scripted sources is the model's call. -/
theorem readSpec_eq_model (R : Nat → Int → Int × GoSem.Err) (C : Nat → Bool) (m : Nat) :
    ∀ (ids : List Nat) (rs : List Src), TiedAll R C m ids rs → ∀ cl,
      readSpec R C (m : Int) ids cl = modelMultiRead ids rs [] m cl := by
  intro ids
  induction ids with
  | nil =>
    intro rs h cl
    cases rs with
    | nil => simp [readSpec, modelMultiRead, Multi.readLoop, encErr, closedIds]
    | cons _ _ => simp [TiedAll] at h
  | cons i ids ih =>
    intro rs h cl
    cases rs with
    | nil => simp [TiedAll] at h
    | cons s rs =>
    obtain ⟨⟨hR, hC, h0⟩, htl⟩ := h
    have ih := ih rs htl
    have hlen : ids.length = rs.length := htl.length
    have hnil : (ids = []) = (rs = []) := by
      cases ids <;> cases rs <;> simp at hlen ⊢
    have hcl := read_closes s m
    have hcb := Src.read_closable s m
    simp only [readSpec, hR, srcRead, Int.toNat_natCast, hC, hnil]
    unfold modelMultiRead
    rw [Multi.readLoop_cons m s rs []]
    have ih' := ih
    unfold modelMultiRead at ih'
    simp only [List.length_nil, List.drop_zero] at ih' ⊢
    rcases hx : s.read m with ⟨s', d, e⟩
    simp only [hx] at hcl hcb ⊢
    simp only [encErr_eq_bodyClosed, encErr_eq_eof']
    have hdpos : ((d.length : Int) > 0) = (d ≠ []) := by
      cases d <;> simp <;> omega
    simp only [hdpos]
    by_cases hb : e = some .bodyClosed
    · subst hb
      simp only [↓reduceIte, reduceCtorEq, Option.some.injEq]
      by_cases hd : d ≠ []
      · by_cases hrs : rs = [] <;> simp [hd, hrs, encErr, closedIds, hcl, h0]
      · simp only [hd, ↓reduceIte]
        rw [readLoop_shift, ih' cl]
        simp [closedIds_cons, hcl, h0]
    · by_cases he : e = some .eof
      · subst he
        simp only [↓reduceIte, reduceCtorEq, Option.some.injEq]
        have hcc : 0 < s'.closeIfCloser.closes ↔ s.closable = true := by
          unfold Src.closeIfCloser Src.close
          rw [hcb]
          cases s.closable <;> simp [hcl, h0]
        by_cases hd : d ≠ []
        · by_cases hrs : rs = [] <;> cases hsc : s.closable <;>
            simp [hd, hrs, encErr, closedIds, hcc, hsc]
        · simp only [hd, ↓reduceIte]
          rw [readLoop_shift, ih']
          cases hsc : s.closable <;> simp [closedIds_cons, hcc, hsc]
      · simp only [hb, he, ↓reduceIte]
        simp [closedIds]

/-- **1 (general form). The translated `Read` is the model's `Multi.readLoop`**: any identifiers
`ids` tied position by position to not-yet-closed scripted sources `rs` (as far as reads with a
buffer of `len(p)` can tell), any `done` accumulator, any buffer `p` (no bound on `len(p)` is
needed; `len(p) = 0` included), any starting `closeLog`, fuel ≥ `len(rs) + 1`. -/
theorem multi_read_code_eq_model_gen (R_Read : Nat → Int → Int × GoSem.Err) (R_IsCloser : Nat → Bool)
    (ids : List Nat) (rs dn : List Src) (p : List UInt8) (closeLog : List Nat) (fuel : Nat)
    (htied : TiedAll R_Read R_IsCloser p.length ids rs) (hfuel : rs.length + 1 ≤ fuel) :
    MultiReaderCloser_Read fuel R_Read R_IsCloser ids p closeLog =
      .ok (modelMultiRead ids rs dn p.length closeLog) := by
  rw [multi_read_code_eq_spec fuel R_Read R_IsCloser ids p closeLog (by rw [htied.length]; exact hfuel),
    modelMultiRead_shift]
  exact congrArg _ (readSpec_eq_model R_Read R_IsCloser p.length ids rs htied closeLog)

/-- Out-of-table identifiers (never consulted) read like an exhausted, non-closer source. -/
def dfltSrc : Src :=
  { rest := [], script := [], withData := false, term := .eof, closable := false, closes := 0 }

/-- `R_Read` / `R_IsCloser` given by a table of scripted sources; identifier `b + j` is `srcs[j]`. -/
def tableRead (b : Nat) (srcs : List Src) : Nat → Int → Int × GoSem.Err :=
  fun i k => srcRead (srcs.getD (i - b) dfltSrc) k
def tableIsCloser (b : Nat) (srcs : List Src) : Nat → Bool :=
  fun i => (srcs.getD (i - b) dfltSrc).closable

theorem tiedAll_table (b : Nat) (srcs : List Src) (h0 : ∀ s ∈ srcs, s.closes = 0) (m : Nat) :
    TiedAll (tableRead b srcs) (tableIsCloser b srcs) m (List.range' b srcs.length) srcs := by
  apply tiedAll_of_getElem
  · simp
  · intro j h₁ h₂
    have hj : b + j - b = j := by omega
    simp only [Tied, tableRead, tableIsCloser, List.getElem_range', Nat.one_mul, hj,
      List.getD_eq_getElem?_getD, List.getElem?_eq_getElem h₂, Option.getD_some, true_and]
    exact h0 _ (List.getElem_mem h₂)

/-- The same with the identifiers `b, b+1, …` and any `done` accumulator. -/
theorem multi_read_code_eq_model_base (b : Nat) (srcs dn : List Src) (h0 : ∀ s ∈ srcs, s.closes = 0)
    (p : List UInt8) (closeLog : List Nat) (fuel : Nat) (hfuel : srcs.length + 1 ≤ fuel) :
    MultiReaderCloser_Read fuel (tableRead b srcs) (tableIsCloser b srcs)
        (List.range' b srcs.length) p closeLog =
      .ok (modelMultiRead (List.range' b srcs.length) srcs dn p.length closeLog) :=
  multi_read_code_eq_model_gen _ _ _ srcs dn p closeLog fuel (tiedAll_table b srcs h0 p.length) hfuel

/-- **1. The translated `MultiReaderCloser.Read` is the model's `Multi.read`.** Sources `srcs` (none
closed yet) known to the translated code as `0, 1, …, len-1`; any buffer `p` — no bound on
`len(p)` is needed, and for `len(p) = 0` both sides return `(0, nil)` without dropping a reader
(`(0, io.EOF)` if `srcs = []`); any starting `closeLog`; fuel ≥ `len(srcs) + 1`. With
`r := Multi.read (Multi.new srcs) len(p)` the translated function returns
  * `n   = len(r data)`,
  * `err = encErr (r error)`,
  * `mr.readers = [k, …, len-1]` for `k = len(r.done)`: the identifiers of `r.readers`
    (`multi_read_model_shape`: `k + len(r.readers) = len(srcs)`, and `r.readers` is `srcs.drop k`
    with only its first source advanced),
  * `closeLog ++` the identifiers `j < k` of the sources the model closed (`r.done[j].closes > 0`),
    in order. -/
theorem multi_read_code_eq_model (srcs : List Src) (h0 : ∀ s ∈ srcs, s.closes = 0)
    (p : List UInt8) (closeLog : List Nat) (fuel : Nat) (hfuel : srcs.length + 1 ≤ fuel) :
    MultiReaderCloser_Read fuel (tableRead 0 srcs) (tableIsCloser 0 srcs)
        (List.range srcs.length) p closeLog =
      .ok (((Multi.read (Multi.new srcs) p.length).2.1.length : Int),
           encErr (Multi.read (Multi.new srcs) p.length).2.2,
           (List.range srcs.length).drop (Multi.read (Multi.new srcs) p.length).1.done.length,
           closeLog ++ closedIds (List.range srcs.length) (Multi.read (Multi.new srcs) p.length).1.done) := by
  have h := multi_read_code_eq_model_base 0 srcs [] h0 p closeLog fuel hfuel
  rw [← List.range_eq_range'] at h
  rw [h]
  simp [modelMultiRead, Multi.read, Multi.new]

/-- What the identifiers in `multi_read_code_eq_model` denote on the model side. -/
theorem multi_read_model_shape (srcs : List Src) (m : Nat) :
    (Multi.read (Multi.new srcs) m).1.done.length + (Multi.read (Multi.new srcs) m).1.readers.length
      = srcs.length ∧
    (Multi.read (Multi.new srcs) m).1.readers.tail =
      (srcs.drop (Multi.read (Multi.new srcs) m).1.done.length).tail :=
  readLoop_shape m srcs

/-! ### 4. non-vacuity: the translated function itself, evaluated -/

/-- an exhausted closer: `Read` returns `(0, io.EOF)` -/
def exEmpty : Src :=
  { rest := [], script := [], withData := false, term := .eof, closable := true, closes := 0 }
/-- three bytes, then `(0, io.EOF)` on a later call -/
def exData : Src :=
  { rest := [7, 8, 9], script := [], withData := false, term := .eof, closable := true, closes := 0 }
/-- two bytes returned together with `io.EOF` -/
def exDataEOF : Src :=
  { rest := [1, 2], script := [], withData := true, term := .eof, closable := true, closes := 0 }
/-- a body already closed elsewhere: `(0, http.ErrBodyReadAfterClose)` -/
def exBody : Src :=
  { rest := [], script := [], withData := false, term := .bodyClosed, closable := true, closes := 0 }

/-- Two sources, the first ending with EOF and no data: it is closed and dropped, the same call goes
on to the second and returns its bytes. -/
example :
    MultiReaderCloser_Read 3 (tableRead 0 [exEmpty, exData]) (tableIsCloser 0 [exEmpty, exData])
      [0, 1] (List.replicate 4 0) [] = .ok (3, none, [1], [0]) := by decide +kernel

/-- …and the model side of `multi_read_code_eq_model` on the same input is that very value. -/
example :
    modelMultiRead [0, 1] [exEmpty, exData] [] 4 [] = (3, none, [1], [0]) := by decide +kernel

/-- A source returning data together with EOF as the last one: `(2, io.EOF)`, closed, dropped. -/
example :
    MultiReaderCloser_Read 2 (tableRead 0 [exDataEOF]) (tableIsCloser 0 [exDataEOF])
      [0] (List.replicate 4 0) [5] = .ok (2, some "io.EOF", [], [5, 0]) := by decide +kernel

/-- Data together with EOF from a source that is NOT the last: the EOF is swallowed. -/
example :
    MultiReaderCloser_Read 3 (tableRead 0 [exDataEOF, exData]) (tableIsCloser 0 [exDataEOF, exData])
      [0, 1] (List.replicate 4 0) [] = .ok (2, none, [1], [0]) := by decide +kernel

/-- `http.ErrBodyReadAfterClose` is treated as EOF but the body is not closed again; then the last
source's data-with-EOF ends the stream. -/
example :
    MultiReaderCloser_Read 3 (tableRead 0 [exBody, exDataEOF]) (tableIsCloser 0 [exBody, exDataEOF])
      [0, 1] (List.replicate 4 0) [] = .ok (2, some "io.EOF", [], [1]) := by decide +kernel

/-- Every source exhausted: all closed (once), `(0, io.EOF)`; the fuel bound `len + 1` is tight. -/
example :
    MultiReaderCloser_Read 3 (tableRead 0 [exEmpty, exBody]) (tableIsCloser 0 [exEmpty, exBody])
      [0, 1] (List.replicate 4 0) [] = .ok (0, some "io.EOF", [], [0]) ∧
    MultiReaderCloser_Read 2 (tableRead 0 [exEmpty, exBody]) (tableIsCloser 0 [exEmpty, exBody])
      [0, 1] (List.replicate 4 0) [] = .nofuel := by decide +kernel

/-- `len(p) = 0`: `(0, nil)`, nothing dropped, nothing closed. -/
example :
    MultiReaderCloser_Read 3 (tableRead 0 [exEmpty, exData]) (tableIsCloser 0 [exEmpty, exData])
      [0, 1] [] [] = .ok (0, none, [0, 1], []) := by decide +kernel

/-- The hypotheses of `multi_read_code_eq_model` are satisfiable, and `closes_each_at_most_once`
applies to a concrete run. -/
example : ∃ removed added, [0, 1] = removed ++ [1] ∧ [0] = [] ++ added ∧
    added.Sublist removed ∧ added.Nodup ∧ ∀ i ∈ added, i ∈ [0, 1] ∧ i ∉ [1] :=
  multi_read_code_closes_each_at_most_once 3 (tableRead 0 [exEmpty, exData])
    (tableIsCloser 0 [exEmpty, exData]) [0, 1] (List.replicate 4 0) [] 3 none [1] [0]
    (by decide) (by decide +kernel)

example :
    MultiReaderCloser_Read 3 (tableRead 0 [exEmpty, exData]) (tableIsCloser 0 [exEmpty, exData])
      (List.range 2) (List.replicate 4 0) [] = .ok (3, none, [1], [0]) :=
  (multi_read_code_eq_model [exEmpty, exData] (by decide) (List.replicate 4 0) [] 3 (by decide)).trans
    (by decide +kernel)

end Kit.Streams.Code
