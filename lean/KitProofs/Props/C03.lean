/-
Property C03 — crypto: every algorithm round-trips, interoperates and rejects tampering.
Theorems about the executable model `Kit.CryptoGlue` (model of /repo/crypto's glue code over
abstract primitives).  Helper lemmas: `KitProofs/Lemmas/CryptoGlue*.lean`.
-/
import KitProofs.Lemmas.CryptoGlueAead
namespace Kit.CryptoGlue
open Kit Kit.CryptoGlue.Facts

/-! ## 1. RFC 3394 key wrap -/

/-- `Unwrap` inverts `Wrap` for every block cipher with `D ∘ E = id` and every key data in the
accepted set (a whole number of 64-bit blocks, at least two). -/
theorem unwrap_wrap (bc : BlockCipher) (hL : bc.Lawful) (cek : Bytes)
    (h8 : cek.length % 8 = 0) (h16 : 16 ≤ cek.length) :
    ∃ w, wrap bc cek = .ok w ∧ w.length = cek.length + 8 ∧ unwrap bc w = .ok cek := by
  have hn : cek.length = 8 * (cek.length / 8) := by omega
  have hgood : GoodSt (iv3394, blocks8 (cek.length / 8) cek) :=
    ⟨iv3394_length, blocks8_regs _ _ (by omega)⟩
  obtain ⟨g1, g2, g3⟩ := wrapRounds_spec bc hL (cek.length / 8) kwRounds _ hgood
  simp only [blocks8_length] at g2
  have hfl := flatten_length_regs g1.2
  refine ⟨_, by unfold wrap; rw [if_neg (by omega), if_neg (by omega)], ?_, ?_⟩
  · simp [g1.1, hfl, g2]; omega
  · have hwl : ((wrapRounds bc.E (cek.length / 8) kwRounds (iv3394, blocks8 (cek.length / 8) cek)).1 ++
        (wrapRounds bc.E (cek.length / 8) kwRounds (iv3394, blocks8 (cek.length / 8) cek)).2.flatten).length
        = 8 + 8 * (cek.length / 8) := by simp [g1.1, hfl, g2]
    unfold unwrap unwrapState
    rw [if_neg (by rw [hwl]; omega), hwl]
    have e : (8 + 8 * (cek.length / 8)) / 8 - 1 = cek.length / 8 := by omega
    simp only [e]
    rw [List.take_left' g1.1, List.drop_left' g1.1]
    have hb := blocks8_flatten _ g1.2
    rw [g2] at hb
    rw [hb, g3]
    simp only [ne_eq, not_true_eq_false, if_false]
    rw [flatten_blocks8 _ _ hn]

example : ∃ w, wrap idCipher (List.replicate 16 7) = .ok w ∧ unwrap idCipher w = .ok (List.replicate 16 7) := by
  obtain ⟨w, h1, _, h2⟩ := unwrap_wrap idCipher idCipher_perm.toLawful (List.replicate 16 7) (by decide) (by decide)
  exact ⟨w, h1, h2⟩

/-- Key data outside RFC 3394's domain is refused by `Wrap`: an error, no output, for every cipher. -/
theorem wrap_rejects_bad_len (bc : BlockCipher) (cek : Bytes)
    (h : cek.length % 8 ≠ 0 ∨ cek.length < 16) : wrap bc cek = .err eKwSize := by
  unfold wrap
  by_cases h8 : cek.length % 8 ≠ 0
  · rw [if_pos h8]
  · rw [if_neg h8, if_pos (by omega)]

example : wrap idCipher [1, 2, 3, 4, 5, 6, 7, 8] = .err eKwSize :=
  wrap_rejects_bad_len _ _ (Or.inr (by decide))

/-- An input that no `Wrap` can have produced (shorter than 24 bytes, or not a whole number of
64-bit blocks — e.g. a valid wrapped key followed by 1–7 extra bytes) is rejected with an error:
no panic, no output, whatever the cipher. -/
theorem unwrap_rejects_bad_len (bc : BlockCipher) (c : Bytes)
    (h : c.length < 24 ∨ c.length % 8 ≠ 0) : unwrap bc c = .err eKwSize := by
  unfold unwrap; rw [if_pos h]

example : unwrap idCipher (List.replicate 25 0) = .err eKwSize :=
  unwrap_rejects_bad_len _ _ (Or.inr (by decide))

/-- `Unwrap` never panics. -/
theorem unwrap_never_panics (bc : BlockCipher) (c : Bytes) : (unwrap bc c).isPanic = false := by
  unfold unwrap; split
  · rfl
  · simp only; split <;> rfl

/-- Structural tamper rejection: whenever the integrity register recovered from the presented
bytes is not the RFC 3394 IV, `Unwrap` returns an error and no output.  (That a *changed*
wrapped key recovers a different register is the strength of the cipher and is not claimed:
this is the explicit no-forgery hypothesis.) -/
theorem unwrap_rejects_modified_partial (bc : BlockCipher) (c' : Bytes)
    (hNoForgery : (unwrapState bc c').1 ≠ iv3394) :
    unwrap bc c' = .err eKwSize ∨ unwrap bc c' = .err eKwIntegrity := by
  unfold unwrap
  by_cases h : c'.length < 24 ∨ c'.length % 8 ≠ 0
  · left; rw [if_pos h]
  · right; rw [if_neg h]; simp only [hNoForgery, ne_eq, not_false_eq_true, if_true]

example : (unwrapState idCipher (List.replicate 24 0)).1 ≠ iv3394 := by decide

/-- For a cipher that is a permutation, everything `Unwrap` accepts is exactly the `Wrap` of
what it returns: the accepted set is the image of `Wrap`. -/
theorem unwrap_accepts_only_wrap (bc : BlockCipher) (hP : bc.Perm) (c p : Bytes)
    (h : unwrap bc c = .ok p) : wrap bc p = .ok c := by
  unfold unwrap at h
  by_cases hlen : c.length < 24 ∨ c.length % 8 ≠ 0
  · rw [if_pos hlen] at h; cases h
  · rw [if_neg hlen] at h
    by_cases hiv : (unwrapState bc c).1 ≠ iv3394
    · simp only [hiv, ne_eq, not_false_eq_true, if_true] at h; cases h
    · simp only [hiv, if_false] at h
      injection h with h
      have hiv' : (unwrapState bc c).1 = iv3394 := by simpa using hiv
      have hc8 : c.length = 8 + 8 * (c.length / 8 - 1) := by omega
      have hgood : GoodSt (c.take 8, blocks8 (c.length / 8 - 1) (c.drop 8)) :=
        ⟨by simp; omega, blocks8_regs _ _ (by simp; omega)⟩
      obtain ⟨g1, g2, g3⟩ := unwrapRounds_spec bc hP (c.length / 8 - 1) kwRounds _ hgood
      simp only [blocks8_length] at g2
      have hfl := flatten_length_regs g1.2
      have hst : unwrapState bc c =
          unwrapRounds bc.D (c.length / 8 - 1) kwRounds (c.take 8, blocks8 (c.length / 8 - 1) (c.drop 8)) := rfl
      rw [← hst] at g1 g2 g3 hfl
      have hpl : p.length = 8 * (c.length / 8 - 1) := by rw [← h, hfl, g2]
      unfold wrap
      rw [if_neg (by omega), if_neg (by omega)]
      have hn : p.length / 8 = c.length / 8 - 1 := by omega
      have hb := blocks8_flatten _ g1.2
      rw [g2, h] at hb
      simp only [hn, hb]
      have hst2 : (iv3394, (unwrapState bc c).2) = unwrapState bc c := by
        rw [← hiv']
      rw [hst2, g3]
      simp only
      rw [flatten_blocks8 _ _ (by simp; omega), List.take_append_drop]

/-- Hence no two different inputs unwrap to the same key: a changed wrapped key is never silently
accepted as the original (the behaviour the unchanged code had for trailing bytes). -/
theorem unwrap_injective (bc : BlockCipher) (hP : bc.Perm) (c₁ c₂ p : Bytes)
    (h₁ : unwrap bc c₁ = .ok p) (h₂ : unwrap bc c₂ = .ok p) : c₁ = c₂ := by
  have e₁ := unwrap_accepts_only_wrap bc hP c₁ p h₁
  have e₂ := unwrap_accepts_only_wrap bc hP c₂ p h₂
  rw [e₁] at e₂; injection e₂

/-- Witness for the finding on the unchanged tree: the `Unwrap` without a length check accepts a
valid wrapped key followed by an extra byte and returns the same key; `unwrap` (the fixed code)
rejects it. -/
theorem unwrap_prefix_witness :
    ∃ (w : Bytes) (extra : Bytes), extra ≠ [] ∧ wrap idCipher (List.replicate 16 7) = .ok w ∧
      unwrapPreFix idCipher w = .ok (List.replicate 16 7) ∧
      unwrapPreFix idCipher (w ++ extra) = .ok (List.replicate 16 7) ∧
      (unwrapPreFix idCipher [1, 2, 3]).isPanic = true ∧
      unwrap idCipher (w ++ extra) = .err eKwSize := by
  refine ⟨witnessWrapped, [0], by decide, ?_, ?_, ?_, ?_, ?_⟩ <;> decide

/-! ## 2. PKCS#7 -/

/-- `UnpadPKCS7 ∘ PadPKCS7 = id` for every valid block size. -/
theorem unpad_pad (buf : Bytes) (size : Nat) (h1 : 1 < size) (h2 : size < 256) :
    ∃ p, pad buf size = .ok p ∧ unpad p size = .ok buf := by
  refine ⟨_, pad_eq buf size h1 h2, ?_⟩
  have hm : buf.length % size < size := Nat.mod_lt _ (by omega)
  exact unpad_of_shape buf _ size h1 h2 (by omega) (by omega) (padLen_mod _ _ (by omega))

example : ∃ p, pad [1, 2, 3] 16 = .ok p ∧ unpad p 16 = .ok [1, 2, 3] := unpad_pad _ _ (by decide) (by decide)

/-- Padding adds between 1 and `size` bytes and makes the length a multiple of `size`. -/
theorem pad_len (buf p : Bytes) (size : Nat) (h1 : 1 < size) (h2 : size < 256)
    (h : pad buf size = .ok p) :
    p.length = buf.length + (size - buf.length % size) ∧ p.length % size = 0 ∧
      buf.length < p.length ∧ p.length ≤ buf.length + size := by
  rw [pad_eq buf size h1 h2] at h
  injection h with h
  have hm : buf.length % size < size := Nat.mod_lt _ (by omega)
  subst h
  refine ⟨by simp, ?_, by simp; omega, by simp⟩
  simp only [List.length_append, List.length_replicate]
  exact padLen_mod _ _ (by omega)

example : ∃ p, pad (List.replicate 16 0) 16 = .ok p ∧ p.length = 32 := ⟨_, rfl, rfl⟩

/-- Exact acceptance set of `UnpadPKCS7`: a non-empty buffer is accepted iff it is whole blocks
ending in `k` bytes of value `k`, `1 ≤ k ≤ size`, and then exactly those bytes are removed. -/
theorem unpad_accepts_iff (buf out : Bytes) (size : Nat) (h1 : 1 < size) (h2 : size < 256)
    (hne : buf ≠ []) :
    unpad buf size = .ok out ↔
      ∃ k, 1 ≤ k ∧ k ≤ size ∧ buf.length % size = 0 ∧ buf = out ++ List.replicate k (UInt8.ofNat k) := by
  constructor
  · exact shape_of_unpad buf out size hne
  · rintro ⟨k, hk1, hk2, hm, rfl⟩
    exact unpad_of_shape out k size h1 h2 hk1 hk2 (by simpa using hm)

/-- Every non-empty buffer whose tail is not PKCS#7 padding (or that is not whole blocks) is
rejected with the padding error — no output.  (The empty buffer is returned unchanged; that is
the code's documented special case and is part of the model.) -/
theorem unpad_rejects (buf : Bytes) (size : Nat) (h1 : 1 < size) (h2 : size < 256) (hne : buf ≠ [])
    (hbad : buf.length % size ≠ 0 ∨
      ¬ ∃ out k, 1 ≤ k ∧ k ≤ size ∧ buf = out ++ List.replicate k (UInt8.ofNat k)) :
    unpad buf size = .err ePkcs7 := by
  have hno : ∀ out, unpad buf size ≠ .ok out := by
    intro out h
    obtain ⟨k, hk1, hk2, hm, he⟩ := (unpad_accepts_iff buf out size h1 h2 hne).mp h
    rcases hbad with hb | hb
    · exact hb hm
    · exact hb ⟨out, k, hk1, hk2, he⟩
  have hlen : buf.length ≠ 0 := fun h0 => hne (List.eq_nil_of_length_eq_zero h0)
  unfold unpad at hno ⊢
  rw [if_neg (by omega), if_neg hlen] at hno ⊢
  split
  · rfl
  · rename_i hmod
    rw [if_neg hmod] at hno
    simp only at hno ⊢
    split
    · rfl
    · rename_i hk
      rw [if_neg hk] at hno
      split
      · rename_i hall
        rw [if_pos hall] at hno
        exact absurd rfl (hno _)
      · rfl

example : unpad [1, 2, 3, 4, 5, 6, 7, 9] 8 = .err ePkcs7 := by decide
example : unpad (List.replicate 16 0) 16 = .err ePkcs7 := by decide

/-! ## 3. AES-CBC-HMAC-SHA2 (RFC 7518 §5.2) -/

/-- `Open ∘ Seal = id`, for every lawful block cipher and every MAC whose output is at least the
tag size; output length = padded plaintext + tag. -/
theorem cbc_hmac_open_seal (P : Prims) (p : AeadParams) (key iv pt ad : Bytes)
    (hL : (P.aes (encKeyOf p key)).Lawful) (hm : MacLongEnough P p) (hiv : iv.length = 16) :
    ∃ out, cbcHmacSeal P p key iv pt ad = .ok out ∧
      out.length = 16 * (pt.length / 16 + 1) + p.tagSize ∧
      cbcHmacOpen P p key iv out ad = .ok pt :=
  cbcHmacOpen_seal P p key iv pt ad hL hm hiv

/-- RFC 7518 key split: `MAC_KEY` is the first half, `ENC_KEY` the second half — as a fact about
the generated constructor parameters: for every constructor the two halves partition the key. -/
theorem cbc_hmac_key_split :
    ∀ p ∈ Generated.C03.aescbcaeadParams, ∀ key : Bytes, key.length = p.encKeySize + p.macKeySize →
      macKeyOf p key ++ encKeyOf p key = key ∧ (macKeyOf p key).length = p.macKeySize ∧
      (encKeyOf p key).length = p.encKeySize := by
  intro p _ key hk
  have e : key.length - p.encKeySize = p.macKeySize := by omega
  refine ⟨?_, ?_, ?_⟩
  · simp [macKeyOf, encKeyOf, e]
  · simp [macKeyOf]; omega
  · simp [encKeyOf]; omega

/-- The tag is checked first: if the presented tag is not the recomputed one the result is the
authentication error — whatever the block cipher would decrypt, whatever the padding looks like
(no padding oracle), and nothing is output. -/
theorem cbc_hmac_tag_first (P : Prims) (p : AeadParams) (key iv c ad : Bytes)
    (hlen : p.tagSize ≤ c.length)
    (hbad : c.drop (c.length - p.tagSize) ≠
      cbcHmacTag P p key ad iv (c.take (c.length - p.tagSize))) :
    cbcHmacOpen P p key iv c ad = .err eAuth := by
  unfold cbcHmacOpen
  rw [if_neg (by omega)]
  simp only [hbad, ne_eq, not_false_eq_true, if_true]

/-- Conversely a padding error (or a plaintext) can only be observed on an input whose tag verifies. -/
theorem cbc_hmac_padding_error_needs_valid_tag (P : Prims) (p : AeadParams) (key iv c ad : Bytes)
    (h : cbcHmacOpen P p key iv c ad = .err ePkcs7 ∨ ∃ pt, cbcHmacOpen P p key iv c ad = .ok pt) :
    p.tagSize ≤ c.length ∧
      c.drop (c.length - p.tagSize) = cbcHmacTag P p key ad iv (c.take (c.length - p.tagSize)) := by
  unfold cbcHmacOpen at h
  by_cases hl : c.length < p.tagSize
  · rw [if_pos hl] at h
    rcases h with h | ⟨_, h⟩
    · exact absurd h (by decide)
    · cases h
  · rw [if_neg hl] at h
    by_cases ht : c.drop (c.length - p.tagSize) = cbcHmacTag P p key ad iv (c.take (c.length - p.tagSize))
    · exact ⟨by omega, ht⟩
    · simp only [ht, ne_eq, not_false_eq_true, if_true] at h
      rcases h with h | ⟨_, h⟩
      · exact absurd h (by decide)
      · cases h

/-- Tamper rejection under an explicit no-forgery hypothesis about the concrete presented input:
if `(ad', iv', c')` differs from what `Seal` produced and the adversary's tag is not the right
one for a *different* (ad, iv, body) triple, `Open` returns an error and no output. -/
theorem cbc_hmac_tamper_partial (P : Prims) (p : AeadParams) (key iv pt ad ct : Bytes)
    (hseal : cbcHmacSeal P p key iv pt ad = .ok (ct ++ cbcHmacTag P p key ad iv ct))
    (ad' iv' c' : Bytes)
    (hchanged : (ad', iv', c') ≠ (ad, iv, ct ++ cbcHmacTag P p key ad iv ct))
    (hNoForgery : (ad', iv', c'.take (c'.length - p.tagSize)) ≠ (ad, iv, ct) →
      c'.drop (c'.length - p.tagSize) ≠ cbcHmacTag P p key ad' iv' (c'.take (c'.length - p.tagSize))) :
    cbcHmacOpen P p key iv' c' ad' = .err eAuth ∨ cbcHmacOpen P p key iv' c' ad' = .err eAeadSize := by
  by_cases hl : c'.length < p.tagSize
  · right; unfold cbcHmacOpen; rw [if_pos hl]
  · left
    apply cbc_hmac_tag_first P p key iv' c' ad' (by omega)
    by_cases hsame : (ad', iv', c'.take (c'.length - p.tagSize)) = (ad, iv, ct)
    · intro htag
      apply hchanged
      injection hsame with h1 h2
      injection h2 with h2 h3
      subst h1 h2
      rw [h3] at htag
      have hc : c' = ct ++ cbcHmacTag P p key ad' iv' ct := by
        have := List.take_append_drop (c'.length - p.tagSize) c'
        rw [h3, htag] at this
        exact this.symm
      rw [hc]
    · exact hNoForgery hsame

/-! ## 4. the AEAD helpers: split into ciphertext ‖ tag and re-join -/

/-- For every lawful AEAD: `decryptSymmetricAEAD (encryptSymmetricAEAD p) = p`; the tag is the
last `Overhead()` bytes of `Seal`'s output and the ciphertext the rest. -/
theorem aead_split_join (a : AEAD) (hA : a.Lawful) (pt nonce ad : Bytes)
    (hn : nonce.length = a.nonceSize) :
    ∃ ct tag, encryptAEAD a pt nonce ad = .ok (ct, tag) ∧ tag.length = a.overhead ∧
      a.doSeal nonce pt ad = .ok (ct ++ tag) ∧ decryptAEAD a ct nonce tag ad = .ok pt := by
  obtain ⟨out, hs, hov, ho⟩ := hA.roundtrip nonce pt ad hn
  refine ⟨out.take (out.length - a.overhead), out.drop (out.length - a.overhead), ?_, ?_, ?_, ?_⟩
  · rw [encryptAEAD_eq, if_neg (by omega), hs]
    simp only
    rw [if_neg (by omega)]
  · simp; omega
  · rw [List.take_append_drop]; exact hs
  · rw [decryptAEAD_eq, if_neg (by omega), if_neg (by simp; omega), List.take_append_drop]
    exact ho

/-- For the stdlib AEADs (exactly `Overhead()` extra bytes) the ciphertext is as long as the plaintext. -/
theorem aead_split_lengths (a : AEAD) (hE : a.Exact) (pt nonce ad ct tag : Bytes)
    (h : encryptAEAD a pt nonce ad = .ok (ct, tag)) :
    ct.length = pt.length ∧ tag.length = a.overhead := by
  rw [encryptAEAD_eq] at h
  split at h
  · cases h
  · split at h
    · rename_i out hs
      have hl := hE nonce pt ad out hs
      split at h
      · cases h
      · injection h with h; injection h with h1 h2
        subst h1 h2
        simp; omega
    · cases h
    · cases h

/-- The model's own CBC-HMAC construction satisfies the abstract AEAD law, so the hypotheses of
`aead_split_join` are satisfiable by the very functions the driver runs. -/
theorem cbcHmacAEAD_lawful (P : Prims) (p : AeadParams) (key : Bytes)
    (hL : (P.aes (encKeyOf p key)).Lawful) (hm : MacLongEnough P p) :
    (cbcHmacAEAD P p key).Lawful := by
  refine ⟨fun nonce pt ad hn => ?_⟩
  obtain ⟨out, h1, h2, h3⟩ := cbcHmacOpen_seal P p key nonce pt ad hL hm hn
  exact ⟨out, h1, by simp [cbcHmacAEAD]; omega, h3⟩

end Kit.CryptoGlue
