/-
Property C03 — crypto: every algorithm round-trips, interoperates and rejects tampering.
Theorems about the executable model `Kit.CryptoGlue` (model of /repo/crypto's glue code over
abstract primitives).  Helper lemmas: `KitProofs/Lemmas/CryptoGlue*.lean`.
-/
import KitProofs.Lemmas.CryptoGlueNF
import KitProofs.Lemmas.CryptoGlueKWSpec
import KitProofs.Lemmas.CryptoLaws
import KitProofs.Lemmas.CryptoGlueRsa
import KitProofs.Lemmas.CryptoGlueMore
namespace Kit.CryptoGlue
open Kit Kit.CryptoGlue.Facts

/-! ## 1. RFC 3394 key wrap -/

/-- `Unwrap` inverts `Wrap` for every block cipher with `D ∘ E = id` and every key data in the
accepted set (a whole number of 64-bit blocks, at least two). -/
theorem unwrap_wrap (bc : BlockCipher) (hL : bc.Lawful) (cek : Bytes)
    (h8 : cek.length % 8 = 0) (h16 : 16 ≤ cek.length) :
    ∃ w, wrap bc cek = .ok w ∧ w.length = cek.length + 8 ∧ unwrap bc w = .ok cek := by
  have hn : cek.length = 8 * (cek.length / 8) := by omega
  have hgood : GoodSt (iv3394, blocks8 (cek.length / 8) cek) :=
    ⟨iv3394_length, blocks8_regs _ _ (by omega)⟩
  obtain ⟨g1, g2, g3⟩ := wrapRounds_spec bc hL (cek.length / 8) kwRounds _ hgood
  simp only [blocks8_length] at g2
  have hfl := flatten_length_regs g1.2
  refine ⟨_, by unfold wrap; rw [if_neg (by omega), if_neg (by omega)], ?_, ?_⟩
  · simp [g1.1, hfl, g2]; omega
  · have hwl : ((wrapRounds bc.E (cek.length / 8) kwRounds (iv3394, blocks8 (cek.length / 8) cek)).1 ++
        (wrapRounds bc.E (cek.length / 8) kwRounds (iv3394, blocks8 (cek.length / 8) cek)).2.flatten).length
        = 8 + 8 * (cek.length / 8) := by simp [g1.1, hfl, g2]
    unfold unwrap unwrapState
    rw [if_neg (by rw [hwl]; omega), hwl]
    have e : (8 + 8 * (cek.length / 8)) / 8 - 1 = cek.length / 8 := by omega
    simp only [e]
    rw [List.take_left' g1.1, List.drop_left' g1.1]
    have hb := blocks8_flatten _ g1.2
    rw [g2] at hb
    rw [hb, g3]
    simp only [ne_eq, not_true_eq_false, if_false]
    rw [flatten_blocks8 _ _ hn]

example : ∃ w, wrap idCipher (List.replicate 16 7) = .ok w ∧ unwrap idCipher w = .ok (List.replicate 16 7) := by
  obtain ⟨w, h1, _, h2⟩ := unwrap_wrap idCipher idCipher_perm.toLawful (List.replicate 16 7) (by decide) (by decide)
  exact ⟨w, h1, h2⟩

/-- Key data outside RFC 3394's domain is refused by `Wrap`: an error, no output, for every cipher. -/
theorem wrap_rejects_bad_len (bc : BlockCipher) (cek : Bytes)
    (h : cek.length % 8 ≠ 0 ∨ cek.length < 16) : wrap bc cek = .err eKwSize := by
  unfold wrap
  by_cases h8 : cek.length % 8 ≠ 0
  · rw [if_pos h8]
  · rw [if_neg h8, if_pos (by omega)]

example : wrap idCipher [1, 2, 3, 4, 5, 6, 7, 8] = .err eKwSize :=
  wrap_rejects_bad_len _ _ (Or.inr (by decide))

/-- An input that no `Wrap` can have produced (shorter than 24 bytes, or not a whole number of
64-bit blocks — e.g. a valid wrapped key followed by 1–7 extra bytes) is rejected with an error:
no panic, no output, whatever the cipher. -/
theorem unwrap_rejects_bad_len (bc : BlockCipher) (c : Bytes)
    (h : c.length < 24 ∨ c.length % 8 ≠ 0) : unwrap bc c = .err eKwSize := by
  unfold unwrap; rw [if_pos h]

example : unwrap idCipher (List.replicate 25 0) = .err eKwSize :=
  unwrap_rejects_bad_len _ _ (Or.inr (by decide))

/-- `Unwrap` never panics. -/
theorem unwrap_never_panics (bc : BlockCipher) (c : Bytes) : (unwrap bc c).isPanic = false := by
  unfold unwrap; split
  · rfl
  · simp only; split <;> rfl

/-- Structural tamper rejection: whenever the integrity register recovered from the presented
bytes is not the RFC 3394 IV, `Unwrap` returns an error and no output.  (That a *changed*
wrapped key recovers a different register is the strength of the cipher and is not claimed:
this is the explicit no-forgery hypothesis.) -/
theorem unwrap_rejects_modified_partial (bc : BlockCipher) (c' : Bytes)
    (hNoForgery : (unwrapState bc c').1 ≠ iv3394) :
    unwrap bc c' = .err eKwSize ∨ unwrap bc c' = .err eKwIntegrity := by
  unfold unwrap
  by_cases h : c'.length < 24 ∨ c'.length % 8 ≠ 0
  · left; rw [if_pos h]
  · right; rw [if_neg h]; simp only [hNoForgery, ne_eq, not_false_eq_true, if_true]

example : (unwrapState idCipher (List.replicate 24 0)).1 ≠ iv3394 := by decide

/-- For a cipher that is a permutation, everything `Unwrap` accepts is exactly the `Wrap` of
what it returns: the accepted set is the image of `Wrap`. -/
theorem unwrap_accepts_only_wrap (bc : BlockCipher) (hP : bc.Perm) (c p : Bytes)
    (h : unwrap bc c = .ok p) : wrap bc p = .ok c := by
  unfold unwrap at h
  by_cases hlen : c.length < 24 ∨ c.length % 8 ≠ 0
  · rw [if_pos hlen] at h; cases h
  · rw [if_neg hlen] at h
    by_cases hiv : (unwrapState bc c).1 ≠ iv3394
    · simp only [hiv, ne_eq, not_false_eq_true, if_true] at h; cases h
    · simp only [hiv, if_false] at h
      injection h with h
      have hiv' : (unwrapState bc c).1 = iv3394 := by simpa using hiv
      have hc8 : c.length = 8 + 8 * (c.length / 8 - 1) := by omega
      have hgood : GoodSt (c.take 8, blocks8 (c.length / 8 - 1) (c.drop 8)) :=
        ⟨by simp; omega, blocks8_regs _ _ (by simp; omega)⟩
      obtain ⟨g1, g2, g3⟩ := unwrapRounds_spec bc hP (c.length / 8 - 1) kwRounds _ hgood
      simp only [blocks8_length] at g2
      have hfl := flatten_length_regs g1.2
      have hst : unwrapState bc c =
          unwrapRounds bc.D (c.length / 8 - 1) kwRounds (c.take 8, blocks8 (c.length / 8 - 1) (c.drop 8)) := rfl
      rw [← hst] at g1 g2 g3 hfl
      have hpl : p.length = 8 * (c.length / 8 - 1) := by rw [← h, hfl, g2]
      unfold wrap
      rw [if_neg (by omega), if_neg (by omega)]
      have hn : p.length / 8 = c.length / 8 - 1 := by omega
      have hb := blocks8_flatten _ g1.2
      rw [g2, h] at hb
      simp only [hn, hb]
      have hst2 : (iv3394, (unwrapState bc c).2) = unwrapState bc c := by
        rw [← hiv']
      rw [hst2, g3]
      simp only
      rw [flatten_blocks8 _ _ (by simp; omega), List.take_append_drop]

/-- Hence no two different inputs unwrap to the same key: a changed wrapped key is never silently
accepted as the original (the behaviour the unchanged code had for trailing bytes). -/
theorem unwrap_injective (bc : BlockCipher) (hP : bc.Perm) (c₁ c₂ p : Bytes)
    (h₁ : unwrap bc c₁ = .ok p) (h₂ : unwrap bc c₂ = .ok p) : c₁ = c₂ := by
  have e₁ := unwrap_accepts_only_wrap bc hP c₁ p h₁
  have e₂ := unwrap_accepts_only_wrap bc hP c₂ p h₂
  rw [e₁] at e₂; injection e₂

/-- Witness for the finding on the unchanged tree: the `Unwrap` without a length check accepts a
valid wrapped key followed by an extra byte and returns the same key; `unwrap` (the fixed code)
rejects it. -/
theorem unwrap_prefix_witness :
    ∃ (w : Bytes) (extra : Bytes), extra ≠ [] ∧ wrap idCipher (List.replicate 16 7) = .ok w ∧
      unwrapPreFix idCipher w = .ok (List.replicate 16 7) ∧
      unwrapPreFix idCipher (w ++ extra) = .ok (List.replicate 16 7) ∧
      (unwrapPreFix idCipher [1, 2, 3]).isPanic = true ∧
      unwrap idCipher (w ++ extra) = .err eKwSize := by
  refine ⟨witnessWrapped, [0], by decide, ?_, ?_, ?_, ?_, ?_⟩ <;> decide

/-! ### the model of `Wrap` is RFC 3394 -/

/-- The counter xor-ed into `A` is all 64 bits of `t = n·j+i`, big-endian: the model's `be64 t` is
the `be64Bytes` of the 64-bit word `t` of the RFC-shaped specification, and its value as a
big-endian number is `t mod 2^64` (a counter folded into its low byte would fail both). -/
theorem wrap_counter_full_width (t : Nat) :
    be64 t = Kit.Crypto.be64Bytes t.toUInt64 ∧ fromBe64 (be64 t) = t % 18446744073709551616 ∧
    (be64 t).length = 8 :=
  ⟨(be64Bytes_eq t).symm, fromBe64_be64 t, rfl⟩

example : be64 (43 * 5 + 43) ≠ be64 ((43 * 5 + 43) % 256) := by decide

/-- No narrower encoding of the step counter is RFC 3394: for every counter value `t` below 2^64
and EVERY width `w` (in bytes) that `t` does not fit into, the eight bytes xor-ed into `A` differ
from those of `t` truncated to `w` bytes (`PutUint8/16/32…` into the low-order bytes of a zeroed
buffer).  With `wrap_is_rfc3394` / `wrap_code_eq_model` this is why a truncated counter cannot
satisfy the theorems at any length whose `6·n` exceeds the width. -/
theorem wrap_counter_not_truncated (t w : Nat) (ht : t < 18446744073709551616)
    (hw : 256 ^ w ≤ t) : be64 t ≠ be64 (t % 256 ^ w) := by
  intro h
  have h1 := fromBe64_be64 t
  have h2 := fromBe64_be64 (t % 256 ^ w)
  rw [h, h2] at h1
  have hpos : 0 < 256 ^ w := Nat.pow_pos (by decide)
  have hlt : t % 256 ^ w < 256 ^ w := Nat.mod_lt _ hpos
  generalize 256 ^ w = m at *
  rw [Nat.mod_eq_of_lt ht, Nat.mod_eq_of_lt (by omega)] at h1
  omega

/-- The block counts at which the last counter value `6·n` first needs 2, 3, 4 bytes — the sizes the
harness family `kwcounter` is built around (43, 10923, 2796203 blocks) — and the reason the fifth
byte is out of reach of an execution: it needs at least 5 726 623 064 bytes of key data. -/
theorem wrap_counter_boundaries :
    (6 * 42 < 256 ^ 1 ∧ 256 ^ 1 ≤ 6 * 43) ∧ (6 * 10922 < 256 ^ 2 ∧ 256 ^ 2 ≤ 6 * 10923) ∧
    (6 * 2796202 < 256 ^ 3 ∧ 256 ^ 3 ≤ 6 * 2796203) ∧
    (∀ n, 256 ^ 4 ≤ 6 * n → 5726623064 ≤ 8 * n) := by
  refine ⟨by decide, by decide, by decide, ?_⟩
  intro n h
  omega

example : be64 (10923 * 5 + 10923) ≠ be64 ((10923 * 5 + 10923) % 256 ^ 2) :=
  wrap_counter_not_truncated _ 2 (by decide) (by decide)
example : be64 (2796203 * 5 + 2796203) ≠ be64 ((2796203 * 5 + 2796203) % 256 ^ 3) :=
  wrap_counter_not_truncated _ 3 (by decide) (by decide)

/-- For EVERY block function and every key data in the accepted set (any length, so also the
lengths where the step counter exceeds one or two bytes) the Go-shaped model `wrap` computes
exactly RFC 3394 §2.2.1 as written index by index in `Kit.Crypto.kwWrapWith`
(`A = MSB64(B) ⊕ t`, `t = n·j+i`, steps `1 … 6n`).  T2 ties the real `aeskw.Wrap` to this model. -/
theorem wrap_is_rfc3394 (bc : BlockCipher) (cek : Bytes) (h8 : cek.length % 8 = 0)
    (h16 : 16 ≤ cek.length) : wrap bc cek = .ok (Kit.Crypto.kwWrapWith bc.E cek) :=
  wrap_eq_kwWrapWith bc cek h8 h16

/-- … and whatever the model's `unwrap` accepts, the RFC-shaped `kwUnwrapWith` accepts with the
same result (for a permutation cipher). -/
theorem unwrap_agrees_with_rfc3394 (bc : BlockCipher) (hP : bc.Perm) (c p : Bytes)
    (h : unwrap bc c = .ok p) : Kit.Crypto.kwUnwrapWith bc.D c = some p := by
  have hw := unwrap_accepts_only_wrap bc hP c p h
  -- the accepted p is in wrap's domain
  have hdom : p.length % 8 = 0 ∧ 16 ≤ p.length := by
    unfold wrap at hw
    by_cases h8 : p.length % 8 ≠ 0
    · rw [if_pos h8] at hw; cases hw
    · by_cases h16 : p.length < 16
      · rw [if_neg h8, if_pos h16] at hw; cases hw
      · exact ⟨by omega, by omega⟩
  rw [wrap_eq_kwWrapWith bc p hdom.1 hdom.2] at hw
  injection hw with hw
  rw [← hw]
  exact Kit.Crypto.kwUnwrapWith_kwWrapWith bc.E bc.D hP.lenE hP.DE p hdom.1 hdom.2

/-! ## 2. PKCS#7 -/

/-- `UnpadPKCS7 ∘ PadPKCS7 = id` for every valid block size. -/
theorem unpad_pad (buf : Bytes) (size : Nat) (h1 : 1 < size) (h2 : size < 256) :
    ∃ p, pad buf size = .ok p ∧ unpad p size = .ok buf := by
  refine ⟨_, pad_eq buf size h1 h2, ?_⟩
  have hm : buf.length % size < size := Nat.mod_lt _ (by omega)
  exact unpad_of_shape buf _ size h1 h2 (by omega) (by omega) (padLen_mod _ _ (by omega))

example : ∃ p, pad [1, 2, 3] 16 = .ok p ∧ unpad p 16 = .ok [1, 2, 3] := unpad_pad _ _ (by decide) (by decide)

/-- Padding adds between 1 and `size` bytes and makes the length a multiple of `size`. -/
theorem pad_len (buf p : Bytes) (size : Nat) (h1 : 1 < size) (h2 : size < 256)
    (h : pad buf size = .ok p) :
    p.length = buf.length + (size - buf.length % size) ∧ p.length % size = 0 ∧
      buf.length < p.length ∧ p.length ≤ buf.length + size := by
  rw [pad_eq buf size h1 h2] at h
  injection h with h
  have hm : buf.length % size < size := Nat.mod_lt _ (by omega)
  subst h
  refine ⟨by simp, ?_, by simp; omega, by simp⟩
  simp only [List.length_append, List.length_replicate]
  exact padLen_mod _ _ (by omega)

example : ∃ p, pad (List.replicate 16 0) 16 = .ok p ∧ p.length = 32 := ⟨_, rfl, rfl⟩

/-- Exact acceptance set of `UnpadPKCS7`: a non-empty buffer is accepted iff it is whole blocks
ending in `k` bytes of value `k`, `1 ≤ k ≤ size`, and then exactly those bytes are removed. -/
theorem unpad_accepts_iff (buf out : Bytes) (size : Nat) (h1 : 1 < size) (h2 : size < 256)
    (hne : buf ≠ []) :
    unpad buf size = .ok out ↔
      ∃ k, 1 ≤ k ∧ k ≤ size ∧ buf.length % size = 0 ∧ buf = out ++ List.replicate k (UInt8.ofNat k) := by
  constructor
  · exact shape_of_unpad buf out size hne
  · rintro ⟨k, hk1, hk2, hm, rfl⟩
    exact unpad_of_shape out k size h1 h2 hk1 hk2 (by simpa using hm)

/-- Every non-empty buffer whose tail is not PKCS#7 padding (or that is not whole blocks) is
rejected with the padding error — no output.  (The empty buffer is returned unchanged; that is
the code's documented special case and is part of the model.) -/
theorem unpad_rejects (buf : Bytes) (size : Nat) (h1 : 1 < size) (h2 : size < 256) (hne : buf ≠ [])
    (hbad : buf.length % size ≠ 0 ∨
      ¬ ∃ out k, 1 ≤ k ∧ k ≤ size ∧ buf = out ++ List.replicate k (UInt8.ofNat k)) :
    unpad buf size = .err ePkcs7 := by
  have hno : ∀ out, unpad buf size ≠ .ok out := by
    intro out h
    obtain ⟨k, hk1, hk2, hm, he⟩ := (unpad_accepts_iff buf out size h1 h2 hne).mp h
    rcases hbad with hb | hb
    · exact hb hm
    · exact hb ⟨out, k, hk1, hk2, he⟩
  have hlen : buf.length ≠ 0 := fun h0 => hne (List.eq_nil_of_length_eq_zero h0)
  unfold unpad at hno ⊢
  rw [if_neg (by omega), if_neg hlen] at hno ⊢
  split
  · rfl
  · rename_i hmod
    rw [if_neg hmod] at hno
    simp only at hno ⊢
    split
    · rfl
    · rename_i hk
      rw [if_neg hk] at hno
      split
      · rename_i hall
        rw [if_pos hall] at hno
        exact absurd rfl (hno _)
      · rfl

example : unpad [1, 2, 3, 4, 5, 6, 7, 9] 8 = .err ePkcs7 := by decide
example : unpad (List.replicate 16 0) 16 = .err ePkcs7 := by decide

/-! ## 3. AES-CBC-HMAC-SHA2 (RFC 7518 §5.2) -/

/-- `Open ∘ Seal = id`, for every lawful block cipher and every MAC whose output is at least the
tag size; output length = padded plaintext + tag. -/
theorem cbc_hmac_open_seal (P : Prims) (p : AeadParams) (key iv pt ad : Bytes)
    (hL : (P.aes (encKeyOf p key)).Lawful) (hm : MacLongEnough P p) (hiv : iv.length = 16) :
    ∃ out, cbcHmacSeal P p key iv pt ad = .ok out ∧
      out.length = 16 * (pt.length / 16 + 1) + p.tagSize ∧
      cbcHmacOpen P p key iv out ad = .ok pt :=
  cbcHmacOpen_seal P p key iv pt ad hL hm hiv

/-- RFC 7518 key split: `MAC_KEY` is the first half, `ENC_KEY` the second half — as a fact about
the generated constructor parameters: for every constructor the two halves partition the key. -/
theorem cbc_hmac_key_split :
    ∀ p ∈ Generated.C03.aescbcaeadParams, ∀ key : Bytes, key.length = p.encKeySize + p.macKeySize →
      macKeyOf p key ++ encKeyOf p key = key ∧ (macKeyOf p key).length = p.macKeySize ∧
      (encKeyOf p key).length = p.encKeySize := by
  intro p _ key hk
  have e : key.length - p.encKeySize = p.macKeySize := by omega
  refine ⟨?_, ?_, ?_⟩
  · simp [macKeyOf, encKeyOf, e]
  · simp [macKeyOf]; omega
  · simp [encKeyOf]; omega

/-- The tag is checked first: if the presented tag is not the recomputed one the result is the
authentication error — whatever the block cipher would decrypt, whatever the padding looks like
(no padding oracle), and nothing is output. -/
theorem cbc_hmac_tag_first (P : Prims) (p : AeadParams) (key iv c ad : Bytes)
    (hiv : iv.length = 16) (hlen : p.tagSize ≤ c.length)
    (hbad : c.drop (c.length - p.tagSize) ≠
      cbcHmacTag P p key ad iv (c.take (c.length - p.tagSize))) :
    cbcHmacOpen P p key iv c ad = .err eAuth := by
  unfold cbcHmacOpen
  rw [if_neg (by omega), if_neg (by omega)]
  simp only [hbad, ne_eq, not_false_eq_true, if_true]

/-- Conversely a padding error (or a plaintext) can only be observed on an input whose tag verifies. -/
theorem cbc_hmac_padding_error_needs_valid_tag (P : Prims) (p : AeadParams) (key iv c ad : Bytes)
    (h : cbcHmacOpen P p key iv c ad = .err ePkcs7 ∨ ∃ pt, cbcHmacOpen P p key iv c ad = .ok pt) :
    p.tagSize ≤ c.length ∧
      c.drop (c.length - p.tagSize) = cbcHmacTag P p key ad iv (c.take (c.length - p.tagSize)) := by
  unfold cbcHmacOpen at h
  by_cases hiv : iv.length ≠ 16
  · rw [if_pos hiv] at h
    rcases h with h | ⟨_, h⟩
    · exact absurd h (by decide)
    · cases h
  rw [if_neg hiv] at h
  by_cases hl : c.length < p.tagSize
  · rw [if_pos hl] at h
    rcases h with h | ⟨_, h⟩
    · exact absurd h (by decide)
    · cases h
  · rw [if_neg hl] at h
    by_cases ht : c.drop (c.length - p.tagSize) = cbcHmacTag P p key ad iv (c.take (c.length - p.tagSize))
    · exact ⟨by omega, ht⟩
    · simp only [ht, ne_eq, not_false_eq_true, if_true] at h
      rcases h with h | ⟨_, h⟩
      · exact absurd h (by decide)
      · cases h

/-- Tamper rejection under an explicit no-forgery hypothesis about the concrete presented input:
if `(ad', iv', c')` differs from what `Seal` produced and the adversary's tag is not the right
one for a *different* (ad, iv, body) triple, `Open` returns an error and no output. -/
theorem cbc_hmac_tamper_partial (P : Prims) (p : AeadParams) (key iv pt ad ct : Bytes)
    (hseal : cbcHmacSeal P p key iv pt ad = .ok (ct ++ cbcHmacTag P p key ad iv ct))
    (ad' iv' c' : Bytes)
    (hchanged : (ad', iv', c') ≠ (ad, iv, ct ++ cbcHmacTag P p key ad iv ct))
    (hNoForgery : (ad', iv', c'.take (c'.length - p.tagSize)) ≠ (ad, iv, ct) →
      c'.drop (c'.length - p.tagSize) ≠ cbcHmacTag P p key ad' iv' (c'.take (c'.length - p.tagSize))) :
    cbcHmacOpen P p key iv' c' ad' = .err eAuth ∨ cbcHmacOpen P p key iv' c' ad' = .err eAeadSize := by
  by_cases hiv : iv'.length ≠ 16
  · right; unfold cbcHmacOpen; rw [if_pos hiv]
  by_cases hl : c'.length < p.tagSize
  · right; unfold cbcHmacOpen; rw [if_neg hiv, if_pos hl]
  · left
    apply cbc_hmac_tag_first P p key iv' c' ad' (by omega) (by omega)
    by_cases hsame : (ad', iv', c'.take (c'.length - p.tagSize)) = (ad, iv, ct)
    · intro htag
      apply hchanged
      injection hsame with h1 h2
      injection h2 with h2 h3
      subst h1 h2
      rw [h3] at htag
      have hc : c' = ct ++ cbcHmacTag P p key ad' iv' ct := by
        have := List.take_append_drop (c'.length - p.tagSize) c'
        rw [h3, htag] at this
        exact this.symm
      rw [hc]
    · exact hNoForgery hsame

/-! ## 4. the AEAD helpers: split into ciphertext ‖ tag and re-join -/

/-- For every lawful AEAD: `decryptSymmetricAEAD (encryptSymmetricAEAD p) = p`; the tag is the
last `Overhead()` bytes of `Seal`'s output and the ciphertext the rest. -/
theorem aead_split_join (a : AEAD) (hA : a.Lawful) (pt nonce ad : Bytes)
    (hn : nonce.length = a.nonceSize) :
    ∃ ct tag, encryptAEAD a pt nonce ad = .ok (ct, tag) ∧ tag.length = a.overhead ∧
      a.doSeal nonce pt ad = .ok (ct ++ tag) ∧ decryptAEAD a ct nonce tag ad = .ok pt := by
  obtain ⟨out, hs, hov, ho⟩ := hA.roundtrip nonce pt ad hn
  refine ⟨out.take (out.length - a.overhead), out.drop (out.length - a.overhead), ?_, ?_, ?_, ?_⟩
  · rw [encryptAEAD_eq, if_neg (by omega), hs]
    simp only [Outcome.bind]
    rw [if_neg (by omega)]
  · simp; omega
  · rw [List.take_append_drop]; exact hs
  · rw [decryptAEAD_eq, if_neg (by omega), if_neg (by simp; omega), List.take_append_drop]
    exact ho

/-- For the stdlib AEADs (exactly `Overhead()` extra bytes) the ciphertext is as long as the plaintext. -/
theorem aead_split_lengths (a : AEAD) (hE : a.Exact) (pt nonce ad ct tag : Bytes)
    (h : encryptAEAD a pt nonce ad = .ok (ct, tag)) :
    ct.length = pt.length ∧ tag.length = a.overhead := by
  rw [encryptAEAD_eq] at h
  split at h
  · cases h
  · cases hs : a.doSeal nonce pt ad with
    | ok out =>
      rw [hs] at h
      simp only [Outcome.bind] at h
      have hl := hE nonce pt ad out hs
      split at h
      · cases h
      · injection h with h; injection h with h1 h2
        subst h1 h2
        simp; omega
    | err e => rw [hs] at h; cases h
    | panic w => rw [hs] at h; cases h

/-- The model's own CBC-HMAC construction satisfies the abstract AEAD law, so the hypotheses of
`aead_split_join` are satisfiable by the very functions the driver runs. -/
theorem cbcHmacAEAD_lawful (P : Prims) (p : AeadParams) (key : Bytes)
    (hL : (P.aes (encKeyOf p key)).Lawful) (hm : MacLongEnough P p) :
    (cbcHmacAEAD P p key).Lawful := by
  refine ⟨fun nonce pt ad hn => ?_⟩
  obtain ⟨out, h1, h2, h3⟩ := cbcHmacOpen_seal P p key nonce pt ad hL hm hn
  exact ⟨out, h1, by simp [cbcHmacAEAD]; omega, h3⟩

/-! ## 5. guards ⇒ sentinels, over the generated guard prefixes and tables

`denotes` (KitProofs/Lemmas/CryptoGlueSpec.lean) says what each listed name stands for; all
statements quantify over every name of the generated `supportedSymmetric` list and over all
byte strings (sizes are symbolic).  An `Outcome.err` carries no output by construction. -/

/-- A key that is not an octet sequence ⇒ `ErrKeyTypeMismatch`, for every name (listed or not). -/
theorem guards_key_kind (P : Prims) (alg : String) (k : Key) (hk : k.kind ≠ .oct)
    (pt ct nonce tag ad : Bytes) :
    encryptSymmetric P pt alg k nonce ad = .err eKeyTypeMismatch ∧
    decryptSymmetric P ct alg k nonce tag ad = .err eKeyTypeMismatch := by
  have h1 : keyTypeName k.kind ≠ Generated.C03.kind_EncryptSymmetric.1 := by
    cases hkk : k.kind <;> simp_all [keyTypeName, Generated.C03.kind_EncryptSymmetric]
  have h2 : keyTypeName k.kind ≠ Generated.C03.kind_DecryptSymmetric.1 := h1
  unfold encryptSymmetric decryptSymmetric
  rw [if_pos h1, if_pos h2]
  exact ⟨rfl, rfl⟩

example : (⟨.rsaPub, []⟩ : Key).kind ≠ .oct := by decide

/-- A name outside the supported list ⇒ `ErrUnsupportedAlgorithm` (the helpers, and with them the
slicing in `expectedKeySize`, are never reached). -/
theorem guards_unknown_name (P : Prims) (alg : String) (h : alg ∉ Generated.C03.supportedSymmetric)
    (key pt ct nonce tag ad : Bytes) :
    encryptSymmetric P pt alg ⟨.oct, key⟩ nonce ad = .err eUnsupportedAlgorithm ∧
    decryptSymmetric P ct alg ⟨.oct, key⟩ nonce tag ad = .err eUnsupportedAlgorithm := by
  have hsub : ∀ sw ∈ [Generated.C03.sw_EncryptSymmetric, Generated.C03.sw_DecryptSymmetric],
      ∀ c ∈ sw.cases, ∀ a ∈ c.1, a ∈ Generated.C03.supportedSymmetric := by decide
  have hnone : ∀ sw ∈ [Generated.C03.sw_EncryptSymmetric, Generated.C03.sw_DecryptSymmetric],
      lookupSwitch sw alg = none := by
    intro sw hsw
    unfold lookupSwitch
    rw [Option.map_eq_none_iff, List.find?_eq_none]
    intro c hc hcon
    exact h (hsub sw hsw c hc alg (by simpa using hcon))
  have hE := hnone _ (List.mem_cons_self)
  have hD := hnone _ (List.mem_cons_of_mem _ (List.mem_cons_self))
  have hkE : keyTypeName KeyKind.oct = Generated.C03.kind_EncryptSymmetric.1 := by decide
  have hkD : keyTypeName KeyKind.oct = Generated.C03.kind_DecryptSymmetric.1 := by decide
  unfold encryptSymmetric decryptSymmetric
  simp only [hkE, ne_eq, not_true_eq_false, if_false, hE, hD]
  exact ⟨rfl, rfl⟩

example : "A128GCMKW" ∉ Generated.C03.supportedSymmetric := by decide

/-- Wrong key size ⇒ `ErrKeyTypeMismatch`, both directions, every listed name. -/
theorem guards_key_size (P : Prims) (alg : String) (d : Denotes)
    (h : alg ∈ Generated.C03.supportedSymmetric) (hd : denotes alg = some d)
    (key pt ct nonce tag ad : Bytes) (hk : key.length ≠ d.keyLen) :
    encryptSymmetric P pt alg ⟨.oct, key⟩ nonce ad = .err eKeyTypeMismatch ∧
    decryptSymmetric P ct alg ⟨.oct, key⟩ nonce tag ad = .err eKeyTypeMismatch := by
  have hf := symFacts_of_mem h hd
  cases hfam : d.family
  · rw [encNF_cbc P hf hfam, decNF_cbc P hf hfam, if_pos hk, if_pos hk]; exact ⟨rfl, rfl⟩
  · rw [encNF_gcm P hf hfam, decNF_gcm P hf hfam, if_pos hk, if_pos hk]; exact ⟨rfl, rfl⟩
  · obtain ⟨c, p, hc, hp, hkl, hsum, _⟩ := symFacts_cbchmac hf hfam
    rw [encNF_cbchmac P hf hfam c p hc hp hkl hsum, decNF_cbchmac P hf hfam c p hc hp hkl hsum,
      if_pos hk, if_pos hk]; exact ⟨rfl, rfl⟩
  · rw [encNF_kw P hf hfam, decNF_kw P hf hfam, if_pos hk, if_pos hk]; exact ⟨rfl, rfl⟩
  · obtain ⟨c, hc, hkl, hnl, _⟩ := symFacts_chacha hf hfam
    rw [encNF_chacha P hf hfam c hc hkl hnl, decNF_chacha P hf hfam c hc hkl hnl, if_pos hk, if_pos hk]
    exact ⟨rfl, rfl⟩

example : denotes "A192CBC-HS384" = some { family := .cbchmac, keyLen := 48, nonceLen := 16, tagLen := 24, hashBits := 384 } := by
  decide

/-- Right key, wrong nonce size ⇒ `ErrInvalidNonce`, both directions, every listed name that
takes a nonce (key wrap takes none). -/
theorem guards_nonce (P : Prims) (hS : P.Std) (alg : String) (d : Denotes)
    (h : alg ∈ Generated.C03.supportedSymmetric) (hd : denotes alg = some d) (hnkw : d.family ≠ .kw)
    (key pt ct nonce tag ad : Bytes) (hk : key.length = d.keyLen) (hn : nonce.length ≠ d.nonceLen) :
    encryptSymmetric P pt alg ⟨.oct, key⟩ nonce ad = .err eInvalidNonce ∧
    decryptSymmetric P ct alg ⟨.oct, key⟩ nonce tag ad = .err eInvalidNonce := by
  have hf := symFacts_of_mem h hd
  have hk' : ¬ key.length ≠ d.keyLen := by omega
  cases hfam : d.family
  · obtain ⟨_, _, _, _, _, hnl, _⟩ := symFacts_cbc hf hfam
    rw [hnl] at hn
    constructor
    · rw [encNF_cbc P hf hfam, if_neg hk', if_pos hn]
    · rw [decNF_cbc P hf hfam, if_neg hk', if_pos hn]
  · obtain ⟨_, _, hnl, _⟩ := symFacts_gcm hf hfam
    rw [hnl] at hn
    constructor
    · rw [encNF_gcm P hf hfam, if_neg hk', encryptAEAD_eq, hS.gcmNonce, if_pos hn]
    · rw [decNF_gcm P hf hfam, if_neg hk', decryptAEAD_eq, hS.gcmNonce, if_pos hn]
  · obtain ⟨c, p, hc, hp, hkl, hsum, _, _, _, _, _, hnl⟩ := symFacts_cbchmac hf hfam
    rw [hnl] at hn
    have hn' : nonce.length ≠ (cbcHmacAEAD P p key).nonceSize := hn
    constructor
    · rw [encNF_cbchmac P hf hfam c p hc hp hkl hsum, if_neg hk', encryptAEAD_eq, if_pos hn']
    · rw [decNF_cbchmac P hf hfam c p hc hp hkl hsum, if_neg hk', decryptAEAD_eq, if_pos hn']
  · exact absurd hfam hnkw
  · obtain ⟨c, hc, hkl, hnl, _⟩ := symFacts_chacha hf hfam
    constructor
    · rw [encNF_chacha P hf hfam c hc hkl hnl, if_neg hk', if_pos hn]
    · rw [decNF_chacha P hf hfam c hc hkl hnl, if_neg hk', if_pos hn]

/-- Right key and nonce, wrong tag size ⇒ `ErrInvalidTag` (before anything is opened), for every
listed AEAD name. -/
theorem guards_tag (P : Prims) (hS : P.Std) (alg : String) (d : Denotes)
    (h : alg ∈ Generated.C03.supportedSymmetric) (hd : denotes alg = some d)
    (haead : d.family = .gcm ∨ d.family = .cbchmac ∨ d.family = .chacha)
    (key ct nonce tag ad : Bytes) (hk : key.length = d.keyLen) (hn : nonce.length = d.nonceLen)
    (ht : tag.length ≠ d.tagLen) :
    decryptSymmetric P ct alg ⟨.oct, key⟩ nonce tag ad = .err eInvalidTag := by
  have hf := symFacts_of_mem h hd
  cases hfam : d.family
  · simp [hfam] at haead
  · obtain ⟨_, _, hnl, htl⟩ := symFacts_gcm hf hfam
    rw [decNF_gcm P hf hfam, if_neg (by omega), decryptAEAD_eq, hS.gcmNonce, hS.gcmOverhead,
      if_neg (by omega), if_pos (by omega)]
  · obtain ⟨c, p, hc, hp, hkl, hsum, htl, _, _, _, _, hnl⟩ := symFacts_cbchmac hf hfam
    have hn' : ¬ nonce.length ≠ (cbcHmacAEAD P p key).nonceSize := by
      show ¬ nonce.length ≠ 16; omega
    have ht' : tag.length ≠ (cbcHmacAEAD P p key).overhead := by
      show tag.length ≠ p.tagSize; omega
    rw [decNF_cbchmac P hf hfam c p hc hp hkl hsum, if_neg (by omega), decryptAEAD_eq,
      if_neg hn', if_pos ht']
  · simp [hfam] at haead
  · obtain ⟨c, hc, hkl, hnl, htl, _, hctor⟩ := symFacts_chacha hf hfam
    obtain ⟨_, hov⟩ := chachaAEAD_sizes P hS c key d.nonceLen hctor
    rw [decNF_chacha P hf hfam c hc hkl hnl, if_neg (by omega), if_neg (by omega), hov,
      if_pos (by omega)]

/-- NOPAD names: right key and IV, plaintext not a whole number of blocks ⇒
`ErrInvalidPlaintextLength`. -/
theorem guards_nopad_plaintext (P : Prims) (alg : String) (d : Denotes)
    (h : alg ∈ Generated.C03.supportedSymmetric) (hd : denotes alg = some d)
    (hfam : d.family = .cbc) (hnp : d.nopad = true)
    (key pt nonce ad : Bytes) (hk : key.length = d.keyLen) (hn : nonce.length = 16)
    (hp : pt.length % 16 ≠ 0) :
    encryptSymmetric P pt alg ⟨.oct, key⟩ nonce ad = .err eInvalidPlaintextLength := by
  have hf := symFacts_of_mem h hd
  rw [encNF_cbc P hf hfam, if_neg (by omega), if_neg (by omega), if_pos ⟨hnp, hp⟩]

example : denotes "A256CBC-NOPAD" = some { family := .cbc, keyLen := 32, nonceLen := 16, tagLen := 0, nopad := true } := by
  decide

/-- CBC names (with or without padding): right key and IV, ciphertext not a whole number of
blocks ⇒ `ErrInvalidCiphertextLength`. -/
theorem guards_cbc_ciphertext (P : Prims) (alg : String) (d : Denotes)
    (h : alg ∈ Generated.C03.supportedSymmetric) (hd : denotes alg = some d) (hfam : d.family = .cbc)
    (key ct nonce tag ad : Bytes) (hk : key.length = d.keyLen) (hn : nonce.length = 16)
    (hc : ct.length % 16 ≠ 0) :
    decryptSymmetric P ct alg ⟨.oct, key⟩ nonce tag ad = .err eInvalidCiphertextLength := by
  have hf := symFacts_of_mem h hd
  rw [decNF_cbc P hf hfam, if_neg (by omega), if_neg (by omega), if_pos hc]

/-- The statement "wrong kind/size ⇒ the package's sentinel, and no output" assembled. -/
def guards_sentinels_statement (P : Prims) : Prop :=
  (∀ alg (k : Key), k.kind ≠ .oct → ∀ pt ct nonce tag ad,
      encryptSymmetric P pt alg k nonce ad = .err eKeyTypeMismatch ∧
      decryptSymmetric P ct alg k nonce tag ad = .err eKeyTypeMismatch) ∧
  (∀ alg, alg ∉ Generated.C03.supportedSymmetric → ∀ key pt ct nonce tag ad,
      encryptSymmetric P pt alg ⟨.oct, key⟩ nonce ad = .err eUnsupportedAlgorithm ∧
      decryptSymmetric P ct alg ⟨.oct, key⟩ nonce tag ad = .err eUnsupportedAlgorithm) ∧
  (∀ alg d, alg ∈ Generated.C03.supportedSymmetric → denotes alg = some d →
    ∀ key pt ct nonce tag ad,
      (key.length ≠ d.keyLen →
        encryptSymmetric P pt alg ⟨.oct, key⟩ nonce ad = .err eKeyTypeMismatch ∧
        decryptSymmetric P ct alg ⟨.oct, key⟩ nonce tag ad = .err eKeyTypeMismatch) ∧
      (key.length = d.keyLen → d.family ≠ .kw → nonce.length ≠ d.nonceLen →
        encryptSymmetric P pt alg ⟨.oct, key⟩ nonce ad = .err eInvalidNonce ∧
        decryptSymmetric P ct alg ⟨.oct, key⟩ nonce tag ad = .err eInvalidNonce) ∧
      (key.length = d.keyLen → nonce.length = d.nonceLen →
        (d.family = .gcm ∨ d.family = .cbchmac ∨ d.family = .chacha) → tag.length ≠ d.tagLen →
        decryptSymmetric P ct alg ⟨.oct, key⟩ nonce tag ad = .err eInvalidTag) ∧
      (key.length = d.keyLen → nonce.length = 16 → d.family = .cbc → d.nopad = true →
        pt.length % 16 ≠ 0 →
        encryptSymmetric P pt alg ⟨.oct, key⟩ nonce ad = .err eInvalidPlaintextLength) ∧
      (key.length = d.keyLen → nonce.length = 16 → d.family = .cbc → ct.length % 16 ≠ 0 →
        decryptSymmetric P ct alg ⟨.oct, key⟩ nonce tag ad = .err eInvalidCiphertextLength))

theorem guards_sentinels (P : Prims) (hS : P.Std) : guards_sentinels_statement P :=
  ⟨fun alg k hk pt ct nonce tag ad => guards_key_kind P alg k hk pt ct nonce tag ad,
   fun alg h key pt ct nonce tag ad => guards_unknown_name P alg h key pt ct nonce tag ad,
   fun alg d h hd key pt ct nonce tag ad =>
    ⟨fun hk => guards_key_size P alg d h hd key pt ct nonce tag ad hk,
     fun hk hkw hn => guards_nonce P hS alg d h hd hkw key pt ct nonce tag ad hk hn,
     fun hk hn ha ht => guards_tag P hS alg d h hd ha key ct nonce tag ad hk hn ht,
     fun hk hn hf hnp hp => guards_nopad_plaintext P alg d h hd hf hnp key pt nonce ad hk hn hp,
     fun hk hn hf hc => guards_cbc_ciphertext P alg d h hd hf key ct nonce tag ad hk hn hc⟩⟩

/-! ## 5b. the headline: decryption inverts encryption for every listed symmetric name -/

/-- For every name of `SupportedSymmetricAlgorithms()`, every key of the size the name denotes,
every nonce of the right size and every plaintext the algorithm accepts (NOPAD: whole blocks;
key wrap: RFC 3394's domain): `EncryptSymmetric` succeeds, the tag has the length the name
denotes, and `DecryptSymmetric` returns the plaintext — for all primitives that satisfy their
standards' laws (`D ∘ E = id`, `Open ∘ Seal = id`). -/
theorem sym_roundtrip (P : Prims) (hS : P.Std) (hL : P.LawfulPrims) (alg : String) (d : Denotes)
    (h : alg ∈ Generated.C03.supportedSymmetric) (hd : denotes alg = some d)
    (key pt nonce ad : Bytes) (hk : key.length = d.keyLen)
    (hn : d.family ≠ .kw → nonce.length = d.nonceLen)
    (hnp : d.nopad = true → pt.length % 16 = 0)
    (hkw : d.family = .kw → pt.length % 8 = 0 ∧ 16 ≤ pt.length) :
    ∃ ct tag, encryptSymmetric P pt alg ⟨.oct, key⟩ nonce ad = .ok (ct, tag) ∧ tag.length = d.tagLen ∧
      decryptSymmetric P ct alg ⟨.oct, key⟩ nonce tag ad = .ok pt := by
  have hf := symFacts_of_mem h hd
  have hk' : ¬ key.length ≠ d.keyLen := by omega
  cases hfam : d.family
  · -- CBC with / without PKCS#7
    obtain ⟨_, hkl, _, _, _, hnl, htl⟩ := symFacts_cbc hf hfam
    have hn16 : nonce.length = 16 := by rw [← hnl]; exact hn (by simp [hfam])
    have haes := hL.aes key (by omega)
    by_cases hpad : d.nopad = true
    · obtain ⟨ct, he, hcl, hdec⟩ := cbcEncrypt_ok _ haes nonce pt hn16 (hnp hpad)
      refine ⟨ct, [], ?_, by simp [htl], ?_⟩
      · rw [encNF_cbc P hf hfam, if_neg hk', if_neg (by omega), if_neg (by simp [hnp hpad]), if_pos hpad, he]
        rfl
      · rw [decNF_cbc P hf hfam, if_neg hk', if_neg (by omega), if_neg (by rw [hcl]; simp [hnp hpad]), hdec]
        simp [Outcome.bind, hpad]
    · have hpl : (pt ++ List.replicate (16 - pt.length % 16) (UInt8.ofNat (16 - pt.length % 16))).length % 16 = 0 := by
        simp only [List.length_append, List.length_replicate]
        exact padLen_mod _ _ (by omega)
      obtain ⟨ct, he, hcl, hdec⟩ := cbcEncrypt_ok _ haes nonce _ hn16 hpl
      refine ⟨ct, [], ?_, by simp [htl], ?_⟩
      · rw [encNF_cbc P hf hfam, if_neg hk', if_neg (by omega), if_neg (by simp [hpad]), if_neg hpad,
          pad_eq pt 16 (by omega) (by omega)]
        simp only [Outcome.bind, he]
      · rw [decNF_cbc P hf hfam, if_neg hk', if_neg (by omega), if_neg (by rw [hcl]; omega), hdec]
        simp only [Outcome.bind, hpad, Bool.false_eq_true, if_false]
        exact unpad_of_shape pt _ 16 (by omega) (by omega) (by omega) (by omega)
          (by simpa using hpl)
  · -- AES-GCM
    obtain ⟨_, _, hnl, htl⟩ := symFacts_gcm hf hfam
    have hn12 : nonce.length = (P.gcm key).nonceSize := by
      rw [hS.gcmNonce, ← hnl]; exact hn (by simp [hfam])
    obtain ⟨ct, tag, he, htag, _, hdec⟩ := aead_split_join (P.gcm key) (hL.gcm key) pt nonce ad hn12
    refine ⟨ct, tag, ?_, by rw [htag, hS.gcmOverhead, htl], ?_⟩
    · rw [encNF_gcm P hf hfam, if_neg hk', he]
    · rw [decNF_gcm P hf hfam, if_neg hk', hdec]
  · -- AES-CBC-HMAC-SHA2
    obtain ⟨c, p, hc, hp, hkl, hsum, htl, _, henc, _, hhash, hnl⟩ := symFacts_cbchmac hf hfam
    have hekl : (encKeyOf p key).length = p.encKeySize := by simp [encKeyOf]; omega
    have haes := hL.aes (encKeyOf p key) (by omega)
    have hmac : MacLongEnough P p := by
      intro k m
      have := hL.hmacLen p.hashBits k m
      omega
    have hA := cbcHmacAEAD_lawful P p key haes hmac
    have hn16 : nonce.length = (cbcHmacAEAD P p key).nonceSize := by
      show nonce.length = 16
      rw [← hnl]; exact hn (by simp [hfam])
    obtain ⟨ct, tag, he, htag, _, hdec⟩ := aead_split_join _ hA pt nonce ad hn16
    refine ⟨ct, tag, ?_, by rw [htag, ← htl]; rfl, ?_⟩
    · rw [encNF_cbchmac P hf hfam c p hc hp hkl hsum, if_neg hk', he]
    · rw [decNF_cbchmac P hf hfam c p hc hp hkl hsum, if_neg hk', hdec]
  · -- RFC 3394 key wrap
    obtain ⟨_, hkl, _, htl⟩ := symFacts_kw hf hfam
    have haes := hL.aes key (by omega)
    obtain ⟨h8, h16⟩ := hkw hfam
    obtain ⟨w, hw, _, hu⟩ := unwrap_wrap _ haes pt h8 h16
    refine ⟨w, [], ?_, by simp [htl], ?_⟩
    · rw [encNF_kw P hf hfam, if_neg hk', hw]; rfl
    · rw [decNF_kw P hf hfam, if_neg hk', hu]
  · -- (X)ChaCha20-Poly1305
    obtain ⟨c, hc, hkl, hnl, htl, hsplit, hctor⟩ := symFacts_chacha hf hfam
    obtain ⟨hns, hov⟩ := chachaAEAD_sizes P hS c key d.nonceLen hctor
    have hnn : nonce.length = d.nonceLen := hn (by simp [hfam])
    obtain ⟨out, hs, hol, ho⟩ := (chachaAEAD_lawful P hL c key).roundtrip nonce pt ad (by rw [hns, hnn])
    rw [hov] at hol
    refine ⟨out.take (out.length - 16), out.drop (out.length - 16), ?_, by simp; omega, ?_⟩
    · rw [encNF_chacha P hf hfam c hc hkl hnl, if_neg hk', if_neg (by omega), hs, hsplit]
      simp only [Outcome.bind]
      rw [if_neg (by omega)]
    · rw [decNF_chacha P hf hfam c hc hkl hnl, if_neg hk', if_neg (by omega), hov,
        if_neg (by simp; omega), List.take_append_drop]
      exact ho

/-- The hypotheses are satisfiable (toy primitives), and the conclusion is then a concrete run. -/
example : ∃ ct tag, encryptSymmetric toyPrims [1, 2, 3] "A128CBC-HS256" ⟨.oct, List.replicate 32 9⟩
      (List.replicate 16 4) [5] = .ok (ct, tag) ∧ tag.length = 16 ∧
    decryptSymmetric toyPrims ct "A128CBC-HS256" ⟨.oct, List.replicate 32 9⟩ (List.replicate 16 4) tag [5]
      = .ok [1, 2, 3] :=
  sym_roundtrip toyPrims toyPrims_ok.1 toyPrims_ok.2 "A128CBC-HS256"
    { family := .cbchmac, keyLen := 32, nonceLen := 16, tagLen := 16, hashBits := 256 }
    (by decide) (by decide) (List.replicate 32 9) [1, 2, 3] (List.replicate 16 4) [5]
    (by decide) (fun _ => by decide) (fun h => by cases h) (fun h => by cases h)

/-! ## 6. dispatch -/

/-- Every name of the three `Supported…Algorithms()` lists reaches a helper of the family the name
denotes, with the key size / hash / curve the name denotes; the table lookups
(`expectedKeySize`'s `alg[1:4]`, `getSHAHash`'s `alg[len-3:]`) never go out of range on listed
names; the generic `Encrypt`/`Decrypt` route every listed encryption name to the right entry
point.  (Stated over the generated switches and tables; `symFactsB`/`asymPlanOK` are the decidable
agreement checks of KitProofs/Lemmas/CryptoGlueSpec.lean.) -/
theorem dispatch_total :
    (∀ alg ∈ Generated.C03.supportedSymmetric, ∃ d, denotes alg = some d ∧ symFactsB alg d = true) ∧
    (∀ alg ∈ Generated.C03.supportedAsymmetric,
      asymPlanOK Generated.C03.sw_EncryptPublicKey denotesEncrypt alg = true ∧
      asymPlanOK Generated.C03.sw_DecryptPrivateKey denotesDecrypt alg = true ∧
      encryptRoute alg = some "EncryptPublicKey" ∧ decryptRoute alg = some "DecryptPrivateKey") ∧
    (∀ alg ∈ Generated.C03.supportedSignature,
      asymPlanOK Generated.C03.sw_SignPrivateKey denotesSign alg = true ∧
      asymPlanOK Generated.C03.sw_VerifyPublicKey denotesVerify alg = true) := by
  refine ⟨?_, by decide, by decide⟩
  intro alg h
  have := symDispatchOK_all alg h
  unfold symDispatchOK at this
  split at this
  · rename_i d hd; exact ⟨d, hd, this⟩
  · cases this

/-- In readable form for the AES families: the helper and the key size. -/
theorem dispatch_total_keysizes :
    ∀ alg ∈ Generated.C03.supportedSymmetric, ∀ d, denotes alg = some d →
      lookupSwitch Generated.C03.sw_EncryptSymmetric alg = some (encHelperName d.family, "") ∧
      lookupSwitch Generated.C03.sw_DecryptSymmetric alg = some (decHelperName d.family, "") ∧
      encryptRoute alg = some "EncryptSymmetric" ∧ decryptRoute alg = some "DecryptSymmetric" ∧
      (d.family = .cbc ∨ d.family = .gcm ∨ d.family = .kw → expectedKeySize alg = .ok d.keyLen) := by
  intro alg h d hd
  have hf := symFacts_of_mem h hd
  obtain ⟨h1, h2, h3, h4⟩ := symFacts_common hf
  refine ⟨h1, h2, h3, h4, ?_⟩
  rintro (hfam | hfam | hfam)
  · exact (symFacts_cbc hf hfam).1
  · exact (symFacts_gcm hf hfam).1
  · exact (symFacts_kw hf hfam).1

/-- No listed name makes a table lookup panic. -/
theorem dispatch_never_out_of_range :
    (∀ alg ∈ Generated.C03.supportedSymmetric, (expectedKeySize alg).isPanic = false) ∧
    (∀ alg ∈ Generated.C03.supportedAsymmetric ++ Generated.C03.supportedSignature,
      (asymPlan Generated.C03.sw_EncryptPublicKey alg).isPanic = false ∧
      (asymPlan Generated.C03.sw_DecryptPrivateKey alg).isPanic = false ∧
      (asymPlan Generated.C03.sw_SignPrivateKey alg).isPanic = false ∧
      (asymPlan Generated.C03.sw_VerifyPublicKey alg).isPanic = false) := by
  decide

/-- Witness for the finding on the unchanged tree: the case list `Encrypt` had (without the three
NOPAD names) sends a listed name to the `default` branch. -/
theorem encrypt_dispatch_prefix_witness :
    "A128CBC-NOPAD" ∈ Generated.C03.supportedSymmetric ∧
    lookupSwitch (Switch.mk [(["A128CBC", "A192CBC", "A256CBC", "A128GCM", "A192GCM", "A256GCM",
        "A128CBC-HS256", "A192CBC-HS384", "A256CBC-HS512", "A128KW", "A192KW", "A256KW", "A128GCMKW",
        "A192GCMKW", "A256GCMKW", "C20P", "XC20P", "C20PKW", "XC20PKW"], "EncryptSymmetric", "")]
        "ErrUnsupportedAlgorithm") "A128CBC-NOPAD" = none ∧
    encryptRoute "A128CBC-NOPAD" = some "EncryptSymmetric" := by
  decide

/-- The source shapes the hand-written parts of the model rely on, as regenerated facts: the
length guards of `aeskw.Wrap`/`Unwrap` (the model's `wrap`/`unwrap` guards), the RFC 3394 IV, the
round loops of `Wrap`/`Unwrap` statement by statement (what `wrapInner`/`unwrapInner` mirror), the
order tag-check → CBC → unpad in `aescbcaead.Open`, the MAC input `AD ‖ IV ‖ C ‖ AL` with the
big-endian bit length, the MAC/ENC key split, the tag split of the ChaCha helper, and the
constants.  If the source changes any of them this theorem stops checking. -/
theorem model_assumptions_tie :
    Generated.C03.aeskwWrapGuards = ["len(cek)%8 != 0", "len(cek) < 16"] ∧
    Generated.C03.aeskwUnwrapGuards = ["len(cipherText) < 24 || len(cipherText)%8 != 0"] ∧
    Generated.C03.aeskwDefaultIV = List.replicate 8 166 ∧
    Generated.C03.aeskwWrapRound = ["for j := 0; j <= 5; j++", "for i := 1; i <= n; i++",
      "b := arrConcat(a, r[i-1])", "block.Encrypt(b, b)", "t := (n * j) + i", "tBytes := make([]byte, 8)",
      "binary.BigEndian.PutUint64(tBytes, uint64(t))", "copy(a, arrXor(b[:len(b)/2], tBytes))",
      "copy(r[i-1], b[len(b)/2:])"] ∧
    Generated.C03.aeskwUnwrapRound = ["for j := 5; j >= 0; j--", "for i := n; i >= 1; i--",
      "t := (n * j) + i", "tBytes := make([]byte, 8)", "binary.BigEndian.PutUint64(tBytes, uint64(t))",
      "b := arrConcat(arrXor(a, tBytes), r[i-1])", "block.Decrypt(b, b)", "copy(a, b[:len(b)/2])",
      "copy(r[i-1], b[len(b)/2:])"] ∧
    Generated.C03.aescbcaeadOpenOrder = ["hmac.Equal", "CryptBlocks", "padding.UnpadPKCS7"] ∧
    Generated.C03.aescbcaeadMacInput = ["additionalData", "nonce", "ciphertext", "al"] ∧
    Generated.C03.aescbcaeadAL = "binary.BigEndian.PutUint64(al, uint64(len(additionalData)<<3))" ∧
    Generated.C03.aescbcaeadKeySplit = "macKey=p.key[0:p.macKeySize];encKey=p.key[len(p.key)-p.encKeySize:]" ∧
    Generated.C03.chachaEncryptTagSplit = 16 ∧
    Generated.C03.extConsts = [("aes.BlockSize", 16), ("chacha20poly1305.KeySize", 32),
      ("chacha20poly1305.NonceSize", 12), ("chacha20poly1305.NonceSizeX", 24), ("chacha20poly1305.Overhead", 16)] ∧
    Generated.C03.cbcHmacCtorErr = eKeyTypeMismatch ∧ Generated.C03.chachaNonceErr = eInvalidNonce ∧
    Generated.C03.sentinels = [eUnsupportedAlgorithm, eKeyTypeMismatch, eInvalidNonce, eInvalidTag,
      eInvalidPlaintextLength, eInvalidCiphertextLength] := by
  decide

/-- The rest of the hand-mirrored code, statement by statement: register set-up and output assembly of
`Wrap`/`Unwrap` (including the constant-time comparison of all eight IV bytes), how `Open` cuts off,
recomputes and compares the tag, and the truncation in `hmacTag`. -/
theorem model_assumptions_tie_bodies :
    Generated.C03.aeskwWrapHead = ["a := make([]byte, 8)", "copy(a, defaultIV)", "n := len(cek) / 8", "r := make([][]byte, n)", "for i := range r { r[i] = make([]byte, 8) copy(r[i], cek[i*8:]) }"] ∧
    Generated.C03.aeskwWrapTail = ["c := make([]byte, (n+1)*8)", "copy(c, a)", "for i := 1; i <= n; i++ { for j := range r[i-1] { c[(i*8)+j] = r[i-1][j] } }", "return c, nil"] ∧
    Generated.C03.aeskwUnwrapHead = ["a := make([]byte, 8)", "n := (len(cipherText) / 8) - 1", "r := make([][]byte, n)", "for i := range r { r[i] = make([]byte, 8) copy(r[i], cipherText[(i+1)*8:]) }", "copy(a, cipherText[:8])"] ∧
    Generated.C03.aeskwUnwrapTail = ["if subtle.ConstantTimeCompare(a, defaultIV) != 1 { return nil, errors.New(\"integrity check failed - unexpected IV\") }", "c := arrConcat(r...)", "return c, nil"] ∧
    Generated.C03.aescbcaeadOpenHead = ["if len(nonce) != aes.BlockSize { return nil, errors.New(\"invalid nonce size\") }", "if len(ciphertext) < aead.tagSize { return nil, errors.New(\"invalid ciphertext size\") }", "ciphertextTag := ciphertext[len(ciphertext)-aead.tagSize:]", "ciphertext = ciphertext[:len(ciphertext)-aead.tagSize]", "expectTag := aead.hmacTag(hmac.New(aead.macAlg, aead.macKey), additionalData, nonce, ciphertext, aead.tagSize)", "if !hmac.Equal(ciphertextTag, expectTag) { return nil, errors.New(\"message authentication failed\") }"] ∧
    Generated.C03.aescbcaeadHmacTagReturn = "return h.Sum(nil)[:l]" := by
  decide

/-- What each symmetric helper does after its (interpreted) guard prefix — the part the model writes by
hand: `Seal` with `nil` destination and the split at `len(out) − Overhead()`, the join of
ciphertext‖tag in a FRESH slice and `Open(nil, …)`, CBC over a fresh buffer with PKCS#7 for the
non-NOPAD names only, `aeskw.Wrap/Unwrap` — as rendered from the source, statement by statement. -/
theorem model_assumptions_tie_helpers :
    Generated.C03.body_encryptSymmetricAESCBC = ["switch algorithm { case Algorithm_A128CBC_NOPAD, Algorithm_A192CBC_NOPAD, Algorithm_A256CBC_NOPAD: default: plaintext, err = padding.PadPKCS7(plaintext, aes.BlockSize) if err != nil { return nil, err } }", "ciphertext = make([]byte, len(plaintext))", "cipher.NewCBCEncrypter(block, iv). CryptBlocks(ciphertext, plaintext)", "return ciphertext, nil"] ∧
    Generated.C03.body_decryptSymmetricAESCBC = ["plaintext = make([]byte, len(ciphertext))", "cipher.NewCBCDecrypter(block, iv). CryptBlocks(plaintext, ciphertext)", "switch algorithm { case Algorithm_A128CBC_NOPAD, Algorithm_A192CBC_NOPAD, Algorithm_A256CBC_NOPAD: default: plaintext, err = padding.UnpadPKCS7(plaintext, aes.BlockSize) if err != nil { return nil, err } }", "return plaintext, nil"] ∧
    Generated.C03.body_encryptSymmetricAESGCM = ["return encryptSymmetricAEAD(aead, plaintext, nonce, associatedData)"] ∧
    Generated.C03.body_decryptSymmetricAESGCM = ["return decryptSymmetricAEAD(aead, ciphertext, nonce, tag, associatedData)"] ∧
    Generated.C03.body_encryptSymmetricAESCBCHMAC = ["return encryptSymmetricAEAD(aead, plaintext, nonce, associatedData)"] ∧
    Generated.C03.body_decryptSymmetricAESCBCHMAC = ["return decryptSymmetricAEAD(aead, ciphertext, nonce, tag, associatedData)"] ∧
    Generated.C03.body_encryptSymmetricAEAD = ["out := aead.Seal(nil, nonce, plaintext, associatedData)", "tagSize := aead.Overhead()", "return out[0 : len(out)-tagSize], out[len(out)-tagSize:], nil"] ∧
    Generated.C03.body_decryptSymmetricAEAD = ["sealed := make([]byte, 0, len(ciphertext)+len(tag))", "sealed = append(sealed, ciphertext...)", "sealed = append(sealed, tag...)", "return aead.Open(nil, nonce, sealed, associatedData)"] ∧
    Generated.C03.body_encryptSymmetricAESKW = ["return aeskw.Wrap(block, plaintext)"] ∧
    Generated.C03.body_decryptSymmetricAESKW = ["return aeskw.Unwrap(block, ciphertext)"] ∧
    Generated.C03.body_encryptSymmetricChaCha20Poly1305 = ["out := aead.Seal(nil, nonce, plaintext, associatedData)", "return out[0 : len(out)-chacha20poly1305.Overhead], out[len(out)-chacha20poly1305.Overhead:], nil"] ∧
    Generated.C03.body_decryptSymmetricChaCha20Poly1305 = ["sealed := make([]byte, 0, len(ciphertext)+len(tag))", "sealed = append(sealed, ciphertext...)", "sealed = append(sealed, tag...)", "return aead.Open(nil, nonce, sealed, associatedData)"] :=
  ⟨rfl, rfl, rfl, rfl, rfl, rfl, rfl, rfl, rfl, rfl, rfl, rfl⟩

/-- The asymmetric side as rendered from the source: what every entry point does before its
`switch algorithm` (nothing, the octet-key check, or `key.PublicKey()`), and the whole body of each of
the 12 helpers (`key.Raw` into the Go key type, the curve check, ONE stdlib call with the arguments
shown, the `rsa.ErrVerification` mapping) — what `asymPlan` / `asymGuard` / `verifyPublicKey` model.
No state between calls, no parsing of their own. -/
theorem model_assumptions_tie_asym :
    Generated.C03.pre_Encrypt = [] ∧
    Generated.C03.pre_Decrypt = [] ∧
    Generated.C03.pre_EncryptSymmetric = ["var keyBytes []byte", "if key.KeyType() != jwa.OctetSeq || key.Raw(&keyBytes) != nil { return nil, nil, ErrKeyTypeMismatch }"] ∧
    Generated.C03.pre_DecryptSymmetric = ["var keyBytes []byte", "if key.KeyType() != jwa.OctetSeq || key.Raw(&keyBytes) != nil { return nil, ErrKeyTypeMismatch }"] ∧
    Generated.C03.pre_EncryptPublicKey = ["key, err = key.PublicKey()", "if err != nil { return nil, ErrKeyTypeMismatch }"] ∧
    Generated.C03.pre_DecryptPrivateKey = [] ∧
    Generated.C03.pre_SignPrivateKey = [] ∧
    Generated.C03.pre_VerifyPublicKey = ["key, err = key.PublicKey()", "if err != nil { return false, ErrKeyTypeMismatch }"] ∧
    Generated.C03.abody_encryptPublicKeyRSAPKCS1v15 = ["rsaKey := &rsa.PublicKey{}", "if key.Raw(rsaKey) != nil { return nil, ErrKeyTypeMismatch }", "return rsa.EncryptPKCS1v15(rand.Reader, rsaKey, plaintext)"] ∧
    Generated.C03.abody_encryptPublicKeyRSAOAEP = ["rsaKey := &rsa.PublicKey{}", "if key.Raw(rsaKey) != nil { return nil, ErrKeyTypeMismatch }", "return rsa.EncryptOAEP(hash.New(), rand.Reader, rsaKey, plaintext, label)"] ∧
    Generated.C03.abody_decryptPrivateKeyRSAPKCS1v15 = ["rsaKey := &rsa.PrivateKey{}", "if key.Raw(rsaKey) != nil { return nil, ErrKeyTypeMismatch }", "return rsa.DecryptPKCS1v15(rand.Reader, rsaKey, ciphertext)"] ∧
    Generated.C03.abody_decryptPrivateKeyRSAOAEP = ["rsaKey := &rsa.PrivateKey{}", "if key.Raw(rsaKey) != nil { return nil, ErrKeyTypeMismatch }", "return rsa.DecryptOAEP(hash.New(), rand.Reader, rsaKey, ciphertext, label)"] ∧
    Generated.C03.abody_signPrivateKeyRSAPKCS1v15 = ["rsaKey := &rsa.PrivateKey{}", "if key.Raw(rsaKey) != nil { return nil, ErrKeyTypeMismatch }", "return rsa.SignPKCS1v15(rand.Reader, rsaKey, hash, digest)"] ∧
    Generated.C03.abody_signPrivateKeyRSAPSS = ["rsaKey := &rsa.PrivateKey{}", "if key.Raw(rsaKey) != nil { return nil, ErrKeyTypeMismatch }", "return rsa.SignPSS(rand.Reader, rsaKey, hash, digest, nil)"] ∧
    Generated.C03.abody_signPrivateKeyECDSA = ["ecdsaKey := &ecdsa.PrivateKey{}", "if key.Raw(ecdsaKey) != nil || ecdsaKey.Curve != curve { return nil, ErrKeyTypeMismatch }", "return ecdsa.SignASN1(rand.Reader, ecdsaKey, digest)"] ∧
    Generated.C03.abody_signPrivateKeyEdDSA = ["if key.KeyType() != jwa.OKP { return nil, ErrKeyTypeMismatch }", "okpKey, ok := key.(jwk.OKPPrivateKey)", "if !ok { return nil, ErrKeyTypeMismatch }", "switch okpKey.Crv() { case jwa.Ed25519: ed25519Key := &ed25519.PrivateKey{} if okpKey.Raw(ed25519Key) != nil { return nil, ErrKeyTypeMismatch } return ed25519.Sign(*ed25519Key, message), nil default: return nil, ErrKeyTypeMismatch }"] ∧
    Generated.C03.abody_verifyPublicKeyRSAPKCS1v15 = ["rsaKey := &rsa.PublicKey{}", "if key.Raw(rsaKey) != nil { return false, ErrKeyTypeMismatch }", "err := rsa.VerifyPKCS1v15(rsaKey, hash, digest, signature)", "if err != nil { if errors.Is(err, rsa.ErrVerification) { err = nil } return false, err }", "return true, nil"] ∧
    Generated.C03.abody_verifyPublicKeyRSAPSS = ["rsaKey := &rsa.PublicKey{}", "if key.Raw(rsaKey) != nil { return false, ErrKeyTypeMismatch }", "err := rsa.VerifyPSS(rsaKey, hash, digest, signature, nil)", "if err != nil { if errors.Is(err, rsa.ErrVerification) { err = nil } return false, err }", "return true, nil"] ∧
    Generated.C03.abody_verifyPublicKeyECDSA = ["ecdsaKey := &ecdsa.PublicKey{}", "if key.Raw(ecdsaKey) != nil || ecdsaKey.Curve != curve { return false, ErrKeyTypeMismatch }", "return ecdsa.VerifyASN1(ecdsaKey, digest, signature), nil"] ∧
    Generated.C03.abody_verifyPublicKeyEdDSA = ["if key.KeyType() != jwa.OKP { return false, ErrKeyTypeMismatch }", "okpKey, ok := key.(jwk.OKPPublicKey)", "if !ok { return false, ErrKeyTypeMismatch }", "switch okpKey.Crv() { case jwa.Ed25519: ed25519Key := ed25519.PublicKey{} if okpKey.Raw(&ed25519Key) != nil || len(ed25519Key) != ed25519.PublicKeySize { return false, ErrKeyTypeMismatch } return ed25519.Verify(ed25519Key, mesage, signature), nil default: return false, ErrKeyTypeMismatch }"] :=
  ⟨rfl, rfl, rfl, rfl, rfl, rfl, rfl, rfl, rfl, rfl, rfl, rfl, rfl, rfl, rfl, rfl, rfl, rfl, rfl, rfl⟩

/-! ## 7. signatures -/

/-- The kinds of key the harness exercises. -/
def listedKinds : List KeyKind :=
  [.oct, .rsaPriv, .rsaPub, .ecPriv 256, .ecPub 256, .ecPriv 384, .ecPub 384, .ecPriv 521, .ecPub 521,
   .ed25519Priv, .ed25519Pub, .x25519Priv, .x25519Pub]

/-- The verify-side dispatch accepts (the public half of) every key the sign-side accepts, and
only keys of the kind and curve the name denotes are accepted at all: ES256 takes P-256 only (the
unchanged code took any curve), RS*/PS* RSA only, EdDSA Ed25519 only. -/
theorem sig_dispatch_consistent :
    ∀ alg ∈ Generated.C03.supportedSignature, ∀ k ∈ listedKinds,
      (asymOutcome "SignPrivateKey" alg k = .ok () → asymOutcome "VerifyPublicKey" alg k = .ok ()) ∧
      (asymOutcome "SignPrivateKey" alg k = .ok () ∨
        asymOutcome "SignPrivateKey" alg k = .err eKeyTypeMismatch) ∧
      (asymOutcome "SignPrivateKey" "ES256" k = .ok () ↔ k = .ecPriv 256) ∧
      (asymOutcome "SignPrivateKey" "ES384" k = .ok () ↔ k = .ecPriv 384) ∧
      (asymOutcome "SignPrivateKey" "ES512" k = .ok () ↔ k = .ecPriv 521) ∧
      (asymOutcome "SignPrivateKey" "RS256" k = .ok () ↔ k = .rsaPriv) ∧
      (asymOutcome "SignPrivateKey" "EdDSA" k = .ok () ↔ k = .ed25519Priv) := by
  decide

/-- Sign-side and verify-side dispatch agree for EVERY algorithm name and key kind: if `SignPrivateKey`
proceeds with the plan `a` (helper, hash, curve — computed from the generated switch, `getSHAHash`
and `ecdsaCurve` tables), `VerifyPublicKey` on the same key proceeds with a plan `b` whose helper
calls the counterpart stdlib verifier with the SAME hash and the SAME curve.  (That both sides get the
same hash is thus a theorem about the generated tables, not an assumption of the scheme.) -/
theorem sig_dispatch_agrees (alg : String) (kind : KeyKind) (a : AsymPlan)
    (h : asymDispatch "SignPrivateKey" alg kind = .ok a) :
    ∃ b, asymDispatch "VerifyPublicKey" alg kind = .ok b ∧ PlansMatch verifyCallOf a b :=
  sig_dispatch_agrees_lemma alg kind a h

example : asymDispatch "SignPrivateKey" "PS384" .rsaPriv =
    .ok { helper := { name := "signPrivateKeyRSAPSS", rawType := "rsa.PrivateKey", guardErr := "ErrKeyTypeMismatch",
                      stdCall := "rsa.SignPSS", mapsErrVerification := false, checksCurve := false },
          hash := 384, curve := 0 } := by decide

/-- Verification accepts the signatures made by the matching private key.  The scheme is a function
`F` of the dispatch result; `F` is lawful if matching plans (counterpart stdlib call, same hash, same
curve) give schemes whose verifier accepts the signer's output.  No dispatch hypothesis. -/
theorem sig_verify_sign {SK PK : Type} (F : AsymPlan → SigScheme SK PK) (hF : SigFamilyLawful F)
    (alg : String) (kind : KeyKind) (sk : SK) (digest rand sig : Bytes)
    (hsign : signPrivateKey F alg kind sk digest rand = .ok sig) :
    ∃ a, asymDispatch "SignPrivateKey" alg kind = .ok a ∧
      verifyPublicKey F alg kind ((F a).pub sk) digest sig = .ok true := by
  unfold signPrivateKey at hsign
  cases ho : asymDispatch "SignPrivateKey" alg kind with
  | ok a =>
    rw [ho] at hsign
    simp only at hsign
    obtain ⟨b, hb, hm⟩ := sig_dispatch_agrees alg kind a ho
    refine ⟨a, rfl, ?_⟩
    unfold verifyPublicKey
    rw [hb]
    simp only [hF a b hm sk digest rand sig hsign]
  | err e => rw [ho] at hsign; cases hsign
  | panic w => rw [ho] at hsign; cases hsign

/-- The special case of one scheme for all plans (the earlier formulation). -/
theorem sig_verify_sign_all {SK PK : Type} (S : SigScheme SK PK) (hS : S.Lawful) (alg : String)
    (kind : KeyKind) (sk : SK) (digest rand sig : Bytes)
    (hsign : signPrivateKey (fun _ => S) alg kind sk digest rand = .ok sig) :
    verifyPublicKey (fun _ => S) alg kind (S.pub sk) digest sig = .ok true := by
  obtain ⟨a, _, hv⟩ := sig_verify_sign (fun _ => S) (fun _ _ _ sk d r s h => hS sk d r s h)
    alg kind sk digest rand sig hsign
  exact hv

/-- A trivially lawful scheme (signature = digest) shows the hypotheses are satisfiable. -/
example : ∃ sig, signPrivateKey (SK := Unit) (PK := Unit)
      (fun _ => { pub := id, sign := fun _ d _ => .ok d, verify := fun _ d s => if d = s then .valid else .invalid })
      "ES256" (.ecPriv 256) () [1, 2, 3] [] = .ok sig := ⟨[1, 2, 3], by decide⟩

/-- A verification failure reported by the stdlib verifier is `(false, nil)`, never an error. -/
theorem verify_false_not_error {SK PK : Type} (F : AsymPlan → SigScheme SK PK) (alg : String)
    (kind : KeyKind) (pk : PK) (digest sig : Bytes) (pl : AsymPlan)
    (hdisp : asymDispatch "VerifyPublicKey" alg kind = .ok pl)
    (hinv : (F pl).verify pk digest sig = .invalid) :
    verifyPublicKey F alg kind pk digest sig = .ok false := by
  unfold verifyPublicKey
  rw [hdisp]
  simp only [hinv]

/-- … and that mapping is what the source does: every RSA verify helper maps
`rsa.ErrVerification` to nil, the ECDSA/Ed25519 helpers return the stdlib's boolean. -/
theorem verify_false_not_error_facts :
    ∀ h ∈ Generated.C03.asymHelpers,
      (h.stdCall = "rsa.VerifyPKCS1v15" ∨ h.stdCall = "rsa.VerifyPSS" → h.mapsErrVerification = true) := by
  decide

/-! ## 8. RSA: concrete lawful instances of the abstract signature scheme

`Kit.Crypto.Rsa` (RFC 8017 over `Nat`) is the independent implementation the harness compares the
real RS*/PS*/RSA1_5/RSA-OAEP* outputs with; here: its signature schemes are lawful under the RSA
key equation `(m^d)^e ≡ m (mod n)` (the hypothesis carried by `RsaKey.inv`; its truth for real
keys is number theory about how keys are generated and is not claimed). -/
open Kit.Crypto in
/-- `modPow` is `b^e mod m`, and I2OSP/OS2IP are mutually inverse (RFC 8017 §4). -/
theorem rsa_primitives_spec :
    (∀ b e m, modPow b e m = b ^ e % m) ∧
    (∀ l : Bytes, i2osp l.length (os2ip l) = l) ∧
    (∀ len x, os2ip (i2osp len x) = x % 256 ^ len) :=
  ⟨modPow_eq, i2osp_os2ip, os2ip_i2osp⟩

open Kit.Crypto in
/-- Textbook RSA: verification accepts every signature made with the matching private key, for every
key satisfying `(m^d)^e ≡ m (mod n)`. -/
theorem rsa_verify_sign : rsaTextbook.Lawful := by
  intro key digest r sig hs
  simp only [rsaTextbook] at hs ⊢
  injection hs with hs
  subst hs
  have hm : os2ip digest % key.n < key.n := Nat.mod_lt _ key.npos
  have hs_lt : modPow (os2ip digest % key.n) key.d key.n < 256 ^ key.k := by
    rw [modPow_eq]
    exact Nat.lt_trans (Nat.mod_lt _ key.npos) key.hhi
  rw [if_pos]
  refine ⟨i2osp_length _ _, ?_⟩
  rw [os2ip_i2osp, Nat.mod_eq_of_lt hs_lt]
  exact rsa_vp1_sp1 key _ hm

open Kit.Crypto in
/-- RSASSA-PKCS1-v1_5 as implemented in `Kit.Crypto.Rsa` (EMSA-PKCS1-v1_5 encoding, length and range
checks, I2OSP comparison): VERIFY accepts what SIGN produced, for every hash and every such key. -/
theorem rsa_pkcs1v15_verify_sign (h : RsaHash) : (rsaPkcs1v15 h).Lawful := by
  intro key digest r sig hs
  simp only [rsaPkcs1v15] at hs ⊢
  cases hsig : rsaSignPkcs1v15 key.n key.d h digest with
  | none => rw [hsig] at hs; cases hs
  | some s =>
    rw [hsig] at hs
    injection hs with hs
    subst hs
    unfold rsaSignPkcs1v15 at hsig
    simp only [key.hk] at hsig
    by_cases hd : digest.length ≠ h.size
    · rw [if_pos hd] at hsig; cases hsig
    · rw [if_neg hd] at hsig
      cases hem : emsaPkcs1v15 h digest key.k with
      | none => rw [hem] at hsig; cases hsig
      | some em =>
        rw [hem] at hsig
        simp only [Option.map_some] at hsig
        injection hsig with hsig
        obtain ⟨hlen, rest, hrest⟩ := emsaPkcs1v15_shape h digest key.k em hem
        -- the message representative is below the modulus
        have hmlt : os2ip em < key.n := by
          rw [hrest, os2ip_cons_zero]
          have hr : rest.length = key.k - 1 := by
            have := hlen; rw [hrest] at this; simp at this; omega
          have := os2ip_lt rest
          rw [hr] at this
          exact Nat.lt_of_lt_of_le this key.hlo
        have hslt : modPow (os2ip em) key.d key.n < key.n := by
          rw [modPow_eq]; exact Nat.mod_lt _ key.npos
        have hos : os2ip s = modPow (os2ip em) key.d key.n := by
          rw [← hsig, os2ip_i2osp, Nat.mod_eq_of_lt (Nat.lt_trans hslt key.hhi)]
        have hsl : s.length = key.k := by rw [← hsig]; exact i2osp_length _ _
        have hv : rsaVerifyPkcs1v15 key.n key.e h digest s = true := by
          unfold rsaVerifyPkcs1v15
          simp only [key.hk]
          rw [if_neg (by rw [hos]; omega), hem]
          simp only
          rw [hos, rsa_vp1_sp1 key _ hmlt, ← hlen, i2osp_os2ip]
          simp
        rw [if_pos hv]

open Kit.Crypto in
/-- RSA encryption of `Kit.Crypto.Rsa`: decryption inverts encryption for RSAES-PKCS1-v1_5 (any
admissible padding string) and RSAES-OAEP (any hash, label, seed), under the key equation. -/
theorem rsa_decrypt_encrypt (key : RsaKey) :
    (∀ msg ps ct, rsaEncryptPkcs1v15 key.n key.e msg ps = some ct →
      rsaDecryptPkcs1v15 key.n key.d ct = some msg) ∧
    (∀ (h : RsaHash) label msg seed ct, rsaEncryptOaep key.n key.e h label msg seed = some ct →
      rsaDecryptOaep key.n key.d h label ct = some msg) :=
  ⟨rsaDecryptPkcs1v15_encrypt key, rsaDecryptOaep_encrypt key⟩

/-- The plan-indexed RSA family (hash taken from the dispatch result) is lawful on matching plans. -/
theorem rsa_sig_family_lawful : SigFamilyLawful rsaSigFamily := by
  intro a b hm sk d r s hs
  obtain ⟨_, _, hh, _⟩ := hm
  have : rsaSigFamily b = rsaSigFamily a := by simp [rsaSigFamily, rsaHashOfPlan, hh]
  rw [this]
  exact rsa_pkcs1v15_verify_sign (rsaHashOfPlan a) sk d r s hs

/-- `sig_verify_sign` has a concrete satisfiable instance: textbook RSA with the toy key
(n = 187, e = 7, d = 23), dispatched as RS256 with an RSA private key. -/
example : ∃ sig, signPrivateKey (fun _ => rsaTextbook) "RS256" .rsaPriv toyRsaKey [1, 2, 3] [] = .ok sig ∧
    verifyPublicKey (fun _ => rsaTextbook) "RS256" .rsaPriv (rsaTextbook.pub toyRsaKey) [1, 2, 3] sig = .ok true := by
  have hs : ∃ sig, signPrivateKey (fun _ => rsaTextbook) "RS256" .rsaPriv toyRsaKey [1, 2, 3] [] = .ok sig := by
    have hok : (asymDispatch "SignPrivateKey" "RS256" .rsaPriv).isOk = true := by decide
    cases hd : asymDispatch "SignPrivateKey" "RS256" .rsaPriv with
    | ok a => exact ⟨_, by simp only [signPrivateKey, hd]; rfl⟩
    | err e => rw [hd] at hok; cases hok
    | panic w => rw [hd] at hok; cases hok
  obtain ⟨sig, hsig⟩ := hs
  exact ⟨sig, hsig, sig_verify_sign_all rsaTextbook rsa_verify_sign "RS256" .rsaPriv toyRsaKey [1, 2, 3] [] sig hsig⟩

/-! ## 9. more structure -/

/-- RFC 7518 §5.2.2.1: the MAC input `AD ‖ IV ‖ C ‖ AL` is an injective encoding of `(AD, IV, C)`
(for IVs of one length and `AD` shorter than 2^61 bytes) — the 64-bit bit length `AL` is what rules
out moving bytes between the associated data and the IV/ciphertext. -/
theorem mac_input_injective (ad iv ct ad' iv' ct' : Bytes) (hiv : iv.length = iv'.length)
    (hal : ad.length < 2305843009213693952) (hal' : ad'.length < 2305843009213693952)
    (h : macInput ad iv ct = macInput ad' iv' ct') : ad = ad' ∧ iv = iv' ∧ ct = ct' :=
  macInput_inj ad iv ct ad' iv' ct' hiv hal hal' h

example : macInput [1] [2] [] ≠ macInput [] [1] [2] := by decide

/-- For EVERY algorithm name and EVERY key kind (also EC keys of arbitrary size): whenever the
sign-side dispatch accepts the key, the verify-side dispatch accepts its public half.  With it
`sig_verify_sign` needs no dispatch hypothesis. -/
theorem sig_dispatch_consistent_all (alg : String) (kind : KeyKind)
    (h : asymOutcome "SignPrivateKey" alg kind = .ok ()) :
    asymOutcome "VerifyPublicKey" alg kind = .ok () := by
  by_cases hm : alg ∈ Generated.C03.supportedSignature
  · have hp := sigPairOK_all alg hm
    unfold sigPairOK at hp
    cases hS : asymPlan Generated.C03.sw_SignPrivateKey alg with
    | ok a =>
      cases hV : asymPlan Generated.C03.sw_VerifyPublicKey alg with
      | ok b =>
        rw [hS, hV] at hp
        simp only at hp
        have hgS : asymGuard a kind = none := by
          simp only [asymOutcome, String.reduceEq, or_false, if_false, if_true, hS] at h
          cases hg : asymGuard a kind with
          | none => rfl
          | some e => simp [hg] at h
        have hgV := asymGuard_pair a b hp kind hgS
        simp only [asymOutcome, String.reduceEq, or_true, if_false, if_true, hV, hgV]
      | err e => rw [hS, hV] at hp; cases hp
      | panic w => rw [hS, hV] at hp; cases hp
    | err e => rw [hS] at hp; cases hp
    | panic w => rw [hS] at hp; cases hp
  · exfalso
    have hsub : ∀ c ∈ Generated.C03.sw_SignPrivateKey.cases, ∀ x ∈ c.1, x ∈ Generated.C03.supportedSignature := by
      decide
    have hnone : lookupSwitch Generated.C03.sw_SignPrivateKey alg = none := by
      unfold lookupSwitch
      rw [Option.map_eq_none_iff, List.find?_eq_none]
      intro c hc hcon
      exact hm (hsub c hc alg (by simpa using hcon))
    simp [asymOutcome, asymPlan, hnone] at h

/-- The generic entry points: for every listed symmetric name `Encrypt`/`Decrypt` ARE
`EncryptSymmetric`/`DecryptSymmetric` (this is what failed for the NOPAD names on the unchanged
tree), so the round trip and every sentinel theorem above holds for them as well. -/
theorem encrypt_decrypt_are_symmetric {SK PK : Type} (P : Prims) (F : AsymPlan → PkeScheme SK PK) (pk : PK)
    (sk : SK) (rand : Bytes) (alg : String) (h : alg ∈ Generated.C03.supportedSymmetric)
    (key : Key) (pt ct nonce tag ad : Bytes) :
    encrypt P F pk rand pt alg key nonce ad = encryptSymmetric P pt alg key nonce ad ∧
    decrypt P F sk ct alg key nonce tag ad = decryptSymmetric P ct alg key nonce tag ad := by
  obtain ⟨d, hd, hf⟩ := dispatch_total.1 alg h
  obtain ⟨_, _, hE, hD⟩ := symFacts_common hf
  unfold encrypt decrypt
  rw [hE, hD]
  exact ⟨rfl, rfl⟩

/-- Round trip through the generic `Encrypt` / `Decrypt`. -/
theorem encrypt_decrypt_roundtrip {SK PK : Type} (P : Prims) (F : AsymPlan → PkeScheme SK PK) (pk : PK)
    (sk : SK) (rand : Bytes) (hS : P.Std) (hL : P.LawfulPrims) (alg : String) (d : Denotes)
    (h : alg ∈ Generated.C03.supportedSymmetric) (hd : denotes alg = some d)
    (key pt nonce ad : Bytes) (hk : key.length = d.keyLen)
    (hn : d.family ≠ .kw → nonce.length = d.nonceLen)
    (hnp : d.nopad = true → pt.length % 16 = 0)
    (hkw : d.family = .kw → pt.length % 8 = 0 ∧ 16 ≤ pt.length) :
    ∃ ct tag, encrypt P F pk rand pt alg ⟨.oct, key⟩ nonce ad = .ok (ct, tag) ∧ tag.length = d.tagLen ∧
      decrypt P F sk ct alg ⟨.oct, key⟩ nonce tag ad = .ok pt := by
  obtain ⟨ct, tag, h1, h2, h3⟩ := sym_roundtrip P hS hL alg d h hd key pt nonce ad hk hn hnp hkw
  refine ⟨ct, tag, ?_, h2, ?_⟩
  · rw [(encrypt_decrypt_are_symmetric P F pk sk rand alg h ⟨.oct, key⟩ pt ct nonce tag ad).1]; exact h1
  · rw [(encrypt_decrypt_are_symmetric P F pk sk rand alg h ⟨.oct, key⟩ pt ct nonce tag ad).2]; exact h3

/-! ## 10. public-key encryption -/

/-- Decryption inverts encryption through dispatch and guards, for every family of public-key schemes
indexed by the dispatch result that is lawful on matching plans, every name and every key kinds the
two dispatches accept.  (That the decryption helper gets the counterpart primitive with the same
hash is `pke_dispatch_agrees_lemma`, a fact about the generated tables.) -/
theorem pke_decrypt_encrypt {SK PK : Type} (F : AsymPlan → PkeScheme SK PK) (hF : PkeFamilyLawful F)
    (alg : String) (kindE kindD : KeyKind) (sk : SK) (msg label rand ct : Bytes) (a b : AsymPlan)
    (ha : asymDispatch "EncryptPublicKey" alg kindE = .ok a)
    (hb : asymDispatch "DecryptPrivateKey" alg kindD = .ok b)
    (he : encryptPublicKey F alg kindE ((F a).pub sk) msg label rand = .ok ct) :
    decryptPrivateKey F alg kindD sk ct label = .ok msg := by
  unfold encryptPublicKey at he
  unfold decryptPrivateKey
  rw [ha] at he
  rw [hb]
  exact hF a b (pke_dispatch_agrees_lemma alg kindE kindD a b ha hb) sk msg label rand ct he

/-- Which keys the encryption names take: every listed name encrypts under an RSA key (public, or
private through `key.PublicKey()`) and decrypts under an RSA private key ONLY — a public key, or any
other kind, yields `ErrKeyTypeMismatch`. -/
theorem pke_dispatch_rsa :
    ∀ alg ∈ Generated.C03.supportedAsymmetric,
      asymOutcome "EncryptPublicKey" alg .rsaPub = .ok () ∧ asymOutcome "EncryptPublicKey" alg .rsaPriv = .ok () ∧
      ∀ k ∈ listedKinds,
        (asymOutcome "DecryptPrivateKey" alg k = .ok () ↔ k = .rsaPriv) ∧
        (k ≠ .rsaPriv → asymOutcome "DecryptPrivateKey" alg k = .err eKeyTypeMismatch) := by
  decide

open Kit.Crypto in
/-- The RSA encryption schemes of `Kit.Crypto.Rsa` are lawful under the key equation, and so is the
plan-indexed family built from them: `pke_decrypt_encrypt` has a concrete instance. -/
theorem rsa_pke_lawful : rsaPkcs1v15Pke.Lawful ∧ (∀ h : RsaHash, (rsaOaepPke h).Lawful) ∧
    PkeFamilyLawful rsaPkeFamily := by
  have h15 : rsaPkcs1v15Pke.Lawful := by
    intro key m l r c he
    simp only [rsaPkcs1v15Pke] at he ⊢
    cases hc : rsaEncryptPkcs1v15 key.n key.e m r with
    | none => rw [hc] at he; cases he
    | some c' =>
      rw [hc] at he; injection he with he; subst he
      rw [rsaDecryptPkcs1v15_encrypt key m r c' hc]
  have hoaep : ∀ h : RsaHash, (rsaOaepPke h).Lawful := by
    intro h key m l r c he
    simp only [rsaOaepPke] at he ⊢
    cases hc : rsaEncryptOaep key.n key.e h l m r with
    | none => rw [hc] at he; cases he
    | some c' =>
      rw [hc] at he; injection he with he; subst he
      rw [rsaDecryptOaep_encrypt key h l m r c' hc]
  refine ⟨h15, hoaep, ?_⟩
  intro a b hm sk m l r c he
  obtain ⟨hcall, hq, hh, _⟩ := hm
  have hhash : rsaHashOfPlan b = rsaHashOfPlan a := by simp [rsaHashOfPlan, hh]
  by_cases hoa : a.helper.stdCall = "rsa.EncryptOAEP"
  · have hb : b.helper.stdCall = "rsa.DecryptOAEP" := by rw [hcall, hoa]; decide
    have fa : rsaPkeFamily a = rsaOaepPke (rsaHashOfPlan a) := by simp [rsaPkeFamily, hoa]
    have fb : rsaPkeFamily b = rsaOaepPke (rsaHashOfPlan a) := by simp [rsaPkeFamily, hb, hhash]
    rw [fa] at he; rw [fb]
    exact hoaep _ sk m l r c he
  · by_cases h15a : a.helper.stdCall = "rsa.EncryptPKCS1v15"
    · have hb : b.helper.stdCall = "rsa.DecryptPKCS1v15" := by rw [hcall, h15a]; decide
      have fa : rsaPkeFamily a = rsaPkcs1v15Pke := by simp [rsaPkeFamily, h15a]
      have fb : rsaPkeFamily b = rsaPkcs1v15Pke := by simp [rsaPkeFamily, hb]
      rw [fa] at he; rw [fb]
      exact h15 sk m l r c he
    · exact absurd (by simp [decCallOf, hoa, h15a]) hq

/-! ## 11. totality of the asymmetric entry points and of the generic `Encrypt` / `Decrypt` -/

/-- For EVERY function name, EVERY string as algorithm name and EVERY key kind the asymmetric dispatch
ends in one of three outcomes: accepted, `ErrKeyTypeMismatch`, `ErrUnsupportedAlgorithm` — never a
panic, also for names shorter than the slices `getSHAHash` (`alg[len-3:]`) and `expectedKeySize`
(`alg[1:4]`) take: those tables are consulted only for names that occur in a case list. -/
theorem asym_outcome_total (fn alg : String) (k : KeyKind) :
    asymOutcome fn alg k = .ok () ∨ asymOutcome fn alg k = .err eKeyTypeMismatch ∨
    asymOutcome fn alg k = .err eUnsupportedAlgorithm := by
  rw [asymOutcome_eq]
  rcases asymPlan_total _ (asymSwitchOf_mem fn) alg with h | ⟨pl, h, hg⟩
  · rw [h]; right; right; rfl
  · rw [h]
    simp only
    rcases asymGuard_cases pl (asymKeySeen fn k) with hn | hs
    · rw [hn]; left; rfl
    · rw [hs, hg]; right; left; rfl

theorem asym_never_panics (fn alg : String) (k : KeyKind) : (asymOutcome fn alg k).isPanic = false := by
  rcases asym_outcome_total fn alg k with h | h | h <;> rw [h] <;> rfl

example : asymOutcome "SignPrivateKey" "" .rsaPriv = .err eUnsupportedAlgorithm ∧
    asymOutcome "VerifyPublicKey" "ES" (.ecPub 256) = .err eUnsupportedAlgorithm ∧
    asymOutcome "DecryptPrivateKey" "RSA-OAEP-256" .rsaPub = .err eKeyTypeMismatch := by decide

/-- An unlisted name is `ErrUnsupportedAlgorithm` at all four asymmetric entry points, whatever the key. -/
theorem asym_unknown_name (alg : String) (k : KeyKind) :
    (alg ∉ Generated.C03.supportedAsymmetric →
      asymOutcome "EncryptPublicKey" alg k = .err eUnsupportedAlgorithm ∧
      asymOutcome "DecryptPrivateKey" alg k = .err eUnsupportedAlgorithm) ∧
    (alg ∉ Generated.C03.supportedSignature →
      asymOutcome "SignPrivateKey" alg k = .err eUnsupportedAlgorithm ∧
      asymOutcome "VerifyPublicKey" alg k = .err eUnsupportedAlgorithm) := by
  have key : ∀ fn (L : List String), (∀ c ∈ (asymSwitchOf fn).cases, ∀ x ∈ c.1, x ∈ L) → alg ∉ L →
      asymOutcome fn alg k = .err eUnsupportedAlgorithm := by
    intro fn L hsub hn
    rw [asymOutcome_eq]
    rcases asymPlan_total _ (asymSwitchOf_mem fn) alg with h | ⟨pl, h, _⟩
    · rw [h]
    · obtain ⟨c, hc, hac⟩ := asymPlan_ok_mem h
      exact absurd (hsub c hc alg hac) hn
  exact ⟨fun hn => ⟨key "EncryptPublicKey" _ (by decide) hn, key "DecryptPrivateKey" _ (by decide) hn⟩,
         fun hn => ⟨key "SignPrivateKey" _ (by decide) hn, key "VerifyPublicKey" _ (by decide) hn⟩⟩

/-- Which key kinds the listed names take, at all four entry points (over the 13 kinds of
`listedKinds`): encryption under an RSA key (private ones through `key.PublicKey()`), decryption under
an RSA private key only; signing under the PRIVATE key of the family/curve the name denotes,
verification under the private or public key of that family/curve; every other kind is
`ErrKeyTypeMismatch`. -/
theorem asym_key_kinds :
    (∀ alg ∈ Generated.C03.supportedAsymmetric, ∀ k ∈ listedKinds,
      (asymOutcome "EncryptPublicKey" alg k = .ok () ↔ kindBase k = "rsa") ∧
      (asymOutcome "DecryptPrivateKey" alg k = .ok () ↔ k = .rsaPriv) ∧
      (kindBase k ≠ "rsa" → asymOutcome "EncryptPublicKey" alg k = .err eKeyTypeMismatch) ∧
      (k ≠ .rsaPriv → asymOutcome "DecryptPrivateKey" alg k = .err eKeyTypeMismatch)) ∧
    (∀ alg ∈ Generated.C03.supportedSignature, ∀ k ∈ listedKinds,
      (asymOutcome "SignPrivateKey" alg k = .ok () ↔ (kindBase k = wantBase alg ∧ kindIsPriv k = true)) ∧
      (asymOutcome "VerifyPublicKey" alg k = .ok () ↔ kindBase k = wantBase alg) ∧
      (¬ (kindBase k = wantBase alg ∧ kindIsPriv k = true) →
        asymOutcome "SignPrivateKey" alg k = .err eKeyTypeMismatch) ∧
      (kindBase k ≠ wantBase alg → asymOutcome "VerifyPublicKey" alg k = .err eKeyTypeMismatch)) := by
  decide

/-- The generic `Encrypt` / `Decrypt` on a name that is in neither supported list: an error — the
unsupported-algorithm sentinel, or the key-type sentinel when a non-octet key meets a name of the
symmetric case list — for every key, every scheme family, all inputs.  No panic, no output. -/
theorem encrypt_decrypt_unknown_name {SK PK : Type} (P : Prims) (F : AsymPlan → PkeScheme SK PK) (pk : PK)
    (sk : SK) (rand : Bytes) (alg : String)
    (h : alg ∉ Generated.C03.supportedSymmetric) (h' : alg ∉ Generated.C03.supportedAsymmetric)
    (key : Key) (pt ct nonce tag ad : Bytes) :
    (encrypt P F pk rand pt alg key nonce ad = .err eUnsupportedAlgorithm ∨
      encrypt P F pk rand pt alg key nonce ad = .err eKeyTypeMismatch) ∧
    (decrypt P F sk ct alg key nonce tag ad = .err eUnsupportedAlgorithm ∨
      decrypt P F sk ct alg key nonce tag ad = .err eKeyTypeMismatch) := by
  have hsym : encryptSymmetric P pt alg key nonce ad = .err eUnsupportedAlgorithm ∨
      encryptSymmetric P pt alg key nonce ad = .err eKeyTypeMismatch := by
    obtain ⟨kind, raw⟩ := key
    by_cases hk : kind = .oct
    · subst hk; exact Or.inl (guards_unknown_name P alg h raw pt ct nonce tag ad).1
    · exact Or.inr (guards_key_kind P alg ⟨kind, raw⟩ hk pt ct nonce tag ad).1
  have hsymD : decryptSymmetric P ct alg key nonce tag ad = .err eUnsupportedAlgorithm ∨
      decryptSymmetric P ct alg key nonce tag ad = .err eKeyTypeMismatch := by
    obtain ⟨kind, raw⟩ := key
    by_cases hk : kind = .oct
    · subst hk; exact Or.inl (guards_unknown_name P alg h raw pt ct nonce tag ad).2
    · exact Or.inr (guards_key_kind P alg ⟨kind, raw⟩ hk pt ct nonce tag ad).2
  have hpkE : ∀ kind, asymDispatch "EncryptPublicKey" alg kind = .err eUnsupportedAlgorithm := by
    intro kind
    have := (asym_unknown_name alg kind).1 h'
    have hE := this.1
    rw [asymOutcome_of_dispatch] at hE
    cases hd : asymDispatch "EncryptPublicKey" alg kind with
    | ok a => rw [hd] at hE; cases hE
    | err e => rw [hd] at hE; injection hE with hE; rw [hE]
    | panic w => rw [hd] at hE; cases hE
  have hpkD : ∀ kind, asymDispatch "DecryptPrivateKey" alg kind = .err eUnsupportedAlgorithm := by
    intro kind
    have := (asym_unknown_name alg kind).1 h'
    have hE := this.2
    rw [asymOutcome_of_dispatch] at hE
    cases hd : asymDispatch "DecryptPrivateKey" alg kind with
    | ok a => rw [hd] at hE; cases hE
    | err e => rw [hd] at hE; injection hE with hE; rw [hE]
    | panic w => rw [hd] at hE; cases hE
  have hroutesE : ∀ c ∈ Generated.C03.sw_Encrypt.cases, c.2.1 = "EncryptSymmetric" ∨ c.2.1 = "EncryptPublicKey" := by
    decide
  have hroutesD : ∀ c ∈ Generated.C03.sw_Decrypt.cases, c.2.1 = "DecryptSymmetric" ∨ c.2.1 = "DecryptPrivateKey" := by
    decide
  have hdE : Generated.C03.sw_Encrypt.dflt = eUnsupportedAlgorithm := by decide
  have hdD : Generated.C03.sw_Decrypt.dflt = eUnsupportedAlgorithm := by decide
  constructor
  · unfold encrypt encryptRoute
    cases hl : lookupSwitch Generated.C03.sw_Encrypt alg with
    | none => left; simp only [Option.map_none, hdE]
    | some ce =>
      have hmem : ∃ c ∈ Generated.C03.sw_Encrypt.cases, c.2 = ce := by
        unfold lookupSwitch at hl
        rw [Option.map_eq_some_iff] at hl
        obtain ⟨c, hfind, hc2⟩ := hl
        exact ⟨c, List.mem_of_find?_eq_some hfind, hc2⟩
      obtain ⟨c, hc, hce⟩ := hmem
      rcases hroutesE c hc with hr | hr
      · simp only [Option.map_some, ← hce, hr]; exact hsym
      · simp only [Option.map_some, ← hce, hr, encryptPublicKey, hpkE, Outcome.bind]
        first | trivial | (left; rfl)
  · unfold decrypt decryptRoute
    cases hl : lookupSwitch Generated.C03.sw_Decrypt alg with
    | none => left; simp only [Option.map_none, hdD]
    | some ce =>
      have hmem : ∃ c ∈ Generated.C03.sw_Decrypt.cases, c.2 = ce := by
        unfold lookupSwitch at hl
        rw [Option.map_eq_some_iff] at hl
        obtain ⟨c, hfind, hc2⟩ := hl
        exact ⟨c, List.mem_of_find?_eq_some hfind, hc2⟩
      obtain ⟨c, hc, hce⟩ := hmem
      rcases hroutesD c hc with hr | hr
      · simp only [Option.map_some, ← hce, hr]; exact hsymD
      · simp only [Option.map_some, ← hce, hr, decryptPrivateKey, hpkD]
        first | trivial | (left; rfl)

/-! ## 12. tampering with an AEAD message at glue level (GCM, CBC-HMAC, (X)ChaCha20-Poly1305) -/

/-- The helpers hand the AEAD the tuple `(nonce, ciphertext ‖ tag, AD)`.  Because the tag length is
fixed, the join is injective: ANY change to the ciphertext, the tag, the nonce or the associated
data changes that tuple — nothing the caller can alter is dropped or conflated by the glue code. -/
theorem aead_input_injective (ct tag ct' tag' nonce nonce' ad ad' : Bytes) (ht : tag'.length = tag.length)
    (hchanged : (ct', nonce', tag', ad') ≠ (ct, nonce, tag, ad)) :
    (nonce', ct' ++ tag', ad') ≠ (nonce, ct ++ tag, ad) := by
  intro heq
  obtain ⟨h1, h2, h3, h4⟩ := aead_input_inj ct tag ct' tag' nonce nonce' ad ad' ht heq
  exact hchanged (by rw [h1, h2, h3, h4])

example : ([1, 2], [9], [3], []) ≠ (([1] : Bytes), ([9] : Bytes), ([2, 3] : Bytes), ([] : Bytes)) := by decide

/-- Glue-level tamper statement for every listed AEAD name: take the sealed message
`(ct, nonce, tag, ad)` (tag of the length the name denotes) and ANY different presented
`(ct', nonce', tag', ad')`.  Under the explicit no-forgery hypothesis about the PRESENTED tuple — the
primitive `a` the name is decrypted with does not open `(nonce', ct'‖tag', ad')`, which differs from
the sealed tuple by `aead_input_injective` — `DecryptSymmetric` returns an error, hence no output.
(The hypothesis is about the primitive's strength and is not claimed; the glue adds no way around
it: wrong nonce/tag sizes are sentinels, everything else reaches `Open` unchanged.) -/
theorem sym_aead_tamper_rejected (P : Prims) (hS : P.Std) (alg : String) (d : Denotes)
    (h : alg ∈ Generated.C03.supportedSymmetric) (hd : denotes alg = some d)
    (key : Bytes) (hk : key.length = d.keyLen) (a : AEAD) (ha : SymAeadOf P alg d key a)
    (ct nonce tag ad : Bytes) (htl : tag.length = d.tagLen)
    (ct' nonce' tag' ad' : Bytes) (hchanged : (ct', nonce', tag', ad') ≠ (ct, nonce, tag, ad))
    (hNoForgery : (nonce', ct' ++ tag', ad') ≠ (nonce, ct ++ tag, ad) →
      ∃ e, a.doOpen nonce' (ct' ++ tag') ad' = .err e) :
    ∃ e, decryptSymmetric P ct' alg ⟨.oct, key⟩ nonce' tag' ad' = .err e := by
  have hf := symFacts_of_mem h hd
  have hk' : ¬ key.length ≠ d.keyLen := by omega
  rcases ha with ⟨hfam, rfl⟩ | ⟨hfam, c, p, hc, hp, rfl⟩ | ⟨hfam, c, hc, rfl⟩
  · obtain ⟨_, _, _, htg⟩ := symFacts_gcm hf hfam
    rw [decNF_gcm P hf hfam, if_neg hk']
    exact decryptAEAD_tampered _ nonce ad ct tag (by rw [hS.gcmOverhead, htl, htg]) ct' nonce' tag' ad' hchanged hNoForgery
  · obtain ⟨c2, p2, hc2, hp2, hkl, hsum, htg, _⟩ := symFacts_cbchmac hf hfam
    rw [hc] at hc2; injection hc2 with hc2; subst hc2
    rw [hp] at hp2; injection hp2 with hp2; subst hp2
    rw [decNF_cbchmac P hf hfam c p hc hp hkl hsum, if_neg hk']
    exact decryptAEAD_tampered _ nonce ad ct tag (by show tag.length = p.tagSize; omega) ct' nonce' tag' ad' hchanged hNoForgery
  · obtain ⟨c2, hc2, hkl, hnl, htg, _, hctor⟩ := symFacts_chacha hf hfam
    rw [hc] at hc2; injection hc2 with hc2; subst hc2
    obtain ⟨_, hov⟩ := chachaAEAD_sizes P hS c key d.nonceLen hctor
    rw [decNF_chacha P hf hfam c hc hkl hnl, if_neg hk']
    by_cases hn : nonce'.length ≠ d.nonceLen
    · exact ⟨_, by rw [if_pos hn]⟩
    · by_cases ht : tag'.length ≠ (chachaAEAD P c key).overhead
      · exact ⟨_, by rw [if_neg hn, if_pos ht]⟩
      · rw [if_neg hn, if_neg ht]
        exact hNoForgery (aead_input_injective ct tag ct' tag' nonce nonce' ad ad' (by omega) hchanged)

end Kit.CryptoGlue
