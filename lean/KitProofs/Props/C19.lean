import KitModel.Spiffe
import KitProofs.Lemmas.Spiffe
/-!
Property C19 — SPIFFE: readiness never deadlocks; the latest good SVID is served and renewed at
half-life.  Theorems about the models in `KitModel/Spiffe.lean` (helpers in
`KitProofs/Lemmas/Spiffe.lean`).
-/
namespace Kit.Spiffe

/-- **No deadlock, whatever the order of first calls** (repaired code).  From every reachable state
of the readiness LTS — any number of `Ready`/`GetX509SVID` callers, any interleaving, any ctx
cancellations, rotation in progress or not — in which `Run` has been called, and for either answer
`ok` of the issuer to a request that is still outstanding, there is a path of internal steps only
(statements of goroutines that already exist + the issuer's answer) to a state where every pending
consumer call has returned (same calls: the list has the same length).  `GetX509SVID` returned an
SVID iff the initial fetch succeeded (`t.init`), which is the issuer's answer `ok` if the initial
fetch was still outstanding in `s` and the recorded outcome otherwise. -/
theorem ready_no_deadlock {s : St} (hreach : Reach .fixed init s) (hrun : s.run ≠ .idle) (ok : Bool) :
    ∃ t, IntPath .fixed ok s t ∧ t.cons.length = s.cons.length ∧
      (∀ b, s.init = some b → t.init = some b) ∧
      (s.init = none → t.init = none ∨ t.init = some ok) ∧
      ∀ c ∈ t.cons, (∃ y, c = .yDone y) ∨ ∃ r, c = .gDone r ∧ t.init = some r.isSome := by
  obtain ⟨hb, hf⟩ := fixedInv_reach baseInv_init fixedInv_init hreach
  obtain ⟨t, hp, hall⟩ := progress_fixed ok (total s) s (Nat.le_refl _) hb hf hrun
  obtain ⟨_, hft⟩ := fixedInv_reach baseInv_init fixedInv_init (reach_of_intPath hreach hp)
  refine ⟨t, hp, length_path hp, (init_path hb hp).1, (init_path hb hp).2, ?_⟩
  intro c hc
  have hret : c.returned = true := by
    simp only [St.allReturned, List.all_eq_true] at hall
    exact hall c hc
  cases c with
  | yDone y => exact Or.inl ⟨y, rfl⟩
  | gDone r => exact Or.inr ⟨r, rfl, hft.res _ hc r (Or.inr rfl)⟩
  | _ => simp [ConsPc.returned] at hret

/-- Non-vacuity: a consumer asked for the SVID before `Run` was called, `Run` is inside `Lock()`. -/
example : ∃ s, Reach .fixed init s ∧ s.run = .pendLock ∧ s.cons = [.gCall, .yWait] :=
  ⟨_, .tail .run (.tail .run (.tail .callRun (.tail .callReady (.tail .callGet (.refl _) rfl) rfl) rfl) rfl) rfl,
    rfl, rfl⟩

/-- Results are never wrong, in any reachable state (safety part of the first clause): a value a
`GetX509SVID` call holds or has returned is an SVID iff the initial fetch succeeded; `Ready` does not
return nil, and no `GetX509SVID` gets past its wait, before `readyCh` is closed. -/
theorem results_correct {s : St} (hreach : Reach .fixed init s) :
    (∀ c ∈ s.cons, ∀ r, (c = .gUnlock r ∨ c = .gDone r) → s.init = some r.isSome) ∧
    (s.ready = false → ∀ c ∈ s.cons, c = .yWait ∨ c = .yDone false ∨ c = .gCall) := by
  obtain ⟨_, hf⟩ := fixedInv_reach baseInv_init fixedInv_init hreach
  exact ⟨hf.res, hf.pre⟩

/-- **The code before the repair deadlocks**: `GetX509SVID` first, then `Run`.  The state is reachable
in the model of the old code, and from it *no* continuation — more callers, cancellations, anything
— ever lets `Run` leave `Lock()`, closes `readyCh`, or lets that `GetX509SVID` return. -/
theorem getsvid_before_run_witness :
    Reach .cur init deadlockState ∧
    ∀ t, Reach .cur deadlockState t →
      t.run = .pendLock ∧ t.cons[0]? = some .gHoldWait ∧ t.ready = false := by
  have hreach : Reach .cur init deadlockState :=
    .tail .run (.tail .run (.tail .callRun (.tail (.cons 0) (.tail .callGet (.refl _) rfl) rfl) rfl) rfl) rfl
  refine ⟨hreach, ?_⟩
  have hb0 : BaseInv deadlockState := baseInv_reach baseInv_init hreach
  have key : ∀ t, Reach .cur deadlockState t → BaseInv t ∧ Stuck t := by
    intro t h
    induction h with
    | refl => exact ⟨hb0, ⟨rfl, rfl, rfl⟩⟩
    | tail l _ hs ih => exact ⟨baseInv_step .cur ih.1 hs, stuck_step ih.1 ih.2 hs⟩
  intro t h
  obtain ⟨_, hst⟩ := key t h
  exact ⟨hst.run, hst.get, hst.notReady⟩

/-- The same schedule in the repaired code is not stuck: the first theorem applies to it. -/
example : ∃ s, Reach .fixed init s ∧ s.run = .pendLock ∧ s.cons = [.gCall] :=
  ⟨_, .tail .run (.tail .run (.tail .callRun (.tail .callGet (.refl _) rfl) rfl) rfl) rfl, rfl, rfl⟩

end Kit.Spiffe
