import KitModel.Spiffe
import KitModel.SpiffeShape
import KitProofs.Lemmas.Spiffe
import KitProofs.Lemmas.SpiffeRenew
import KitProofs.Lemmas.SpiffeSim
import KitProofs.Lemmas.SpiffeDelta
import KitProofs.Lemmas.SpiffeErr
import KitProofs.Lemmas.SpiffeCtx
/-!
Property C19 — SPIFFE: readiness never deadlocks; the latest good SVID is served and renewed at
half-life.  Theorems about the models in `KitModel/Spiffe.lean` (helpers in
`KitProofs/Lemmas/Spiffe.lean`).
-/
namespace Kit.Spiffe

/-! ## T1: the source, as regenerated on this run, has the shape the models were written from -/

open Kit.Generated.C19 in
/-- The statement order of `Run`, `Ready`, `GetX509SVID` and `runRotation` extracted from /repo on
this run (`KitModel/Generated/C19.lean`) equals the order read back out of the LTS by executing it
(`KitModel/SpiffeShape.lean`):
* `Run`: CAS → Lock → fetch → set currentSVID → close(readyCh) → Unlock → runRotation → return nil; on
  a failed fetch close(readyCh) → Unlock → return err — BOTH branches close `readyCh`;
* `Ready`: one select over ctx.Done() / readyCh;
* `GetX509SVID`: wait for readyCh, THEN RLock, read, deferred RUnlock (the old order RLock → wait is
  what `modelGet .cur` yields, and fails here);
* `runRotation`: RLock/RUnlock prelude; per renewal: fetch into a LOCAL, then Lock → set → Unlock; on
  a failed fetch nothing touches currentSVID;
* wake rule `After(min(CAP, renewTime − now))`, "continue before renew time" first, retry select;
* the automaton's constants ARE the source's (`minute`, `tenSec`, divisor of `renewalTime`), and they
  are the property's: one minute, ten seconds, half;
* `fetchIdentityCertificate`: fresh P-256 key → CSR of that key → request → guards → (with a write
  directory) encode that key, that chain, current anchors → ONE `dir.Write` of the three → SVID of that
  key and chain;
* `context.With` stores `SVIDSource()` and `From` returns it (consumers through the context call the
  same `GetX509SVID`). -/
theorem source_shape_as_modelled :
    Shape.okPath runMain = Shape.modelRunOk ++ Shape.modelRotStop ∧
    Shape.errPath runMain runOnErr = Shape.modelRunErr ∧
    readyBody = Shape.modelReady .fixed ∧
    Shape.resolveDefer getBody = Shape.modelGet .fixed ∧ Shape.deferFollowsRLock getBody = true ∧
    rotPrelude.filter Shape.isSync = Shape.modelRotPrelude ∧
    Shape.okPath rotBody = Shape.modelRenewOk ∧
    Shape.errPath rotBody rotOnErr = Shape.modelRenewErr ∧
    rotCtxCase = [.ret] ∧ rotArm = [.armMinCapUntilRenew] ∧
    rotBody.head? = some .ifBeforeRenewContinue ∧ rotOnErr = [.retryWaitContinue, .ctxDoneReturn] ∧
    minute = wakeCapNs ∧ tenSec = retryNs ∧ wakeCapNs = 60000000000 ∧ retryNs = 10000000000 ∧
    renewalDivisor = 2 ∧
    fetchMain = Shape.fetchMainExpected ∧ fetchDir = Shape.fetchDirExpected ∧ Shape.fetchProbe = true ∧
    contextPassesSVIDSource = true := by
  decide

open Kit.Generated.C19 in
/-- **What makes "a fresh key per fetch" true in the code** (T1, regenerated on this run): every call
of `fetchIdentityCertificate` begins by generating a P-256 key into a local, builds the CSR from that
key, and returns an SVID holding that key; the call assigns no field of its receiver; `SPIFFE` and
`svidSource` have exactly the fields listed — none of which can retain a key or a CSR between calls
(`currentSVID` is assigned only from a fetch result, see `source_shape_as_modelled`) — and spiffe.go /
svidsource.go declare no package-level variable (factgen aborts otherwise).  In the model this is the
counter: each request draws `nextTok` and increments it (`Shape.fetchProbe`). -/
theorem fresh_key_as_source :
    fetchMain.take 3 = [.genKeyP256, .ifErrRet, .csrFromKey] ∧
    fetchMain.getLast? = some .retSvidKeyChain ∧
    (fetchMain.filter (· == .genKeyP256)).length = 1 ∧
    fetchAssignsNoField = true ∧
    spiffeFields = ["currentSVID *x509svid.SVID", "requestSVIDFn RequestSVIDFn", "dir *dir.Dir",
      "trustAnchors trustanchors.Interface", "log logger.Logger", "lock sync.RWMutex", "clock clock.Clock",
      "running atomic.Bool", "readyCh chan struct{}"] ∧
    svidSourceFields = ["spiffe *SPIFFE"] ∧
    Shape.fetchProbe = true := by
  decide

/-- The renewal automaton applies exactly the source's rules (all states, not probes): the timer is
armed for `min(CAP, renewAt − now)`; a wake before the renewal time only re-arms; a wake at/after it
issues the request; a failed renewal arms `RETRY` from the moment the fetch returned and leaves the
SVID; `renewalTime` is the source's formula. -/
theorem rotation_rules_as_source :
    (∀ s : RN, (arm s).wakeAt = s.now + min Kit.Generated.C19.wakeCapNs (s.renewAt - s.now)) ∧
    (∀ s : RN, s.mode = .waiting → s.now < s.renewAt → wake s = arm s) ∧
    (∀ s : RN, s.mode = .waiting → s.renewAt ≤ s.now → wake s = issue s false) ∧
    (∀ s : RN, s.reqInit = false → (complete s).2 = none →
      (answerCore s).wakeAt = s.now + Kit.Generated.C19.retryNs ∧ (answerCore s).svid = s.svid ∧
      (answerCore s).mode = .retrying) ∧
    (∀ nb na : Int, renewalTime nb na = nb + (na - nb).tdiv Kit.Generated.C19.renewalDivisor) := by
  refine ⟨fun s => (arm_fields s).2.1, ?_, ?_, ?_, fun _ _ => rfl⟩
  · intro s hm hlt
    rcases wake_cases s with ⟨h, _⟩ | ⟨h, _⟩ | ⟨_, _, hw⟩ | ⟨_, hle, _⟩
    · rcases h with h | h <;> rw [hm] at h <;> cases h
    · rw [hm] at h; cases h
    · exact hw
    · omega
  · intro s hm hle
    rcases wake_cases s with ⟨h, _⟩ | ⟨h, _⟩ | ⟨_, hlt, _⟩ | ⟨_, _, hw⟩
    · rcases h with h | h <;> rw [hm] at h <;> cases h
    · rw [hm] at h; cases h
    · omega
    · exact hw
  · intro s hi hnone
    have cs := complete_spec s
    rcases answerCore_cases s with ⟨_, hi', _⟩ | ⟨_, _, hw⟩ | ⟨c, hc, _⟩
    · rw [hi] at hi'; cases hi'
    · rw [hw]; exact ⟨rfl, cs.svid, rfl⟩
    · rw [hnone] at hc; cases hc

/-- **No deadlock, whatever the order of first calls** (repaired code).  From every reachable state
of the readiness LTS — any number of `Ready`/`GetX509SVID` callers, any interleaving, any ctx
cancellations, rotation in progress or not — in which `Run` has been called, and for either answer
`ok` of the issuer to a request that is still outstanding, there is a path of internal steps only
(statements of goroutines that already exist + the issuer's answer) to a state where every pending
consumer call has returned (same calls: the list has the same length).  `GetX509SVID` returned an
SVID iff the initial fetch succeeded (`t.init`), which is the issuer's answer `ok` if the initial
fetch was still outstanding in `s` and the recorded outcome otherwise. -/
theorem ready_no_deadlock {s : St} (hreach : Reach .fixed init s) (hrun : s.run ≠ .idle) (ok : Bool) :
    ∃ t, IntPath .fixed ok s t ∧ t.cons.length = s.cons.length ∧
      (∀ b, s.init = some b → t.init = some b) ∧
      (s.init = none → t.init = none ∨ t.init = some ok) ∧
      (∀ c ∈ t.cons, (∃ y, c = .yDone y) ∨ ∃ r, c = .gDone r ∧ t.init = some r.isSome) ∧
      -- call by call: a waiting `Ready` has returned nil, a returned one is unchanged, and every
      -- `GetX509SVID` call, wherever it was, has returned
      (∀ i : Nat, s.cons[i]? = some ConsPc.yWait → t.cons[i]? = some (ConsPc.yDone true)) ∧
      (∀ (i : Nat) (y : Bool), s.cons[i]? = some (ConsPc.yDone y) → t.cons[i]? = some (ConsPc.yDone y)) ∧
      (∀ (i : Nat) (a : ConsPc), s.cons[i]? = some a → a.isGet = true →
        ∃ r : Option Nat, t.cons[i]? = some (ConsPc.gDone r) ∧ t.init = some r.isSome) := by
  obtain ⟨hb, hf⟩ := fixedInv_reach baseInv_init fixedInv_init hreach
  obtain ⟨t, hp, hall⟩ := progress_fixed ok (total s) s (Nat.le_refl _) hb hf hrun
  obtain ⟨_, hft⟩ := fixedInv_reach baseInv_init fixedInv_init (reach_of_intPath hreach hp)
  have hret : ∀ c ∈ t.cons, c.returned = true := by
    simp only [St.allReturned, List.all_eq_true] at hall
    exact hall
  have hretI : ∀ (i : Nat) (b : ConsPc), t.cons[i]? = some b → b.returned = true :=
    fun i b hb => hret b (List.mem_of_getElem? hb)
  refine ⟨t, hp, length_path hp, (init_path hb hp).1, (init_path hb hp).2, ?_, ?_, ?_, ?_⟩
  · intro c hc
    have := hret c hc
    cases c with
    | yDone y => exact Or.inl ⟨y, rfl⟩
    | gDone r => exact Or.inr ⟨r, rfl, hft.res _ hc r (Or.inr rfl)⟩
    | _ => simp [ConsPc.returned] at this
  · intro i hi
    obtain ⟨b, hbt, hev⟩ := evolves_path hp i _ hi
    have hr := hretI i b hbt
    rcases hev with h | ⟨_, h⟩ | ⟨h, _⟩
    · subst h; simp [ConsPc.returned] at hr
    · subst h; exact hbt
    · simp [ConsPc.isGet] at h
  · intro i y hi
    obtain ⟨b, hbt, hev⟩ := evolves_path hp i _ hi
    rcases hev with h | ⟨h, _⟩ | ⟨h, _⟩
    · subst h; exact hbt
    · cases h
    · simp [ConsPc.isGet] at h
  · intro i a hi hg
    obtain ⟨b, hbt, hev⟩ := evolves_path hp i _ hi
    have hr := hretI i b hbt
    have hgb : b.isGet = true := by
      rcases hev with h | ⟨h, _⟩ | ⟨_, h⟩
      · subst h; exact hg
      · subst h; simp [ConsPc.isGet] at hg
      · exact h
    cases b with
    | gDone r => exact ⟨r, hbt, hft.res _ (List.mem_of_getElem? hbt) r (Or.inr rfl)⟩
    | _ => simp_all [ConsPc.returned, ConsPc.isGet]

/-- Non-vacuity: a consumer asked for the SVID before `Run` was called, `Run` is inside `Lock()`. -/
example : ∃ s, Reach .fixed init s ∧ s.run = .pendLock ∧ s.cons = [.gCall, .yWait] :=
  ⟨_, .tail .run (.tail .run (.tail .callRun (.tail .callReady (.tail .callGet (.refl _) rfl) rfl) rfl) rfl) rfl,
    rfl, rfl⟩

/-- Results are never wrong, in any reachable state (safety part of the first clause): a value a
`GetX509SVID` call holds or has returned is an SVID iff the initial fetch succeeded; `Ready` does not
return nil, and no `GetX509SVID` gets past its wait, before `readyCh` is closed. -/
theorem results_correct {s : St} (hreach : Reach .fixed init s) :
    (∀ c ∈ s.cons, ∀ r, (c = .gUnlock r ∨ c = .gDone r) → s.init = some r.isSome) ∧
    (s.ready = false → ∀ c ∈ s.cons, c = .yWait ∨ c = .yDone false ∨ c = .gCall) := by
  obtain ⟨_, hf⟩ := fixedInv_reach baseInv_init fixedInv_init hreach
  exact ⟨hf.res, hf.pre⟩

/-- **What `GetX509SVID` hands out is the latest installed fetch** (lock level, either variant, any
interleaving with rotation).  `good` lists the successful fetches, newest first.  In every reachable
state `currentSVID` is the newest one — except in the window where the Run goroutine carries a newer
token `w` towards the write lock, where it is the one before (`ready_no_deadlock` shows the window
always closes) — a reader copies exactly `currentSVID`, and every value ever returned is some
successful fetch. -/
theorem served_is_latest_installed {v : Variant} {s : St} (hreach : Reach v init s) :
    (s.run.carrying = none → s.svid = s.good.head?) ∧
    (∀ w, s.run.carrying = some w → ∃ rest, s.good = w :: rest ∧ s.svid = rest.head?) ∧
    (∀ i t, s.cons[i]? = some .gHold → step v s (.cons i) = some t → t.cons[i]? = some (.gUnlock s.svid)) ∧
    (∀ c ∈ s.cons, ∀ w, (c = .gUnlock (some w) ∨ c = .gDone (some w)) → w ∈ s.good) := by
  have hg := goodInv_reach goodInv_init hreach
  refine ⟨?_, ?_, ?_, hg.results⟩
  · intro hc; have := hg.carry; rw [hc] at this; exact this
  · intro w hc; have := hg.carry; rw [hc] at this; exact this
  · intro i t hi hs
    simp only [step, consStep, hi, Option.some.injEq] at hs
    subst hs
    have : i < s.cons.length := by
      cases h : s.cons[i]? with
      | none => rw [h] at hi; cases hi
      | some _ => exact (List.getElem?_eq_some_iff.mp h).1
    simp [this]

/-- Non-vacuity: rotation has fetched token 1 and waits for a parked reader; the SVID served is 0. -/
example : ∃ s, Reach .fixed init s ∧ s.run = .rotPendLock 1 ∧ s.svid = some 0 ∧ s.good = [1, 0] ∧
    s.cons = [.gHold] := by
  refine ⟨_, .tail .run (.tail (.reply true) (.tail .renew (.tail (.cons 0) (.tail (.cons 0) (.tail .callGet
    (.tail .run (.tail .run (.tail .run (.tail .run (.tail .run (.tail (.reply true) (.tail .run (.tail .run
    (.tail .run (.tail .callRun (.refl _) rfl) rfl) rfl) rfl) rfl) rfl) rfl) rfl) rfl) rfl) rfl) rfl) rfl) rfl) rfl) rfl,
    rfl, rfl, rfl, rfl⟩

/-- **A fetched SVID is always installed** (the link between the two models: the renewal automaton
swaps atomically; in the lock-level LTS the swap is `Lock … Unlock`, possibly behind readers).  From
every reachable state of the repaired code in which the Run goroutine carries a fetched token `w`
(initial fetch or renewal, anywhere between the issuer's answer and the assignment), internal steps
alone bring Run to its next rest with `currentSVID = w` — whatever readers hold or want the lock. -/
theorem swap_completes {s : St} (hreach : Reach .fixed init s) {w : Nat} (hw : s.run.carrying = some w) :
    ∃ t, IntPath .fixed true s t ∧ t.run = .rotWait ∧ t.svid = some w := by
  obtain ⟨hb, hf⟩ := fixedInv_reach baseInv_init fixedInv_init hreach
  have hg := goodInv_reach goodInv_init hreach
  obtain ⟨t, hp, hrest⟩ := run_to_rest true (total s) s (Nat.le_refl _) hb hf
  have hpf : s.run.postFetch = true := by
    cases hr : s.run <;> simp [RunPc.carrying, hr] at hw <;> rfl
  obtain ⟨hgood, hpft⟩ := good_path hp hpf
  have hgt := goodInv_reach goodInv_init (reach_of_intPath hreach hp)
  obtain ⟨hbt, _⟩ := fixedInv_reach baseInv_init fixedInv_init (reach_of_intPath hreach hp)
  -- the head of `good` is `w`
  have hhead : s.good.head? = some w := by
    have := hg.carry; rw [hw] at this
    obtain ⟨rest, hgd, _⟩ := this
    rw [hgd]; rfl
  -- at rest after a fetch, on the success path: rotWait
  have hinit : s.init = some true := by
    rw [hb.init]
    cases hr : s.run <;> simp [RunPc.carrying, hr] at hw <;> rfl
  have hinit' : t.init = some true := (init_path hb hp).1 true hinit
  have hrun : t.run = .rotWait := by
    have h1 := hbt.init; rw [hinit'] at h1
    cases hr : t.run <;> simp [RunPc.atRest, hr] at hrest <;> simp [RunPc.postFetch, hr] at hpft <;>
      simp [RunPc.initVal, hr] at h1
    rfl
  refine ⟨t, hp, hrun, ?_⟩
  have := hgt.carry
  rw [hrun] at this
  simp only [RunPc.carrying] at this
  rw [this, hgood, hhead]

/-- Non-vacuity: the renewal has succeeded with token 1 while a reader holds the read lock. -/
example : ∃ s, Reach .fixed init s ∧ s.run.carrying = some 1 ∧ s.readers = 1 := by
  refine ⟨_, .tail .run (.tail (.reply true) (.tail .renew (.tail (.cons 0) (.tail (.cons 0) (.tail .callGet
    (.tail .run (.tail .run (.tail .run (.tail .run (.tail .run (.tail (.reply true) (.tail .run (.tail .run
    (.tail .run (.tail .callRun (.refl _) rfl) rfl) rfl) rfl) rfl) rfl) rfl) rfl) rfl) rfl) rfl) rfl) rfl) rfl) rfl) rfl,
    rfl, rfl⟩

/-- **`GetX509SVID` never blocks on a renewal in flight.**  In every reachable state of the repaired
code in which a renewal request is outstanding at the issuer (`rotFetch` — for as long as the issuer
takes, the clock may advance arbitrarily meanwhile), nobody holds or waits for the write lock, and
consumer statements ALONE — no statement of Run, no answer from the issuer — bring every pending
`Ready`/`GetX509SVID` call to its return, the request still outstanding, `currentSVID` untouched; every
SVID handed out on the way is the one that was current when the request was issued (or had been read
before), and it is an SVID, not an error. -/
theorem renewal_in_flight_does_not_block_readers {s : St} (hreach : Reach .fixed init s)
    (hfl : s.run = .rotFetch) :
    s.wHeld = false ∧ s.wPend = false ∧ s.svid.isSome = true ∧
    ∃ t, ConsPath .fixed s t ∧ t.run = .rotFetch ∧ t.svid = s.svid ∧ t.cons.length = s.cons.length ∧
      (∀ c ∈ t.cons, c.returned = true) ∧
      ∀ (i : Nat) (r : Option Nat), t.cons[i]? = some (ConsPc.gDone r) →
        (s.cons[i]? = some (ConsPc.gUnlock r) ∨ s.cons[i]? = some (ConsPc.gDone r)) ∨ r = s.svid := by
  obtain ⟨hb, hf⟩ := fixedInv_reach baseInv_init fixedInv_init hreach
  have hro : ReadOld s s := fun i r h => Or.inl h
  obtain ⟨t, hp, hall, hrun, hsv, hro', hlen⟩ :=
    cons_only_progress (sumBy consRank s.cons) s s (Nat.le_refl _) hb hf hfl hro rfl
  refine ⟨by rw [hb.held, hfl]; rfl, by rw [hb.pend, hfl]; rfl, by rw [hb.svid, hfl]; rfl,
    t, hp, hrun, hsv, hlen, ?_, ?_⟩
  · simp only [St.allReturned, List.all_eq_true] at hall; exact hall
  · intro i r hir; exact hro' i r (Or.inr hir)

/-- Non-vacuity: a renewal request is outstanding while a `GetX509SVID` call has just been made. -/
example : ∃ s, Reach .fixed init s ∧ s.run = .rotFetch ∧ s.cons = [.gCall] ∧ s.svid = some 0 := by
  refine ⟨_, .tail .callGet (.tail .renew (.tail .run (.tail .run (.tail .run (.tail .run (.tail .run
    (.tail (.reply true) (.tail .run (.tail .run (.tail .run (.tail .callRun (.refl _) rfl) rfl) rfl) rfl) rfl)
    rfl) rfl) rfl) rfl) rfl) rfl) rfl, rfl, rfl, rfl⟩

/-- **The write lock is held only for the swap** (and, by design of `Run`, across the initial fetch
until `readyCh` is closed): once `readyCh` is closed, the lock is write-held only at "assign
currentSVID" / "Unlock", and a writer waits only inside the `Lock()` that directly precedes the
assignment — never while a request is at the issuer, never while the loop waits or retries. -/
theorem write_lock_only_for_swap {v : Variant} {s : St} (hreach : Reach v init s) (hready : s.ready = true) :
    (s.wHeld = true → (∃ w, s.run = .rotSet w) ∨ s.run = .rotUnlock ∨ s.run = .unlockOk ∨ s.run = .unlockErr) ∧
    (s.wPend = true → ∃ w, s.run = .rotPendLock w) := by
  have hb := baseInv_reach baseInv_init hreach
  have hr := hb.ready; rw [hready] at hr
  constructor
  · intro h; rw [hb.held] at h
    cases hrun : s.run <;> simp [RunPc.held, RunPc.isReady, hrun] at h hr ⊢
  · intro h; rw [hb.pend] at h
    cases hrun : s.run <;> simp [RunPc.pend, RunPc.isReady, hrun] at h hr ⊢

/-- **The code before the repair deadlocks**: `GetX509SVID` first, then `Run`.  The state is reachable
in the model of the old code, and from it *no* continuation — more callers, cancellations, anything
— ever lets `Run` leave `Lock()`, closes `readyCh`, or lets that `GetX509SVID` return. -/
theorem getsvid_before_run_witness :
    Reach .cur init deadlockState ∧
    ∀ t, Reach .cur deadlockState t →
      t.run = .pendLock ∧ t.cons[0]? = some .gHoldWait ∧ t.ready = false := by
  have hreach : Reach .cur init deadlockState :=
    .tail .run (.tail .run (.tail .callRun (.tail (.cons 0) (.tail .callGet (.refl _) rfl) rfl) rfl) rfl) rfl
  refine ⟨hreach, ?_⟩
  have hb0 : BaseInv deadlockState := baseInv_reach baseInv_init hreach
  have key : ∀ t, Reach .cur deadlockState t → BaseInv t ∧ Stuck t := by
    intro t h
    induction h with
    | refl => exact ⟨hb0, ⟨rfl, rfl, rfl⟩⟩
    | tail l _ hs ih => exact ⟨baseInv_step .cur ih.1 hs, stuck_step ih.1 ih.2 hs⟩
  intro t h
  obtain ⟨_, hst⟩ := key t h
  exact ⟨hst.run, hst.get, hst.notReady⟩

/-- The same schedule in the repaired code is not stuck: the first theorem applies to it. -/
example : ∃ s, Reach .fixed init s ∧ s.run = .pendLock ∧ s.cons = [.gCall] :=
  ⟨_, .tail .run (.tail .run (.tail .callRun (.tail .callGet (.refl _) rfl) rfl) rfl) rfl, rfl, rfl⟩

/-! ## Run's own context is a state component (round 5 follow-up)

`St.runCtx` says whether the context given to `Run` is done; the environment label `Lbl.cancelRun` sets
it in ANY state — before `Run` is called, while `Run` waits for the lock, while the initial request is
outstanding at the issuer (the state the initial-fetch transition `reply ok` starts from), right after
the issuer returned, while `Run` still holds the write lock, later.  `Reach` quantifies over all labels,
so every theorem above (`ready_no_deadlock`, `results_correct`, …) already holds with Run's ctx ending at
any of these moments; the theorems below say explicitly what that means for `readyCh`. -/

/-- **`readyCh` is closed on every path on which the initial fetch finishes — whatever the state of
Run's context** (either variant, any interleaving, any callers, `cancelRun` at any moment).  In every
reachable state:
1. if the initial fetch has finished with outcome `b`, statements of the Run goroutine ALONE (at most
   two: `currentSVID = …`, `close(readyCh)`; Run holds the write lock, neither waits for anything) lead to
   a state with `readyCh` closed, the outcome, the consumers and the state of Run's ctx unchanged;
2. if moreover Run no longer holds the write lock — it returned the error (`retErr`), it is in the
   rotation loop, it returned nil — `readyCh` IS closed; in particular `Run` never returns with it open;
3. `readyCh` closed ⇒ the initial fetch has finished (nothing is signalled early);
4. the issuer's answer to the initial request is a transition from the state with Run's ctx done just as
   from the one with it alive, with either answer, and does not touch it: a successful answer that arrives
   after the shutdown is installed and served like any other, a failed one is reported by `GetX509SVID`
   as "no SVID available".
Together with `ready_no_deadlock` (same reachable states): once the initial fetch has finished every
`Ready` / `GetX509SVID` call returns, with the SVID iff it succeeded. -/
theorem ready_closed_once_initial_fetch_finished {v : Variant} {s : St} (hreach : Reach v init s) :
    (∀ b, s.init = some b →
      ∃ t, RunPath v s t ∧ t.ready = true ∧ t.init = some b ∧ t.cons = s.cons ∧ t.runCtx = s.runCtx) ∧
    (s.init.isSome = true → s.wHeld = false → s.ready = true) ∧
    ((s.run = .retErr ∨ s.run = .stopped) → s.ready = true) ∧
    (s.ready = true → s.init.isSome = true) ∧
    (s.run = .fetch → ∀ ok, ∃ t, step v s (.reply ok) = some t ∧ t.init = some ok ∧ t.runCtx = s.runCtx ∧
      t.ready = false) := by
  have hb : BaseInv s := baseInv_reach baseInv_init hreach
  refine ⟨fun b hi => close_by_run_alone hb hi, ready_of_init_unlocked hb, ?_, init_of_ready hb, ?_⟩
  · intro hr
    rw [hb.ready]
    rcases hr with hr | hr <;> rw [hr] <;> rfl
  · intro hr ok
    have hnr : s.ready = false := by rw [hb.ready, hr]; rfl
    cases ok
    · exact ⟨{ s with nfetch := s.nfetch + 1, init := some false, run := .closeErr },
        by simp [step, replyStep, hr], rfl, rfl, hnr⟩
    · exact ⟨{ s with nfetch := s.nfetch + 1, init := some true, good := s.nfetch :: s.good, run := .setSvid s.nfetch },
        by simp [step, replyStep, hr], rfl, rfl, hnr⟩

/-- Non-vacuity, the three moments of the seeded change's neighbourhood: Run's ctx is done (a) before
`Run` is called, (b) while the initial request is in flight, (c) right after the issuer returned an
error — each with a `GetX509SVID` and a `Ready` caller already waiting. -/
example : ∃ s, Reach .fixed init s ∧ s.run = .fetch ∧ s.runCtx = true ∧ s.cons = [.gCall, .yWait] :=
  ⟨_, .tail .run (.tail .run (.tail .run (.tail .callRun (.tail .callReady (.tail .callGet
    (.tail .cancelRun (.refl _) rfl) rfl) rfl) rfl) rfl) rfl) rfl, rfl, rfl, rfl⟩
example : ∃ s, Reach .fixed init s ∧ s.run = .fetch ∧ s.runCtx = true ∧ s.cons = [.gCall, .yWait] :=
  ⟨_, .tail .cancelRun (.tail .run (.tail .run (.tail .run (.tail .callRun (.tail .callReady (.tail .callGet
    (.refl _) rfl) rfl) rfl) rfl) rfl) rfl) rfl, rfl, rfl, rfl⟩
example : ∃ s, Reach .fixed init s ∧ s.run = .closeErr ∧ s.runCtx = true ∧ s.init = some false ∧
    s.ready = false ∧ s.cons = [.gCall, .yWait] :=
  ⟨_, .tail .cancelRun (.tail (.reply false) (.tail .run (.tail .run (.tail .run (.tail .callRun
    (.tail .callReady (.tail .callGet (.refl _) rfl) rfl) rfl) rfl) rfl) rfl) rfl) rfl, rfl, rfl, rfl, rfl, rfl⟩

/-- … and from the first of them, with the issuer returning an error (e.g. the ctx's own), every call
returns: `GetX509SVID` with the error, `Ready` with nil (instance of `ready_no_deadlock`). -/
example : ∃ s, Reach .fixed init s ∧ s.runCtx = true ∧ s.cons = [.gCall, .yWait] ∧
    ∃ t, IntPath .fixed false s t ∧ t.init = some false ∧
      t.cons[0]? = some (.gDone none) ∧ t.cons[1]? = some (.yDone true) := by
  have hreach : Reach .fixed init
      { running := true, wHeld := true, run := .fetch, cons := [.gCall, .yWait], runCtx := true } :=
    .tail .run (.tail .run (.tail .run (.tail .callRun (.tail .callReady (.tail .callGet
      (.tail .cancelRun (.refl _) rfl) rfl) rfl) rfl) rfl) rfl) rfl
  refine ⟨_, hreach, rfl, rfl, ?_⟩
  obtain ⟨t, hp, _, _, hnone, _, hy, _, hg⟩ := ready_no_deadlock hreach (by simp) false
  have hinit : t.init = some false := by
    obtain ⟨r, hr, hri⟩ := hg 0 .gCall rfl rfl
    rcases hnone rfl with h | h
    · rw [h] at hri; cases hri
    · exact h
  refine ⟨t, hp, hinit, ?_, hy 1 rfl⟩
  obtain ⟨r, hr, hri⟩ := hg 0 .gCall rfl rfl
  rw [hinit] at hri
  cases r with
  | none => exact hr
  | some w => simp at hri

open Kit.Generated.C19 in
/-- T1 for the above (regenerated on this run): the statements `Run` executes in the source — ONE error
branch, unconditional, beginning with `close(readyCh)` (factgen aborts on any other statement in it, e.g.
a nested `if ctx.Err() != nil { … return }`) — are the ones the LTS executes when it is started with
Run's ctx already done, on the failure path and on the success path alike. -/
theorem run_statements_do_not_depend_on_run_ctx :
    Shape.errPath runMain runOnErr = Shape.modelRunErrCtxDone ∧
    Shape.okPath runMain = Shape.modelRunOkCtxDone ++ Shape.modelRotStop ∧
    runOnErr.head? = some .closeReady ∧ Shape.modelRunErrCtxDone.contains .closeReady = true ∧
    Shape.modelRunErrCtxDone = Shape.modelRunErr ∧ Shape.modelRunOkCtxDone = Shape.modelRunOk := by
  decide

/-- **Why `close(readyCh)` must not depend on Run's context** — the class of change "return without
signalling readiness when the initial fetch fails during a shutdown".  `stepSkip` is the repaired code
except that a failed initial fetch found with Run's ctx done goes straight to `Unlock()`; with the ctx
alive it IS the repaired code.  Under it the state after `GetX509SVID`, `Run`, (ctx ends), issuer error,
`Run` returns is reachable, and from it NO continuation — more callers, cancellations, a second `Run`
(`runLoser`), anything — ever closes `readyCh` or lets that `GetX509SVID` return, although the initial
fetch has finished and `Run` has returned.  The same labels in the code as it is close `readyCh`. -/
theorem skipping_close_when_ctx_done_deadlocks :
    (∀ s l, s.runCtx = false → stepSkip s l = step .fixed s l) ∧
    ReachSkip init skipState ∧ skipState.init = some false ∧ skipState.run = .retErr ∧
    (∀ t, ReachSkip skipState t → t.run = .retErr ∧ t.ready = false ∧ t.cons[0]? = some .gCall) ∧
    (∃ u, Reach .fixed init u ∧ u = { skipState with ready := true }) := by
  have hreach : ReachSkip init skipState :=
    .tail .run (.tail (.reply false) (.tail .cancelRun (.tail .run (.tail .run (.tail .run (.tail .callRun
      (.tail .callGet (.refl _) rfl) rfl) rfl) rfl) rfl) rfl) rfl) rfl
  refine ⟨stepSkip_eq_of_ctx_alive, hreach, rfl, rfl, ?_, ?_⟩
  · intro t h
    have key : SkipStuck t := by
      induction h with
      | refl => exact ⟨rfl, rfl, rfl⟩
      | tail l _ hs ih => exact skipStuck_step ih hs
    exact ⟨key.run, key.notReady, key.get⟩
  · exact ⟨_, .tail .run (.tail .run (.tail (.reply false) (.tail .cancelRun (.tail .run (.tail .run (.tail .run
      (.tail .callRun (.tail .callGet (.refl _) rfl) rfl) rfl) rfl) rfl) rfl) rfl) rfl) rfl, rfl⟩

/-! ## soundness of the correspondence machinery -/

/-- **Trace inclusion is sound**: if the state-set simulation accepts a trace of observable events
(`accept v tr = (none, mf)`), then the final set is non-empty and EVERY state `t` in it is the end of
a genuine run of the readiness LTS that exhibits exactly that trace: from `init`, internal steps, then
for each event its per-state meaning `evState` (a label of the LTS — call, issuer answer, renew,
cancel — or a predicate the state satisfies — parked at the hook, returned value, quiescent with
exactly these calls pending) followed by internal steps the harness allows (`TraceRun`).  In
particular `t` is reachable in the LTS, so every invariant proved for reachable states applies to
what was observed.  (Soundness does not depend on the closure's fuel; fuel only affects
completeness, i.e. spurious rejections, which would be reported as disagreements.) -/
theorem accept_sound {v : Variant} {tr : List Ev} {mf : Sim} (h : accept v tr = (none, mf)) :
    mf.states ≠ [] ∧
    ∀ t ∈ mf.states, ∃ s0, TauStar v {} init s0 ∧ TraceRun v {} s0 tr t ∧ Reach v init t := by
  simp only [accept] at h
  constructor
  · refine acceptFrom_nonempty _ _ _ _ h ?_
    have : init ∈ (close v { states := [init] }).states := by
      simp only [close]
      exact closure_superset _ _ _ _ _ (by simp [insertNew])
    intro h0; rw [h0] at this; simp at this
  · intro t ht
    obtain ⟨s0, hs0, htr⟩ := acceptFrom_sound _ _ _ _ h t ht
    obtain ⟨s, hs, htau⟩ := close_sound hs0
    simp only [List.mem_singleton] at hs
    subst hs
    have hr0 : Reach v init s0 := tauStar_reach (.refl _) htau
    exact ⟨s0, htau, htr, traceRun_reach hr0 htr⟩

/-- Non-vacuity: the trace of the schedule `get, run, ok` on the repaired code is accepted. -/
example : (accept .fixed [.callGet false, .callRun, .req 0, .rep true, .ret 0 (.gDone (some 0)), .quiet []]).1 = none := by
  decide

/-- … and the trace the OLD code produced for it (no request ever reaches the issuer, both calls
pending) is rejected by the repaired model and accepted by the old one. -/
example : (accept .fixed [.callGet false, .callRun, .quiet [0]]).1 = some 2 ∧
    (accept .cur [.callGet false, .callRun, .quiet [0]]).1 = none := by
  decide

/-- **The renewal comparison is about reachable states**: the states the driver prints for a
scenario (`start`, then `runActs`) are reachable states of the renewal automaton, so every renewal
theorem below applies to each line the harness compares with the real execution. -/
theorem renew_run_reach (dirOn : Bool) (a0 : Nat) (script : List Reply) (t0 : Int) (acts : List Act)
    (hok : acts.all Act.ok = true) :
    ∀ t ∈ start dirOn a0 script t0 :: runActs (start dirOn a0 script t0) acts,
      RReach dirOn a0 script t0 t := by
  intro t ht
  simp only [List.mem_cons] at ht
  rcases ht with ht | ht
  · rw [ht]; exact .start
  · exact runActs_reach acts _ .start hok t ht

/-! ## renewal automaton (fake clock; every issuer script, every validity window, every sequence of
clock advances, trust-anchor changes and — since a fetch takes time — moments at which the issuer
answers) -/

/-- A concrete run used for the non-vacuity examples: 1 h certificate, then a failure (an error that
wraps `context.DeadlineExceeded` — a per-request timeout of the issuer client — while Run's context is
alive), then success; with a write directory; the issuer takes 2 s to answer the first renewal request. -/
def exScript : List Reply :=
  [.ok 0 3600000000000, .fail { isDeadline := true, tag := 3 }, .ok 1800000000000 5400000000000]
def ex0 : RN := answer (start true 7 exScript 0)                 -- initial fetch answered at once
def ex1a : RN := advance ex0 1800000000000                       -- half-life reached: request in flight
def ex1 : RN := answer (advance ex1a 2000000000)                 -- … answered 2 s later: failure
def ex2a : RN := advance ex1 10000000000                         -- 10 s after the failure: retry in flight
def ex2 : RN := answer ex2a                                      -- succeeds

theorem ex0_reach : RReach true 7 exScript 0 ex0 := .ans .start
theorem ex1a_reach : RReach true 7 exScript 0 ex1a := .adv _ (by decide) ex0_reach
theorem ex1_reach : RReach true 7 exScript 0 ex1 := .ans (.adv _ (by decide) ex1a_reach)
theorem ex2_reach : RReach true 7 exScript 0 ex2 := .ans (.adv _ (by decide) ex1_reach)

/-- **The SVID served is the most recently fetched good one** (renewal automaton): in every
reachable state — also while a request is in flight — the token of `currentSVID` is the newest
successful entry of the request log. -/
theorem served_is_latest_good {dirOn : Bool} {a0 : Nat} {script : List Reply} {t0 : Int} {s : RN}
    (h : RReach dirOn a0 script t0 s) : s.svid.map (·.tok) = lastGood s.log :=
  (rinv h).1.data.served

example : ex2.svid.map (·.tok) = some 2 ∧ ex1.svid.map (·.tok) = some 0 ∧ ex1a.svid.map (·.tok) = some 0 := by
  decide

/-- **While a request is in flight nothing changes but the clock**: the rotation goroutine is inside
`requestSVIDFn`; however far the clock advances before the issuer answers, the served SVID, the log,
the published files and the outstanding request stay as they are (and, by
`renewal_in_flight_does_not_block_readers`, nobody holds the lock, so `GetX509SVID` keeps returning
that SVID without blocking). -/
theorem in_flight_only_the_clock_moves {s : RN} (hm : s.mode = .inflight) (d : Int) :
    advance s d = { s with now := s.now + d } := by
  have : RN.due { s with now := s.now + d } = false := not_due_of_mode (Or.inl hm)
  show settle 3 { s with now := s.now + d } = _
  simp only [settle, this]
  rfl

example : ex1a.mode = .inflight ∧ (advance ex1a 999000000000).svid = ex1a.svid := by decide

/-- **Renewal no later than one minute after half-life.**  In every reachable state that waits on a
certificate: (i) the clock has not reached the renewal time (`now < wakeAt ≤ renewAt`: whenever the
clock is at/after half-life and the due timers have fired, the request has been issued), and wakes are
armed at most a minute apart; (ii) the clock advance during which half-life is reached issues the
request at that very wake: it is then in flight, stamped with that clock value, carrying a fresh key;
if the wake is at most a minute late — in particular if the clock moves in steps of at most a minute —
the request is stamped no later than one minute after half-life. -/
theorem renew_within_minute {dirOn : Bool} {a0 : Nat} {script : List Reply} {t0 : Int} {s : RN}
    (h : RReach dirOn a0 script t0 s) (hm : s.mode = .waiting) :
    (s.now < s.wakeAt ∧ s.wakeAt ≤ s.renewAt ∧ s.wakeAt ≤ s.armedAt + minute) ∧
    ∀ d, 0 < d → s.renewAt ≤ s.now + d →
      (advance s d).mode = .inflight ∧ (advance s d).reqAt = s.now + d ∧ (advance s d).reqTok = s.nextTok ∧
        (advance s d).svid = s.svid ∧
        (s.now + d ≤ s.wakeAt + minute → (advance s d).reqAt ≤ s.renewAt + minute) ∧
        (d ≤ minute → (advance s d).reqAt < s.renewAt + minute) := by
  obtain ⟨hl, hdue⟩ := rinv h
  obtain ⟨hw1, hw2, hw3⟩ := hl.waiting hm
  have hnow := not_due_lt hdue (Or.inl hm)
  refine ⟨⟨hnow, hw1, hw2⟩, ?_⟩
  intro d hd hreach
  have hm' : ({ s with now := s.now + d } : RN).mode = .waiting := hm
  have hdue' : RN.due { s with now := s.now + d } = true :=
    (due_iff _).mpr ⟨Or.inl hm', by show s.wakeAt ≤ s.now + d; omega⟩
  have hwake : wake { s with now := s.now + d } = issue { s with now := s.now + d } false := by
    rcases wake_cases { s with now := s.now + d } with ⟨h1, _⟩ | ⟨h1, _⟩ | ⟨_, hlt, _⟩ | ⟨_, _, hw⟩
    · rcases h1 with h1 | h1 <;> rw [hm'] at h1 <;> cases h1
    · rw [hm'] at h1; cases h1
    · have : s.now + d < s.renewAt := hlt
      omega
    · exact hw
  have hnd : RN.due (issue { s with now := s.now + d } false) = false :=
    not_due_of_mode (Or.inl (issue_fields _ _).1)
  have hadv : advance s d = issue { s with now := s.now + d } false := by
    show settle 3 { s with now := s.now + d } = _
    simp only [settle, hdue', if_true, hwake, hnd]
    rfl
  rw [hadv]
  refine ⟨rfl, rfl, rfl, rfl, ?_, ?_⟩
  · intro hlate; show s.now + d ≤ s.renewAt + minute; omega
  · intro hsmall; show s.now + d < s.renewAt + minute; omega

example : ex0.mode = .waiting ∧ ex0.renewAt ≤ ex0.now + 1800000000000 ∧ ex1a.reqAt = 1800000000000 := by decide

/-- **Renewal is requested within `δ` of half-life — over whole histories, with fetches that take
time.**  Let the clock be advanced by ANY sequence of steps none of which, while the loop waits on its
timer, overshoots by more than `δ` (each such step is at most `δ` long, or ends at most `δ` after the
deadline of the armed timer; `δ = 0` = the clock is advanced exactly to the wake times); advances while
a request is in flight and the moments at which the issuer answers are arbitrary; any issuer script
and trust-anchor changes (`RReachD δ`).  Then (A) every answered request `r2` that follows a successful
request `r1` — i.e. the renewal of `r1`'s certificate — was ISSUED (`stamp`) in
`[dueAt r1, dueAt r1 + δ]`, where `dueAt r1 = max(half-life of the certificate, the time its answer was
processed)`; (B) the request exists as soon as it is due: in no reachable state is the loop waiting on
a certificate whose half-life the clock has reached; (C) the same bound holds for the request that is
still in flight. -/
theorem renewal_within_delta_of_half_life {δ : Int} (hδ : 0 ≤ δ) {dirOn : Bool} {a0 : Nat}
    {script : List Reply} {t0 : Int} {s : RN} (h : RReachD δ dirOn a0 script t0 s) :
    (∀ pre r2 r1 rest, s.log = pre ++ r2 :: r1 :: rest → r1.good = true →
      dueAt r1 ≤ r2.stamp ∧ r2.stamp ≤ dueAt r1 + δ) ∧
    (∀ r rest, s.log = r :: rest → r.good = true → s.mode = .waiting → s.now < r.half) ∧
    (∀ r rest, s.log = r :: rest → r.good = true → s.mode = .inflight →
      dueAt r ≤ s.reqAt ∧ s.reqAt ≤ dueAt r + δ) := by
  have ht := tinv_reach hδ h
  obtain ⟨hl, hdue⟩ := rinv h.toRReach
  refine ⟨?_, ?_, ht.flightDue⟩
  · intro pre r2 r1 rest hlog hg
    have := ht.pairs
    rw [hlog] at this
    exact pairOK_at pre r2 r1 rest this hg
  · intro r rest hlog hg hmode
    obtain ⟨hren, _⟩ := ht.head r rest hlog hg
    have hlt := not_due_lt hdue (Or.inl hmode)
    obtain ⟨hw, _, _⟩ := hl.waiting hmode
    omega

/-- In every reachable state the newest answered request, if good, is being waited on or renewed:
the loop is never retrying or dead on top of a good certificate. -/
theorem good_head_waiting_or_in_flight {δ : Int} (hδ : 0 ≤ δ) {dirOn : Bool} {a0 : Nat}
    {script : List Reply} {t0 : Int} {s : RN} (h : RReachD δ dirOn a0 script t0 s)
    {r : Req} {rest : List Req} (hlog : s.log = r :: rest) (hg : r.good = true) :
    s.mode = .waiting ∨ s.mode = .inflight :=
  ((tinv_reach hδ h).head r rest hlog hg).2

/-- **The statement's form**: a renewal request is issued no later than one minute after the
certificate passes half of its validity.  For a certificate received before its half-life, under the
hypothesis of the previous theorem: the renewal request is issued at or after half-life and at most
`δ` after it — hence within `1 min + δ`, within one minute whenever `δ ≤ 1 min` (the clock is looked
at at least once a minute), and exactly at half-life when `δ = 0` — whatever the issuer's latency. -/
theorem renew_no_later_than_minute_after_half_life {δ : Int} (hδ : 0 ≤ δ) {dirOn : Bool} {a0 : Nat}
    {script : List Reply} {t0 : Int} {s : RN} (h : RReachD δ dirOn a0 script t0 s)
    {pre : List Req} {r2 r1 : Req} {rest : List Req} (hlog : s.log = pre ++ r2 :: r1 :: rest)
    (hg : r1.good = true) (hbefore : r1.answered ≤ r1.half) :
    r1.half ≤ r2.stamp ∧ r2.stamp ≤ r1.half + δ ∧ r2.stamp ≤ r1.half + minute + δ ∧
    (δ ≤ minute → r2.stamp ≤ r1.half + minute) ∧ (δ = 0 → r2.stamp = r1.half) := by
  obtain ⟨h1, h2⟩ := (renewal_within_delta_of_half_life hδ h).1 pre r2 r1 rest hlog hg
  have hm := minute_pos
  simp only [dueAt] at h1 h2
  refine ⟨by omega, by omega, by omega, fun _ => by omega, fun _ => by omega⟩

/-- Non-vacuity with `δ = 0` and a slow issuer: a 100 s certificate; the clock is advanced exactly to
the armed deadline (50 s = half-life, below the one-minute cap); the renewal request goes out exactly
there; the issuer answers 7 s later. -/
def exDScript : List Reply := [.ok 0 100000000000, .ok 50000000000 150000000000]
def exD : RN := answer (advance (advance (answer (start false 0 exDScript 0)) 50000000000) 7000000000)
theorem exD_reach : RReachD 0 false 0 exDScript 0 exD :=
  .ans (.adv _ (by decide) (by intro h; exact absurd h (by decide))
    (.adv _ (by decide) (fun _ => Or.inr (by decide)) (.ans .start)))
example : exD.log = [⟨50000000000, 1, true, 0, 100000000000, 57000000000⟩, ⟨0, 0, true, 0, 50000000000, 0⟩] := by
  decide

/-- **Failed renewals are retried every 10 s and do not disturb the served SVID.**  In every
reachable state that waits for a retry: the newest answered request failed and the timer is armed for
exactly 10 s after that failure was returned; a clock advance that stays before the deadline changes
nothing but the clock; the advance that reaches it issues a new request at that wake (so exactly 10 s
after the failure when the clock lands on the deadline), with a fresh key, the SVID untouched. -/
theorem retry_every_10s_keeps_svid {dirOn : Bool} {a0 : Nat} {script : List Reply} {t0 : Int} {s : RN}
    (h : RReach dirOn a0 script t0 s) (hm : s.mode = .retrying) :
    (∃ r rest, s.log = r :: rest ∧ r.good = false ∧ s.wakeAt = r.answered + tenSec ∧ s.now < s.wakeAt) ∧
    (∀ d, 0 < d → s.now + d < s.wakeAt → advance s d = { s with now := s.now + d }) ∧
    (∀ d, 0 < d → s.wakeAt ≤ s.now + d →
      (advance s d).mode = .inflight ∧ (advance s d).reqAt = s.now + d ∧ (advance s d).reqTok = s.nextTok ∧
      (advance s d).svid = s.svid ∧ (advance s d).log = s.log) := by
  obtain ⟨hl, hdue⟩ := rinv h
  obtain ⟨hw1, hw2, hw3, r0, rest, hlog0, hbad, hst⟩ := hl.retrying hm
  have hnow := not_due_lt hdue (Or.inr hm)
  refine ⟨⟨r0, rest, hlog0, hbad, by rw [hst]; exact hw1, hnow⟩, ?_, ?_⟩
  · intro d _ hlt
    have hnd : RN.due { s with now := s.now + d } = false := by
      cases hd : RN.due { s with now := s.now + d }
      · rfl
      · have := ((due_iff _).mp hd).2
        have : s.wakeAt ≤ s.now + d := this
        omega
    show settle 3 { s with now := s.now + d } = _
    simp only [settle, hnd]
    rfl
  · intro d hd hreach
    have hm' : ({ s with now := s.now + d } : RN).mode = .retrying := hm
    have hdue' : RN.due { s with now := s.now + d } = true :=
      (due_iff _).mpr ⟨Or.inr hm', hreach⟩
    -- the 10 s timer fires: `continue` re-arms with a non-positive duration, which fires at once
    have hwake1 : wake { s with now := s.now + d } = arm { s with now := s.now + d } := by
      rcases wake_cases { s with now := s.now + d } with ⟨h1, _⟩ | ⟨_, hw⟩ | ⟨h1, _⟩ | ⟨h1, _⟩
      · rcases h1 with h1 | h1 <;> rw [hm'] at h1 <;> cases h1
      · exact hw
      · rw [hm'] at h1; cases h1
      · rw [hm'] at h1; cases h1
    obtain ⟨a1, a2, _, a4, a5, a6, a7, a8, _⟩ := arm_fields { s with now := s.now + d }
    have hmin := minute_pos
    have hdue2 : RN.due (arm { s with now := s.now + d }) = true := by
      refine (due_iff _).mpr ⟨Or.inl a1, ?_⟩
      rw [a2, a4]
      show s.now + d + min minute (s.renewAt - (s.now + d)) ≤ s.now + d
      omega
    have hwake2 : wake (arm { s with now := s.now + d }) = issue (arm { s with now := s.now + d }) false := by
      rcases wake_cases (arm { s with now := s.now + d }) with ⟨h1, _⟩ | ⟨h1, _⟩ | ⟨_, hlt, _⟩ | ⟨_, _, hw⟩
      · rcases h1 with h1 | h1 <;> rw [a1] at h1 <;> cases h1
      · rw [a1] at h1; cases h1
      · rw [a4, a5] at hlt
        have : s.now + d < s.renewAt := hlt
        omega
      · exact hw
    have hnd : RN.due (issue (arm { s with now := s.now + d }) false) = false :=
      not_due_of_mode (Or.inl (issue_fields _ _).1)
    have hadv : advance s d = issue (arm { s with now := s.now + d }) false := by
      show settle 3 { s with now := s.now + d } = _
      simp only [settle, hdue', if_true, hwake1, hdue2, hwake2, hnd]
      rfl
    rw [hadv]
    obtain ⟨i1, i2, i3, _, _, _, i7, i8, _⟩ := issue_fields (arm { s with now := s.now + d }) false
    exact ⟨i1, by rw [i3, a4], by rw [i2, a8], by rw [i7, a6], by rw [i8, a7]⟩

example : ex1.mode = .retrying ∧ ex1.wakeAt = 1812000000000 ∧ (advance ex1 5000000000).log = ex1.log ∧
    ex2a.mode = .inflight ∧ ex2a.reqAt = 1812000000000 ∧ ex2.log.length = 3 := by decide

/-- An answer that is a failure leaves the served SVID untouched; so does every clock advance and every
trust-anchor change: `currentSVID` changes only when a request is answered successfully. -/
theorem failed_fetches_keep_svid (s : RN) :
    ((complete s).2 = none → (answer s).svid = s.svid) ∧
    (∀ d, (advance s d).svid = s.svid) ∧ (∀ a, (setAnchors s a).svid = s.svid) := by
  refine ⟨?_, fun d => (settle_frame _ _).2.2.1, fun _ => rfl⟩
  intro hnone
  simp only [answer]
  split
  · show (settle _ (answerCore s)).svid = s.svid
    rw [(settle_frame _ _).2.2.1]
    have cs := complete_spec s
    rcases answerCore_cases s with ⟨_, _, hw⟩ | ⟨_, _, hw⟩ | ⟨c, hc, _⟩
    · rw [hw]; exact cs.svid
    · rw [hw]; exact cs.svid
    · rw [hnone] at hc; cases hc
  · rfl

/-- **Every fetch uses a fresh key, published with its chain and the current trust anchors as one
file set.**  The k-th request carries key k (so keys are pairwise distinct — also the one in flight:
`reqTok = |log|`); with a write directory there is exactly one `dir.Write` per *successful* fetch, in
order, and its file set is `{key k, chain of k, anchors current when the fetch returned}` — never a
key with another fetch's chain; a failed fetch publishes nothing; without a write directory nothing is
written. -/
theorem fetch_fresh_key_one_fileset {dirOn : Bool} {a0 : Nat} {script : List Reply} {t0 : Int} {s : RN}
    (h : RReach dirOn a0 script t0 s) :
    s.log.map (·.tok) = (List.range s.log.length).reverse ∧ (s.log.map (·.tok)).Nodup ∧
    (s.mode = .inflight → s.reqTok = s.log.length) ∧
    s.pub = (if s.dirOn then (s.log.filter (·.good)).map fileSetOf else []) ∧
    ∀ f ∈ s.pub, f.key = f.chain := by
  obtain ⟨hl, _⟩ := rinv h
  have hlen : s.log.length = logN s := by
    have := congrArg List.length hl.data.toks
    simpa using this
  refine ⟨by rw [hlen]; exact hl.data.toks, ?_, ?_, hl.data.pubs, ?_⟩
  · rw [hl.data.toks]
    simp only [List.Nodup, List.pairwise_reverse]
    exact (List.nodup_range (n := logN s)).imp (fun h => Ne.symm h)
  · intro hm; rw [hlen]; simp [logN, hm]
  · intro f hf
    rw [hl.data.pubs] at hf
    split at hf
    · simp only [List.mem_map] at hf
      obtain ⟨r, _, rfl⟩ := hf
      rfl
    · simp at hf

example : ex2.pub = [⟨2, 2, 7⟩, ⟨0, 0, 7⟩] ∧ ex2.log.map (·.good) = [true, false, true] := by decide

/-! ## error kinds (round 4): the error a failed fetch returns is a parameter of the script -/

/-- **The retry law is independent of the kind of the error.**  Replace every issuer error of a script
by a plain one (`Reply.plain`: neither `errors.Is(·, context.Canceled)` nor
`errors.Is(·, context.DeadlineExceeded)`): every action commutes with the replacement, so the whole run
— request stamps, results, served SVID, every armed timer, published sets, mode — is the same; two
scripts that differ only in error kinds are indistinguishable on every field but the script itself.
(`RN.plain` touches only `script`: the last conjunct.) -/
theorem retry_law_independent_of_error_kind :
    (∀ (s : RN) (a : Act), act s.plain a = (act s a).plain) ∧
    (∀ (dirOn : Bool) (a0 : Nat) (script : List Reply) (t0 : Int) (acts : List Act),
      runActs (start dirOn a0 (script.map Reply.plain) t0) acts =
        (runActs (start dirOn a0 script t0) acts).map RN.plain) ∧
    (∀ (dirOn : Bool) (a0 : Nat) (script script' : List Reply) (t0 : Int) (acts : List Act),
      script.map Reply.plain = script'.map Reply.plain →
      (runActs (start dirOn a0 script t0) acts).map RN.plain =
        (runActs (start dirOn a0 script' t0) acts).map RN.plain) ∧
    (∀ s : RN, s.plain.mode = s.mode ∧ s.plain.svid = s.svid ∧ s.plain.log = s.log ∧
      s.plain.timers = s.timers ∧ s.plain.pub = s.pub ∧ s.plain.now = s.now ∧ s.plain.wakeAt = s.wakeAt ∧
      s.plain.reqAt = s.reqAt ∧ s.plain.reqTok = s.reqTok ∧ s.plain.renewAt = s.renewAt) := by
  refine ⟨act_plain, ?_, ?_, fun s => ⟨rfl, rfl, rfl, rfl, rfl, rfl, rfl, rfl, rfl, rfl⟩⟩
  · intro dirOn a0 script t0 acts
    rw [← start_plain, runActs_plain]
  · intro dirOn a0 script script' t0 acts heq
    rw [← runActs_plain, ← runActs_plain, start_plain, start_plain, heq]

/-- Non-vacuity: the example script (its failure wraps `context.DeadlineExceeded`), the same script with
a plain error and with a bare `context.Canceled` differ only in error kinds; the run over the plain one
reaches the same retry state. -/
def exScriptPlain : List Reply := [.ok 0 3600000000000, .fail {}, .ok 1800000000000 5400000000000]
def exP1 : RN := answer (advance (advance (answer (start true 7 exScriptPlain 0)) 1800000000000) 2000000000)

example : exScript.map Reply.plain ≠ exScript ∧ exScript.map Reply.plain = exScriptPlain.map Reply.plain ∧
    exScript.map Reply.plain =
      [.ok 0 3600000000000, .fail { isCanceled := true, tag := 8 }, .ok 1800000000000 5400000000000].map Reply.plain := by
  decide

example : exP1.mode = .retrying ∧ exP1.wakeAt = 1812000000000 ∧ ex1.mode = .retrying ∧ ex1.wakeAt = 1812000000000 ∧
    exP1.log.map (·.stamp) = [1800000000000, 0] ∧ ex1.log.map (·.stamp) = [1800000000000, 0] := by
  decide

/-- **A failed renewal is retried 10 s later whatever error it failed with, and `Run` does not
return.**  From every reachable state with a renewal request outstanding whose scripted answer is an
error of ANY kind `k` (plain; wrapping `context.Canceled` / `context.DeadlineExceeded`; the bare
sentinels; the `Err()` of a child context of the issuer's own): the answer leaves the loop waiting on
the retry timer armed for exactly 10 s after the failure returned, the served SVID untouched; and the
clock advance that reaches that deadline puts a new request in flight (stamped with that clock value;
by `retry_every_10s_keeps_svid` this repeats for every further failure until a request succeeds). -/
theorem failed_renewal_any_error_kind_retried {dirOn : Bool} {a0 : Nat} {script : List Reply} {t0 : Int}
    {s : RN} (h : RReach dirOn a0 script t0 s) (hm : s.mode = .inflight) (hi : s.reqInit = false)
    (k : ErrKind) (rest : List Reply) (hs : s.script = .fail k :: rest) :
    (answer s).mode = .retrying ∧ (answer s).wakeAt = s.now + tenSec ∧ (answer s).now = s.now ∧
    (answer s).svid = s.svid ∧ (answer s).script = rest ∧
    (∀ d, 0 < d → tenSec ≤ d →
      (advance (answer s) d).mode = .inflight ∧ (advance (answer s) d).reqAt = s.now + d ∧
      (advance (answer s) d).svid = s.svid) := by
  have hnone : (complete s).2 = none := by simp [complete, outcome, hs]
  have hrest : (complete s).1.script = rest := by simp [complete, outcome, hs]
  have cs := complete_spec s
  have hcore : answerCore s = { (complete s).1 with mode := .retrying, wakeAt := s.now + tenSec, armedAt := s.now,
                                                     timers := (s.now, tenSec) :: (complete s).1.timers } := by
    rcases answerCore_cases s with ⟨_, hi', _⟩ | ⟨_, _, hw⟩ | ⟨c, hc, _⟩
    · rw [hi] at hi'; cases hi'
    · exact hw
    · rw [hnone] at hc; cases hc
  have hnd : (answerCore s).due = false := by
    cases hd : (answerCore s).due
    · rfl
    · have h1 := ((due_iff _).mp hd).2
      rw [hcore] at h1
      have h2 : s.now + tenSec ≤ (complete s).1.now := h1
      rw [cs.now] at h2
      have := tenSec_pos
      omega
  have hans : answer s = answerCore s := by
    simp only [answer, hm, if_true]
    show settle 3 (answerCore s) = _
    simp only [settle, hnd]
    rfl
  have hmode : (answer s).mode = .retrying := by rw [hans, hcore]
  have hwake : (answer s).wakeAt = s.now + tenSec := by rw [hans, hcore]
  have hnow : (answer s).now = s.now := by rw [hans, hcore]; exact cs.now
  have hsvid : (answer s).svid = s.svid := by rw [hans, hcore]; exact cs.svid
  refine ⟨hmode, hwake, hnow, hsvid, by rw [hans, hcore]; exact hrest, ?_⟩
  intro d hd hten
  obtain ⟨_, _, hadv⟩ := retry_every_10s_keeps_svid (.ans h) hmode
  obtain ⟨a1, a2, _, a4, _⟩ := hadv d hd (by rw [hwake, hnow]; omega)
  exact ⟨a1, by rw [a2, hnow], by rw [a4, hsvid]⟩

/-- Non-vacuity: in the example run the first renewal request (in flight in `advance ex1a 2 s`) is
answered with an error wrapping `context.DeadlineExceeded`. -/
example : (advance ex1a 2000000000).mode = .inflight ∧ (advance ex1a 2000000000).reqInit = false ∧
    (advance ex1a 2000000000).script = .fail { isDeadline := true, tag := 3 } :: [.ok 1800000000000 5400000000000] ∧
    ex1.mode = .retrying := by decide

/-- **`Run` does not return while its context is alive** (the automaton has no cancel action: the
context handed to `Run` is alive in every reachable state): the rotation has ended only if the INITIAL
fetch failed — then nothing is served and that failed request is the whole log; once an SVID is served
the loop is, in every reachable state and after failures of any kind, waiting on its timer, waiting for
a retry, or inside a request. -/
theorem rotation_ends_only_on_initial_failure {dirOn : Bool} {a0 : Nat} {script : List Reply} {t0 : Int}
    {s : RN} (h : RReach dirOn a0 script t0 s) :
    (s.mode = .dead → s.svid = none ∧ ∃ r, s.log = [r] ∧ r.good = false) ∧
    (s.svid ≠ none → s.mode = .waiting ∨ s.mode = .retrying ∨ s.mode = .inflight) := by
  have hd := dead_only_init h
  refine ⟨hd, ?_⟩
  intro hsv
  cases hm : s.mode with
  | waiting => exact Or.inl rfl
  | retrying => exact Or.inr (Or.inl rfl)
  | inflight => exact Or.inr (Or.inr rfl)
  | dead => exact absurd (hd hm).1 hsv

example : ex1.svid ≠ none ∧ ex1.mode = .retrying ∧
    (answer (start false 0 [.fail { isCanceled := true }] 0)).mode = .dead := by decide

end Kit.Spiffe
