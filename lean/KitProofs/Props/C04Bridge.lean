/-
Property C04, first sentence, as ONE theorem across both halves (`parse_then_next_spec`):
for every expression the parser accepts, `Next` returns the earliest whole second strictly after
`t` that satisfies the DOCUMENTED meaning of the expression's fields on the wall clock of the
schedule's zone, or zero if there is none within five years — for every zone with a constant
offset that is a multiple of 60 s.  Plus `@every`.

Composition of `parse_fields` / `getField_denotes` (parser half, `Props/C04Parser.lean`) with
`next_post_fixed` (`Props/C04Next.lean`) through `matches_iff` (`Lemmas/CronBridge.lean`).
-/
import KitProofs.Props.C04Parser
import KitProofs.Props.C04Next
import KitProofs.Props.C04Dst
import KitProofs.Lemmas.CronBridge

namespace Kit.CronBridge
open Kit Kit.Cron Kit.Cron.Spec Kit.CronSpec

/-! ### what the expression says -/

/-- doc.go "Predefined schedules": descriptor ↦ equivalent standard expression. -/
def docTable : List (List Char × List Char) :=
  [("@yearly".toList, "0 0 1 1 *".toList), ("@annually".toList, "0 0 1 1 *".toList),
   ("@monthly".toList, "0 0 1 * *".toList), ("@weekly".toList, "0 0 * * 0".toList),
   ("@daily".toList, "0 0 * * *".toList), ("@midnight".toList, "0 0 * * *".toList),
   ("@hourly".toList, "0 * * * *".toList)]

/-- `fs` are the six field texts (second … day-of-week) the expression `spec` stands for under
the parser options `o`, and `loc` its `TZ=`/`CRON_TZ=` location: after the optional prefix either
the fields as written, with the documented defaults for omitted/optional places
(`normalizeFields`, characterised by `normalize_spec`), or — for a descriptor — the fields of its
documented equivalent. -/
def SixFields (env : Env) (o : Opts) (spec : List Char) (loc : Option String)
    (fs : List (List Char)) : Prop :=
  ∃ rest, tzPrefix true env spec = .ok (loc, rest) ∧
    ((hasPrefix ['@'] rest = false ∧ normalizeFields (fields rest) o = .ok fs) ∨
     (hasPrefix ['@'] rest = true ∧ o.descriptor = true ∧ ∃ equiv, (rest, equiv) ∈ docTable ∧
        normalizeFields (fields equiv) standardOpts = .ok fs))

/-- The six field texts are the concrete syntax of the (well-formed) terms of `e`. -/
def Reads (fs : List (List Char)) (e : Expr) : Prop :=
  ∃ f0 f1 f2 f3 f4 f5, fs = [f0, f1, f2, f3, f4, f5] ∧
    FieldSyn seconds f0 e.second ∧ FieldSyn minutes f1 e.minute ∧ FieldSyn hours f2 e.hour ∧
    FieldSyn Cron.dom f3 e.dom ∧ FieldSyn months f4 e.month ∧ FieldSyn Cron.dow f5 e.dow ∧
    (∀ t ∈ e.second, t.WF seconds) ∧ (∀ t ∈ e.minute, t.WF minutes) ∧ (∀ t ∈ e.hour, t.WF hours) ∧
    (∀ t ∈ e.dom, t.WF Cron.dom) ∧ (∀ t ∈ e.month, t.WF months) ∧ (∀ t ∈ e.dow, t.WF Cron.dow)

/-- What `Next` must satisfy with respect to a documented meaning `e` (whole seconds `u`;
`tn` in nanoseconds). -/
def NextSpec (e : Expr) (z : Zone) (tn : Int) : Result → Prop
  | .at r => tn < r * 1000000000 ∧ DocMatches e z r ∧
      ∀ u, tn < u * 1000000000 → u < r → ¬ DocMatches e z u
  | .zero => ∀ u, tn < u * 1000000000 → year z u ≤ year z (roundUp tn) + 5 → ¬ DocMatches e z u
  | .fuel => False

/-! ### the Next half with documented meaning -/

/-- `next_post_fixed` restated for any schedule whose six bit sets have a documented meaning. -/
theorem next_doc_fixed (s : SpecSchedule) (e : Expr) (hm : Meaning s e) (off : Int)
    (h60 : off % 60 = 0) (tn : Int) :
    NextSpec e (fixedZone off) tn (next (toSched s) (fixedZone off) tn) := by
  have hp := next_post_fixed (toSched s) off h60 tn
  cases hr : next (toSched s) (fixedZone off) tn with
  | fuel => rw [hr] at hp; exact hp
  | «at» r =>
    rw [hr] at hp
    obtain ⟨h1, h2, h3⟩ := hp
    rw [roundUp_eq] at h1 h3
    refine ⟨by omega, (matches_iff hm _ _).1 h2, ?_⟩
    intro u hu1 hu2 hd
    exact h3 u (by omega) hu2 ((matches_iff hm _ _).2 hd)
  | zero =>
    rw [hr] at hp
    obtain ⟨t', hy, hnm⟩ := hp
    intro u hu1 hu2 hd
    rw [roundUp_eq] at hnm
    by_cases hlt : u < t'
    · exact hnm u (by omega) hlt ((matches_iff hm _ _).2 hd)
    · have := year_mono (off := off) (u := t') (t := u) (by omega)
      omega

/-! ### the parser half: accepted ⇒ six fields with a documented meaning -/

theorem meaning_of_fields (s : SpecSchedule) (f0 f1 f2 f3 f4 f5 : List Char)
    (h0 : getField seconds f0 = .ok s.second) (h1 : getField minutes f1 = .ok s.minute)
    (h2 : getField hours f2 = .ok s.hour) (h3 : getField Cron.dom f3 = .ok s.dom)
    (h4 : getField months f4 = .ok s.month) (h5 : getField Cron.dow f5 = .ok s.dow) :
    ∃ e, Reads [f0, f1, f2, f3, f4, f5] e ∧ Meaning s e := by
  obtain ⟨b0, b1, b2, b3, b4, b5⟩ := bounds_below_star
  obtain ⟨t0, s0, m0⟩ := getField_denotes seconds b0 f0 _ h0
  obtain ⟨t1, s1, m1⟩ := getField_denotes minutes b1 f1 _ h1
  obtain ⟨t2, s2, m2⟩ := getField_denotes hours b2 f2 _ h2
  obtain ⟨t3, s3, m3⟩ := getField_denotes Cron.dom b3 f3 _ h3
  obtain ⟨t4, s4, m4⟩ := getField_denotes months b4 f4 _ h4
  obtain ⟨t5, s5, m5⟩ := getField_denotes Cron.dow b5 f5 _ h5
  exact ⟨⟨t0, t1, t2, t3, t4, t5⟩,
    ⟨f0, f1, f2, f3, f4, f5, rfl, s0, s1, s2, s3, s4, s5, m0.wf, m1.wf, m2.wf, m3.wf, m4.wf, m5.wf⟩,
    ⟨m0, m1, m2, m3, m4, m5⟩⟩

/-- The six normalised fields of a documented equivalent and what `getField` reads from them. -/
def EquivFields (s : SpecSchedule) (equiv : List Char) (fs : List (List Char)) : Prop :=
  ∃ f0 f1 f2 f3 f4 f5, fs = [f0, f1, f2, f3, f4, f5] ∧
    normalizeFields (fields equiv) standardOpts = .ok fs ∧
    getField seconds f0 = .ok s.second ∧ getField minutes f1 = .ok s.minute ∧
    getField hours f2 = .ok s.hour ∧ getField Cron.dom f3 = .ok s.dom ∧
    getField months f4 = .ok s.month ∧ getField Cron.dow f5 = .ok s.dow

private theorem equivFields_intro (s : SpecSchedule) (equiv f0 f1 f2 f3 f4 f5 : List Char)
    (hn : normalizeFields (fields equiv) standardOpts = .ok [f0, f1, f2, f3, f4, f5])
    (h0 : getField seconds f0 = .ok s.second) (h1 : getField minutes f1 = .ok s.minute)
    (h2 : getField hours f2 = .ok s.hour) (h3 : getField Cron.dom f3 = .ok s.dom)
    (h4 : getField months f4 = .ok s.month) (h5 : getField Cron.dow f5 = .ok s.dow) :
    EquivFields s equiv [f0, f1, f2, f3, f4, f5] :=
  ⟨f0, f1, f2, f3, f4, f5, rfl, hn, h0, h1, h2, h3, h4, h5⟩

/-- A descriptor that yields a schedule is one of the documented ones, and its schedule is what
`getField` reads from the six fields of the documented equivalent. -/
theorem descriptor_case (env : Env) (rest : List Char) (loc loc' : Option String)
    (s : SpecSchedule) (h : parseDescriptor env rest loc = .ok (.spec s loc')) :
    loc' = loc ∧ ∃ equiv fs, (rest, equiv) ∈ docTable ∧ EquivFields s equiv fs := by
  unfold parseDescriptor at h
  cases hf : Gen.descriptors.find? (fun e => e.1.contains rest) with
  | none =>
    rw [hf] at h
    simp only at h
    split at h
    · cases hd : env.parseDuration (List.drop Gen.everyPrefix.length rest) <;> simp [hd] at h
    · simp at h
  | some e =>
    rw [hf] at h
    simp only [Outcome.ok.injEq, Sched.spec.injEq] at h
    obtain ⟨hs, hl⟩ := h
    have hmem := List.mem_of_find?_eq_some hf
    have hc := List.find?_some hf
    refine ⟨hl.symm, ?_⟩
    subst hs
    simp only [Gen.descriptors, List.mem_cons, List.not_mem_nil, or_false] at hmem
    rcases hmem with rfl | rfl | rfl | rfl | rfl <;>
      simp only [List.contains_eq_mem, List.mem_cons, List.not_mem_nil, or_false,
        decide_eq_true_eq] at hc
    · refine ⟨"0 0 1 1 *".toList, _, ?_, equivFields_intro _ _ "0".toList "0".toList "0".toList
        "1".toList "1".toList "*".toList rfl rfl rfl rfl rfl rfl rfl⟩
      rcases hc with rfl | rfl <;> simp [docTable]
    · refine ⟨"0 0 1 * *".toList, _, ?_, equivFields_intro _ _ "0".toList "0".toList "0".toList
        "1".toList "*".toList "*".toList rfl rfl rfl rfl rfl rfl rfl⟩
      subst hc; simp [docTable]
    · refine ⟨"0 0 * * 0".toList, _, ?_, equivFields_intro _ _ "0".toList "0".toList "0".toList
        "*".toList "*".toList "0".toList rfl rfl rfl rfl rfl rfl rfl⟩
      subst hc; simp [docTable]
    · refine ⟨"0 0 * * *".toList, _, ?_, equivFields_intro _ _ "0".toList "0".toList "0".toList
        "*".toList "*".toList "*".toList rfl rfl rfl rfl rfl rfl rfl⟩
      rcases hc with rfl | rfl <;> simp [docTable]
    · refine ⟨"0 * * * *".toList, _, ?_, equivFields_intro _ _ "0".toList "0".toList "*".toList
        "*".toList "*".toList "*".toList rfl rfl rfl rfl rfl rfl rfl⟩
      subst hc; simp [docTable]

/-- **Accepted ⇒ documented meaning** for the whole expression: a successful `Parse` that yields a
cron schedule reads six field texts (`SixFields`), which are the concrete syntax of well-formed
terms `e` (`Reads`), and each of the six bit sets means what its terms denote (`Meaning`). -/
theorem parse_meaning (env : Env) (o : Opts) (h2 : o.twoOptionals = false) (spec : List Char)
    (s : SpecSchedule) (loc : Option String) (h : parse env o spec = .ok (.spec s loc)) :
    ∃ fs e, SixFields env o spec loc fs ∧ Reads fs e ∧ Meaning s e := by
  have h0 := h
  unfold parse parseG at h
  rw [tzGuard_on] at h
  split at h
  · simp at h
  cases ht : tzPrefix true env spec with
  | err e => simp [ht] at h
  | panic w => simp [ht] at h
  | ok pr =>
    obtain ⟨loc', rest⟩ := pr
    rw [ht] at h
    simp only at h
    by_cases hat : hasPrefix ['@'] rest = true
    · rw [if_pos hat] at h
      by_cases hd : o.descriptor = true
      · simp only [hd, Bool.not_true, Bool.false_eq_true, if_false] at h
        obtain ⟨hl, equiv, fs, hmem, f0, f1, f2, f3, f4, f5, rfl, hn, g0, g1, g2, g3, g4, g5⟩ :=
          descriptor_case env rest loc' loc s h
        obtain ⟨e, hr, hm⟩ := meaning_of_fields s f0 f1 f2 f3 f4 f5 g0 g1 g2 g3 g4 g5
        subst hl
        exact ⟨_, e, ⟨rest, ht, Or.inr ⟨hat, hd, equiv, hmem, hn⟩⟩, hr, hm⟩
      · have : o.descriptor = false := by simpa using hd
        simp [this] at h
    · rcases parse_fields env o h2 spec s loc h0 with ⟨loc'', rest'', ht', hat'⟩ |
        ⟨rest'', f0, f1, f2, f3, f4, f5, ht', hn, g0, g1, g2, g3, g4, g5⟩
      · rw [ht] at ht'
        simp only [Outcome.ok.injEq, Prod.mk.injEq] at ht'
        rw [← ht'.2] at hat'
        exact absurd hat' hat
      · rw [ht] at ht'
        simp only [Outcome.ok.injEq, Prod.mk.injEq] at ht'
        obtain ⟨rfl, rfl⟩ := ht'
        obtain ⟨e, hr, hm⟩ := meaning_of_fields s f0 f1 f2 f3 f4 f5 g0 g1 g2 g3 g4 g5
        exact ⟨_, e, ⟨rest, ht, Or.inl ⟨by simpa using hat, hn⟩⟩, hr, hm⟩

/-- **Property C04, first sentence.**  For every environment, every option set `NewParser` accepts,
every spec string `Parse` accepts as a cron schedule (with or without `TZ=`/`CRON_TZ=` prefix,
descriptors included): the expression reads as six field texts with the documented defaults,
these are the syntax of well-formed terms `e`, and on every zone with a constant offset that is a
multiple of 60 s `Next(t)` is strictly after `t`, satisfies the documented meaning of `e` on the
wall clock (ranges, steps, lists, names, `?`, either-day rule), no earlier whole second after `t`
does, and the zero time is returned only if no whole second up to the end of the fifth following
year does; the search always terminates. -/
theorem parse_then_next_spec (env : Env) (o : Opts) (h2 : o.twoOptionals = false)
    (spec : List Char) (s : SpecSchedule) (loc : Option String)
    (h : parse env o spec = .ok (.spec s loc)) :
    ∃ fs e, SixFields env o spec loc fs ∧ Reads fs e ∧
      ∀ (off : Int), off % 60 = 0 → ∀ tn : Int,
        NextSpec e (fixedZone off) tn (next (toSched s) (fixedZone off) tn) := by
  obtain ⟨fs, e, h6, hr, hm⟩ := parse_meaning env o h2 spec s loc h
  exact ⟨fs, e, h6, hr, fun off h60 tn => next_doc_fixed s e hm off h60 tn⟩

/-- The same through the executable composition `parseThenNext` (what the driver op `pnext` runs):
an accepted cron expression never yields `err`, `panic` or `fuel` on a fixed zone, and the answer
is `Next`'s. -/
theorem parseThenNext_spec (env : Env) (o : Opts) (h2 : o.twoOptionals = false)
    (spec : List Char) (s : SpecSchedule) (loc : Option String)
    (h : parse env o spec = .ok (.spec s loc)) (off : Int) (h60 : off % 60 = 0) (tn : Int) :
    ∃ e, (∃ fs, SixFields env o spec loc fs ∧ Reads fs e) ∧
      ((∃ r, parseThenNext env o spec (fixedZone off) tn = .at (r * 1000000000) ∧
          NextSpec e (fixedZone off) tn (.at r)) ∨
       (parseThenNext env o spec (fixedZone off) tn = .zero ∧ NextSpec e (fixedZone off) tn .zero)) := by
  obtain ⟨fs, e, h6, hr, hn⟩ := parse_then_next_spec env o h2 spec s loc h
  refine ⟨e, ⟨fs, h6, hr⟩, ?_⟩
  have := hn off h60 tn
  simp only [parseThenNext, newParserParse, h2, Bool.false_eq_true, if_false, h]
  cases hr' : next (toSched s) (fixedZone off) tn with
  | fuel => rw [hr'] at this; exact this.elim
  | «at» r => rw [hr'] at this; exact Or.inl ⟨r, rfl, this⟩
  | zero => rw [hr'] at this; exact Or.inr ⟨rfl, this⟩

/-- `@every <duration>` end to end: the parser yields the delay `max(d, 1 s)` truncated to whole
seconds, and `Next(t)` is `t` truncated to the second plus that delay. -/
theorem parse_then_next_every (env : Env) (text : List Char) (loc : Option String) (d tn : Int)
    (hd : env.parseDuration text = some d) :
    parseDescriptor env (Gen.everyPrefix ++ text) loc = .ok (.every (Cron.everyDelay d)) ∧
    everyNext (Cron.everyDelay d) tn = (tn - tn % 1000000000) + Cron.everyDelay d ∧
    Cron.everyDelay d = CronSpec.everyDelay d ∧
    (∃ k : Int, Cron.everyDelay d = k * 1000000000) ∧ 1000000000 ≤ Cron.everyDelay d ∧
    Cron.everyDelay d ≤ max d 1000000000 ∧ max d 1000000000 < Cron.everyDelay d + 1000000000 := by
  have h1 := every_parse env text loc
  rw [hd] at h1
  have h2 := every_spec d
  refine ⟨h1, ?_, rfl, h2.1, h2.2.1, h2.2.2.1, h2.2.2.2⟩
  simp only [everyNext]; omega

/-- **Property C04, first sentence, on daylight-saving zones.**  The same end-to-end statement for
every zone table passing `hourTable` (one-hour transitions on whole hours, ≥ 75 days apart,
missing/repeated midnights included): accepted expression ⇒ `Next` realises the documented meaning
of its fields on the wall clock, minimally, with the five-year zero rule, and terminates. -/
theorem parse_then_next_spec_dst (env : Env) (o : Opts) (h2 : o.twoOptionals = false)
    (spec : List Char) (s : SpecSchedule) (loc : Option String)
    (h : parse env o spec = .ok (.spec s loc)) :
    ∃ fs e, SixFields env o spec loc fs ∧ Reads fs e ∧
      ∀ (z : Zone), hourTable z = true → ∀ tn : Int, NextSpec e z tn (next (toSched s) z tn) := by
  obtain ⟨fs, e, h6, hr, hm⟩ := parse_meaning env o h2 spec s loc h
  refine ⟨fs, e, h6, hr, fun z hz tn => ?_⟩
  have hp := next_dst_tables z hz (toSched s) tn
  cases hr' : next (toSched s) z tn with
  | fuel => rw [hr'] at hp; exact hp
  | «at» r =>
    rw [hr'] at hp
    obtain ⟨h1, h2', h3⟩ := hp
    exact ⟨h1, (matches_iff hm _ _).1 h2', fun u hu1 hu2 hd => h3 u hu1 hu2 ((matches_iff hm _ _).2 hd)⟩
  | zero =>
    rw [hr'] at hp
    exact fun u hu1 hu2 hd => hp u hu1 hu2 ((matches_iff hm _ _).2 hd)

/-! ### non-vacuity -/

/-- A concrete accepted expression with a `TZ=` prefix, a name, a step and a list. -/
example : ∃ s loc, parse ⟨fun _ => true, fun _ => none⟩ standardOpts
    "TZ=Asia/Kolkata */15 9-17 ? JAN,jul mon-fri".toList = .ok (.spec s loc) := ⟨_, _, rfl⟩
example : standardOpts.twoOptionals = false := rfl

end Kit.CronBridge
