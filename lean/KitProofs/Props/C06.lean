import KitProofs.Lemmas.Processor
import KitProofs.Lemmas.ProcessorProgress
import KitProofs.Lemmas.ProcessorAllSchedules
import KitProofs.Lemmas.Queue
import KitProofs.Lemmas.Heap
import KitProofs.Lemmas.ProcessorAccept
/-!
# C06 — queue.Processor: live items run exactly once, on time, in order; none stranded

All theorems are about `lts fixedCfg`, the transition system of `KitModel/Processor.lean` for the
loop after the `fix:` commit, and quantify over EVERY reachable state, i.e. every interleaving of
any number of `Enqueue`/`Dequeue` callers, clock advances, `Close`, and the loop goroutine, and
every way a heap may break ties.  `s.log` is the ghost history, newest event first; a hypothesis
`s.log = post ++ e :: pre` reads "`e` happened after `pre` and before `post`".

`stranded_witness` is about `lts ⟨false⟩`, the loop as it was before the fix.
-/
namespace Kit.Processor.C06
open Kit.Queue Kit.Processor

set_option linter.unusedSectionVars false

variable {κ ν : Type} [DecidableEq κ] [DecidableEq ν]

/-- The loop will look at the queue again: its next lock-protected step re-reads the head, or its
pending wake-up is not later than any live item, or a reset is buffered for it. -/
def LooksAgain (s : State κ ν) : Prop :=
  match s.pc with
  | .absent | .exiting => False
  | .top | .firing _ | .popped _ | .running _ => True
  | .peeked r | .polled r | .arming r | .armed r => Covers s r

/-- **served**: whenever the processor is open and the queue is non-empty, a live loop goroutine
holds the running token and will look at the queue again. -/
theorem served {s : State κ ν} (hr : Reach (lts fixedCfg) s) (hopen : s.stopped = false) (hq : s.q ≠ []) :
    s.token = .loop ∧ LooksAgain s := by
  obtain ⟨x, hx⟩ := List.exists_mem_of_ne_nil _ hq
  have hA := invA hr
  have hB := invB hr
  have hpc := hB.1 hopen x hx
  refine ⟨hA.1.mpr hpc, ?_⟩
  have hex : s.pc ≠ .exiting := by
    intro h
    have h1 := hA.2.2.2.2 h
    have h3 := hA.2.2.1.mp hopen
    have h4 := hA.2.2.2.1.mp h1
    rw [h3] at h4
    simp at h4
  unfold LooksAgain
  cases hp : s.pc with
  | absent => exact absurd hp hpc
  | exiting => exact absurd hp hex
  | top => trivial
  | firing r => trivial
  | popped r => trivial
  | running r => trivial
  | peeked r => exact hB.2 r (by simp [hp])
  | polled r => exact hB.2 r (by simp [hp])
  | arming r => exact hB.2 r (by simp [hp])
  | armed r => exact hB.2 r (by simp [hp])

/-- **none_stranded**: from every reachable state of an open processor in which `x` is live and
due and the loop's pending timer (if it has one and no reset is buffered) is due (`Timely`), the loop
goroutine alone — no environment action, no clock advance — reaches the start of `x`'s callback
(assuming callbacks return: `cbReturn` is one of the loop's labels).  `Timely` can only fail when the
clock advanced between the loop's `Now()` and its `NewTimer()`; see `late_bound`. -/
theorem none_stranded {s : State κ ν} {x : Item κ ν} (hr : Reach (lts fixedCfg) s)
    (hopen : s.stopped = false) (hx : x ∈ s.q) (hdue : x.time ≤ s.now) (ht : Timely s) :
    ∃ s', Steps (lts fixedCfg) LoopLabel s s' ∧ Event.exec x s.now ∈ s'.log :=
  progress ⟨hr, hopen, hx, hdue, ht⟩

/-- **loop_measure_decreases**: from a state in which `x` is pending (live, or just popped), due, the
processor open and the pending timer due, EVERY step of the loop goroutine either starts `x`'s
callback or keeps all that, leaves the clock alone and strictly decreases the measure
`40·|queue| + 10·[reset buffered] + 10·[root undetermined] + rank(pc)`. -/
theorem loop_measure_decreases {s s' : State κ ν} {x : Item κ ν} {l : Label κ ν} (h : Good s x)
    (hl : l.isLoop = true) (hst : step fixedCfg s l = some s') :
    Event.exec x s.now ∈ s'.log ∨ (Good s' x ∧ measure s' < measure s ∧ s'.now = s.now) :=
  loop_step_decreases h hl hst

/-- **none_stranded_all_schedules**: for EVERY schedule of the loop goroutine (every sequence `ls` of
loop labels that the model can perform, whatever the select statements and the heap's tie-break
choose) from a reachable open state in which `x` is live and due and the pending timer is due:
(1) after `ls` either `x`'s callback has started or the measure has dropped by `ls.length`;
(2) hence `x`'s callback has started after at most `40·|queue| + 32` loop steps;
(3) as long as it has not, some loop step is enabled — no loop-only execution gets stuck or runs
forever without executing `x`: every maximal one executes it. -/
theorem none_stranded_all_schedules {s : State κ ν} {x : Item κ ν} (hr : Reach (lts fixedCfg) s)
    (hopen : s.stopped = false) (hx : x ∈ s.q) (hdue : x.time ≤ s.now) (ht : Timely s) :
    (∀ (ls : List (Label κ ν)) (s' : State κ ν), runFrom fixedCfg s ls = some s' →
      (∀ l ∈ ls, l.isLoop = true) →
      (Event.exec x s.now ∈ s'.log ∨ (Good s' x ∧ measure s' + ls.length ≤ measure s)) ∧
      (40 * s.q.length + 32 ≤ ls.length → Event.exec x s.now ∈ s'.log) ∧
      (Event.exec x s.now ∉ s'.log → ∃ l s'', l.isLoop = true ∧ step fixedCfg s' l = some s'')) := by
  have hg : Good s x := ⟨hr, hopen, hdue, ht, Or.inl hx⟩
  intro ls s' hrun hloop
  have h1 := all_loop_schedules ls hg hrun hloop
  refine ⟨?_, fun hlen => all_loop_schedules_bound hg hrun hloop hlen, ?_⟩
  · rcases h1 with h1 | ⟨a, b, _⟩
    · exact Or.inl h1
    · exact Or.inr ⟨a, b⟩
  · intro hne
    rcases h1 with h1 | ⟨a, _, _⟩
    · exact absurd h1 hne
    · exact loop_step_enabled a

/-- **none_stranded_interleaved**: environment steps that leave `x` alone (Enqueue/Dequeue of other
keys, clock advances) may be interleaved arbitrarily: they keep the state good, and after any such
prefix every run of `40·|queue| + 32` consecutive loop steps executes `x` — between two environment
steps the loop needs at most that many steps. -/
theorem none_stranded_interleaved {s s1 s2 : State κ ν} {x : Item κ ν} {pre seg : List (Label κ ν)}
    (hr : Reach (lts fixedCfg) s) (hopen : s.stopped = false) (hx : x ∈ s.q) (hdue : x.time ≤ s.now)
    (ht : Timely s) (hpre : runFrom fixedCfg s pre = some s1)
    (hok : ∀ l ∈ pre, l.isLoop = true ∨ Benign x l) (hseg : runFrom fixedCfg s1 seg = some s2)
    (hloop : ∀ l ∈ seg, l.isLoop = true) (hlen : 40 * s1.q.length + 32 ≤ seg.length) : Executed s2 x :=
  interleaved_schedules pre ⟨hr, hopen, hdue, ht, Or.inl hx⟩ hpre hok hseg hloop hlen

/-- Environment steps that leave `x` alone preserve the hypotheses of the theorems above. -/
theorem benign_env_step_keeps_good {s s' : State κ ν} {x : Item κ ν} {l : Label κ ν} (h : Good s x)
    (hb : Benign x l) (hst : step fixedCfg s l = some s') : Good s' x :=
  good_env_step h hb hst

/-- **late_bound**: the loop's timer fires at `armAt + Sub(scheduled, readAt)` where `readAt` is the
clock value the loop read (`Now()`), `armAt` the clock value at which it created the timer
(`NewTimer()`) and `Sub` is Go's saturating `Time.Sub` (`satDur`: spans beyond ±2^63 ns ≈ 292 years
are clamped).  So unless the item is more than 2^63 ns ahead of the clock, the timer fires at
`scheduled + (armAt − readAt)`: never early, late by exactly the clock time between the two calls. -/
theorem late_bound {s : State κ ν} (hr : Reach (lts fixedCfg) s) {r : Item κ ν} :
    (s.pc = .arming r → s.timer = satDur (r.time - s.readAt) ∧ s.readAt ≤ s.now) ∧
    (s.pc = .armed r → s.timer = s.armAt + satDur (r.time - s.readAt) ∧ s.readAt ≤ s.armAt ∧ s.armAt ≤ s.now) ∧
    (s.pc = .armed r → r.time - s.readAt ≤ maxDur → s.timer = r.time + (s.armAt - s.readAt)) := by
  have hT := invT hr
  refine ⟨fun h => ⟨(hT.2.1 r h).1, (hT.2.1 r h).2.2.1⟩,
    fun h => ⟨(hT.2.2 r h).1, (hT.2.2 r h).2.2.1, (hT.2.2 r h).2.2.2.1⟩, ?_⟩
  intro h hle
  have h1 := hT.2.2 r h
  rcases satDur_cases (r.time - s.readAt) with ⟨_, _, hs⟩ | ⟨hgt, _⟩ | ⟨hlt, _⟩
  · rw [h1.1, hs]; omega
  · omega
  · have := h1.2.2.2.2
    simp only [halfMs, Kit.Generated.C06.runNowMarginNs, minDur] at *
    omega

/-- If the clock did not advance between the two calls (and the item is less than 2^63 ns ahead), the
timer is exact, hence `Timely` holds whenever the head it was armed for is due. -/
theorem timer_exact_without_advance {s : State κ ν} (hr : Reach (lts fixedCfg) s) {r : Item κ ν}
    (hpc : s.pc = .armed r) (h : s.armAt = s.readAt) (hle : r.time - s.readAt ≤ maxDur) : s.timer = r.time := by
  have := (late_bound hr (r := r)).2.2 hpc hle
  rw [this, h]; omega

/-- **saturation**: an item scheduled more than 2^63 ns (≈ 292 years) after the clock value the loop
read gets a timer of exactly `maxDuration` — the loop sleeps ≈ 292 years (or until a reset). -/
theorem far_future_timer_saturates {s : State κ ν} (hr : Reach (lts fixedCfg) s) {r : Item κ ν}
    (hpc : s.pc = .armed r) (hfar : maxDur < r.time - s.readAt) : s.timer = s.armAt + maxDur := by
  have h1 := (invT hr).2.2 r hpc
  rcases satDur_cases (r.time - s.readAt) with ⟨hle, _, _⟩ | ⟨_, hs⟩ | ⟨hlt, _⟩
  · omega
  · rw [h1.1, hs]
  · simp only [maxDur, minDur] at *; omega

/-- **runs_when_clock_reaches** (none stranded, with the clock): in every reachable open state, a
live item `x` is executed by the loop alone as soon as the clock has reached both its scheduled
time and the loop's pending wake-up (`wakeBound`: the armed timer, `now + duration` if the loop is
between `Now()` and `NewTimer()`, otherwise now) — a path of loop steps and ONE advance to `T`. -/
theorem runs_when_clock_reaches {s : State κ ν} {x : Item κ ν} (hr : Reach (lts fixedCfg) s)
    (hopen : s.stopped = false) (hx : x ∈ s.q) {T : Int} (hT : s.now ≤ T) (hxT : x.time ≤ T)
    (hw : wakeBound s ≤ T) :
    ∃ s', Steps (lts fixedCfg) (LoopOrAdvance T) s s' ∧ Event.exec x T ∈ s'.log :=
  Kit.Processor.runs_when_clock_reaches hr hopen hx hT hxT hw

/-- How late that can be: if the loop is armed for `r` with no reset buffered, every live item `x`
is at or after `r`, so the pending wake-up is at most `x.time` plus the clock time that passed
between the loop's `Now()` and `NewTimer()`. -/
theorem wake_bound_le {s : State κ ν} (hr : Reach (lts fixedCfg) s) {r x : Item κ ν}
    (hpc : s.pc = .armed r) (hreset : s.reset = false) (hx : x ∈ s.q) :
    wakeBound s ≤ x.time + (s.armAt - s.readAt) := by
  have h1 := (invT hr).2.2 r hpc
  have h2 := (invB hr).2 r (Or.inr (Or.inr (Or.inr hpc)))
  rcases h2 with h2 | h2
  · simp [hreset] at h2
  · have := h2 x hx
    simp only [wakeBound, hpc]
    have h3 := h1.2.2.2.2
    rcases satDur_cases (r.time - s.readAt) with ⟨_, _, hs⟩ | ⟨hgt, hs⟩ | ⟨hlt, hs⟩ <;>
      simp only [halfMs, Kit.Generated.C06.runNowMarginNs, maxDur, minDur] at * <;> omega

/-- **exactly_once** (at most once; "at least once" is `none_stranded`): a callback for `r` is
preceded by exactly one pop of `r` and neither preceded nor followed by another callback for `r`. -/
theorem exactly_once {s : State κ ν} (hr : Reach (lts fixedCfg) s) {post pre : List (Event κ ν)}
    {r : Item κ ν} {n : Int} (hl : s.log = post ++ .exec r n :: pre) :
    Event.pop r ∈ pre ∧ (∀ m, Event.exec r m ∉ pre) ∧ (∀ m, Event.exec r m ∉ post) := by
  have hok := logOK hr
  have h1 := logOK_split hok hl
  simp only [EvOK] at h1
  refine ⟨h1.2.1, h1.2.2.1, ?_⟩
  intro m hm
  obtain ⟨p1, p2, rfl⟩ := List.append_of_mem hm
  have hl' : s.log = p1 ++ .exec r m :: (p2 ++ .exec r n :: pre) := by simp [hl]
  have h2 := logOK_split hok hl'
  simp only [EvOK] at h2
  exact h2.2.2.1 n (by simp)

/-- An item is popped at most once. -/
theorem popped_once {s : State κ ν} (hr : Reach (lts fixedCfg) s) {post pre : List (Event κ ν)}
    {r : Item κ ν} (hl : s.log = post ++ .pop r :: pre) :
    Event.pop r ∉ pre ∧ Event.pop r ∉ post := by
  have hok := logOK hr
  have h1 := logOK_split hok hl
  simp only [EvOK] at h1
  refine ⟨h1.2.1, ?_⟩
  intro hm
  obtain ⟨p1, p2, rfl⟩ := List.append_of_mem hm
  have hl' : s.log = p1 ++ .pop r :: (p2 ++ .pop r :: pre) := by simp [hl]
  have h2 := logOK_split hok hl'
  simp only [EvOK] at h2
  exact h2.2.1 (by simp)

/-- **not_early**: a callback starts only when the clock is within half a millisecond of (or past)
the item's scheduled time — or, for an item scheduled more than 2^63 ns ahead whose timer duration
saturated (`Time.Sub` clamps at ≈ 292 years), not before the clock has run for 2^63 ns since the
processor's clock origin (`saturation_early_witness` shows this exception is real in the model). -/
theorem not_early {s : State κ ν} (hr : Reach (lts fixedCfg) s) {post pre : List (Event κ ν)}
    {r : Item κ ν} {n : Int} (hl : s.log = post ++ .exec r n :: pre) :
    r.time - halfMs ≤ n ∨ maxDur ≤ n := by
  have h1 := logOK_split (logOK hr) hl
  simp only [EvOK] at h1
  rcases h1.1 with h | h
  · exact Or.inl (Int.le_of_lt h)
  · exact Or.inr h

/-- **in_order**: every popped (hence every executed) item was live and the earliest live item at
the moment it was popped. -/
theorem in_order {s : State κ ν} (hr : Reach (lts fixedCfg) s) {post pre : List (Event κ ν)}
    {r : Item κ ν} (hl : s.log = post ++ .pop r :: pre) :
    r ∈ live pre ∧ ∀ x ∈ live pre, r.time ≤ x.time := by
  have h1 := logOK_split (logOK hr) hl
  simp only [EvOK] at h1
  exact h1.1

/-- Consequence: two items that were live together and both popped run in scheduled-time order. -/
theorem in_order_pair {s : State κ ν} (hr : Reach (lts fixedCfg) s) {post mid pre : List (Event κ ν)}
    {r1 r2 : Item κ ν} (hl : s.log = post ++ .pop r2 :: (mid ++ .pop r1 :: pre)) (h2 : r2 ∈ live pre) :
    r1.time ≤ r2.time := by
  have hl' : s.log = (post ++ .pop r2 :: mid) ++ .pop r1 :: pre := by simp [hl]
  exact (in_order hr hl').2 r2 h2

/-- **close_quiescent** (state form): once `Close` has returned there is no loop goroutine, no
callback is running, and `Close` keeps the running token (so no loop can ever start again). -/
theorem close_quiescent {s : State κ ν} (hr : Reach (lts fixedCfg) s) (hc : s.cpc = .returned) :
    s.pc = .absent ∧ s.token = .close := by
  have hA := invA hr
  have ht : s.token = .close := hA.2.1.mpr (Or.inr hc)
  refine ⟨?_, ht⟩
  by_cases h : s.pc = .absent
  · exact h
  · have := hA.1.mpr h
    rw [ht] at this
    cases this

/-- **close_quiescent** for every call: once ANY call to `Close` has returned — the one that won
the CompareAndSwap or a concurrent one that lost it — there is no loop goroutine, no callback is
running, and the running token is taken for good. -/
theorem close_quiescent_any {s : State κ ν} (hr : Reach (lts fixedCfg) s) (hc : Event.closeRet ∈ s.log) :
    s.pc = .absent ∧ s.token = .close := by
  have hA := invA hr
  have ht : s.token = .close := invG hr hc
  refine ⟨?_, ht⟩
  by_cases h : s.pc = .absent
  · exact h
  · have := hA.1.mpr h
    rw [ht] at this
    cases this

/-- **close_quiescent** (history form): nothing is popped and no callback starts after the return
of `Close`. -/
theorem close_quiescent_trace {s : State κ ν} (hr : Reach (lts fixedCfg) s) {post pre : List (Event κ ν)}
    (hl : s.log = post ++ .closeRet :: pre) :
    (∀ r, Event.pop r ∉ post) ∧ (∀ r n, Event.exec r n ∉ post) := by
  have hok := logOK hr
  constructor
  · intro r hm
    obtain ⟨p1, p2, rfl⟩ := List.append_of_mem hm
    have hl' : s.log = p1 ++ .pop r :: (p2 ++ .closeRet :: pre) := by simp [hl]
    have h2 := logOK_split hok hl'
    simp only [EvOK] at h2
    exact h2.2.2 (by simp)
  · intro r n hm
    obtain ⟨p1, p2, rfl⟩ := List.append_of_mem hm
    have hl' : s.log = p1 ++ .exec r n :: (p2 ++ .closeRet :: pre) := by simp [hl]
    have h2 := logOK_split hok hl'
    simp only [EvOK] at h2
    exact h2.2.2.2 (by simp)

/-- **dequeued_or_replaced_never_runs**: an item that was enqueued and then dequeued or replaced
(it is no longer live after the history `pre`) without having been popped is never popped and its
callback never starts, whatever happens afterwards. -/
theorem dequeued_or_replaced_never_runs {s : State κ ν} (hr : Reach (lts fixedCfg) s)
    {post pre : List (Event κ ν)} {r : Item κ ν} (hl : s.log = post ++ pre)
    (henq : Event.enq r ∈ pre) (hdead : r ∉ live pre) (hnp : Event.pop r ∉ pre) :
    Event.pop r ∉ post ∧ ∀ n, Event.exec r n ∉ post := by
  have hok := logOK hr
  have hpop : Event.pop r ∉ post := by
    intro hm
    obtain ⟨p1, p2, rfl⟩ := List.append_of_mem hm
    have hl' : s.log = p1 ++ .pop r :: (p2 ++ pre) := by simp [hl]
    have h2 := logOK_split hok hl'
    simp only [EvOK] at h2
    have hok2 : LogOK (p2 ++ pre) := by
      have : LogOK ((p1 ++ [.pop r]) ++ (p2 ++ pre)) := by
        rw [hl'] at hok; simpa using hok
      exact logOK_suffix this
    exact dead_stays_dead hok2 henq hdead h2.1.1
  refine ⟨hpop, ?_⟩
  intro n hm
  obtain ⟨p1, p2, rfl⟩ := List.append_of_mem hm
  have hl' : s.log = p1 ++ .exec r n :: (p2 ++ pre) := by simp [hl]
  have h2 := logOK_split hok hl'
  simp only [EvOK] at h2
  rcases List.mem_append.mp h2.2.1 with h | h
  · exact hpop (by simp [h])
  · exact hnp h

/-- The queue holds at most one item per key. -/
theorem one_per_key {s : State κ ν} (hr : Reach (lts fixedCfg) s) :
    s.q.Pairwise (fun x y => x.key ≠ y.key) := invK hr

/-- The sorted association list with `Insert`-with-replace / `Peek` / `Pop` / `Remove` refines the
queue specification the processor model is written against: it holds the same live items, one per
key, and what it peeks/pops is a head the specification allows. -/
theorem sorted_list_refines_spec :
    Refines ([] : List (Item κ ν)) [] ∧
    (∀ sq q : List (Item κ ν), Refines sq q → ∀ r, Refines (SortedQ.insert sq r) (Queue.insert q r)) ∧
    (∀ sq q : List (Item κ ν), Refines sq q → ∀ k, Refines (SortedQ.remove sq k) (remove q k)) ∧
    (∀ sq q : List (Item κ ν), Refines sq q → IsHead q (SortedQ.peek sq)) ∧
    (∀ sq q : List (Item κ ν), Refines sq q → ∀ r, (SortedQ.pop sq).1 = some r →
      IsHead q (some r) ∧ Refines (SortedQ.pop sq).2 (pop q r)) :=
  ⟨refines_nil, fun _ _ h r => refines_insert h r, fun _ _ h k => refines_remove h k,
   fun _ _ h => refines_peek h,
   fun sq _ h r hp => ⟨by have := refines_peek h; simp only [SortedQ.peek] at this; simp only [SortedQ.pop] at hp; rw [hp] at this; exact this,
     refines_pop h hp⟩⟩

/-- The binary heap with stored indices — `container/heap`'s `Push`/`Pop`/`Remove`/`Fix` with `up` and
`down` exactly as `queue.go` drives them, over entries whose `index` field is maintained by `Swap` —
refines the same specification: heap order, stored index = position and one entry per key are
invariants; `Insert`-with-replace, `Remove`, `Pop` change the set of live items as the specification
says; `Peek`/`Pop` return a minimal item (whatever the tie-break). -/
theorem heap_refines_spec :
    Heap.HRefines (#[] : Heap.H κ ν) [] ∧
    (∀ (h : Heap.H κ ν) q, Heap.HRefines h q → ∀ r, Heap.HRefines (Heap.insert h r) (Queue.insert q r)) ∧
    (∀ (h : Heap.H κ ν) q, Heap.HRefines h q → ∀ k, Heap.HRefines (Heap.remove h k) (remove q k)) ∧
    (∀ (h : Heap.H κ ν) q, Heap.HRefines h q → IsHead q (Heap.peek h)) ∧
    (∀ (h : Heap.H κ ν) q, Heap.HRefines h q →
      match (Heap.pop h).1 with
      | none => q = [] ∧ (Heap.pop h).2 = h
      | some r => IsHead q (some r) ∧ Heap.HRefines (Heap.pop h).2 (pop q r)) :=
  ⟨Heap.hrefines_empty, fun _ _ hr r => Heap.hrefines_insert hr r, fun _ _ hr k => Heap.hrefines_remove hr k,
   fun _ _ hr => Heap.hrefines_peek hr, fun _ _ hr => Heap.hrefines_pop hr⟩

/-- Stored indices: in a heap that represents a queue every entry's `index` field is its position
(what `queue.Remove(key)` and the replace path of `queue.Insert` rely on). -/
theorem heap_indices_consistent {h : Heap.H κ ν} {q : List (Item κ ν)} (hr : Heap.HRefines h q) :
    ∀ (k : Nat) (e : Heap.Entry κ ν), h[k]? = some e → e.index = (k : Int) := hr.1.idx

/-! ## the trace acceptor of the correspondence step is sound -/

/-- **accepted_trace_has_run**: if `accepts cfg tr` (what `kitdrv C06` computes for the events the
harness observed), then a real run of `step` from `init` exists — `ls`, with the ghost history —
that ends in a reachable state, explains every event in order (`Exec`: hidden internal labels
anywhere, one candidate label per action event, state observations `park`/`quiet` true of the state
they were made in), and whose visible labels are, one for one, the action events of the trace. -/
theorem accepted_trace_has_run (cfg : Cfg) (tr : List (Obs κ ν)) (h : accepts cfg tr = true) :
    ∃ (ls : List (Label κ ν)) (s' : State κ ν), runFrom cfg init ls = some s' ∧ Reach (lts cfg) s' ∧
      Exec cfg false init tr ls (strip s') ∧
      Pairs Explains (tr.filter Obs.isAction) (ls.filter Label.isVisible) := by
  unfold accepts at h
  cases hres : (simRun cfg (simInit cfg) tr).states with
  | nil => simp [hres] at h
  | cons t rest =>
    obtain ⟨s0, hs0, ls, hex⟩ := simRun_sound cfg tr (simInit cfg) t (by rw [hres]; exact List.mem_cons_self)
    simp only [simInit] at hs0 hex
    obtain ⟨u, hu, hs, hp⟩ := closure_sound hs0
    simp only [List.mem_singleton] at hu
    subst hu
    have hexec : Exec cfg false init tr (hs ++ ls) (strip t) := hp.exec hex
    obtain ⟨s', hrun, hstrip⟩ := runS_lift cfg _ _ _ (exec_runS hexec)
    refine ⟨hs ++ ls, s', hrun, reach_of_run Reach.init hrun, ?_, exec_projection hexec⟩
    rw [hstrip]
    exact hexec

/-- End to end: in a trace accepted by the model of the current code every observed callback
(`exec id key scheduled now`, stamped by the harness with the injected clock) is not early. -/
theorem accepted_callbacks_not_early (tr : List (Obs κ ν)) (h : accepts fixedCfg tr = true)
    {id : Nat} {k : κ} {tm now : Int} (he : Obs.exec id k tm now ∈ tr) : tm - halfMs ≤ now ∨ maxDur ≤ now := by
  obtain ⟨ls, s', _, _, hex, _⟩ := accepted_trace_has_run fixedCfg tr h
  exact exec_callbacks_not_early hex init Reach.init rfl id k tm now he

/-! ## facts regenerated from `processor.go` on every run (T1) -/

/-- The source is the repaired variant: the empty-queue exit releases the running token before
`p.lock.Unlock()`, and a `Close` that lost the CAS waits for the winner. So `lts fixedCfg` is the
model of the code that exists. -/
theorem source_is_fixed : sourceIsFixed = true := by decide

/-- The lock discipline that the atomic actions of the model rest on, the shape of `process()`,
`execute()` and the loop, and the channel capacities, as re-extracted from the source. -/
theorem source_shape :
    Kit.Generated.C06.enqueueBodyAtomic = true ∧ Kit.Generated.C06.dequeueBodyAtomic = true ∧
    Kit.Generated.C06.stoppedCheckOutsideLock = true ∧
    Kit.Generated.C06.processShape = "tokenElseResetIfNext" ∧
    Kit.Generated.C06.loopPeekUnderLock = true ∧ Kit.Generated.C06.deferredRelease = true ∧
    Kit.Generated.C06.pollBeforeClock = true ∧ Kit.Generated.C06.executeShape = true ∧
    Kit.Generated.C06.tokenCap = 1 ∧ Kit.Generated.C06.resetCap = 1 ∧ Kit.Generated.C06.stopCap = 0 := by
  decide

/-- queue.go orders the heap by `Before`/`After`/`Compare` on the `time.Time` values themselves (the model
orders by an unbounded integer), not by integers derived from them, and a heap entry holds nothing
but the value and its index. -/
theorem heap_order_on_time_values :
    Kit.Generated.C06.heapLessShape = "timeBefore" ∧ Kit.Generated.C06.queueItemFields = ["value", "index"] := by
  decide

/-- The margin is positive (needed by `not_early`: a fired timer is never "early"). -/
theorem margin_positive : 0 < halfMs := by decide

/-- Every point at which the harness parks a goroutine (and for which the driver maps a program
counter) is a `verifhook.Point` call site of the current source. -/
theorem park_points_are_hook_sites :
    ∀ p ∈ parkPoints, ("queue." ++ p) ∈ Kit.Generated.C06.hookSites := by decide

/-- The list `taus` that the driver's quiescence check evaluates is complete: every enabled
internal label occurs in it (for both variants of the code). -/
theorem internal_steps_listed {cfg : Cfg} {s s' : State κ ν} {l : Label κ ν}
    (hi : l.isInternal = true) (hst : step cfg s l = some s') : l ∈ taus cfg s :=
  taus_complete hi hst

/-! ## the loop before the fix: a stranded item -/

/-- The 5-step schedule: Enqueue a; Dequeue a (reset buffered); the loop peeks, sees the queue
empty and unlocks; Enqueue b finds the token taken and only sends a reset; the loop's deferred
function releases the token. -/
def strandingSchedule : List (Label Nat Unit) :=
  [.enqueue 1 10 () true, .dequeue 1 true, .peek none, .enqueue 2 5 () true, .release]

def strandedState : State Nat Unit :=
  { q := [⟨2, 5, (), 1⟩], token := .free, reset := true, stopped := false, stopClosed := false,
    pc := .absent, cpc := .idle, now := 0, nextId := 2,
    log := [.enq ⟨2, 5, (), 1⟩, .deq 1, .enq ⟨1, 10, (), 0⟩] }

theorem stranding_run : runFrom ⟨false⟩ init strandingSchedule = some strandedState := by
  simp [runFrom, strandingSchedule, strandedState, step, init, process, enqGuard, deqGuard, lookup, remove,
    Queue.insert, IsHead, IsMin]

/-- **stranded_witness**: in the model of the loop as it was before the fix a reachable state has a
queued item, no loop goroutine, a free token, Close not called — and no internal step is enabled
at any later clock value: the item is never executed unless another Enqueue happens to come.
So `served` and `none_stranded` are false for the unrepaired loop. -/
theorem stranded_witness :
    ∃ s : State Nat Unit, Reach (lts ⟨false⟩) s ∧ s.stopped = false ∧ s.q ≠ [] ∧ s.pc = .absent ∧
      s.token = .free ∧
      ∀ (t : Int) (l : Label Nat Unit), l.isInternal = true → step ⟨false⟩ { s with now := t } l = none := by
  refine ⟨strandedState, reach_of_run Reach.init stranding_run, rfl, by simp [strandedState], rfl, rfl, ?_⟩
  intro t l hl
  cases l <;> simp [Label.isInternal, Label.isLoop] at hl <;> simp [step, strandedState]

/-- The same schedule is harmless after the fix: the second Enqueue finds the token free and
starts a new loop. -/
def restartedState : State Nat Unit :=
  { q := [⟨2, 5, (), 1⟩], token := .loop, reset := true, stopped := false, stopClosed := false,
    pc := .top, cpc := .idle, now := 0, nextId := 2,
    log := [.enq ⟨2, 5, (), 1⟩, .deq 1, .enq ⟨1, 10, (), 0⟩] }

theorem stranding_schedule_fixed :
    runFrom fixedCfg init
      [.enqueue 1 10 () true, .dequeue 1 true, .peek none, .enqueue 2 5 () true] = some restartedState := by
  simp [runFrom, restartedState, step, init, process, enqGuard, deqGuard, lookup, remove, Queue.insert, IsHead, IsMin]

/-! ## `Close` before the second fix: a losing call returns too early -/

/-- The winning `Close` has done its CAS but not yet closed `stopCh`; a second `Close` loses the CAS,
finds the WaitGroup empty and returns; an `Enqueue` that had passed its stopped check earlier now
runs its body, starts a loop, and the loop executes the item. -/
def closeLoserSchedule : List (Label Nat Unit) :=
  [.closeBegin, .closeAgain, .enqueue 1 0 () true, .peek (some ⟨1, 0, (), 0⟩), .pollNone, .decide,
   .execCheck (some ⟨1, 0, (), 0⟩), .cbStart]

def closeLoserState : State Nat Unit :=
  { q := [], token := .loop, reset := false, stopped := true, stopClosed := false,
    pc := .running ⟨1, 0, (), 0⟩, cpc := .casDone, now := 0, nextId := 1,
    log := [.exec ⟨1, 0, (), 0⟩ 0, .pop ⟨1, 0, (), 0⟩, .enq ⟨1, 0, (), 0⟩, .closeRet] }

theorem close_loser_run : runFrom ⟨false⟩ init closeLoserSchedule = some closeLoserState := by
  simp [runFrom, closeLoserSchedule, closeLoserState, step, init, process, enqGuard, lookup, remove,
    Queue.insert, IsHead, IsMin, pop, halfMs, Kit.Generated.C06.runNowMarginNs, satDur, maxDur, minDur]

/-- **close_loser_witness**: with the `Close` of the unchanged tree (`fixed = false`) a callback
starts after a call to `Close` has returned — `close_quiescent_trace` is false there. -/
theorem close_loser_witness :
    ∃ (s : State Nat Unit) (post pre : List (Event Nat Unit)) (r : Item Nat Unit) (n : Int),
      Reach (lts ⟨false⟩) s ∧ s.log = post ++ .closeRet :: pre ∧ Event.exec r n ∈ post :=
  ⟨closeLoserState, [.exec ⟨1, 0, (), 0⟩ 0, .pop ⟨1, 0, (), 0⟩, .enq ⟨1, 0, (), 0⟩], [], ⟨1, 0, (), 0⟩, 0,
   reach_of_run Reach.init close_loser_run, rfl, by simp⟩

/-! ## non-vacuity: the hypotheses of the theorems above are satisfiable -/

/-- A complete life: Enqueue a due item, the loop runs it and exits, Close. -/
def demoSchedule : List (Label Nat Unit) :=
  [.enqueue 1 0 () true, .enqueue 2 7 () false, .peek (some ⟨1, 0, (), 0⟩), .pollNone, .decide,
   .execCheck (some ⟨1, 0, (), 0⟩), .cbStart, .cbReturn, .dequeue 2 true, .peek none,
   .closeBegin, .closeStopCh, .closeTake, .closeReturn]

def demoState : State Nat Unit :=
  { q := [], token := .close, reset := true, stopped := true, stopClosed := true,
    pc := .absent, cpc := .returned, now := 0, nextId := 2,
    log := [.closeRet, .deq 2, .exec ⟨1, 0, (), 0⟩ 0, .pop ⟨1, 0, (), 0⟩, .enq ⟨2, 7, (), 1⟩, .enq ⟨1, 0, (), 0⟩] }

theorem demo_run : runFrom fixedCfg init demoSchedule = some demoState := by
  simp [runFrom, demoSchedule, demoState, step, init, process, enqGuard, deqGuard, lookup, remove,
    Queue.insert, IsHead, IsMin, pop, halfMs, Kit.Generated.C06.runNowMarginNs, satDur, maxDur, minDur]

theorem demo_reach : Reach (lts fixedCfg) demoState := reach_of_run Reach.init demo_run

/-- `exactly_once`, `not_early`, `in_order`, `close_quiescent`, `dequeued_or_replaced_never_runs`
have instances: the demo history contains a callback, a pop, a dequeued item and a Close return. -/
example : demoState.log = [.closeRet, .deq 2] ++ .exec ⟨1, 0, (), 0⟩ 0 :: [.pop ⟨1, 0, (), 0⟩, .enq ⟨2, 7, (), 1⟩, .enq ⟨1, 0, (), 0⟩] := rfl
example : demoState.log = [.closeRet, .deq 2, .exec ⟨1, 0, (), 0⟩ 0] ++ .pop ⟨1, 0, (), 0⟩ :: [.enq ⟨2, 7, (), 1⟩, .enq ⟨1, 0, (), 0⟩] := rfl
example : demoState.log = [] ++ .closeRet :: [.deq 2, .exec ⟨1, 0, (), 0⟩ 0, .pop ⟨1, 0, (), 0⟩, .enq ⟨2, 7, (), 1⟩, .enq ⟨1, 0, (), 0⟩] := rfl
example : demoState.cpc = .returned := rfl
example : (⟨2, 7, (), 1⟩ : Item Nat Unit) ∉ live (demoState.log.drop 1) ∧
    Event.enq (⟨2, 7, (), 1⟩ : Item Nat Unit) ∈ demoState.log.drop 1 := by
  simp [demoState, live, remove, pop, Queue.insert]

def openState : State Nat Unit :=
  { q := [⟨1, 0, (), 0⟩], token := .loop, reset := false, stopped := false, stopClosed := false,
    pc := .top, cpc := .idle, now := 0, nextId := 1, log := [.enq ⟨1, 0, (), 0⟩] }

theorem open_run : runFrom fixedCfg init [.enqueue 1 0 () true] = some openState := by
  simp [runFrom, openState, step, init, process, enqGuard, lookup, remove, Queue.insert]

/-- `served` / `none_stranded` have instances: an open processor with a due item. -/
example : Reach (lts fixedCfg) openState ∧ openState.stopped = false ∧ openState.q ≠ [] ∧
    (∃ x ∈ openState.q, x.time ≤ openState.now) ∧ Timely openState :=
  ⟨reach_of_run Reach.init open_run, rfl, by simp [openState], by simp [openState],
   timely_of_pc (by simp [openState]) (by simp [openState])⟩

/-- `late_bound` is not vacuous and the lateness is real: Enqueue an item 10 ms ahead, the loop reads
the clock (duration 10 ms), the clock advances by 4 ms, the loop creates its timer: it fires at 14 ms. -/
def lateState : State Nat Unit :=
  { q := [⟨1, 10000000, (), 0⟩], token := .loop, reset := false, stopped := false, stopClosed := false,
    pc := .armed ⟨1, 10000000, (), 0⟩, cpc := .idle, now := 4000000, nextId := 1,
    log := [.enq ⟨1, 10000000, (), 0⟩], timer := 14000000, readAt := 0, armAt := 4000000,
    root := some ⟨1, 10000000, (), 0⟩ }

theorem late_run : runFrom fixedCfg init
    [.enqueue 1 10000000 () true, .peek (some ⟨1, 10000000, (), 0⟩), .pollNone, .decide, .advance 4000000, .arm]
    = some lateState := by
  simp [runFrom, lateState, step, init, process, enqGuard, lookup, remove, Queue.insert, IsHead, IsMin,
    halfMs, Kit.Generated.C06.runNowMarginNs, satDur, maxDur, minDur]

/-- **late_witness**: the lateness `late_bound` allows does occur — a reachable state of the current
code in which the item is due at 10 ms but the loop's only wake-up is at 14 ms. -/
theorem late_witness : Reach (lts fixedCfg) lateState ∧ lateState.timer = 14000000 ∧
    (∀ x ∈ lateState.q, x.time = 10000000) ∧ lateState.armAt - lateState.readAt = 4000000 :=
  ⟨reach_of_run Reach.init late_run, rfl, by simp [lateState], rfl⟩

/-- An item scheduled 2^63 + 9 ns after the clock origin: `Time.Sub` saturates, the timer is 2^63 − 1 ns;
when the clock has run that long the timer fires and the item is executed 10 ns before its time. -/
def saturatedState : State Nat Unit :=
  { q := [], token := .loop, reset := false, stopped := false, stopClosed := false,
    pc := .running ⟨1, 9223372036854775817, (), 0⟩, cpc := .idle, now := 9223372036854775807, nextId := 1,
    log := [.exec ⟨1, 9223372036854775817, (), 0⟩ 9223372036854775807, .pop ⟨1, 9223372036854775817, (), 0⟩,
            .enq ⟨1, 9223372036854775817, (), 0⟩],
    timer := 0, readAt := 0, armAt := 0, root := none }

theorem saturated_run : runFrom fixedCfg init
    [.enqueue 1 9223372036854775817 () true, .peek (some ⟨1, 9223372036854775817, (), 0⟩), .pollNone, .decide, .arm,
     .advance 9223372036854775807, .timerFire, .execCheck (some ⟨1, 9223372036854775817, (), 0⟩), .cbStart]
    = some saturatedState := by
  simp [runFrom, saturatedState, step, init, process, enqGuard, lookup, remove, Queue.insert, IsHead, IsMin, pop,
    halfMs, Kit.Generated.C06.runNowMarginNs, satDur, maxDur, minDur]

/-- **saturation_early_witness**: the second disjunct of `not_early` is needed — in the model of the
current code an item more than 2^63 ns ahead is executed (10 ns) early once the clock has run for
2^63 − 1 ns, because its timer duration saturated and `execute` does not look at the clock again. -/
theorem saturation_early_witness :
    Reach (lts fixedCfg) saturatedState ∧
    Event.exec (⟨1, 9223372036854775817, (), 0⟩ : Item Nat Unit) 9223372036854775807 ∈ saturatedState.log ∧
    (9223372036854775807 : Int) < 9223372036854775817 - halfMs + halfMs - 9 :=
  ⟨reach_of_run Reach.init saturated_run, by simp [saturatedState], by decide⟩

end Kit.Processor.C06
