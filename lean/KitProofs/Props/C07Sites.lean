import KitProofs.Lemmas.NoPanicKW
import KitProofs.Lemmas.NoPanicReflect
import KitProofs.Lemmas.NoPanicGlue
import KitProofs.Lemmas.NoPanicNames
import KitModel.NoPanicInventory
set_option linter.unusedSimpArgs false
/-!
# C07 — site-level theorems: the guard ⇒ "site in range" implications of the inventory

Index-level models that keep only what the panic conditions depend on (slice lengths, reflect
kinds) and perform every index / slice / `make` / contract-carrying call of the Go text.  Each
theorem is cited by the inventory (`NoPanicInventory.table`, `byTheorem "C07Sites" …`) for the
sites of the function it models, with the source guards the model mirrors as `needs`.
-/
namespace Kit.C07
open Kit Kit.NoPanic

/-! ## crypto/aeskw/keywrap.go (length level) -/

/-- `Wrap`: every `r[i]`, `cek[i*8:]`, `arrConcat`/`arrXor` index, `b[:len(b)/2]`, `c[(i*8)+j]`,
`block.Encrypt(b, b)`, `PutUint64` is in range for every key-data length; the loops run
`n`, `6·n`, `8·n` times. -/
theorem aeskw_wrap_sites (cekLen : Nat) : (KW.wrap cekLen).isPanic = false := by
  by_cases h8 : cekLen % 8 = 0
  · by_cases h16 : 16 ≤ cekLen
    · rw [KW.wrap_ok cekLen h8 h16]; rfl
    · unfold KW.wrap; rw [if_neg (by omega), if_pos (by omega)]; rfl
  · unfold KW.wrap; rw [if_pos h8]; rfl

example : KW.wrap 16 = .ok 24 := KW.wrap_ok 16 (by decide) (by decide)

/-- `Unwrap` (after fix 4f2d58e), every length and either outcome of the integrity comparison. -/
theorem aeskw_unwrap_sites (len : Nat) (intact : Bool) : (KW.unwrap len intact).isPanic = false :=
  KW.unwrap_noPanic len intact

/-- The code as found: 0–7 bytes give `make([][]byte, -1)`, 8–15 bytes give `arrays[0]` of no arrays. -/
theorem aeskw_unwrap_prefix_witness :
    (KW.unwrapPreFix 0).isPanic = true ∧ (KW.unwrapPreFix 7).isPanic = true ∧
    (KW.unwrapPreFix 8).isPanic = true ∧ (KW.unwrapPreFix 15).isPanic = true := by decide

/-- `arrXor` is in range iff its second argument is at least as long as the first (both call
sites pass 8 and 8); `arrConcat` needs at least one array. -/
theorem arrXor_sites (l r : Nat) (h : l ≤ r) : KW.arrXor l r = .ok l := KW.arrXor_ok l r h
theorem arrConcat_sites (arrays : List Nat) (h : 1 ≤ arrays.length) : KW.arrConcat arrays = .ok arrays.sum :=
  KW.arrConcat_ok arrays h

example : (KW.arrConcat []).isPanic = true := KW.arrConcat_empty_panics

/-! ## config/decode.go: the reflection prefix of `decodeString`, call by call -/

/-- For every value whose kind is Pointer (what `f.Kind() == reflect.Ptr` establishes for `data`):
`Elem`, the `Kind/IsNil/Elem` unwrapping loop (at most `depth` iterations), the final `IsNil`
and `Interface` calls are all inside their documented domains. -/
theorem decodeString_reflect_sites (data : Reflect.RV) (h : data.kind = .ptr) :
    (Reflect.decodePtrPrefix data).isPanic = false :=
  Reflect.decodePtrPrefix_noPanic data h

example : Reflect.decodePtrPrefix (.ptrTo (.ifaceOf (.nilOf .ptr))) = .ok none := by decide
example : Reflect.decodePtrPrefix (.ptrTo (.ifaceOf (.leaf .string))) = .ok (some ()) := by decide

/-- The code as found panicked for a nil pointer, a pointer to a nil interface / nil pointer and a
`*any` holding a typed nil. -/
theorem decodeString_reflect_prefix_witness :
    (Reflect.decodePtrPrefixOld (.nilOf .ptr)).isPanic = true ∧
    (Reflect.decodePtrPrefixOld (.ptrTo (.nilOf .iface))).isPanic = true ∧
    (Reflect.decodePtrPrefixOld (.ptrTo (.nilOf .ptr))).isPanic = true ∧
    (Reflect.decodePtrPrefixOld (.ptrTo (.ifaceOf (.nilOf .ptr)))).isPanic = true := by decide

/-- The interface-unwrapping loop finishes within `depth` iterations. -/
theorem unwrapIface_terminates (v : Reflect.RV) : ∃ w, Reflect.unwrapIface v.depth v = .ok w :=
  Reflect.unwrapIface_ok v.depth v (Nat.le_refl _)

/-! ## metadata/utils.go -/

/-- `DecodeMetadata`'s struct branch (after fix 466c97a): `Type()`, `FieldByName`,
`FieldByIndexErr`, `Interface()` are legal for every input kind and every shape of the field. -/
theorem decodeMetadata_reflect_sites (k : Reflect.K) (p : Reflect.PropsField) :
    (Reflect.decodeMetadataStruct k p).isPanic = false := by
  rcases p with ⟨found, nilp, fk, can, mss⟩
  cases k <;> cases found <;> cases nilp <;> cases can <;> cases fk <;> cases mss <;> decide

/-- `resolveAliases` + `resolveAliasesInType`: every `Kind`, `Elem`, `NumField`, `Field(i)` call is
legal for every non-nil result type whose `,squash` fields are struct-typed (mapstructure's own
requirement); a duplicate key stops earlier. -/
theorem resolveAliases_reflect_sites (dup : Bool) (t : Reflect.RT) (h : t.squashOK = true)
    (hinner : ∀ e, t = .ptr e → e.squashOK = true ∧ ∀ e2, e = .ptr e2 → e2.squashOK = true) :
    (Reflect.resolveAliases dup (some t)).isPanic = false := by
  unfold Reflect.resolveAliases
  cases dup with
  | true => rfl
  | false =>
    simp only [Bool.false_eq_true, if_false, Reflect.tKind, bind_ok]
    cases t with
    | other => simp [Reflect.RT.kind, Reflect.tKind, Outcome.bind, Outcome.isPanic]
    | struct fs => simp [Reflect.RT.kind, Reflect.tKind, Outcome.bind, Outcome.isPanic]
    | ptr t1 =>
      obtain ⟨h1, h2⟩ := hinner t1 rfl
      simp only [Reflect.RT.kind, ne_eq, not_true_eq_false, if_false, Reflect.tElem, bind_ok]
      cases t1 with
      | other => simp [Reflect.RT.kind, Reflect.tKind, Outcome.bind, Outcome.isPanic]
      | struct fs =>
        simp only [Reflect.RT.kind, reduceCtorEq, if_false, bind_ok, ne_eq, not_true_eq_false]
        exact Reflect.aliasesInType_noPanic (.struct fs) trivial h1
      | ptr t2 =>
        simp only [Reflect.RT.kind, if_true, Reflect.tElem, bind_ok]
        have h3 := h2 t2 rfl
        cases t2 with
        | other => simp [Reflect.RT.kind, Reflect.tKind, Outcome.bind, Outcome.isPanic]
        | ptr _ => simp [Reflect.RT.kind, Reflect.tKind, Outcome.bind, Outcome.isPanic]
        | struct fs =>
          simp only [Reflect.RT.kind, ne_eq, not_true_eq_false, if_false]
          exact Reflect.aliasesInType_noPanic (.struct fs) trivial h3

example : (Reflect.resolveAliases false (some (.ptr (.struct [(true, .struct [(false, .other)]), (false, .other)])))) = .ok () := by
  decide

/-- `reflect.TypeOf(nil)`: a nil `result` is the one argument that panics (program text, not input);
a `,squash` tag on a non-struct field panics in `NumField` (mapstructure refuses such types too). -/
theorem resolveAliases_caller_contract_witness :
    (Reflect.resolveAliases false none).isPanic = true ∧
    (Reflect.resolveAliases false (some (.ptr (.struct [(true, .ptr (.struct []))])))).isPanic = true := by decide

/-! ## small crypto sites -/

/-- `NewAESCBCAEAD`: both key slices are in range once `len(p.key) == encKeySize + macKeySize`. -/
theorem newAESCBCAEAD_sites (keyLen enc mac : Nat) : (Reflect.newAESCBCAEAD keyLen enc mac).isPanic = false := by
  unfold Reflect.newAESCBCAEAD
  by_cases h : keyLen = enc + mac
  · rw [if_neg (by simpa using h)]
    rw [KW.sliceChk_ok (by omega) (by omega) (by omega), bind_ok, KW.sliceChk_ok (by omega) (by omega) (by omega)]
    rfl
  · rw [if_pos h]; rfl

/-- the `dst` growth of `Seal` / `Open`: `dst[:dstLen+size]` is taken only when the capacity
allows it, and `dst[dstLen:]` is in range either way. -/
theorem growDst_sites (cap dstLen size : Nat) : Reflect.growDst cap dstLen size = .ok (dstLen + size) := by
  unfold Reflect.growDst
  by_cases h : cap ≥ dstLen + size
  · rw [if_pos h, KW.sliceChk_ok (by omega) (by omega) (by omega), bind_ok, bind_ok,
      KW.sliceChk_ok (by omega) (by omega) (by omega), bind_ok]
  · rw [if_neg h, KW.makeChk_nat, bind_ok, KW.sliceChk_ok (by omega) (by omega) (by omega), bind_ok]

/-- `hmacTag`: the 8-byte length block takes `PutUint64`, and `h.Sum(nil)[:l]` is in range when the
tag is no longer than the hash (`aescbcaead_params_sound` in C07Imported shows that of the four
constructors regenerated from the source). -/
theorem hmacTag_sites (l hashLen : Nat) (h : l ≤ hashLen) : KW.hmacTag l hashLen = .ok () := by
  unfold KW.hmacTag
  exact KW.bind_eq KW.makeChk8 (KW.bind_eq KW.putUint64_8 (KW.sliceChk_ok (by omega) (by omega) (by omega)))

/-- `aesCBCAEAD.Open` at the level of lengths (after fixes 5c853ad, c71e752): for a nonce, a
ciphertext, a destination of ANY length and capacity, a verifying or failing tag and any result of
unpadding (a prefix of the body), every slice, `make`, `NewCBCDecrypter` and `CryptBlocks` is inside
its domain — `Open` answers malformed input with an error. -/
theorem aeadOpen_sites (nonceLen ctLen tagSize dstCap dstLen : Nat) (tagOK : Bool) (unpadded : Nat → Option Nat)
    (hu : ∀ b k, unpadded b = some k → k ≤ b) :
    (KW.aeadOpen true true nonceLen ctLen tagSize dstCap dstLen tagOK unpadded).isPanic = false := by
  unfold KW.aeadOpen
  by_cases hn : nonceLen = 16
  · simp only [hn, ne_eq, not_true_eq_false, decide_false, Bool.and_false, Bool.false_eq_true, if_false]
    by_cases ht : ctLen < tagSize
    · rw [if_pos ht]; rfl
    · rw [if_neg ht, KW.sliceChk_ok (by omega) (by omega) (by omega), bind_ok,
        KW.sliceChk_ok (by omega) (by omega) (by omega), bind_ok]
      cases tagOK
      · rfl
      · simp only [Bool.not_true, Bool.false_eq_true, if_false, Bool.true_and, decide_eq_true_eq]
        by_cases ha : (ctLen - tagSize) % 16 = 0
        · rw [if_neg (by simpa using ha)]
          have hgrow : ∀ k : Nat → Outcome Nat, (k (dstLen + (ctLen - tagSize))).isPanic = false →
              ((if dstCap ≥ dstLen + (ctLen - tagSize) then
                  (sliceChk dstCap 0 (dstLen + (ctLen - tagSize) : Nat)).bind fun _ => .ok (dstLen + (ctLen - tagSize))
                else makeChk (dstLen + (ctLen - tagSize) : Nat)).bind k).isPanic = false := by
            intro k hk
            by_cases hc : dstCap ≥ dstLen + (ctLen - tagSize)
            · rw [if_pos hc, KW.sliceChk_ok (by omega) (by omega) (by omega), bind_ok, bind_ok]; exact hk
            · rw [if_neg hc, KW.makeChk_nat, bind_ok]; exact hk
          apply hgrow
          rw [KW.sliceChk_ok (by omega) (by omega) (by omega), bind_ok]
          simp only [KW.newCBC, ne_eq, not_true_eq_false, if_false, bind_ok, KW.cryptBlocks, ha, Nat.lt_irrefl]
          cases hk : unpadded (ctLen - tagSize) with
          | none => rfl
          | some k =>
            have := hu _ _ hk
            simp only []
            rw [KW.sliceChk_ok (by omega) (by omega) (by omega), bind_ok]; rfl
        · rw [if_pos (by simpa using ha)]; rfl
  · have : (true && decide (nonceLen ≠ 16)) = true := by simp [hn]
    rw [if_pos this]; rfl

example : KW.aeadOpen true true 16 48 16 0 0 true (fun b => some (b - 1)) = .ok 31 := by decide

/-- The code as found: a verifying tag under a 12-byte nonce panicked in `NewCBCDecrypter`, and an
authentic body that is not block aligned panicked in `CryptBlocks`. -/
theorem aeadOpen_prefix_witness :
    (KW.aeadOpen false true 12 48 16 0 0 true (fun b => some b)).isPanic = true ∧
    (KW.aeadOpen true false 16 33 16 0 0 true (fun b => some b)).isPanic = true := by decide

/-- `verifyPublicKeyEdDSA` after fix 2829ef0 reaches `ed25519.Verify` only with a 32-byte key. -/
theorem verifyEd25519_sites (rawOK : Bool) (keyLen : Nat) : (Reflect.verifyEd25519 rawOK keyLen).isPanic = false := by
  unfold Reflect.verifyEd25519
  by_cases h : keyLen = 32
  · cases rawOK <;> simp [h]
  · cases rawOK <;> simp [h]

/-- `Type.Elem()` is legal on a type whose kind is Pointer (`f.Elem()`, `t.Elem()` under
`Kind() == reflect.Ptr`; `reflect.TypeOf((*StringDecoder)(nil)).Elem()`). -/
theorem typeElem_sites (t : Reflect.RT) (h : t.kind = .ptr) : ∃ e, Reflect.tElem t = .ok e := by
  cases t with
  | ptr e => exact ⟨e, rfl⟩
  | struct _ => simp [Reflect.RT.kind] at h
  | other => simp [Reflect.RT.kind] at h

/-- `Kind`, `Implements`, `PtrTo`, `New` on the types a decode hook receives never panic: they panic
only for the nil `reflect.Type`, and mapstructure passes `from.Type()` / `to.Type()`. -/
theorem hookTypeCalls_sites (f t : Reflect.RT) : Reflect.hookTypeCalls (some f) (some t) = .ok () := rfl

/-- …and a nil Type would panic: the hypothesis is needed. -/
theorem hookTypeCalls_nil_witness (f : Reflect.RT) : (Reflect.hookTypeCalls (some f) none).isPanic = true := rfl

/-- Every theorem of this module the inventory cites exists. -/
theorem cited_sites_exist :
    (NoPanic.Inventory.citedBy "C07Sites").all
      (· ∈ thm_names% [Kit.C07.aeskw_wrap_sites, Kit.C07.aeskw_unwrap_sites, Kit.C07.arrXor_sites,
        Kit.C07.arrConcat_sites, Kit.C07.decodeString_reflect_sites, Kit.C07.decodeMetadata_reflect_sites,
        Kit.C07.resolveAliases_reflect_sites, Kit.C07.newAESCBCAEAD_sites, Kit.C07.growDst_sites,
        Kit.C07.verifyEd25519_sites, Kit.C07.typeElem_sites, Kit.C07.hmacTag_sites, Kit.C07.unwrapIface_terminates, Kit.C07.hookTypeCalls_sites, Kit.C07.aeadOpen_sites]) = true := by
  decide +kernel

end Kit.C07
