/-
C01 — the model is the code, `readHeader`: the function as TRANSLATED from
/repo/schemes/enc/v1/scheme.go on this run (`KitModel/Generated/CodeC01.lean`, written by
`harness/cmd/go2lean`).
-/
import KitModel.Enc
import KitModel.Generated.CodeC01
import KitProofs.Lemmas.EncHeader
import KitProofs.Props.C01
import KitProofs.Props.C01Code

namespace Kit.Enc.Code
open Kit Kit.Enc Kit.GoSem Kit.Generated.CodeC01

/-- What `readHeader` returns: `(manifest, mac, err, src, pushback)`. -/
abbrev HRet (σ : Type) := List UInt8 × List UInt8 × GoSem.Err × σ × List UInt8
/-- Loop-carried variables of the byte scan: `(manifest, mac, i, newlines, lastNewline, line)`. -/
abbrev H2Brk := List UInt8 × List UInt8 × Int × Int × Int × List UInt8
/-- Loop-carried variables of the read loop:
`(src, manifest, mac, err, buf, n, nn, i, ul, newlines, lastNewline, line)`. -/
abbrev H1Brk (σ : Type) :=
  σ × List UInt8 × List UInt8 × GoSem.Err × List UInt8 × Int × Int × Int × Int × Int × Int × List UInt8
abbrev H2Out (σ : Type) := Res (LoopOut (HRet σ) H2Brk)
abbrev H1Out (σ : Type) := Res (LoopOut (HRet σ) (H1Brk σ))

/-- The byte literal of `SchemeName` = "dapr.io/enc/v1" in the translated code. -/
abbrev schemeLit : List UInt8 := [100, 97, 112, 114, 46, 105, 111, 47, 101, 110, 99, 47, 118, 49]

def bindH {σ : Type} (x : H2Out σ) (k : H2Brk → H1Out σ) : H1Out σ :=
  match x with
  | .panic m => .panic m
  | .nofuel => .nofuel
  | .ok (.ret r) => .ok (.ret r)
  | .ok (.brk s) => k s

/-- `ul = n + 512; if ul > SegmentSize { ul = SegmentSize }` -/
def ulOf (n : Int) : Int :=
  if decide (wrapI64 (n + (512 : Int)) > (65536 : Int)) then (65536 : Int) else wrapI64 (n + (512 : Int))

section unfold
variable {σ : Type} (R_Read : σ → Int → Int × GoSem.Err) (R_Data : σ → Int → List UInt8)
  (R_Step : σ → Int → σ) (buf0 : List UInt8)

theorem rh_loop2_succ (fuel : Nat) (src : σ) (pushback manifest mac : List UInt8) (err : GoSem.Err)
    (buf : List UInt8) (n nn i ul newlines lastNewline : Int) (line : List UInt8) :
    readHeader_loop2 (fuel + 1) R_Read R_Data R_Step buf0 src pushback manifest mac err buf n nn i ul newlines
        lastNewline line =
      if ((decide (i < (wrapI64 (n + nn)))) && (decide (newlines < (3 : Int)))) then
        if !(decide (0 ≤ i ∧ i < lenI buf)) then .panic "index out of range: (*buf)[i]"
        else if ((idx buf i) != (10 : UInt8)) then
          readHeader_loop2 fuel R_Read R_Data R_Step buf0 src pushback manifest mac err buf n nn (wrapI64 (i + 1)) ul
            newlines lastNewline line
        else if (decide (i ≤ lastNewline)) then
          .ok (.ret (([] : List UInt8), ([] : List UInt8), (some "errors.New" : GoSem.Err), src, pushback))
        else if !(decide (0 ≤ lastNewline ∧ lastNewline ≤ i ∧ i ≤ lenI buf)) then
          .panic "slice bounds out of range: (*buf)[lastNewline:i]"
        else if (newlines == (0 : Int)) then
          if (slice buf lastNewline i != schemeLit) then
            .ok (.ret (([] : List UInt8), ([] : List UInt8), (some "errors.New" : GoSem.Err), src, pushback))
          else
            readHeader_loop2 fuel R_Read R_Data R_Step buf0 src pushback manifest mac err buf n nn (wrapI64 (i + 1)) ul
              (wrapI64 (newlines + 1)) (wrapI64 (i + (1 : Int))) (slice buf lastNewline i)
        else if (newlines == (1 : Int)) then
          readHeader_loop2 fuel R_Read R_Data R_Step buf0 src pushback (slice buf lastNewline i) mac err buf n nn
            (wrapI64 (i + 1)) ul (wrapI64 (newlines + 1)) (wrapI64 (i + (1 : Int))) (slice buf lastNewline i)
        else if (newlines == (2 : Int)) then
          readHeader_loop2 fuel R_Read R_Data R_Step buf0 src pushback manifest (slice buf lastNewline i) err buf n nn
            (wrapI64 (i + 1)) ul (wrapI64 (newlines + 1)) (wrapI64 (i + (1 : Int))) (slice buf lastNewline i)
        else
          readHeader_loop2 fuel R_Read R_Data R_Step buf0 src pushback manifest mac err buf n nn
            (wrapI64 (i + 1)) ul (wrapI64 (newlines + 1)) (wrapI64 (i + (1 : Int))) (slice buf lastNewline i)
      else
        .ok (.brk (manifest, mac, i, newlines, lastNewline, line)) := by
  rw [readHeader_loop2]
  rfl

/-- The body of one iteration of the read loop, once `ul` is fixed. -/
def hdrBody (fuel : Nat) (src : σ) (pushback manifest mac : List UInt8) (err : GoSem.Err)
    (buf : List UInt8) (n nn i newlines lastNewline : Int) (line : List UInt8) (ul : Int) : H1Out σ :=
  if (n == ul) then
    .ok (.brk (src, manifest, mac, err, buf, n, nn, i, ul, newlines, lastNewline, line))
  else if !(decide (0 ≤ n ∧ n ≤ (65536 : Int) ∧ (65536 : Int) ≤ lenI buf)) then
    .panic "slice bounds out of range: (*buf)[n:SegmentSize]"
  else
    if (decide ((R_Read src (lenI (slice buf n (65536 : Int)))).1 ≤ (0 : Int))) then
      readHeader_loop1 fuel R_Read R_Data R_Step buf0
        (R_Step src (lenI (slice (writeAt buf n (65536 : Int) (R_Data src (lenI (slice buf n (65536 : Int))))) n (65536 : Int))))
        pushback manifest mac (R_Read src (lenI (slice buf n (65536 : Int)))).2
        (writeAt buf n (65536 : Int) (R_Data src (lenI (slice buf n (65536 : Int)))))
        n (R_Read src (lenI (slice buf n (65536 : Int)))).1 i ul newlines lastNewline line
    else
      bindH (readHeader_loop2 fuel R_Read R_Data R_Step buf0
          (R_Step src (lenI (slice (writeAt buf n (65536 : Int) (R_Data src (lenI (slice buf n (65536 : Int))))) n (65536 : Int))))
          pushback manifest mac (R_Read src (lenI (slice buf n (65536 : Int)))).2
          (writeAt buf n (65536 : Int) (R_Data src (lenI (slice buf n (65536 : Int)))))
          n (R_Read src (lenI (slice buf n (65536 : Int)))).1 n ul newlines lastNewline line)
        (fun s =>
          readHeader_loop1 fuel R_Read R_Data R_Step buf0
            (R_Step src (lenI (slice (writeAt buf n (65536 : Int) (R_Data src (lenI (slice buf n (65536 : Int))))) n (65536 : Int))))
            pushback s.1 s.2.1 (R_Read src (lenI (slice buf n (65536 : Int)))).2
            (writeAt buf n (65536 : Int) (R_Data src (lenI (slice buf n (65536 : Int)))))
            (wrapI64 (n + (R_Read src (lenI (slice buf n (65536 : Int)))).1))
            (R_Read src (lenI (slice buf n (65536 : Int)))).1 s.2.2.1 ul s.2.2.2.1 s.2.2.2.2.1 s.2.2.2.2.2)

theorem rh_loop1_succ (fuel : Nat) (src : σ) (pushback manifest mac : List UInt8) (err : GoSem.Err)
    (buf : List UInt8) (n nn i ul newlines lastNewline : Int) (line : List UInt8) :
    readHeader_loop1 (fuel + 1) R_Read R_Data R_Step buf0 src pushback manifest mac err buf n nn i ul newlines
        lastNewline line =
      if ((decide (newlines < (3 : Int))) && (err == (none : GoSem.Err))) then
        hdrBody R_Read R_Data R_Step buf0 fuel src pushback manifest mac err buf n nn i newlines lastNewline line (ulOf n)
      else
        .ok (.brk (src, manifest, mac, err, buf, n, nn, i, ul, newlines, lastNewline, line)) := by
  rw [readHeader_loop1]
  have body : ∀ ul' : Int,
      (if (n == ul') then
          (.ok (.brk (src, manifest, mac, err, buf, n, nn, i, ul', newlines, lastNewline, line)) : H1Out σ)
        else
          if !(decide (0 ≤ n ∧ n ≤ (65536 : Int) ∧ (65536 : Int) ≤ lenI buf)) then .panic "slice bounds out of range: (*buf)[n:SegmentSize]" else
          match (R_Read src (lenI (slice buf n (65536 : Int)))) with
          | (nn, err) =>
            let buf := writeAt buf n (65536 : Int) (R_Data src (lenI (slice buf n (65536 : Int))))
            let src := R_Step src (lenI (slice buf n (65536 : Int)))
            if (decide (nn ≤ (0 : Int))) then
              readHeader_loop1 fuel R_Read R_Data R_Step buf0 src pushback manifest mac err buf n nn i ul' newlines lastNewline line
            else
              match readHeader_loop2 fuel R_Read R_Data R_Step buf0 src pushback manifest mac err buf n nn n ul' newlines lastNewline line with
              | .panic msg__ => .panic msg__
              | .nofuel => .nofuel
              | .ok (.ret ret__) => .ok (.ret ret__)
              | .ok (.brk (manifest, mac, i, newlines, lastNewline, line)) =>
                readHeader_loop1 fuel R_Read R_Data R_Step buf0 src pushback manifest mac err buf (wrapI64 (n + nn)) nn i ul' newlines lastNewline line)
        = hdrBody R_Read R_Data R_Step buf0 fuel src pushback manifest mac err buf n nn i newlines lastNewline line ul' := by
    intro ul'
    unfold hdrBody
    split
    · rfl
    · split
      · rfl
      · simp only
        split
        · rfl
        · generalize readHeader_loop2 fuel R_Read R_Data R_Step buf0 _ pushback manifest mac _ _ n _ n ul' newlines lastNewline line = x
          match x with
          | .panic m => rfl
          | .nofuel => rfl
          | .ok (.ret r) => rfl
          | .ok (.brk (a, b, c, d, e, f)) => rfl
  split
  · unfold ulOf
    split
    · exact body 65536
    · exact body _
  · rfl

end unfold

end Kit.Enc.Code
