/-
C01 — the model is the code, `readHeader`: the function as TRANSLATED from
/repo/schemes/enc/v1/scheme.go on this run (`KitModel/Generated/CodeC01.lean`, written by
`harness/cmd/go2lean`) — `readHeader_loop1` = `for newlines < 3 && err == nil { … }`,
`readHeader_loop2` = the byte scan `for i = n; i < n+nn && newlines < 3; i++ { … }` — computes exactly
what the hand-written model `Kit.Enc.readHeader` / `hdrLoop` / `hdrScan` / `hdrStep` computes, for
every reader script and every pooled buffer of at least 65536 bytes. So `C01.readHeader_spec` and the
other theorems about the model are theorems about the translated source text
(`readHeader_code_spec`), and a change to the Go function changes the definition these theorems are
about.

Main results (namespace `Kit.Enc.Code`):
* `rh_loop2_sim`                     the translated byte scan is `hdrScan` on the chunk just read
* `rh_loop1_sim`                     the translated read loop is `hdrLoop`
* `readHeader_code_eq_model`         result of the translated function = `hdrResult` of the model's;
  the model's returned reader = the code's final source state with the ghost `pushback` in front
* on the translated code alone, for an ARBITRARY reader state type and `Read` behaviour:
  `readHeader_code_never_panics` (`…_of_fits`: only `n ≤ len(p)` is needed; two counter-witnesses),
  `readHeader_code_lines`, `readHeader_code_header_limit` (every `Read` is issued on the window
  `[bytes so far, 65536)`, at most 65536 bytes in total; stated on the run with logged `Read`s, which
  is the same run: `readHeader_code_log_erase`), `readHeader_code_can_spin` (a reader that returns
  `(0, nil)` for ever keeps the loop running: the boundary of the termination claim).

Trusted here: the translator, `KitModel/Go/Sem.lean`, and the reading of the target table: the
source is a stateful reader (`R_Read`/`R_Data`/`R_Step` on a `k`-byte window, the window being
`(*buf)[n:65536]`), `*in = io.MultiReader(bytes.NewReader(extraBytes), *in)` is the ghost assignment
`pushback := extraBytes`, `bytes.Clone` is the identity, `errors.New(…)` is `some "errors.New"`,
`manifest = line` copies the VALUE of the slice (the later `Read`s write at offsets `≥ n > i` only, so
the aliasing is harmless — that reading is the translator's, not proved here).
-/
import KitModel.Enc
import KitModel.Generated.CodeC01
import KitProofs.Lemmas.EncHeader
import KitProofs.Props.C01
import KitProofs.Props.C01Code

namespace Kit.Enc.Code
open Kit Kit.Enc Kit.GoSem Kit.Generated.CodeC01

/-- What `readHeader` returns: `(manifest, mac, err, src, pushback)`. -/
abbrev HRet (σ : Type) := List UInt8 × List UInt8 × GoSem.Err × σ × List UInt8
/-- Loop-carried variables of the byte scan: `(manifest, mac, i, newlines, lastNewline, line)`. -/
abbrev H2Brk := List UInt8 × List UInt8 × Int × Int × Int × List UInt8
/-- Loop-carried variables of the read loop:
`(src, manifest, mac, err, buf, n, nn, i, ul, newlines, lastNewline, line)`. -/
abbrev H1Brk (σ : Type) :=
  σ × List UInt8 × List UInt8 × GoSem.Err × List UInt8 × Int × Int × Int × Int × Int × Int × List UInt8
abbrev H2Out (σ : Type) := Res (LoopOut (HRet σ) H2Brk)
abbrev H1Out (σ : Type) := Res (LoopOut (HRet σ) (H1Brk σ))

/-- The byte literal of `SchemeName` = "dapr.io/enc/v1" in the translated code. -/
abbrev schemeLit : List UInt8 := [100, 97, 112, 114, 46, 105, 111, 47, 101, 110, 99, 47, 118, 49]

def bindH {σ : Type} (x : H2Out σ) (k : H2Brk → H1Out σ) : H1Out σ :=
  match x with
  | .panic m => .panic m
  | .nofuel => .nofuel
  | .ok (.ret r) => .ok (.ret r)
  | .ok (.brk s) => k s

/-- `ul = n + 512; if ul > SegmentSize { ul = SegmentSize }` -/
def ulOf (n : Int) : Int :=
  if decide (wrapI64 (n + (512 : Int)) > (65536 : Int)) then (65536 : Int) else wrapI64 (n + (512 : Int))

section unfold
variable {σ : Type} (R_Read : σ → Int → Int × GoSem.Err) (R_Data : σ → Int → List UInt8)
  (R_Step : σ → Int → σ) (buf0 : List UInt8)

theorem rh_loop2_succ (fuel : Nat) (src : σ) (pushback manifest mac : List UInt8) (err : GoSem.Err)
    (buf : List UInt8) (n nn i ul newlines lastNewline : Int) (line : List UInt8) :
    readHeader_loop2 (fuel + 1) R_Read R_Data R_Step buf0 src pushback manifest mac err buf n nn i ul newlines
        lastNewline line =
      if ((decide (i < (wrapI64 (n + nn)))) && (decide (newlines < (3 : Int)))) then
        if !(decide (0 ≤ i ∧ i < lenI buf)) then .panic "index out of range: (*buf)[i]"
        else if ((idx buf i) != (10 : UInt8)) then
          readHeader_loop2 fuel R_Read R_Data R_Step buf0 src pushback manifest mac err buf n nn (wrapI64 (i + 1)) ul
            newlines lastNewline line
        else if (decide (i ≤ lastNewline)) then
          .ok (.ret (([] : List UInt8), ([] : List UInt8), (some "errors.New" : GoSem.Err), src, pushback))
        else if !(decide (0 ≤ lastNewline ∧ lastNewline ≤ i ∧ i ≤ lenI buf)) then
          .panic "slice bounds out of range: (*buf)[lastNewline:i]"
        else if (newlines == (0 : Int)) then
          if (slice buf lastNewline i != schemeLit) then
            .ok (.ret (([] : List UInt8), ([] : List UInt8), (some "errors.New" : GoSem.Err), src, pushback))
          else
            readHeader_loop2 fuel R_Read R_Data R_Step buf0 src pushback manifest mac err buf n nn (wrapI64 (i + 1)) ul
              (wrapI64 (newlines + 1)) (wrapI64 (i + (1 : Int))) (slice buf lastNewline i)
        else if (newlines == (1 : Int)) then
          readHeader_loop2 fuel R_Read R_Data R_Step buf0 src pushback (slice buf lastNewline i) mac err buf n nn
            (wrapI64 (i + 1)) ul (wrapI64 (newlines + 1)) (wrapI64 (i + (1 : Int))) (slice buf lastNewline i)
        else if (newlines == (2 : Int)) then
          readHeader_loop2 fuel R_Read R_Data R_Step buf0 src pushback manifest (slice buf lastNewline i) err buf n nn
            (wrapI64 (i + 1)) ul (wrapI64 (newlines + 1)) (wrapI64 (i + (1 : Int))) (slice buf lastNewline i)
        else
          readHeader_loop2 fuel R_Read R_Data R_Step buf0 src pushback manifest mac err buf n nn
            (wrapI64 (i + 1)) ul (wrapI64 (newlines + 1)) (wrapI64 (i + (1 : Int))) (slice buf lastNewline i)
      else
        .ok (.brk (manifest, mac, i, newlines, lastNewline, line)) := by
  rw [readHeader_loop2]

/-- The body of one iteration of the read loop, once `ul` is fixed. -/
def hdrBody (fuel : Nat) (src : σ) (pushback manifest mac : List UInt8) (err : GoSem.Err)
    (buf : List UInt8) (n nn i newlines lastNewline : Int) (line : List UInt8) (ul : Int) : H1Out σ :=
  if (n == ul) then
    .ok (.brk (src, manifest, mac, err, buf, n, nn, i, ul, newlines, lastNewline, line))
  else if !(decide (0 ≤ n ∧ n ≤ (65536 : Int) ∧ (65536 : Int) ≤ lenI buf)) then
    .panic "slice bounds out of range: (*buf)[n:SegmentSize]"
  else
    if (decide ((R_Read src (lenI (slice buf n (65536 : Int)))).1 ≤ (0 : Int))) then
      readHeader_loop1 fuel R_Read R_Data R_Step buf0
        (R_Step src (lenI (slice (writeAt buf n (65536 : Int) (R_Data src (lenI (slice buf n (65536 : Int))))) n (65536 : Int))))
        pushback manifest mac (R_Read src (lenI (slice buf n (65536 : Int)))).2
        (writeAt buf n (65536 : Int) (R_Data src (lenI (slice buf n (65536 : Int)))))
        n (R_Read src (lenI (slice buf n (65536 : Int)))).1 i ul newlines lastNewline line
    else
      bindH (readHeader_loop2 fuel R_Read R_Data R_Step buf0
          (R_Step src (lenI (slice (writeAt buf n (65536 : Int) (R_Data src (lenI (slice buf n (65536 : Int))))) n (65536 : Int))))
          pushback manifest mac (R_Read src (lenI (slice buf n (65536 : Int)))).2
          (writeAt buf n (65536 : Int) (R_Data src (lenI (slice buf n (65536 : Int)))))
          n (R_Read src (lenI (slice buf n (65536 : Int)))).1 n ul newlines lastNewline line)
        (fun s =>
          readHeader_loop1 fuel R_Read R_Data R_Step buf0
            (R_Step src (lenI (slice (writeAt buf n (65536 : Int) (R_Data src (lenI (slice buf n (65536 : Int))))) n (65536 : Int))))
            pushback s.1 s.2.1 (R_Read src (lenI (slice buf n (65536 : Int)))).2
            (writeAt buf n (65536 : Int) (R_Data src (lenI (slice buf n (65536 : Int)))))
            (wrapI64 (n + (R_Read src (lenI (slice buf n (65536 : Int)))).1))
            (R_Read src (lenI (slice buf n (65536 : Int)))).1 s.2.2.1 ul s.2.2.2.1 s.2.2.2.2.1 s.2.2.2.2.2)

theorem rh_loop1_succ (fuel : Nat) (src : σ) (pushback manifest mac : List UInt8) (err : GoSem.Err)
    (buf : List UInt8) (n nn i ul newlines lastNewline : Int) (line : List UInt8) :
    readHeader_loop1 (fuel + 1) R_Read R_Data R_Step buf0 src pushback manifest mac err buf n nn i ul newlines
        lastNewline line =
      if ((decide (newlines < (3 : Int))) && (err == (none : GoSem.Err))) then
        hdrBody R_Read R_Data R_Step buf0 fuel src pushback manifest mac err buf n nn i newlines lastNewline line (ulOf n)
      else
        .ok (.brk (src, manifest, mac, err, buf, n, nn, i, ul, newlines, lastNewline, line)) := by
  rw [readHeader_loop1]
  have body : ∀ ul' : Int,
      (if (n == ul') then
          (.ok (.brk (src, manifest, mac, err, buf, n, nn, i, ul', newlines, lastNewline, line)) : H1Out σ)
        else
          if !(decide (0 ≤ n ∧ n ≤ (65536 : Int) ∧ (65536 : Int) ≤ lenI buf)) then .panic "slice bounds out of range: (*buf)[n:SegmentSize]" else
          match (R_Read src (lenI (slice buf n (65536 : Int)))) with
          | (nn, err) =>
            let buf := writeAt buf n (65536 : Int) (R_Data src (lenI (slice buf n (65536 : Int))))
            let src := R_Step src (lenI (slice buf n (65536 : Int)))
            if (decide (nn ≤ (0 : Int))) then
              readHeader_loop1 fuel R_Read R_Data R_Step buf0 src pushback manifest mac err buf n nn i ul' newlines lastNewline line
            else
              match readHeader_loop2 fuel R_Read R_Data R_Step buf0 src pushback manifest mac err buf n nn n ul' newlines lastNewline line with
              | .panic msg__ => .panic msg__
              | .nofuel => .nofuel
              | .ok (.ret ret__) => .ok (.ret ret__)
              | .ok (.brk (manifest, mac, i, newlines, lastNewline, line)) =>
                readHeader_loop1 fuel R_Read R_Data R_Step buf0 src pushback manifest mac err buf (wrapI64 (n + nn)) nn i ul' newlines lastNewline line)
        = hdrBody R_Read R_Data R_Step buf0 fuel src pushback manifest mac err buf n nn i newlines lastNewline line ul' := by
    intro ul'
    unfold hdrBody
    split
    · rfl
    · split
      · rfl
      · simp only
        split
        · rfl
        · generalize readHeader_loop2 fuel R_Read R_Data R_Step buf0 _ pushback manifest mac _ _ n _ n ul' newlines lastNewline line = x
          match x with
          | .panic m => rfl
          | .nofuel => rfl
          | .ok (.ret r) => rfl
          | .ok (.brk (a, b, c, d, e, f)) => rfl
  by_cases hc : ((decide (newlines < (3 : Int))) && (err == (none : GoSem.Err))) = true
  · rw [if_pos hc, if_pos hc]
    unfold ulOf
    by_cases hu : decide (wrapI64 (n + (512 : Int)) > (65536 : Int)) = true
    · rw [if_pos hu]
      dsimp only
      rw [if_pos hu]
      exact body 65536
    · rw [if_neg hu]
      dsimp only
      rw [if_neg hu]
      exact body _
  · rw [if_neg hc, if_neg hc]

end unfold

/-! ### slices with natural-number bounds -/

def nslice {α : Type} (b : List α) (lo hi : Nat) : List α := (b.take hi).drop lo

theorem slice_cast {α : Type} (b : List α) (lo hi : Nat) : slice b (lo : Int) (hi : Int) = nslice b lo hi := by
  simp [slice, nslice]

theorem nslice_self {α : Type} (b : List α) (i : Nat) : nslice b i i = [] := by
  unfold nslice
  apply List.drop_eq_nil_of_le
  simp only [List.length_take]
  omega

theorem nslice_length {α : Type} (b : List α) (lo hi : Nat) (h : hi ≤ b.length) :
    (nslice b lo hi).length = hi - lo := by
  unfold nslice
  simp only [List.length_drop, List.length_take]
  omega

theorem nslice_snoc {α : Type} (b : List α) (lo i : Nat) (h1 : lo ≤ i) (h2 : i < b.length) :
    nslice b lo (i + 1) = nslice b lo i ++ [b[i]] := by
  unfold nslice
  rw [List.take_succ_eq_append_getElem h2, List.drop_append_of_le_length (by simp only [List.length_take]; omega)]

theorem nslice_cons {α : Type} (b : List α) (i hi : Nat) (h1 : i < hi) (h2 : hi ≤ b.length) :
    nslice b i hi = b[i] :: nslice b (i + 1) hi := by
  unfold nslice
  rw [List.drop_eq_getElem_cons (by simp only [List.length_take]; omega)]
  simp [List.getElem_take]

theorem nslice_append {α : Type} (b : List α) (lo mid hi : Nat) (h1 : lo ≤ mid) (h2 : mid ≤ hi) (h3 : hi ≤ b.length) :
    nslice b lo mid ++ nslice b mid hi = nslice b lo hi := by
  unfold nslice
  conv => rhs; rw [← List.take_append_drop mid (b.take hi)]
  rw [List.take_take, Nat.min_eq_left h2, List.drop_append_of_le_length (by simp only [List.length_take]; omega)]

theorem idx_cast (b : List UInt8) (i : Nat) (h : i < b.length) : idx b (i : Int) = b[i] := by
  unfold idx
  simp only [Int.toNat_natCast]
  rw [List.getD_eq_getElem?_getD, List.getElem?_eq_getElem h]
  rfl

theorem wrap_nat_succ (i : Nat) (h : (i : Int) < maxI64) : wrapI64 ((i : Int) + 1) = ((i + 1 : Nat) : Int) := by
  unfold maxI64 at h
  rw [wrapI64_of_in (by unfold InI64; omega)]
  omega

/-- A write into the window `[lo, hi)` leaves everything below `lo` alone. -/
theorem writeAt_take_below {α : Type} (s d : List α) (lo hi : Int) (k : Nat) (hk : k ≤ lo.toNat)
    (h : lo.toNat ≤ s.length) : (writeAt s lo hi d).take k = s.take k := by
  unfold writeAt
  rw [List.append_assoc]
  rw [List.take_append_of_le_length (by simp only [List.length_take]; omega), List.take_take, Nat.min_eq_left hk]

theorem nslice_writeAt_below {α : Type} (s d : List α) (lo hi : Int) (a b : Nat) (hb : b ≤ lo.toNat)
    (h : lo.toNat ≤ s.length) : nslice (writeAt s lo hi d) a b = nslice s a b := by
  unfold nslice
  rw [writeAt_take_below s d lo hi b hb h]

theorem writeAt_length' {α : Type} (s d : List α) (lo hi : Int)
    (h1 : lo.toNat ≤ hi.toNat) (h2 : hi.toNat ≤ s.length) : lenI (writeAt s lo hi d) = lenI s := by
  unfold lenI
  rw [writeAt_length s d lo hi h1 h2]

theorem slice_snoc_int (b : List UInt8) (lo i : Int) (h0 : 0 ≤ lo) (h1 : lo ≤ i) (h2 : i < lenI b) :
    slice b lo (i + 1) = slice b lo i ++ [idx b i] := by
  obtain ⟨lo, rfl⟩ := Int.eq_ofNat_of_zero_le h0
  obtain ⟨i, rfl⟩ := Int.eq_ofNat_of_zero_le (Int.le_trans h0 h1)
  unfold lenI at h2
  have e : ((i : Int) + 1) = ((i + 1 : Nat) : Int) := by omega
  rw [e, slice_cast, slice_cast, idx_cast _ _ (by omega), nslice_snoc _ _ _ (by omega) (by omega)]

theorem slice_self_int {α : Type} (b : List α) (i : Int) : slice b i i = [] := by
  unfold slice
  apply List.drop_eq_nil_of_le
  simp only [List.length_take]
  omega

theorem slice_writeAt_below {α : Type} (s d : List α) (lo hi a b : Int) (hb : b ≤ lo)
    (h : lo.toNat ≤ s.length) : slice (writeAt s lo hi d) a b = slice s a b := by
  unfold slice
  rw [writeAt_take_below s d lo hi b.toNat (by omega) h]

/-! ### on the translated code alone, for an arbitrary reader -/

section general
variable {σ : Type} (R_Read : σ → Int → Int × GoSem.Err) (R_Data : σ → Int → List UInt8)
  (R_Step : σ → Int → σ) (buf0 : List UInt8)

/-- No line feed in the line. -/
def Clean (l : List UInt8) : Prop := (10 : UInt8) ∉ l

/-- What the byte scan guarantees (`hi = n + nn`, the end of the bytes just read). -/
def H2Post (hi : Int) (src : σ) (pb buf : List UInt8) : H2Out σ → Prop
  | .panic _ => False
  | .nofuel => True
  | .ok (.ret r) => r = (([] : List UInt8), ([] : List UInt8), (some "errors.New" : GoSem.Err), src, pb)
  | .ok (.brk (manifest, mac, i, newlines, ln, _)) =>
      0 ≤ ln ∧ ln ≤ i ∧ i ≤ hi ∧ (newlines < 3 → i = hi) ∧ Clean (slice buf ln i) ∧ Clean manifest ∧ Clean mac

theorem rh_loop2_inv (src : σ) (pb : List UInt8) (err : GoSem.Err) (buf : List UInt8) (n nn ul hi : Int)
    (hw : wrapI64 (n + nn) = hi) (hhi : hi ≤ lenI buf) (hmax : lenI buf ≤ maxI64) :
    ∀ (fuel : Nat) (manifest mac : List UInt8) (i newlines ln : Int) (line : List UInt8),
      0 ≤ ln → ln ≤ i → i ≤ hi → Clean (slice buf ln i) → Clean manifest → Clean mac →
      H2Post hi src pb buf
        (readHeader_loop2 fuel R_Read R_Data R_Step buf0 src pb manifest mac err buf n nn i ul newlines ln line) := by
  intro fuel
  induction fuel with
  | zero => intros; rw [readHeader_loop2]; trivial
  | succ fuel ih =>
    intro manifest mac i newlines ln line h0 h1 h2 hc hm hk
    unfold maxI64 at hmax
    rw [rh_loop2_succ, hw]
    split
    · rename_i hcond
      simp only [Bool.and_eq_true, decide_eq_true_eq] at hcond
      have hw1 : wrapI64 (i + 1) = i + 1 := wrapI64_of_in (by unfold InI64; omega)
      have hb : decide (0 ≤ i ∧ i < lenI buf) = true := by simp only [decide_eq_true_eq]; omega
      simp only [hb, Bool.not_true, Bool.false_eq_true, if_false, hw1]
      split
      · rename_i hne
        refine ih manifest mac (i + 1) newlines ln line h0 (by omega) (by omega) ?_ hm hk
        rw [slice_snoc_int buf ln i h0 h1 (by omega)]
        unfold Clean at *
        simp only [List.mem_append, List.mem_singleton, not_or]
        refine ⟨hc, fun h => ?_⟩
        rw [← h] at hne
        simp at hne
      · split
        · rfl
        · rename_i hgt
          simp only [decide_eq_true_eq] at hgt
          have hb2 : decide (0 ≤ ln ∧ ln ≤ i ∧ i ≤ lenI buf) = true := by simp only [decide_eq_true_eq]; omega
          simp only [hb2, Bool.not_true, Bool.false_eq_true, if_false]
          have hself : Clean (slice buf (i + 1) (i + 1)) := by rw [slice_self_int]; unfold Clean; simp
          split
          · split
            · rfl
            · exact ih manifest mac (i + 1) _ (i + 1) _ (by omega) (by omega) (by omega) hself hm hk
          · split
            · exact ih _ mac (i + 1) _ (i + 1) _ (by omega) (by omega) (by omega) hself hc hk
            · split
              · exact ih manifest _ (i + 1) _ (i + 1) _ (by omega) (by omega) (by omega) hself hm hc
              · exact ih manifest mac (i + 1) _ (i + 1) _ (by omega) (by omega) (by omega) hself hm hk
    · rename_i hcond
      simp only [Bool.and_eq_true, decide_eq_true_eq, not_and] at hcond
      exact ⟨h0, h1, h2, fun h => by have := fun x => hcond x h; omega, hc, hm, hk⟩

/-- What the read loop guarantees. `Q s n` is any relation between the reader state and the byte
count `n` that every `Read` on the window `(*buf)[n:65536]` preserves. -/
def H1Post (Q : σ → Int → Prop) (L : Int) (pb : List UInt8) : H1Out σ → Prop
  | .panic _ => False
  | .nofuel => True
  | .ok (.ret (m, c, e, s, p)) =>
      m = [] ∧ c = [] ∧ e = (some "errors.New" : GoSem.Err) ∧ p = pb ∧ ∃ n, 0 ≤ n ∧ n ≤ 65536 ∧ Q s n
  | .ok (.brk (src, manifest, mac, _, buf, n, _, _, _, _, ln, _)) =>
      lenI buf = L ∧ 0 ≤ ln ∧ ln ≤ n ∧ n ≤ 65536 ∧ Clean manifest ∧ Clean mac ∧ Q src n

/-- The half of the `io.Reader` contract `readHeader` needs in order not to panic: on a non-empty
window of `k` bytes, `Read` does not report more than `k` bytes. (A negative count is treated like 0
by `if nn <= 0 { continue }`.) -/
def ReadFits (R_Read : σ → Int → Int × GoSem.Err) : Prop :=
  ∀ s k, 0 < k → (R_Read s k).1 ≤ k

theorem readFits_of_contract {R_Read : σ → Int → Int × GoSem.Err} (h : ReaderContract R_Read) : ReadFits R_Read :=
  fun s k hk => (h s k hk).2

/-- `Q` is kept by a `Read` on the window `(*buf)[n:65536]` (`n` advances by the reported count if
it is positive). -/
def QStep (Q : σ → Int → Prop) : Prop :=
  ∀ s n, 0 ≤ n → n < 65536 → Q s n → Q (R_Step s (65536 - n)) (n + max 0 (R_Read s (65536 - n)).1)

theorem ulOf_ne (n : Int) (h0 : 0 ≤ n) (h1 : n < 65536) : (n == ulOf n) = false := by
  unfold ulOf
  rw [wrapI64_of_in (by unfold InI64; omega)]
  rw [beq_eq_false_iff_ne]
  split <;> omega

theorem ulOf_full : ((65536 : Int) == ulOf 65536) = true := by decide

theorem rh_loop1_inv (hR : ReadFits R_Read) (Q : σ → Int → Prop) (hQ : QStep R_Read R_Step Q) (L : Int)
    (hL1 : 65536 ≤ L) (hL2 : L ≤ maxI64) :
    ∀ (fuel : Nat) (src : σ) (pb manifest mac : List UInt8) (err : GoSem.Err) (buf : List UInt8)
      (n nn i ul newlines ln : Int) (line : List UInt8),
      lenI buf = L → 0 ≤ ln → ln ≤ n → n ≤ 65536 → (newlines < 3 → Clean (slice buf ln n)) → Clean manifest →
      Clean mac → Q src n →
      H1Post Q L pb
        (readHeader_loop1 fuel R_Read R_Data R_Step buf0 src pb manifest mac err buf n nn i ul newlines ln line) := by
  intro fuel
  induction fuel with
  | zero => intros; rw [readHeader_loop1]; trivial
  | succ fuel ih =>
    intro src pb manifest mac err buf n nn i ul newlines ln line hlen h0 h1 h2 hc hm hk hq
    unfold maxI64 at hL2
    rw [rh_loop1_succ]
    split
    · rename_i hcond
      simp only [Bool.and_eq_true, decide_eq_true_eq] at hcond
      unfold hdrBody
      by_cases hn : n = 65536
      · subst hn
        simp only [ulOf_full, if_true]
        exact ⟨hlen, h0, h1, h2, hm, hk, hq⟩
      · have hn' : n < 65536 := by omega
        have hb : decide (0 ≤ n ∧ n ≤ (65536 : Int) ∧ (65536 : Int) ≤ lenI buf) = true := by
          simp only [decide_eq_true_eq]; omega
        have hk1 : lenI (slice buf n 65536) = 65536 - n := by
          unfold lenI at *
          rw [slice_length _ _ _ (by omega)]; omega
        have hlen' : ∀ d, lenI (writeAt buf n 65536 d) = L := by
          intro d
          rw [writeAt_length' _ _ _ _ (by omega) (by unfold lenI at hlen; omega)]; exact hlen
        have hk2 : ∀ d, lenI (slice (writeAt buf n 65536 d) n 65536) = 65536 - n := by
          intro d
          have := hlen' d
          unfold lenI at *
          rw [slice_length _ _ _ (by omega)]; omega
        simp only [ulOf_ne n (by omega) hn', hb, Bool.not_true, Bool.false_eq_true, if_false, hk1, hk2]
        have c1 := hR src (65536 - n) (by omega)
        have hq' := hQ src n (by omega) hn' hq
        have hcl : newlines < 3 → Clean (slice (writeAt buf n 65536 (R_Data src (65536 - n))) ln n) := by
          intro h
          rw [slice_writeAt_below _ _ _ _ _ _ (Int.le_refl _) (by unfold lenI at hlen; omega)]
          exact hc h
        split
        · rename_i hz
          simp only [decide_eq_true_eq] at hz
          rw [Int.max_eq_left hz, Int.add_zero] at hq'
          exact ih _ pb manifest mac _ _ n _ i _ newlines ln line (hlen' _) h0 h1 h2 hcl hm hk hq'
        · rename_i hz
          simp only [decide_eq_true_eq] at hz
          have hw : wrapI64 (n + (R_Read src (65536 - n)).1) = n + (R_Read src (65536 - n)).1 :=
            wrapI64_of_in (by unfold InI64; omega)
          rw [Int.max_eq_right (by omega)] at hq'
          have h2p := rh_loop2_inv R_Read R_Data R_Step buf0 (R_Step src (65536 - n)) pb (R_Read src (65536 - n)).2
            (writeAt buf n 65536 (R_Data src (65536 - n))) n (R_Read src (65536 - n)).1 (ulOf n)
            (n + (R_Read src (65536 - n)).1) hw (by rw [hlen']; omega) (by rw [hlen']; unfold maxI64; omega)
            fuel manifest mac n newlines ln line h0 h1 (by omega) (hcl hcond.1) hm hk
          generalize readHeader_loop2 fuel R_Read R_Data R_Step buf0 (R_Step src (65536 - n)) pb manifest mac
            (R_Read src (65536 - n)).2 (writeAt buf n 65536 (R_Data src (65536 - n))) n (R_Read src (65536 - n)).1 n
            (ulOf n) newlines ln line = x at h2p
          match x, h2p with
          | .nofuel, _ => trivial
          | .ok (.ret r), h2p =>
            simp only [H2Post] at h2p
            subst h2p
            exact ⟨rfl, rfl, rfl, rfl, _, by omega, by omega, hq'⟩
          | .ok (.brk (manifest', mac', i', newlines', ln', line')), h2p =>
            obtain ⟨p0, p1, p2, p3, p4, p5, p6⟩ := h2p
            simp only [bindH, hw]
            refine ih _ pb manifest' mac' _ _ _ _ i' _ newlines' ln' line' (hlen' _) p0 (by omega) (by omega) ?_ p5 p6 hq'
            intro h
            rw [← p3 h]
            exact p4
    · exact ⟨hlen, h0, h1, h2, hm, hk, hq⟩

/-- The part of `readHeader` after the read loop. -/
def hdrFinish (pushback : List UInt8) : H1Out σ → Res (HRet σ)
  | .panic m => .panic m
  | .nofuel => .nofuel
  | .ok (.ret r) => .ok r
  | .ok (.brk (src, manifest, mac, err, buf, n, _, _, _, newlines, ln, _)) =>
    if (decide (newlines < (1 : Int))) then
      .ok (([] : List UInt8), ([] : List UInt8), (some "errors.New" : GoSem.Err), src, pushback)
    else if ((lenI manifest) == (0 : Int)) then
      .ok (([] : List UInt8), ([] : List UInt8), (some "errors.New" : GoSem.Err), src, pushback)
    else if ((lenI mac) == (0 : Int)) then
      .ok (([] : List UInt8), ([] : List UInt8), (some "errors.New" : GoSem.Err), src, pushback)
    else if ((err != (none : GoSem.Err)) && (!(err == (some "io.EOF" : GoSem.Err)))) then
      .ok (([] : List UInt8), ([] : List UInt8), err, src, pushback)
    else if (decide (n > ln)) then
      if !(decide (0 ≤ (wrapI64 (n - ln)))) then .panic "makeslice: len out of range: make([]byte, n-lastNewline)"
      else if !(decide (0 ≤ ln ∧ ln ≤ n ∧ n ≤ lenI buf)) then .panic "slice bounds out of range: (*buf)[(lastNewline):n]"
      else .ok (manifest, mac, (none : GoSem.Err), src,
        GoSem.fill (List.replicate (wrapI64 (n - ln)).toNat (0 : UInt8)) (slice buf ln n))
    else .ok (manifest, mac, (none : GoSem.Err), src, pushback)

theorem readHeader_eq_finish (fuel : Nat) (src : σ) (pb : List UInt8) :
    Kit.Generated.CodeC01.readHeader fuel R_Read R_Data R_Step buf0 src pb =
      hdrFinish pb (readHeader_loop1 fuel R_Read R_Data R_Step buf0 src pb [] [] none buf0 0 0 0 0 0 0 []) := by
  unfold Kit.Generated.CodeC01.readHeader
  simp only
  cases readHeader_loop1 fuel R_Read R_Data R_Step buf0 src pb [] [] none buf0 0 0 0 0 0 0 [] with
  | panic m => rfl
  | nofuel => rfl
  | ok v =>
    cases v with
    | ret r => rfl
    | brk s =>
      obtain ⟨a, b, c, d, e, f, g, h, i, j, k, l⟩ := s
      rfl

/-- What a run of the translated `readHeader` guarantees, for any reader within the contract and
any `Read`-invariant `Q` of the reader state that holds initially with count 0. -/
def HdrPost (Q : σ → Int → Prop) (pb : List UInt8) : Res (HRet σ) → Prop
  | .panic _ => False
  | .nofuel => True
  | .ok (m, c, e, s, p) =>
      (∃ n, 0 ≤ n ∧ n ≤ 65536 ∧ Q s n) ∧
      (e = none → m ≠ [] ∧ c ≠ [] ∧ (10 : UInt8) ∉ m ∧ (10 : UInt8) ∉ c) ∧
      (e ≠ none → m = [] ∧ c = [] ∧ p = pb)

theorem readHeader_code_post (hR : ReadFits R_Read) (Q : σ → Int → Prop) (hQ : QStep R_Read R_Step Q)
    (hbuf : 65536 ≤ lenI buf0) (hlen : lenI buf0 ≤ maxI64) (fuel : Nat) (src : σ) (pb : List UInt8) (hq0 : Q src 0) :
    HdrPost Q pb (Kit.Generated.CodeC01.readHeader fuel R_Read R_Data R_Step buf0 src pb) := by
  rw [readHeader_eq_finish]
  have hnil : Clean [] := by unfold Clean; simp
  have h1 := rh_loop1_inv R_Read R_Data R_Step buf0 hR Q hQ (lenI buf0) hbuf hlen fuel src pb [] [] none buf0
    0 0 0 0 0 0 [] rfl (Int.le_refl _) (Int.le_refl _) (by omega) (fun _ => by rw [slice_self_int]; exact hnil) hnil hnil hq0
  generalize readHeader_loop1 fuel R_Read R_Data R_Step buf0 src pb [] [] none buf0 0 0 0 0 0 0 [] = x at h1
  unfold maxI64 at hlen
  match x, h1 with
  | .nofuel, _ => trivial
  | .ok (.ret (m, c, e, s, p)), h1 =>
    obtain ⟨rfl, rfl, rfl, rfl, hn⟩ := h1
    exact ⟨hn, fun h => (by cases h), fun _ => ⟨rfl, rfl, rfl⟩⟩
  | .ok (.brk (src', manifest, mac, err, buf, n, nn, i, ul, newlines, ln, line)), h1 =>
    obtain ⟨e1, e2, e3, e4, e5, e6, e7⟩ := h1
    have hQ' : ∃ n, 0 ≤ n ∧ n ≤ 65536 ∧ Q src' n := ⟨n, by omega, e4, e7⟩
    have herr : ∀ (e : GoSem.Err), e ≠ none →
        HdrPost Q pb (.ok (([] : List UInt8), ([] : List UInt8), e, src', pb)) :=
      fun e he => ⟨hQ', fun h => absurd h he, fun _ => ⟨rfl, rfl, rfl⟩⟩
    have hnew : (some "errors.New" : GoSem.Err) ≠ none := by intro h; cases h
    unfold hdrFinish
    simp only
    split
    · exact herr _ hnew
    · split
      · exact herr _ hnew
      · rename_i hm0
        split
        · exact herr _ hnew
        · rename_i hc0
          have hmne : manifest ≠ [] := by
            intro h; apply hm0; rw [h]; rfl
          have hcne : mac ≠ [] := by
            intro h; apply hc0; rw [h]; rfl
          split
          · rename_i he
            simp only [Bool.and_eq_true, bne_iff_ne, ne_eq] at he
            exact herr _ he.1
          · have hw : wrapI64 (n - ln) = n - ln := wrapI64_of_in (by unfold InI64; omega)
            split
            · rename_i hgt
              simp only [decide_eq_true_eq] at hgt
              have hb1 : decide (0 ≤ n - ln) = true := by simp only [decide_eq_true_eq]; omega
              have hb2 : decide (0 ≤ ln ∧ ln ≤ n ∧ n ≤ lenI buf) = true := by simp only [decide_eq_true_eq]; omega
              simp only [hw, hb1, hb2, Bool.not_true, Bool.false_eq_true, if_false]
              exact ⟨hQ', fun _ => ⟨hmne, hcne, e5, e6⟩, fun h => absurd rfl h⟩
            · exact ⟨hQ', fun _ => ⟨hmne, hcne, e5, e6⟩, fun h => absurd rfl h⟩

/-- **The translated `readHeader` never panics** — `(*buf)[n:SegmentSize]`, `(*buf)[i]`,
`(*buf)[lastNewline:i]`, `make([]byte, n-lastNewline)`, `(*buf)[lastNewline:n]` are all in range —
for any reader state type and any `Read` behaviour that does not report more bytes than the window
holds (`n ≤ len(p)` on a non-empty `p`; errors, data and progress arbitrary; the lower half
`0 ≤ n` of the `io.Reader` contract is not needed: `nn <= 0` takes the `continue` path), any fuel,
provided the pooled buffer holds `SegmentSize` = 65536 bytes (its length is a Go `int`). Both
hypotheses are needed: `readHeader_code_panics_short_buffer`, `readHeader_code_panics_overlong_read`. -/
theorem readHeader_code_never_panics_of_fits (hR : ReadFits R_Read)
    (hbuf : 65536 ≤ lenI buf0) (hlen : lenI buf0 ≤ maxI64) (fuel : Nat) (src : σ) (pb : List UInt8) :
    ∀ msg, Kit.Generated.CodeC01.readHeader fuel R_Read R_Data R_Step buf0 src pb ≠ .panic msg := by
  intro msg h
  have := readHeader_code_post R_Read R_Data R_Step buf0 hR (fun _ _ => True) (fun _ _ _ _ _ => trivial)
    hbuf hlen fuel src pb trivial
  rw [h] at this
  exact this

/-- The same under the full reader contract `0 ≤ n ≤ len(p)` of `C01Code.lean`. -/
theorem readHeader_code_never_panics (hR : ReaderContract R_Read)
    (hbuf : 65536 ≤ lenI buf0) (hlen : lenI buf0 ≤ maxI64) (fuel : Nat) (src : σ) (pb : List UInt8) :
    ∀ msg, Kit.Generated.CodeC01.readHeader fuel R_Read R_Data R_Step buf0 src pb ≠ .panic msg :=
  readHeader_code_never_panics_of_fits R_Read R_Data R_Step buf0 (readFits_of_contract hR) hbuf hlen fuel src pb

/-- **What `readHeader` returns** (same generality): on success (`err == nil`) the manifest line and
the MAC line are non-empty and contain no line feed; on any error both are `nil` and the reader is
not re-wrapped (`pushback` untouched). -/
theorem readHeader_code_lines (hR : ReadFits R_Read)
    (hbuf : 65536 ≤ lenI buf0) (hlen : lenI buf0 ≤ maxI64) (fuel : Nat) (src : σ) (pb : List UInt8)
    (m c : List UInt8) (e : GoSem.Err) (src' : σ) (pb' : List UInt8)
    (h : Kit.Generated.CodeC01.readHeader fuel R_Read R_Data R_Step buf0 src pb = .ok (m, c, e, src', pb')) :
    (e = none → m ≠ [] ∧ c ≠ [] ∧ (10 : UInt8) ∉ m ∧ (10 : UInt8) ∉ c) ∧
    (e ≠ none → m = [] ∧ c = [] ∧ pb' = pb) := by
  have := readHeader_code_post R_Read R_Data R_Step buf0 hR (fun _ _ => True) (fun _ _ _ _ _ => trivial)
    hbuf hlen fuel src pb trivial
  rw [h] at this
  exact this.2

/-! #### the header limit: what is asked of the reader -/

/-- The reader with a log of its `Read` calls: `(len(p), n)` for every call, in order. -/
def logRead : σ × List (Int × Int) → Int → Int × GoSem.Err := fun s k => R_Read s.1 k
def logData : σ × List (Int × Int) → Int → List UInt8 := fun s k => R_Data s.1 k
def logStep : σ × List (Int × Int) → Int → σ × List (Int × Int) :=
  fun s k => (R_Step s.1 k, s.2 ++ [(k, (R_Read s.1 k).1)])

/-- Every logged `Read` was issued on the window `[s, 65536)` of the buffer, where `s ≥ 0` is the
number of bytes reported so far; the window is not empty and the reported count fits in it. -/
def WindowsFrom : Int → List (Int × Int) → Prop
  | _, [] => True
  | s, (k, nn) :: rest => 0 ≤ s ∧ k = 65536 - s ∧ 0 < k ∧ 0 ≤ nn ∧ nn ≤ k ∧ WindowsFrom (s + nn) rest

/-- Total number of bytes the logged `Read`s reported. -/
def readTotal : List (Int × Int) → Int
  | [] => 0
  | (_, nn) :: rest => nn + readTotal rest

theorem readTotal_snoc (lg : List (Int × Int)) (k nn : Int) : readTotal (lg ++ [(k, nn)]) = readTotal lg + nn := by
  induction lg with
  | nil => simp [readTotal]
  | cons c rest ih =>
    obtain ⟨k', nn'⟩ := c
    simp only [List.cons_append, readTotal, ih]
    omega

theorem windowsFrom_snoc (lg : List (Int × Int)) : ∀ (s k nn : Int), WindowsFrom s lg →
    0 ≤ s + readTotal lg → k = 65536 - (s + readTotal lg) → 0 < k → 0 ≤ nn → nn ≤ k →
    WindowsFrom s (lg ++ [(k, nn)]) := by
  induction lg with
  | nil =>
    intro s k nn _ h0 h1 h2 h3 h4
    simp only [readTotal, Int.add_zero] at h0 h1
    exact ⟨h0, h1, h2, h3, h4, trivial⟩
  | cons c rest ih =>
    intro s k nn hw h0 h1 h2 h3 h4
    obtain ⟨k', nn'⟩ := c
    obtain ⟨w0, w1, w2, w3, w4, w5⟩ := hw
    simp only [readTotal] at h0 h1
    exact ⟨w0, w1, w2, w3, w4, ih (s + nn') k nn w5 (by omega) (by omega) h2 h3 h4⟩

/-- **The header limit.** Run the translated `readHeader` on any reader within the contract, with its
`Read` calls logged. Every `Read` is issued on the window `(*buf)[s:65536]` with `0 ≤ s < 65536` the
number of bytes reported so far (`WindowsFrom 0`), so no byte is ever placed at or beyond offset
65536, and the total number of bytes read is at most 65536 — whatever the content (e.g. a stream
without any line feed). And if it returns `err == nil` then `manifest` and `mac` are non-empty and
contain no line feed. -/
theorem readHeader_code_header_limit (hR : ReaderContract R_Read)
    (hbuf : 65536 ≤ lenI buf0) (hlen : lenI buf0 ≤ maxI64) (fuel : Nat) (src : σ) (pb : List UInt8)
    (m c : List UInt8) (e : GoSem.Err) (src' : σ) (lg : List (Int × Int)) (pb' : List UInt8)
    (h : Kit.Generated.CodeC01.readHeader fuel (logRead R_Read) (logData R_Data) (logStep R_Read R_Step) buf0
      (src, []) pb = .ok (m, c, e, (src', lg), pb')) :
    WindowsFrom 0 lg ∧ 0 ≤ readTotal lg ∧ readTotal lg ≤ 65536 ∧
    (e = none → m ≠ [] ∧ c ≠ [] ∧ (10 : UInt8) ∉ m ∧ (10 : UInt8) ∉ c) := by
  have hR' : ReadFits (logRead R_Read) := fun s k hk => (hR s.1 k hk).2
  have := readHeader_code_post (logRead R_Read) (logData R_Data) (logStep R_Read R_Step) buf0 hR'
    (fun s n => WindowsFrom 0 s.2 ∧ readTotal s.2 = n)
    (by
      intro s n h0 h1 hq
      obtain ⟨q1, q2⟩ := hq
      obtain ⟨c0, c1⟩ := hR s.1 (65536 - n) (by omega)
      refine ⟨windowsFrom_snoc _ _ _ _ q1 (by omega) (by omega) (by omega) c0 c1, ?_⟩
      simp only [logStep, logRead, readTotal_snoc, q2, Int.max_eq_right c0])
    hbuf hlen fuel (src, []) pb ⟨trivial, rfl⟩
  rw [h] at this
  obtain ⟨⟨n, h0, h1, q1, q2⟩, h2, _⟩ := this
  simp only at q1 q2
  exact ⟨q1, by omega, by omega, h2⟩

/-! #### the boundary of termination -/

theorem rh_loop1_spin (hspin : ∀ s k, (R_Read s k).1 ≤ 0 ∧ (R_Read s k).2 = none) (pb : List UInt8) :
    ∀ (fuel : Nat) (src : σ) (buf : List UInt8) (nn i ul : Int) (line : List UInt8), 65536 ≤ lenI buf →
      readHeader_loop1 fuel R_Read R_Data R_Step buf0 src pb [] [] none buf 0 nn i ul 0 0 line = .nofuel := by
  intro fuel
  induction fuel with
  | zero => intros; rw [readHeader_loop1]
  | succ fuel ih =>
    intro src buf nn i ul line hbuf
    rw [rh_loop1_succ]
    have hc : (decide ((0 : Int) < 3) && ((none : GoSem.Err) == none)) = true := by decide
    rw [if_pos hc]
    unfold hdrBody
    have hb : decide (0 ≤ (0 : Int) ∧ (0 : Int) ≤ (65536 : Int) ∧ (65536 : Int) ≤ lenI buf) = true := by
      simp only [decide_eq_true_eq]; omega
    simp only [ulOf_ne 0 (by omega) (by omega), hb, Bool.not_true, Bool.false_eq_true, if_false]
    obtain ⟨s1, s2⟩ := hspin src (lenI (slice buf 0 65536))
    rw [if_pos (by simp only [decide_eq_true_eq]; exact s1), s2]
    apply ih
    rw [writeAt_length' _ _ _ _ (by omega) (by unfold lenI at hbuf; omega)]
    exact hbuf

/-- A reader whose every `Read` reports `n ≤ 0` with a nil error keeps the translated `readHeader`
in its loop for ever (`nn <= 0 → continue` with `n`, `newlines`, `err` unchanged): `.nofuel` for
every fuel. -/
theorem readHeader_code_can_spin_gen (hspin : ∀ s k, (R_Read s k).1 ≤ 0 ∧ (R_Read s k).2 = none)
    (hbuf : 65536 ≤ lenI buf0) (fuel : Nat) (src : σ) (pb : List UInt8) :
    Kit.Generated.CodeC01.readHeader fuel R_Read R_Data R_Step buf0 src pb = .nofuel := by
  rw [readHeader_eq_finish, rh_loop1_spin R_Read R_Data R_Step buf0 hspin pb fuel src buf0 0 0 0 [] hbuf]
  rfl

/-- **Boundary of the termination claim** (not a finding): a reader that returns `(0, nil)` for ever
— which the `io.Reader` contract discourages but allows — makes the translated `readHeader` return
`.nofuel` for every fuel: the Go loop `continue`s without progress. The model's scripted readers
have finitely many zero-length reads, which is why `readHeader_code_eq_model` can name a fuel
bound (`r.measure + 65538`). -/
theorem readHeader_code_can_spin (hzero : ∀ s k, R_Read s k = (0, none))
    (hbuf : 65536 ≤ lenI buf0) (fuel : Nat) (src : σ) (pb : List UInt8) :
    Kit.Generated.CodeC01.readHeader fuel R_Read R_Data R_Step buf0 src pb = .nofuel :=
  readHeader_code_can_spin_gen R_Read R_Data R_Step buf0
    (fun s k => by rw [hzero s k]; exact ⟨Int.le_refl _, rfl⟩) hbuf fuel src pb

end general

/-! ### a reader seen through a projection of its state (e.g. the logging reader without its log) -/

section erase
variable {τ σ : Type} (f : τ → σ)
  (T_Read : τ → Int → Int × GoSem.Err) (T_Data : τ → Int → List UInt8) (T_Step : τ → Int → τ)
  (R_Read : σ → Int → Int × GoSem.Err) (R_Data : σ → Int → List UInt8) (R_Step : σ → Int → σ)
  (buf0 : List UInt8)

def mapRet : HRet τ → HRet σ
  | (m, c, e, s, p) => (m, c, e, f s, p)

def mapH2 : H2Out τ → H2Out σ
  | .panic m => .panic m
  | .nofuel => .nofuel
  | .ok (.ret r) => .ok (.ret (mapRet f r))
  | .ok (.brk s) => .ok (.brk s)

def mapH1 : H1Out τ → H1Out σ
  | .panic m => .panic m
  | .nofuel => .nofuel
  | .ok (.ret r) => .ok (.ret (mapRet f r))
  | .ok (.brk (s, rest)) => .ok (.brk (f s, rest))

def mapRes : Res (HRet τ) → Res (HRet σ)
  | .panic m => .panic m
  | .nofuel => .nofuel
  | .ok r => .ok (mapRet f r)

theorem rh_loop2_map (t : τ) (pb : List UInt8) (err : GoSem.Err) (buf : List UInt8) (n nn ul : Int) :
    ∀ (fuel : Nat) (manifest mac : List UInt8) (i newlines ln : Int) (line : List UInt8),
      mapH2 f (readHeader_loop2 fuel T_Read T_Data T_Step buf0 t pb manifest mac err buf n nn i ul newlines ln line)
        = readHeader_loop2 fuel R_Read R_Data R_Step buf0 (f t) pb manifest mac err buf n nn i ul newlines ln line := by
  intro fuel
  induction fuel with
  | zero => intros; rw [readHeader_loop2, readHeader_loop2]; rfl
  | succ fuel ih =>
    intro manifest mac i newlines ln line
    rw [rh_loop2_succ, rh_loop2_succ]
    repeat' split
    all_goals first
      | rfl
      | exact ih _ _ _ _ _ _

theorem mapH1_bindH (x : H2Out τ) (k : H2Brk → H1Out τ) :
    mapH1 f (bindH x k) = bindH (mapH2 f x) (fun s => mapH1 f (k s)) := by
  match x with
  | .panic _ => rfl
  | .nofuel => rfl
  | .ok (.ret _) => rfl
  | .ok (.brk _) => rfl

theorem rh_loop1_map (hRead : ∀ t k, T_Read t k = R_Read (f t) k) (hData : ∀ t k, T_Data t k = R_Data (f t) k)
    (hStep : ∀ t k, f (T_Step t k) = R_Step (f t) k) (pb : List UInt8) :
    ∀ (fuel : Nat) (t : τ) (manifest mac : List UInt8) (err : GoSem.Err) (buf : List UInt8)
      (n nn i ul newlines ln : Int) (line : List UInt8),
      mapH1 f (readHeader_loop1 fuel T_Read T_Data T_Step buf0 t pb manifest mac err buf n nn i ul newlines ln line)
        = readHeader_loop1 fuel R_Read R_Data R_Step buf0 (f t) pb manifest mac err buf n nn i ul newlines ln line := by
  intro fuel
  induction fuel with
  | zero => intros; rw [readHeader_loop1, readHeader_loop1]; rfl
  | succ fuel ih =>
    intro t manifest mac err buf n nn i ul newlines ln line
    rw [rh_loop1_succ, rh_loop1_succ]
    split
    · unfold hdrBody
      simp only [hRead, hData]
      split
      · rfl
      · split
        · rfl
        · split
          · rw [ih, hStep]
          · rw [mapH1_bindH, rh_loop2_map f T_Read T_Data T_Step R_Read R_Data R_Step buf0, hStep]
            congr 1
            funext s
            rw [ih, hStep]
    · rfl

theorem hdrFinish_map (pb : List UInt8) (x : H1Out τ) :
    mapRes f (hdrFinish pb x) = hdrFinish pb (mapH1 f x) := by
  match x with
  | .panic _ => rfl
  | .nofuel => rfl
  | .ok (.ret _) => rfl
  | .ok (.brk (s, manifest, mac, err, buf, n, nn, i, ul, newlines, ln, line)) =>
    simp only [mapH1, hdrFinish]
    repeat' split
    all_goals rfl

/-- **A run does not depend on what the reader's state carries besides what `Read` depends on**:
if `T_*` is a reader on `τ` that behaves like `R_*` on the projection `f`, the translated
`readHeader` on `τ`, projected, is the translated `readHeader` on `σ`. -/
theorem readHeader_code_map (hRead : ∀ t k, T_Read t k = R_Read (f t) k) (hData : ∀ t k, T_Data t k = R_Data (f t) k)
    (hStep : ∀ t k, f (T_Step t k) = R_Step (f t) k) (fuel : Nat) (t : τ) (pb : List UInt8) :
    mapRes f (Kit.Generated.CodeC01.readHeader fuel T_Read T_Data T_Step buf0 t pb)
      = Kit.Generated.CodeC01.readHeader fuel R_Read R_Data R_Step buf0 (f t) pb := by
  rw [readHeader_eq_finish, readHeader_eq_finish, hdrFinish_map,
    rh_loop1_map f T_Read T_Data T_Step R_Read R_Data R_Step buf0 hRead hData hStep]

end erase

/-- The logged run, with the log dropped, is the plain run: logging changes nothing. -/
theorem readHeader_code_log_erase {σ : Type} (R_Read : σ → Int → Int × GoSem.Err) (R_Data : σ → Int → List UInt8)
    (R_Step : σ → Int → σ) (buf0 : List UInt8) (fuel : Nat) (src : σ) (lg : List (Int × Int)) (pb : List UInt8) :
    mapRes Prod.fst (Kit.Generated.CodeC01.readHeader fuel (logRead R_Read) (logData R_Data) (logStep R_Read R_Step)
        buf0 (src, lg) pb)
      = Kit.Generated.CodeC01.readHeader fuel R_Read R_Data R_Step buf0 src pb :=
  readHeader_code_map Prod.fst (logRead R_Read) (logData R_Data) (logStep R_Read R_Step) R_Read R_Data R_Step buf0
    (fun _ _ => rfl) (fun _ _ => rfl) (fun _ _ => rfl) fuel (src, lg) pb

/-! ### the model is the code -/

/-- The error value of the translated code for each error of the model's `readHeader`: the five
`errors.New(…)` of the function itself, and the failing source's own error. -/
def encHdrErr : Enc.Err → GoSem.Err
  | .source => encRes .fail
  | _ => some "errors.New"

theorem hdrStep_other (scheme : Bytes) (nl : Nat) (cur man mc : Bytes) (b : UInt8) (h : nl < 3) (hb : b ≠ 10) :
    hdrStep scheme ⟨nl, cur, man, mc⟩ b = .ok ⟨nl, b :: cur, man, mc⟩ := by
  have : ¬ nl ≥ 3 := by omega
  simp [hdrStep, this, hb]

theorem hdrStep_many (scheme : Bytes) (nl : Nat) (cur man mc : Bytes) (b : UInt8) (h : 3 ≤ nl) :
    hdrStep scheme ⟨nl, cur, man, mc⟩ b = .ok ⟨nl, b :: cur, man, mc⟩ := by
  simp [hdrStep, h]

theorem hdrStep_empty (scheme : Bytes) (nl : Nat) (man mc : Bytes) (h : nl < 3) :
    hdrStep scheme ⟨nl, [], man, mc⟩ 10 = .error .hdrInvalidFormat := by
  have : ¬ nl ≥ 3 := by omega
  simp [hdrStep, this]

theorem hdrStep_nl0 (scheme : Bytes) (cur man mc : Bytes) (h : cur ≠ []) :
    hdrStep scheme ⟨0, cur, man, mc⟩ 10 =
      if cur.reverse = scheme then .ok ⟨1, [], man, mc⟩ else .error .hdrUnsupportedScheme := by
  simp [hdrStep, h]

theorem hdrStep_nl1 (scheme : Bytes) (cur man mc : Bytes) (h : cur ≠ []) :
    hdrStep scheme ⟨1, cur, man, mc⟩ 10 = .ok ⟨2, [], cur.reverse, mc⟩ := by
  simp [hdrStep, h]

theorem hdrStep_nl2 (scheme : Bytes) (cur man mc : Bytes) (h : cur ≠ []) :
    hdrStep scheme ⟨2, cur, man, mc⟩ 10 = .ok ⟨3, [], man, cur.reverse⟩ := by
  simp [hdrStep, h]

section scan
variable {σ : Type} (R_Read : σ → Int → Int × GoSem.Err) (R_Data : σ → Int → List UInt8)
  (R_Step : σ → Int → σ) (buf0 : List UInt8)

/-- **The byte scan is `hdrScan`.** The translated `for i = n; i < n+nn && newlines < 3; i++ { … }`
run on the bytes `B[i:hi]` (`hi = n + nn`) from a state that corresponds to the model's scan state
(`newlines`, `manifest`, `mac` equal, the model's current line = `B[lastNewline:i]`) returns from the
function exactly when `hdrScan` fails, and otherwise ends in the state `hdrScan` computes, with the
model's current line = `B[lastNewline:hi]` (the bytes after the third line feed are not scanned by
the code and are collected by the model: both end up in `B[lastNewline:n+nn]`). For an arbitrary
reader: the scan does not touch it. -/
theorem rh_loop2_sim (src : σ) (pb : List UInt8) (err : GoSem.Err) (B : List UInt8) (n nn ul : Int) (hi : Nat)
    (hw : wrapI64 (n + nn) = (hi : Int)) (hhi : hi ≤ B.length) (hmax : (B.length : Int) ≤ maxI64) :
    ∀ (k f i ln nl : Nat) (cur man mc line : List UInt8), i + k = hi → k + 1 ≤ f → ln ≤ i →
      cur.reverse = nslice B ln i →
      (∀ e, hdrScan schemeLit ⟨nl, cur, man, mc⟩ (nslice B i hi) = .error e →
        readHeader_loop2 f R_Read R_Data R_Step buf0 src pb man mc err B n nn (i : Int) ul (nl : Int) (ln : Int) line
          = .ok (.ret (([] : List UInt8), ([] : List UInt8), encHdrErr e, src, pb))) ∧
      (∀ st', hdrScan schemeLit ⟨nl, cur, man, mc⟩ (nslice B i hi) = .ok st' →
        ∃ (i' : Int) (ln' : Nat) (line' : List UInt8),
          readHeader_loop2 f R_Read R_Data R_Step buf0 src pb man mc err B n nn (i : Int) ul (nl : Int) (ln : Int) line
            = .ok (.brk (st'.manifest, st'.mac, i', (st'.newlines : Int), (ln' : Int), line')) ∧
          ln' ≤ hi ∧ st'.curRev.reverse = nslice B ln' hi) := by
  intro k
  unfold maxI64 at hmax
  induction k with
  | zero =>
    intro f i ln nl cur man mc line hik hf hln hcur
    obtain ⟨f, rfl⟩ : ∃ f', f = f' + 1 := ⟨f - 1, by omega⟩
    have hi' : i = hi := by omega
    subst hi'
    rw [nslice_self, rh_loop2_succ, hw]
    have hc : (decide ((i : Int) < (i : Int)) && decide ((nl : Int) < 3)) = false := by simp
    rw [hc]
    simp only [Bool.false_eq_true, if_false]
    refine ⟨fun e h => (by cases h), fun st' h => ?_⟩
    simp only [hdrScan, Except.ok.injEq] at h
    subst h
    exact ⟨_, ln, line, rfl, hln, hcur⟩
  | succ k ih =>
    intro f i ln nl cur man mc line hik hf hln hcur
    obtain ⟨f, rfl⟩ : ∃ f', f = f' + 1 := ⟨f - 1, by omega⟩
    rw [rh_loop2_succ, hw]
    by_cases h3 : 3 ≤ nl
    · -- three line feeds already: the code stops scanning, the model collects the rest
      have hc : (decide ((i : Int) < (hi : Int)) && decide ((nl : Int) < 3)) = false := by
        simp only [Bool.and_eq_false_iff, decide_eq_false_iff_not]; right; omega
      rw [hc]
      simp only [Bool.false_eq_true, if_false]
      rw [hdrScan_extra schemeLit _ _ h3]
      refine ⟨fun e h => (by cases h), fun st' h => ?_⟩
      simp only [Except.ok.injEq] at h
      subst h
      refine ⟨_, ln, line, rfl, by omega, ?_⟩
      simp only [List.reverse_append, List.reverse_reverse]
      rw [hcur, nslice_append B ln i hi hln (by omega) hhi]
    · have hc : (decide ((i : Int) < (hi : Int)) && decide ((nl : Int) < 3)) = true := by
        simp only [Bool.and_eq_true, decide_eq_true_eq]; omega
      have hb : decide (0 ≤ (i : Int) ∧ (i : Int) < lenI B) = true := by
        unfold lenI; simp only [decide_eq_true_eq]; omega
      have hw1 : wrapI64 ((i : Int) + 1) = ((i + 1 : Nat) : Int) := wrap_nat_succ i (by unfold maxI64; omega)
      rw [hc]
      simp only [hb, Bool.not_true, Bool.false_eq_true, if_false, if_true, hw1, idx_cast B i (by omega)]
      rw [nslice_cons B i hi (by omega) hhi, hdrScan_cons]
      by_cases hb10 : B[i] = 10
      · have hne : (B[i] != (10 : UInt8)) = false := by rw [hb10]; rfl
        rw [hne, hb10]
        simp only [Bool.false_eq_true, if_false]
        by_cases hemp : i ≤ ln
        · -- an empty line
          have hle : decide ((i : Int) ≤ (ln : Int)) = true := by simp only [decide_eq_true_eq]; omega
          have hcur0 : cur = [] := by
            have : ln = i := by omega
            rw [this, nslice_self] at hcur
            simpa using hcur
          rw [hle, hcur0, hdrStep_empty schemeLit nl man mc (by omega)]
          simp only [if_true]
          exact ⟨fun e h => (by cases h; rfl), fun st' h => (by cases h)⟩
        · have hle : decide ((i : Int) ≤ (ln : Int)) = false := by simp only [decide_eq_false_iff_not]; omega
          have hcurne : cur ≠ [] := by
            intro h
            have := congrArg List.length hcur
            rw [h, nslice_length B ln i (by omega)] at this
            simp at this
            omega
          have hb2 : decide (0 ≤ (ln : Int) ∧ (ln : Int) ≤ (i : Int) ∧ (i : Int) ≤ lenI B) = true := by
            unfold lenI; simp only [decide_eq_true_eq]; omega
          rw [hle]
          simp only [hb2, Bool.not_true, Bool.false_eq_true, if_false, slice_cast, ← hcur]
          have hnil : ([] : List UInt8).reverse = nslice B (i + 1) (i + 1) := by rw [nslice_self]; rfl
          obtain rfl | rfl | rfl : nl = 0 ∨ nl = 1 ∨ nl = 2 := by omega
          · rw [hdrStep_nl0 schemeLit cur man mc hcurne]
            have h00 : (((0 : Nat) : Int) == 0) = true := by decide
            have hw2 : wrapI64 (((0 : Nat) : Int) + 1) = ((1 : Nat) : Int) := by decide
            rw [h00]
            simp only [if_true, hw2]
            by_cases hs : cur.reverse = schemeLit
            · have : (cur.reverse != schemeLit) = false := by rw [hs]; simp
              rw [this, if_pos hs]
              simp only [Bool.false_eq_true, if_false]
              exact ih f (i + 1) (i + 1) 1 [] man mc cur.reverse (by omega) (by omega) (Nat.le_refl _) hnil
            · have : (cur.reverse != schemeLit) = true := by simpa using hs
              rw [this, if_neg hs]
              simp only [if_true]
              exact ⟨fun e h => (by cases h; rfl), fun st' h => (by cases h)⟩
          · rw [hdrStep_nl1 schemeLit cur man mc hcurne]
            have h10 : (((1 : Nat) : Int) == 0) = false := by decide
            have h11 : (((1 : Nat) : Int) == 1) = true := by decide
            have hw2 : wrapI64 (((1 : Nat) : Int) + 1) = ((2 : Nat) : Int) := by decide
            rw [h10, h11]
            simp only [Bool.false_eq_true, if_false, if_true, hw2]
            exact ih f (i + 1) (i + 1) 2 [] cur.reverse mc cur.reverse (by omega) (by omega) (Nat.le_refl _) hnil
          · rw [hdrStep_nl2 schemeLit cur man mc hcurne]
            have h20 : (((2 : Nat) : Int) == 0) = false := by decide
            have h21 : (((2 : Nat) : Int) == 1) = false := by decide
            have h22 : (((2 : Nat) : Int) == 2) = true := by decide
            have hw2 : wrapI64 (((2 : Nat) : Int) + 1) = ((3 : Nat) : Int) := by decide
            rw [h20, h21, h22]
            simp only [Bool.false_eq_true, if_false, if_true, hw2]
            exact ih f (i + 1) (i + 1) 3 [] man cur.reverse cur.reverse (by omega) (by omega) (Nat.le_refl _) hnil
      · have hne : (B[i] != (10 : UInt8)) = true := by simpa using hb10
        rw [hne, hdrStep_other schemeLit nl cur man mc B[i] (by omega) hb10]
        simp only [if_true]
        refine ih f (i + 1) ln nl (B[i] :: cur) man mc line (by omega) (by omega) (by omega) ?_
        rw [List.reverse_cons, hcur, nslice_snoc B ln i hln (by omega)]

end scan

/-- The model's read loop against the translated one: the model fails exactly when the code returns
from inside the loop (with the matching error, `nil` slices and the reader not re-wrapped), and
otherwise the loop ends with the model's reader, scan state and last read result, the model's
current line being `buf[lastNewline:n]`. -/
def L1Rel (pb : List UInt8) (len : Nat) :
    Except Enc.Err (HdrState × ReadRes × Reader) → H1Out Reader → Prop
  | .error e, .ok (.ret (m, c, e', _, p)) => m = [] ∧ c = [] ∧ e' = encHdrErr e ∧ p = pb
  | .ok (st, res, r'), .ok (.brk (src, manifest, mac, err, buf, n, _, _, _, newlines, ln, _)) =>
      src = r' ∧ manifest = st.manifest ∧ mac = st.mac ∧ err = encRes res ∧ buf.length = len ∧
      newlines = (st.newlines : Int) ∧
      ∃ (n' ln' : Nat), n = (n' : Int) ∧ ln = (ln' : Int) ∧ ln' ≤ n' ∧ n' ≤ 65536 ∧
        st.curRev.reverse = nslice buf ln' n'
  | _, _ => False

theorem encRes_ne_none (res : ReadRes) (h : res ≠ .none) : (encRes res == (none : GoSem.Err)) = false := by
  cases res with
  | none => exact absurd rfl h
  | eof => rfl
  | fail => rfl

/-- **The read loop is `hdrLoop`.** -/
theorem rh_loop1_sim (buf0 pb : List UInt8) :
    ∀ (g F : Nat) (r : Reader) (n ln nl : Nat) (cur man mc B : List UInt8) (nn i ul : Int) (line : List UInt8),
      r.measure < g → r.measure + 65538 ≤ F → ln ≤ n → n ≤ 65536 → 65536 ≤ B.length →
      (B.length : Int) ≤ maxI64 → cur.reverse = nslice B ln n →
      L1Rel pb B.length (hdrLoop schemeLit 65536 g r n ⟨nl, cur, man, mc⟩)
        (readHeader_loop1 F rRead rData rStep buf0 r pb man mc none B (n : Int) nn i ul (nl : Int) (ln : Int) line) := by
  intro g
  induction g with
  | zero => intro F r n ln nl cur man mc B nn i ul line h; omega
  | succ g ih =>
    intro F r n ln nl cur man mc B nn i ul line hg hF hln hn hB hmax hcur
    obtain ⟨F, rfl⟩ : ∃ F', F = F' + 1 := ⟨F - 1, by omega⟩
    rw [hdrLoop_succ, rh_loop1_succ]
    simp only
    by_cases h3 : nl ≥ 3
    · have hc : (decide ((nl : Int) < 3) && ((none : GoSem.Err) == none)) = false := by
        simp only [Bool.and_eq_false_iff, decide_eq_false_iff_not]; left; omega
      rw [if_pos h3, hc]
      simp only [Bool.false_eq_true, if_false]
      exact ⟨rfl, rfl, rfl, rfl, rfl, rfl, n, ln, rfl, rfl, hln, hn, hcur⟩
    · have hc : (decide ((nl : Int) < 3) && ((none : GoSem.Err) == none)) = true := by
        simp only [Bool.and_eq_true, decide_eq_true_eq]; exact ⟨by omega, rfl⟩
      rw [if_neg h3, hc]
      simp only [if_true]
      unfold hdrBody
      by_cases hfull : n = 65536
      · subst hfull
        have : (((65536 : Nat) : Int) == ulOf ((65536 : Nat) : Int)) = true := ulOf_full
        rw [this]
        simp only [if_true]
        exact ⟨rfl, rfl, rfl, rfl, rfl, rfl, 65536, ln, rfl, rfl, hln, Nat.le_refl _, hcur⟩
      · rw [if_neg hfull]
        have hm : 0 < 65536 - n := by omega
        have hb : decide (0 ≤ (n : Int) ∧ (n : Int) ≤ (65536 : Int) ∧ (65536 : Int) ≤ lenI B) = true := by
          unfold lenI; simp only [decide_eq_true_eq]; omega
        have hk1 : lenI (slice B (n : Int) 65536) = ((65536 - n : Nat) : Int) := by
          unfold lenI
          rw [slice_length _ _ _ (by omega)]; omega
        have hlen1 : ∀ d, (writeAt B (n : Int) 65536 d).length = B.length := fun d =>
          writeAt_length _ _ _ _ (by omega) (by omega)
        have hk2 : ∀ d, lenI (slice (writeAt B (n : Int) 65536 d) (n : Int) 65536) = ((65536 - n : Nat) : Int) := by
          intro d
          unfold lenI
          rw [slice_length _ _ _ (by rw [hlen1]; omega)]; omega
        simp only [ulOf_ne (n : Int) (by omega) (by omega), hb, Bool.not_true, Bool.false_eq_true, if_false, hk1, hk2,
          rRead, rData, rStep, Int.toNat_natCast]
        have h1 := read_length_le r (65536 - n)
        have hmeas := read_none_measure_lt r (65536 - n) hm
        generalize r.read (65536 - n) = y at h1 hmeas
        obtain ⟨chunk, res, r'⟩ := y
        simp only at h1 hmeas ⊢
        -- after the read: the next iteration, or the exit with the reader's terminal condition
        have tail : ∀ (st' : HdrState) (n' ln' : Nat) (B1 : List UInt8) (nn' i' ul' : Int) (line' : List UInt8),
            ln' ≤ n' → n' ≤ 65536 → B1.length = B.length → st'.curRev.reverse = nslice B1 ln' n' →
            L1Rel pb B.length (if res = .none then hdrLoop schemeLit 65536 g r' n' st' else .ok (st', res, r'))
              (readHeader_loop1 F rRead rData rStep buf0 r' pb st'.manifest st'.mac (encRes res) B1 (n' : Int) nn' i' ul'
                (st'.newlines : Int) (ln' : Int) line') := by
          intro st' n' ln' B1 nn' i' ul' line' t1 t2 t3 t4
          by_cases hres : res = .none
          · subst hres
            rw [if_pos rfl]
            obtain ⟨nl', cur', man', mc'⟩ := st'
            have := ih F r' n' ln' nl' cur' man' mc' B1 nn' i' ul' line' (by have := hmeas rfl; omega)
              (by have := hmeas rfl; omega) t1 t2 (by omega) (by omega) t4
            rw [t3] at this
            exact this
          · rw [if_neg hres]
            obtain ⟨F, rfl⟩ : ∃ F', F = F' + 1 := ⟨F - 1, by omega⟩
            rw [rh_loop1_succ, encRes_ne_none res hres]
            simp only [Bool.and_false, Bool.false_eq_true, if_false]
            exact ⟨rfl, rfl, rfl, rfl, t3, rfl, n', ln', rfl, rfl, t1, t2, t4⟩
        have hcur1 : cur.reverse = nslice (writeAt B (n : Int) 65536 chunk) ln n := by
          rw [nslice_writeAt_below _ _ _ _ _ _ (by omega) (by omega)]; exact hcur
        by_cases hch : chunk = []
        · subst hch
          have hz : decide ((([] : List UInt8).length : Int) ≤ 0) = true := by decide
          rw [hz]
          simp only [if_true, hdrScan, List.length_nil, Nat.add_zero]
          exact tail ⟨nl, cur, man, mc⟩ n ln _ _ _ _ _ hln hn (hlen1 _) hcur1
        · have hpos : 0 < chunk.length := List.length_pos_iff.mpr hch
          have hz : decide ((chunk.length : Int) ≤ 0) = false := by
            simp only [decide_eq_false_iff_not]; omega
          rw [hz]
          simp only [Bool.false_eq_true, if_false]
          have hchunk : nslice (writeAt B (n : Int) 65536 chunk) n (n + chunk.length) = chunk := by
            unfold nslice
            have := writeAt_take B chunk n 65536 (by omega) (by omega) (by omega)
            rw [this, List.drop_append_of_le_length (by simp only [List.length_take]; omega)]
            rw [List.drop_of_length_le (by simp only [List.length_take]; omega)]
            rfl
          have f1 : n + chunk.length ≤ (writeAt B (n : Int) 65536 chunk).length := by rw [hlen1]; omega
          have f2 : chunk.length + 1 ≤ F := by omega
          have f3 : n + chunk.length ≤ 65536 := by omega
          have hw : wrapI64 ((n : Int) + (chunk.length : Int)) = ((n + chunk.length : Nat) : Int) := by
            rw [wrapI64_of_in (by unfold InI64; omega)]; omega
          obtain ⟨s1, s2⟩ := rh_loop2_sim rRead rData rStep buf0 r' pb (encRes res) (writeAt B (n : Int) 65536 chunk)
            (n : Int) (chunk.length : Int) (ulOf (n : Int)) (n + chunk.length) hw f1
            (by rw [hlen1]; exact hmax) chunk.length F n ln nl cur man mc line rfl f2 hln hcur1
          rw [hchunk] at s1 s2
          cases hsc : hdrScan schemeLit ⟨nl, cur, man, mc⟩ chunk with
          | error e =>
            rw [s1 e hsc]
            simp only [bindH]
            exact ⟨rfl, rfl, rfl, rfl⟩
          | ok st' =>
            obtain ⟨i', ln', line', e1, e2, e3⟩ := s2 st' hsc
            rw [e1]
            simp only [bindH, hw]
            exact tail st' (n + chunk.length) ln' _ _ _ _ _ e2 f3 (hlen1 _) e3

/-- The model's result in the shape of the translated function's result
`(manifest, mac, err, src, pushback)`: `r'` is the final state of the source and `pb` the bytes
pushed back in front of it. -/
def hdrResult (m : Except Enc.Err (Bytes × Bytes × Reader)) (r' : Reader) (pb : Bytes) : HRet Reader :=
  match m with
  | .ok (manifest, mac, _) => (manifest, mac, none, r', pb)
  | .error e => ([], [], encHdrErr e, r', [])

/-- How the model's returned reader relates to the code's final source state `r'` and ghost
`pushback` `pb`: it is `r'` with `pb` put in front (`io.MultiReader(bytes.NewReader(pb), r')`). -/
def hdrReaderRel (m : Except Enc.Err (Bytes × Bytes × Reader)) (r' : Reader) (pb : Bytes) : Prop :=
  match m with
  | .ok (_, _, rm) => rm = { r' with pushback := pb ++ r'.pushback }
  | .error _ => True

theorem fill_exact (d : List UInt8) (k : Nat) (h : d.length = k) :
    GoSem.fill (List.replicate k (0 : UInt8)) d = d := by
  unfold GoSem.fill
  simp only [List.length_replicate]
  rw [List.take_of_length_le (by omega), List.drop_of_length_le (by simp only [List.length_replicate]; omega)]
  simp

/-- **The model is the code** (`readHeader`). For the scheme name and header limit of the source
(`P.scheme` = the bytes of "dapr.io/enc/v1", `P.hdrMax` = 65536 — true of `EncParams.generated`:
`readHeader_code_eq_model_generated`), every pooled buffer of at least 65536 bytes (content
arbitrary), every reader script `r` and every fuel `≥ r.measure + 65538`, the TRANSLATED
`readHeader`, started with an empty ghost `pushback`, terminates without panic and returns exactly
what the model `Kit.Enc.readHeader P r` returns:
* model `.ok (manifest, mac, rm)`: the code returns `(manifest, mac, nil)`, and the model's reader
  `rm` is the code's final source state `r'` with the code's ghost `pushback` in front of it;
* model `.error e`: the code returns `(nil, nil, err)` with `err` the failing source's own error for
  `e = .source` and an `errors.New(…)` otherwise, and leaves `pushback` empty. -/
theorem readHeader_code_eq_model (P : EncParams) (hs : P.scheme = schemeLit) (hm : P.hdrMax = 65536)
    (buf0 : List UInt8) (hbuf : 65536 ≤ lenI buf0) (hlen : lenI buf0 ≤ maxI64)
    (r : Reader) (fuel : Nat) (hfuel : r.measure + 65538 ≤ fuel) :
    ∃ r' pb, Kit.Generated.CodeC01.readHeader fuel rRead rData rStep buf0 r []
        = .ok (hdrResult (Kit.Enc.readHeader P r) r' pb) ∧
      hdrReaderRel (Kit.Enc.readHeader P r) r' pb := by
  unfold lenI at hbuf hlen
  have h := rh_loop1_sim buf0 [] (r.measure + 1) fuel r 0 0 0 [] [] [] buf0 0 0 0 [] (by omega) hfuel
    (Nat.le_refl _) (by omega) (by omega) hlen (by rw [nslice_self]; rfl)
  rw [readHeader_eq_finish]
  unfold Kit.Enc.readHeader readHeaderWith
  rw [hs, hm]
  have hz : ((0 : Nat) : Int) = (0 : Int) := rfl
  rw [hz] at h
  have hst : ({} : HdrState) = ⟨0, [], [], []⟩ := rfl
  rw [hst]
  generalize hdrLoop schemeLit 65536 (r.measure + 1) r 0 ⟨0, [], [], []⟩ = M at h
  generalize readHeader_loop1 fuel rRead rData rStep buf0 r [] [] [] none buf0 0 0 0 0 0 0 [] = X at h
  unfold maxI64 at hlen
  match M, X, h with
  | .error e, .ok (.ret (m, c, e', s, p)), ⟨h1, h2, h3, h4⟩ =>
    subst h1 h2 h3 h4
    exact ⟨s, [], rfl, trivial⟩
  | .ok (st, res, r'), .ok (.brk (src, manifest, mac, err, buf, n, nn, i, ul, newlines, ln, line)),
      ⟨h1, h2, h3, h4, h5, h6, n', ln', h7, h8, h9, h10, hcur⟩ =>
    subst h1 h2 h3 h4 h6 h7 h8
    unfold hdrFinish
    simp only
    by_cases c1 : st.newlines < 1
    · have : decide ((st.newlines : Int) < 1) = true := by simp only [decide_eq_true_eq]; omega
      rw [if_pos c1, this]
      exact ⟨src, [], rfl, trivial⟩
    · have : decide ((st.newlines : Int) < 1) = false := by simp only [decide_eq_false_iff_not]; omega
      rw [if_neg c1, this]
      simp only [Bool.false_eq_true, if_false]
      by_cases c2 : st.manifest.isEmpty = true
      · have : (lenI st.manifest == 0) = true := by
          rw [List.isEmpty_iff] at c2; rw [c2]; rfl
        rw [if_pos c2, this]
        exact ⟨src, [], rfl, trivial⟩
      · have : (lenI st.manifest == 0) = false := by
          rw [beq_eq_false_iff_ne]; unfold lenI
          intro h; apply c2
          rw [List.isEmpty_iff]; exact List.eq_nil_of_length_eq_zero (by omega)
        rw [if_neg c2, this]
        simp only [Bool.false_eq_true, if_false]
        by_cases c3 : st.mac.isEmpty = true
        · have : (lenI st.mac == 0) = true := by
            rw [List.isEmpty_iff] at c3; rw [c3]; rfl
          rw [if_pos c3, this]
          exact ⟨src, [], rfl, trivial⟩
        · have : (lenI st.mac == 0) = false := by
            rw [beq_eq_false_iff_ne]; unfold lenI
            intro h; apply c3
            rw [List.isEmpty_iff]; exact List.eq_nil_of_length_eq_zero (by omega)
          rw [if_neg c3, this]
          simp only [Bool.false_eq_true, if_false]
          by_cases c4 : res = .fail
          · subst c4
            have : ((encRes .fail != (none : GoSem.Err)) && !(encRes .fail == (some "io.EOF" : GoSem.Err))) = true := by
              decide
            rw [this]
            simp only [Bool.true_and, decide_true, if_true]
            exact ⟨src, [], rfl, trivial⟩
          · have : ((encRes res != (none : GoSem.Err)) && !(encRes res == (some "io.EOF" : GoSem.Err))) = false := by
              cases res
              · decide
              · decide
              · exact absurd rfl c4
            have c4' : (true && decide (res = .fail)) = false := by simp [c4]
            rw [this, c4']
            simp only [Bool.false_eq_true, if_false]
            by_cases c5 : ln' < n'
            · have hgt : decide ((n' : Int) > (ln' : Int)) = true := by simp only [decide_eq_true_eq]; omega
              have hw : wrapI64 ((n' : Int) - (ln' : Int)) = ((n' - ln' : Nat) : Int) := by
                rw [wrapI64_of_in (by unfold InI64; omega)]; omega
              have hb1 : decide (0 ≤ ((n' - ln' : Nat) : Int)) = true := by simp only [decide_eq_true_eq]; omega
              have hb2 : decide (0 ≤ (ln' : Int) ∧ (ln' : Int) ≤ (n' : Int) ∧ (n' : Int) ≤ lenI buf) = true := by
                unfold lenI; simp only [decide_eq_true_eq]; omega
              rw [hgt]
              simp only [if_true, hw, hb1, hb2, Bool.not_true, Bool.false_eq_true, if_false, Int.toNat_natCast, slice_cast]
              rw [fill_exact _ _ (nslice_length buf ln' n' (by omega)), ← hcur]
              exact ⟨src, st.curRev.reverse, rfl, rfl⟩
            · have hgt : decide ((n' : Int) > (ln' : Int)) = false := by simp only [decide_eq_false_iff_not]; omega
              rw [hgt]
              simp only [Bool.false_eq_true, if_false]
              have : ln' = n' := by omega
              rw [this, nslice_self] at hcur
              refine ⟨src, [], rfl, ?_⟩
              simp only [hdrReaderRel, hcur]

/-- The generated parameters (re-extracted from the Go source on every run) are an instance. -/
theorem readHeader_code_eq_model_generated (buf0 : List UInt8) (hbuf : 65536 ≤ lenI buf0) (hlen : lenI buf0 ≤ maxI64)
    (r : Reader) (fuel : Nat) (hfuel : r.measure + 65538 ≤ fuel) :
    ∃ r' pb, Kit.Generated.CodeC01.readHeader fuel rRead rData rStep buf0 r []
        = .ok (hdrResult (Kit.Enc.readHeader EncParams.generated r) r' pb) ∧
      hdrReaderRel (Kit.Enc.readHeader EncParams.generated r) r' pb :=
  readHeader_code_eq_model EncParams.generated rfl rfl buf0 hbuf hlen r fuel hfuel

/-- **Transfer of `C01.readHeader_spec` to the translated code**: for any stream that starts with a
well-formed header (scheme line, non-empty manifest and MAC lines without line feeds) of at most
65536 bytes and any script of a non-failing source, the TRANSLATED `readHeader` returns the manifest
and MAC lines with a nil error, and the pushed-back bytes followed by what the source still holds
are exactly the rest of the stream. -/
theorem readHeader_code_spec (P : EncParams) (hs : P.scheme = schemeLit) (hm : P.hdrMax = 65536)
    (buf0 : List UInt8) (hbuf : 65536 ≤ lenI buf0) (hlen : lenI buf0 ≤ maxI64)
    (ml cl rest : Bytes) (wf : HdrWF P.scheme ml cl) (hmax : (hdrBytes P.scheme ml cl).length ≤ 65536)
    (r : Reader) (heof : r.term = .eof) (hstream : r.stream = hdrBytes P.scheme ml cl ++ rest)
    (fuel : Nat) (hfuel : r.measure + 65538 ≤ fuel) :
    ∃ r' pb, Kit.Generated.CodeC01.readHeader fuel rRead rData rStep buf0 r [] = .ok (ml, cl, none, r', pb) ∧
      pb ++ r'.stream = rest ∧ r'.term = .eof := by
  obtain ⟨rm, e1, e2, e3⟩ := C01.readHeader_spec P ml cl rest wf (by rw [hm]; exact hmax) r heof hstream
  obtain ⟨r', pb, c1, c2⟩ := readHeader_code_eq_model P hs hm buf0 hbuf hlen r fuel hfuel
  rw [e1] at c1 c2
  simp only [hdrReaderRel] at c2
  subst c2
  refine ⟨r', pb, c1, ?_, e3⟩
  simpa [Reader.stream, List.append_assoc] using e2

/-- Every completed run of the translated `readHeader` on a reader within the contract is the
projection of a logged run (`readHeader_code_log_erase`), whose log satisfies the header limit. -/
theorem readHeader_code_header_limit_run {σ : Type} (R_Read : σ → Int → Int × GoSem.Err)
    (R_Data : σ → Int → List UInt8) (R_Step : σ → Int → σ) (buf0 : List UInt8) (hR : ReaderContract R_Read)
    (hbuf : 65536 ≤ lenI buf0) (hlen : lenI buf0 ≤ maxI64) (fuel : Nat) (src : σ) (pb : List UInt8)
    (m c : List UInt8) (e : GoSem.Err) (src' : σ) (pb' : List UInt8)
    (h : Kit.Generated.CodeC01.readHeader fuel R_Read R_Data R_Step buf0 src pb = .ok (m, c, e, src', pb')) :
    ∃ lg, Kit.Generated.CodeC01.readHeader fuel (logRead R_Read) (logData R_Data) (logStep R_Read R_Step) buf0
        (src, []) pb = .ok (m, c, e, (src', lg), pb') ∧
      WindowsFrom 0 lg ∧ 0 ≤ readTotal lg ∧ readTotal lg ≤ 65536 := by
  have he := readHeader_code_log_erase R_Read R_Data R_Step buf0 fuel src [] pb
  rw [h] at he
  cases hx : Kit.Generated.CodeC01.readHeader fuel (logRead R_Read) (logData R_Data) (logStep R_Read R_Step) buf0
      (src, []) pb with
  | panic msg => rw [hx] at he; cases he
  | nofuel => rw [hx] at he; cases he
  | ok v =>
    obtain ⟨m', c', e', ⟨s', lg⟩, p'⟩ := v
    rw [hx] at he
    simp only [mapRes, mapRet, Res.ok.injEq, Prod.mk.injEq] at he
    obtain ⟨rfl, rfl, rfl, rfl, rfl⟩ := he
    obtain ⟨l1, l2, l3, _⟩ := readHeader_code_header_limit R_Read R_Data R_Step buf0 hR hbuf hlen fuel src pb
      m' c' e' s' lg p' hx
    exact ⟨lg, rfl, l1, l2, l3⟩

/-! ### counter-witnesses and non-vacuity -/

-- deciding equality of the nested result tuples needs a deeper instance search than the default
set_option synthInstance.maxSize 2048

/-- Counter-witness: a buffer shorter than `SegmentSize` panics at the first slice expression (in
Go: only when `cap` is also too small — `Sem.lean` takes capacity = length). -/
theorem readHeader_code_panics_short_buffer :
    Kit.Generated.CodeC01.readHeader (σ := Unit) 5 (fun _ k => (k, none)) (fun _ _ => []) (fun s _ => s)
      [0, 0] () [] = .panic "slice bounds out of range: (*buf)[n:SegmentSize]" := by decide +kernel

/-- Counter-witness: a reader that reports more bytes than the window holds (contract violation;
here 7 more, after a complete header) makes `(*buf)[lastNewline:n]` panic. -/
theorem readHeader_code_panics_overlong_read :
    Kit.Generated.CodeC01.readHeader (σ := Unit) 100 (fun _ k => (k + 7, none))
      (fun _ _ => schemeLit ++ [10, 65, 10, 66, 10]) (fun s _ => s) (List.replicate 65536 0) () []
      = .panic "slice bounds out of range: (*buf)[(lastNewline):n]" := by decide +kernel

/-- A reader that reports `-1` (contract violation in the other direction) does not panic: it spins. -/
example (fuel : Nat) :
    Kit.Generated.CodeC01.readHeader (σ := Unit) fuel (fun _ _ => (-1, none)) (fun _ _ => []) (fun s _ => s)
      (List.replicate 65536 0) () [] = .nofuel :=
  readHeader_code_can_spin_gen _ _ _ _ (fun _ _ => ⟨by decide, rfl⟩) (by decide +kernel) fuel () []

/-- What a completed run returns, without the final reader state (`Reader` has no decidable
equality). -/
def hdrOutcome {σ : Type} : Res (HRet σ) → Option (List UInt8 × List UInt8 × GoSem.Err × List UInt8)
  | .ok (m, c, e, _, p) => some (m, c, e, p)
  | _ => none

/-- A 65536-byte buffer, as the pool hands out (content irrelevant). -/
theorem pool_buffer : 65536 ≤ lenI (List.replicate 65536 (0 : UInt8)) ∧ lenI (List.replicate 65536 (0 : UInt8)) ≤ maxI64 := by
  unfold lenI maxI64
  rw [List.length_replicate]
  omega

/-- The translated function, evaluated: scheme line, manifest `{}`, MAC `AB`, three payload bytes,
delivered in reads of 5, 0, 7 and the rest: the two lines, a nil error, and the three payload bytes
pushed back. -/
example :
    hdrOutcome (Kit.Generated.CodeC01.readHeader 100 rRead rData rStep (List.replicate 65536 0)
      (⟨[], schemeLit ++ [10, 123, 125, 10, 65, 66, 10, 1, 2, 3], [5, 0, 7], false, .eof⟩ : Reader) [])
      = some ([123, 125], [65, 66], none, [1, 2, 3]) := by decide +kernel

/-- The same instance through the main theorem and `C01.readHeader_spec` (hypotheses satisfiable). -/
example : ∃ r' pb,
    Kit.Generated.CodeC01.readHeader 65565 rRead rData rStep (List.replicate 65536 0)
      (⟨[], schemeLit ++ [10, 123, 125, 10, 65, 66, 10, 1, 2, 3], [5, 0, 7], false, .eof⟩ : Reader) []
      = .ok ([123, 125], [65, 66], none, r', pb) ∧ pb ++ r'.stream = [1, 2, 3] ∧ r'.term = .eof :=
  readHeader_code_spec EncParams.generated rfl rfl _ pool_buffer.1 pool_buffer.2 [123, 125] [65, 66] [1, 2, 3]
    ⟨by decide, by decide, by decide, by decide, by decide, by decide⟩ (by decide) _ rfl (by decide) 65565 (by decide)

/-- An unsupported scheme name, through the main theorem: `(nil, nil, errors.New(…))`, nothing
pushed back. -/
example : ∃ r',
    Kit.Generated.CodeC01.readHeader 65565 rRead rData rStep (List.replicate 65536 0)
      (⟨[], [100, 10, 123, 125, 10, 65, 66, 10], [], false, .eof⟩ : Reader) []
      = .ok ([], [], some "errors.New", r', []) := by
  obtain ⟨r', pb, h, _⟩ := readHeader_code_eq_model_generated _ pool_buffer.1 pool_buffer.2
    (⟨[], [100, 10, 123, 125, 10, 65, 66, 10], [], false, .eof⟩ : Reader) 65565 (by decide)
  have hm : Kit.Enc.readHeader EncParams.generated (⟨[], [100, 10, 123, 125, 10, 65, 66, 10], [], false, .eof⟩ : Reader)
      = .error .hdrUnsupportedScheme := by rfl
  rw [hm] at h
  exact ⟨r', h⟩

/-- A source that fails together with the last header byte, through the main theorem: the header
is complete, and still the source's own error is returned. -/
example : ∃ r',
    Kit.Generated.CodeC01.readHeader 65565 rRead rData rStep (List.replicate 65536 0)
      (⟨[], schemeLit ++ [10, 123, 125, 10, 65, 66, 10], [], true, .failOnce⟩ : Reader) []
      = .ok ([], [], some "src:fail", r', []) := by
  obtain ⟨r', pb, h, _⟩ := readHeader_code_eq_model_generated _ pool_buffer.1 pool_buffer.2
    (⟨[], schemeLit ++ [10, 123, 125, 10, 65, 66, 10], [], true, .failOnce⟩ : Reader) 65565 (by decide)
  have hm : Kit.Enc.readHeader EncParams.generated
      (⟨[], schemeLit ++ [10, 123, 125, 10, 65, 66, 10], [], true, .failOnce⟩ : Reader) = .error .source := by
    rfl
  rw [hm] at h
  exact ⟨r', h⟩

/-- Non-vacuity of the header-limit theorem: the completed run above has a log. -/
example : ∃ r' pb lg,
    Kit.Generated.CodeC01.readHeader 65565 (logRead rRead) (logData rData) (logStep rRead rStep) (List.replicate 65536 0)
      ((⟨[], schemeLit ++ [10, 123, 125, 10, 65, 66, 10, 1, 2, 3], [5, 0, 7], false, .eof⟩ : Reader), []) []
      = .ok ([123, 125], [65, 66], none, (r', lg), pb) ∧ WindowsFrom 0 lg ∧ readTotal lg ≤ 65536 := by
  obtain ⟨r', pb, h, _⟩ := readHeader_code_spec EncParams.generated rfl rfl _ pool_buffer.1 pool_buffer.2 [123, 125] [65, 66]
    [1, 2, 3] ⟨by decide, by decide, by decide, by decide, by decide, by decide⟩ (by decide)
    (⟨[], schemeLit ++ [10, 123, 125, 10, 65, 66, 10, 1, 2, 3], [5, 0, 7], false, .eof⟩ : Reader) rfl (by decide) 65565
    (by decide)
  obtain ⟨lg, h1, h2, _, h3⟩ := readHeader_code_header_limit_run rRead rData rStep _ readerContract_rRead
    pool_buffer.1 pool_buffer.2 65565 _ [] _ _ _ _ _ h
  exact ⟨r', pb, lg, h1, h2, h3⟩

end Kit.Enc.Code
