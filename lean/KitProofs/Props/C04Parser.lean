import KitProofs.Lemmas.CronParser
/-!
# C04 (parser half): the bit sets `Parser.Parse` builds are the documented meaning of the
expression; everything else is refused with an error; no input panics.

Model: `KitModel/CronParser.lean` (implementation-shaped, over the generated tables
`KitModel/Generated/C04Parser.lean`). Declarative meaning: `KitProofs/Lemmas/CronParserSpec.lean`.
All statements are for arbitrary strings / option sets / `Env` (answers of `time.LoadLocation` and
`time.ParseDuration`), and — where a field's bounds occur — for arbitrary bounds with `max ≤ 62`
(then instantiated to the six generated bounds).
-/
namespace Kit.Cron
open Kit Kit.Cron.Spec

/-! ## 1. getBits -/

/-- The operands of `getRange` are read by the helpers the model assumes: both bounds may be names
(`parseIntOrName`), the step is digits only (`mustParseInt`). Regenerated from the source on every
run; the model's `getRangeG` parses the step with `mustParseInt`. -/
theorem getRange_operand_parsers :
    Gen.getRangeOperandParsers =
      [("parseIntOrName", "lowAndHigh[0]"), ("parseIntOrName", "lowAndHigh[1]"),
       ("mustParseInt", "rangeAndStep[1]")] := by decide

/-- `getBits(min, max, step)` sets exactly the bits `min, min+step, … ≤ max` — for the shift form
(`step = 1`) and the loop form alike; in particular nothing at or above bit `max+1` (no collision
with the star bit when `max ≤ 62`). -/
theorem getBits_spec (mn mx step i : Nat) (_hmm : mn ≤ mx) (_hmx : mx ≤ 63) (hs : 1 ≤ step)
    (hi : i < 64) :
    (getBits mn mx step).getLsbD i = true ↔ (mn ≤ i ∧ i ≤ mx ∧ step ∣ (i - mn)) := by
  rw [getBits_getLsbD mn mx step i hs hi]; simp

example : (getBits 3 59 15).getLsbD 33 = true := by decide
example : (getBits 3 59 15).getLsbD 34 = false := by decide

/-- The Go loop `i += step` on `uint` cannot wrap: while the loop runs `i ≤ max ≤ 63`, and a
step that came out of `strconv.Atoi` is below `2^63`. So the model's `Nat` addition is Go's. -/
theorem getBits_no_wrap (mx step i : Nat) (hmx : mx ≤ 63) (hstep : step < 2 ^ 63) (hi : i ≤ mx) :
    i + step < 2 ^ 64 := by omega

/-- The loop runs out of work before it runs out of fuel: the model's bounded loop is the Go loop. -/
theorem getBits_loop_terminates (mx step : Nat) (hs : 1 ≤ step) (i : Nat) (bits : BitVec 64)
    (extra : Nat) :
    getBitsLoop mx step (mx + 1 - i + extra) i bits = getBitsLoop mx step (mx + 1 - i) i bits := by
  apply BitVec.eq_of_getLsbD_eq
  intro j hj
  rw [loop_spec mx step hs _ i bits j hj (by omega), loop_spec mx step hs _ i bits j hj (by omega)]

/-! ## 2. A field denotes what doc.go says -/

/-- **Accepted ⇒ documented meaning.** If `getField` accepts the text of a field with bounds `b`
(`b.max ≤ 62`), the text is a comma list of concrete syntaxes of well-formed terms `ts`, bit
`v < 63` is set iff some term denotes `v`, and the star bit (63) is set iff some term is `*`/`?`
without a step > 1. -/
theorem getField_denotes (b : Bounds) (hb : b.max ≤ 62) (s : List Char) (bits : BitVec 64)
    (h : getField b s = .ok bits) :
    ∃ ts, FieldSyn b s ts ∧ FieldMeaning b bits ts := by
  obtain ⟨ts, hsyn, hwf, hbits0⟩ := getFieldLoop_ok b _ 0 bits h
  have hbits : ∀ v, bits.getLsbD v = ts.any (fun t => (termBits b t).getLsbD v) := by
    intro v; rw [hbits0 v]; simp
  refine ⟨ts, hsyn, ⟨hwf, ?_, ?_⟩⟩
  · intro v hv
    rw [hbits v]
    simp only [List.any_eq_true, denotes]
    constructor
    · rintro ⟨t, ht, hbt⟩
      rcases (termBits_getLsbD b t hb (hwf t ht) v (by omega)).1 hbt with ⟨_, hd⟩ | ⟨h63, _⟩
      · exact ⟨t, ht, hd⟩
      · omega
    · rintro ⟨t, ht, hd⟩
      exact ⟨t, ht, (termBits_getLsbD b t hb (hwf t ht) v (by omega)).2 (Or.inl ⟨hv, hd⟩)⟩
  · rw [hbits 63]
    simp only [List.any_eq_true]
    constructor
    · rintro ⟨t, ht, hbt⟩
      rcases (termBits_getLsbD b t hb (hwf t ht) 63 (by omega)).1 hbt with ⟨h63, _⟩ | ⟨_, hst⟩
      · omega
      · exact ⟨t, ht, hst⟩
    · rintro ⟨t, ht, hst⟩
      exact ⟨t, ht, (termBits_getLsbD b t hb (hwf t ht) 63 (by omega)).2 (Or.inr ⟨rfl, hst⟩)⟩

/-- **Documented form ⇒ accepted** (with the meaning above): every comma list of syntaxes of
well-formed terms is accepted. -/
theorem getField_accepts (b : Bounds) (s : List Char) (ts : List Term)
    (hsyn : FieldSyn b s ts) (hwf : ∀ t ∈ ts, t.WF b) :
    ∃ bits, getField b s = .ok bits :=
  getFieldLoop_of_syn b _ ts 0 hsyn hwf

/-- The six generated bounds satisfy the side condition of `getField_denotes`. -/
theorem bounds_below_star :
    seconds.max ≤ 62 ∧ minutes.max ≤ 62 ∧ hours.max ≤ 62 ∧ dom.max ≤ 62 ∧ months.max ≤ 62 ∧
      dow.max ≤ 62 := by decide

/-- The generated bounds and names are the ones doc.go documents ("CRON Expression Format":
minutes 0-59, hours 0-23, day of month 1-31, month 1-12 or JAN-DEC, day of week 0-6 or SUN-SAT;
seconds 0-59 for the optional first field). -/
theorem bounds_documented :
    seconds = ⟨0, 59, []⟩ ∧ minutes = ⟨0, 59, []⟩ ∧ hours = ⟨0, 23, []⟩ ∧ dom = ⟨1, 31, []⟩ ∧
    months = ⟨1, 12, [("jan".toList, 1), ("feb".toList, 2), ("mar".toList, 3), ("apr".toList, 4),
      ("may".toList, 5), ("jun".toList, 6), ("jul".toList, 7), ("aug".toList, 8), ("sep".toList, 9),
      ("oct".toList, 10), ("nov".toList, 11), ("dec".toList, 12)]⟩ ∧
    dow = ⟨0, 6, [("sun".toList, 0), ("mon".toList, 1), ("tue".toList, 2), ("wed".toList, 3),
      ("thu".toList, 4), ("fri".toList, 5), ("sat".toList, 6)]⟩ ∧
    starBit = (1 : BitVec 64) <<< Gen.starBitShift ∧ Gen.starBitShift = 63 := by decide

/-- Names are matched case-insensitively (doc.go: "SUN", "Sun", and "sun" are equally accepted). -/
theorem names_case_insensitive (b : Bounds) (a a' : List Char) (n : Nat)
    (h : toLower a = toLower a') (hn : nameLookup b.names (toLower a) = some n) :
    Atom b a n ∧ Atom b a' n := ⟨Or.inl hn, Or.inl (h ▸ hn)⟩

example : toLower "SUN".toList = toLower "sun".toList ∧ toLower "Sun".toList = "sun".toList := by
  decide

-- non-vacuity: a list with a range, a step and a name
example : getField months "jan-MAR/2,Dec,5".toList = .ok 0x102a := by decide
example : getField dow "*/2,?".toList = .ok 0x800000000000007f := by decide

/-! ## 3. Refusals -/

/-- A term whose syntax is fine but which is out of range, inverted, or has a zero step is refused
— with the error kind the Go code reports. -/
theorem getRange_refuses_ill_formed (b : Bounds) (e : List Char) (t : Term)
    (hs : TermSyn b e t) (hbad : ¬ t.WF b) : getRange b e = .err (refusal b t) := by
  rw [getRange_of_syn b e t hs, if_neg hbad]

/-- Text that is not the syntax of any term (non-numeric value, unknown name, too many `-` or `/`,
wildcard used as a range bound, empty value, sign in the wrong place, …) is refused. -/
theorem getRange_refuses_non_syntax (b : Bounds) (e : List Char) (h : ¬ ∃ t, TermSyn b e t) :
    ∃ k, getRange b e = .err k := by
  cases hr : getRange b e with
  | err k => exact ⟨k, rfl⟩
  | panic w => exact absurd hr (getRange_not_panic b e w)
  | ok bits =>
    obtain ⟨t, ht, _, _⟩ := getRange_ok b e bits hr
    exact absurd ⟨t, ht⟩ h

/-- `getRange` accepts exactly the syntaxes of well-formed terms. -/
theorem getRange_accepts_iff (b : Bounds) (e : List Char) :
    (∃ bits, getRange b e = .ok bits) ↔ ∃ t, TermSyn b e t ∧ t.WF b := by
  constructor
  · rintro ⟨bits, h⟩
    obtain ⟨t, ht, hwf, _⟩ := getRange_ok b e bits h
    exact ⟨t, ht, hwf⟩
  · rintro ⟨t, ht, hwf⟩
    exact ⟨_, by rw [getRange_of_syn b e t ht, if_pos hwf]⟩

/-- One refused item makes the whole field an error, wherever it stands in the list. -/
theorem getField_refuses (b : Bounds) (s : List Char) (e : List Char)
    (he : e ∈ fieldsFunc (· == ',') s) (hbad : ¬ ∃ t, TermSyn b e t ∧ t.WF b) :
    ∃ k, getField b s = .err k := by
  apply getFieldLoop_err_of_item b _ 0 e he
  cases hr : getRange b e with
  | err k => exact ⟨k, rfl⟩
  | panic w => exact absurd hr (getRange_not_panic b e w)
  | ok bits => exact absurd ((getRange_accepts_iff b e).1 ⟨bits, hr⟩) hbad

/-- Too many `/`: refused. -/
theorem getRange_refuses_two_slashes (b : Bounds) (e : List Char) (h : 2 ≤ e.count '/') :
    ∃ k, getRange b e = .err k := by
  apply getRange_refuses_non_syntax
  rintro ⟨t, ht⟩
  have := termSyn_slash_count b e t ht
  omega

/-- Too many `-` (in a term without step): refused. -/
theorem getRange_refuses_two_hyphens (b : Bounds) (e : List Char) (hs : '/' ∉ e)
    (h : 2 ≤ e.count '-') : ∃ k, getRange b e = .err k := by
  apply getRange_refuses_non_syntax
  rintro ⟨t, baseS, stepS, he, _, hbase, _⟩
  cases stepS with
  | some st => subst he; simp [stepSuffix] at hs
  | none =>
    simp [stepSuffix] at he
    subst he
    have := baseSyn_hyphen_count b e t.base hbase
    omega

/-- A single value that is neither a name of the field nor a numeral (non-numeric text, unknown
name): refused. -/
theorem getRange_refuses_non_value (b : Bounds) (e : List Char) (hs : '/' ∉ e) (hh : '-' ∉ e)
    (hw : isWild e = false) (hname : nameLookup b.names (toLower e) = none)
    (hnum : ¬ ∃ n, Numeral e n) : ∃ k, getRange b e = .err k := by
  apply getRange_refuses_non_syntax
  rintro ⟨t, baseS, stepS, he, _, hbase, _⟩
  cases stepS with
  | some st => subst he; simp [stepSuffix] at hs
  | none =>
    simp [stepSuffix] at he
    subst he
    cases hb : t.base with
    | star =>
      rw [hb] at hbase
      have := (isWild_iff e).2 hbase
      rw [hw] at this; cases this
    | single n =>
      rw [hb] at hbase
      rcases hbase.2.2 with h1 | ⟨_, h2⟩
      · rw [hname] at h1; cases h1
      · exact hnum ⟨n, h2⟩
    | range lo hi =>
      rw [hb] at hbase
      obtain ⟨a, c, hs', _⟩ := hbase
      subst hs'
      simp at hh

-- the classes named by the property statement, on concrete inputs (the general statements are
-- the three theorems above)
example : getField minutes "60".toList = .err "above-max" := by decide
example : getField dom "0".toList = .err "below-min" := by decide
example : getField hours "x".toList = .err "atoi" := by decide
example : getField hours "9-5".toList = .err "inverted" := by decide
example : getField minutes "*/0".toList = .err "zero-step" := by decide
example : getField months "janx".toList = .err "atoi" := by decide
example : getField minutes "1-2-3".toList = .err "hyphens" := by decide
example : getField minutes "1/2/3".toList = .err "slashes" := by decide
example : getField minutes "5,*-7".toList = .err "wildcard-bound" := by decide

/-- Witness of the repaired defect: without the wildcard guard (the code before the `fix:`
commit) `*-foo` was accepted with the meaning of `*`. -/
theorem wildcard_bound_prefix_witness :
    getRangeG false minutes "*-foo".toList = getRangeG false minutes "*".toList ∧
    (getRangeG false minutes "*-foo".toList).isOk = true ∧
    getRange minutes "*-foo".toList = .err "wildcard-bound" := by decide

/-! ## 4. normalizeFields -/

/-- For every option set `NewParser` accepts and every list of fields:
* exactly `maxFields` fields (= number of enabled places, an optional one counted) are expanded
  to six slots — enabled places get the supplied fields in order, the others their defaults
  (`0 0 0 * * *`);
* with an optional field configured, one field fewer is accepted too: `*` is appended for
  `DowOptional`, `0` is prepended for `SecondOptional`;
* every other count is refused. -/
theorem normalize_spec (o : Opts) (h2 : o.twoOptionals = false) (fs : List (List Char)) :
    (fs.length = o.maxFields →
      ∃ r, normalizeFields fs o = .ok r ∧ Expanded o.merged places Gen.defaults fs r) ∧
    (o.hasOptional = true → fs.length + 1 = o.maxFields →
      ∃ r, normalizeFields fs o = .ok r ∧
        Expanded o.merged places Gen.defaults
          (if o.dowOptional then fs ++ [['*']] else ['0'] :: fs) r) ∧
    (fs.length ≠ o.maxFields → ¬ (o.hasOptional = true ∧ fs.length + 1 = o.maxFields) →
      normalizeFields fs o = .err "field-count") := by
  rw [normalizeFields_eq o h2 fs]
  refine ⟨?_, ?_, ?_⟩
  · intro h
    rw [if_pos h]
    exact expandLoop_spec o.merged places Gen.defaults fs defaults_len h
  · intro hopt h
    have hne : fs.length ≠ o.maxFields := by omega
    rw [if_neg hne, if_pos ⟨hopt, h⟩]
    apply expandLoop_spec o.merged places Gen.defaults _ defaults_len
    unfold Opts.maxFields at h
    split <;> simp <;> omega
  · intro h h'
    rw [if_neg h, if_neg h']

/-- The tables the statement above refers to (re-checked when the generated facts change). -/
theorem normalize_tables :
    places = [.second, .minute, .hour, .dom, .month, .dow] ∧
    Gen.defaults = [['0'], ['0'], ['0'], ['*'], ['*'], ['*']] := by decide

example : normalizeFields ["5".toList, "4".toList, "*".toList, "*".toList, "*".toList] standardOpts
    = .ok ["0".toList, "5".toList, "4".toList, "*".toList, "*".toList, "*".toList] := by decide

/-! ## 5. Descriptors and @every -/

set_option maxHeartbeats 1000000 in
/-- doc.go "Predefined schedules": each descriptor parses (standard parser, any environment) to
exactly what its documented equivalent expression parses to. -/
theorem descriptor_table (env : Env) :
    parseStandard env "@yearly".toList = parseStandard env "0 0 1 1 *".toList ∧
    parseStandard env "@annually".toList = parseStandard env "0 0 1 1 *".toList ∧
    parseStandard env "@monthly".toList = parseStandard env "0 0 1 * *".toList ∧
    parseStandard env "@weekly".toList = parseStandard env "0 0 * * 0".toList ∧
    parseStandard env "@daily".toList = parseStandard env "0 0 * * *".toList ∧
    parseStandard env "@midnight".toList = parseStandard env "0 0 * * *".toList ∧
    parseStandard env "@hourly".toList = parseStandard env "0 * * * *".toList ∧
    (parseStandard env "@hourly".toList).isOk = true := by
  refine ⟨?_, ?_, ?_, ?_, ?_, ?_, ?_, ?_⟩ <;> rfl

/-- A descriptor that is neither in the table nor starts with `@every ` is refused. -/
theorem descriptor_unknown_refused (env : Env) (d : List Char) (loc : Option String)
    (h1 : Gen.descriptors.all (fun e => !e.1.contains d) = true)
    (h2 : hasPrefix Gen.everyPrefix d = false) :
    parseDescriptor env d loc = .err "unrecognized-descriptor" := by
  unfold parseDescriptor
  have : Gen.descriptors.find? (fun e => e.1.contains d) = none := by
    rw [List.find?_eq_none]
    intro x hx
    have := List.all_eq_true.1 h1 x hx
    simpa using this
  rw [this]
  simp [h2]

example (env : Env) : parseStandard env "@reboot".toList = .err "unrecognized-descriptor" := rfl

/-- Descriptors are refused by a parser built without the `Descriptor` option — whatever follows
the `@`, with or without a time-zone prefix. -/
theorem descriptor_disabled_refused (env : Env) (o : Opts) (hd : o.descriptor = false)
    (spec : List Char) (loc : Option String) (rest : List Char)
    (hne : spec ≠ []) (htz : tzPrefix true env spec = .ok (loc, rest))
    (hat : hasPrefix ['@'] rest = true) : parse env o spec = .err "no-descriptors" := by
  unfold parse parseG
  rw [tzGuard_on, htz]
  cases spec with
  | nil => exact absurd rfl hne
  | cons c cs => simp [hat, hd]

/-- `Every(d)`: the delay is `max(d, 1 s)` truncated to whole seconds — a multiple of one second,
at least one second, at most `max(d, 1 s)` and less than a second below it. -/
theorem every_spec (d : Int) :
    let m := max d 1000000000
    (∃ k : Int, everyDelay d = k * 1000000000) ∧ 1000000000 ≤ everyDelay d ∧
      everyDelay d ≤ m ∧ m < everyDelay d + 1000000000 := by
  simp only [everyDelay, Gen.everyMinNs, Gen.everyUnitNs]
  refine ⟨⟨(max d 1000000000) / 1000000000, ?_⟩, ?_, ?_, ?_⟩ <;>
    by_cases h : d < 1000000000 <;> simp only [h, if_true, if_false] <;> omega

/-- `@every <duration>`: error iff `time.ParseDuration` fails, else the delay above. -/
theorem every_parse (env : Env) (text : List Char) (loc : Option String) :
    parseDescriptor env (Gen.everyPrefix ++ text) loc =
      match env.parseDuration text with
      | none => .err "duration"
      | some d => .ok (.every (everyDelay d)) := by
  unfold parseDescriptor
  have h1 : Gen.descriptors.find? (fun e => e.1.contains (Gen.everyPrefix ++ text)) = none := by
    rw [List.find?_eq_none]
    intro x hx
    simp [Gen.descriptors] at hx
    rcases hx with h | h | h | h | h <;> subst h <;> simp [Gen.everyPrefix]
  rw [h1]
  simp [hasPrefix]
  cases env.parseDuration text <;> rfl

example : everyDelay 1500000000 = 1000000000 := by decide
example : everyDelay (-5) = 1000000000 := by decide
example : everyDelay 5400999999999 = 5400000000000 := by decide

/-! ## 6. Parse as a whole -/

/-- **No input panics**: for every environment, every option set `NewParser` accepts and every
string, `Parse` returns a schedule or an error. -/
theorem parse_never_panics (env : Env) (o : Opts) (h2 : o.twoOptionals = false)
    (spec : List Char) : (parse env o spec).isPanic = false := by
  cases h : parse env o spec with
  | panic w => exact absurd h (parse_not_panic env o h2 spec w)
  | ok _ => rfl
  | err _ => rfl

/-- Witness of the repaired defect (also C07): before the `fix:` commit a `TZ=` prefix without a
following space made `Parse` panic (`spec[eq+1:-1]`); now it is an error. -/
theorem tz_prefix_prefix_witness (env : Env) :
    (parseG false env standardOpts "TZ=UTC".toList).isPanic = true ∧
    parseStandard env "TZ=UTC".toList = .err "tz-no-spec" :=
  ⟨rfl, rfl⟩

/-- An unknown time zone is refused. -/
theorem parse_refuses_unknown_zone (env : Env) (o : Opts) (spec : List Char) (i : Nat)
    (hp : Gen.tzPrefixes.any (hasPrefix · spec) = true) (hi : indexOf ' ' spec = some i)
    (hz : env.knownZone ((spec.take i).drop (afterEq spec)) = false) :
    parse env o spec = .err "bad-location" := by
  have hne : spec.isEmpty = false := by
    cases spec with
    | nil => simp [indexOf] at hi
    | cons c cs => rfl
  unfold parse parseG
  rw [tzGuard_on]
  simp only [hne, Bool.false_eq_true, if_false]
  have : tzPrefix true env spec = .err "bad-location" := by
    rw [tzPrefix_eq, if_pos hp, hi]
    simp [hz]
  rw [this]

/-- A wrong number of fields is refused (for a spec without time zone that is not a descriptor). -/
theorem parse_refuses_wrong_field_count (env : Env) (o : Opts) (h2 : o.twoOptionals = false)
    (spec : List Char) (hne : spec ≠ [])
    (hp : Gen.tzPrefixes.any (hasPrefix · spec) = false) (hat : hasPrefix ['@'] spec = false)
    (h : (fields spec).length ≠ o.maxFields)
    (h' : ¬ (o.hasOptional = true ∧ (fields spec).length + 1 = o.maxFields)) :
    parse env o spec = .err "field-count" := by
  unfold parse parseG
  have htz : tzPrefix Gen.tzNoSpaceGuard env spec = .ok (none, spec) := by
    unfold tzPrefix; simp [hp]
  rw [htz]
  cases spec with
  | nil => exact absurd rfl hne
  | cons c cs =>
    simp only [List.isEmpty_cons, Bool.false_eq_true, if_false, hat]
    rw [(normalize_spec o h2 _).2.2 h h']

/-- A successful non-descriptor parse is: six normalised fields, each read by `getField` with the
bounds of its place — so `getField_denotes` gives the meaning of every one of the six bit sets. -/
theorem parse_fields (env : Env) (o : Opts) (h2 : o.twoOptionals = false) (spec : List Char)
    (s : SpecSchedule) (loc : Option String) (h : parse env o spec = .ok (.spec s loc)) :
    (∃ loc' rest, tzPrefix true env spec = .ok (loc', rest) ∧ hasPrefix ['@'] rest = true) ∨
    ∃ rest f0 f1 f2 f3 f4 f5, tzPrefix true env spec = .ok (loc, rest) ∧
      normalizeFields (fields rest) o = .ok [f0, f1, f2, f3, f4, f5] ∧
      getField seconds f0 = .ok s.second ∧ getField minutes f1 = .ok s.minute ∧
      getField hours f2 = .ok s.hour ∧ getField dom f3 = .ok s.dom ∧
      getField months f4 = .ok s.month ∧ getField dow f5 = .ok s.dow := by
  unfold parse parseG at h
  rw [tzGuard_on] at h
  split at h
  · simp at h
  cases ht : tzPrefix true env spec with
  | err e => simp [ht] at h
  | panic w => simp [ht] at h
  | ok pr =>
    obtain ⟨loc', rest⟩ := pr
    rw [ht] at h
    simp only at h
    by_cases hat : hasPrefix ['@'] rest = true
    · exact Or.inl ⟨loc', rest, rfl, hat⟩
    · right
      rw [if_neg hat] at h
      rcases normalizeFields_cases o h2 (fields rest) with ⟨r, hr, hl⟩ | hr
      · rw [hr] at h
        simp only at h
        cases hs : parseSix r with
        | err e => simp [hs] at h
        | panic w => simp [hs] at h
        | ok s' =>
          rw [hs] at h
          simp only [Outcome.ok.injEq, Sched.spec.injEq] at h
          obtain ⟨h1, h3⟩ := h
          subst h1; subst h3
          match r, hl, hr, hs with
          | [f0, f1, f2, f3, f4, f5], _, hr, hs =>
            refine ⟨rest, f0, f1, f2, f3, f4, f5, rfl, hr, ?_⟩
            unfold parseSix at hs
            simp [Gen.parseFields, idxO] at hs
            cases h0 : getField (boundsOf "seconds") f0 <;> simp [h0] at hs
            cases h1 : getField (boundsOf "minutes") f1 <;> simp [h1] at hs
            cases h2' : getField (boundsOf "hours") f2 <;> simp [h2'] at hs
            cases h3 : getField (boundsOf "dom") f3 <;> simp [h3] at hs
            cases h4 : getField (boundsOf "months") f4 <;> simp [h4] at hs
            cases h5 : getField (boundsOf "dow") f5 <;> simp [h5] at hs
            subst hs
            exact ⟨h0, h1, h2', h3, h4, h5⟩
      · rw [hr] at h
        simp at h

end Kit.Cron
