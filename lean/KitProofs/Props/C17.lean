import KitModel.Generated.C17
import KitProofs.Lemmas.CryptoFrame
/-!
# C17 — the crypto helpers never write to memory owned by the caller

Model: `KitModel/SliceHeap.lean` (Go slices over a heap of backing arrays, standard library by
contract) and `KitModel/CryptoFrame.lean` (every helper as a heap transformer, `Version.fixed` =
the code after the two `fix:` commits).

`ReadOnly m` — for EVERY heap the call may start in (so: any offsets, lengths, capacities and any
aliasing between the argument slices, which are arbitrary `Slice` values) and however the call
ends (result, error or panic), every backing array that existed before the call is identical
afterwards.  `Frames rs m` — the same, except for the cell ranges `rs`; for the AEAD `Seal`/`Open`
these are shown to lie inside the spare capacity of the explicitly passed `dst`.
-/
namespace Kit.CryptoFrame
open Kit Kit.SH

/-! values for the non-vacuity examples: an oracle, a heap of four caller buffers, a `Seal` call -/
def exEnv : Env := ⟨fun i => UInt8.ofNat (i + 1), true, true, true⟩
def exHeap : Heap := #[Array.replicate 40 7, Array.replicate 16 1, Array.replicate 16 2, Array.replicate 64 9]
def exCall : Call :=
  ⟨"aescbcaead.Seal", "A128CBC-HS256", .fixed, 0, "", .oct, exEnv, 0,
   fun s => if s = "key" then ⟨3, 0, 32, 32⟩ else if s = "dst" then ⟨0, 0, 2, 40⟩
     else if s = "nonce" then ⟨1, 0, 16, 16⟩ else if s = "plaintext" then ⟨2, 0, 5, 5⟩ else Slice.nil⟩

/-! ## crypto/padding -/

theorem frame_PadPKCS7 (buf : Slice) (size : Int) : ReadOnly (padPKCS7 .fixed buf size) :=
  readOnly_of_frames (frames_of_sat fun _ => sat_true (sat_padPKCS7 buf size))

/-- non-vacuity: the call really runs (and pads) on a slice with spare capacity -/
example : ((padPKCS7 .fixed ⟨0, 2, 3, 8⟩ 4 #[#[1, 2, 3, 4, 5, 6, 7, 8, 9, 10]]).1.isOk) = true := by decide

theorem frame_UnpadPKCS7 (buf : Slice) (size : Int) : ReadOnly (unpadPKCS7 buf size) :=
  readOnly_of_frames (frames_of_sat fun _ => sat_unpadPKCS7 buf size)

example : ((unpadPKCS7 ⟨0, 1, 4, 8⟩ 4 #[#[9, 7, 7, 2, 2, 6, 7, 8, 9, 10]]).1.isOk) = true := by decide

/-- WITNESS (code as found): `return append(buf, padding...)` stores the padding into the caller's
array when `buf` has spare capacity — `buf = b[2:5:10]`, block size 4: cell 5 of `b` becomes 1. -/
theorem append_in_place_witness :
    ¬ ReadOnly (padPKCS7 .orig ⟨0, 2, 3, 8⟩ 4) := by
  intro h
  have := h #[#[1, 2, 3, 4, 5, 6, 7, 8, 9, 10]] 0 (by decide)
  revert this
  decide

/-- the same call after the fix leaves the array alone (what `frame_PadPKCS7` says in general) -/
example : ((padPKCS7 .fixed ⟨0, 2, 3, 8⟩ 4 #[#[1, 2, 3, 4, 5, 6, 7, 8, 9, 10]]).2)[0]? =
    some #[1, 2, 3, 4, 5, 6, 7, 8, 9, 10] := by decide

/-! ## crypto/aeskw -/

theorem frame_Wrap (env : Env) (cek : Slice) : ReadOnly (wrap env cek) :=
  readOnly_of_frames (frames_of_sat fun _ => sat_true (sat_wrap env cek))

/-- non-vacuity: a 16-byte key cut out of a larger buffer is wrapped (the model's run succeeds) -/
example : (wrap exEnv ⟨0, 3, 16, 30⟩ exHeap).1.isOk = true := by decide +kernel

theorem frame_Unwrap (env : Env) (cipherText : Slice) : ReadOnly (unwrap env cipherText) :=
  readOnly_of_frames (frames_of_sat fun _ => sat_true (sat_unwrap env cipherText))

/-! ## crypto/aescbcaead -/

/-- `NewAESCBC128SHA256(key)` … `NewAESCBC256SHA512(key)` and `NewAESCBCAEAD(p)`: for every
parameter set the constructor only reads `key` (it keeps two sub-slices of it) -/
theorem frame_NewAESCBCAEAD (p : AEADParams) (key : Slice) : ReadOnly (newAESCBCAEAD p key) :=
  readOnly_of_frames (frames_of_sat fun _ => sat_true (sat_newAESCBCAEAD p key))

/-- `Seal(dst, nonce, plaintext, additionalData)`: everything outside `cbcSealMayWrite` is
unchanged — whatever `dst`, `plaintext`, `nonce`, `additionalData` and the key slices alias -/
theorem frame_Seal (env : Env) (a : CbcAead) (dst nonce plaintext additionalData : Slice) :
    Frames (cbcSealMayWrite a dst plaintext) (cbcSeal .fixed env a dst nonce plaintext additionalData) :=
  frames_of_sat fun _ => sat_cbcSeal env a dst nonce plaintext additionalData (by
    intro hc i h1 h2
    exact ⟨(dst.arr, dst.off + dst.len, dst.off + dst.len + (paddedLen plaintext.len + a.p.tagSize)),
      by simp [cbcSealMayWrite, dstRange, hc], rfl, h1, h2⟩)

theorem frame_Open (env : Env) (a : CbcAead) (dst nonce ciphertext additionalData : Slice) :
    Frames (cbcOpenMayWrite a dst ciphertext) (cbcOpen env a dst nonce ciphertext additionalData) :=
  frames_of_sat fun _ => sat_cbcOpen env a dst nonce ciphertext additionalData (by
    intro hc i h1 h2
    exact ⟨(dst.arr, dst.off + dst.len, dst.off + dst.len + (ciphertext.len - a.p.tagSize)),
      by simp [cbcOpenMayWrite, dstRange, hc], rfl, h1, h2⟩)

/-- the cells `Seal`/`Open` may write are spare capacity of `dst`: behind its length, within its
capacity, in its array -/
theorem mayWrite_within_dst_capacity (dst : Slice) (size : Nat) :
    ∀ r, r ∈ dstRange dst size →
      r.1 = dst.arr ∧ dst.off + dst.len ≤ r.2.1 ∧ r.2.2 ≤ dst.off + dst.cap := by
  intro r hr
  unfold dstRange at hr
  split at hr
  · simp at hr; subst hr; exact ⟨rfl, Nat.le_refl _, by simp; omega⟩
  · simp at hr

/-- hence every array other than `dst`'s is unchanged by `Seal` -/
theorem frame_Seal_other_arrays (env : Env) (a : CbcAead) (dst nonce plaintext additionalData : Slice)
    (h : Heap) (x : Nat) (hx : x < h.size) (hne : x ≠ dst.arr) :
    (cbcSeal .fixed env a dst nonce plaintext additionalData h).2[x]? = h[x]? :=
  (frame_Seal env a dst nonce plaintext additionalData h).getElem?_eq (Nat.le_refl _) x hx (by
    rintro i ⟨r, hr, h1, _⟩
    exact hne ((mayWrite_within_dst_capacity dst _ r hr).1 ▸ h1).symm)

theorem frame_Open_other_arrays (env : Env) (a : CbcAead) (dst nonce ciphertext additionalData : Slice)
    (h : Heap) (x : Nat) (hx : x < h.size) (hne : x ≠ dst.arr) :
    (cbcOpen env a dst nonce ciphertext additionalData h).2[x]? = h[x]? :=
  (frame_Open env a dst nonce ciphertext additionalData h).getElem?_eq (Nat.le_refl _) x hx (by
    rintro i ⟨r, hr, h1, _⟩
    exact hne ((mayWrite_within_dst_capacity dst _ r hr).1 ▸ h1).symm)

/-- the contract assumed for the standard library's AEADs (GCM, ChaCha20-Poly1305), stated in the
same form: `Seal/Open(dst, …)` touch at most the `dst` range that receives the output -/
theorem frame_stdSeal (env : Env) (dst plaintext : Slice) (overhead : Nat) :
    Frames (dstRange dst (plaintext.len + overhead)) (stdSeal env dst plaintext overhead) :=
  frames_of_sat fun _ => sat_stdSeal env dst plaintext overhead (by
    intro hc i h1 h2
    exact ⟨(dst.arr, dst.off + dst.len, dst.off + dst.len + (plaintext.len + overhead)),
      by simp [dstRange, hc], rfl, h1, h2⟩)

theorem frame_stdOpen (env : Env) (dst ciphertext : Slice) (overhead : Nat) (e : String) :
    Frames (dstRange dst (ciphertext.len - overhead)) (stdOpen env dst ciphertext overhead e) :=
  frames_of_sat fun _ => sat_stdOpen env dst ciphertext overhead e (by
    intro hc i h1 h2
    exact ⟨(dst.arr, dst.off + dst.len, dst.off + dst.len + (ciphertext.len - overhead)),
      by simp [dstRange, hc], rfl, h1, h2⟩)

/-- with `dst = nil` (how the crypto package calls it) `Seal` writes nothing of the caller's -/
theorem frame_Seal_nil_dst (env : Env) (a : CbcAead) (nonce plaintext additionalData : Slice) :
    ReadOnly (cbcSeal .fixed env a Slice.nil nonce plaintext additionalData) :=
  readOnly_of_frames (frames_of_sat fun _ => sat_cbcSeal_nil env a nonce plaintext additionalData)

/-- non-vacuity: a `Seal` into a `dst` with room does write (exactly) the allowed cells -/
example : cbcSealMayWrite ⟨paramsAESCBC128SHA256, Slice.nil, Slice.nil⟩ ⟨0, 4, 2, 60⟩ ⟨1, 0, 5, 5⟩ =
    [(0, 6, 38)] := by decide

/-! ## crypto: symmetric.go — one theorem per algorithm family and one for each dispatcher -/

theorem frame_encrypt_AESCBC (env : Env) (plaintext : Slice) (alg : String) (key iv : Slice) :
    ReadOnly (encryptSymmetricAESCBC .fixed env plaintext alg key iv) :=
  readOnly_of_frames (frames_of_sat fun _ => sat_encryptSymmetricAESCBC env plaintext alg key iv)

theorem frame_decrypt_AESCBC (env : Env) (ciphertext : Slice) (alg : String) (key iv : Slice) :
    ReadOnly (decryptSymmetricAESCBC env ciphertext alg key iv) :=
  readOnly_of_frames (frames_of_sat fun _ => sat_decryptSymmetricAESCBC env ciphertext alg key iv)

theorem frame_encrypt_AESGCM (env : Env) (plaintext : Slice) (alg : String) (key nonce ad : Slice) :
    ReadOnly (encryptSymmetricAESGCM .fixed env plaintext alg key nonce ad) :=
  readOnly_of_frames (frames_of_sat fun _ => sat_encryptSymmetricAESGCM env plaintext alg key nonce ad)

theorem frame_decrypt_AESGCM (env : Env) (ciphertext : Slice) (alg : String)
    (key nonce tag ad : Slice) :
    ReadOnly (decryptSymmetricAESGCM .fixed env ciphertext alg key nonce tag ad) :=
  readOnly_of_frames (frames_of_sat fun _ => sat_decryptSymmetricAESGCM env ciphertext alg key nonce tag ad)

theorem frame_encrypt_AESCBCHMAC (env : Env) (plaintext : Slice) (alg : String) (key nonce ad : Slice) :
    ReadOnly (encryptSymmetricAESCBCHMAC .fixed env plaintext alg key nonce ad) :=
  readOnly_of_frames (frames_of_sat fun _ => sat_encryptSymmetricAESCBCHMAC env plaintext alg key nonce ad)

theorem frame_decrypt_AESCBCHMAC (env : Env) (ciphertext : Slice) (alg : String)
    (key nonce tag ad : Slice) :
    ReadOnly (decryptSymmetricAESCBCHMAC .fixed env ciphertext alg key nonce tag ad) :=
  readOnly_of_frames (frames_of_sat fun _ => sat_decryptSymmetricAESCBCHMAC env ciphertext alg key nonce tag ad)

theorem frame_encrypt_AESKW (env : Env) (plaintext : Slice) (alg : String) (key : Slice) :
    ReadOnly (encryptSymmetricAESKW env plaintext alg key) :=
  readOnly_of_frames (frames_of_sat fun _ => sat_encryptSymmetricAESKW env plaintext alg key)

theorem frame_decrypt_AESKW (env : Env) (ciphertext : Slice) (alg : String) (key : Slice) :
    ReadOnly (decryptSymmetricAESKW env ciphertext alg key) :=
  readOnly_of_frames (frames_of_sat fun _ => sat_decryptSymmetricAESKW env ciphertext alg key)

theorem frame_encrypt_ChaCha20Poly1305 (env : Env) (plaintext : Slice) (alg : String)
    (key nonce ad : Slice) :
    ReadOnly (encryptSymmetricChaCha20Poly1305 .fixed env plaintext alg key nonce ad) :=
  readOnly_of_frames (frames_of_sat fun _ =>
    sat_encryptSymmetricChaCha20Poly1305 env plaintext alg key nonce ad)

theorem frame_decrypt_ChaCha20Poly1305 (env : Env) (ciphertext : Slice) (alg : String)
    (key nonce tag ad : Slice) :
    ReadOnly (decryptSymmetricChaCha20Poly1305 .fixed env ciphertext alg key nonce tag ad) :=
  readOnly_of_frames (frames_of_sat fun _ =>
    sat_decryptSymmetricChaCha20Poly1305 env ciphertext alg key nonce tag ad)

/-- `EncryptSymmetric(plaintext, algorithm, key, nonce, associatedData)`: every algorithm name
(supported or not), every key (its octets are caller memory too), every oracle -/
theorem frame_EncryptSymmetric (env : Env) (plaintext : Slice) (alg : String) (key : Key)
    (nonce associatedData : Slice) :
    ReadOnly (encryptSymmetric .fixed env plaintext alg key nonce associatedData) :=
  readOnly_of_frames (frames_of_sat fun _ => sat_encryptSymmetric env plaintext alg key nonce associatedData)

theorem frame_DecryptSymmetric (env : Env) (ciphertext : Slice) (alg : String) (key : Key)
    (nonce tag associatedData : Slice) :
    ReadOnly (decryptSymmetric .fixed env ciphertext alg key nonce tag associatedData) :=
  readOnly_of_frames (frames_of_sat fun _ =>
    sat_decryptSymmetric env ciphertext alg key nonce tag associatedData)

/-- non-vacuity: the model's runs of an AES-CBC encryption and an AES-GCM decryption of slices with
spare capacity succeed (so the theorems are not about calls that always fail early) -/
example : (encryptSymmetric .fixed exEnv ⟨0, 1, 5, 20⟩ "A128CBC" ⟨.oct, ⟨1, 0, 16, 16⟩⟩ ⟨2, 0, 16, 16⟩
    Slice.nil exHeap).1.isOk = true := by decide +kernel
example : (decryptSymmetric .fixed exEnv ⟨0, 1, 5, 20⟩ "A128GCM" ⟨.oct, ⟨1, 0, 16, 16⟩⟩ ⟨2, 0, 12, 16⟩
    ⟨2, 0, 16, 16⟩ Slice.nil exHeap).1.isOk = true := by decide +kernel

/-- WITNESS (code as found): `ciphertext = append(ciphertext, tag...)` in the AEAD decrypt helper
stores the tag behind the caller's ciphertext — A128GCM, `ciphertext = b0[0:2:20]`, a 16-byte
tag: cell 2 of `b0` becomes the first tag byte (0xAA), on a FAILED decryption. -/
theorem decrypt_tag_append_witness :
    ¬ ReadOnly (decryptSymmetric .orig ⟨fun _ => 0, false, false, false⟩ ⟨0, 0, 2, 20⟩ "A128GCM"
        ⟨.oct, ⟨1, 0, 16, 16⟩⟩ ⟨2, 0, 12, 12⟩ ⟨3, 0, 16, 16⟩ Slice.nil) := by
  intro h
  have := h #[Array.replicate 20 1, Array.replicate 16 2, Array.replicate 12 3, Array.replicate 16 0xAA] 0
    (by decide)
  revert this
  decide

/-! ## crypto: asymmetric_enc.go, asymmetric_sig.go, crypto.go, keys.go -/

theorem frame_EncryptPublicKey (env : Env) (outLen : Nat) (plaintext : Slice) (alg : String)
    (key : Key) (associatedData : Slice) :
    ReadOnly (encryptPublicKey env outLen plaintext alg key associatedData) :=
  readOnly_of_frames (frames_of_sat fun _ => sat_encryptPublicKey env outLen plaintext alg key associatedData)

theorem frame_DecryptPrivateKey (env : Env) (outLen : Nat) (ciphertext : Slice) (alg : String)
    (key : Key) (associatedData : Slice) :
    ReadOnly (decryptPrivateKey env outLen ciphertext alg key associatedData) :=
  readOnly_of_frames (frames_of_sat fun _ => sat_decryptPrivateKey env outLen ciphertext alg key associatedData)

theorem frame_SignPrivateKey (env : Env) (outLen : Nat) (digest : Slice) (alg : String) (key : Key) :
    ReadOnly (signPrivateKey env outLen digest alg key) :=
  readOnly_of_frames (frames_of_sat fun _ => sat_signPrivateKey env outLen digest alg key)

theorem frame_VerifyPublicKey (env : Env) (digest signature : Slice) (alg : String) (key : Key) :
    ReadOnly (verifyPublicKey env digest signature alg key) :=
  readOnly_of_frames (frames_of_sat fun _ => sat_verifyPublicKey env digest signature alg key)

theorem frame_Encrypt (env : Env) (outLen : Nat) (plaintext : Slice) (alg : String) (key : Key)
    (nonce associatedData : Slice) :
    ReadOnly (encrypt .fixed env outLen plaintext alg key nonce associatedData) :=
  readOnly_of_frames (frames_of_sat fun _ => sat_encrypt env outLen plaintext alg key nonce associatedData)

theorem frame_Decrypt (env : Env) (outLen : Nat) (ciphertext : Slice) (alg : String) (key : Key)
    (nonce tag associatedData : Slice) :
    ReadOnly (decrypt .fixed env outLen ciphertext alg key nonce tag associatedData) :=
  readOnly_of_frames (frames_of_sat fun _ =>
    sat_decrypt env outLen ciphertext alg key nonce tag associatedData)

theorem frame_ParseKey (env : Env) (raw : Slice) (contentType : String) :
    ReadOnly (parseKey env raw contentType) :=
  readOnly_of_frames (frames_of_sat fun _ => sat_parseKey env raw contentType)

/-! ## the non-exported helpers the exported functions hand the caller's slices on to (found by
`factgen_c17` through the same-package call graph): each is read-only as well -/

theorem frame_helper_arrConcat (arrays : List Slice) : ReadOnly (arrConcat arrays) :=
  readOnly_of_frames (frames_of_sat fun _ => sat_true (sat_arrConcat arrays))

theorem frame_helper_arrXor (arrL arrR : Slice) : ReadOnly (arrXor arrL arrR) :=
  readOnly_of_frames (frames_of_sat fun _ => sat_true (sat_arrXor arrL arrR))

theorem frame_helper_hmacTag (env : Env) (a : CbcAead) (additionalData nonce ciphertext : Slice) :
    ReadOnly (hmacTag env a additionalData nonce ciphertext) :=
  readOnly_of_frames (frames_of_sat fun _ => sat_true (sat_hmacTag env a additionalData nonce ciphertext))

/-- `encryptSymmetricAEAD(aead, plaintext, nonce, associatedData)` for EVERY `cipher.AEAD` the
package builds (standard library or AES-CBC-HMAC) -/
theorem frame_helper_encryptSymmetricAEAD (env : Env) (ae : Aead) (plaintext nonce ad : Slice) :
    ReadOnly (encryptSymmetricAEAD .fixed env ae plaintext nonce ad) :=
  readOnly_of_frames (frames_of_sat fun _ => sat_encryptSymmetricAEAD env ae plaintext nonce ad)

/-- `decryptSymmetricAEAD(aead, ciphertext, nonce, tag, associatedData)`: read-only whatever the
slices alias — in particular when `tag` sits right behind `ciphertext` in the same array -/
theorem frame_helper_decryptSymmetricAEAD (env : Env) (ae : Aead) (ciphertext nonce tag ad : Slice) :
    ReadOnly (decryptSymmetricAEAD .fixed env ae ciphertext nonce tag ad) :=
  readOnly_of_frames (frames_of_sat fun _ => sat_decryptSymmetricAEAD env ae ciphertext nonce tag ad)

/-- non-vacuity for the adjacent layout: `nonce‖ciphertext‖tag` in ONE array (12 + 5 + 16 bytes);
the model's A128GCM decryption succeeds and (by the theorem) leaves that array alone -/
example : (decryptSymmetric .fixed exEnv ⟨0, 12, 5, 28⟩ "A128GCM" ⟨.oct, ⟨1, 0, 16, 16⟩⟩ ⟨0, 0, 12, 40⟩
    ⟨0, 17, 16, 23⟩ Slice.nil exHeap).1.isOk = true ∧
    (decryptSymmetric .fixed exEnv ⟨0, 12, 5, 28⟩ "A128GCM" ⟨.oct, ⟨1, 0, 16, 16⟩⟩ ⟨0, 0, 12, 40⟩
    ⟨0, 17, 16, 23⟩ Slice.nil exHeap).2[0]? = exHeap[0]? := by decide +kernel

theorem frame_helper_getAESCBCHMACCipher (alg : String) (key : Slice) :
    ReadOnly (getAESCBCHMACCipher alg key) :=
  readOnly_of_frames (frames_of_sat fun _ => sat_getAESCBCHMACCipher alg key)

theorem frame_helper_getChaCha20Poly1305Cipher (alg : String) (key nonce : Slice) :
    ReadOnly (getChaCha20Poly1305Cipher alg key nonce) :=
  readOnly_of_frames (frames_of_sat fun _ => sat_getChaCha20Poly1305Cipher alg key nonce)

theorem frame_helper_encryptPublicKeyRSAPKCS1v15 (env : Env) (k : Nat) (plaintext : Slice) (key : Key) :
    ReadOnly (encryptPublicKeyRSAPKCS1v15 env k plaintext key) :=
  readOnly_of_frames (frames_of_sat fun _ => sat_encryptPublicKeyRSAPKCS1v15 env k plaintext key)

theorem frame_helper_encryptPublicKeyRSAOAEP (env : Env) (k : Nat) (plaintext : Slice) (key : Key)
    (label : Slice) : ReadOnly (encryptPublicKeyRSAOAEP env k plaintext key label) :=
  readOnly_of_frames (frames_of_sat fun _ => sat_encryptPublicKeyRSAOAEP env k plaintext key label)

theorem frame_helper_decryptPrivateKeyRSAPKCS1v15 (env : Env) (k : Nat) (ciphertext : Slice) (key : Key) :
    ReadOnly (decryptPrivateKeyRSAPKCS1v15 env k ciphertext key) :=
  readOnly_of_frames (frames_of_sat fun _ => sat_decryptPrivateKeyRSAPKCS1v15 env k ciphertext key)

theorem frame_helper_decryptPrivateKeyRSAOAEP (env : Env) (k : Nat) (ciphertext : Slice) (key : Key)
    (label : Slice) : ReadOnly (decryptPrivateKeyRSAOAEP env k ciphertext key label) :=
  readOnly_of_frames (frames_of_sat fun _ => sat_decryptPrivateKeyRSAOAEP env k ciphertext key label)

theorem frame_helper_signPrivateKeyRSAPKCS1v15 (env : Env) (k : Nat) (digest : Slice) (key : Key) :
    ReadOnly (signPrivateKeyRSAPKCS1v15 env k digest key) :=
  readOnly_of_frames (frames_of_sat fun _ => sat_signPrivateKeyRSAPKCS1v15 env k digest key)

theorem frame_helper_signPrivateKeyRSAPSS (env : Env) (k : Nat) (digest : Slice) (key : Key) :
    ReadOnly (signPrivateKeyRSAPSS env k digest key) :=
  readOnly_of_frames (frames_of_sat fun _ => sat_signPrivateKeyRSAPSS env k digest key)

theorem frame_helper_signPrivateKeyECDSA (env : Env) (k : Nat) (digest : Slice) (key : Key) :
    ReadOnly (signPrivateKeyECDSA env k digest key) :=
  readOnly_of_frames (frames_of_sat fun _ => sat_signPrivateKeyECDSA env k digest key)

theorem frame_helper_signPrivateKeyEdDSA (env : Env) (k : Nat) (message : Slice) (key : Key) :
    ReadOnly (signPrivateKeyEdDSA env k message key) :=
  readOnly_of_frames (frames_of_sat fun _ => sat_signPrivateKeyEdDSA env k message key)

theorem frame_helper_verifyPublicKeyRSAPKCS1v15 (env : Env) (digest signature : Slice) (key : Key) :
    ReadOnly (verifyPublicKeyRSAPKCS1v15 env digest signature key) :=
  readOnly_of_frames (frames_of_sat fun _ => sat_verifyPublicKeyRSAPKCS1v15 env digest signature key)

theorem frame_helper_verifyPublicKeyRSAPSS (env : Env) (digest signature : Slice) (key : Key) :
    ReadOnly (verifyPublicKeyRSAPSS env digest signature key) :=
  readOnly_of_frames (frames_of_sat fun _ => sat_verifyPublicKeyRSAPSS env digest signature key)

theorem frame_helper_verifyPublicKeyECDSA (env : Env) (digest signature : Slice) (key : Key) :
    ReadOnly (verifyPublicKeyECDSA env digest signature key) :=
  readOnly_of_frames (frames_of_sat fun _ => sat_verifyPublicKeyECDSA env digest signature key)

theorem frame_helper_verifyPublicKeyEdDSA (env : Env) (mesage signature : Slice) (key : Key) :
    ReadOnly (verifyPublicKeyEdDSA env mesage signature key) :=
  readOnly_of_frames (frames_of_sat fun _ => sat_verifyPublicKeyEdDSA env mesage signature key)

theorem frame_helper_parseSymmetricKey (env : Env) (raw : Slice) : ReadOnly (parseSymmetricKey env raw) :=
  readOnly_of_frames (frames_of_sat fun _ => sat_parseSymmetricKey env raw)

/-! ## the entry point the driver runs: whatever call `kitdrv C17` is asked about, the cells it
answers in `may=` (`mayWrite`) bound what the model's run changes -/

theorem frame_runCall (c : Call) (hv : c.v = .fixed) : Frames (mayWrite c) (runCall c) := by
  apply frames_of_sat
  intro k
  have key : ∀ {α} {m : M α} {Q : α → Prop}, Sat k (InRanges (mayWrite c)) m Q →
      Sat k (InRanges (mayWrite c)) m (fun _ => True) := fun h => sat_true h
  unfold runCall one two
  simp only [hv]
  repeat' (first
    | (with_reducible refine sat_bind (by (sat_rule <;> sat_side)) ?_; intro _ _; try simp only [])
    | (with_reducible refine sat_pure ?_)
    | (with_reducible exact sat_fail _)
    | (with_reducible refine sat_mono (by (sat_rule <;> sat_side)) ?_; intro _ _)
    | (with_reducible refine sat_ite (fun _ => ?_) (fun _ => ?_))
    | (show Sat _ _ _ _; split))
  all_goals (try trivial)
  · -- aescbcaead.Seal
    rename_i hfn _ p hp ae hae
    refine sat_bind (sat_cbcSeal c.env ae _ _ _ _ ?_) fun _ _ => sat_pure trivial
    intro hc i h1 h2
    refine ⟨((c.arg "dst").arr, (c.arg "dst").off + (c.arg "dst").len,
      (c.arg "dst").off + (c.arg "dst").len + (paddedLen (c.arg "plaintext").len + ae.p.tagSize)), ?_, rfl, h1, h2⟩
    simp only [mayWrite, hfn, hp, dstRange, if_true]
    rw [hae] at hc ⊢
    simp [hc]
  · -- aescbcaead.Open
    rename_i hne hfn _ p hp ae hae
    refine sat_bind (sat_cbcOpen c.env ae _ _ _ _ ?_) fun _ _ => sat_pure trivial
    intro hc i h1 h2
    refine ⟨((c.arg "dst").arr, (c.arg "dst").off + (c.arg "dst").len,
      (c.arg "dst").off + (c.arg "dst").len + ((c.arg "ciphertext").len - ae.p.tagSize)), ?_, rfl, h1, h2⟩
    have hne' : ¬ ("aescbcaead.Open" = "aescbcaead.Seal") := by decide
    simp only [mayWrite, hfn, hne', hp, dstRange, if_false, if_true]
    rw [hae] at hc ⊢
    simp [hc]

/-- non-vacuity of `frame_runCall` / `frame_Seal_other_arrays`: a `.fixed` call that succeeds,
whose may-write set is a real range of `dst`'s capacity, with other arrays present -/
example : exCall.v = .fixed ∧ (runCall exCall exHeap).1.isOk = true ∧ mayWrite exCall = [(0, 2, 34)] ∧
    1 < exHeap.size ∧ 1 ≠ (exCall.arg "dst").arr := by decide +kernel

/-! ## T1: the obligation of every function found in the source is COMPUTED from its generated
signature, and discharged -/

/-- the only cells a function with the `[]byte` parameters `ps` may write: the spare capacity of an
explicit `dst` — nothing at all if it has no `dst` -/
def dstSpare (ps : List String) (a : String → Slice) : List (Nat × Nat × Nat) :=
  if ps.contains "dst" then
    [((a "dst").arr, (a "dst").off + (a "dst").len, (a "dst").off + (a "dst").cap)]
  else []

/-- THE frame obligation of a function as `factgen_c17` reports it (package, receiver, name, the
names of its `[]byte` parameters in order): the model registry has an entry with exactly this
signature whose run — for every oracle, every non-slice parameter and EVERY assignment of slices to
the parameter names (any offsets, lengths, capacities, aliasing) — leaves all pre-existing memory
unchanged except the spare capacity of `dst`, if `dst` is one of the parameters. A new parameter,
a renamed one or a new function changes this proposition itself. -/
def frameStmt (f : Kit.Generated.C17.Fn) : Prop :=
  ∃ e, e ∈ models ∧ e.pkg = f.pkg ∧ e.recv = f.recv ∧ e.name = f.name ∧ e.params = f.params ∧
    ∀ (env : Env) (ns : NonSlice) (a : String → Slice), Frames (dstSpare f.params a) (e.run env ns a)

theorem dstRange_within_spare (ps : List String) (a : String → Slice) (size : Nat)
    (hd : ps.contains "dst" = true) :
    ∀ x i, InRanges (dstRange (a "dst") size) x i → InRanges (dstSpare ps a) x i := by
  intro x i ⟨r, hr, h1, h2, h3⟩
  have hw := mayWrite_within_dst_capacity (a "dst") size r hr
  refine ⟨((a "dst").arr, (a "dst").off + (a "dst").len, (a "dst").off + (a "dst").cap), ?_, ?_, ?_, ?_⟩
  · unfold dstSpare
    rw [if_pos hd]
    exact List.mem_singleton.mpr rfl
  · exact hw.1 ▸ h1
  · exact Nat.le_trans hw.2.1 h2
  · exact Nat.lt_of_lt_of_le h3 hw.2.2

/-- every registry entry meets the obligation computed from ITS OWN declared signature -/
theorem models_framed : ∀ e, e ∈ models →
    ∀ (env : Env) (ns : NonSlice) (a : String → Slice), Frames (dstSpare e.params a) (e.run env ns a) := by
  unfold models
  simp only [List.mem_cons, List.not_mem_nil, or_false, forall_eq_or_imp, forall_eq]
  refine ⟨?_, ?_, ?_, ?_, ?_, ?_, ?_, ?_, ?_, ?_, ?_, ?_, ?_, ?_, ?_, ?_, ?_, ?_, ?_, ?_, ?_, ?_, ?_, ?_, ?_,
    ?_, ?_, ?_, ?_, ?_, ?_, ?_, ?_, ?_, ?_, ?_, ?_, ?_, ?_, ?_, ?_, ?_, ?_, ?_, ?_, ?_, ?_, ?_, ?_, ?_⟩
  case refine_6 => -- Open
    intro env ns a
    exact Frames.mono (Frames.discard
      (frame_Open env (recvAead ns a) (a "dst") (a "nonce") (a "ciphertext") (a "additionalData")))
      (dstRange_within_spare _ a _ (by decide))
  case refine_7 => -- Seal
    intro env ns a
    exact Frames.mono (Frames.discard
      (frame_Seal env (recvAead ns a) (a "dst") (a "nonce") (a "plaintext") (a "additionalData")))
      (dstRange_within_spare _ a _ (by decide))
  all_goals
    intro env ns a
    refine frames_of_sat fun _ => ?_
    first
      | (with_reducible refine sat_mono (by (sat_rule <;> sat_side)) ?_; intro _ _; trivial)

def matchesSig (f : Kit.Generated.C17.Fn) (e : ModelEntry) : Bool :=
  e.pkg == f.pkg && e.recv == f.recv && e.name == f.name && e.params == f.params

/-- every exported `[]byte`-taking function AND every non-exported helper reachable from one has a
registry entry with exactly its signature (a new function / parameter in the source breaks this) -/
theorem generated_have_models :
    (Kit.Generated.C17.fns ++ Kit.Generated.C17.helpers).all (fun f => models.any (matchesSig f)) = true := by
  decide

/-- and nothing in the registry is stale -/
theorem models_are_generated :
    (models.all fun e => (Kit.Generated.C17.fns ++ Kit.Generated.C17.helpers).any fun f => matchesSig f e) = true := by
  decide

/-- T1 ∘ proof: the obligation computed from each generated signature holds -/
theorem generated_frame_obligations :
    ∀ f, f ∈ Kit.Generated.C17.fns ++ Kit.Generated.C17.helpers → frameStmt f := by
  intro f hf
  have h := List.all_eq_true.mp generated_have_models f hf
  obtain ⟨e, he, hm⟩ := List.any_eq_true.mp h
  simp only [matchesSig, Bool.and_eq_true, beq_iff_eq] at hm
  obtain ⟨⟨⟨h1, h2⟩, h3⟩, h4⟩ := hm
  exact ⟨e, he, h1, h2, h3, h4, fun env ns a => h4 ▸ models_framed e he env ns a⟩

/-- T1: every site of every Go body where caller memory is passed on, written, re-sliced with an
upper bound or retained is read-only by the stated contract, or is a write the model declares —
and those flow from an explicit `dst` only. This is what justifies model bodies that merely read
(`touch`) their slices: `slices.Insert(signature, …)`, `h.Sum(ciphertext)`, `x[i] = …`,
`copy(param, …)`, `append(param, …)`, `Open(param[:0], …)` would all appear here unaccounted. -/
theorem write_sites_accounted :
    Kit.Generated.C17.sites.all (fun p => sitesOK p.1 p.2) = true := by decide

/-- every function with sites is one of the generated functions (the analysis covers them all) -/
theorem sites_cover_generated :
    ((Kit.Generated.C17.fns ++ Kit.Generated.C17.helpers).all fun f =>
      Kit.Generated.C17.sites.any fun p => p.1 == (f.pkg, f.recv, f.name)) = true := by decide

/-- T1: the four packages keep no state between calls except the constant `defaultIV` (a buffer
pool or cache would be listed here): the model's "`make` returns a fresh array" stands -/
theorem no_package_state : Kit.Generated.C17.globals = ["aeskw.defaultIV"] := by decide

/-- T1: the algorithm lists the model dispatches on are those of the `switch algorithm`
statements in the source, clause by clause -/
theorem dispatch_tables_match_source :
    sameTables Kit.Generated.C17.switches dispatchTables = true := by decide

end Kit.CryptoFrame
