import KitProofs.Lemmas.CoalescingWindow
import KitProofs.Lemmas.CoalescingProgress
import KitProofs.Lemmas.CoalescingSim
import KitProofs.Lemmas.CoalescingTimeline
import KitProofs.Lemmas.CoalescingUrgent
/-!
Property C09 — coalescing rate limiter (`events/ratelimiting/coalescing.go`).

Every theorem quantifies over all reachable states of the transition system
`Kit.Coalescing.step` (= all interleavings of any number of `Add` callers, the run loop, the token
and sender goroutines, the clock, the consumer, `Close` and context cancellation) and over all
configurations accepted by `NewCoalescing` (`Config.valid`).  Durations are `Nat` nanoseconds.
-/
namespace C09
open Kit.Coalescing

/-- A configuration used by the non-vacuity examples: 100 ns initial, 400 ns max, cap 2. -/
def demo : Config := { initial := 100, max := 400, cap := some 2 }
/-- no cap -/
def demo0 : Config := { initial := 100, max := 400, cap := none }

/-! ### the model is the source (T1)

`KitModel/Generated/C09.lean` is rewritten from `/repo/events/ratelimiting/coalescing.go` on every
run.  The model *executes* the extracted guard/assignment blocks; the theorem below states what
they compute (so a changed comparison, factor, conversion, reset value or timer argument breaks
it) and pins the control structure the labels of the LTS were written against. -/

/-- What the extracted blocks compute, and the shape of the surrounding control flow. -/
theorem source_shape_as_modelled :
    -- fireEvent: `if pendingEvents > 0 { pendingEvents = 0; wg.Add(1); go send|ctx.Done }`
    (∀ cfg s, fire cfg s =
      if 0 < s.pending then { s with pending := 0, fires := s.fires + 1, senders := s.senders + 1 } else s) ∧
    Kit.Generated.C09.fireRest =
      ["c.wg.Add(1)", "go func() { defer c.wg.Done() select { case ch <- struct{}{}: case <-ctx.Done(): } }()"] ∧
    -- cap test: `maxPendingEvents != nil && pendingEvents >= *maxPendingEvents` ⇒ fireEvent; return
    (∀ cfg s, capReached cfg s = match cfg.cap with | none => false | some m => decide (m ≤ s.pending)) ∧
    Kit.Generated.C09.capNilCheck = "c.maxPendingEvents != nil" ∧
    Kit.Generated.C09.capBody = ["c.fireEvent(ctx, ch)", "return"] ∧
    -- back-off: `if cur < max { factor *= 2; cur = Duration(float64(initial)*float64(factor)); if cur > max { cur = max } }`
    (∀ cfg cur factor, backoffVals cfg cur factor =
      if cur < cfg.max then
        (if cfg.max < f64OfNat cfg.initial * (factor * 2) then cfg.max else f64OfNat cfg.initial * (factor * 2),
         factor * 2,
         decide (int64Lim ≤ factor * 2) || decide (int64Lim ≤ f64OfNat cfg.initial * (factor * 2)))
      else (cur, factor, false)) ∧
    -- reset: pending 0, currentDur = initialDelay, backoffFactor = 1, no timer
    (∀ cfg s, handleTimer cfg s =
      { fire cfg s with pending := 0, cur := cfg.initial, factor := 1, timer := none, loop := .top, wk := 0 }) ∧
    Kit.Generated.C09.resetShape =
      ["if !c.timer.Stop() { select { case <-c.timer.C(): default: } }", "<field assignment>",
       "<field assignment>", "<field assignment>", "c.hasTimer.Store(false)", "c.timer = nil"] ∧
    Kit.Generated.C09.timerFiredBody =
      ["c.lock.Lock()", "defer c.lock.Unlock()", "c.fireEvent(ctx, ch)", "c.reset()"] ∧
    -- timers: NewTimer(initialDelay) on the first token, Reset(currentDur) afterwards
    (∀ cfg e, Kit.Generated.C09.newTimerArg.eval cfg e = cfg.initial) ∧
    (∀ cfg e, Kit.Generated.C09.resetTimerArg.eval cfg e = e.cur) ∧
    Kit.Generated.C09.inputLocking = ["c.lock.Lock()", "defer c.lock.Unlock()"] ∧
    Kit.Generated.C09.inputFirstCond = "!c.hasTimer.Load()" ∧
    Kit.Generated.C09.inputFirstBranch =
      ["c.timer = c.clock.NewTimer(c.initialDelay)", "c.hasTimer.Store(true)", "c.fireEvent(ctx, ch)"] ∧
    Kit.Generated.C09.stopDrain = "if !c.timer.Stop() { <-c.timer.C() }" ∧
    Kit.Generated.C09.resetTimerCall = "c.timer.Reset(c.currentDur)" ∧
    -- NewCoalescing: validation = ¬Config.valid, initial field values, unbuffered channels
    Kit.Generated.C09.validationGuards =
      ["initialDelay <= 0", "maxDelay <= 0", "maxDelay < initialDelay",
       "opts.MaxPendingEvents != nil && *opts.MaxPendingEvents <= 0"] ∧
    (∀ cfg, init cfg = { cur := cfg.initial }) ∧
    Kit.Generated.C09.inputChMake = "make(chan struct{})" ∧
    Kit.Generated.C09.closeChMake = "make(chan struct{})" ∧
    -- Add: one critical section; closed ⇒ nothing; else pendingEvents++, wg.Add(1), token goroutine
    (∀ cfg s, step cfg s .add =
      if s.closed then some s
      else some { s with pending := s.pending + 1, tokens := s.tokens + 1, adds := s.adds + 1 }) ∧
    Kit.Generated.C09.addShape =
      ["c.lock.Lock()", "defer c.lock.Unlock()", "if c.closed.Load() { return }", "<field assignment>",
       "c.wg.Add(1)",
       "go func() { defer c.wg.Done() select { case c.inputCh <- struct{}{}: case <-c.closeCh: } }()"] ∧
    -- Close (after the repair): closed set under the lock, lock released, then wg.Wait
    Kit.Generated.C09.closeOrder =
      ["c.lock.Lock()", "if c.closed.CompareAndSwap(false, true) { close(c.closeCh) }", "c.lock.Unlock()",
       "c.wg.Wait()"] ∧
    -- Run: prologue (closed ⇒ return before wg.Add), loop head, the four select cases
    Kit.Generated.C09.runPrologue =
      ["if !c.running.CompareAndSwap(false, true) { return errors.New(\"already running\") }",
       "c.lock.Lock()", "if c.closed.Load() { c.lock.Unlock() return nil }", "c.wg.Add(1)",
       "c.lock.Unlock()", "defer c.wg.Done()", "ctx, cancel := context.WithCancel(ctx)", "defer cancel()"] ∧
    Kit.Generated.C09.runLoopHead =
      ["var timerCh <-chan time.Time", "c.lock.RLock()", "if c.hasTimer.Load() { timerCh = c.timer.C() }",
       "c.lock.RUnlock()"] ∧
    Kit.Generated.C09.runSelectCases =
      ["<-ctx.Done() => return nil", "<-c.closeCh => cancel(); return nil",
       "<-c.inputCh => c.handleInputCh(ctx, ch); verifhook.Point(\"coalescing.inputHandled\")",
       "<-timerCh => c.handleTimerFired(ctx, ch); verifhook.Point(\"coalescing.timerHandled\")"] ∧
    Kit.Generated.C09.hookSites = ["coalescing.inputHandled", "coalescing.timerHandled"] :=
  ⟨fire_def, rfl, capReached_def, rfl, rfl, backoffVals_def, handleTimer_def, rfl, rfl,
   newTimerArg_def, resetTimerArg_def, rfl, rfl, rfl, rfl, rfl, rfl, init_def, rfl, rfl,
   step_add_def, rfl, rfl, rfl, rfl, rfl, rfl⟩

/-! ### every trace the driver accepts is a run of the LTS

`Sim.accepts` is the state-set simulation `kitdrv C09` runs (the driver applies `Sim.stepSet` per
line).  Accepted ⇒ there is a run of `Kit.Coalescing.step` from `init` whose directly observed
transitions (Run call/return, clock moves, receives with their clock stamp, cancel, Close return)
are exactly the observed ones in order, whose `Add`/`Close` effects lie between the observed calls
and returns — for every prefix of the trace — and whose states at the `settle` events have the
counted goroutines and the armed deadline (`Sim.settle_matches`).  So the theorems of this file,
which hold in every reachable state, apply to every accepted real execution. -/

theorem accepts_sound {cfg : Config} {hooks : Bool} {tr : List Sim.Ev}
    (h : Sim.accepts cfg hooks tr = true) :
    ∃ ls s, exec cfg (init cfg) ls = some s ∧ Reach cfg s ∧
      ls.filter Sim.isDirect = tr.filterMap Sim.directLabel ∧
      ls.count .add ≤ tr.count .addcall ∧ tr.count .addret ≤ ls.count .add ∧
      ls.count .close ≤ tr.count .closecall := by
  obtain ⟨ls, d', hr⟩ := Sim.accepts_wrun h
  have he := hr.exec
  obtain ⟨c1, c2, c3⟩ := hr.counts
  refine ⟨ls, d'.m, he, reach_exec ls Reach.init he, hr.direct, ?_, ?_, ?_⟩ <;>
    simp [Sim.initD] at c1 c2 c3 <;> omega

/-- The same for every prefix of an accepted trace (linearizability bracket at every point). -/
theorem accepts_sound_prefix {cfg : Config} {hooks : Bool} {tr1 tr2 : List Sim.Ev}
    (h : Sim.accepts cfg hooks (tr1 ++ tr2) = true) :
    ∃ ls1 ls2 s1 s2, exec cfg (init cfg) ls1 = some s1 ∧ exec cfg s1 ls2 = some s2 ∧
      Reach cfg s1 ∧ Reach cfg s2 ∧
      ls1.filter Sim.isDirect = tr1.filterMap Sim.directLabel ∧
      ls2.filter Sim.isDirect = tr2.filterMap Sim.directLabel ∧
      ls1.count .add ≤ tr1.count .addcall ∧ tr1.count .addret ≤ ls1.count .add := by
  obtain ⟨ls, d', hr⟩ := Sim.accepts_wrun h
  obtain ⟨ls1, ls2, dm, _, r1, r2⟩ := hr.split
  have e1 := r1.exec
  have e2 := r2.exec
  obtain ⟨c1, c2, _⟩ := r1.counts
  have hr1 := reach_exec ls1 Reach.init e1
  refine ⟨ls1, ls2, dm.m, d'.m, e1, e2, hr1, reach_exec ls2 hr1 e2, r1.direct, r2.direct, ?_, ?_⟩ <;>
    simp [Sim.initD] at c1 c2 <;> omega

/-- `accepts` itself is not kernel-reducible (hash set); that it does accept is witnessed at run
time (every trace the harness reports as validated). The step relation it searches is inhabited: -/
example :
    ((Sim.obsStep demo true .runcall (Sim.initD demo)).bind fun d =>
     (Sim.tauLabel demo true d .run).bind fun d =>
     (Sim.tauLabel demo true d .top).bind fun d =>
     (Sim.obsStep demo true .addcall d).bind fun d =>
     (Sim.tauAdd demo d).bind fun d =>
     (Sim.obsStep demo true .addret d).bind fun d =>
     (Sim.tauLabel demo true d .deliver).bind fun d =>
     (Sim.obsStep demo true (.hin false) d).bind fun d =>
     (Sim.tauLabel demo true d .top).bind fun d =>
     (Sim.obsStep demo true (.settle 0 1 true (some 100)) d).bind fun d =>
     (Sim.obsStep demo true (.recv 0) d).map fun d => (d.m.fires, d.m.consumed)) = some (1, 1) := by
  decide +kernel

/-! ### signals never exceed Adds -/

/-- Signals received ≤ signals started ≤ accepted `Add`s (minus what is still pending); every
started signal is received, still being sent, or was abandoned because the context ended. -/
theorem signals_le_adds {cfg : Config} (hv : cfg.valid) {s : State} (h : Reach cfg s) :
    s.consumed ≤ s.fires ∧ s.fires + s.pending ≤ s.adds ∧
    s.consumed + s.senders + s.dropped = s.fires := by
  have hi := inv_reach hv s h
  exact ⟨by have := hi.acct; omega, hi.sig, hi.acct⟩

example : demo.valid ∧
    (exec demo (init demo) [.runCall, .run, .add, .add, .top, .deliver, .consume]).map
      (fun s => (s.adds, s.fires, s.consumed, s.pending)) = some (2, 1, 1, 0) := by decide +kernel

/-! ### no Add is lost -/

/-- While the limiter runs, a pending `Add` always has a carrier — an armed timer or a token in
flight — and from there a signal is reachable by steps of the limiter's own goroutines plus, when
a window is open, moving the clock to (at most) its deadline. -/
theorem no_add_lost {cfg : Config} (hv : cfg.valid) {s : State} (h : Reach cfg s)
    (hrun : s.running = true) (hcl : s.closed = false) (hp : 0 < s.pending) :
    (s.timer.isSome = true ∨ 0 < s.tokens) ∧
    ∃ ls s', exec cfg s ls = some s' ∧ s'.fires = s.fires + 1 ∧ s'.pending = 0 ∧
      ∀ l ∈ ls, l.internal = true ∨ ∃ d, s.timer = some d ∧ l = .advance (max s.now d) :=
  no_add_lost_aux (inv_reach hv s h) hrun hcl hp

example : (exec demo0 (init demo0) [.runCall, .run, .top, .add, .deliver, .add, .top, .deliver]).map
      (fun s => (s.running, s.closed, s.pending, s.timer, s.tokens)) =
    some (true, false, 1, some 200, 0) := by decide +kernel

/-! ### the first Add after an idle period is signalled immediately -/

/-- Idle: no open window, no token in flight, nothing pending (limiter running). A window opened
by a token that lost the race against its own window's expiry is *not* idle. -/
def Idle (s : State) : Prop :=
  s.timer = none ∧ s.tokens = 0 ∧ s.pending = 0 ∧ s.running = true ∧ s.closed = false

instance (s : State) : Decidable (Idle s) := by unfold Idle; infer_instance

/-- An `Add` in the idle state is signalled by steps of the limiter's own goroutines alone — the
clock does not move — and opens a window of the initial delay. -/
theorem first_after_idle_immediate {cfg : Config} {s : State} (hidle : Idle s) :
    ∃ s1, step cfg s .add = some s1 ∧
    ∃ ls s2, (∀ l ∈ ls, l.internal = true) ∧ exec cfg s1 ls = some s2 ∧
      s2.fires = s.fires + 1 ∧ s2.senders = s.senders + 1 ∧ s2.now = s.now ∧ s2.pending = 0 ∧
      s2.timer = some (s.now + cfg.initial) :=
  first_after_idle_aux hidle.1 hidle.2.1 hidle.2.2.1 hidle.2.2.2.1 hidle.2.2.2.2

/-- … and nothing else can happen first: after that `Add` the only enabled step of the limiter's
own goroutines is the one towards the signal (loop head, then the token delivery that fires). -/
theorem first_after_idle_forced {cfg : Config} (hv : cfg.valid) {s s1 : State} (h : Reach cfg s)
    (hidle : Idle s) (hnc : s.cancelled = false) (hadd : step cfg s .add = some s1) :
    ∀ l s2, l.internal = true → step cfg s1 l = some s2 →
      (l = .top ∧ s2.fires = s.fires ∧ s2.tokens = 1 ∧ s2.loop = .sel) ∨
      (l = .deliver ∧ s2.fires = s.fires + 1 ∧ s2.now = s.now) := by
  have hcas : s.casDone = true := by
    cases hc : s.casDone with
    | true => rfl
    | false =>
      have := (inv_reach hv s h).cas hc
      have hr := hidle.2.2.2.1
      simp [State.running, this] at hr
  exact first_after_idle_forced_aux hidle.1 hidle.2.1 hidle.2.2.1 hidle.2.2.2.1 hidle.2.2.2.2 hnc hcas hadd

/-- What "idle period" means operationally: at a quiescent point of a running limiter, *not idle*
means exactly that a window is open whose end is ahead, i.e. an `Add`'s token was handled less
than one window length (`cur ≥ InitialDelay`) ago — at `armedAt`. So an `Add` that is not
signalled at once always comes less than `cur` after the limiter last handled an `Add`; "idle
period" = no token handled for a full window. (The late-token window below is such a window: the
late token was handled at `armedAt`, after the expiry that signalled its `Add`.) -/
theorem not_idle_means_recent_token {cfg : Config} (hv : cfg.valid) {s : State} (h : Reach cfg s)
    (hq : Quiescent cfg s) (hrun : s.running = true) (hcl : s.closed = false) (hni : ¬ Idle s) :
    ∃ d, s.timer = some d ∧ s.now < d ∧ d = s.armedAt + s.cur ∧ s.armedAt ≤ s.now := by
  have hi := inv_reach hv s h
  have hsel : s.loop = .sel := by
    rcases running_cases hrun with hl | hl
    · have := hq .top rfl; simp [step, hl] at this
    · exact hl
  have htok : s.tokens = 0 := by
    rcases Nat.eq_zero_or_pos s.tokens with h0 | h0
    · exact h0
    · have := hq .deliver rfl; simp [step, hsel, h0] at this
  cases htm : s.timer with
  | none =>
    exfalso
    have hp0 : s.pending = 0 := by
      rcases hi.lost with hc | hc
      · simp [hcl] at hc
      · have := hc htm; omega
    exact hni ⟨htm, htok, hp0, hrun, hcl⟩
  | some d =>
    have hd : s.now < d := by
      rcases Nat.lt_or_ge s.now d with hlt | hge
      · exact hlt
      · have := hq .expire rfl; simp [step, htm, hsel, hge] at this
    obtain ⟨a, b⟩ := hi.armed d htm
    exact ⟨d, rfl, hd, a, b⟩

/-- A window opened by a token that lost the race against its own window's expiry (the expiry
already signalled its `Add`, so nothing is pending): it signals nothing when opened and nothing
when it ends — the state is not idle, and an `Add` arriving in it waits for the (extended) window. -/
theorem late_token_window_silent {cfg : Config} {s s' : State} (htm : s.timer = none)
    (hp : s.pending = 0) (hst : step cfg s .deliver = some s') :
    s'.fires = s.fires ∧ s'.timer = some (s.now + cfg.initial) ∧ s'.pending = 0 ∧
    ∃ s'', exec cfg s' [.top, .advance (s.now + cfg.initial), .expire] = some s'' ∧
      s''.fires = s.fires ∧ s''.timer = none :=
  late_token_aux htm hp hst

example : (exec demo0 (init demo0) [.runCall, .run, .top, .add, .deliver, .top, .add, .advance 100, .expire, .top]).map
      (fun s => (s.timer, s.pending, s.tokens, s.fires, (step demo0 s .deliver).isSome)) =
    some (none, 0, 1, 2, true) := by decide +kernel

example : (exec demo (init demo) [.runCall, .run, .top, .add, .deliver, .advance 100, .top, .expire, .top]).any
    (fun s => decide (Idle s ∧ s.fires = 1)) = true := by decide +kernel

/-! ### a burst inside one window yields a single signal, at its end -/

/-- No cap: however `Add`s, token deliveries, clock moves, receives, `Close`, cancellation …
interleave while a window stays open (no expiry handled), no signal is started, the window stays
open, and `pendingEvents` grows exactly by the accepted `Add`s. -/
theorem burst_no_signal_inside {cfg : Config} (hcap : cfg.cap = none) {s s' : State} {ls : List Label}
    (hopen : s.timer.isSome = true) (hrun : exec cfg s ls = some s') (hne : ∀ l ∈ ls, l ≠ .expire) :
    s'.fires = s.fires ∧ s'.timer.isSome = true ∧ s'.pending + s.adds = s.pending + s'.adds ∧
    s.adds ≤ s'.adds :=
  inwindow_exec hcap ls hopen hrun hne

/-- … and the expiry that ends the window starts exactly one signal for the whole burst (none if
nothing was added). -/
theorem burst_one_signal {cfg : Config} (hcap : cfg.cap = none) {s s' s'' : State} {ls : List Label}
    (hopen : s.timer.isSome = true) (hrun : exec cfg s ls = some s') (hne : ∀ l ∈ ls, l ≠ .expire)
    (hexp : step cfg s' .expire = some s'') :
    s''.timer = none ∧ s''.pending = 0 ∧
    s''.fires = s.fires + (if 0 < s.pending ∨ s.adds < s'.adds then 1 else 0) := by
  obtain ⟨h1, h2, h3, h4⟩ := inwindow_exec hcap ls hopen hrun hne
  obtain ⟨e1, e2, e3⟩ := expire_effect hexp
  refine ⟨e1, e2, ?_⟩
  rw [e3, h1]
  congr 1
  by_cases hp : 0 < s'.pending
  · have : 0 < s.pending ∨ s.adds < s'.adds := by omega
    simp [hp, this]
  · have : ¬ (0 < s.pending ∨ s.adds < s'.adds) := by omega
    simp [hp, this]

/-- hypotheses of `burst_one_signal` are satisfiable: window opened by a first add (1 signal), three
adds and two clock moves inside it without a signal, the expiry gives the second signal. -/
example : ((exec demo0 (init demo0) [.runCall, .run, .top, .add, .deliver]).bind fun s =>
    (exec demo0 s [.add, .add, .top, .deliver, .advance 150, .add, .top, .deliver, .top, .deliver, .advance 600, .top]).bind fun s' =>
    (step demo0 s' .expire).map fun s'' =>
      decide (s.timer.isSome = true ∧ s.fires = 1 ∧ s'.fires = 1 ∧ s'.adds = 4 ∧ s''.fires = 2 ∧ s''.timer = none)) = some true := by
  decide +kernel

/-! ### the window doubles from the initial delay up to the maximum -/

/-- In every reachable state (arithmetic in range) `currentDur` is the documented window length for
the number `wk` of tokens that extended the current window:
`initial`, then `min(max, float64(initial)·2^k)`. -/
theorem window_growth {cfg : Config} (hv : cfg.valid) {s : State} (h : Reach cfg s)
    (ho : s.ovf = false) : s.cur = grow cfg s.wk :=
  (winv_reach hv s h ho).1

/-- Below 2^53 ns (≈ 104 days) the float64 conversion is exact: `cur_k = min(max, initial·2^k)`. -/
theorem window_growth_exact {cfg : Config} (hv : cfg.valid) (hsmall : cfg.initial < 2 ^ 53)
    {s : State} (h : Reach cfg s) (ho : s.ovf = false) :
    s.cur = min cfg.max (cfg.initial * 2 ^ s.wk) := by
  rw [window_growth hv h ho, grow_exact hv hsmall]

/-- What a token does to the window: the first one opens it with the initial delay (`wk = 0`); a
later one that does not hit the cap re-arms the timer from now with the next length (`wk + 1`). -/
theorem window_steps {cfg : Config} {s s' : State} (hst : step cfg s .deliver = some s') :
    (s.timer = none → s'.wk = 0 ∧ s'.timer = some (s.now + cfg.initial)) ∧
    (s.timer.isSome = true → capReached cfg s = false →
      s'.wk = s.wk + 1 ∧ s'.timer = some (s.now + s'.cur)) :=
  deliver_window hst

example : (exec demo0 (init demo0) [.runCall, .run, .top, .add, .deliver, .add, .top, .deliver,
      .add, .top, .deliver, .add, .top, .deliver]).map (fun s => (s.wk, s.cur, s.factor, s.ovf)) =
    some (3, 400, 4, false) := by decide +kernel

/-! ### MaxPendingEvents reached ⇒ fires without waiting -/

/-- When the pending events have reached the cap there is a token in flight, and the limiter's own
steps alone (no clock move) start a signal that covers everything pending. -/
theorem cap_fires_now {cfg : Config} (hv : cfg.valid) {s : State} (h : Reach cfg s) {m : Nat}
    (hcap : cfg.cap = some m) (hrun : s.running = true) (hcl : s.closed = false)
    (hm : m ≤ s.pending) :
    0 < s.tokens ∧
    ∃ ls s', (∀ l ∈ ls, l.internal = true) ∧ exec cfg s ls = some s' ∧
      s'.fires = s.fires + 1 ∧ s'.pending = 0 ∧ s'.now = s.now :=
  cap_fires_aux hv (inv_reach hv s h) hcap hrun hcl hm

example : (exec demo (init demo) [.runCall, .run, .top, .add, .deliver, .add, .top, .deliver, .add]).map
      (fun s => (s.pending, s.tokens, s.timer, s.now, s.fires)) = some (2, 1, some 200, 0, 1) ∧
    (exec demo (init demo) [.runCall, .run, .top, .add, .deliver, .add, .top, .deliver, .add, .top, .deliver]).map
      (fun s => (s.pending, s.tokens, s.timer, s.now, s.fires)) = some (0, 0, some 200, 0, 2) := by decide +kernel

/-! ### an Add handled at `t` with an open window is signalled by `t + cur` -/

/-- The armed deadline is always (time of the last token that armed it) + `currentDur`. -/
theorem deadline_is_armedAt_plus_cur {cfg : Config} (hv : cfg.valid) {s : State} (h : Reach cfg s)
    {d : Nat} (htm : s.timer = some d) : d = s.armedAt + s.cur ∧ s.armedAt ≤ s.now :=
  (inv_reach hv s h).armed d htm

/-- A token handled at `t = s.now` in an open window (cap not reached) keeps everything pending,
re-arms the timer to `t + cur'`, and — unless a later token moves the window again — moving the
clock to `t + cur'` makes the expiry fire the signal at exactly that clock value. -/
theorem deadline_bound {cfg : Config} {s s' : State} (hopen : s.timer.isSome = true)
    (hnc : capReached cfg s = false) (hst : step cfg s .deliver = some s') (hp : 0 < s.pending) :
    s'.timer = some (s.now + s'.cur) ∧ s'.pending = s.pending ∧ s'.fires = s.fires ∧
    ∃ s'', exec cfg s' [.top, .advance (s.now + s'.cur), .expire] = some s'' ∧
      s''.fires = s.fires + 1 ∧ s''.now = s.now + s'.cur ∧ s''.pending = 0 :=
  deadline_bound_aux hopen hnc hst hp

example : ((exec demo0 (init demo0) [.runCall, .run, .top, .add, .deliver, .add, .top, .advance 30]).bind fun s =>
    (step demo0 s .deliver).map fun s' =>
      (s.timer.isSome, capReached demo0 s, s.pending, s'.timer)) = some (true, false, 1, some 230) := by
  decide +kernel

/-! ### universal timing: every urgent execution

The statements `no_add_lost`, `cap_fires_now`, `deadline_bound`, `first_after_idle_immediate`,
`close_returns` above are ∃-path statements (a continuation reaching the signal exists). The
theorems of this section quantify over EVERY execution: the limiter is never quiescent with an
overdue pending `Add` or with the cap reached, so in every execution in which the limiter's own
goroutines move before the clock advances further (`UrgentExec` — the harness's settle
discipline; the Go scheduler's latency is what the premise abstracts), the clock cannot pass a
pending `Add`'s window end, nor move at all while the cap is reached, without the signal. Any cap,
any consumer speed, any number of `Add` callers, `Close`/cancel anywhere. -/

/-- Never quiescent with an overdue pending `Add`: running, not closed, something pending and no
window end in the future ⇒ the loop head, a token delivery or the expiry is enabled. -/
theorem no_quiescent_overdue {cfg : Config} (hv : cfg.valid) {s : State} (h : Reach cfg s)
    (hrun : s.running = true) (hcl : s.closed = false) (hp : 0 < s.pending)
    (hdue : ∀ d, s.timer = some d → d ≤ s.now) :
    ¬ Quiescent cfg s ∧
    ((s.loop = .top ∧ (step cfg s .top).isSome = true) ∨
     (s.loop = .sel ∧ 0 < s.tokens ∧ (step cfg s .deliver).isSome = true) ∨
     (s.loop = .sel ∧ (step cfg s .expire).isSome = true)) := by
  have hnq := not_quiescent_overdue (inv_reach hv s h) hrun hcl hp hdue
  refine ⟨fun hq => ?_, hnq⟩
  rcases hnq with ⟨_, h⟩ | ⟨_, _, h⟩ | ⟨_, h⟩
  · simp [hq .top rfl] at h
  · simp [hq .deliver rfl] at h
  · simp [hq .expire rfl] at h

/-- In EVERY urgent execution from a reachable state `p` with `Add`s pending in an open window
(end `dp = armedAt + cur`, i.e. the last token was handled at `t = armedAt`): whenever the clock is
about to advance (from the state `q`, limiter still running and not closed), those `Add`s have been
signalled, or a window is armed whose end is still ahead — and once the clock has reached `dp`
that can only be a later window, opened or extended by a token handled after `t`. -/
theorem every_urgent_execution_signals_by_deadline {cfg : Config} (hv : cfg.valid)
    {p s' : State} {ls1 ls2 : List Label} {t2 dp : Nat} (hp : Reach cfg p)
    (hwin : p.timer = some dp) (hpend : 0 < p.pending)
    (hu : UrgentExec cfg p (ls1 ++ .advance t2 :: ls2) s') :
    dp = p.armedAt + p.cur ∧
    ∃ q, exec cfg p ls1 = some q ∧ Quiescent cfg q ∧
      (q.running = true → q.closed = false →
        p.fires < q.fires ∨
        ∃ d, q.timer = some d ∧ q.now < d ∧ 0 < q.pending ∧ (dp ≤ q.now → dp < d)) := by
  refine ⟨((inv_reach hv p hp).armed dp hwin).1, ?_⟩
  obtain ⟨q, e, hq, _⟩ := hu.advance_from_quiescent
  refine ⟨q, e, hq, fun hrun hcl => ?_⟩
  obtain ⟨f1, f2⟩ := fires_pending_exec ls1 e
  rcases Nat.lt_or_ge p.fires q.fires with hlt | hge
  · exact Or.inl hlt
  · right
    have hqp : 0 < q.pending := by have := f2 (by omega); omega
    have hqi := inv_reach hv q (reach_exec ls1 hp e)
    obtain ⟨d, hd, hnd⟩ := quiescent_pending_has_future_deadline hqi hq hrun hcl hqp
    exact ⟨d, hd, hnd, hqp, fun h => by omega⟩

/-- The cap, universally: with `MaxPendingEvents = m` reached the limiter is not quiescent — a token
is in flight and its delivery fires at the current clock value — so in every urgent execution the
clock does not move before the signal: at the next clock advance (limiter running, not closed)
the signal has been started, `pending < m`, and if no advance happened in between, at the very
clock value at which the cap was reached. -/
theorem every_urgent_execution_fires_at_cap {cfg : Config} (hv : cfg.valid)
    {p s' : State} {ls1 ls2 : List Label} {t2 m : Nat} (hp : Reach cfg p)
    (hcap : cfg.cap = some m) (hm : m ≤ p.pending) (hrunp : p.running = true) (hclp : p.closed = false)
    (hu : UrgentExec cfg p (ls1 ++ .advance t2 :: ls2) s') :
    ¬ Quiescent cfg p ∧ 0 < p.tokens ∧
    ∃ q, exec cfg p ls1 = some q ∧ Quiescent cfg q ∧
      (q.running = true → q.closed = false → p.fires < q.fires ∧ q.pending < m) ∧
      ((∀ l ∈ ls1, ∀ t, l ≠ .advance t) → q.now = p.now) := by
  have hpi := inv_reach hv p hp
  obtain ⟨htok, hen⟩ := not_quiescent_at_cap hv hpi hcap hrunp hclp hm
  refine ⟨fun hq => ?_, htok, ?_⟩
  · rcases hen with ⟨_, h⟩ | ⟨_, s1, h, _⟩
    · simp [hq .top rfl] at h
    · simp [hq .deliver rfl] at h
  obtain ⟨q, e, hq, _⟩ := hu.advance_from_quiescent
  refine ⟨q, e, hq, fun hrun hcl => ?_, fun hna => now_exec ls1 e hna⟩
  have hqi := inv_reach hv q (reach_exec ls1 hp e)
  have hlt := quiescent_below_cap hv hqi hcap hq hrun hcl
  obtain ⟨f1, f2⟩ := fires_pending_exec ls1 e
  refine ⟨?_, hlt⟩
  rcases Nat.lt_or_ge p.fires q.fires with h | h
  · exact h
  · have := f2 (by omega); omega

/-- Premises satisfiable: from a state with an `Add` pending in a window ending at 300, an urgent
execution in which the clock jumps to 350 (from a quiescent state) and can move on to 400 only
after the expiry has signalled; the same list without the expiry is not urgent. -/
example :
    ((exec demo0 (init demo0) [.runCall, .run, .top, .add, .deliver, .top, .consume, .advance 100, .add, .deliver, .top]).map
      fun p => (p.timer, p.pending, urgentOk demo0 p [.advance 350, .expire, .top, .consume, .advance 400],
                urgentOk demo0 p [.advance 350, .advance 400])) = some (some 300, 1, true, false) := by
  decide +kernel

/-! ### a window with a cap: one signal at its end, cap signals exactly at the cap -/

/-- Any cap. Inside an open window (no expiry handled) the only signals are cap signals: each is
started by the delivery of a token that finds `pending ≥ MaxPendingEvents`, at that clock value,
and covers everything pending; every other step leaves `fires` alone and does not lose a pending
`Add`. -/
theorem burst_capped_inside {cfg : Config} {s s' : State} {l : Label}
    (hopen : s.timer.isSome = true) (hne : l ≠ .expire) (hst : step cfg s l = some s') :
    s'.timer.isSome = true ∧
    ((s'.fires = s.fires ∧ s.pending ≤ s'.pending) ∨
     (l = .deliver ∧ capReached cfg s = true ∧ s'.fires = s.fires + 1 ∧ s'.pending = 0 ∧
      s'.now = s.now)) :=
  capped_window_step hopen hne hst

/-- Any cap. Over a whole window: the signals started inside it are exactly the cap signals
(`capFires` counts the deliveries that found the cap reached), the window stays open, and the expiry
ending it adds one more signal iff something is pending then. With `cap = none` this is
`burst_one_signal`. -/
theorem burst_capped {cfg : Config} {s s' s'' : State} {ls : List Label}
    (hopen : s.timer.isSome = true) (hrun : exec cfg s ls = some s') (hne : ∀ l ∈ ls, l ≠ .expire)
    (hexp : step cfg s' .expire = some s'') :
    s'.timer.isSome = true ∧ s'.fires = s.fires + capFires cfg s ls ∧
    s''.fires = s.fires + capFires cfg s ls + (if 0 < s'.pending then 1 else 0) ∧
    s''.timer = none ∧ s''.pending = 0 := by
  obtain ⟨h1, h2⟩ := capped_window_exec ls hopen hrun hne
  obtain ⟨e1, e2, e3⟩ := expire_effect hexp
  exact ⟨h1, h2, by rw [e3, h2], e1, e2⟩

example : ((exec demo (init demo) [.runCall, .run, .top, .add, .deliver, .top, .consume]).bind fun s =>
    (exec demo s [.add, .deliver, .top, .add, .deliver, .top, .add, .deliver, .top, .advance 700, ]).bind fun s' =>
    (step demo s' .expire).map fun s'' =>
      decide (s.timer.isSome = true ∧ s.fires = 1 ∧
        capFires demo s [.add, .deliver, .top, .add, .deliver, .top, .add, .deliver, .top, .advance 700] = 1 ∧
        s'.fires = 2 ∧ s'.pending = 1 ∧ s''.fires = 3)) = some true := by
  decide +kernel

/-! ### timelines: the signal times as an explicit function of the Add times -/

open Kit.Coalescing.Timeline in
/-- No cap, prompt consumer, running limiter. For every timeline `evs` of `Add`s and clock stops,
the LTS executed urgently (after each event the limiter's goroutines run until none is enabled —
`script`) runs to completion, the consumer receives exactly at the clock values `spec cfg {} evs`
— the function that restates the property: first `Add` without an open window at once, window
`initial`, each further `Add` in the window moves its end to `now + min(max, initial·2^k)`, one
signal at the end of a window iff an `Add` waited — and the final state is quiescent again. -/
theorem signals_timeline_spec {cfg : Config} (hv : cfg.valid) (hn : NoOvf cfg) (hcap : cfg.cap = none)
    (evs : List TEv) :
    ∃ s', exec cfg (init cfg) ([.runCall, .run, .top] ++ script cfg {} evs) = some s' ∧
      recvTimes cfg (start cfg) (script cfg {} evs) = spec cfg {} evs ∧
      Reach cfg s' ∧ (∀ l, l.internal = true → step cfg s' l = none) ∧
      s'.consumed = s'.fires ∧ s'.now = (specEnd cfg {} evs).now := by
  obtain ⟨s', e, r, t⟩ := rel_run hv hn hcap evs (start_rel cfg)
  refine ⟨s', ?_, t, r.reach, r.quiescent hv, r.allRecv, r.now⟩
  rw [exec_append, start_exec]; exact e

open Kit.Coalescing.Timeline in
/-- Continuous time (every window end is a clock stop): `Add`s at the clock values `ts` are
signalled exactly at `signalTimes cfg ts`. -/
theorem signals_timeline_continuous {cfg : Config} (hv : cfg.valid) (hn : NoOvf cfg) (hcap : cfg.cap = none)
    (ts : List Nat) :
    ∃ s', exec cfg (start cfg) (script cfg {} (expand cfg {} ts)) = some s' ∧
      recvTimes cfg (start cfg) (script cfg {} (expand cfg {} ts)) = signalTimes cfg ts := by
  obtain ⟨s', e, _, t⟩ := rel_run hv hn hcap (expand cfg {} ts) (start_rel cfg)
  exact ⟨s', e, t⟩

open Kit.Coalescing.Timeline in
/-- initial 100, max 400, no cap. One `Add`: signalled at once. Two `Add`s 30 apart: the second at
the end of the extended window 130 + 200. A burst 0,10,20,30: signals at 0 and at 30 + 400 (window
lengths 100, 200, 400, 400). `Add`s after the window closed (0, then 100 = exactly at its end): both
at once. The README's shape 500ms,1s,2s,4s,5s,5s: see `window_growth`. -/
example : signalTimes demo0 [7] = [7] ∧ signalTimes demo0 [100, 130] = [100, 330] ∧
    signalTimes demo0 [0, 10, 20, 30] = [0, 430] ∧ signalTimes demo0 [0, 100] = [0, 100] ∧
    signalTimes demo0 [0, 50, 249, 250, 1000] = [0, 650, 1000] ∧
    spec demo0 {} [.add, .adv 40, .add, .adv 500, .add] = [0, 500, 500] := by
  decide +kernel

/-! ### the back-off arithmetic stays inside int64 -/

/-- `MaxDelay < 2^62 ns` and `float64(InitialDelay) < 2^62` (e.g. `InitialDelay ≤ 2^62 − 257`, or
any `InitialDelay < 2^53`): `backoffFactor`, `currentDur` and the float64 product
`float64(initial)·float64(factor)` stay below 2^63 in every reachable state — the model's overflow
flag is never raised, so `int` never wraps and the float→int conversion is always exact. -/
theorem backoff_no_overflow {cfg : Config} (hv : cfg.valid) (hn : NoOvf cfg) {s : State}
    (h : Reach cfg s) :
    s.ovf = false ∧ s.factor < 2 ^ 63 ∧ f64OfNat cfg.initial * s.factor < 2 ^ 63 ∧
    s.cur ≤ cfg.max ∧ ∃ k, s.factor = 2 ^ k :=
  range_reach hv hn s h

/-- The side condition in the convenient form: any initial delay below 2^53 ns. -/
theorem noOvf_of_small {cfg : Config} (h1 : cfg.initial < 2 ^ 53) (h2 : cfg.max < 2 ^ 62) :
    NoOvf cfg := by
  refine ⟨h2, ?_⟩
  rw [f64_small h1]
  exact Nat.lt_trans h1 (by decide)

example : NoOvf { initial := 2 ^ 62 - 257, max := 2 ^ 62 - 1, cap := none } ∧
    ({ initial := 2 ^ 62 - 257, max := 2 ^ 62 - 1, cap := none } : Config).valid := by decide +kernel

/-- Why `initial ≤ max < 2^62` alone is not enough: `float64(2^62 − 2) = 2^62`, so with
`InitialDelay = 2^62 − 2 ns`, `MaxDelay = 2^62 − 1 ns` the second token of a window computes
`float64(initial)·2 = 2^63`, which does not fit `time.Duration`. -/
theorem backoff_overflow_witness :
    let cfg : Config := { initial := 2 ^ 62 - 2, max := 2 ^ 62 - 1, cap := none }
    cfg.valid ∧ cfg.max < 2 ^ 62 ∧ f64OfNat cfg.initial = 2 ^ 62 ∧
    (exec cfg (init cfg) [.runCall, .run, .top, .add, .deliver, .add, .top, .deliver]).map (·.ovf) = some true := by
  decide +kernel

/-! ### Close returns only when all helper goroutines have finished -/

/-- `Close` can return only from a state without helper goroutines (run loop, token goroutines,
sender goroutines) … -/
theorem close_waits_helpers {cfg : Config} {s s' : State} (hst : step cfg s .closeRet = some s') :
    s.tokens = 0 ∧ s.senders = 0 ∧ s.running = false := by
  simp only [step] at hst
  split at hst
  · next h =>
    have hh := h.2
    simp only [State.helpers] at hh
    refine ⟨by omega, by omega, ?_⟩
    cases hr : s.running <;> simp_all
  · cases hst

/-- … and once a `Close` has returned there never is a helper goroutine again, whatever is called
afterwards (`Add` is refused, a late `Run` returns at once). -/
theorem close_returned_no_helpers {cfg : Config} (hv : cfg.valid) {s : State} (h : Reach cfg s)
    (hc : 0 < s.closeReturned) : s.closed = true ∧ s.helpers = 0 := by
  have hi := inv_reach hv s h
  obtain ⟨h1, h2, h3⟩ := hi.clret hc
  exact ⟨hi.cl (Or.inr hc), by simp [State.helpers, h1, h2, h3]⟩

/-- After the repair `Close` can always complete: from every reachable state with a `Close`
waiting, steps of the limiter's own goroutines lead to a state where it returns. -/
theorem close_returns {cfg : Config} (hv : cfg.valid) {s : State} (h : Reach cfg s)
    (hw : 0 < s.closeWaiting) :
    ∃ ls s', (∀ l ∈ ls, l.internal = true) ∧ exec cfg s ls = some s' ∧
      (step cfg s' .closeRet).isSome = true :=
  close_returns_aux (inv_reach hv s h) hw

example : (exec demo (init demo) [.runCall, .run, .top, .add, .add, .deliver, .close]).map
      (fun s => (s.closeWaiting, s.tokens, s.senders, s.running)) = some (1, 1, 1, true) := by decide +kernel

/-! ### further `Run` calls, `Run` after `Close` -/

/-- Only one `Run` call ever passes the prologue: once the `running` flag is set, a further call
(at any time: while running, after `Run` returned, after `Close`) cannot start a loop; all it can
do is return "already running", which changes nothing but the call counters. -/
theorem second_run_rejected {cfg : Config} {s : State} (hc : s.casDone = true) (hp : 0 < s.runCalls) :
    step cfg s .run = none ∧
    step cfg s .runErrRet =
      some { s with runCalls := s.runCalls - 1, runErrReturned := s.runErrReturned + 1 } := by
  simp [step, hc, hp]

/-- The flag is set by the call that wins and is never reset. -/
theorem running_flag_monotone {cfg : Config} {s s' : State} {l : Label} (hc : s.casDone = true)
    (hst : step cfg s l = some s') : s'.casDone = true :=
  casDone_step hc hst

/-- A first `Run` issued after `Close`: it returns nil at once — it never enters the loop and adds
nothing to the wait group. -/
theorem run_after_close {cfg : Config} (hv : cfg.valid) {s : State} (h : Reach cfg s)
    (hcl : s.closed = true) (hc : s.casDone = false) (hp : 0 < s.runCalls) (hr : s.runReturned = false) :
    ∃ s1 s2, step cfg s .run = some s1 ∧ step cfg s1 .runRet = some s2 ∧
      s1.loop = .done ∧ s1.helpers = s.helpers ∧ s2.runReturned = true ∧ s1.fires = s.fires := by
  have hoff := (inv_reach hv s h).cas hc
  refine ⟨{ s with runCalls := s.runCalls - 1, casDone := true, loop := .done },
    { s with runCalls := s.runCalls - 1, casDone := true, loop := .done, runReturned := true }, ?_, ?_, rfl, ?_, rfl, rfl⟩
  · simp [step, hp, hc, hcl]
  · simp [step, hr]
  · simp [State.helpers, State.running, hoff]

example : (exec demo (init demo) [.runCall, .run, .top, .runCall, .add, .deliver, .runErrRet, .close, .runCall, .runErrRet]).map
      (fun s => (s.casDone, s.runCalls, s.runErrReturned, s.fires, s.loop)) = some (true, 0, 2, 1, .top) ∧
    (exec demo (init demo) [.close, .closeRet, .runCall, .run, .runRet, .runCall, .runErrRet]).map
      (fun s => (s.casDone, s.loop, s.runReturned, s.runErrReturned, s.helpers)) = some (true, .done, true, 1, 0) := by
  decide +kernel

/-- The code before the repair (`Close` waited for the wait group while holding `c.lock`): after
`Add; deliver` the run loop is at its head; a `Close` arriving there leaves *no* enabled
transition — the loop waits for the lock, `Close` waits for the loop. `Close` never returns. -/
theorem legacy_close_deadlock_witness :
    ∃ s, Legacy.lexec {} [.add, .top, .deliver, .closeCall] = some s ∧
      s.closeReturned = false ∧ ∀ l, Legacy.lstep s l = none := by
  refine ⟨_, rfl, rfl, ?_⟩
  intro l; cases l <;> rfl

/-! ### Round 8: every handled token leaves a window of at least the initial delay -/

/-- The history-based quiet window the harness monitors (`signal-before-window-end`): whatever the
state before, once the run loop has handled a token at clock `t = s.now` without hitting the cap,
a timer is armed whose end is at least `t + InitialDelay` (the token opened a window of the initial
delay, or moved the end of the open one to `t + min(max, initial·2^k) ≥ t + initial`). Together
with `burst_no_signal_inside` / `not_idle_means_recent_token`: nothing is signalled before that. -/
theorem token_leaves_quiet_window {cfg : Config} (hv : cfg.valid) (hsmall : cfg.initial < 2 ^ 53)
    {s s' : State} (h : Reach cfg s) (hst : step cfg s .deliver = some s')
    (hnc : capReached cfg s = false) (ho : s'.ovf = false) :
    ∃ d, s'.timer = some d ∧ s.now + cfg.initial ≤ d := by
  have hw := window_steps hst
  cases htm : s.timer with
  | none => exact ⟨_, (hw.1 htm).2, Nat.le_refl _⟩
  | some d0 =>
    have h2 := hw.2 (by simp [htm]) hnc
    have hcur := window_growth_exact hv hsmall (Reach.step .deliver h hst) ho
    refine ⟨_, h2.2, ?_⟩
    have h1 : cfg.initial ≤ cfg.initial * 2 ^ s'.wk :=
      Nat.le_mul_of_pos_right _ (Nat.pow_pos (by decide))
    have h3 : cfg.initial ≤ s'.cur := by
      rw [hcur]; exact Nat.le_min.mpr ⟨hv.2.1, h1⟩
    omega

end C09
